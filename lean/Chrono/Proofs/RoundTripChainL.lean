/-
  C13, third lemma file: the item lemmas stated for a value's context (what `format_item` writes for the
  value ⇒ what the reader sets), the derivation of the token chain from the syntactic predicate
  `Spec.separated`, and the invariant "every field of the record is the value's field" along the chain.
  Namespace `Chrono.Proofs.RoundTrip`.
-/
import Chrono.Proofs.RoundTripItemsL
import Chrono.Proofs.ParsedIsoL
import Chrono.Proofs.ParsedDtL
import Chrono.Proofs.Rfc3339L

namespace Chrono.Proofs.RoundTrip
open Chrono Chrono.M Chrono.M.Scan Chrono.Spec Chrono.Spec.Fields Chrono.Extracted Chrono.Proofs Chrono.Proofs.ParsedRes

/-- the context is one a real value shows: an existing day of the supported range, a valid time of
day, an offset strictly inside ±24 h -/
def CtxOk (c : Ctx) : Prop :=
  (∀ d, c.date = some d → ∃ Y o, VD Y o ∧ d = dateOfYo Y o) ∧
  (∀ t, c.time = some t → TValid t) ∧
  (∀ o, c.off = some o → -86400 < o.2 ∧ o.2 < 86400)

/-- accessor values and ranges of an existing day -/
theorem date_facts (Y : Int) (o : Nat) (h : VD Y o) :
    (dateOfYo Y o).year = Y ∧ (dateOfYo Y o).ordinal = o ∧ 1 ≤ o ∧ o ≤ 366 ∧ -262143 ≤ Y ∧ Y ≤ 262142 ∧
    (dateOfYo Y o).month = .ok (monthOfYo Y o) ∧ (dateOfYo Y o).day = .ok (dayOfYo Y o) ∧
    1 ≤ monthOfYo Y o ∧ monthOfYo Y o ≤ 12 ∧ 1 ≤ dayOfYo Y o ∧ dayOfYo Y o ≤ 31 ∧
    Format.weeks_from (dateOfYo Y o) .sun = weekNo Y o 6 ∧ Format.weeks_from (dateOfYo Y o) .mon = weekNo Y o 0 ∧
    0 ≤ weekNo Y o 6 ∧ weekNo Y o 6 ≤ 53 ∧ 0 ≤ weekNo Y o 0 ∧ weekNo Y o 0 ≤ 53 ∧
    (∃ w, (dateOfYo Y o).iso_week = .ok w ∧ 1 ≤ IsoWeek.week w ∧ IsoWeek.week w ≤ 53 ∧
      -1000000 < IsoWeek.year w ∧ IsoWeek.year w < 1000000) := by
  obtain ⟨hy, hord, _, hm, hd, _, ho⟩ := vd_fields Y o h
  obtain ⟨w1, w2, b1, b2, b3, b4⟩ := weeks_from_spec Y o h
  obtain ⟨v1, v2, v3, v4⟩ := h
  have hMIN : MIN_YEAR = -262143 := rfl
  have hMAX : MAX_YEAR = 262142 := rfl
  obtain ⟨_, _, hval, _⟩ := month_day_spec Y o v3 v4
  obtain ⟨m1, m2, m3, m4⟩ := Rfc3339.validYmd_bounds _ _ _ hval
  obtain ⟨IY, ot, t1, t2, t3, t4⟩ := iso_week_spec' Y o ⟨v1, v2⟩ ⟨v3, v4⟩
  have hylI := yearLen_ge IY
  obtain ⟨hf16, _, _, _⟩ := flagsOf_facts IY
  obtain ⟨f1, f2⟩ := ywf_fields IY ((ot - 1) / 7 + 1) (flagsOf IY) (by omega) hf16
  refine ⟨hy, hord, v3, ho, by omega, by omega, hm, hd, m1, m2, m3, m4, w1, w2, b1, b2, b3, b4,
    _, t4, by rw [f2]; omega, by rw [f2]; omega, ?_, ?_⟩
  all_goals
    rw [f1]
    have hyl := yearLen_ge Y
    unfold isoThursday weekdayOf dayNumYo daysBeforeYear at t3
    omega

theorem stops_of_spec (rest : List Nat) (h : startsNonDigit rest = true ∨ rest = []) : StopsDigits rest := by
  intro b t e
  rcases h with h | h
  · subst e; simpa [startsNonDigit] using h
  · subst h; cases e

theorem fieldCall_numeric (c : Ctx) (n : Numeric) (pad : Pad) (v : Int) (h : numVal c n = some v) :
    fieldCall c (.numeric n pad) = some (fun p => (Parse.numericSpec n).2.2 p v) := by
  simp only [fieldCall, h, Option.map_some]

/-- two-digit items, from the value -/
theorem two_digit_val (n : Numeric)
    (hn : n ∈ [Numeric.yearMod100, .isoYearMod100, .month, .day, .weekFromSun, .weekFromMon, .isoWeek,
      .hour, .hour12, .minute, .second])
    (v : Int) (hv : 0 ≤ v ∧ v < 100) (pad : Pad) (rest : List Nat) (hrest : StopsDigits rest ∨ pad = .zero) :
    InvertsAt (.numeric n pad) ⟨Format.write_two (asU8 v) pad, fun p => (Parse.numericSpec n).2.2 p v⟩ rest := by
  have e : v = ((v.toNat : Nat) : Int) := by omega
  rw [asU8_small v (by omega)]
  have h := write_two_numText v.toNat (by omega) pad
  have hr := stops_or_zero pad rest hrest
  rw [← e] at h
  simp only [List.mem_cons, List.not_mem_nil, or_false] at hn
  rcases hn with rfl | rfl | rfl | rfl | rfl | rfl | rfl | rfl | rfl | rfl | rfl <;>
    exact numText_inverts _ pad _ rest v 2 _ rfl rfl h hr

theorem one_digit_val (n : Numeric) (hn : n ∈ [Numeric.quarter, .numDaysFromSun, .weekdayFromMon])
    (v : Int) (hv : 0 ≤ v ∧ v < 10) (pad : Pad) (rest : List Nat) :
    InvertsAt (.numeric n pad) ⟨Format.write_one (asU8 v), fun p => (Parse.numericSpec n).2.2 p v⟩ rest := by
  have e : v = ((v.toNat : Nat) : Int) := by omega
  rw [asU8_small v (by omega)]
  have h := write_one_numText v.toNat (by omega)
  rw [← e] at h
  simp only [List.mem_cons, List.not_mem_nil, or_false] at hn
  rcases hn with rfl | rfl | rfl <;> exact numText_inverts _ pad _ rest v 1 true rfl rfl h (Or.inr rfl)

theorem wok_inj (a b : List Nat) (h : Format.wok a = Format.wok b) : a = b := by
  simpa [Format.wok] using h

theorem time_facts (t : Time) (h : TValid t) :
    0 ≤ t.hour ∧ t.hour < 24 ∧ 1 ≤ t.hour12.2 ∧ t.hour12.2 ≤ 12 ∧ 0 ≤ t.minute ∧ t.minute < 60 ∧
    0 ≤ t.second + t.nanosecond / 1000000000 ∧ t.second + t.nanosecond / 1000000000 ≤ 60 ∧
    0 ≤ t.nanosecond % 1000000000 ∧ t.nanosecond % 1000000000 < 1000000000 := by
  obtain ⟨h1, h2, h3, h4⟩ := h
  unfold Time.hour12 Time.hour Time.minute Time.second Time.nanosecond Time.hms
  dsimp only
  refine ⟨by omega, by omega, ?_, ?_, by omega, by omega, by omega, by omega, by omega, by omega⟩
  · split <;> omega
  · split <;> omega

/-- **numeric items, for a value's context**: whatever `format_numeric` writes for the item is read
back by the item's reader as exactly the number the item denotes (`numVal`) -/
theorem numeric_inverts_ctx (c : Ctx) (hc : CtxOk c) (n : Numeric) (pad : Pad) (text rest : List Nat)
    (hfmt : Format.format_numeric c.date c.time (c.off.map (·.2)) n pad = Format.wok text)
    (hexp : ItemExpr c (.numeric n pad)) (hrest : RestOk c (.numeric n pad) rest) :
    ∃ set, fieldCall c (.numeric n pad) = some set ∧ InvertsAt (.numeric n pad) ⟨text, set⟩ rest := by
  obtain ⟨hcd, hct, hco⟩ := hc
  have needDate : ∀ (P : Prop), (∀ Y o, VD Y o → c.date = some (dateOfYo Y o) → P) →
      (c.date = none → P) → P := by
    intro P h1 h2
    cases hd : c.date with
    | none => exact h2 hd
    | some d => obtain ⟨Y, o, hvd, rfl⟩ := hcd d hd; exact h1 Y o hvd hd
  have needTime : ∀ (P : Prop), (∀ t, TValid t → c.time = some t → P) → (c.time = none → P) → P := by
    intro P h1 h2
    cases ht : c.time with
    | none => exact h2 ht
    | some t => exact h1 t (hct t ht) ht
  have stop2 : ∀ {pad : Pad}, ((startsNonDigit rest = true ∨ rest = []) ∨ pad = .zero) →
      StopsDigits rest ∨ pad = .zero := fun h => h.imp (stops_of_spec rest) id
  cases n with
  | year =>
    apply needDate
    · intro Y o hvd hd
      obtain ⟨fy, _, _, _, y1, y2, _⟩ := date_facts Y o hvd
      rw [hd] at hfmt
      simp only [Format.format_numeric, fy] at hfmt
      obtain ⟨text', e1, e2⟩ := write_year_text Y pad ⟨by omega, by omega⟩
      have := wok_inj _ _ (e1.symm.trans hfmt); subst this
      have hv : numVal c .year = some Y := by simp [numVal, hd, fy]
      refine ⟨_, fieldCall_numeric c .year pad Y hv, snum_inverts .year pad _ rest Y _ rfl e2 ?_⟩
      rcases hrest with h | ⟨h1, h2⟩
      · exact Or.inl (stops_of_spec rest h)
      · exact Or.inr ⟨h1, h2 Y hv⟩
    · intro hd; rw [hd] at hfmt; cases hfmt
  | isoYear =>
    apply needDate
    · intro Y o hvd hd
      obtain ⟨_, _, _, _, _, _, _, _, _, _, _, _, _, _, _, _, _, _, w, hw, _, _, w3, w4⟩ := date_facts Y o hvd
      rw [hd] at hfmt
      simp only [Format.format_numeric, Format.W.ofRes, hw] at hfmt
      obtain ⟨text', e1, e2⟩ := write_year_text (IsoWeek.year w) pad ⟨by omega, by omega⟩
      have := wok_inj _ _ (e1.symm.trans hfmt); subst this
      have hv : numVal c .isoYear = some (IsoWeek.year w) := by simp [numVal, hd, hw]
      refine ⟨_, fieldCall_numeric c .isoYear pad _ hv, snum_inverts .isoYear pad _ rest _ _ rfl e2 ?_⟩
      rcases hrest with h | ⟨h1, h2⟩
      · exact Or.inl (stops_of_spec rest h)
      · exact Or.inr ⟨h1, h2 _ hv⟩
    · intro hd; rw [hd] at hfmt; cases hfmt
  | yearDiv100 =>
    apply needDate
    · intro Y o hvd hd
      obtain ⟨fy, _⟩ := date_facts Y o hvd
      have hy : numVal c .year = some Y := by simp [numVal, hd, fy]
      have hr := hexp Y hy
      rw [hd] at hfmt
      simp only [Format.format_numeric, fy] at hfmt
      have ht := wok_inj _ _ hfmt; subst ht
      have hv : numVal c .yearDiv100 = some (Y / 100) := by simp [numVal, hd, fy]
      refine ⟨_, fieldCall_numeric c .yearDiv100 pad _ hv, ?_⟩
      have e : Y / 100 = (((Y / 100).toNat : Nat) : Int) := by omega
      have h := write_n2_numText (Y / 100).toNat (by omega) pad
      rw [← e] at h
      exact numText_inverts .yearDiv100 pad _ rest (Y / 100) 2 _ rfl rfl h (stops_or_zero pad rest (stop2 hrest))
    · intro hd; rw [hd] at hfmt; cases hfmt
  | isoYearDiv100 =>
    apply needDate
    · intro Y o hvd hd
      obtain ⟨_, _, _, _, _, _, _, _, _, _, _, _, _, _, _, _, _, _, w, hw, _, _, w3, w4⟩ := date_facts Y o hvd
      have hy : numVal c .isoYear = some (IsoWeek.year w) := by simp [numVal, hd, hw]
      have hr := hexp _ hy
      rw [hd] at hfmt
      simp only [Format.format_numeric, Format.W.ofRes, hw] at hfmt
      have ht := wok_inj _ _ hfmt; subst ht
      have hv : numVal c .isoYearDiv100 = some (IsoWeek.year w / 100) := by simp [numVal, hd, hw]
      refine ⟨_, fieldCall_numeric c .isoYearDiv100 pad _ hv, ?_⟩
      have e : IsoWeek.year w / 100 = (((IsoWeek.year w / 100).toNat : Nat) : Int) := by omega
      have h := write_n2_numText (IsoWeek.year w / 100).toNat (by omega) pad
      rw [← e] at h
      exact numText_inverts .isoYearDiv100 pad _ rest _ 2 _ rfl rfl h (stops_or_zero pad rest (stop2 hrest))
    · intro hd; rw [hd] at hfmt; cases hfmt
  | yearMod100 =>
    apply needDate
    · intro Y o hvd hd
      obtain ⟨fy, _⟩ := date_facts Y o hvd
      rw [hd] at hfmt
      simp only [Format.format_numeric, fy] at hfmt
      have ht := wok_inj _ _ hfmt; subst ht
      have hv : numVal c .yearMod100 = some (Y % 100) := by simp [numVal, hd, fy]
      exact ⟨_, fieldCall_numeric c .yearMod100 pad _ hv,
        two_digit_val .yearMod100 (by simp) _ ⟨by omega, by omega⟩ pad rest (stop2 hrest)⟩
    · intro hd; rw [hd] at hfmt; cases hfmt
  | isoYearMod100 =>
    apply needDate
    · intro Y o hvd hd
      obtain ⟨_, _, _, _, _, _, _, _, _, _, _, _, _, _, _, _, _, _, w, hw, _⟩ := date_facts Y o hvd
      rw [hd] at hfmt
      simp only [Format.format_numeric, Format.W.ofRes, hw] at hfmt
      have ht := wok_inj _ _ hfmt; subst ht
      have hv : numVal c .isoYearMod100 = some (IsoWeek.year w % 100) := by simp [numVal, hd, hw]
      exact ⟨_, fieldCall_numeric c .isoYearMod100 pad _ hv,
        two_digit_val .isoYearMod100 (by simp) _ ⟨by omega, by omega⟩ pad rest (stop2 hrest)⟩
    · intro hd; rw [hd] at hfmt; cases hfmt
  | quarter =>
    apply needDate
    · intro Y o hvd hd
      obtain ⟨_, _, _, _, _, _, hm, _, m1, m2, _⟩ := date_facts Y o hvd
      rw [hd] at hfmt
      simp only [Format.format_numeric, Format.W.ofRes, hm] at hfmt
      have ht := wok_inj _ _ hfmt; subst ht
      have hv : numVal c .quarter = some (Format.quarter (monthOfYo Y o)) := by simp [numVal, hd, hm]
      refine ⟨_, fieldCall_numeric c .quarter pad _ hv, one_digit_val .quarter (by simp) _ ?_ pad rest⟩
      unfold Format.quarter; omega
    · intro hd; rw [hd] at hfmt; cases hfmt
  | month =>
    apply needDate
    · intro Y o hvd hd
      obtain ⟨_, _, _, _, _, _, hm, _, m1, m2, _⟩ := date_facts Y o hvd
      rw [hd] at hfmt
      simp only [Format.format_numeric, Format.W.ofRes, hm] at hfmt
      have ht := wok_inj _ _ hfmt; subst ht
      have hv : numVal c .month = some ((monthOfYo Y o : Nat) : Int) := by simp [numVal, hd, hm]
      exact ⟨_, fieldCall_numeric c .month pad _ hv,
        two_digit_val .month (by simp) _ ⟨by omega, by omega⟩ pad rest (stop2 hrest)⟩
    · intro hd; rw [hd] at hfmt; cases hfmt
  | day =>
    apply needDate
    · intro Y o hvd hd
      obtain ⟨_, _, _, _, _, _, _, hdd, _, _, d1, d2, _⟩ := date_facts Y o hvd
      rw [hd] at hfmt
      simp only [Format.format_numeric, Format.W.ofRes, hdd] at hfmt
      have ht := wok_inj _ _ hfmt; subst ht
      have hv : numVal c .day = some ((dayOfYo Y o : Nat) : Int) := by simp [numVal, hd, hdd]
      exact ⟨_, fieldCall_numeric c .day pad _ hv,
        two_digit_val .day (by simp) _ ⟨by omega, by omega⟩ pad rest (stop2 hrest)⟩
    · intro hd; rw [hd] at hfmt; cases hfmt
  | weekFromSun =>
    apply needDate
    · intro Y o hvd hd
      obtain ⟨_, _, _, _, _, _, _, _, _, _, _, _, ws, _, b1, b2, _⟩ := date_facts Y o hvd
      rw [hd] at hfmt
      simp only [Format.format_numeric] at hfmt
      have ht := wok_inj _ _ hfmt; subst ht
      have hv : numVal c .weekFromSun = some (Format.weeks_from (dateOfYo Y o) .sun) := by simp [numVal, hd]
      exact ⟨_, fieldCall_numeric c .weekFromSun pad _ hv,
        two_digit_val .weekFromSun (by simp) _ ⟨by omega, by omega⟩ pad rest (stop2 hrest)⟩
    · intro hd; rw [hd] at hfmt; cases hfmt
  | weekFromMon =>
    apply needDate
    · intro Y o hvd hd
      obtain ⟨_, _, _, _, _, _, _, _, _, _, _, _, _, wm, _, _, b3, b4, _⟩ := date_facts Y o hvd
      rw [hd] at hfmt
      simp only [Format.format_numeric] at hfmt
      have ht := wok_inj _ _ hfmt; subst ht
      have hv : numVal c .weekFromMon = some (Format.weeks_from (dateOfYo Y o) .mon) := by simp [numVal, hd]
      exact ⟨_, fieldCall_numeric c .weekFromMon pad _ hv,
        two_digit_val .weekFromMon (by simp) _ ⟨by omega, by omega⟩ pad rest (stop2 hrest)⟩
    · intro hd; rw [hd] at hfmt; cases hfmt
  | isoWeek =>
    apply needDate
    · intro Y o hvd hd
      obtain ⟨_, _, _, _, _, _, _, _, _, _, _, _, _, _, _, _, _, _, w, hw, w1, w2, _⟩ := date_facts Y o hvd
      rw [hd] at hfmt
      simp only [Format.format_numeric, Format.W.ofRes, hw] at hfmt
      have ht := wok_inj _ _ hfmt; subst ht
      have hv : numVal c .isoWeek = some (IsoWeek.week w) := by simp [numVal, hd, hw]
      exact ⟨_, fieldCall_numeric c .isoWeek pad _ hv,
        two_digit_val .isoWeek (by simp) _ ⟨by omega, by omega⟩ pad rest (stop2 hrest)⟩
    · intro hd; rw [hd] at hfmt; cases hfmt
  | numDaysFromSun =>
    apply needDate
    · intro Y o hvd hd
      rw [hd] at hfmt
      simp only [Format.format_numeric] at hfmt
      have ht := wok_inj _ _ hfmt; subst ht
      have hv : numVal c .numDaysFromSun = some (((dateOfYo Y o).weekday.num_days_from_sunday : Nat) : Int) := by
        simp [numVal, hd]
      refine ⟨_, fieldCall_numeric c .numDaysFromSun pad _ hv, one_digit_val .numDaysFromSun (by simp) _ ?_ pad rest⟩
      cases (dateOfYo Y o).weekday <;> decide
    · intro hd; rw [hd] at hfmt; cases hfmt
  | weekdayFromMon =>
    apply needDate
    · intro Y o hvd hd
      rw [hd] at hfmt
      simp only [Format.format_numeric] at hfmt
      have ht := wok_inj _ _ hfmt; subst ht
      have hv : numVal c .weekdayFromMon = some (((dateOfYo Y o).weekday.number_from_monday : Nat) : Int) := by
        simp [numVal, hd]
      refine ⟨_, fieldCall_numeric c .weekdayFromMon pad _ hv, one_digit_val .weekdayFromMon (by simp) _ ?_ pad rest⟩
      cases (dateOfYo Y o).weekday <;> decide
    · intro hd; rw [hd] at hfmt; cases hfmt
  | ordinal =>
    apply needDate
    · intro Y o hvd hd
      obtain ⟨_, fo, o1, o2, _⟩ := date_facts Y o hvd
      rw [hd] at hfmt
      simp only [Format.format_numeric, fo] at hfmt
      have ht := wok_inj _ _ hfmt; subst ht
      have hv : numVal c .ordinal = some ((o : Nat) : Int) := by simp [numVal, hd, fo]
      exact ⟨_, fieldCall_numeric c .ordinal pad _ hv,
        numText_inverts .ordinal pad _ rest o 3 _ rfl rfl (write_n3_numText o (by omega) pad)
          (stops_or_zero pad rest (stop2 hrest))⟩
    · intro hd; rw [hd] at hfmt; cases hfmt
  | hour =>
    apply needTime
    · intro t htv ht
      obtain ⟨a1, a2, _⟩ := time_facts t htv
      rw [ht] at hfmt
      have hf : Format.format_numeric c.date (some t) (c.off.map (·.2)) .hour pad =
          Format.wok (Format.write_two (asU8 t.hour) pad) := by cases c.date <;> rfl
      have htx := wok_inj _ _ (hf.symm.trans hfmt); subst htx
      have hv : numVal c .hour = some t.hour := by simp [numVal, ht]
      exact ⟨_, fieldCall_numeric c .hour pad _ hv,
        two_digit_val .hour (by simp) _ ⟨by omega, by omega⟩ pad rest (stop2 hrest)⟩
    · intro ht; rw [ht] at hfmt; cases hd : c.date <;> rw [hd] at hfmt <;> cases hfmt
  | hour12 =>
    apply needTime
    · intro t htv ht
      obtain ⟨_, _, a1, a2, _⟩ := time_facts t htv
      rw [ht] at hfmt
      have hf : Format.format_numeric c.date (some t) (c.off.map (·.2)) .hour12 pad =
          Format.wok (Format.write_two (asU8 t.hour12.2) pad) := by cases c.date <;> rfl
      have htx := wok_inj _ _ (hf.symm.trans hfmt); subst htx
      have hv : numVal c .hour12 = some t.hour12.2 := by simp [numVal, ht]
      exact ⟨_, fieldCall_numeric c .hour12 pad _ hv,
        two_digit_val .hour12 (by simp) _ ⟨by omega, by omega⟩ pad rest (stop2 hrest)⟩
    · intro ht; rw [ht] at hfmt; cases hd : c.date <;> rw [hd] at hfmt <;> cases hfmt
  | minute =>
    apply needTime
    · intro t htv ht
      obtain ⟨_, _, _, _, a1, a2, _⟩ := time_facts t htv
      rw [ht] at hfmt
      have hf : Format.format_numeric c.date (some t) (c.off.map (·.2)) .minute pad =
          Format.wok (Format.write_two (asU8 t.minute) pad) := by cases c.date <;> rfl
      have htx := wok_inj _ _ (hf.symm.trans hfmt); subst htx
      have hv : numVal c .minute = some t.minute := by simp [numVal, ht]
      exact ⟨_, fieldCall_numeric c .minute pad _ hv,
        two_digit_val .minute (by simp) _ ⟨by omega, by omega⟩ pad rest (stop2 hrest)⟩
    · intro ht; rw [ht] at hfmt; cases hd : c.date <;> rw [hd] at hfmt <;> cases hfmt
  | second =>
    apply needTime
    · intro t htv ht
      obtain ⟨_, _, _, _, _, _, a1, a2, _⟩ := time_facts t htv
      rw [ht] at hfmt
      have hf : Format.format_numeric c.date (some t) (c.off.map (·.2)) .second pad =
          Format.wok (Format.write_two (asU8 (t.second + t.nanosecond / 1000000000)) pad) := by
        cases c.date <;> rfl
      have htx := wok_inj _ _ (hf.symm.trans hfmt); subst htx
      have hv : numVal c .second = some (t.second + t.nanosecond / 1000000000) := by simp [numVal, ht]
      exact ⟨_, fieldCall_numeric c .second pad _ hv,
        two_digit_val .second (by simp) _ ⟨by omega, by omega⟩ pad rest (stop2 hrest)⟩
    · intro ht; rw [ht] at hfmt; cases hd : c.date <;> rw [hd] at hfmt <;> cases hfmt
  | nanosecond =>
    apply needTime
    · intro t htv ht
      obtain ⟨_, _, _, _, _, _, _, _, a1, a2⟩ := time_facts t htv
      rw [ht] at hfmt
      have hf : Format.format_numeric c.date (some t) (c.off.map (·.2)) .nanosecond pad =
          Format.wok (Format.write_n 9 (t.nanosecond % 1000000000) pad false) := by cases c.date <;> rfl
      have htx := wok_inj _ _ (hf.symm.trans hfmt); subst htx
      have hv : numVal c .nanosecond = some (t.nanosecond % 1000000000) := by simp [numVal, ht]
      refine ⟨_, fieldCall_numeric c .nanosecond pad _ hv, ?_⟩
      have h := unum_inverts .nanosecond pad _ rest _ 9 _ rfl rfl (write_nano_text _ pad ⟨a1, a2⟩)
        (stop2 hrest)
      have e : (((t.nanosecond % 1000000000).toNat : Nat) : Int) = t.nanosecond % 1000000000 := by omega
      rw [e] at h
      exact h
    · intro ht; rw [ht] at hfmt; cases hd : c.date <;> rw [hd] at hfmt <;> cases hfmt
  | timestamp =>
    apply needDate
    · intro Y o hvd hd
      apply needTime
      · intro t htv ht
        obtain ⟨s1, s2, s3⟩ := ParsedRes.timestamp_spec Y o t hvd htv
        have hoff : -86400 < (c.off.map (·.2)).getD 0 ∧ (c.off.map (·.2)).getD 0 < 86400 := by
          cases ho : c.off with
          | none => simp
          | some x => simpa using hco x ho
        rw [hd, ht] at hfmt
        simp only [Format.format_numeric, Format.W.ofRes, s1] at hfmt
        rw [ckI64_ok (by omega) (by omega)] at hfmt
        have htx := wok_inj _ _ hfmt; subst htx
        have hv : numVal c .timestamp = some (timestampIs.instSecsLocal ⟨dateOfYo Y o, t⟩ - (c.off.map (·.2)).getD 0) := by
          simp [numVal, hd, ht, s1]
        exact ⟨_, fieldCall_numeric c .timestamp pad _ hv,
          snum_inverts .timestamp pad _ rest _ False rfl
            (write_timestamp_text _ pad ⟨by omega, by omega⟩) (Or.inl (stops_of_spec rest hrest))⟩
      · intro ht; rw [hd, ht] at hfmt; cases hfmt
    · intro hd; rw [hd] at hfmt; cases ht : c.time <;> rw [ht] at hfmt <;> cases hfmt

theorem invertsAt_congr (it : Item) (text rest : List Nat) (set set' : Parsed → PRes Parsed)
    (h : ∀ p, set p = set' p) (hi : InvertsAt it ⟨text, set⟩ rest) : InvertsAt it ⟨text, set'⟩ rest := by
  intro p; have := hi p; simp only [h p] at this; exact this

theorem wsRunAux_chars : ∀ (fuel : Nat) (s : List Nat), wsRunAux fuel s = true →
    ∃ cs, WsChars cs ∧ cs.flatten = s
  | _, [], _ => ⟨[], fun c hc => (by cases hc), rfl⟩
  | 0, _ :: _, h => by simp [wsRunAux] at h
  | fuel + 1, b :: rest, h => by
    simp only [wsRunAux, Bool.and_eq_true, bne_iff_ne, ne_eq] at h
    obtain ⟨c, r, e, hl, hne, hw⟩ := wsLen_prefix (b :: rest) h.1
    have hd : (b :: rest).drop (wsLen (b :: rest)) = r := by
      rw [← hl]
      calc (b :: rest).drop c.length = (c ++ r).drop c.length := by rw [← e]
        _ = r := List.drop_left
    obtain ⟨cs, hcs, hf⟩ := wsRunAux_chars fuel r (by rw [← hd]; exact h.2)
    refine ⟨c :: cs, ?_, by rw [List.flatten_cons, hf, e]⟩
    intro c' hc'
    rcases List.mem_cons.mp hc' with rfl | hc'
    · exact ⟨hne, hw⟩
    · exact hcs c' hc'

/-- a run of white-space characters (what a white-space item of a format holds) splits into its
characters -/
theorem wsRun_chars (s : List Nat) (h : wsRun s = true) : ∃ cs, WsChars cs ∧ cs.flatten = s :=
  wsRunAux_chars s.length s h

/-- a run of white-space characters does not start with a digit or a dot -/
theorem wsRun_head (a : Nat) (t : List Nat) (h : wsRun (a :: t) = true) : a ≠ 46 := by
  intro e
  subst e
  simp [wsRun, wsRunAux, wsLen] at h

/-- **fixed items, for a value's context** -/
theorem fixed_inverts_ctx (c : Ctx) (hc : CtxOk c) (f : Fixed) (hp : provedItem (.fixed f) = true)
    (text rest : List Nat) (hfmt : Format.format_fixed c.date c.time c.off f = Format.wok text)
    (hrest : RestOk c (.fixed f) rest) :
    ∃ set, fieldCall c (.fixed f) = some set ∧ InvertsAt (.fixed f) ⟨text, set⟩ rest := by
  obtain ⟨hcd, hct, hco⟩ := hc
  have needDate : ∀ (P : Prop), (∀ Y o, VD Y o → c.date = some (dateOfYo Y o) → P) →
      (c.date = none → P) → P := by
    intro P h1 h2
    cases hd : c.date with
    | none => exact h2 hd
    | some d => obtain ⟨Y, o, hvd, rfl⟩ := hcd d hd; exact h1 Y o hvd hd
  have needTime : ∀ (P : Prop), (∀ t, TValid t → c.time = some t → P) → (c.time = none → P) → P := by
    intro P h1 h2
    cases ht : c.time with
    | none => exact h2 ht
    | some t => exact h1 t (hct t ht) ht
  have monthCase : ∀ (long : Bool) (f : Fixed), f = (if long then Fixed.longMonthName else .shortMonthName) →
      Format.format_fixed c.date c.time c.off f = Format.wok text →
      ∃ set, fieldCall c (.fixed f) = some set ∧ InvertsAt (.fixed f) ⟨text, set⟩ rest := by
    intro long f hf hfmt
    apply needDate
    · intro Y o hvd hd
      obtain ⟨_, _, _, _, _, _, hm, _, m1, m2, _⟩ := date_facts Y o hvd
      have hv : numVal c .month = some ((monthOfYo Y o : Nat) : Int) := by simp [numVal, hd, hm]
      obtain ⟨r1, r2⟩ := month_name_reads (monthOfYo Y o - 1) (by omega) text rest
      have hcast : (((monthOfYo Y o - 1 : Nat) : Nat) : Int) + 1 = ((monthOfYo Y o : Nat) : Int) := by omega
      rw [hd] at hfmt
      cases long
      · subst hf
        simp only [Bool.false_eq_true, if_false, Format.format_fixed, Format.W.ofRes, hm] at hfmt
        have ht := wok_inj _ _ hfmt
        refine ⟨fun p => p.set_month (monthOfYo Y o), by simp [fieldCall, hv], ?_⟩
        intro p
        simp only [Bool.false_eq_true, if_false, step, Parse.parseItemBase, Parse.parseFixedBase, r1 (by rw [ht]), hcast]
      · subst hf
        simp only [if_true, Format.format_fixed, Format.W.ofRes, hm] at hfmt
        have ht := wok_inj _ _ hfmt
        refine ⟨fun p => p.set_month (monthOfYo Y o), by simp [fieldCall, hv], ?_⟩
        intro p
        simp only [if_true, step, Parse.parseItemBase, Parse.parseFixedBase, r2 (by rw [ht]), hcast]
    · intro hd; rw [hd] at hfmt; cases long <;> subst hf <;> cases hfmt
  have wdCase : ∀ (long : Bool) (f : Fixed), f = (if long then Fixed.longWeekdayName else .shortWeekdayName) →
      Format.format_fixed c.date c.time c.off f = Format.wok text →
      ∃ set, fieldCall c (.fixed f) = some set ∧ InvertsAt (.fixed f) ⟨text, set⟩ rest := by
    intro long f hf hfmt
    apply needDate
    · intro Y o hvd hd
      obtain ⟨r1, r2⟩ := weekday_name_reads (dateOfYo Y o).weekday text rest
      rw [hd] at hfmt
      cases long
      · subst hf
        simp only [Bool.false_eq_true, if_false, Format.format_fixed] at hfmt
        have ht := wok_inj _ _ hfmt
        refine ⟨fun p => p.set_weekday (dateOfYo Y o).weekday, by simp [fieldCall, hd], ?_⟩
        intro p
        simp only [Bool.false_eq_true, if_false, step, Parse.parseItemBase, Parse.parseFixedBase, r1 (by rw [ht])]
      · subst hf
        simp only [if_true, Format.format_fixed] at hfmt
        have ht := wok_inj _ _ hfmt
        refine ⟨fun p => p.set_weekday (dateOfYo Y o).weekday, by simp [fieldCall, hd], ?_⟩
        intro p
        simp only [if_true, step, Parse.parseItemBase, Parse.parseFixedBase, r2 (by rw [ht])]
    · intro hd; rw [hd] at hfmt; cases long <;> subst hf <;> cases hfmt
  have ampmCase : ∀ (f : Fixed), (f = .lowerAmPm ∨ f = .upperAmPm) →
      Format.format_fixed c.date c.time c.off f = Format.wok text →
      ∃ set, fieldCall c (.fixed f) = some set ∧ InvertsAt (.fixed f) ⟨text, set⟩ rest := by
    intro f hf hfmt
    apply needTime
    · intro t _ ht
      rw [ht] at hfmt
      have hfc : fieldCall c (.fixed f) = some (fun p => p.set_ampm t.hour12.1) := by
        rcases hf with rfl | rfl <;> simp [fieldCall, ht]
      refine ⟨_, hfc, ?_⟩
      have htext : ∃ a b, text = [a, b] ∧ lowerB a = (if t.hour12.1 then 112 else 97) ∧ lowerB b = 109 := by
        rcases hf with rfl | rfl
        · have : Format.format_fixed c.date (some t) c.off .lowerAmPm =
              Format.wok (lowerS (LOC_AM_PM.getD (if t.hour12.1 then 1 else 0) [])) := by cases c.date <;> rfl
          have e := wok_inj _ _ (this.symm.trans hfmt)
          cases hpm : t.hour12.1 <;> rw [hpm] at e <;> subst e <;> exact ⟨_, _, rfl, by decide, by decide⟩
        · have : Format.format_fixed c.date (some t) c.off .upperAmPm =
              Format.wok (LOC_AM_PM.getD (if t.hour12.1 then 1 else 0) []) := by cases c.date <;> rfl
          have e := wok_inj _ _ (this.symm.trans hfmt)
          cases hpm : t.hour12.1 <;> rw [hpm] at e <;> subst e <;> exact ⟨_, _, rfl, by decide, by decide⟩
      obtain ⟨a, b, rfl, ha, hb⟩ := htext
      exact ampm_inverts f hf t.hour12.1 a b rest ha hb
    · intro ht; rw [ht] at hfmt
      rcases hf with rfl | rfl <;> cases hd : c.date <;> rw [hd] at hfmt <;> cases hfmt
  cases f with
  | shortMonthName => exact monthCase false _ rfl hfmt
  | longMonthName => exact monthCase true _ rfl hfmt
  | shortWeekdayName => exact wdCase false _ rfl hfmt
  | longWeekdayName => exact wdCase true _ rfl hfmt
  | lowerAmPm => exact ampmCase _ (Or.inl rfl) hfmt
  | upperAmPm => exact ampmCase _ (Or.inr rfl) hfmt
  | nanosecond =>
    apply needTime
    · intro t htv ht
      obtain ⟨_, _, _, _, _, _, _, _, a1, a2⟩ := time_facts t htv
      rw [ht] at hfmt
      have hf : Format.format_fixed c.date (some t) c.off .nanosecond =
          (let nano := t.nanosecond % 1000000000
           if nano = 0 then Format.wok []
           else if nano % 1000000 = 0 then Format.wok ([46] ++ Format.fmtInt (nano / 1000000) 3 .zero false)
           else if nano % 1000 = 0 then Format.wok ([46] ++ Format.fmtInt (nano / 1000) 6 .zero false)
           else Format.wok ([46] ++ Format.fmtInt nano 9 .zero false)) := by cases c.date <;> rfl
      rw [hf] at hfmt
      dsimp only at hfmt
      refine ⟨_, (by simp only [fieldCall, ht, Option.map_some] <;> rfl), ?_⟩
      have hst := stops_of_spec rest hrest.1
      have p3 : ((10 ^ (9 - 3) : Nat) : Int) = 1000000 := by norm_num
      have p6 : ((10 ^ (9 - 6) : Nat) : Int) = 1000 := by norm_num
      have p9 : ((10 ^ (9 - 9) : Nat) : Int) = 1 := by norm_num
      generalize t.nanosecond % 1000000000 = nano at *
      by_cases h0 : nano = 0
      · rw [if_pos h0] at hfmt
        have := wok_inj _ _ hfmt; subst this
        exact invertsAt_congr _ _ _ _ _ (fun p => by simp only [Time.nanosecond] at *; simp [h0])
          (frac_empty_inverts rest hrest.2)
      · rw [if_neg h0] at hfmt
        by_cases h3 : nano % 1000000 = 0
        · rw [if_pos h3] at hfmt
          have := wok_inj _ _ hfmt; subst this
          exact invertsAt_congr _ _ _ _ _ (fun p => by rw [if_neg h0, p3]; congr 1; omega)
            (frac_dot_inverts .nanosecond (Or.inl rfl) (nano / 1000000) 3 (by omega) (by omega) (by omega)
              (by norm_num; omega) rest hst)
        · rw [if_neg h3] at hfmt
          by_cases h6 : nano % 1000 = 0
          · rw [if_pos h6] at hfmt
            have := wok_inj _ _ hfmt; subst this
            exact invertsAt_congr _ _ _ _ _ (fun p => by rw [if_neg h0, p6]; congr 1; omega)
              (frac_dot_inverts .nanosecond (Or.inl rfl) (nano / 1000) 6 (by omega) (by omega) (by omega)
                (by norm_num; omega) rest hst)
          · rw [if_neg h6] at hfmt
            have := wok_inj _ _ hfmt; subst this
            exact invertsAt_congr _ _ _ _ _ (fun p => by rw [if_neg h0, p9]; congr 1; omega)
              (frac_dot_inverts .nanosecond (Or.inl rfl) nano 9 (by omega) (by omega) (by omega)
                (by norm_num; omega) rest hst)
    · intro ht; rw [ht] at hfmt; cases hd : c.date <;> rw [hd] at hfmt <;> cases hfmt
  | nanosecond3 =>
    apply needTime
    · intro t htv ht
      obtain ⟨_, _, h3, h4⟩ := htv
      rw [ht] at hfmt
      have hf : Format.format_fixed c.date (some t) c.off .nanosecond3 =
          Format.wok ([46] ++ Format.fmtInt (t.nanosecond / 1000000 % 1000) 3 .zero false) := by cases c.date <;> rfl
      have := wok_inj _ _ (hf.symm.trans hfmt); subst this
      have p3 : ((10 ^ (9 - 3) : Nat) : Int) = 1000000 := by norm_num
      refine ⟨_, (by simp only [fieldCall, ht, Option.map_some] <;> rfl), ?_⟩
      exact invertsAt_congr _ _ _ _ _ (fun p => by rw [p3])
        (frac_dot_inverts .nanosecond3 (Or.inr (Or.inl rfl)) _ 3 (by omega) (by omega) (by omega)
          (by norm_num; omega) rest (stops_of_spec rest hrest))
    · intro ht; rw [ht] at hfmt; cases hd : c.date <;> rw [hd] at hfmt <;> cases hfmt
  | nanosecond6 =>
    apply needTime
    · intro t htv ht
      obtain ⟨_, _, h3, h4⟩ := htv
      rw [ht] at hfmt
      have hf : Format.format_fixed c.date (some t) c.off .nanosecond6 =
          Format.wok ([46] ++ Format.fmtInt (t.nanosecond / 1000 % 1000000) 6 .zero false) := by cases c.date <;> rfl
      have := wok_inj _ _ (hf.symm.trans hfmt); subst this
      have p6 : ((10 ^ (9 - 6) : Nat) : Int) = 1000 := by norm_num
      refine ⟨_, (by simp only [fieldCall, ht, Option.map_some] <;> rfl), ?_⟩
      exact invertsAt_congr _ _ _ _ _ (fun p => by rw [p6])
        (frac_dot_inverts .nanosecond6 (Or.inr (Or.inr (Or.inl rfl))) _ 6 (by omega) (by omega) (by omega)
          (by norm_num; omega) rest (stops_of_spec rest hrest))
    · intro ht; rw [ht] at hfmt; cases hd : c.date <;> rw [hd] at hfmt <;> cases hfmt
  | nanosecond9 =>
    apply needTime
    · intro t htv ht
      obtain ⟨_, _, h3, h4⟩ := htv
      rw [ht] at hfmt
      have hf : Format.format_fixed c.date (some t) c.off .nanosecond9 =
          Format.wok ([46] ++ Format.fmtInt (t.nanosecond % 1000000000) 9 .zero false) := by cases c.date <;> rfl
      have := wok_inj _ _ (hf.symm.trans hfmt); subst this
      have p9 : ((10 ^ (9 - 9) : Nat) : Int) = 1 := by norm_num
      refine ⟨_, (by simp only [fieldCall, ht, Option.map_some] <;> rfl), ?_⟩
      exact invertsAt_congr _ _ _ _ _ (fun p => by rw [p9, Int.mul_one])
        (frac_dot_inverts .nanosecond9 (Or.inr (Or.inr (Or.inr rfl))) _ 9 (by omega) (by omega) (by omega)
          (by norm_num; omega) rest (stops_of_spec rest hrest))
    · intro ht; rw [ht] at hfmt; cases hd : c.date <;> rw [hd] at hfmt <;> cases hfmt
  | nanosecond3NoDot =>
    apply needTime
    · intro t htv ht
      obtain ⟨_, _, h3, h4⟩ := htv
      rw [ht] at hfmt
      have hf : Format.format_fixed c.date (some t) c.off .nanosecond3NoDot =
          Format.wok (Format.fmtInt (t.nanosecond / 1000000 % 1000) 3 .zero false) := by cases c.date <;> rfl
      have := wok_inj _ _ (hf.symm.trans hfmt); subst this
      have p3 : ((10 ^ (9 - 3) : Nat) : Int) = 1000000 := by norm_num
      refine ⟨_, (by simp only [fieldCall, ht, Option.map_some] <;> rfl), ?_⟩
      exact invertsAt_congr _ _ _ _ _ (fun p => by rw [p3])
        (frac_nodot_inverts .nanosecond3NoDot 3 (Or.inl ⟨rfl, rfl⟩) _ (by omega) (by norm_num; omega) rest)
    · intro ht; rw [ht] at hfmt; cases hd : c.date <;> rw [hd] at hfmt <;> cases hfmt
  | nanosecond6NoDot =>
    apply needTime
    · intro t htv ht
      obtain ⟨_, _, h3, h4⟩ := htv
      rw [ht] at hfmt
      have hf : Format.format_fixed c.date (some t) c.off .nanosecond6NoDot =
          Format.wok (Format.fmtInt (t.nanosecond / 1000 % 1000000) 6 .zero false) := by cases c.date <;> rfl
      have := wok_inj _ _ (hf.symm.trans hfmt); subst this
      have p6 : ((10 ^ (9 - 6) : Nat) : Int) = 1000 := by norm_num
      refine ⟨_, (by simp only [fieldCall, ht, Option.map_some] <;> rfl), ?_⟩
      exact invertsAt_congr _ _ _ _ _ (fun p => by rw [p6])
        (frac_nodot_inverts .nanosecond6NoDot 6 (Or.inr (Or.inl ⟨rfl, rfl⟩)) _ (by omega) (by norm_num; omega) rest)
    · intro ht; rw [ht] at hfmt; cases hd : c.date <;> rw [hd] at hfmt <;> cases hfmt
  | nanosecond9NoDot =>
    apply needTime
    · intro t htv ht
      obtain ⟨_, _, h3, h4⟩ := htv
      rw [ht] at hfmt
      have hf : Format.format_fixed c.date (some t) c.off .nanosecond9NoDot =
          Format.wok (Format.fmtInt (t.nanosecond % 1000000000) 9 .zero false) := by cases c.date <;> rfl
      have := wok_inj _ _ (hf.symm.trans hfmt); subst this
      have p9 : ((10 ^ (9 - 9) : Nat) : Int) = 1 := by norm_num
      refine ⟨_, (by simp only [fieldCall, ht, Option.map_some] <;> rfl), ?_⟩
      exact invertsAt_congr _ _ _ _ _ (fun p => by rw [p9, Int.mul_one])
        (frac_nodot_inverts .nanosecond9NoDot 9 (Or.inr (Or.inr ⟨rfl, rfl⟩)) _ (by omega) (by norm_num; omega) rest)
    · intro ht; rw [ht] at hfmt; cases hd : c.date <;> rw [hd] at hfmt <;> cases hfmt
  | timezoneOffset =>
    cases ho : c.off with
    | none => rw [ho] at hfmt; cases hd : c.date <;> cases ht : c.time <;> rw [hd, ht] at hfmt <;> cases hfmt
    | some x =>
      obtain ⟨name, off⟩ := x
      obtain ⟨sg, body, _, e1, e2⟩ := offset_inverts .timezoneOffset (Or.inl rfl) c.date c.time name off (hco _ ho) rest
      rw [ho] at hfmt
      have := wok_inj _ _ (e1.symm.trans hfmt); subst this
      exact ⟨_, by simp only [fieldCall, ho, Option.map_some], e2⟩
  | timezoneOffsetColon =>
    cases ho : c.off with
    | none => rw [ho] at hfmt; cases hd : c.date <;> cases ht : c.time <;> rw [hd, ht] at hfmt <;> cases hfmt
    | some x =>
      obtain ⟨name, off⟩ := x
      obtain ⟨sg, body, _, e1, e2⟩ := offset_inverts .timezoneOffsetColon (Or.inr rfl) c.date c.time name off (hco _ ho) rest
      rw [ho] at hfmt
      have := wok_inj _ _ (e1.symm.trans hfmt); subst this
      exact ⟨_, by simp only [fieldCall, ho, Option.map_some], e2⟩
  | _ => exact absurd hp (by simp [provedItem])

/-- **`item_inverts`, every proved item, for a value's context** -/
theorem item_inverts_ctx (c : Ctx) (hc : CtxOk c) (it : Item) (hp : provedItem it = true) (text : List Nat)
    (hfmt : Format.format_item c.date c.time c.off it = Format.wok text) (hexp : ItemExpr c it)
    (rest : List Nat) (hrest : RestOk c it rest) :
    ∃ set, fieldCall c it = some set ∧ InvertsAt it ⟨text, set⟩ rest := by
  cases it with
  | literal s =>
    have := wok_inj _ _ hfmt; subst this
    exact ⟨.ok, rfl, literal_inverts _ _⟩
  | space s =>
    have := wok_inj _ _ hfmt; subst this
    obtain ⟨cs, h1, h2⟩ := wsRun_chars s hp
    refine ⟨.ok, rfl, ?_⟩
    have := space_inverts s cs rest h1 hrest
    rw [h2] at this; exact this
  | numeric n pad => exact numeric_inverts_ctx c hc n pad text rest hfmt hexp hrest
  | fixed f => exact fixed_inverts_ctx c hc f hp text rest hfmt hrest
  | error => cases hp

theorem restOk_nil (c : Ctx) (it : Item) : RestOk c it [] := by
  cases it with
  | literal s => trivial
  | space s => rfl
  | numeric n pad => cases n <;> simp [RestOk]
  | fixed f => cases f <;> simp [RestOk]
  | error => trivial

/-! ### white-space items in front of readers that skip white space themselves -/

theorem wsLen_trimStartAux : ∀ (fuel : Nat) (s : List Nat), s.length ≤ fuel → wsLen (trimStartAux fuel s) = 0 := by
  intro fuel
  induction fuel with
  | zero =>
    intro s h
    have : s = [] := List.eq_nil_of_length_eq_zero (by omega)
    subst this; rfl
  | succ f ih =>
    intro s h
    simp only [trimStartAux]
    by_cases hn : wsLen s = 0
    · simp [hn]
    · simp only [hn, if_false]
      exact ih _ (by simp only [List.length_drop]; omega)

theorem trimStart_idem (s : List Nat) : trimStart (trimStart s) = trimStart s :=
  trimStart_noop _ (wsLen_trimStartAux _ _ (Nat.le_refl _))

/-- numbers, offsets and white-space items read the same whether or not leading white space has
already been removed -/
theorem lead_insensitive_step (it : Item) (h : leadInsensitive it = true) (p : Parsed) (s : List Nat) :
    step p (trimStart s) it = step p s it := by
  cases it with
  | numeric n pad =>
    simp only [step, Parse.parseItemBase]
    cases n <;> simp only [Parse.parseNumeric, trimStart_idem]
  | space sp => simp only [step, Parse.parseItemBase, trimStart_idem]
  | fixed f =>
    cases f <;> first
      | (simp [leadInsensitive] at h; done)
      | (simp only [step, Parse.parseItemBase, Parse.parseFixedBase, trimStart_idem])
  | literal l => exact absurd h (by simp [leadInsensitive])
  | error => exact absurd h (by simp [leadInsensitive])

/-- what a white-space item needs of the rest of the item list and of the text that follows: the
text does not start with white space, or the next item skips white space itself -/
def SpaceNext (is : List Item) (R : List Nat) : Prop :=
  wsLen R = 0 ∨ ∃ b is', is = b :: is' ∧ leadInsensitive b = true

/-- chains in which a white-space item may be followed by an item that skips white space itself -/
def Chain2 : List Item → List Tok → List Nat → Prop
  | [], [], _ => True
  | .space _ :: is, tk :: tks, rest =>
    ((∃ cs, WsChars cs ∧ tk.text = cs.flatten) ∧ tk.set = .ok ∧ SpaceNext is (flatText tks ++ rest)) ∧
      Chain2 is tks rest
  | it :: is, tk :: tks, rest => InvertsAt it tk (flatText tks ++ rest) ∧ Chain2 is tks rest
  | _, _, _ => False

theorem chain2_parse : ∀ (is : List Item) (tks : List Tok) (rest : List Nat) (p : Parsed),
    Chain2 is tks rest →
    Parse.parse_internal p (flatText tks ++ rest) is = (applyAll tks p).map fun p' => (p', rest) := by
  intro is
  induction is with
  | nil =>
    intro tks rest p h
    cases tks with
    | nil => rfl
    | cons _ _ => exact absurd h (by simp [Chain2])
  | cons it is ih =>
    intro tks rest p h
    cases tks with
    | nil => cases it <;> exact absurd h (by simp [Chain2])
    | cons tk tks =>
      have e : flatText (tk :: tks) ++ rest = tk.text ++ (flatText tks ++ rest) := by simp [flatText]
      have generic : InvertsAt it tk (flatText tks ++ rest) → Chain2 is tks rest →
          Parse.parse_internal p (flatText (tk :: tks) ++ rest) (it :: is) =
            (applyAll (tk :: tks) p).map fun p' => (p', rest) := by
        intro h1 h2
        rw [parse_internal_cons, e, h1 p]
        simp only [applyAll]
        cases hs : tk.set p with
        | error e => rfl
        | ok p' => exact ih tks rest p' h2
      cases it with
      | space sp =>
        obtain ⟨⟨⟨cs, hcs, htx⟩, hset, hnext⟩, h2⟩ := h
        rw [parse_internal_cons, e]
        have hstep : step p (tk.text ++ (flatText tks ++ rest)) (.space sp) =
            .ok (p, trimStart (flatText tks ++ rest)) := by
          simp only [step, Parse.parseItemBase, htx, trimStart_run cs _ hcs]
        rw [hstep]
        simp only [applyAll, hset]
        have hcont : Parse.parse_internal p (trimStart (flatText tks ++ rest)) is =
            Parse.parse_internal p (flatText tks ++ rest) is := by
          rcases hnext with h0 | ⟨b, is', rfl, hb⟩
          · rw [trimStart_noop _ h0]
          · rw [parse_internal_cons, parse_internal_cons, lead_insensitive_step b hb]
        rw [hcont]
        exact ih tks rest p h2
      | literal l => exact generic h.1 h.2
      | numeric n pad => exact generic h.1 h.2
      | fixed f => exact generic h.1 h.2
      | error => exact generic h.1 h.2

/-! ### how renderings start -/

def headAlpha (l : List Nat) : Bool :=
  match l with
  | h :: _ => isAsciiAlpha h
  | [] => false

theorem name_heads :
    (∀ i : Nat, i < 12 → headAlpha (LOC_SHORT_MONTHS.getD i []) = true ∧ headAlpha (LOC_LONG_MONTHS.getD i []) = true) ∧
    (∀ i : Nat, i < 7 → headAlpha (LOC_SHORT_WEEKDAYS.getD i []) = true ∧ headAlpha (LOC_LONG_WEEKDAYS.getD i []) = true) := by
  decide

theorem headAlpha_cons (l : List Nat) (h : headAlpha l = true) : ∃ a t, l = a :: t ∧ isAsciiAlpha a = true := by
  cases l with
  | nil => cases h
  | cons a t => exact ⟨a, t, rfl, h⟩

/-- names and am/pm start with an ASCII letter, offsets with their sign -/
theorem fixed_head (c : Ctx) (hc : CtxOk c) (f : Fixed)
    (hf : f ∈ [Fixed.shortMonthName, .longMonthName, .shortWeekdayName, .longWeekdayName, .lowerAmPm,
      .upperAmPm, .timezoneOffset, .timezoneOffsetColon])
    (tb : List Nat) (hfmt : Format.format_fixed c.date c.time c.off f = Format.wok tb) :
    ∃ a t, tb = a :: t ∧ (isAsciiAlpha a = true ∨ a = 43 ∨ a = 45) := by
  obtain ⟨hcd, hct, hco⟩ := hc
  have alpha : ∀ l, headAlpha l = true → ∃ a t, l = a :: t ∧ (isAsciiAlpha a = true ∨ a = 43 ∨ a = 45) := by
    intro l h; obtain ⟨a, t, e, ha⟩ := headAlpha_cons l h; exact ⟨a, t, e, Or.inl ha⟩
  simp only [List.mem_cons, List.not_mem_nil, or_false] at hf
  rcases hf with rfl | rfl | rfl | rfl | rfl | rfl | rfl | rfl
  · cases hd : c.date with
    | none => rw [hd] at hfmt; cases hfmt
    | some d =>
      obtain ⟨Y, o, hvd, rfl⟩ := hcd d hd
      obtain ⟨_, _, _, _, _, _, hm, _, m1, m2, _⟩ := date_facts Y o hvd
      rw [hd] at hfmt
      simp only [Format.format_fixed, Format.W.ofRes, hm] at hfmt
      have := wok_inj _ _ hfmt; subst this
      exact alpha _ (name_heads.1 _ (by omega)).1
  · cases hd : c.date with
    | none => rw [hd] at hfmt; cases hfmt
    | some d =>
      obtain ⟨Y, o, hvd, rfl⟩ := hcd d hd
      obtain ⟨_, _, _, _, _, _, hm, _, m1, m2, _⟩ := date_facts Y o hvd
      rw [hd] at hfmt
      simp only [Format.format_fixed, Format.W.ofRes, hm] at hfmt
      have := wok_inj _ _ hfmt; subst this
      exact alpha _ (name_heads.1 _ (by omega)).2
  · cases hd : c.date with
    | none => rw [hd] at hfmt; cases hfmt
    | some d =>
      rw [hd] at hfmt
      simp only [Format.format_fixed] at hfmt
      have := wok_inj _ _ hfmt; subst this
      exact alpha _ (name_heads.2 _ (by cases d.weekday <;> decide)).1
  · cases hd : c.date with
    | none => rw [hd] at hfmt; cases hfmt
    | some d =>
      rw [hd] at hfmt
      simp only [Format.format_fixed] at hfmt
      have := wok_inj _ _ hfmt; subst this
      exact alpha _ (name_heads.2 _ (by cases d.weekday <;> decide)).2
  · cases ht : c.time with
    | none => rw [ht] at hfmt; cases hd : c.date <;> rw [hd] at hfmt <;> cases hfmt
    | some t =>
      rw [ht] at hfmt
      have : Format.format_fixed c.date (some t) c.off .lowerAmPm =
          Format.wok (lowerS (LOC_AM_PM.getD (if t.hour12.1 then 1 else 0) [])) := by cases c.date <;> rfl
      have e := wok_inj _ _ (this.symm.trans hfmt)
      cases hpm : t.hour12.1 <;> rw [hpm] at e <;> subst e <;> exact ⟨_, _, rfl, Or.inl (by decide)⟩
  · cases ht : c.time with
    | none => rw [ht] at hfmt; cases hd : c.date <;> rw [hd] at hfmt <;> cases hfmt
    | some t =>
      rw [ht] at hfmt
      have : Format.format_fixed c.date (some t) c.off .upperAmPm =
          Format.wok (LOC_AM_PM.getD (if t.hour12.1 then 1 else 0) []) := by cases c.date <;> rfl
      have e := wok_inj _ _ (this.symm.trans hfmt)
      cases hpm : t.hour12.1 <;> rw [hpm] at e <;> subst e <;> exact ⟨_, _, rfl, Or.inl (by decide)⟩
  · cases ho : c.off with
    | none => rw [ho] at hfmt; cases hd : c.date <;> cases ht : c.time <;> rw [hd, ht] at hfmt <;> cases hfmt
    | some x =>
      obtain ⟨name, off⟩ := x
      obtain ⟨sg, body, hsg, e1, _⟩ := offset_inverts .timezoneOffset (Or.inl rfl) c.date c.time name off (hco _ ho) []
      rw [ho] at hfmt
      have := wok_inj _ _ (e1.symm.trans hfmt); subst this
      exact ⟨sg, body, rfl, Or.inr hsg⟩
  · cases ho : c.off with
    | none => rw [ho] at hfmt; cases hd : c.date <;> cases ht : c.time <;> rw [hd, ht] at hfmt <;> cases hfmt
    | some x =>
      obtain ⟨name, off⟩ := x
      obtain ⟨sg, body, hsg, e1, _⟩ := offset_inverts .timezoneOffsetColon (Or.inr rfl) c.date c.time name off (hco _ ho) []
      rw [ho] at hfmt
      have := wok_inj _ _ (e1.symm.trans hfmt); subst this
      exact ⟨sg, body, rfl, Or.inr hsg⟩

theorem alpha_sign_facts (a : Nat) (h : isAsciiAlpha a = true ∨ a = 43 ∨ a = 45) :
    isDigit a = false ∧ a ≠ 46 ∧ a < 128 ∧ asciiWs a = false := by
  simp only [isAsciiAlpha, Bool.or_eq_true, Bool.and_eq_true, decide_eq_true_eq] at h
  simp only [isDigit, asciiWs, Bool.and_eq_false_iff, Bool.or_eq_false_iff, decide_eq_false_iff_not, beq_eq_false_iff_ne]
  omega

theorem wsLen_visible (a : Nat) (t : List Nat) (h1 : a < 128) (h2 : asciiWs a = false) : wsLen (a :: t) = 0 := by
  simp only [asciiWs, Bool.or_eq_false_iff, Bool.and_eq_false_iff, decide_eq_false_iff_not, beq_eq_false_iff_ne] at h2
  have h3 : ¬ ((9 ≤ a ∧ a ≤ 13) ∨ a = 32) := by omega
  simp only [wsLen, h3, if_false]
  split <;> first | rfl | omega

/-- `%.3f %.6f %.9f` print a dot first -/
theorem dotfrac_head (c : Ctx) (f : Fixed) (hf : f = .nanosecond3 ∨ f = .nanosecond6 ∨ f = .nanosecond9)
    (tb : List Nat) (hfmt : Format.format_fixed c.date c.time c.off f = Format.wok tb) : ∃ t, tb = 46 :: t := by
  cases ht : c.time with
  | none =>
    rw [ht] at hfmt
    rcases hf with rfl | rfl | rfl <;> cases hd : c.date <;> rw [hd] at hfmt <;> cases hfmt
  | some t =>
    rw [ht] at hfmt
    rcases hf with rfl | rfl | rfl
    · have : Format.format_fixed c.date (some t) c.off .nanosecond3 =
          Format.wok (46 :: Format.fmtInt (t.nanosecond / 1000000 % 1000) 3 .zero false) := by cases c.date <;> rfl
      exact ⟨_, (wok_inj _ _ (this.symm.trans hfmt)).symm⟩
    · have : Format.format_fixed c.date (some t) c.off .nanosecond6 =
          Format.wok (46 :: Format.fmtInt (t.nanosecond / 1000 % 1000000) 6 .zero false) := by cases c.date <;> rfl
      exact ⟨_, (wok_inj _ _ (this.symm.trans hfmt)).symm⟩
    · have : Format.format_fixed c.date (some t) c.off .nanosecond9 =
          Format.wok (46 :: Format.fmtInt (t.nanosecond % 1000000000) 9 .zero false) := by cases c.date <;> rfl
      exact ⟨_, (wok_inj _ _ (this.symm.trans hfmt)).symm⟩

/-- `%.f` prints nothing, or a dot first -/
theorem optfrac_head (c : Ctx) (tb : List Nat)
    (hfmt : Format.format_fixed c.date c.time c.off .nanosecond = Format.wok tb) : tb = [] ∨ ∃ t, tb = 46 :: t := by
  cases ht : c.time with
  | none => rw [ht] at hfmt; cases hd : c.date <;> rw [hd] at hfmt <;> cases hfmt
  | some t =>
    rw [ht] at hfmt
    have : Format.format_fixed c.date (some t) c.off .nanosecond =
        (if t.nanosecond % 1000000000 = 0 then Format.wok []
         else if t.nanosecond % 1000000000 % 1000000 = 0 then
           Format.wok (46 :: Format.fmtInt (t.nanosecond % 1000000000 / 1000000) 3 .zero false)
         else if t.nanosecond % 1000000000 % 1000 = 0 then
           Format.wok (46 :: Format.fmtInt (t.nanosecond % 1000000000 / 1000) 6 .zero false)
         else Format.wok (46 :: Format.fmtInt (t.nanosecond % 1000000000) 9 .zero false)) := by
      cases c.date <;> rfl
    rw [this] at hfmt
    split at hfmt
    · exact Or.inl (wok_inj _ _ hfmt).symm
    · split at hfmt
      · exact Or.inr ⟨_, (wok_inj _ _ hfmt).symm⟩
      · split at hfmt
        · exact Or.inr ⟨_, (wok_inj _ _ hfmt).symm⟩
        · exact Or.inr ⟨_, (wok_inj _ _ hfmt).symm⟩

/-- a zero-padded non-negative number starts with a digit -/
theorem fmtInt_zero_head (v : Int) (w : Nat) (h0 : 0 ≤ v) :
    ∃ a t, Format.fmtInt v w .zero false = a :: t ∧ isDigit a = true := by
  rw [RenderScan.fmtInt_zero_nonneg v w h0]
  obtain ⟨h1, _, h3, _, _⟩ := RenderScan.digits_spec v.toNat
  cases hk : w - (Format.digits v.toNat).length with
  | zero =>
    cases hd : Format.digits v.toNat with
    | nil => rw [hd] at h3; simp at h3
    | cons a t => exact ⟨a, t, by simp, h1 a (by rw [hd]; exact List.mem_cons_self)⟩
  | succ k => exact ⟨48, List.replicate k 48 ++ Format.digits v.toNat, by simp [List.replicate_succ], by decide⟩

/-- `%3f %6f %9f` print a digit first -/
theorem nodot_head (c : Ctx) (f : Fixed)
    (hf : f = .nanosecond3NoDot ∨ f = .nanosecond6NoDot ∨ f = .nanosecond9NoDot)
    (tb : List Nat) (hfmt : Format.format_fixed c.date c.time c.off f = Format.wok tb) :
    ∃ a t, tb = a :: t ∧ isDigit a = true := by
  cases ht : c.time with
  | none =>
    rw [ht] at hfmt
    rcases hf with rfl | rfl | rfl <;> cases hd : c.date <;> rw [hd] at hfmt <;> cases hfmt
  | some t =>
    rw [ht] at hfmt
    rcases hf with rfl | rfl | rfl
    · have : Format.format_fixed c.date (some t) c.off .nanosecond3NoDot =
          Format.wok (Format.fmtInt (t.nanosecond / 1000000 % 1000) 3 .zero false) := by cases c.date <;> rfl
      have e := wok_inj _ _ (this.symm.trans hfmt)
      obtain ⟨a, r, h1, h2⟩ := fmtInt_zero_head (t.nanosecond / 1000000 % 1000) 3 (by omega)
      exact ⟨a, r, by rw [← e, h1], h2⟩
    · have : Format.format_fixed c.date (some t) c.off .nanosecond6NoDot =
          Format.wok (Format.fmtInt (t.nanosecond / 1000 % 1000000) 6 .zero false) := by cases c.date <;> rfl
      have e := wok_inj _ _ (this.symm.trans hfmt)
      obtain ⟨a, r, h1, h2⟩ := fmtInt_zero_head (t.nanosecond / 1000 % 1000000) 6 (by omega)
      exact ⟨a, r, by rw [← e, h1], h2⟩
    · have : Format.format_fixed c.date (some t) c.off .nanosecond9NoDot =
          Format.wok (Format.fmtInt (t.nanosecond % 1000000000) 9 .zero false) := by cases c.date <;> rfl
      have e := wok_inj _ _ (this.symm.trans hfmt)
      obtain ⟨a, r, h1, h2⟩ := fmtInt_zero_head (t.nanosecond % 1000000000) 9 (by omega)
      exact ⟨a, r, by rw [← e, h1], h2⟩

/-- a complete first character that is not white space stays so whatever follows the literal -/
theorem wsLen_complete (b : Nat) (rest x : List Nat) (h0 : wsLen (b :: rest) = 0)
    (hl : charLen b ≤ (b :: rest).length) : wsLen (b :: rest ++ x) = 0 := by
  by_cases hws : (9 ≤ b ∧ b ≤ 13) ∨ b = 32
  · simp [wsLen, hws] at h0
  · cases rest with
    | nil =>
      have hb : b < 128 := by
        unfold charLen at hl
        simp only [List.length_cons, List.length_nil] at hl
        split at hl
        · assumption
        · split at hl <;> first | omega | (split at hl <;> omega)
      have : asciiWs b = false := by
        simp only [asciiWs, Bool.or_eq_false_iff, Bool.and_eq_false_iff, decide_eq_false_iff_not, beq_eq_false_iff_ne]
        omega
      exact wsLen_visible b _ hb this
    | cons c r =>
      cases r with
      | nil =>
        have hb : b < 224 := by
          unfold charLen at hl
          simp only [List.length_cons, List.length_nil] at hl
          split at hl
          · omega
          · split at hl <;> first | omega | (split at hl <;> omega)
        simp only [List.cons_append, List.nil_append]
        simp only [wsLen, hws, if_false] at h0 ⊢
        split at h0 <;> split <;> simp_all <;> omega
      | cons d r' =>
        simp only [List.cons_append]
        simp only [wsLen, hws, if_false] at h0 ⊢
        split at h0 <;> split <;> simp_all

/-- the rendering of an item that `Spec.stopsNumber` accepts stops a number, and does not start with
a dot unless the item is a literal that does -/
theorem stops_head (c : Ctx) (hc : CtxOk c) (b : Item) (hp : provedItem b = true) (hs : stopsNumber b = true)
    (tb : List Nat) (hfmt : Format.format_item c.date c.time c.off b = Format.wok tb) (x : List Nat) :
    StopsDigits (tb ++ x) ∧ (startsWithDot b = false → ∀ t, tb ++ x ≠ 46 :: t) := by
  have fromHead : ∀ a t, tb = a :: t → isDigit a = false → a ≠ 46 →
      StopsDigits (tb ++ x) ∧ (startsWithDot b = false → ∀ t, tb ++ x ≠ 46 :: t) := by
    intro a t e h1 h2
    subst e
    refine ⟨fun b' t' e' => ?_, fun _ t' e' => ?_⟩
    · rw [List.cons_append] at e'; injection e' with e1 _; rw [← e1]; exact h1
    · rw [List.cons_append] at e'; injection e' with e1 _; exact h2 e1
  cases b with
  | literal s =>
    have := wok_inj _ _ hfmt; subst this
    cases s with
    | nil => simp [stopsNumber, startsNonDigit] at hs
    | cons a t =>
      have ha : isDigit a = false := by simpa [stopsNumber, startsNonDigit] using hs
      refine ⟨fun b' t' e' => ?_, fun hd t' e' => ?_⟩
      · rw [List.cons_append] at e'; injection e' with e1 _; rw [← e1]; exact ha
      · rw [List.cons_append] at e'; injection e' with e1 _
        subst e1; simp [startsWithDot] at hd
  | space s =>
    have := wok_inj _ _ hfmt; subst this
    cases s with
    | nil => simp [stopsNumber, startsNonDigit] at hs
    | cons a t =>
      have ha : isDigit a = false := by simpa [stopsNumber, startsNonDigit] using hs
      exact fromHead a t rfl ha (wsRun_head a t hp)
  | numeric n pad => simp [stopsNumber] at hs
  | fixed f =>
    by_cases hdf : f = .nanosecond3 ∨ f = .nanosecond6 ∨ f = .nanosecond9
    · obtain ⟨t, e⟩ := dotfrac_head c f hdf tb hfmt
      subst e
      refine ⟨fun b' t' e' => ?_, fun hd => ?_⟩
      · rw [List.cons_append] at e'; injection e' with e1 _; rw [← e1]; decide
      · rcases hdf with rfl | rfl | rfl <;> simp [startsWithDot] at hd
    · have hf : f ∈ [Fixed.shortMonthName, .longMonthName, .shortWeekdayName, .longWeekdayName, .lowerAmPm,
          .upperAmPm, .timezoneOffset, .timezoneOffsetColon] := by
        cases f <;> simp [stopsNumber] at hs hdf ⊢
      obtain ⟨a, t, e, ha⟩ := fixed_head c hc f hf tb hfmt
      obtain ⟨h1, h2, _, _⟩ := alpha_sign_facts a ha
      exact fromHead a t e h1 h2
  | error => cases hp

/-- the rendering of a name, am/pm or fixed-width fraction item does not start with white space -/
theorem after_space_fixed (c : Ctx) (hc : CtxOk c) (f : Fixed) (hs : afterSpaceOk (.fixed f) = true)
    (hl : ¬ leadInsensitive (.fixed f) = true) (tb : List Nat)
    (hfmt : Format.format_fixed c.date c.time c.off f = Format.wok tb) (x : List Nat) :
    wsLen (tb ++ x) = 0 := by
  by_cases hdf : f = .nanosecond3 ∨ f = .nanosecond6 ∨ f = .nanosecond9
  · obtain ⟨t, e⟩ := dotfrac_head c f hdf tb hfmt
    subst e
    exact wsLen_visible 46 _ (by decide) (by decide)
  · by_cases hnd : f = .nanosecond3NoDot ∨ f = .nanosecond6NoDot ∨ f = .nanosecond9NoDot
    · obtain ⟨a, t, e, ha⟩ := nodot_head c f hnd tb hfmt
      subst e
      exact wsLen_digit a _ ha
    · have hf : f ∈ [Fixed.shortMonthName, .longMonthName, .shortWeekdayName, .longWeekdayName, .lowerAmPm,
          .upperAmPm, .timezoneOffset, .timezoneOffsetColon] := by
        cases f <;> simp [afterSpaceOk, leadInsensitive, visibleLiteral] at hs hl hdf hnd ⊢
      obtain ⟨a, t, e, ha⟩ := fixed_head c hc f hf tb hfmt
      obtain ⟨_, _, h3, h4⟩ := alpha_sign_facts a ha
      subst e
      exact wsLen_visible a _ h3 h4

/-- after a white-space item: the next rendering does not start with white space, or the next reader
skips it anyway -/
theorem after_space_head (c : Ctx) (hc : CtxOk c) (b : Item) (is' : List Item) (hp : provedItem b = true)
    (hs : afterSpaceOk b = true) (tb : List Nat)
    (hfmt : Format.format_item c.date c.time c.off b = Format.wok tb) (x : List Nat) :
    SpaceNext (b :: is') (tb ++ x) := by
  by_cases hl : leadInsensitive b = true
  · exact Or.inr ⟨b, is', rfl, hl⟩
  · left
    cases b with
    | literal s =>
      have := wok_inj _ _ hfmt; subst this
      cases s with
      | nil => simp [afterSpaceOk, leadInsensitive, visibleLiteral] at hs
      | cons a t =>
        simp only [afterSpaceOk, leadInsensitive, visibleLiteral, Bool.false_or, Bool.and_eq_true,
          decide_eq_true_eq, beq_iff_eq] at hs
        exact wsLen_complete a t x hs.1 hs.2
    | space s => exact absurd rfl hl
    | numeric n pad => exact absurd rfl hl
    | fixed f => exact after_space_fixed c hc f hs hl tb hfmt x
    | error => cases hp

/-! ### from the syntactic predicates to the token chain -/

theorem seq_wok_inv (a b : Format.W) (text : List Nat) (h : a.seq b = Format.wok text) :
    ∃ t1 t2, a = Format.wok t1 ∧ b = Format.wok t2 ∧ text = t1 ++ t2 := by
  unfold Format.W.seq at h
  cases a with
  | panic => cases h
  | ok oa =>
    cases oa with
    | none => cases h
    | some x =>
      cases b with
      | panic => cases h
      | ok ob =>
        cases ob with
        | none => cases h
        | some y =>
          refine ⟨x, y, rfl, rfl, ?_⟩
          have := wok_inj (x ++ y) text h
          exact this.symm

/-- item by item: the token's text is the item's rendering, its setter the item's field call -/
def TokensOf (c : Ctx) : List Item → List Tok → Prop
  | [], [] => True
  | it :: is, tk :: tks =>
    (Format.format_item c.date c.time c.off it = Format.wok tk.text ∧ fieldCall c it = some tk.set) ∧
      TokensOf c is tks
  | _, _ => False

theorem tokens_exist (c : Ctx) (hc : CtxOk c) : ∀ (is : List Item) (text : List Nat),
    (∀ it ∈ is, provedItem it = true) → (∀ it ∈ is, ItemExpr c it) →
    Format.formatItemsR c.date c.time c.off is = Format.wok text →
    ∃ tks, TokensOf c is tks ∧ flatText tks = text := by
  intro is
  induction is with
  | nil =>
    intro text _ _ h
    have := wok_inj _ _ h
    exact ⟨[], trivial, by simpa [flatText] using this⟩
  | cons it is ih =>
    intro text hp he h
    simp only [Format.formatItemsR] at h
    obtain ⟨t1, t2, h1, h2, rfl⟩ := seq_wok_inv _ _ _ h
    obtain ⟨tks, hk, hf⟩ := ih t2 (fun x hx => hp x (List.mem_cons_of_mem _ hx))
      (fun x hx => he x (List.mem_cons_of_mem _ hx)) h2
    obtain ⟨set, hs, _⟩ := item_inverts_ctx c hc it (hp it List.mem_cons_self) t1 h1
      (he it List.mem_cons_self) [] (restOk_nil c it)
    exact ⟨⟨t1, set⟩ :: tks, ⟨⟨h1, hs⟩, hk⟩, by simp [flatText] at hf ⊢; rw [hf]⟩

/-- a `%Y`/`%G` that touches digits carries a year 0–9999 (from `Spec.expressible`) -/
def YearOk (c : Ctx) (is : List Item) : Prop :=
  (yearTouchesDigits .year is = true → ∀ v, numVal c .year = some v → 0 ≤ v ∧ v ≤ 9999) ∧
  (yearTouchesDigits .isoYear is = true → ∀ v, numVal c .isoYear = some v → 0 ≤ v ∧ v ≤ 9999)

theorem spec_of_stops (R : List Nat) (h : StopsDigits R) : startsNonDigit R = true ∨ R = [] := by
  cases R with
  | nil => exact Or.inr rfl
  | cons a t => left; simp [startsNonDigit, h a t rfl]

/-- what `Spec.separated` provides for an item followed by the rendering of the next one -/
theorem restOk_of_sep (c : Ctx) (hc : CtxOk c) (a b : Item) (rest : List Item) (hpa : provedItem a = true)
    (hpb : provedItem b = true) (hnot : ∀ sp, a ≠ .space sp)
    (hsep : separated (a :: b :: rest) = true) (hy : YearOk c (a :: b :: rest))
    (tb : List Nat) (hfmt : Format.format_item c.date c.time c.off b = Format.wok tb) (x : List Nat)
    (hB : isNumber a = true → isOptFrac b = true → (startsNonDigit (tb ++ x) = true ∨ tb ++ x = [])) :
    RestOk c a (tb ++ x) := by
  simp only [separated, Bool.and_eq_true, Bool.or_eq_true, Bool.not_eq_true'] at hsep
  obtain ⟨⟨hsd0, hdot⟩, _⟩ := hsep
  have stops : stopsNumber b = true → (startsNonDigit (tb ++ x) = true ∨ tb ++ x = []) :=
    fun h => spec_of_stops _ (stops_head c hc b hpb h tb hfmt x).1
  cases a with
  | literal s => trivial
  | space s => exact absurd rfl (hnot s)
  | error => cases hpa
  | fixed f =>
    have hsd : selfDelimiting (.fixed f) = true ∨ stopsNumber b = true := by
      rcases hsd0 with h | h
      · exact h
      · exact absurd h.1 (by simp [isNumber])
    cases f <;> first
      | trivial
      | (simp only [selfDelimiting, Bool.false_eq_true, false_or] at hsd
         first
           | exact stops hsd
           | (refine ⟨stops hsd, ?_⟩
              have hb : startsWithDot b = false := by
                rcases hdot with h | h
                · simp at h
                · exact h
              exact (stops_head c hc b hpb hsd tb hfmt x).2 hb))
  | numeric n pad =>
    have hyear : ∀ m : Numeric, (m = .year ∨ m = .isoYear) → n = m →
        selfDelimiting (.numeric n pad) = true → stopsNumber b = false →
        pad = .zero ∧ yearTouchesDigits m (.numeric n pad :: b :: rest) = true := by
      intro m hm hn h1 h2
      subst hn
      refine ⟨?_, by simp [yearTouchesDigits, h2]⟩
      rcases hm with rfl | rfl <;> cases pad <;> simp [selfDelimiting] at h1 ⊢
    by_cases hsb : stopsNumber b = true
    · have := stops hsb
      cases n <;> simp only [RestOk] <;> first | trivial | exact this | exact Or.inl this
    · by_cases hob : isOptFrac b = true
      · have := hB rfl hob
        cases n <;> simp only [RestOk] <;> first | trivial | exact this | exact Or.inl this
      · have hsb' : stopsNumber b = false := by simpa using hsb
        have hself : selfDelimiting (.numeric n pad) = true := by
          rcases hsd0 with (h | h) | h
          · exact h
          · exact absurd h hsb
          · exact absurd h.2 hob
        cases n with
        | year =>
          obtain ⟨hp0, ht⟩ := hyear .year (Or.inl rfl) rfl hself hsb'
          exact Or.inr ⟨hp0, hy.1 ht⟩
        | isoYear =>
          obtain ⟨hp0, ht⟩ := hyear .isoYear (Or.inr rfl) rfl hself hsb'
          exact Or.inr ⟨hp0, hy.2 ht⟩
        | timestamp => simp [selfDelimiting] at hself
        | quarter => trivial
        | numDaysFromSun => trivial
        | weekdayFromMon => trivial
        | _ =>
          simp only [RestOk]
          right
          cases pad <;> simp [selfDelimiting] at hself ⊢

/-- a number directly before `%.f`: what delimits `%.f` delimits the number too -/
theorem optfrac_stops (c : Ctx) (b : Item) (hb : isOptFrac b = true) (tb : List Nat)
    (hfmt : Format.format_item c.date c.time c.off b = Format.wok tb) (x : List Nat) (hR : RestOk c b x) :
    startsNonDigit (tb ++ x) = true ∨ tb ++ x = [] := by
  cases b with
  | fixed f =>
    cases f <;> first
      | (simp [isOptFrac] at hb; done)
      | (rcases optfrac_head c tb hfmt with e | ⟨t, e⟩
         · subst e; simpa using hR.1
         · subst e; left; rfl)
  | _ => simp [isOptFrac] at hb

theorem yearOk_tail (c : Ctx) (a b : Item) (rest : List Item) (h : YearOk c (a :: b :: rest)) :
    YearOk c (b :: rest) := by
  refine ⟨fun ht => h.1 ?_, fun ht => h.2 ?_⟩ <;> simp [yearTouchesDigits, ht]

/-- **the token chain from the syntactic predicates** -/
theorem chain_of_separated (c : Ctx) (hc : CtxOk c) : ∀ (is : List Item) (tks : List Tok),
    TokensOf c is tks → (∀ it ∈ is, provedItem it = true) → (∀ it ∈ is, ItemExpr c it) →
    separated is = true → spaceSafe is = true → YearOk c is → Chain2 is tks [] := by
  intro is
  induction is with
  | nil =>
    intro tks h _ _ _ _ _
    cases tks with
    | nil => trivial
    | cons _ _ => exact absurd h (by simp [TokensOf])
  | cons a is ih =>
    intro tks h hp he hsep hsafe hy
    cases tks with
    | nil => exact absurd h (by simp [TokensOf])
    | cons tk tks =>
      obtain ⟨⟨hfa, hca⟩, htl⟩ := h
      have hpa := hp a List.mem_cons_self
      have hea := he a List.mem_cons_self
      have inv_of : ∀ R, RestOk c a R → InvertsAt a tk R := by
        intro R hR
        obtain ⟨set, hs, hi⟩ := item_inverts_ctx c hc a hpa tk.text hfa hea R hR
        have : set = tk.set := by rw [hca] at hs; injection hs with hs; exact hs.symm
        rw [this] at hi; exact hi
      have spaceTok : ∀ sp, a = .space sp → (∃ cs, WsChars cs ∧ tk.text = cs.flatten) ∧ tk.set = .ok := by
        intro sp e
        subst e
        have ht := wok_inj _ _ hfa
        obtain ⟨cs, h1, h2⟩ := wsRun_chars sp hpa
        refine ⟨⟨cs, h1, by rw [h2]; exact ht.symm⟩, ?_⟩
        have : fieldCall c (.space sp) = some .ok := rfl
        rw [this] at hca; injection hca with hca; exact hca.symm
      cases is with
      | nil =>
        cases tks with
        | cons _ _ => exact absurd htl (by simp [TokensOf])
        | nil =>
          have hR : RestOk c a (flatText [] ++ []) := restOk_nil c a
          cases a with
          | space sp =>
            obtain ⟨h1, h2⟩ := spaceTok sp rfl
            exact ⟨⟨h1, h2, Or.inl rfl⟩, trivial⟩
          | literal l => exact ⟨inv_of _ hR, trivial⟩
          | numeric n pad => exact ⟨inv_of _ hR, trivial⟩
          | fixed f => exact ⟨inv_of _ hR, trivial⟩
          | error => exact ⟨inv_of _ hR, trivial⟩
      | cons b is' =>
        cases tks with
        | nil => exact absurd htl (by simp [TokensOf])
        | cons tkb tks' =>
          have hfb := htl.1.1
          have hpb := hp b (List.mem_cons_of_mem _ List.mem_cons_self)
          have htail : Chain2 (b :: is') (tkb :: tks') [] :=
            ih (tkb :: tks') htl (fun x hx => hp x (List.mem_cons_of_mem _ hx))
              (fun x hx => he x (List.mem_cons_of_mem _ hx))
              (by simp only [separated, Bool.and_eq_true] at hsep; exact hsep.2)
              (by cases a <;> simp only [spaceSafe, Bool.and_eq_true] at hsafe <;> first | exact hsafe.2 | exact hsafe)
              (yearOk_tail c a b is' hy)
          have eR : flatText (tkb :: tks') ++ [] = tkb.text ++ (flatText tks' ++ []) := by simp [flatText]
          have hsepT : separated (b :: is') = true := by
            simp only [separated, Bool.and_eq_true] at hsep; exact hsep.2
          have hB : isNumber a = true → isOptFrac b = true →
              (startsNonDigit (tkb.text ++ (flatText tks' ++ [])) = true ∨ tkb.text ++ (flatText tks' ++ []) = []) := by
            intro _ hob
            refine optfrac_stops c b hob tkb.text hfb _ ?_
            have hnsb : ∀ sp, b ≠ .space sp := fun sp e => by subst e; simp [isOptFrac] at hob
            have hnnb : ¬ isNumber b = true := by
              cases b <;> simp [isOptFrac, isNumber] at hob ⊢
            cases is' with
            | nil =>
              cases tks' with
              | cons _ _ => exact absurd htl.2 (by simp [TokensOf])
              | nil => exact restOk_nil c b
            | cons c' is'' =>
              cases tks' with
              | nil => exact absurd htl.2 (by simp [TokensOf])
              | cons tkc tks'' =>
                have e2 : flatText (tkc :: tks'') ++ [] = tkc.text ++ (flatText tks'' ++ []) := by simp [flatText]
                rw [e2]
                exact restOk_of_sep c hc b c' is'' hpb
                  (hp c' (List.mem_cons_of_mem _ (List.mem_cons_of_mem _ List.mem_cons_self))) hnsb hsepT
                  (yearOk_tail c a b _ hy) tkc.text htl.2.1.1 _ (fun h => absurd h hnnb)
          cases a with
          | space sp =>
            obtain ⟨h1, h2⟩ := spaceTok sp rfl
            have hs : afterSpaceOk b = true := by
              simp only [spaceSafe, Bool.and_eq_true] at hsafe; exact hsafe.1
            refine ⟨⟨h1, h2, ?_⟩, htail⟩
            rw [eR]
            exact after_space_head c hc b is' hpb hs tkb.text hfb _
          | literal l =>
            refine ⟨inv_of _ ?_, htail⟩
            rw [eR]
            exact restOk_of_sep c hc _ b is' hpa hpb (fun sp h => by cases h) hsep hy tkb.text hfb _ hB
          | numeric n pad =>
            refine ⟨inv_of _ ?_, htail⟩
            rw [eR]
            exact restOk_of_sep c hc _ b is' hpa hpb (fun sp h => by cases h) hsep hy tkb.text hfb _ hB
          | fixed f =>
            refine ⟨inv_of _ ?_, htail⟩
            rw [eR]
            exact restOk_of_sep c hc _ b is' hpa hpb (fun sp h => by cases h) hsep hy tkb.text hfb _ hB
          | error => cases hpa

end Chrono.Proofs.RoundTrip
