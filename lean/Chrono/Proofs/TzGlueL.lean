/- C05: the user-visible layer — `Cache::offset` (unix.rs), `TimeZone::from_local_datetime` for `Local`
   and the `MappedLocalTime` contract (earliest first). -/
import Chrono.Proofs.TzLookupL

set_option linter.unusedSimpArgs false
set_option linter.unusedVariables false

namespace Chrono.Proofs.TzL
open Chrono Chrono.M.Tz Chrono.M.TzL Chrono.Spec.Zone Chrono.Extracted.TzL Chrono.Proofs

theorem classifiesOff_map (off : Int → Int) (ℓ : Int) (r : Mapped Ltt) :
    ClassifiesOff off ℓ (r.map (·.off)) ↔ Classifies off ℓ r := by
  cases r <;> exact Iff.rfl

theorem east_opt_some (o : Int) (h : -86400 < o ∧ o < 86400) : east_opt o = some o := by
  unfold east_opt; rw [if_pos h]
theorem east_opt_none (o : Int) (h : ¬ (-86400 < o ∧ o < 86400)) : east_opt o = none := by
  unfold east_opt; rw [if_neg h]

/-- lookup by instant through the glue: the prescribed offset, or `None` when `FixedOffset` cannot hold it -/
theorem cache_offset_utc (z : Zone) (t : Int) (hs : Sorted z.transitions) (hl : z.leaps = [])
    (hr : RuleOk z.rule) (h : -36028797018963968 ≤ t ∧ t ≤ 36028797018963968) :
    cache_offset z t false =
      .ok (if -86400 < offAt z t ∧ offAt z t < 86400 then Mapped.single (offAt z t) else Mapped.none) := by
  unfold cache_offset
  simp only [Bool.not_false, if_true]
  rw [offAt_ok' z t hs hl hr h]
  show (match east_opt (offAt z t) with
        | some o => Res.ok (Mapped.single o) | none => Res.ok (Mapped.none : Mapped Int)) = _
  by_cases c : -86400 < offAt z t ∧ offAt z t < 86400
  · rw [east_opt_some _ c, if_pos c]
  · rw [east_opt_none _ c, if_neg c]

/-- lookup by wall clock through the glue when every candidate offset fits `FixedOffset` -/
theorem cache_offset_local (z : Zone) (ℓ : Int)
    (ho : ∀ x ∈ (z.find_local_time_type_from_local ℓ).toList, -86400 < x.off ∧ x.off < 86400) :
    cache_offset z ℓ true = .ok ((z.find_local_time_type_from_local ℓ).map (·.off)) := by
  unfold cache_offset
  simp only [Bool.not_true, Bool.false_eq_true, if_false]
  congr 1
  generalize z.find_local_time_type_from_local ℓ = r at *
  cases r with
  | none => rfl
  | single x =>
    have := ho x (by simp [Mapped.toList])
    simp only [Mapped.and_then, Mapped.map, east_opt_some _ this]
  | ambiguous x y =>
    have h1 := ho x (by simp [Mapped.toList])
    have h2 := ho y (by simp [Mapped.toList])
    simp only [Mapped.and_then, Mapped.map, east_opt_some _ h1, east_opt_some _ h2]

/-- … and when one does not: the whole answer is dropped -/
theorem cache_offset_local_drops (z : Zone) (ℓ : Int) (x : Ltt)
    (hx : x ∈ (z.find_local_time_type_from_local ℓ).toList) (hbad : ¬ (-86400 < x.off ∧ x.off < 86400)) :
    cache_offset z ℓ true = .ok .none := by
  unfold cache_offset
  simp only [Bool.not_true, Bool.false_eq_true, if_false]
  congr 1
  generalize z.find_local_time_type_from_local ℓ = r at *
  cases r with
  | none => rfl
  | single a =>
    have e : x = a := by simpa [Mapped.toList] using hx
    subst e
    simp only [Mapped.and_then, east_opt_none _ hbad]
  | ambiguous a b =>
    have e : x = a ∨ x = b := by simpa [Mapped.toList] using hx
    rcases e with e | e <;> subst e
    · simp only [Mapped.and_then, east_opt_none _ hbad]
    · simp only [Mapped.and_then, east_opt_none _ hbad]
      cases east_opt a.off <;> rfl

/-- the `MappedLocalTime` contract on bare offsets: `earliest` / `latest` select the least / greatest
instant that reads `ℓ`, and are `None` exactly when no instant does -/
theorem mapped_contract' (off : Int → Int) (ℓ : Int) (m : Mapped Int) (h : ClassifiesOff off ℓ m) :
    (m.earliest = none ↔ ∀ t, t + off t ≠ ℓ) ∧ (m.latest = none ↔ ∀ t, t + off t ≠ ℓ) ∧
    (∀ o, m.earliest = some o → (ℓ - o) + off (ℓ - o) = ℓ ∧ ∀ t, t + off t = ℓ → ℓ - o ≤ t) ∧
    (∀ o, m.latest = some o → (ℓ - o) + off (ℓ - o) = ℓ ∧ ∀ t, t + off t = ℓ → t ≤ ℓ - o) := by
  cases m with
  | none =>
    refine ⟨⟨fun _ => h, fun _ => rfl⟩, ⟨fun _ => h, fun _ => rfl⟩, fun o ho => (by cases ho), fun o ho => (by cases ho)⟩
  | single x =>
    have hx : (ℓ - x) + off (ℓ - x) = ℓ := (h (ℓ - x)).mpr rfl
    refine ⟨⟨fun e => (by cases e), fun hn => absurd hx (hn _)⟩, ⟨fun e => (by cases e), fun hn => absurd hx (hn _)⟩, ?_, ?_⟩
    · intro o ho
      have e : x = o := by simpa [Mapped.earliest] using ho
      subst e
      exact ⟨hx, fun t ht => by have := (h t).mp ht; omega⟩
    · intro o ho
      have e : x = o := by simpa [Mapped.latest] using ho
      subst e
      exact ⟨hx, fun t ht => by have := (h t).mp ht; omega⟩
  | ambiguous x y =>
    have hx : (ℓ - x) + off (ℓ - x) = ℓ := (h.2 (ℓ - x)).mpr (Or.inl rfl)
    have hy : (ℓ - y) + off (ℓ - y) = ℓ := (h.2 (ℓ - y)).mpr (Or.inr rfl)
    refine ⟨⟨fun e => (by cases e), fun hn => absurd hx (hn _)⟩, ⟨fun e => (by cases e), fun hn => absurd hx (hn _)⟩, ?_, ?_⟩
    · intro o ho
      have e : x = o := by simpa [Mapped.earliest] using ho
      subst e
      exact ⟨hx, fun t ht => by have := (h.2 t).mp ht; have := h.1; omega⟩
    · intro o ho
      have e : y = o := by simpa [Mapped.latest] using ho
      subst e
      exact ⟨hy, fun t ht => by have := (h.2 t).mp ht; have := h.1; omega⟩

/-- `TimeZone::from_local_datetime` for `Local` when every candidate instant is a `NaiveDateTime` -/
theorem local_from_local_eq (z : Zone) (ℓ : Int)
    (ho : ∀ x ∈ (z.find_local_time_type_from_local ℓ).toList, -86400 < x.off ∧ x.off < 86400)
    (hg : ∀ x ∈ (z.find_local_time_type_from_local ℓ).toList, NDT_MIN_TS ≤ ℓ - x.off ∧ ℓ - x.off ≤ NDT_MAX_TS) :
    local_from_local_datetime z ℓ =
      .ok (((z.find_local_time_type_from_local ℓ).map (·.off)).map (fun o => (ℓ - o, o))) := by
  unfold local_from_local_datetime
  rw [cache_offset_local z ℓ ho]
  simp only
  congr 1
  generalize z.find_local_time_type_from_local ℓ = r at *
  cases r with
  | none => rfl
  | single x =>
    have := hg x (by simp [Mapped.toList])
    simp only [Mapped.and_then, Mapped.map, checked_sub_offset, if_pos this, Option.map]
  | ambiguous x y =>
    have h1 := hg x (by simp [Mapped.toList])
    have h2 := hg y (by simp [Mapped.toList])
    simp only [Mapped.and_then, Mapped.map, checked_sub_offset, if_pos h1, if_pos h2, Option.map]

end Chrono.Proofs.TzL
