/-
  Helper lemmas of the third round of C15 (audit 2: MEDIUM-6, LOW-7): generic facts about `expectSome`
  (`Option::expect` of a checked form), about `if … then .ok … else .panic` characterisations, and the
  zone-aware operators `DateTime<Tz> ± TimeDelta` in terms of the operators of the UTC value.
-/
import Chrono.Proofs.C15ArithL
import Chrono.Proofs.IterL
import Chrono.Proofs.ArithExtL
import Chrono.Props.C08
import Chrono.Proofs.ZonedL

namespace Chrono.Proofs.C15Round3
open Chrono Chrono.M Chrono.Spec Chrono.Proofs Chrono.Proofs.C15Arith Chrono.Proofs.ArithExt

/-- `expect` of a checked form that itself never panics panics exactly on `None` -/
theorem expectSome_panic_iff {α} (r : Res (Option α)) (h : ∃ o, r = .ok o) :
    expectSome r = .panic ↔ r = .ok none := by
  obtain ⟨o, ho⟩ := h
  rw [expectSome_panic, ho]
  constructor
  · intro h; rcases h with h | h
    · exact h
    · cases h
  · intro h; exact Or.inl h

theorem okAnd_ex {α} {r : Res (Option α)} {P : α → Prop} (h : OkAnd r P) : ∃ o, r = .ok o := by
  obtain ⟨o, ho, _⟩ := h; exact ⟨o, ho⟩

/-- "the value when representable, a panic when not" as an equivalence -/
theorem panic_iff_of_exact {α} {r : Res α} {P : Prop} {Q : α → Prop}
    (h1 : P → ∃ x, r = .ok x ∧ Q x) (h2 : ¬ P → r = .panic) : r = .panic ↔ ¬ P := by
  constructor
  · intro hp hP
    obtain ⟨x, hx, _⟩ := h1 hP
    rw [hx] at hp; cases hp
  · exact h2

theorem ite_panic_iff {α} {c : Prop} [Decidable c] {x : α} {r : Res α}
    (h : r = if c then .ok x else .panic) : r = .panic ↔ ¬ c := by
  rw [h]
  by_cases hc : c
  · rw [if_pos hc]
    constructor
    · intro h; cases h
    · intro h; exact absurd hc h
  · rw [if_neg hc]
    exact ⟨fun _ => hc, fun _ => rfl⟩

/-- `DateTime<Tz> + TimeDelta` panics exactly when `NaiveDateTime + TimeDelta` of the UTC value does: the
offset does not enter the condition -/
theorem zoned_add_panic_iff (z : Zoned) (δ : Delta) :
    (Zoned.add z δ = .panic ↔ NaiveDT.add z.utc δ = .panic) ∧
    (Zoned.sub z δ = .panic ↔ NaiveDT.sub z.utc δ = .panic) := by
  have ea : Zoned.add z δ = (NaiveDT.add z.utc δ).bind fun u => .ok ⟨u, z.off⟩ := by
    unfold Zoned.add NaiveDT.add; rw [zoned_add_eq, expect_zoned]
  have es : Zoned.sub z δ = (NaiveDT.sub z.utc δ).bind fun u => .ok ⟨u, z.off⟩ := by
    unfold Zoned.sub NaiveDT.sub; rw [zoned_sub_eq, expect_zoned]
  rw [ea, es]
  constructor
  · cases NaiveDT.add z.utc δ with
    | panic => exact Iff.intro (fun _ => rfl) (fun _ => rfl)
    | ok v =>
      show Res.ok (⟨v, z.off⟩ : Zoned) = Res.panic ↔ Res.ok v = Res.panic
      constructor <;> intro h <;> cases h
  · cases NaiveDT.sub z.utc δ with
    | panic => exact Iff.intro (fun _ => rfl) (fun _ => rfl)
    | ok v =>
      show Res.ok (⟨v, z.off⟩ : Zoned) = Res.panic ↔ Res.ok v = Res.panic
      constructor <;> intro h <;> cases h

/-- the checked forms `DateTime::checked_add_signed / checked_sub_signed` never panic on a well-formed
value, and a value they return is well formed with the offset kept -/
theorem zoned_signed_okAnd (z : Zoned) (δ : Delta) (hz : ZInv z) (hδ : DInv δ) :
    OkAnd (Zoned.checked_add_signed z δ) (fun x => ZInv x ∧ x.off = z.off) ∧
    OkAnd (Zoned.checked_sub_signed z δ) (fun x => ZInv x ∧ x.off = z.off) := by
  obtain ⟨⟨o1, h1, p1⟩, ⟨o2, h2, p2⟩⟩ := datetime_arith z.utc δ hz.1 hδ
  rw [zoned_add_eq, zoned_sub_eq, h1, h2]
  constructor
  · refine ⟨_, rfl, fun x hx => ?_⟩
    cases o1 with
    | none => cases hx
    | some u =>
      have : x = ⟨u, z.off⟩ := (Option.some.inj hx).symm
      subst this
      exact ⟨⟨p1 u rfl, hz.2⟩, rfl⟩
  · refine ⟨_, rfl, fun x hx => ?_⟩
    cases o2 with
    | none => cases hx
    | some u =>
      have : x = ⟨u, z.off⟩ := (Option.some.inj hx).symm
      subst this
      exact ⟨⟨p2 u rfl, hz.2⟩, rfl⟩

/-- a date-level checked result with the time of day kept -/
theorem keepTime_okAnd (r : Res (Option Date)) (t : Time) (ht : TValid t) (h : OkAnd r DateInv) :
    OkAnd (r.bind fun o => .ok (o.map fun d => (⟨d, t⟩ : NaiveDT))) NDTInv := by
  obtain ⟨o, ho, hp⟩ := h
  rw [ho]
  refine ⟨_, rfl, fun x hx => ?_⟩
  cases o with
  | none => cases hx
  | some d =>
    have : x = ⟨d, t⟩ := (Option.some.inj hx).symm
    subst this
    exact ⟨hp d rfl, ht⟩

/-- a time-level replacement with the date kept -/
theorem keepDate_okAnd (o : Option Time) (d : Date) (hd : DateInv d) (h : ∀ x, o = some x → TValid x) :
    OkAnd (.ok (o.map fun t => (⟨d, t⟩ : NaiveDT))) NDTInv := by
  refine ⟨_, rfl, fun x hx => ?_⟩
  cases o with
  | none => cases hx
  | some t =>
    have : x = ⟨d, t⟩ := (Option.some.inj hx).symm
    subst this
    exact ⟨hd, h t rfl⟩

/-- `NaiveDateTime`: month / day stepping and the eleven field replacements return normally on every valid
value and every argument, and what they return is valid (the date-level / time-level operation on one
part, the other part kept: C08 `naive_datetime_delegates`, which is `rfl`) -/
theorem naive_ops (dt : NaiveDT) (hdt : NDTInv dt) (v k : Nat) (y' w c : Int) (hw : 0 ≤ w)
    (hc : 0 ≤ c ∧ c ≤ 18446744073709551615) :
    OkAnd (dt.checked_add_months k) NDTInv ∧ OkAnd (dt.checked_sub_months k) NDTInv ∧
    OkAnd (NaiveDT.checked_add_days dt c) NDTInv ∧ OkAnd (NaiveDT.checked_sub_days dt c) NDTInv ∧
    OkAnd (dt.with_year y') NDTInv ∧ OkAnd (dt.with_month v) NDTInv ∧ OkAnd (dt.with_month0 v) NDTInv ∧
    OkAnd (dt.with_day v) NDTInv ∧ OkAnd (dt.with_day0 v) NDTInv ∧ OkAnd (dt.with_ordinal v) NDTInv ∧
    OkAnd (dt.with_ordinal0 v) NDTInv ∧
    OkAnd (dt.with_hour w) NDTInv ∧ OkAnd (dt.with_minute w) NDTInv ∧ OkAnd (dt.with_second w) NDTInv ∧
    OkAnd (dt.with_nanosecond w) NDTInv := by
  obtain ⟨_, _, a3, a4, _, a6, a7, a8, a9, a10, a11, a12, _, a14, a15, _, _⟩ :=
    date_ops dt.date hdt.1 k v y' 0 ⟨0, 0⟩ c (by omega) (by decide) hc
  obtain ⟨_, _, _, t1, t2, t3, t4⟩ := time_ops dt.time dt.time ⟨0, 0⟩ w hdt.2 hdt.2 (by decide) hw
  obtain ⟨e1, e2, e3, e4, e5, e6, e7, e8, e9, e10, e11, e12, e13⟩ :=
    Chrono.Props.C08.naive_datetime_delegates dt v k y' w
  dsimp only at e1 e2 e3 e4 e5 e6 e7 e8 e9 e10 e11 e12 e13
  rw [e1, e2, e3, e4, e5, e6, e7, e8, e9, e10, e11, e12, e13]
  unfold NaiveDT.checked_add_days NaiveDT.checked_sub_days
  exact ⟨keepTime_okAnd _ dt.time hdt.2 a3, keepTime_okAnd _ dt.time hdt.2 a4,
    keepTime_okAnd _ dt.time hdt.2 a14, keepTime_okAnd _ dt.time hdt.2 a15,
    keepTime_okAnd _ dt.time hdt.2 a6, keepTime_okAnd _ dt.time hdt.2 a7, keepTime_okAnd _ dt.time hdt.2 a8,
    keepTime_okAnd _ dt.time hdt.2 a9, keepTime_okAnd _ dt.time hdt.2 a10, keepTime_okAnd _ dt.time hdt.2 a11,
    keepTime_okAnd _ dt.time hdt.2 a12,
    keepDate_okAnd _ dt.date hdt.1 t1, keepDate_okAnd _ dt.date hdt.1 t2, keepDate_okAnd _ dt.date hdt.1 t3,
    keepDate_okAnd _ dt.date hdt.1 t4⟩

/-- `NaiveDateTime::checked_add_offset / checked_sub_offset` on every valid value and every offset a
`FixedOffset` can hold: no panic, a returned value is valid (`ZonedL.shiftChecked_spec`) -/
theorem offset_ops (dt : NaiveDT) (off : Int) (hdt : NDTInv dt) (ho : OffValid off) :
    OkAnd (dt.checked_add_offset off) NDTInv ∧ OkAnd (dt.checked_sub_offset off) NDTInv := by
  have hext : ExtNDTInv dt := ⟨((dateInv_iff dt.date).mp hdt.1).1, hdt.2⟩
  have ho' : -86400 < off ∧ off < 86400 := by unfold OffValid at ho; omega
  rw [checked_add_offset_eq dt off hdt.2 ho, checked_sub_offset_eq dt off hdt.2 ho]
  obtain ⟨r1, e1, p1, _⟩ := shiftChecked_spec dt off hext ho'
  obtain ⟨r2, e2, p2, _⟩ := shiftChecked_spec dt (-off) hext (by omega)
  refine ⟨⟨r1, e1, fun v hv => ?_⟩, ⟨r2, e2, fun v hv => ?_⟩⟩
  · obtain ⟨a, _, _, b⟩ := p1 v hv; exact ⟨b hdt.1, a.2⟩
  · obtain ⟨a, _, _, b⟩ := p2 v hv; exact ⟨b hdt.1, a.2⟩

end Chrono.Proofs.C15Round3
