/-
  C16, part 3: an accepted zone answers every offset query.
  The three-valued lookups of Model/TzLookupP.lean never panic on a zone with a type, in-range
  transition indices and a rule `from_tz_string` can build (`LookupSafe`: what `parse` guarantees),
  and they return, value for value and `Err` for `Err`, what property C05's `Option`-valued models
  of the same Rust functions return.
-/
import Chrono.Model.TzLookupP
import Chrono.Proofs.TzValidL

set_option linter.unusedSimpArgs false
set_option linter.unusedVariables false

namespace Chrono.Proofs.TzValid
open Chrono Chrono.M.Tz Chrono.Spec.Tz Chrono.Proofs Chrono.Proofs.Tz

/-- what the lookups rely on: at least one local time type, every transition's type index in
range, and a rule with the field ranges `from_tz_string` enforces -/
def LookupSafe (z : Zone) : Prop :=
  z.types ≠ [] ∧ (∀ t ∈ z.transitions, t.idx < z.types.length) ∧ (∀ r, z.rule = some r → RuleV r)

theorem typeIdx_ok (z : Zone) (i : Nat) (h : i < z.types.length) :
    typeIdx z i = .ok (M.TzL.typeAt z i) := by
  unfold typeIdx M.TzL.typeAt
  rw [List.getElem?_eq_getElem h]
  simp [List.getD, List.getElem?_eq_getElem h]

theorem types_pos {z : Zone} (h : z.types ≠ []) : 0 < z.types.length :=
  List.length_pos_iff.mpr h

theorem sat_same (x : Int) : M.Tz.satI64 x = M.TzL.satI64 x := rfl

/-! ### lookup by instant -/
theorem toLeapLoopP_val (ls : List LeapSecond) (ut : Int) :
    ∀ cur, toLeapLoopP ls ut cur = toP (M.TzL.toLeapLoop ls ut cur) := by
  induction ls with
  | nil => intro cur; rfl
  | cons l rest ih =>
    intro cur
    simp only [toLeapLoopP, M.TzL.toLeapLoop]
    split
    · rfl
    · cases optI64 (ut + l.corr) with
      | none => rfl
      | some c => exact ih c

theorem getLast_mem {l : List Transition} {x : Transition} (h : l.getLast? = some x) : x ∈ l :=
  List.mem_of_getLast? h

theorem find_P_val (z : Zone) (hs : LookupSafe z) (t : Int) :
    z.find_local_time_type_P t = toP (z.find_local_time_type t) := by
  obtain ⟨h0, hidx, hrule⟩ := hs
  unfold Zone.find_local_time_type_P Zone.find_local_time_type
  cases hl : z.transitions.getLast? with
  | none =>
    simp only
    cases hr : z.rule with
    | none => simp only; rw [typeIdx_ok z 0 (types_pos h0)]; rfl
    | some r => exact rule_find_val r t (hrule r hr)
  | some last =>
    have hmem := getLast_mem hl
    simp only
    unfold unix_time_to_unix_leap_time_P M.TzL.unix_time_to_unix_leap_time
    rw [toLeapLoopP_val]
    cases M.TzL.toLeapLoop z.leaps t t with
    | none => rfl
    | some ult =>
      simp only [toP, P.bind_ok]
      by_cases c : ult ≥ last.time
      · rw [if_pos c, if_pos c]
        cases hr : z.rule with
        | none => simp only; rw [typeIdx_ok z last.idx (hidx last hmem)]
        | some r => exact rule_find_val r t (hrule r hr)
      · rw [if_neg c, if_neg c]
        simp only [bsearch_rank]
        have hle := rank_le_len (z.transitions.map (·.time)) ult
        rw [List.length_map] at hle
        by_cases g : M.TzL.rankLE (z.transitions.map (·.time)) ult > 0
        · rw [if_pos g, if_pos g]
          have hlt : M.TzL.rankLE (z.transitions.map (·.time)) ult - 1 < z.transitions.length := by omega
          rw [List.getElem?_eq_getElem hlt]
          simp only [P.bind_ok]
          have e : z.transitions.getD (M.TzL.rankLE (z.transitions.map (·.time)) ult - 1) ⟨0, 0⟩
              = z.transitions[M.TzL.rankLE (z.transitions.map (·.time)) ult - 1] := by
            simp [List.getD, List.getElem?_eq_getElem hlt]
          rw [e]
          exact typeIdx_ok z _ (hidx _ (List.getElem_mem hlt))
        · rw [if_neg g, if_neg g]
          simp only [P.bind_ok]
          exact typeIdx_ok z 0 (types_pos h0)

/-! ### lookup by wall clock -/
theorem fromLocalLoopP_val (z : Zone) (trs : List Transition) (h : ∀ t ∈ trs, t.idx < z.types.length)
    (ℓ : Int) : ∀ prev, fromLocalLoopP z trs prev ℓ = .ok (M.TzL.fromLocalLoop z trs prev ℓ) := by
  induction trs with
  | nil => intro prev; rfl
  | cons tr rest ih =>
    intro prev
    have ih' := ih (fun t ht => h t (List.mem_cons_of_mem _ ht))
    simp only [fromLocalLoopP, M.TzL.fromLocalLoop, typeIdx_ok z tr.idx (h tr (by simp)), sat_same, ih']
    repeat' split
    all_goals rfl

theorem unix_time_bound (d : RuleDay) (y t : Int) (hd : DayOk d) (hy : I32r y)
    (ht : -1000000 ≤ t ∧ t ≤ 1000000) :
    -69120000001000000 ≤ M.TzL.unix_time d y t ∧ M.TzL.unix_time d y t ≤ 69120000001000000 := by
  have hdv : DateV (M.TzL.transition_date d y) :=
    post_spec (post_transition_date d y hd hy) (transition_date_val d y hd hy)
  obtain ⟨h1, h2, h3, h4⟩ := hdv
  have hb := dse_bound y (M.TzL.transition_date d y).1 (M.TzL.transition_date d y).2 hy ⟨h1, h2⟩ (by omega)
  have k' : Extracted.TzL.SECONDS_PER_DAY = 86400 := rfl
  unfold M.TzL.unix_time
  simp only [k']
  omega

theorem alt_from_local_val (a : Alt) (h : RuleV (.alt a)) (y : Int) (hy : I32r y) (ℓ : Int) :
    a.find_local_time_type_from_local_P y ℓ = .ok (a.find_local_time_type_from_local y ℓ) := by
  obtain ⟨hs, hd, hd1, hd2, ht1, ht2, -, -⟩ := h
  unfold LttV at hs hd
  unfold TimeV at ht1 ht2
  have b1 := unix_time_bound a.dstStart y 0 hd1 hy (by omega)
  have b2 := unix_time_bound a.dstEnd y 0 hd2 hy (by omega)
  unfold Alt.find_local_time_type_from_local_P
  rw [unix_time_val _ y 0 hd1 hy (by omega), unix_time_val _ y 0 hd2 hy (by omega)]
  simp only [P.bind_ok]
  rw [ck64_ok (x := M.TzL.unix_time a.dstStart y 0 + a.dstStartTime) (by omega) (by omega)]
  simp only [P.bind_ok]
  rw [ck64_ok (x := M.TzL.unix_time a.dstStart y 0 + a.dstStartTime + a.dst.off) (by omega) (by omega)]
  simp only [P.bind_ok]
  rw [ck64_ok (x := M.TzL.unix_time a.dstStart y 0 + a.dstStartTime + a.dst.off - a.std.off)
    (by omega) (by omega)]
  simp only [P.bind_ok]
  rw [ck64_ok (x := M.TzL.unix_time a.dstEnd y 0 + a.dstEndTime) (by omega) (by omega)]
  simp only [P.bind_ok]
  rw [ck64_ok (x := M.TzL.unix_time a.dstEnd y 0 + a.dstEndTime + a.std.off) (by omega) (by omega)]
  simp only [P.bind_ok]
  rw [ck64_ok (x := M.TzL.unix_time a.dstEnd y 0 + a.dstEndTime + a.std.off - a.dst.off)
    (by omega) (by omega)]
  rfl

theorem rule_from_local_val (r : Rule) (h : RuleV r) (y : Int) (hy : I32r y) (ℓ : Int) :
    r.find_local_time_type_from_local_P y ℓ = .ok (r.find_local_time_type_from_local y ℓ) := by
  cases r with
  | fixed l => rfl
  | alt a => exact alt_from_local_val a h y hy ℓ

/-- C05's model of `TimeZoneRef::find_local_time_type_from_local` with the year of the wall-clock
value as a parameter (`M.TzL.naiveYear ℓ` in C05's model) -/
def fromLocalWithYear (z : Zone) (y ℓ : Int) : M.TzL.Mapped Ltt :=
  let out :=
    if z.transitions.isEmpty then M.TzL.LoopOut.fell (M.TzL.typeAt z 0)
    else M.TzL.fromLocalLoop z z.transitions (M.TzL.typeAt z 0) ℓ
  match out with
  | .ret m => m
  | .fell offset_after_last =>
    match z.rule with
    | some r => r.find_local_time_type_from_local y ℓ
    | none => .single offset_after_last

theorem fromLocalWithYear_naive (z : Zone) (ℓ : Int) :
    fromLocalWithYear z (M.TzL.naiveYear ℓ) ℓ = z.find_local_time_type_from_local ℓ := rfl

theorem find_local_P_val (z : Zone) (hs : LookupSafe z) (y : Int) (hy : I32r y) (ℓ : Int) :
    z.find_local_time_type_from_local_P y ℓ = .ok (fromLocalWithYear z y ℓ) := by
  obtain ⟨h0, hidx, hrule⟩ := hs
  unfold Zone.find_local_time_type_from_local_P fromLocalWithYear
  rw [typeIdx_ok z 0 (types_pos h0)]
  simp only [P.bind_ok, fromLocalLoopP_val z z.transitions hidx ℓ]
  cases he : z.transitions.isEmpty with
  | true =>
    simp only [Bool.not_true, Bool.false_eq_true, if_false, if_true, P.bind_ok]
    cases hr : z.rule with
    | none => rfl
    | some r => exact rule_from_local_val r (hrule r hr) y hy ℓ
  | false =>
    simp only [Bool.not_false, if_true, Bool.false_eq_true, if_false, P.bind_ok]
    cases M.TzL.fromLocalLoop z z.transitions (M.TzL.typeAt z 0) ℓ with
    | ret m => rfl
    | fell o =>
      simp only
      cases hr : z.rule with
      | none => rfl
      | some r => exact rule_from_local_val r (hrule r hr) y hy ℓ

theorem naiveYear_i32 (ℓ : Int) : I32r (M.TzL.naiveYear ℓ) := by
  unfold M.TzL.naiveYear
  cases hft : M.TzL.from_timespec ℓ with
  | none => exact ⟨by decide, by decide⟩
  | some dt =>
    have := post_from_timespec_year ℓ
    rw [from_timespec_year_val, hft] at this
    exact this

/-! ### parsed zones -/
theorem parsed_lookupSafe (bytes : List Nat) (z : Zone) (h : parse bytes = .ok z) : LookupSafe z := by
  obtain ⟨hval, htr, hty, hr⟩ := post_spec (post_parse_accepted bytes) h
  obtain ⟨v0, v1, v2, v3, v4⟩ := (validate_iff' z htr hr).mp hval
  exact ⟨v0, v2, hr⟩

/-- a zone built from a TZ string the way `TimeZone::from_posix_tz` does (no transitions, the
rule's own types) -/
def zoneOfRule (r : Rule) : Zone :=
  ⟨[], match r with | .fixed t => [t] | .alt a => [a.std, a.dst], [], some r⟩

theorem zoneOfRule_lookupSafe (r : Rule) (h : RuleV r) : LookupSafe (zoneOfRule r) := by
  unfold LookupSafe
  refine ⟨?_, ?_, ?_⟩
  · cases r <;> simp [zoneOfRule]
  · intro t ht
    simp [zoneOfRule] at ht
  · intro r' hr'
    simp only [zoneOfRule, Option.some.injEq] at hr'
    subst hr'
    exact h

end Chrono.Proofs.TzValid
