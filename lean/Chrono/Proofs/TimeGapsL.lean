/- Helper lemmas for the C07 audit gaps (audit/C07.md §6): the two specifications `addLeap` and
   `diffLeap` linked (G1, G2), the leap-operand cases of `addLeap` spelled out (G3), the acceptance rule
   as an invariant under single-field replacement (G5), replacement read through the accessors (G6). -/
import Chrono.Proofs.TimeL
import Chrono.Spec.TimeDiffSpec

namespace Chrono.Proofs.TimeGaps
open Chrono Chrono.M Chrono.Spec Chrono.Proofs Chrono.Extracted

/-- `(t + δ) − t`, carry included, is `δ` up to `diffAddErr` -/
theorem diff_after_add (t : Time) (δ : Int) (ht : TValid t) :
    diffLeap (addLeap t δ).1 t + (addLeap t δ).2 * 1000000000 = δ + diffAddErr t δ := by
  obtain ⟨s, f⟩ := t
  simp only [TValid] at ht
  unfold diffAddErr diffLeap linePos addLeap pos
  simp only []
  split
  · simp only []; omega
  · split
    · simp only []; omega
    · simp only []; omega

/-- no day crossed: no error -/
theorem diffAddErr_same_day (t : Time) (δ : Int) (ht : TValid t) (h0 : (addLeap t δ).2 = 0) :
    diffAddErr t δ = 0 := by
  obtain ⟨s, f⟩ := t
  simp only [TValid] at ht
  revert h0
  unfold diffAddErr addLeap pos
  simp only []
  split
  · simp only []; omega
  · split
    · simp only []; omega
    · simp only []; omega

theorem diffAddErr_nonleap (t : Time) (δ : Int) (h : t.frac < 1000000000) : diffAddErr t δ = 0 := by
  unfold diffAddErr
  rw [if_neg (by omega), if_neg (by omega)]

/-- G3: a leap-second operand, the three documented cases -/
theorem add_leap_cases' (t : Time) (δ : Int) (ht : TValid t) (hl : t.frac ≥ 1000000000) :
    (pos t + δ < (t.secs + 1) * 1000000000 →
      (addLeap t δ).1.frac < 1000000000 ∧
      pos (addLeap t δ).1 + (addLeap t δ).2 * 1000000000 = pos t + δ) ∧
    ((t.secs + 2) * 1000000000 ≤ pos t + δ →
      (addLeap t δ).1.frac < 1000000000 ∧
      pos (addLeap t δ).1 + (addLeap t δ).2 * 1000000000 = pos t + δ - 1000000000) ∧
    ((t.secs + 1) * 1000000000 ≤ pos t + δ ∧ pos t + δ < (t.secs + 2) * 1000000000 →
      addLeap t δ = (⟨t.secs, t.frac + δ⟩, 0)) := by
  obtain ⟨s, f⟩ := t
  simp only [TValid] at ht
  dsimp only at hl
  unfold addLeap pos
  simp only []
  refine ⟨?_, ?_, ?_⟩
  · intro h
    rw [if_neg (by omega), if_neg (by omega)]
    simp only []
    omega
  · intro h
    rw [if_neg (by omega), if_pos (by omega)]
    simp only []
    omega
  · intro h
    rw [if_pos (by omega)]
    simp only [Prod.mk.injEq, Time.mk.injEq, and_true, true_and]
    omega

/-- G4: `b + (a − b) = a` within the day — `diffLeap` is the inverse of the independent `addLeap`
wherever `a` can be reached from `b` at all (an ordinary `a`, or a leap `a` inside `b`'s own leap
second) -/
theorem add_of_diff' (a b : Time) (ha : TValid a) (hb : TValid b)
    (h : a.frac < 1000000000 ∨ (a.secs = b.secs ∧ b.frac ≥ 1000000000)) :
    addLeap b (diffLeap a b) = (a, 0) := by
  obtain ⟨s1, f1⟩ := a
  obtain ⟨s2, f2⟩ := b
  simp only [TValid] at ha hb
  dsimp only at h
  unfold addLeap diffLeap linePos pos
  simp only []
  leap_cases

/-- G4, two leap-second operands on different seconds: the distance splits at the start of the later
operand's second into two distances that each involve one leap second only -/
theorem diff_split' (a b : Time) (h : a.secs < b.secs) :
    diffLeap b a = diffLeap b ⟨b.secs, 0⟩ + diffLeap ⟨b.secs, 0⟩ a := by
  obtain ⟨s1, f1⟩ := a
  obtain ⟨s2, f2⟩ := b
  dsimp only at h
  unfold diffLeap linePos pos
  simp only []
  (repeat' split) <;> omega

/-! ### the acceptance rule as an invariant (G5) -/

/-- for a valid time, the strict invariant is the statement's acceptance rule on its four fields -/
theorem strict_iff_ok (t : Time) (ht : TValid t) :
    TStrict t ↔ okFields (hourOf t) (minuteOf t) (secondOf t) t.frac := by
  simp only [TValid] at ht
  unfold TStrict TValid okFields hourOf minuteOf secondOf
  omega

/-- … and exactly then the constructor, fed the four fields, returns the time itself -/
theorem strict_iff_ctor (t : Time) (ht : TValid t) :
    TStrict t ↔ Time.from_hms_nano_opt (hourOf t) (minuteOf t) (secondOf t) t.frac = some t := by
  rw [hms_nano_iff', strict_iff_ok t ht]
  have e : ofFields (hourOf t) (minuteOf t) (secondOf t) t.frac = t := by
    unfold ofFields hourOf minuteOf secondOf
    rw [split3600]
  constructor
  · intro h; rw [if_pos h, e]
  · intro h
    by_cases c : okFields (hourOf t) (minuteOf t) (secondOf t) t.frac
    · exact c
    · rw [if_neg c] at h; cases h

theorem with_strict (t : Time) (v : Int) (ht : TStrict t) (hv : 0 ≤ v) :
    (∀ r, t.with_hour v = some r → TStrict r) ∧
    (∀ r, t.with_minute v = some r → TStrict r) ∧
    (∀ r, t.with_second v = some r → (TStrict r ↔ (t.frac < 1000000000 ∨ v = 59))) ∧
    (∀ r, t.with_nanosecond v = some r → (TStrict r ↔ (v < 1000000000 ∨ secondOf t = 59))) := by
  obtain ⟨s, f⟩ := t
  simp only [TStrict, TValid] at ht
  unfold Time.with_hour Time.with_minute Time.with_second Time.with_nanosecond secondOf TStrict TValid
  simp only []
  refine ⟨?_, ?_, ?_, ?_⟩
  · intro r
    by_cases c : v ≥ 24
    · rw [if_pos c]; intro h; cases h
    · rw [if_neg c]; intro h; rw [← Option.some.inj h]; dsimp only; omega
  · intro r
    by_cases c : v ≥ 60
    · rw [if_pos c]; intro h; cases h
    · rw [if_neg c]; intro h; rw [← Option.some.inj h]; dsimp only; omega
  · intro r
    by_cases c : v ≥ 60
    · rw [if_pos c]; intro h; cases h
    · rw [if_neg c]; intro h; rw [← Option.some.inj h]; dsimp only; omega
  · intro r
    by_cases c : v ≥ 2000000000
    · rw [if_pos c]; intro h; cases h
    · rw [if_neg c]; intro h; rw [← Option.some.inj h]; dsimp only; omega

/-! ### replacement read through the accessors (G6) -/

theorem acc_ofFields (h m s n : Int) (hh : 0 ≤ h ∧ h < 24) (hm : 0 ≤ m ∧ m < 60)
    (hs : 0 ≤ s ∧ s < 60) (hn : 0 ≤ n ∧ n < 2000000000) :
    TValid (ofFields h m s n) ∧ (ofFields h m s n).hour = h ∧ (ofFields h m s n).minute = m ∧
    (ofFields h m s n).second = s ∧ (ofFields h m s n).nanosecond = n := by
  obtain ⟨v, e1, e2, e3, e4⟩ := ofFields_valid h m s n hh hm hs hn
  obtain ⟨a1, a2, a3, a4, _⟩ := accessors' (ofFields h m s n) v
  exact ⟨v, a1.trans e1, a2.trans e2, a3.trans e3, a4.trans e4⟩

theorem with_accessors (t : Time) (v : Int) (ht : TValid t) (hv : 0 ≤ v) :
    ((t.with_hour v = none ↔ 24 ≤ v) ∧
      ∀ r, t.with_hour v = some r → TValid r ∧ r.hour = v ∧ r.minute = t.minute ∧
        r.second = t.second ∧ r.nanosecond = t.nanosecond) ∧
    ((t.with_minute v = none ↔ 60 ≤ v) ∧
      ∀ r, t.with_minute v = some r → TValid r ∧ r.hour = t.hour ∧ r.minute = v ∧
        r.second = t.second ∧ r.nanosecond = t.nanosecond) ∧
    ((t.with_second v = none ↔ 60 ≤ v) ∧
      ∀ r, t.with_second v = some r → TValid r ∧ r.hour = t.hour ∧ r.minute = t.minute ∧
        r.second = v ∧ r.nanosecond = t.nanosecond) ∧
    ((t.with_nanosecond v = none ↔ 2000000000 ≤ v) ∧
      ∀ r, t.with_nanosecond v = some r → TValid r ∧ r.hour = t.hour ∧ r.minute = t.minute ∧
        r.second = t.second ∧ r.nanosecond = v) := by
  obtain ⟨w1, w2, w3, w4⟩ := with_field' t v ht hv
  obtain ⟨a1, a2, a3, a4, b1, b2, b3, b4, b5, b6, _⟩ := accessors' t ht
  have hf : 0 ≤ t.frac ∧ t.frac < 2000000000 := ⟨ht.2.2.1, ht.2.2.2⟩
  rw [w1, w2, w3, w4, a1, a2, a3, a4]
  refine ⟨⟨?_, ?_⟩, ⟨?_, ?_⟩, ⟨?_, ?_⟩, ⟨?_, ?_⟩⟩
  · by_cases c : v < 24
    · rw [if_pos c]; constructor
      · intro h; cases h
      · intro h; omega
    · rw [if_neg c]; exact ⟨fun _ => by omega, fun _ => rfl⟩
  · intro r h
    by_cases c : v < 24
    · rw [if_pos c] at h; rw [← Option.some.inj h]
      exact acc_ofFields v _ _ _ ⟨hv, c⟩ ⟨b3, b4⟩ ⟨b5, b6⟩ hf
    · rw [if_neg c] at h; cases h
  · by_cases c : v < 60
    · rw [if_pos c]; constructor
      · intro h; cases h
      · intro h; omega
    · rw [if_neg c]; exact ⟨fun _ => by omega, fun _ => rfl⟩
  · intro r h
    by_cases c : v < 60
    · rw [if_pos c] at h; rw [← Option.some.inj h]
      exact acc_ofFields _ v _ _ ⟨b1, b2⟩ ⟨hv, c⟩ ⟨b5, b6⟩ hf
    · rw [if_neg c] at h; cases h
  · by_cases c : v < 60
    · rw [if_pos c]; constructor
      · intro h; cases h
      · intro h; omega
    · rw [if_neg c]; exact ⟨fun _ => by omega, fun _ => rfl⟩
  · intro r h
    by_cases c : v < 60
    · rw [if_pos c] at h; rw [← Option.some.inj h]
      exact acc_ofFields _ _ v _ ⟨b1, b2⟩ ⟨b3, b4⟩ ⟨hv, c⟩ hf
    · rw [if_neg c] at h; cases h
  · by_cases c : v < 2000000000
    · rw [if_pos c]; constructor
      · intro h; cases h
      · intro h; omega
    · rw [if_neg c]; exact ⟨fun _ => by omega, fun _ => rfl⟩
  · intro r h
    by_cases c : v < 2000000000
    · rw [if_pos c] at h; rw [← Option.some.inj h]
      exact acc_ofFields _ _ _ v ⟨b1, b2⟩ ⟨b3, b4⟩ ⟨b5, b6⟩ ⟨hv, c⟩
    · rw [if_neg c] at h; cases h

end Chrono.Proofs.TimeGaps
