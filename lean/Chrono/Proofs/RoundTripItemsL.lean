/-
  C13, second lemma file: item lemmas for the items whose values are unbounded or signed — `%Y`/`%G`
  (signed years with every padding), `%s`, `%f` and the fraction items, the offset items `%z`/`%:z` —
  on top of the shared decimal library Proofs/RenderScanL.lean.  Namespace `Chrono.Proofs.RoundTrip`.
-/
import Chrono.Proofs.RoundTripL
import Chrono.Proofs.RenderScanL
import Chrono.Spec.UnambiguousSpec

namespace Chrono.Proofs.RoundTrip
open Chrono Chrono.M Chrono.M.Scan

/-! ### texts of numbers, as propositions -/

/-- `text` is `k` spaces and then a non-empty digit run denoting `v` that fits the reader's width `w`
(and fills it when `fixed`) -/
def UNumText (text : List Nat) (v : Nat) (w : Nat) (fixed : Prop) : Prop :=
  ∃ (k : Nat) (ds : List Nat), text = List.replicate k 32 ++ ds ∧ ds ≠ [] ∧ RenderScan.AllDigits ds ∧
    RenderScan.valOf ds = v ∧ ds.length ≤ w ∧ (fixed → ds.length = w) ∧ w ≤ 18

theorem unum_inverts (n : Numeric) (pad : Pad) (text rest : List Nat) (v : Nat) (w : Nat) (fixed : Prop)
    (hs : (Parse.numericSpec n).2.1 = false) (hw : (Parse.numericSpec n).1 = some w)
    (ht : UNumText text v w fixed) (hrest : StopsDigits rest ∨ fixed) :
    InvertsAt (.numeric n pad) ⟨text, fun p => (Parse.numericSpec n).2.2 p v⟩ rest := by
  intro p
  obtain ⟨k, ds, rfl, hne, hd, hv, hlen, hfix, hw18⟩ := ht
  have hl : 1 ≤ ds.length := List.length_pos_iff.mpr hne
  have hnum : number (ds ++ rest) 1 (some w) = .ok (rest, ((RenderScan.valOf ds : Nat) : Int)) :=
    RenderScan.number_digits ds rest 1 (some w) hd hl (fun m hm => by cases hm; exact hlen)
      (by rcases hrest with h | h
          · exact Or.inr h
          · left; rw [hfix h]) (by omega)
  show Parse.parseItemBase p (List.replicate k 32 ++ ds ++ rest) (.numeric n pad) = _
  simp only [Parse.parseItemBase]
  rw [parseNumeric_unsigned p _ n hs, hw, List.append_assoc, trimStart_spaces,
    trimStart_digits ds rest hd hne, hnum, hv]
  dsimp only
  cases hset : (Parse.numericSpec n).2.2 p v <;> rfl

/-- the tail of `parseNumeric`: call the setter on the scanned value -/
def finishNum (n : Numeric) (p : Parsed) (r : PRes (List Nat × Int)) : PRes (Parsed × List Nat) :=
  match r with
  | .error e => .error e
  | .ok (s', v) =>
    match (Parse.numericSpec n).2.2 p v with
    | .ok p' => .ok (p', s')
    | .error e => .error e

/-- the reader of a signed numeric item: skip white space; after an explicit sign any number of
digits, otherwise at most `width` -/
theorem parseNumeric_signed (p : Parsed) (s : List Nat) (n : Numeric)
    (hs : (Parse.numericSpec n).2.1 = true) :
    (∀ r, trimStart s = 45 :: r → Parse.parseNumeric p s n =
      finishNum n p (match number r 1 none with
        | .ok (s', v) => .ok (s', -v)
        | .error e => .error e)) ∧
    (∀ r, trimStart s = 43 :: r → Parse.parseNumeric p s n = finishNum n p (number r 1 none)) ∧
    (∀ d r, trimStart s = d :: r → d ≠ 45 → d ≠ 43 →
      Parse.parseNumeric p s n = finishNum n p (number (d :: r) 1 (Parse.numericSpec n).1)) := by
  cases n <;> first
    | (exact absurd hs (by decide))
    | (refine ⟨fun r h => ?_, fun r h => ?_, fun d r h h1 h2 => ?_⟩
       · simp only [Parse.parseNumeric, Parse.numericSpec, h, finishNum, if_true]
         cases number r 1 none <;> rfl
       · simp only [Parse.parseNumeric, Parse.numericSpec, h, finishNum, if_true]
         cases number r 1 none <;> rfl
       · simp only [Parse.parseNumeric, Parse.numericSpec, h, if_true]
         unfold finishNum
         congr 1
         split
         · rename_i e; injection e with e; exact absurd e h1
         · rename_i e; injection e with e; exact absurd e h2
         · rfl)

/-- `text` is `k` spaces, an optional sign, and a digit run; without a sign the run must fit the
reader's width (and fill it when `fixed`), with a sign it is read in full -/
def SNumText (text : List Nat) (v : Int) (w : Option Nat) (fixed : Prop) : Prop :=
  ∃ (k : Nat) (sg ds : List Nat), text = List.replicate k 32 ++ (sg ++ ds) ∧ ds ≠ [] ∧
    RenderScan.AllDigits ds ∧ ds.length ≤ 18 ∧
    ((sg = [] ∧ v = (RenderScan.valOf ds : Nat) ∧ (∀ m, w = some m → ds.length ≤ m) ∧ (fixed → w = some ds.length)) ∨
     (sg = [43] ∧ v = (RenderScan.valOf ds : Nat) ∧ ¬ fixed) ∨
     (sg = [45] ∧ v = -((RenderScan.valOf ds : Nat) : Int) ∧ ¬ fixed))

theorem snum_inverts (n : Numeric) (pad : Pad) (text rest : List Nat) (v : Int) (fixed : Prop)
    (hs : (Parse.numericSpec n).2.1 = true)
    (ht : SNumText text v (Parse.numericSpec n).1 fixed) (hrest : StopsDigits rest ∨ fixed) :
    InvertsAt (.numeric n pad) ⟨text, fun p => (Parse.numericSpec n).2.2 p v⟩ rest := by
  intro p
  obtain ⟨k, sg, ds, rfl, hne, hd, h18, hcase⟩ := ht
  have hl : 1 ≤ ds.length := List.length_pos_iff.mpr hne
  obtain ⟨hminus, hplus, hother⟩ := parseNumeric_signed p (List.replicate k 32 ++ (sg ++ ds) ++ rest) n hs
  show Parse.parseItemBase p (List.replicate k 32 ++ (sg ++ ds) ++ rest) (.numeric n pad) = _
  simp only [Parse.parseItemBase]
  have htrim : trimStart (List.replicate k 32 ++ (sg ++ ds) ++ rest) = trimStart (sg ++ ds ++ rest) := by
    rw [List.append_assoc, trimStart_spaces]
  have hfin : ∀ x : Int, finishNum n p (.ok (rest, x)) =
      ((Parse.numericSpec n).2.2 p x).map fun p' => (p', rest) := by
    intro x; simp only [finishNum]; cases (Parse.numericSpec n).2.2 p x <;> rfl
  rcases hcase with ⟨rfl, hv, hmax, hfix⟩ | ⟨rfl, hv, hnf⟩ | ⟨rfl, hv, hnf⟩
  · have hnum : number (ds ++ rest) 1 (Parse.numericSpec n).1 = .ok (rest, ((RenderScan.valOf ds : Nat) : Int)) :=
      RenderScan.number_digits ds rest 1 _ hd hl hmax
        (by rcases hrest with h | h
            · exact Or.inr h
            · exact Or.inl (hfix h)) h18
    cases ds with
    | nil => exact absurd rfl hne
    | cons d ds' =>
      have hdd : isDigit d = true := hd d List.mem_cons_self
      have h45 : d ≠ 45 := by intro h; subst h; revert hdd; decide
      have h43 : d ≠ 43 := by intro h; subst h; revert hdd; decide
      have e : trimStart (List.replicate k 32 ++ ([] ++ d :: ds') ++ rest) = d :: (ds' ++ rest) := by
        rw [htrim, List.nil_append]; exact trimStart_digits (d :: ds') rest hd hne
      rw [hother d _ e h45 h43, ← List.cons_append, hnum, hfin, hv]
  · have hst : StopsDigits rest := by
      rcases hrest with h | h
      · exact h
      · exact absurd h hnf
    have hnum : number (ds ++ rest) 1 none = .ok (rest, ((RenderScan.valOf ds : Nat) : Int)) :=
      RenderScan.number_digits ds rest 1 none hd hl (fun m hm => by cases hm) (Or.inr hst) h18
    have e : trimStart (List.replicate k 32 ++ ([43] ++ ds) ++ rest) = 43 :: (ds ++ rest) := by
      rw [htrim, List.append_assoc]; exact trimStart_noop _ (by simp [wsLen])
    rw [hplus _ e, hnum, hfin, hv]
  · have hst : StopsDigits rest := by
      rcases hrest with h | h
      · exact h
      · exact absurd h hnf
    have hnum : number (ds ++ rest) 1 none = .ok (rest, ((RenderScan.valOf ds : Nat) : Int)) :=
      RenderScan.number_digits ds rest 1 none hd hl (fun m hm => by cases hm) (Or.inr hst) h18
    have e : trimStart (List.replicate k 32 ++ ([45] ++ ds) ++ rest) = 45 :: (ds ++ rest) := by
      rw [htrim, List.append_assoc]; exact trimStart_noop _ (by simp [wsLen])
    rw [hminus _ e, hnum]
    dsimp only
    rw [hfin, hv]

/-! ### `core::fmt` integers as such texts -/

/-- zeros followed by the decimal digits of `n` -/
theorem zdigits (z n : Nat) (hn : n < 10 ^ 17) :
    RenderScan.AllDigits (List.replicate z 48 ++ Format.digits n) ∧
    RenderScan.valOf (List.replicate z 48 ++ Format.digits n) = n ∧
    List.replicate z 48 ++ Format.digits n ≠ [] ∧
    (List.replicate z 48 ++ Format.digits n).length = z + (Format.digits n).length ∧
    1 ≤ (Format.digits n).length ∧ (Format.digits n).length ≤ 17 ∧
    (∀ w, 1 ≤ w → n < 10 ^ w → (Format.digits n).length ≤ w) ∧
    (10 ≤ n → 10 ^ ((Format.digits n).length - 1) ≤ n) := by
  obtain ⟨h1, h2, h3, h4, h5⟩ := RenderScan.digits_spec n
  refine ⟨RenderScan.allDigits_append.mpr ⟨RenderScan.allDigits_replicate z, h1⟩, ?_, ?_, ?_, h3,
    h4 17 (by omega) hn, h4, h5⟩
  · rw [RenderScan.valOf_append, RenderScan.valOf_replicate_zero, h2]; simp
  · intro h
    have := congrArg List.length h
    simp only [List.length_append, List.length_replicate, List.length_nil] at this
    omega
  · simp

/-- `fmtInt` of a non-negative value without the `+` flag -/
theorem fmtInt_unsigned_text (v : Int) (width : Nat) (pad : Pad) (h0 : 0 ≤ v) :
    ∃ k z, Format.fmtInt v width pad false =
        List.replicate k 32 ++ (List.replicate z 48 ++ Format.digits v.toNat) ∧
      (pad = .zero → k = 0 ∧ z = width - (Format.digits v.toNat).length) ∧ (pad ≠ .zero → z = 0) ∧
      (pad = .none → k = 0) := by
  have hn : ¬ v < 0 := by omega
  have e : v.natAbs = v.toNat := by omega
  cases pad
  · exact ⟨0, 0, by simp [Format.fmtInt, hn, e], by simp, by simp, by simp⟩
  · exact ⟨0, width - (Format.digits v.toNat).length, by simp [Format.fmtInt, hn, e], by simp, by simp, by simp⟩
  · exact ⟨width - (0 + (Format.digits v.toNat).length), 0, by simp [Format.fmtInt, hn, e], by simp, by simp, by simp⟩

/-- `fmtInt` with a sign: a negative value, or the `+` flag -/
theorem fmtInt_signed_text (v : Int) (width : Nat) (pad : Pad) (plus : Bool) (h : v < 0 ∨ plus = true) :
    ∃ k z, Format.fmtInt v width pad plus =
        List.replicate k 32 ++ ([if v < 0 then 45 else 43] ++ (List.replicate z 48 ++ Format.digits v.natAbs)) ∧
      (z = 0 ∨ z + (Format.digits v.natAbs).length ≤ width) := by
  by_cases hv : v < 0
  · cases pad
    · exact ⟨0, 0, by simp [Format.fmtInt, hv], by omega⟩
    · exact ⟨0, width - 1 - (Format.digits v.natAbs).length, by simp [Format.fmtInt, hv], by omega⟩
    · exact ⟨width - (1 + (Format.digits v.natAbs).length), 0, by simp [Format.fmtInt, hv], by omega⟩
  · have hp : plus = true := by rcases h with h | h; exact absurd h hv; exact h
    subst hp
    cases pad
    · exact ⟨0, 0, by simp [Format.fmtInt, hv], by omega⟩
    · exact ⟨0, width - 1 - (Format.digits v.natAbs).length, by simp [Format.fmtInt, hv], by omega⟩
    · exact ⟨width - (1 + (Format.digits v.natAbs).length), 0, by simp [Format.fmtInt, hv], by omega⟩

/-- any `fmtInt` text is a signed-number text for a reader of unlimited width after a sign and of
width `w` without one; it fills the width exactly when zero-padded, unsigned and short enough -/
theorem fmtInt_snum (v : Int) (width : Nat) (pad : Pad) (plus : Bool) (w : Option Nat) (fixed : Prop)
    (hv : v.natAbs < 10 ^ 17) (hwidth : width ≤ 18)
    (hw : 0 ≤ v → plus = false → ∀ m, w = some m → 1 ≤ m ∧ width ≤ m ∧ v < 10 ^ m)
    (hfix : fixed → 0 ≤ v ∧ plus = false ∧ pad = .zero ∧ w = some width ∧ v < 10 ^ width ∧ 1 ≤ width) :
    SNumText (Format.fmtInt v width pad plus) v w fixed := by
  by_cases hs : v < 0 ∨ plus = true
  · obtain ⟨k, z, he, hz⟩ := fmtInt_signed_text v width pad plus hs
    obtain ⟨a1, a2, a3, a4, a5, a6, _, _⟩ := zdigits z v.natAbs hv
    have hnf : ¬ fixed := by
      intro hf; obtain ⟨b1, b2, _⟩ := hfix hf
      rcases hs with h | h
      · omega
      · rw [b2] at h; cases h
    refine ⟨k, _, _, he, a3, a1, by rw [a4]; omega, ?_⟩
    by_cases hneg : v < 0
    · right; right; refine ⟨by simp [hneg], ?_, hnf⟩; rw [a2]; omega
    · right; left; refine ⟨by simp [hneg], ?_, hnf⟩; rw [a2]; omega
  · have h0 : 0 ≤ v := by omega
    have hp : plus = false := by cases plus <;> simp_all
    subst hp
    obtain ⟨k, z, he, hz1, hz2, _⟩ := fmtInt_unsigned_text v width pad h0
    have e : v.natAbs = v.toNat := by omega
    rw [e] at hv
    obtain ⟨a1, a2, a3, a4, a5, a6, a7, _⟩ := zdigits z v.toNat hv
    have hzle : z = 0 ∨ z + (Format.digits v.toNat).length ≤ width := by
      by_cases hp : pad = .zero
      · rw [(hz1 hp).2]; omega
      · left; exact hz2 hp
    refine ⟨k, [], _, by rw [he]; simp, a3, a1, by rw [a4]; omega, Or.inl ⟨rfl, by rw [a2]; omega, ?_, ?_⟩⟩
    · intro m hm
      obtain ⟨hm0, b1, b2⟩ := hw h0 rfl m hm
      rw [a4]
      have := a7 m hm0 (by
          have : (v.toNat : Int) = v := by omega
          have h3 : ((v.toNat : Nat) : Int) < ((10 ^ m : Nat) : Int) := by rw [this]; exact_mod_cast b2
          exact_mod_cast h3)
      by_cases hp : pad = .zero
      · rw [(hz1 hp).2]; omega
      · rw [hz2 hp]; omega
    · intro hf
      obtain ⟨_, _, b3, b4, b5, b6⟩ := hfix hf
      rw [b4, a4, (hz1 b3).2]
      have := a7 width b6 (by
          have : (v.toNat : Int) = v := by omega
          have h3 : ((v.toNat : Nat) : Int) < ((10 ^ width : Nat) : Int) := by rw [this]; exact_mod_cast b5
          exact_mod_cast h3)
      congr 1; omega

/-! ### years, timestamps, `%f` -/

theorem asU8_small (x : Int) (h : 0 ≤ x ∧ x < 256) : asU8 x = x := by unfold asU8; omega

/-- `write_year` for every year of the `i32`-sized range and every padding: four digits for
0–9999 when zero-padded (and for 1000–9999 always), `+`/`-` and at least four digits otherwise -/
theorem write_year_text (y : Int) (pad : Pad) (hy : -1000000000 < y ∧ y < 1000000000) :
    ∃ text, Format.write_year y pad = Format.wok text ∧
      SNumText text y (some 4) (pad = .zero ∧ 0 ≤ y ∧ y ≤ 9999) := by
  unfold Format.write_year
  by_cases h4 : 1000 ≤ y ∧ y ≤ 9999
  · rw [if_pos h4]
    have e1 : Int.tdiv y 100 = y / 100 := Int.tdiv_eq_ediv_of_nonneg (by omega)
    have e2 : Int.tmod y 100 = y % 100 := Int.tmod_eq_emod_of_nonneg (by omega)
    rw [e1, e2, asU8_small _ (by omega), asU8_small _ (by omega),
      RenderScan.write_hundreds_eq _ (by omega) (by omega),
      RenderScan.write_hundreds_eq _ (by omega) (by omega)]
    refine ⟨RenderScan.two (y / 100).toNat ++ RenderScan.two (y % 100).toNat, rfl, 0, [],
      RenderScan.two (y / 100).toNat ++ RenderScan.two (y % 100).toNat, by simp, by simp [RenderScan.two], ?_,
      by simp [RenderScan.two], Or.inl ⟨rfl, ?_, ?_, ?_⟩⟩
    · exact RenderScan.allDigits_append.mpr
        ⟨RenderScan.allDigits_two _ (by omega), RenderScan.allDigits_two _ (by omega)⟩
    · rw [RenderScan.valOf_append, RenderScan.valOf_two _ (by omega), RenderScan.valOf_two _ (by omega)]
      simp only [RenderScan.two_length]
      omega
    · intro m hm; cases hm; simp [RenderScan.two]
    · intro _; simp [RenderScan.two]
  · rw [if_neg h4]
    refine ⟨_, rfl, ?_⟩
    unfold Format.write_n
    by_cases h0 : 0 ≤ y ∧ y < 10000
    · have hb : (!(decide (0 ≤ y) && decide (y < 10000))) = false := by simp [h0.1, h0.2]
      rw [hb]
      simp only [Bool.false_eq_true, if_false]
      exact fmtInt_snum y 4 pad false (some 4) _ (by omega) (by omega)
        (fun _ _ m hm => by cases hm; exact ⟨by omega, by omega, by omega⟩)
        (fun hf => ⟨hf.2.1, rfl, hf.1, rfl, by omega, by omega⟩)
    · have hb : (!(decide (0 ≤ y) && decide (y < 10000))) = true := by
        simp only [Bool.not_eq_true', Bool.and_eq_false_iff, decide_eq_false_iff_not]; omega
      rw [hb]
      simp only [if_true]
      exact fmtInt_snum y 5 pad true (some 4) _ (by omega) (by omega)
        (fun _ h => by cases h) (fun hf => absurd ⟨hf.2.1, by omega⟩ h0)

/-- `%s`: the signed decimal of the timestamp, any padding -/
theorem write_timestamp_text (ts : Int) (pad : Pad) (h : -100000000000000000 < ts ∧ ts < 100000000000000000) :
    SNumText (Format.write_n 9 ts pad false) ts none False := by
  unfold Format.write_n
  simp only [Bool.false_eq_true, if_false]
  exact fmtInt_snum ts 9 pad false none False (by omega) (by omega) (fun _ _ m hm => by cases hm)
    (fun hf => hf.elim)

/-- `%f`: nine digits when zero-padded, the plain number otherwise -/
theorem write_nano_text (v : Int) (pad : Pad) (h : 0 ≤ v ∧ v < 1000000000) :
    UNumText (Format.write_n 9 v pad false) v.toNat 9 (pad = .zero) := by
  unfold Format.write_n
  simp only [Bool.false_eq_true, if_false]
  obtain ⟨k, z, he, hz1, hz2, _⟩ := fmtInt_unsigned_text v 9 pad h.1
  obtain ⟨a1, a2, a3, a4, a5, a6, a7, _⟩ := zdigits z v.toNat (by omega)
  have h9 := a7 9 (by omega) (by omega)
  refine ⟨k, _, he, a3, a1, a2, ?_, ?_, by omega⟩
  · rw [a4]
    by_cases hp : pad = .zero
    · rw [(hz1 hp).2]; omega
    · rw [hz2 hp]; omega
  · intro hp; rw [a4, (hz1 hp).2]; omega

/-! ### the fraction items -/

theorem setNano_ok (p : Parsed) (rest : List Nat) (v : Int) :
    Parse.setNano p (.ok (rest, v)) = (p.set_nanosecond v).map fun p' => (p', rest) := by
  simp only [Parse.setNano]; cases p.set_nanosecond v <;> rfl

/-- `%.3f %.6f %.9f` and a non-empty `%.f`: a dot and `k` digits, read as `v · 10^(9-k)` ns -/
theorem frac_dot_inverts (f : Fixed) (hf : f = .nanosecond ∨ f = .nanosecond3 ∨ f = .nanosecond6 ∨ f = .nanosecond9)
    (v : Int) (k : Nat) (h0 : 0 ≤ v) (hk1 : 1 ≤ k) (hk9 : k ≤ 9) (hlt : v < ((10 ^ k : Nat) : Int))
    (rest : List Nat) (hr : StopsDigits rest) :
    InvertsAt (.fixed f) ⟨46 :: Format.fmtInt v k .zero false,
      fun p => p.set_nanosecond (v * ((10 ^ (9 - k) : Nat) : Int))⟩ rest := by
  intro p
  have hn := RenderScan.nanosecond_fmtInt v k rest h0 hk1 hk9 hlt hr
  rcases hf with rfl | rfl | rfl | rfl <;>
    simp only [step, Parse.parseItemBase, Parse.parseFixedBase, List.cons_append, hn, setNano_ok]

theorem parseFixed_nano_nodot (p : Parsed) (rest : List Nat) (h : ∀ t, rest ≠ 46 :: t) :
    Parse.parseFixedBase p rest .nanosecond = .ok (p, rest) := by
  cases rest with
  | nil => rfl
  | cons b t =>
    have hb : b ≠ 46 := fun e => h t (by rw [e])
    clear h
    simp only [Parse.parseFixedBase]
    split
    · rename_i e; injection e with e; exact absurd e hb
    · rfl

/-- `%.f` of a whole second prints nothing and reads nothing, unless a dot follows -/
theorem frac_empty_inverts (rest : List Nat) (h : ∀ t, rest ≠ 46 :: t) :
    InvertsAt (.fixed .nanosecond) ⟨[], .ok⟩ rest := by
  intro p
  simp only [step, Parse.parseItemBase, List.nil_append, parseFixed_nano_nodot p rest h]
  rfl

/-- `%3f %6f %9f`: exactly `k` digits, whatever follows -/
theorem frac_nodot_inverts (f : Fixed) (k : Nat)
    (hf : (f = .nanosecond3NoDot ∧ k = 3) ∨ (f = .nanosecond6NoDot ∧ k = 6) ∨ (f = .nanosecond9NoDot ∧ k = 9))
    (v : Int) (h0 : 0 ≤ v) (hlt : v < ((10 ^ k : Nat) : Int)) (rest : List Nat) :
    InvertsAt (.fixed f) ⟨Format.fmtInt v k .zero false,
      fun p => p.set_nanosecond (v * ((10 ^ (9 - k) : Nat) : Int))⟩ rest := by
  intro p
  have hk : 1 ≤ k ∧ k ≤ 9 := by rcases hf with ⟨_, rfl⟩ | ⟨_, rfl⟩ | ⟨_, rfl⟩ <;> omega
  obtain ⟨_, hlen, _⟩ := RenderScan.fmtInt_pad_spec v k h0 hk.1 hlt
  have hnum := RenderScan.number_fmtInt v k rest k (some k) h0 hk.1 (by omega) hlt (Nat.le_refl _)
    (fun m hm => by cases hm; exact Nat.le_refl _) (Or.inl rfl)
  have hfix : nanosecond_fixed (Format.fmtInt v k .zero false ++ rest) k =
      .ok (rest, v * ((10 ^ (9 - k) : Nat) : Int)) := by
    unfold nanosecond_fixed
    rw [hnum]
    simp only
    rw [RenderScan.scale_getD k hk.1 hk.2, if_neg]
    have : v * ((10 ^ (9 - k) : Nat) : Int) < 1000000000 := by
      rcases hf with ⟨_, rfl⟩ | ⟨_, rfl⟩ | ⟨_, rfl⟩ <;> norm_num at hlt ⊢ <;> omega
    simp only [I64_MAX]; omega
  have hlen' : ¬ (Format.fmtInt v k .zero false ++ rest).length < k := by
    simp only [List.length_append, hlen]; omega
  rcases hf with ⟨rfl, rfl⟩ | ⟨rfl, rfl⟩ | ⟨rfl, rfl⟩ <;>
    simp only [step, Parse.parseItemBase, Parse.parseFixedBase, hlen', if_false, hfix, setNano_ok]

/-! ### the offset items `%z` and `%:z` -/

theorem colon_or_space_digit (d : Nat) (t : List Nat) (hd : isDigit d = true) :
    colon_or_space (d :: t) = d :: t := by
  have h58 : d ≠ 58 := by intro h; subst h; revert hd; decide
  unfold colon_or_space
  simp only [List.length_cons, colonOrSpaceAux]
  split
  · rename_i e; injection e with e; exact absurd e h58
  · simp [wsLen_digit d t hd]

theorem colon_or_space_colon_digit (d : Nat) (t : List Nat) (hd : isDigit d = true) :
    colon_or_space (58 :: d :: t) = d :: t := by
  have h58 : d ≠ 58 := by intro h; subst h; revert hd; decide
  unfold colon_or_space
  simp only [List.length_cons, colonOrSpaceAux]
  split
  · rename_i e; injection e with e; exact absurd e h58
  · simp [wsLen_digit d t hd]

/-- the offset reader in the mode of `%z`/`%:z` (colons and blanks skipped between hours and
minutes): sign, two-digit hours, nothing or a colon, two-digit minutes below 60 -/
theorem tzoffset_cos (sign : Nat) (hsign : sign = 43 ∨ sign = 45) (hh mm : Nat) (hh100 : hh < 100)
    (mm60 : mm < 60) (ct : List Nat) (hct : ct = [] ∨ ct = [58]) (rest : List Nat) (missing minus : Bool) :
    timezone_offset (sign :: (RenderScan.two hh ++ (ct ++ (RenderScan.two mm ++ rest)))) .colonOrSpace false missing minus =
      .ok (rest, if sign = 45 then -((hh : Int) * 3600 + (mm : Int) * 60) else (hh : Int) * 3600 + (mm : Int) * 60) := by
  have hd := RenderScan.allDigits_two hh hh100
  have hd2 := RenderScan.allDigits_two mm (by omega)
  have e1 : isDigit (48 + hh / 10) = true := hd _ (by simp [RenderScan.two])
  have e2 : isDigit (48 + hh % 10) = true := hd _ (by simp [RenderScan.two])
  have e3 : isDigit (48 + mm / 10) = true := hd2 _ (by simp [RenderScan.two])
  have e4 : isDigit (48 + mm % 10) = true := hd2 _ (by simp [RenderScan.two])
  have hm1 : 48 ≤ 48 + mm / 10 ∧ 48 + mm / 10 ≤ 53 := by omega
  have hc : colon_or_space (ct ++ ((48 + mm / 10) :: (48 + mm % 10) :: rest)) =
      (48 + mm / 10) :: (48 + mm % 10) :: rest := by
    rcases hct with rfl | rfl
    · exact colon_or_space_digit _ _ e3
    · exact colon_or_space_colon_digit _ _ e3
  rcases hsign with rfl | rfl
  · unfold timezone_offset
    simp [RenderScan.two, consumeColon, hc, e1, e2, e4, hm1]
    omega
  · unfold timezone_offset
    simp [RenderScan.two, consumeColon, hc, e1, e2, e4, hm1]
    omega

theorem setOffset_ok (p : Parsed) (rest : List Nat) (v : Int) :
    Parse.setOffset p (.ok (rest, v)) = (p.set_offset v).map fun p' => (p', rest) := by
  simp only [Parse.setOffset]; cases p.set_offset v <;> rfl

/-- `%z` (`+hhmm`) and `%:z` (`+hh:mm`): the writer prints the offset rounded to the nearest minute
(half a minute rounds away from zero), the reader returns exactly that rounded offset — so a
whole-minute offset comes back unchanged and a sub-minute one comes back rounded; the text starts
with its sign, and nothing that follows can extend it -/
theorem offset_inverts (f : Fixed) (hf : f = .timezoneOffset ∨ f = .timezoneOffsetColon)
    (d : Option Date) (t : Option Time) (name : List Nat) (off : Int) (hoff : -86400 < off ∧ off < 86400)
    (rest : List Nat) :
    ∃ sg body, (sg = 43 ∨ sg = 45) ∧
      Format.format_fixed d t (some (name, off)) f = Format.wok (sg :: body) ∧
      InvertsAt (.fixed f) ⟨sg :: body, fun p => p.set_offset (Spec.roundedOffset off)⟩ rest := by
  generalize ha : (if off < 0 then -off else off) = a
  have ha0 : 0 ≤ a ∧ a < 86400 := by rw [← ha]; split <;> omega
  have hhh : ((a + 30) / 60 / 60).toNat < 100 := by omega
  have hmm : ((a + 30) / 60 % 60).toNat < 60 := by omega
  have hval : (if (if off < 0 then 45 else 43) = 45 then
        -((((a + 30) / 60 / 60).toNat : Int) * 3600 + (((a + 30) / 60 % 60).toNat : Int) * 60)
      else (((a + 30) / 60 / 60).toNat : Int) * 3600 + (((a + 30) / 60 % 60).toNat : Int) * 60) =
      Spec.roundedOffset off := by
    unfold Spec.roundedOffset
    have e1 : (((a + 30) / 60 / 60).toNat : Int) = (a + 30) / 60 / 60 := Int.toNat_of_nonneg (by omega)
    have e2 : (((a + 30) / 60 % 60).toNat : Int) = (a + 30) / 60 % 60 := Int.toNat_of_nonneg (by omega)
    rw [e1, e2]
    by_cases h : off < 0
    · simp only [h, if_true] at ha ⊢; subst ha; omega
    · simp only [h, if_false] at ha ⊢; subst ha
      have : ¬ ((43 : Nat) = 45) := by decide
      simp only [this, if_false]; omega
  have key : ∀ colons : Format.Colons, ∀ ct, ct = RenderScan.colonText colons → (ct = [] ∨ ct = [58]) →
      ∀ f, (∀ p s, step p s (.fixed f) =
          Parse.setOffset p (timezone_offset (trimStart s) .colonOrSpace false false true)) →
      Format.format_fixed d t (some (name, off)) f = Format.OffsetFormat.format ⟨.minutes, colons, false, .zero⟩ off →
      ∃ sg body, (sg = 43 ∨ sg = 45) ∧
        Format.format_fixed d t (some (name, off)) f = Format.wok (sg :: body) ∧
        InvertsAt (.fixed f) ⟨sg :: body, fun p => p.set_offset (Spec.roundedOffset off)⟩ rest := by
    intro colons ct hct hct2 f hread hwrite
    have hw := RenderScan.offset_minutes_eq colons false off hoff
    rw [if_neg (by simp), ha] at hw
    refine ⟨if off < 0 then 45 else 43, _, by split <;> simp, hwrite.trans hw, ?_⟩
    intro p
    have hsg : (if off < 0 then 45 else 43 : Nat) = 43 ∨ (if off < 0 then 45 else 43 : Nat) = 45 := by
      split <;> simp
    have htz := tzoffset_cos _ hsg _ _ hhh hmm ct hct2 rest false true
    have hre : (if off < 0 then 45 else 43) ::
        (RenderScan.two ((a + 30) / 60 / 60).toNat ++ RenderScan.colonText colons ++
          RenderScan.two ((a + 30) / 60 % 60).toNat) ++ rest =
        (if off < 0 then 45 else 43) :: (RenderScan.two ((a + 30) / 60 / 60).toNat ++
          (ct ++ (RenderScan.two ((a + 30) / 60 % 60).toNat ++ rest))) := by
      rw [hct]; simp
    have htrim : trimStart ((if off < 0 then 45 else 43) :: (RenderScan.two ((a + 30) / 60 / 60).toNat ++
          (ct ++ (RenderScan.two ((a + 30) / 60 % 60).toNat ++ rest)))) = _ :=
      trimStart_noop _ (by split <;> simp [wsLen])
    dsimp only
    rw [hread, hre, htrim, htz, setOffset_ok, hval]
  rcases hf with rfl | rfl
  · exact key .maybe [] (by simp [RenderScan.colonText]) (Or.inl rfl) _ (fun _ _ => rfl)
      (by cases d <;> cases t <;> rfl)
  · exact key .colon [58] (by simp [RenderScan.colonText]) (Or.inr rfl) _ (fun _ _ => rfl)
      (by cases d <;> cases t <;> rfl)

end Chrono.Proofs.RoundTrip
