/- Helper lemmas about the machine-integer primitives. -/
import Chrono.Prim
namespace Chrono.Proofs
open Chrono

theorem ckI64_ok {x : Int} (h1 : -9223372036854775808 ≤ x) (h2 : x ≤ 9223372036854775807) :
    ckI64 x = .ok x := by
  simp [ckI64, inI64, I64_MIN, I64_MAX, h1, h2]

theorem ckI32_ok {x : Int} (h1 : -2147483648 ≤ x) (h2 : x ≤ 2147483647) : ckI32 x = .ok x := by
  simp [ckI32, inI32, I32_MIN, I32_MAX, h1, h2]

theorem optI64_some {x : Int} (h1 : -9223372036854775808 ≤ x) (h2 : x ≤ 9223372036854775807) :
    optI64 x = some x := by
  simp [optI64, inI64, I64_MIN, I64_MAX, h1, h2]

theorem optI64_none {x : Int} (h : x < -9223372036854775808 ∨ 9223372036854775807 < x) :
    optI64 x = none := by
  simp only [optI64, inI64, I64_MIN, I64_MAX]
  rcases h with h | h
  · have : ¬ (-9223372036854775808 ≤ x) := by omega
    simp [this]
  · have : ¬ (x ≤ 9223372036854775807) := by omega
    simp [this]

theorem asU32_id {x : Int} (h1 : 0 ≤ x) (h2 : x < 4294967296) : asU32 x = x := by
  unfold asU32; omega

theorem asI32_id {x : Int} (h1 : -2147483648 ≤ x) (h2 : x ≤ 2147483647) : asI32 x = x := by
  unfold asI32; simp only; split <;> omega

/-- Rust `/` (truncating) in terms of floor division, for use before `omega` -/
theorem tdiv_eq (x k : Int) : Int.tdiv x k = if 0 ≤ x then x / k else -((-x) / k) := by
  split
  · rename_i h; exact Int.tdiv_eq_ediv_of_nonneg h
  · rename_i h
    have h2 : 0 ≤ -x := by omega
    have := Int.tdiv_eq_ediv_of_nonneg (b := k) h2
    rw [← this, Int.neg_tdiv, Int.neg_neg]

/-- Rust `%` (truncating remainder) -/
theorem tmod_eq (x k : Int) : Int.tmod x k = x - k * (if 0 ≤ x then x / k else -((-x) / k)) := by
  rw [Int.tmod_def, tdiv_eq]

/-- instance-agnostic rewriting of conditionals (used instead of `split` when the `Decidable`
instances carry unfolded definitions) -/
theorem ite_flip {α : Type} {c d : Prop} {ic : Decidable c} {id : Decidable d} (x y : α)
    (h : c ↔ ¬ d) : @ite α c ic x y = @ite α d id y x := by
  by_cases hc : c
  · have hd : ¬ d := h.mp hc
    rw [if_pos hc, if_neg hd]
  · have hd : d := by
      by_cases hd : d
      · exact hd
      · exact absurd (h.mpr hd) hc
    rw [if_neg hc, if_pos hd]

theorem ite_same {α : Type} {c d : Prop} {ic : Decidable c} {id : Decidable d} (x y : α)
    (h : c ↔ d) : @ite α c ic x y = @ite α d id x y := by
  by_cases hc : c
  · rw [if_pos hc, if_pos (h.mp hc)]
  · rw [if_neg hc, if_neg (fun hd => hc (h.mpr hd))]

theorem ite_pos' {α : Type} {c : Prop} {ic : Decidable c} (x y : α) (h : c) : @ite α c ic x y = x :=
  if_pos h
theorem ite_neg' {α : Type} {c : Prop} {ic : Decidable c} (x y : α) (h : ¬ c) : @ite α c ic x y = y :=
  if_neg h

end Chrono.Proofs
