/- Helper lemmas for C07 (proofs of the statements in Props/C07.lean). -/
import Chrono.Spec.TimeSpec
import Chrono.Model.TimeCarry
import Chrono.Proofs.PrimL
import Chrono.Proofs.DeltaL

namespace Chrono.Proofs
open Chrono Chrono.M Chrono.Spec Chrono.Extracted

theorem rbind_ok {α β} (a : α) (f : α → Res β) : (Res.ok a).bind f = f a := rfl

theorem ckU32_ok {x : Int} (h1 : 0 ≤ x) (h2 : x ≤ 4294967295) : ckU32 x = .ok x := by
  simp [ckU32, inU32, U32_MAX, h1, h2]

theorem optU32_some {x : Int} (h1 : 0 ≤ x) (h2 : x ≤ 4294967295) : optU32 x = some x := by
  simp [optU32, inU32, U32_MAX, h1, h2]

theorem optU32_none {x : Int} (h : 4294967295 < x) : optU32 x = none := by
  have : ¬ (x ≤ 4294967295) := by omega
  simp [optU32, inU32, U32_MAX, this]

/-- the two parts `overflowing_add_signed` reads from a duration: same sign, exact, bounded -/
theorem delta_parts (d : Delta) (h : DInv d) :
    ns d = d.num_seconds * 1000000000 + d.subsec_nanos ∧
    -1000000000 < d.subsec_nanos ∧ d.subsec_nanos < 1000000000 ∧
    (0 < d.num_seconds → 0 ≤ d.subsec_nanos) ∧ (d.num_seconds < 0 → d.subsec_nanos ≤ 0) ∧
    -9223372036854775 ≤ d.num_seconds ∧ d.num_seconds ≤ 9223372036854775 := by
  obtain ⟨s, n⟩ := d
  simp only [DInv, nsInRange, ns, NS_MAX] at h
  simp only [Delta.num_seconds, Delta.subsec_nanos, NANOS_PER_SEC, ns]
  by_cases hc : s < 0 ∧ n > 0
  · rw [if_pos hc, if_pos hc]; omega
  · rw [if_neg hc, if_neg hc]; omega

/-- the common tail of the addition: exact on the plain line, wrapped modulo one day -/
theorem add_tail_ok (s f S F : Int) (hs : 0 ≤ s ∧ s ≤ 86400) (hf : 0 ≤ f ∧ f < 1000000000)
    (hS : -9223372036854775 ≤ S ∧ S ≤ 9223372036854775) (hF : -1000000000 < F ∧ F < 1000000000) :
    Time.add_tail s f S F =
      .ok (⟨(((s + S) * 1000000000 + f + F) / 1000000000) % 86400,
            ((s + S) * 1000000000 + f + F) % 1000000000⟩,
           ((s + S) * 1000000000 + f + F) / 1000000000
             - (((s + S) * 1000000000 + f + F) / 1000000000) % 86400) := by
  unfold Time.add_tail
  rw [ckI64_ok (by omega) (by omega), rbind_ok, ckI32_ok (by omega) (by omega), rbind_ok]
  by_cases h1 : f + F < 0
  · rw [if_pos h1, ckI32_ok (by omega) (by omega), rbind_ok, ckI64_ok (by omega) (by omega), rbind_ok]
    simp only []
    rw [ckI64_ok (by omega) (by omega), rbind_ok]
    simp only [Res.ok.injEq, Prod.mk.injEq, Time.mk.injEq, asU32]
    omega
  · rw [if_neg h1]
    by_cases h2 : f + F ≥ 1000000000
    · rw [if_pos h2, ckI32_ok (by omega) (by omega), rbind_ok, ckI64_ok (by omega) (by omega), rbind_ok]
      simp only []
      rw [ckI64_ok (by omega) (by omega), rbind_ok]
      simp only [Res.ok.injEq, Prod.mk.injEq, Time.mk.injEq, asU32]
      omega
    · rw [if_neg h2]
      simp only []
      rw [ckI64_ok (by omega) (by omega), rbind_ok]
      simp only [Res.ok.injEq, Prod.mk.injEq, Time.mk.injEq, asU32]
      omega

/-- closes `Res.ok (model value) = Res.ok (spec value)` goals after the model side is evaluated -/
macro "spec_fin" : tactic => `(tactic|
  ((repeat' split) <;>
    (first
      | omega
      | (simp only [Res.ok.injEq, Prod.mk.injEq, Time.mk.injEq, asU32, true_and, and_true]; omega))))

theorem add_spec' (t : Time) (d : Delta) (ht : TValid t) (hd : DInv d) :
    Time.overflowing_add_signed t d = .ok (addLeap t (ns d)) := by
  obtain ⟨hns, hF1, hF2, hpos, hneg, hS1, hS2⟩ := delta_parts d hd
  obtain ⟨s, f⟩ := t
  simp only [TValid] at ht
  unfold Time.overflowing_add_signed
  simp only []
  rw [asI32_id (by omega) (by omega), hns]
  generalize d.num_seconds = S at *
  generalize d.subsec_nanos = F at *
  unfold addLeap pos
  simp only []
  by_cases hl : f ≥ 1000000000
  · rw [if_pos hl]
    by_cases c1 : S > 0 ∨ (F > 0 ∧ f ≥ 2000000000 - F)
    · rw [if_pos c1, ckI32_ok (by omega) (by omega), rbind_ok,
        add_tail_ok s (f - 1000000000) S F (by omega) (by omega) ⟨hS1, hS2⟩ ⟨hF1, hF2⟩]
      spec_fin
    · rw [if_neg c1]
      by_cases c2 : S < 0
      · rw [if_pos c2, ckI32_ok (by omega) (by omega), rbind_ok, ckI64_ok (by omega) (by omega), rbind_ok,
          add_tail_ok (s + 1) (f - 1000000000) S F (by omega) (by omega) ⟨hS1, hS2⟩ ⟨hF1, hF2⟩]
        spec_fin
      · rw [if_neg c2, ckI32_ok (by omega) (by omega), rbind_ok]
        spec_fin
  · rw [if_neg hl, add_tail_ok s f S F (by omega) (by omega) ⟨hS1, hS2⟩ ⟨hF1, hF2⟩]
    spec_fin

/-! ### facts about the specification itself -/

theorem addLeap_facts (t : Time) (δ : Int) (ht : TValid t) :
    TValid (addLeap t δ).1 ∧ (addLeap t δ).2 % 86400 = 0 ∧
    (t.frac < 1000000000 →
      (addLeap t δ).1.frac < 1000000000 ∧
      pos (addLeap t δ).1 + (addLeap t δ).2 * 1000000000 = pos t + δ) ∧
    ((addLeap t δ).1.frac ≥ 1000000000 ↔
      (t.frac ≥ 1000000000 ∧ (t.secs + 1) * 1000000000 ≤ pos t + δ ∧
        pos t + δ < (t.secs + 2) * 1000000000)) := by
  obtain ⟨s, f⟩ := t
  simp only [TValid] at ht
  unfold addLeap pos TValid
  simp only []
  split
  · simp only []; omega
  · split
    · simp only []; omega
    · simp only []; omega

theorem addLeap_carry_bound (t : Time) (δ : Int) (ht : TValid t)
    (hδ : -9223372036854775807000000 ≤ δ ∧ δ ≤ 9223372036854775807000000) :
    -9223372036941200 ≤ (addLeap t δ).2 ∧ (addLeap t δ).2 ≤ 9223372036941200 := by
  obtain ⟨s, f⟩ := t
  simp only [TValid] at ht
  unfold addLeap pos
  simp only []
  split
  · simp only []; omega
  · split
    · simp only []; omega
    · simp only []; omega

macro "leap_cases" : tactic => `(tactic|
  ((repeat' (first | split | (dsimp only at *; split))) <;>
    ((try dsimp only at *);
     first | omega | (simp only [Prod.mk.injEq, Time.mk.injEq, and_true, true_and]; omega))))

theorem addLeap_zero' (t : Time) (ht : TValid t) : addLeap t 0 = (t, 0) := by
  obtain ⟨s, f⟩ := t
  simp only [TValid] at ht
  unfold addLeap pos
  simp only []
  leap_cases

/-- documented law: for durations of the same sign, adding in two steps equals adding the sum
(carries add up) -/
theorem addLeap_assoc' (t : Time) (a b : Int) (ht : TValid t)
    (hab : (0 ≤ a ∧ 0 ≤ b) ∨ (a ≤ 0 ∧ b ≤ 0)) :
    addLeap t (a + b) =
      ((addLeap (addLeap t a).1 b).1, (addLeap t a).2 + (addLeap (addLeap t a).1 b).2) := by
  obtain ⟨s, f⟩ := t
  simp only [TValid] at ht
  unfold addLeap pos
  simp only []
  rcases hab with hab | hab
  · leap_cases
  · leap_cases

/-! ### subtraction -/

theorem sub_spec' (t : Time) (d : Delta) (ht : TValid t) (hd : DInv d) :
    Time.overflowing_sub_signed t d =
      .ok ((addLeap t (-(ns d))).1, -(addLeap t (-(ns d))).2) := by
  unfold Time.overflowing_sub_signed
  have hneg := (neg_abs_exact' d hd).1
  have hr : nsInRange (-(ns d)) := by
    have := hd.2.2
    simp only [nsInRange, NS_MAX] at *
    omega
  have hinv := ofNs_spec' (-(ns d)) hr
  rw [hneg, rbind_ok, add_spec' t _ ht hinv.1, rbind_ok, hinv.2]
  have hb := addLeap_carry_bound t (-(ns d)) ht (by
    simp only [nsInRange, NS_MAX] at hr; omega)
  rw [ckI64_ok (by omega) (by omega), rbind_ok]

/-! ### difference -/

theorem diffLeap_antisym (a b : Time) : diffLeap a b = -(diffLeap b a) := by
  unfold diffLeap; omega

theorem diff_spec' (a b : Time) (ha : TValid a) (hb : TValid b) :
    Time.signed_duration_since a b = .ok (ofNs (diffLeap a b)) ∧ DInv (ofNs (diffLeap a b)) ∧
    -86401000000000 < diffLeap a b ∧ diffLeap a b < 86401000000000 := by
  obtain ⟨s1, f1⟩ := a
  obtain ⟨s2, f2⟩ := b
  simp only [TValid] at ha hb
  have hbound : -86401000000000 < diffLeap ⟨s1, f1⟩ ⟨s2, f2⟩ ∧
      diffLeap ⟨s1, f1⟩ ⟨s2, f2⟩ < 86401000000000 := by
    unfold diffLeap linePos pos
    simp only []
    constructor <;> (repeat' split) <;> omega
  have hr : nsInRange (diffLeap ⟨s1, f1⟩ ⟨s2, f2⟩) := by
    simp only [nsInRange, NS_MAX]; omega
  refine ⟨?_, (ofNs_spec' _ hr).1, hbound⟩
  unfold Time.signed_duration_since
  simp only []
  have key : ∀ secs : Int, secs * 1000000000 + (f1 - f2) = diffLeap ⟨s1, f1⟩ ⟨s2, f2⟩ →
      (match Delta.new (secs + (f1 - f2) / 1000000000) (asU32 ((f1 - f2) % 1000000000)) with
        | some d => Res.ok d
        | none => Res.panic) = Res.ok (ofNs (diffLeap ⟨s1, f1⟩ ⟨s2, f2⟩)) := by
    intro secs hv
    rw [new_ofNs (secs + (f1 - f2) / 1000000000) (asU32 ((f1 - f2) % 1000000000))
      (diffLeap ⟨s1, f1⟩ ⟨s2, f2⟩) (by unfold asU32; omega) (by unfold asU32; omega)
      (by unfold asU32; omega)]
    rw [if_pos hr]
  by_cases c1 : s1 > s2 ∧ f2 ≥ 1000000000
  · rw [if_pos c1]
    apply key
    unfold diffLeap linePos pos
    simp only []
    (repeat' split) <;> omega
  · rw [if_neg c1]
    by_cases c2 : s1 < s2 ∧ f1 ≥ 1000000000
    · rw [if_pos c2]
      apply key
      unfold diffLeap linePos pos
      simp only []
      (repeat' split) <;> omega
    · rw [if_neg c2]
      apply key
      unfold diffLeap linePos pos
      simp only []
      (repeat' split) <;> omega

/-- model-level reading of `sub = add ∘ neg` -/
theorem sub_is_add_neg' (t : Time) (d : Delta) (ht : TValid t) (hd : DInv d) :
    ∃ n, Delta.neg d = .ok n ∧ DInv n ∧ ns n = -(ns d) ∧
      Time.overflowing_sub_signed t d =
        (Time.overflowing_add_signed t n).bind (fun p => .ok (p.1, -p.2)) := by
  have hr : nsInRange (-(ns d)) := by
    have := hd.2.2
    simp only [nsInRange, NS_MAX] at *
    omega
  have hinv := ofNs_spec' (-(ns d)) hr
  refine ⟨ofNs (-(ns d)), (neg_abs_exact' d hd).1, hinv.1, hinv.2, ?_⟩
  rw [sub_spec' t d ht hd, add_spec' t _ ht hinv.1, rbind_ok, hinv.2]

/-- model-level antisymmetry of the difference -/
theorem diff_antisym' (a b : Time) (ha : TValid a) (hb : TValid b) :
    ∃ x y, Time.signed_duration_since a b = .ok x ∧ Time.signed_duration_since b a = .ok y ∧
      DInv x ∧ DInv y ∧ ns x = -(ns y) ∧ Delta.neg y = .ok x := by
  have h1 := diff_spec' a b ha hb
  have h2 := diff_spec' b a hb ha
  have hr1 : nsInRange (diffLeap a b) := by simp only [nsInRange, NS_MAX]; omega
  have hr2 : nsInRange (diffLeap b a) := by simp only [nsInRange, NS_MAX]; omega
  refine ⟨_, _, h1.1, h2.1, h1.2.1, h2.2.1, ?_, ?_⟩
  · rw [(ofNs_spec' _ hr1).2, (ofNs_spec' _ hr2).2, diffLeap_antisym]
  · rw [(neg_abs_exact' _ h2.2.1).1, (ofNs_spec' _ hr2).2, ← diffLeap_antisym]

/-- model-level same-sign associativity -/
theorem add_assoc'' (t : Time) (a b ab : Delta) (ht : TValid t) (ha : DInv a) (hb : DInv b)
    (hab : DInv ab) (hsum : ns ab = ns a + ns b)
    (hsign : (0 ≤ ns a ∧ 0 ≤ ns b) ∨ (ns a ≤ 0 ∧ ns b ≤ 0)) :
    ∃ r1 c1 r2 c2, Time.overflowing_add_signed t a = .ok (r1, c1) ∧
      Time.overflowing_add_signed r1 b = .ok (r2, c2) ∧
      Time.overflowing_add_signed t ab = .ok (r2, c1 + c2) := by
  have hv := (addLeap_facts t (ns a) ht).1
  refine ⟨(addLeap t (ns a)).1, (addLeap t (ns a)).2, (addLeap (addLeap t (ns a)).1 (ns b)).1,
    (addLeap (addLeap t (ns a)).1 (ns b)).2, add_spec' t a ht ha, add_spec' _ b hv hb, ?_⟩
  rw [add_spec' t ab ht hab, hsum, addLeap_assoc' t (ns a) (ns b) ht hsign]

/-! ### `std::time::Duration` operands -/

/-- once the amount is a day or more (in either direction), further whole days do not change the
time of day — also for a leap-second operand, which has been left by then -/
theorem addLeap_periodic_far (t : Time) (δ k : Int) (ht : TValid t)
    (h : (86400000000000 ≤ δ ∧ 0 ≤ k) ∨ (δ ≤ -86400000000000 ∧ k ≤ 0)) :
    (addLeap t (δ + k * 86400000000000)).1 = (addLeap t δ).1 := by
  obtain ⟨s, f⟩ := t
  simp only [TValid] at ht
  unfold addLeap pos
  simp only []
  rcases h with h | h
  · leap_cases
  · leap_cases

theorem time_std_spec' (t : Time) (secs nanos : Int) (ht : TValid t) (hs : 0 ≤ secs)
    (hn : 0 ≤ nanos ∧ nanos < 1000000000) :
    Time.add_std t secs nanos = .ok (addLeap t (secs * 1000000000 + nanos)).1 ∧
    Time.sub_std t secs nanos = .ok (addLeap t (-(secs * 1000000000 + nanos))).1 := by
  by_cases hb : secs ≥ 86400
  · have hred : Time.std_reduce secs = secs % 86400 + 86400 := by
      unfold Time.std_reduce; rw [if_pos hb]
    have hnew : Delta.new (secs % 86400 + 86400) nanos = some ⟨secs % 86400 + 86400, nanos⟩ := by
      rw [new_iff' _ _ hn.1, if_pos]
      simp only [nsInRange, ns, NS_MAX]
      omega
    have hd : DInv ⟨secs % 86400 + 86400, nanos⟩ := by
      simp only [DInv, nsInRange, ns, NS_MAX]
      omega
    have e1 : secs * 1000000000 + nanos =
        ns ⟨secs % 86400 + 86400, nanos⟩ + (secs / 86400 - 1) * 86400000000000 := by
      simp only [ns]; omega
    have e2 : -(secs * 1000000000 + nanos) =
        -(ns ⟨secs % 86400 + 86400, nanos⟩) + (-(secs / 86400 - 1)) * 86400000000000 := by
      simp only [ns]; omega
    have hbig : 86400000000000 ≤ ns ⟨secs % 86400 + 86400, nanos⟩ := by simp only [ns]; omega
    constructor
    · unfold Time.add_std
      rw [hred, hnew]
      simp only []
      unfold Time.add
      rw [add_spec' t _ ht hd, rbind_ok, e1,
        addLeap_periodic_far t _ _ ht (Or.inl ⟨hbig, by omega⟩)]
    · unfold Time.sub_std
      rw [hred, hnew]
      simp only []
      unfold Time.sub
      rw [sub_spec' t _ ht hd, rbind_ok, e2,
        addLeap_periodic_far t _ _ ht (Or.inr ⟨by omega, by omega⟩)]
  · have hred : Time.std_reduce secs = secs := by
      unfold Time.std_reduce; rw [if_neg hb]
    have hnew : Delta.new secs nanos = some ⟨secs, nanos⟩ := by
      rw [new_iff' _ _ hn.1, if_pos]
      simp only [nsInRange, ns, NS_MAX]
      omega
    have hd : DInv ⟨secs, nanos⟩ := by
      simp only [DInv, nsInRange, ns, NS_MAX]
      omega
    have e : ns ⟨secs, nanos⟩ = secs * 1000000000 + nanos := rfl
    constructor
    · unfold Time.add_std
      rw [hred, hnew]
      simp only []
      unfold Time.add
      rw [add_spec' t _ ht hd, rbind_ok, e]
    · unfold Time.sub_std
      rw [hred, hnew]
      simp only []
      unfold Time.sub
      rw [sub_spec' t _ ht hd, rbind_ok, e]

/-! ### constructors -/

theorem hms_nano_iff' (h m s n : Int) :
    Time.from_hms_nano_opt h m s n =
      if okFields h m s n then some (ofFields h m s n) else none := by
  unfold Time.from_hms_nano_opt ofFields
  apply ite_flip
  unfold okFields
  omega

theorem hms_iff' (h m s : Int) :
    Time.from_hms_opt h m s = if h < 24 ∧ m < 60 ∧ s < 60 then some (ofFields h m s 0) else none := by
  unfold Time.from_hms_opt
  rw [hms_nano_iff']
  apply ite_same
  unfold okFields
  omega

theorem hms_milli_iff' (h m s ms : Int) (h0 : 0 ≤ ms) :
    Time.from_hms_milli_opt h m s ms =
      if h < 24 ∧ m < 60 ∧ s < 60 ∧ (ms < 1000 ∨ (s = 59 ∧ ms < 2000))
      then some (ofFields h m s (ms * 1000000)) else none := by
  unfold Time.from_hms_milli_opt
  by_cases hb : ms * 1000000 ≤ 4294967295
  · rw [optU32_some (by omega) hb]
    simp only []
    rw [hms_nano_iff']
    apply ite_same
    unfold okFields
    omega
  · rw [optU32_none (by omega)]
    simp only []
    symm
    apply ite_neg'
    omega

theorem hms_micro_iff' (h m s us : Int) (h0 : 0 ≤ us) :
    Time.from_hms_micro_opt h m s us =
      if h < 24 ∧ m < 60 ∧ s < 60 ∧ (us < 1000000 ∨ (s = 59 ∧ us < 2000000))
      then some (ofFields h m s (us * 1000)) else none := by
  unfold Time.from_hms_micro_opt
  by_cases hb : us * 1000 ≤ 4294967295
  · rw [optU32_some (by omega) hb]
    simp only []
    rw [hms_nano_iff']
    apply ite_same
    unfold okFields
    omega
  · rw [optU32_none (by omega)]
    simp only []
    symm
    apply ite_neg'
    omega

theorem nsfm_iff' (secs nano : Int) :
    Time.from_num_seconds_from_midnight_opt secs nano =
      if secs < 86400 ∧ (nano < 1000000000 ∨ (secs % 60 = 59 ∧ nano < 2000000000))
      then some ⟨secs, nano⟩ else none := by
  unfold Time.from_num_seconds_from_midnight_opt
  apply ite_flip
  omega

theorem fdiv60 (h m s : Int) (hs : 0 ≤ s ∧ s < 60) :
    (h * 3600 + m * 60 + s) / 60 = h * 60 + m ∧ (h * 3600 + m * 60 + s) % 60 = s := by omega
theorem fdiv60' (h m : Int) (hm : 0 ≤ m ∧ m < 60) :
    (h * 60 + m) / 60 = h ∧ (h * 60 + m) % 60 = m := by omega
theorem fdiv3600 (h m s : Int) (hm : 0 ≤ m ∧ m < 60) (hs : 0 ≤ s ∧ s < 60) :
    (h * 3600 + m * 60 + s) / 3600 = h := by omega
theorem div60_60 (x : Int) : x / 60 / 60 = x / 3600 := by omega
theorem split3600 (x : Int) : x / 3600 * 3600 + x / 60 % 60 * 60 + x % 60 = x := by omega
theorem mod3600 (x : Int) : x % 3600 = x / 60 % 60 * 60 + x % 60 := by omega

theorem hms_ofFields (h m s n : Int) (hm : 0 ≤ m ∧ m < 60) (hs : 0 ≤ s ∧ s < 60) :
    (ofFields h m s n).hms = (h, m, s) := by
  unfold Time.hms ofFields
  simp only []
  rw [(fdiv60 h m s hs).1, (fdiv60 h m s hs).2, (fdiv60' h m hm).1, (fdiv60' h m hm).2]

/-- an accepted tuple is read back unchanged, and the value satisfies the strict invariant -/
theorem ofFields_ok (h m s n : Int) (h0 : 0 ≤ h) (m0 : 0 ≤ m) (s0 : 0 ≤ s) (n0 : 0 ≤ n)
    (hok : okFields h m s n) :
    TStrict (ofFields h m s n) ∧ (ofFields h m s n).hour = h ∧ (ofFields h m s n).minute = m ∧
    (ofFields h m s n).second = s ∧ (ofFields h m s n).nanosecond = n := by
  unfold okFields at hok
  have e := hms_ofFields h m s n ⟨m0, hok.2.1⟩ ⟨s0, hok.2.2.1⟩
  refine ⟨?_, ?_, ?_, ?_, rfl⟩
  · have e2 := (fdiv60 h m s ⟨s0, hok.2.2.1⟩).2
    unfold TStrict TValid ofFields
    simp only []
    rw [e2]
    omega
  · unfold Time.hour; rw [e]
  · unfold Time.minute; rw [e]
  · unfold Time.second; rw [e]

/-! ### accessors -/

theorem hms_eq (t : Time) : t.hms = (hourOf t, minuteOf t, secondOf t) := by
  unfold Time.hms hourOf minuteOf secondOf
  simp only []
  rw [div60_60]

theorem accessors' (t : Time) (ht : TValid t) :
    t.hour = hourOf t ∧ t.minute = minuteOf t ∧ t.second = secondOf t ∧ t.nanosecond = t.frac ∧
    0 ≤ hourOf t ∧ hourOf t < 24 ∧ 0 ≤ minuteOf t ∧ minuteOf t < 60 ∧ 0 ≤ secondOf t ∧
    secondOf t < 60 ∧ hourOf t * 3600 + minuteOf t * 60 + secondOf t = t.secs ∧
    t.num_seconds_from_midnight = t.secs ∧ t.num_seconds_from_midnight_default = .ok t.secs ∧
    t.hour12 = (decide (12 ≤ hourOf t), if hourOf t % 12 = 0 then 12 else hourOf t % 12) := by
  have eh : t.hour = hourOf t := by unfold Time.hour; rw [hms_eq]
  have em : t.minute = minuteOf t := by unfold Time.minute; rw [hms_eq]
  have es : t.second = secondOf t := by unfold Time.second; rw [hms_eq]
  simp only [TValid] at ht
  have hsum := split3600 t.secs
  have b : 0 ≤ hourOf t ∧ hourOf t < 24 ∧ 0 ≤ minuteOf t ∧ minuteOf t < 60 ∧ 0 ≤ secondOf t ∧
      secondOf t < 60 := by
    unfold hourOf minuteOf secondOf; omega
  have hsum' : hourOf t * 3600 + minuteOf t * 60 + secondOf t = t.secs := hsum
  refine ⟨eh, em, es, rfl, b.1, b.2.1, b.2.2.1, b.2.2.2.1, b.2.2.2.2.1, b.2.2.2.2.2, hsum', rfl,
    ?_, ?_⟩
  · unfold Time.num_seconds_from_midnight_default
    rw [eh, em, es]
    simp only [bind, Res.bind]
    rw [ckU32_ok (by omega) (by omega)]
    simp only []
    rw [ckU32_ok (by omega) (by omega)]
    simp only []
    rw [ckU32_ok (by omega) (by omega)]
    simp only []
    rw [ckU32_ok (by omega) (by omega), hsum']
  · unfold Time.hour12
    rw [eh]

/-! ### single-field replacement -/

theorem with_field' (t : Time) (v : Int) (ht : TValid t) (hv : 0 ≤ v) :
    t.with_hour v =
      (if v < 24 then some (ofFields v (minuteOf t) (secondOf t) t.frac) else none) ∧
    t.with_minute v =
      (if v < 60 then some (ofFields (hourOf t) v (secondOf t) t.frac) else none) ∧
    t.with_second v =
      (if v < 60 then some (ofFields (hourOf t) (minuteOf t) v t.frac) else none) ∧
    t.with_nanosecond v =
      (if v < 2000000000 then some (ofFields (hourOf t) (minuteOf t) (secondOf t) v) else none) := by
  obtain ⟨s, f⟩ := t
  simp only [TValid] at ht
  have h1 := split3600 s
  have h2 := mod3600 s
  unfold Time.with_hour Time.with_minute Time.with_second Time.with_nanosecond ofFields hourOf
    minuteOf secondOf
  simp only []
  refine ⟨?_, ?_, ?_, ?_⟩
  · by_cases c : v ≥ 24
    · rw [if_pos c, if_neg (by omega)]
    · rw [if_neg c, if_pos (by omega), h2]
      simp only [Option.some.injEq, Time.mk.injEq, and_true]
      omega
  · by_cases c : v ≥ 60
    · rw [if_pos c, if_neg (by omega)]
    · rw [if_neg c, if_pos (by omega)]
  · by_cases c : v ≥ 60
    · rw [if_pos c, if_neg (by omega)]
    · rw [if_neg c, if_pos (by omega)]
      simp only [Option.some.injEq, Time.mk.injEq, and_true]
      omega
  · by_cases c : v ≥ 2000000000
    · rw [if_pos c, if_neg (by omega)]
    · rw [if_neg c, if_pos (by omega), h1]

/-- replacement keeps values valid (leap representation allowed on any second) -/
theorem ofFields_valid (h m s n : Int) (hh : 0 ≤ h ∧ h < 24) (hm : 0 ≤ m ∧ m < 60)
    (hs : 0 ≤ s ∧ s < 60) (hn : 0 ≤ n ∧ n < 2000000000) :
    TValid (ofFields h m s n) ∧ hourOf (ofFields h m s n) = h ∧ minuteOf (ofFields h m s n) = m ∧
    secondOf (ofFields h m s n) = s ∧ (ofFields h m s n).frac = n := by
  unfold TValid ofFields hourOf minuteOf secondOf
  simp only []
  rw [fdiv3600 h m s hm hs, (fdiv60 h m s hs).1, (fdiv60 h m s hs).2, (fdiv60' h m hm).2]
  simp only [and_true]
  omega

/-! ### offset shifts -/

theorem offset' (t : Time) (off : Int) (ht : TValid t) (ho : -86400 < off ∧ off < 86400) :
    Time.overflowing_add_offset t off = .ok (shiftOff t off) ∧
    Time.overflowing_sub_offset t off = .ok (shiftOff t (-off)) ∧
    (shiftOff t off).1.frac = t.frac ∧ TValid (shiftOff t off).1 ∧
    (-1 ≤ (shiftOff t off).2 ∧ (shiftOff t off).2 ≤ 1) ∧
    (shiftOff t off).1.secs + (shiftOff t off).2 * 86400 = t.secs + off := by
  obtain ⟨s, f⟩ := t
  simp only [TValid] at ht
  unfold Time.overflowing_add_offset Time.overflowing_sub_offset shiftOff TValid
  simp only []
  rw [asI32_id (by omega) (by omega), ckI32_ok (by omega) (by omega), rbind_ok,
    ckI32_ok (by omega) (by omega), rbind_ok]
  refine ⟨?_, ?_, ?_, ?_, ?_, ?_⟩
  · simp only [Res.ok.injEq, Prod.mk.injEq, Time.mk.injEq, asU32, and_true]; omega
  · simp only [Res.ok.injEq, Prod.mk.injEq, Time.mk.injEq, asU32, and_true]; omega
  · trivial
  · omega
  · omega
  · omega

/-! ### the carry applied to an abstract date -/

theorem num_days_whole (c : Int) (hc : c % 86400 = 0) :
    (⟨c, 0⟩ : Delta).num_days = c / 86400 := by
  unfold Delta.num_days Delta.num_seconds
  simp only []
  rw [if_neg (by omega), tdiv_eq]
  have h : SECS_PER_DAY = 86400 := rfl
  rw [h]
  split <;> omega

theorem dt_add' (lo hi day : Int) (t : Time) (d : Delta) (ht : TValid t) (hd : DInv d)
    (hw : -100000000 ≤ lo ∧ hi ≤ 100000000 ∧ lo ≤ day ∧ day ≤ hi) :
    TimeCarry.checked_add_signed lo hi day t d =
      .ok (if lo ≤ day + (addLeap t (ns d)).2 / 86400 ∧ day + (addLeap t (ns d)).2 / 86400 ≤ hi
           then some (day + (addLeap t (ns d)).2 / 86400, (addLeap t (ns d)).1) else none) := by
  unfold TimeCarry.checked_add_signed
  rw [add_spec' t d ht hd, rbind_ok]
  have hm := (addLeap_facts t (ns d) ht).2.1
  generalize addLeap t (ns d) = p at *
  obtain ⟨r, c⟩ := p
  simp only [] at hm ⊢
  unfold Delta.try_seconds
  rw [new_iff' c 0 (by omega)]
  by_cases hr : (0:Int) < 1000000000 ∧ nsInRange (ns ⟨c, 0⟩)
  · rw [if_pos hr]
    simp only []
    rw [num_days_whole c hm]
    have h1 : I32_MIN = -2147483648 := rfl
    have h2 : I32_MAX = 2147483647 := rfl
    by_cases hg : c / 86400 < I32_MIN ∨ c / 86400 > I32_MAX
    · rw [if_pos hg, if_neg (by omega)]
    · rw [if_neg hg]
      unfold TimeCarry.add_days
      by_cases hwin : lo ≤ day + c / 86400 ∧ day + c / 86400 ≤ hi
      · rw [if_pos hwin, if_pos hwin]
      · rw [if_neg hwin, if_neg hwin]
  · rw [if_neg hr]
    simp only []
    rw [if_neg]
    simp only [nsInRange, ns, NS_MAX] at hr
    omega

theorem dt_sub' (lo hi day : Int) (t : Time) (d : Delta) (ht : TValid t) (hd : DInv d)
    (hw : -100000000 ≤ lo ∧ hi ≤ 100000000 ∧ lo ≤ day ∧ day ≤ hi) :
    TimeCarry.checked_sub_signed lo hi day t d =
      .ok (if lo ≤ day + (addLeap t (-(ns d))).2 / 86400 ∧ day + (addLeap t (-(ns d))).2 / 86400 ≤ hi
           then some (day + (addLeap t (-(ns d))).2 / 86400, (addLeap t (-(ns d))).1) else none) := by
  unfold TimeCarry.checked_sub_signed
  rw [sub_spec' t d ht hd, rbind_ok]
  have hm := (addLeap_facts t (-(ns d)) ht).2.1
  have hr : -9223372036854775807000000 ≤ -(ns d) ∧ -(ns d) ≤ 9223372036854775807000000 := by
    have := hd.2.2
    simp only [nsInRange, NS_MAX] at this
    omega
  have hb := addLeap_carry_bound t (-(ns d)) ht hr
  generalize addLeap t (-(ns d)) = p at *
  obtain ⟨r, c⟩ := p
  simp only [] at hm hb ⊢
  unfold Delta.try_seconds
  rw [new_iff' (-c) 0 (by omega)]
  by_cases hrr : (0:Int) < 1000000000 ∧ nsInRange (ns ⟨-c, 0⟩)
  · rw [if_pos hrr]
    simp only []
    rw [num_days_whole (-c) (by omega), ckI64_ok (by omega) (by omega), rbind_ok]
    have e : -(-c / 86400) = c / 86400 := by omega
    rw [e]
    have h1 : I32_MIN = -2147483648 := rfl
    have h2 : I32_MAX = 2147483647 := rfl
    by_cases hg : c / 86400 < I32_MIN ∨ c / 86400 > I32_MAX
    · rw [if_pos hg, if_neg (by omega)]
    · rw [if_neg hg]
      unfold TimeCarry.add_days
      by_cases hwin : lo ≤ day + c / 86400 ∧ day + c / 86400 ≤ hi
      · rw [if_pos hwin, if_pos hwin]
      · rw [if_neg hwin, if_neg hwin]
  · rw [if_neg hrr]
    simp only []
    rw [if_neg]
    simp only [nsInRange, ns, NS_MAX] at hrr
    omega

theorem dt_diff' (dayA dayB : Int) (ta tb : Time) (ha : TValid ta) (hb : TValid tb)
    (hw : -200000000 ≤ dayA - dayB ∧ dayA - dayB ≤ 200000000) :
    TimeCarry.signed_duration_since dayA ta dayB tb =
      .ok (ofNs ((dayA - dayB) * 86400000000000 + diffLeap ta tb)) := by
  unfold TimeCarry.signed_duration_since Delta.try_days
  rw [try_unit_exact' SECS_PER_DAY (dayA - dayB) (by right; right; right; left; rfl) (by omega)]
  have hS : SECS_PER_DAY = 86400 := rfl
  have hd := diff_spec' ta tb ha hb
  have hr1 : nsInRange ((dayA - dayB) * SECS_PER_DAY * 1000000000) := by
    simp only [nsInRange, NS_MAX, hS]; omega
  rw [if_pos hr1]
  simp only []
  rw [hd.1, rbind_ok, add_exact' _ _ (ofNs_spec' _ hr1).1 hd.2.1, rbind_ok]
  have hr2 : nsInRange (diffLeap ta tb) := by simp only [nsInRange, NS_MAX]; omega
  rw [(ofNs_spec' _ hr1).2, (ofNs_spec' _ hr2).2]
  have hr3 : nsInRange ((dayA - dayB) * SECS_PER_DAY * 1000000000 + diffLeap ta tb) := by
    simp only [nsInRange, NS_MAX, hS]; omega
  rw [if_pos hr3]
  simp only []
  have e : (dayA - dayB) * SECS_PER_DAY * 1000000000 = (dayA - dayB) * 86400000000000 := by
    rw [hS]; omega
  rw [e]

/-! ### derived order -/

/-- the derived lexicographic order on `(secs, frac)` is the order of positions on the line that
holds the operands' leap seconds -/
theorem cmp_line' (a b : Time) (ha : TValid a) (hb : TValid b) :
    Time.cmp a b = (if diffLeap a b < 0 then -1 else if diffLeap a b > 0 then 1 else 0) := by
  obtain ⟨s1, f1⟩ := a
  obtain ⟨s2, f2⟩ := b
  simp only [TValid] at ha hb
  unfold Time.cmp diffLeap linePos pos
  simp only []
  (repeat' split) <;> omega

end Chrono.Proofs
