/- Helper lemmas for C17 at the level of the values: the stamp of a (possibly out-of-range) wall-clock
reading, `original ± TimeDelta::nanoseconds(d)` on a possibly leap-second operand (from C03's general
addition theorem and C07's extended-line rule), and their composition with the integer part. -/
import Chrono.Proofs.RoundCorL
import Chrono.Proofs.IterL
import Chrono.Proofs.ZonedL
import Chrono.Proofs.TimestampL
import Chrono.Model.RoundDT

namespace Chrono.Proofs.RoundDt
open Chrono Chrono.M Chrono.M.Round Chrono.Spec Chrono.Spec.Round Chrono.Extracted Chrono.Extracted.Round
open Chrono.Proofs Chrono.Proofs.RoundL

/-! ### the stamp of a reading of the extended calendar -/

theorem dayNum_ext_bounds (y o : Int) (hy : MIN_YEAR - 1 ≤ y ∧ y ≤ MAX_YEAR + 1) (ho : 1 ≤ o ∧ o ≤ 366) :
    -95746500 ≤ dayNumYo y o ∧ dayNumYo y o ≤ 95745800 := by
  have h1 := dby_mono (MIN_YEAR - 1) y hy.1
  have h2 := dby_mono y (MAX_YEAR + 1) hy.2
  have a : daysBeforeYear (MIN_YEAR - 1) = -95746496 := by decide
  have b : daysBeforeYear (MAX_YEAR + 1) = 95745399 := by decide
  unfold dayNumYo
  omega

/-- `timestamp()` of any reading of the extended calendar (the headroom day included) -/
theorem timestamp_ext (dt : NaiveDT) (h : ExtNDTInv dt) : NaiveDT.timestamp dt = .ok (instSecs dt) := by
  obtain ⟨hd, ht⟩ := h
  obtain ⟨h1, h2, h3, h4, _⟩ := hd
  obtain ⟨t1, t2, _, _⟩ := ht
  have hyl := yearLen_ge dt.date.year
  have hMIN : MIN_YEAR = -262143 := rfl
  have hMAX : MAX_YEAR = 262142 := rfl
  have hb := dayNum_ext_bounds dt.date.year dt.date.ordinal ⟨h1, h2⟩ ⟨h3, by omega⟩
  have hE : UNIX_EPOCH_DAY = 719163 := rfl
  have hE' : EPOCH_DAY = 719163 := rfl
  unfold NaiveDT.timestamp instSecs dayNumOf Time.num_seconds_from_midnight
  rw [num_days_spec dt.date (by omega) (by omega) (by omega)]
  simp only [Res.bind]
  rw [hE, hE']
  generalize dayNumYo dt.date.year dt.date.ordinal = g at *
  rw [ckI64_ok (by omega) (by omega)]
  simp only []
  rw [ckI64_ok (by omega) (by omega)]
  simp only []
  rw [ckI64_ok (by omega) (by omega)]

theorem instSecs_ext_bounds (dt : NaiveDT) (h : ExtNDTInv dt) :
    -8334700000000 ≤ instSecs dt ∧ instSecs dt ≤ 8210400000000 := by
  obtain ⟨hd, ht⟩ := h
  obtain ⟨h1, h2, h3, h4, _⟩ := hd
  obtain ⟨t1, t2, _, _⟩ := ht
  have hyl := yearLen_ge dt.date.year
  have hb := dayNum_ext_bounds dt.date.year dt.date.ordinal ⟨h1, h2⟩ ⟨h3, by omega⟩
  have hE' : EPOCH_DAY = 719163 := rfl
  unfold instSecs dayNumOf
  omega

/-- LOW-3 of the audit: the two models of `timestamp_nanos_opt` (on a `NaiveDT`, Model/DateTime.lean;
on `(timestamp, subsec)`, Model/Round.lean) agree, and the former never panics -/
theorem nanos_opt_bridge (dt : NaiveDT) (h : ExtNDTInv dt) :
    NaiveDT.timestamp_nanos_opt dt = .ok (Round.timestamp_nanos_opt (instSecs dt) dt.time.frac) := by
  have hts := timestamp_ext dt h
  unfold NaiveDT.timestamp_nanos_opt NaiveDT.timestamp_subsec_nanos Time.nanosecond
    Round.timestamp_nanos_opt
  rw [hts]
  simp only [Res.bind, STAMP_SCALE]

/-- the stamp for every nanosecond field, leap-second fields included (after fix 32de816 of
`timestamp_nanos_opt`): present exactly when the wall-clock line position is an `i64` -/
theorem timestamp_nanos_opt_eq2 (ts sub : Int) :
    Round.timestamp_nanos_opt ts sub =
      if InI64 (ts * 1000000000 + sub) then some (ts * 1000000000 + sub) else none := by
  unfold Round.timestamp_nanos_opt
  simp only [STAMP_SCALE]
  by_cases h : InI64 (ts * 1000000000 + sub)
  · rw [if_pos h, optI64_some h.1 h.2]
  · rw [if_neg h, optI64_none (by unfold InI64 at h; omega)]

/-- the integer path for every field -/
theorem on_datetime_eq2 (op : Op) (utc sub off : Int) (dur : Delta) (hd : DInv dur) :
    on_datetime op utc sub off dur =
      if ns dur ≤ 0 ∨ 9223372036854775807 < ns dur then .ok (.err .DurationExceedsLimit)
      else if ¬ InI64 ((utc + off) * 1000000000 + sub) then .ok (.err .TimestampExceedsLimit)
      else .ok (.ok (specOf (kindOf op) ((utc + off) * 1000000000 + sub) (ns dur)
                      - ((utc + off) * 1000000000 + sub))) := by
  unfold on_datetime wall_stamp
  rw [num_nanoseconds_eq dur hd, timestamp_nanos_opt_eq2]
  generalize (utc + off) * 1000000000 + sub = w
  generalize ns dur = p
  by_cases hp : p ≤ 0
  · rw [if_pos (Or.inl hp)]
    by_cases hin : -9223372036854775808 ≤ p
    · have e : optI64 p = some p := optI64_some hin (by omega)
      rw [e]; exact run_span_nonpos op _ p hp
    · have e : optI64 p = none := optI64_none (by omega)
      rw [e]; exact run_span_none op _
  · by_cases hbig : 9223372036854775807 < p
    · have e : optI64 p = none := optI64_none (Or.inr hbig)
      rw [if_pos (Or.inr hbig), e]; exact run_span_none op _
    · have e : optI64 p = some p := optI64_some (by omega) (by omega)
      rw [if_neg (show ¬ (p ≤ 0 ∨ 9223372036854775807 < p) by omega), e]
      by_cases hw : InI64 w
      · rw [if_pos hw, if_neg (not_not.mpr hw)]
        exact run_eval' op w p (by omega) (by omega)
      · rw [if_neg hw, if_pos hw]
        exact run_stamp_none op p (by omega)

/-! ### `original ± TimeDelta::nanoseconds(d)`, leap-second operands included -/

/-- the 64-bit window widened by one day on each side (the UTC reading of a zone-aware value whose
wall clock is inside the window) -/
def NearWindow (x : Int) : Prop :=
  -9223372036854775808 - 86400000000000 ≤ x ∧ x ≤ 9223372036854775807 + 86400000000000

/-- what `moved_general` says of the moved value -/
def Moved (dt : NaiveDT) (d : Int) (x : NaiveDT) : Prop :=
  NDTInv x ∧ instNs x = stamp_after (instNs dt) dt.time.frac d ∧
  (x.time.frac ≥ 1000000000 ↔ (dt.time.frac ≥ 1000000000 ∧ 1000000000 ≤ dt.time.frac + d ∧
    dt.time.frac + d < 2000000000)) ∧
  (TStrict dt.time → TStrict x.time)

/-- C03's general addition statement (`dt_add_general`: date moved by the days carried out of C07's
extended-line sum) read on the stamp line, for an operand inside the 64-bit window and a move of at
most `i64::MAX` ns: never refused; the result reads back as `stamp_after`; it is a leap-second
representation exactly when the move stays inside the operand's leap second. -/
theorem moved_general (dt : NaiveDT) (k : Int) (r : Option NaiveDT) (hdt : NDTInv dt)
    (hk : -9223372036854775807 ≤ k ∧ k ≤ 9223372036854775807) (hw : NearWindow (instNs dt))
    (h1 : IsDayShift dt.date ((addLeap dt.time k).2 / 86400) (r.map (·.date)))
    (h2 : ∀ x, r = some x → x.time = (addLeap dt.time k).1) :
    ∃ x, r = some x ∧ Moved dt k x := by
  unfold Moved
  obtain ⟨hd, ht⟩ := hdt
  obtain ⟨f1, f2, _, f4⟩ := addLeap_facts dt.time k ht
  obtain ⟨c1, c2, _⟩ := dn_consts
  obtain ⟨_, _, n3⟩ := ns_consts
  have hb := dn_bounds dt.date hd
  unfold IsDayShift at h1
  rw [c1, c2] at h1
  obtain ⟨h1a, h1b⟩ := h1
  unfold NearWindow instNs instSecs at hw
  rw [n3] at hw
  unfold TValid at ht
  -- the value of the extended-line sum
  have hval : (addLeap dt.time k).2 / 86400 * 86400 = (addLeap dt.time k).2 := by omega
  have hpos : pos (addLeap dt.time k).1 + (addLeap dt.time k).2 * 1000000000 =
      stamp_after (pos dt.time) dt.time.frac k := by
    unfold addLeap pos stamp_after
    simp only []
    split
    · simp only []; rw [if_neg (by omega)]; omega
    · split
      · simp only []; rw [if_pos (by omega)]; omega
      · simp only []; rw [if_neg (by omega)]; omega
  have hcar : -9223372037 * 1000000000 - 200000000000000 ≤ (addLeap dt.time k).2 * 1000000000 ∧
      (addLeap dt.time k).2 * 1000000000 ≤ 9223372037 * 1000000000 + 200000000000000 := by
    unfold TValid at f1
    unfold pos stamp_after at hpos
    split at hpos <;> omega
  cases r with
  | none =>
    exfalso
    have := h1a.mp rfl
    omega
  | some x =>
    have hx := h1b x.date rfl
    have ht' := h2 x rfl
    refine ⟨x, rfl, ⟨hx.1, by rw [ht']; exact f1⟩, ?_, ?_, ?_⟩
    · unfold instNs instSecs
      rw [hx.2, n3, ht']
      unfold pos at hpos
      have e : stamp_after ((dayNumOf dt.date - 719163) * 86400 * 1000000000 + dt.time.secs * 1000000000 +
          dt.time.frac) dt.time.frac k = (dayNumOf dt.date - 719163) * 86400 * 1000000000 +
          stamp_after (dt.time.secs * 1000000000 + dt.time.frac) dt.time.frac k := by
        unfold stamp_after; split <;> omega
      have e2 : ((dayNumOf dt.date - 719163) * 86400 + dt.time.secs) * 1000000000 + dt.time.frac =
          (dayNumOf dt.date - 719163) * 86400 * 1000000000 + dt.time.secs * 1000000000 + dt.time.frac := by
        omega
      rw [e2, e, ← hpos]
      omega
    · rw [ht', f4]
      unfold pos
      omega
    · intro hs
      unfold TStrict
      rw [ht']
      refine ⟨f1, ?_⟩
      by_cases hl : (addLeap dt.time k).1.frac ≥ 1000000000
      · right
        have := f4.mp hl
        have hsec : (addLeap dt.time k).1.secs = dt.time.secs := by
          unfold addLeap pos
          unfold pos at this
          simp only []
          rw [if_pos ⟨this.1, by omega, by omega⟩]
        rw [hsec]
        have := hs.2
        omega
      · left; omega

theorem nanos_delta (d : Int) (h : -9223372036854775807 ≤ d ∧ d ≤ 9223372036854775807) :
    DInv (Delta.nanoseconds d) ∧ ns (Delta.nanoseconds d) = d := by
  obtain ⟨_, _, e, hi⟩ := micro_nano_exact' d ⟨by omega, h.2⟩
  refine ⟨hi, ?_⟩
  rw [e]
  exact (ofNs_spec' d (by simp only [nsInRange, NS_MAX]; omega)).2

theorem add_moved (dt : NaiveDT) (d : Int) (hdt : NDTInv dt)
    (hk : 0 < d ∧ d ≤ 9223372036854775807) (hw : NearWindow (instNs dt)) :
    ∃ x, NaiveDT.checked_add_signed dt (Delta.nanoseconds d) = .ok (some x) ∧ Moved dt d x := by
  obtain ⟨hi, hn⟩ := nanos_delta d ⟨by omega, hk.2⟩
  obtain ⟨r, h0, h1, h2⟩ := dt_add_general dt _ hdt hi
  rw [hn] at h1 h2
  obtain ⟨x, hx, hm⟩ := moved_general dt d r hdt ⟨by omega, hk.2⟩ hw h1 h2
  exact ⟨x, by rw [h0, hx], hm⟩

theorem sub_moved (dt : NaiveDT) (d : Int) (hdt : NDTInv dt)
    (hk : -9223372036854775807 ≤ d ∧ d < 0) (hw : NearWindow (instNs dt)) :
    ∃ x, NaiveDT.checked_sub_signed dt (Delta.nanoseconds (-d)) = .ok (some x) ∧ Moved dt d x := by
  obtain ⟨hi, hn⟩ := nanos_delta (-d) ⟨by omega, by omega⟩
  obtain ⟨r, h0, h1, h2⟩ := dt_sub_general dt _ hdt hi
  rw [hn, Int.neg_neg] at h1 h2
  obtain ⟨x, hx, hm⟩ := moved_general dt d r hdt ⟨hk.1, by omega⟩ hw h1 h2
  exact ⟨x, by rw [h0, hx], hm⟩

theorem moved_zero (dt : NaiveDT) (hdt : NDTInv dt) : Moved dt 0 dt := by
  have := hdt.2.2.2.2
  refine ⟨hdt, ?_, ?_, fun h => h⟩
  · unfold stamp_after; rw [if_neg (by omega)]; omega
  · omega

/-- the last step of `DurationRound for NaiveDateTime`: no panic, and the value moved as `Moved` says -/
theorem naive_move (dt : NaiveDT) (d : Int) (hdt : NDTInv dt)
    (hk : -9223372036854775807 ≤ d ∧ d ≤ 9223372036854775807) (hw : NearWindow (instNs dt)) :
    ∃ x, apply_move NaiveDT.add NaiveDT.sub dt d = .ok x ∧ Moved dt d x ∧ (d = 0 → x = dt) := by
  unfold apply_move
  by_cases h0 : d = 0
  · subst h0
    exact ⟨dt, by rw [if_pos rfl], moved_zero dt hdt, fun _ => rfl⟩
  · rw [if_neg h0]
    by_cases hp : d > 0
    · rw [if_pos hp]
      obtain ⟨x, hx, hm⟩ := add_moved dt d hdt ⟨hp, hk.2⟩ hw
      exact ⟨x, by unfold NaiveDT.add; rw [hx]; rfl, hm, fun h => absurd h h0⟩
    · rw [if_neg hp]
      obtain ⟨x, hx, hm⟩ := sub_moved dt d hdt ⟨hk.1, by omega⟩ hw
      exact ⟨x, by unfold NaiveDT.sub; rw [hx]; rfl, hm, fun h => absurd h h0⟩

/-- the last step of `DurationRound for DateTime<Tz>`: the UTC reading moves, the offset is kept -/
theorem zoned_move (z : Zoned) (d : Int) (hz : NDTInv z.utc)
    (hk : -9223372036854775807 ≤ d ∧ d ≤ 9223372036854775807) (hw : NearWindow (instNs z.utc)) :
    ∃ x, apply_move Zoned.add Zoned.sub z d = .ok ⟨x, z.off⟩ ∧ Moved z.utc d x ∧ (d = 0 → x = z.utc) := by
  unfold apply_move
  by_cases h0 : d = 0
  · subst h0
    exact ⟨z.utc, by rw [if_pos rfl], moved_zero z.utc hz, fun _ => rfl⟩
  · rw [if_neg h0]
    by_cases hp : d > 0
    · rw [if_pos hp]
      obtain ⟨x, hx, hm⟩ := add_moved z.utc d hz ⟨hp, hk.2⟩ hw
      exact ⟨x, by unfold Zoned.add; rw [zoned_add_eq, hx]; rfl, hm, fun h => absurd h h0⟩
    · rw [if_neg hp]
      obtain ⟨x, hx, hm⟩ := sub_moved z.utc d hz ⟨hk.1, by omega⟩ hw
      exact ⟨x, by unfold Zoned.sub; rw [zoned_sub_eq, hx]; rfl, hm, fun h => absurd h h0⟩

/-! ### composition -/

theorem refusedMax_eq (op : Op) : refusedMax op = 0 := by cases op <;> rfl

/-- the generic function is the integer path (`on_datetime`, what `rd.trunc/round/up` run) on the
stamp of `naive`, followed by the move of `original` -/
theorem generic_eq {α : Type} (op : Op) (naive : NaiveDT) (hn : ExtNDTInv naive) (orig : α)
    (add sub : α → Delta → Res α) (dur : Delta) :
    duration_generic op naive orig add sub dur =
      finish add sub orig (on_datetime op (instSecs naive) naive.time.frac 0 dur) := by
  unfold duration_generic on_datetime wall_stamp
  rw [nanos_opt_bridge naive hn, Int.add_zero, refusedMax_eq]
  cases dur.num_nanoseconds with
  | none => simp only []; rw [run_span_none]; rfl
  | some span =>
    simp only []
    by_cases hs : span ≤ 0
    · rw [if_pos hs, run_span_nonpos op _ span hs]; rfl
    · rw [if_neg hs]

theorem spec_move_bounds (k : Kind) (w p : Int) (hp : 0 < p ∧ p ≤ 9223372036854775807) :
    -9223372036854775807 ≤ specOf k w p - w ∧ specOf k w p - w ≤ 9223372036854775807 := by
  have := spec_bounds k w p hp.1
  omega

/-- `DurationRound for NaiveDateTime`, every valid value (leap-second representations included),
every valid `TimeDelta` -/
theorem naive_eval (op : Op) (dt : NaiveDT) (dur : Delta) (hdt : NDTInv dt) (hd : DInv dur) :
    (ns dur ≤ 0 ∨ 9223372036854775807 < ns dur →
      naive_duration op dt dur = .ok (.err .DurationExceedsLimit)) ∧
    (0 < ns dur ∧ ns dur ≤ 9223372036854775807 → ¬ InI64 (instNs dt) →
      naive_duration op dt dur = .ok (.err .TimestampExceedsLimit)) ∧
    (0 < ns dur ∧ ns dur ≤ 9223372036854775807 → InI64 (instNs dt) →
      ∃ x, naive_duration op dt dur = .ok (.ok x) ∧
        Moved dt (specOf (kindOf op) (instNs dt) (ns dur) - instNs dt) x ∧
        (specOf (kindOf op) (instNs dt) (ns dur) = instNs dt → x = dt)) := by
  have hext : ExtNDTInv dt := ⟨((dateInv_iff dt.date).mp hdt.1).1, hdt.2⟩
  have hf := hdt.2.2.2
  have hgen := generic_eq op dt hext dt NaiveDT.add NaiveDT.sub dur
  have hint := on_datetime_eq2 op (instSecs dt) dt.time.frac 0 dur hd
  have e : instSecs dt * 1000000000 + dt.time.frac = instNs dt := rfl
  rw [Int.add_zero, e] at hint
  unfold naive_duration
  refine ⟨?_, ?_, ?_⟩
  · intro hbad
    rw [hgen, hint, if_pos hbad]; rfl
  · intro hgood hno
    rw [hgen, hint, if_neg (by omega), if_pos hno]; rfl
  · intro hgood hok
    rw [hgen, hint, if_neg (by omega), if_neg (not_not.mpr hok)]
    have hmv := spec_move_bounds (kindOf op) (instNs dt) (ns dur) hgood
    have hnw : NearWindow (instNs dt) := by
      unfold InI64 at hok; unfold NearWindow; omega
    obtain ⟨x, hx, hm, hz⟩ := naive_move dt _ hdt hmv hnw
    refine ⟨x, ?_, hm, fun h => hz (by omega)⟩
    unfold finish
    simp only []
    rw [hx]

/-- `DurationRound for DateTime<FixedOffset>`: the stamp is that of the wall clock
(`overflowing_naive_local`, also when it lies in the headroom day outside chrono's range), the UTC
reading is moved, the offset is kept -/
theorem zoned_eval (op : Op) (z : Zoned) (dur : Delta) (hz : ZInv z) (hd : DInv dur) :
    (ns dur ≤ 0 ∨ 9223372036854775807 < ns dur →
      zoned_duration op z dur = .ok (.err .DurationExceedsLimit)) ∧
    (0 < ns dur ∧ ns dur ≤ 9223372036854775807 → ¬ InI64 (wallNs z) →
      zoned_duration op z dur = .ok (.err .TimestampExceedsLimit)) ∧
    (0 < ns dur ∧ ns dur ≤ 9223372036854775807 → InI64 (wallNs z) →
      ∃ x, zoned_duration op z dur = .ok (.ok ⟨x, z.off⟩) ∧
        Moved z.utc (specOf (kindOf op) (wallNs z) (ns dur) - wallNs z) x ∧
        (specOf (kindOf op) (wallNs z) (ns dur) = wallNs z → x = z.utc)) := by
  obtain ⟨l, hl, hext, hsecs, hfrac, _, _⟩ := naive_local_spec z hz
  have hf := hz.1.2.2.2
  have hgen := generic_eq op l hext z Zoned.add Zoned.sub dur
  have hint := on_datetime_eq2 op (instSecs l) l.time.frac 0 dur hd
  rw [Int.add_zero, hsecs, hfrac] at hint
  have hwall : wallSecs z * 1000000000 + z.utc.time.frac = wallNs z := by
    unfold wallSecs wallNs instNs; omega
  rw [hwall] at hint
  rw [hsecs, hfrac] at hgen
  unfold zoned_duration
  rw [hl]
  simp only []
  refine ⟨?_, ?_, ?_⟩
  · intro hbad
    rw [hgen, hint, if_pos hbad]; rfl
  · intro hgood hno
    rw [hgen, hint, if_neg (by omega), if_pos hno]; rfl
  · intro hgood hok
    rw [hgen, hint, if_neg (by omega), if_neg (not_not.mpr hok)]
    have hmv := spec_move_bounds (kindOf op) (wallNs z) (ns dur) hgood
    have hnw : NearWindow (instNs z.utc) := by
      have ho := hz.2
      unfold InI64 wallNs at hok; unfold OffValid at ho; unfold NearWindow; omega
    obtain ⟨x, hx, hm, hzero⟩ := zoned_move z _ hz.1 hmv hnw
    refine ⟨x, ?_, hm, fun h => hzero (by omega)⟩
    unfold finish
    simp only []
    rw [hx]

/-- a non-leap result read back by the crate's own `timestamp_nanos_opt` -/
theorem stamp_of_result (v : NaiveDT) (hv : NDTInv v) (hs : TStrict v.time) :
    NaiveDT.timestamp_nanos_opt v = .ok (if InI64 (instNs v) then some (instNs v) else none) :=
  Chrono.Proofs.Ts.nanos_opt_spec v hv hs

theorem strict_of_nonleap (v : NaiveDT) (hv : NDTInv v) (hn : NonLeap v) : TStrict v.time :=
  ⟨hv.2, Or.inl hn⟩

theorem moved_nonleap (dt x : NaiveDT) (d : Int) (hn : NonLeap dt) (h : Moved dt d x) :
    NDTInv x ∧ NonLeap x ∧ instNs x = instNs dt + d := by
  obtain ⟨h1, h2, h3, _⟩ := h
  unfold NonLeap at *
  refine ⟨h1, by omega, ?_⟩
  rw [h2]; unfold stamp_after; rw [if_neg (by omega)]

/-- an `Ok` result can only come from the third case of `naive_eval` -/
theorem naive_ok_inv (op : Op) (dt v : NaiveDT) (dur : Delta) (hdt : NDTInv dt) (hd : DInv dur)
    (h : naive_duration op dt dur = .ok (.ok v)) :
    (0 < ns dur ∧ ns dur ≤ 9223372036854775807) ∧ InI64 (instNs dt) ∧
    Moved dt (specOf (kindOf op) (instNs dt) (ns dur) - instNs dt) v ∧
    (specOf (kindOf op) (instNs dt) (ns dur) = instNs dt → v = dt) := by
  obtain ⟨e1, e2, e3⟩ := naive_eval op dt dur hdt hd
  by_cases hg : 0 < ns dur ∧ ns dur ≤ 9223372036854775807
  · by_cases hs : InI64 (instNs dt)
    · obtain ⟨x, hx, hm, hz⟩ := e3 hg hs
      rw [hx] at h
      have : x = v := RRes.ok.inj (Res.ok.inj h)
      subst this
      exact ⟨hg, hs, hm, hz⟩
    · rw [e2 hg hs] at h; cases h
  · rw [e1 (by omega)] at h; cases h

theorem zoned_ok_inv (op : Op) (z v : Zoned) (dur : Delta) (hz : ZInv z) (hd : DInv dur)
    (h : zoned_duration op z dur = .ok (.ok v)) :
    (0 < ns dur ∧ ns dur ≤ 9223372036854775807) ∧ InI64 (wallNs z) ∧
    v.off = z.off ∧ Moved z.utc (specOf (kindOf op) (wallNs z) (ns dur) - wallNs z) v.utc ∧
    (specOf (kindOf op) (wallNs z) (ns dur) = wallNs z → v = z) := by
  obtain ⟨e1, e2, e3⟩ := zoned_eval op z dur hz hd
  by_cases hg : 0 < ns dur ∧ ns dur ≤ 9223372036854775807
  · by_cases hs : InI64 (wallNs z)
    · obtain ⟨x, hx, hm, hzero⟩ := e3 hg hs
      rw [hx] at h
      have : (⟨x, z.off⟩ : Zoned) = v := RRes.ok.inj (Res.ok.inj h)
      subst this
      exact ⟨hg, hs, rfl, hm, fun e => by rw [hzero e]⟩
    · rw [e2 hg hs] at h; cases h
  · rw [e1 (by omega)] at h; cases h

/-- the corollaries of "the stamp of the result is `specOf k w p`", on integers -/
theorem spec_corollaries (op : Op) (w p : Int) (hp : 0 < p) :
    p ∣ specOf (kindOf op) w p ∧
    -p < specOf (kindOf op) w p - w ∧ specOf (kindOf op) w p - w < p ∧
    (op = .trunc → specOf (kindOf op) w p ≤ w) ∧ (op = .up → w ≤ specOf (kindOf op) w p) ∧
    (op = .round → 2 * (specOf (kindOf op) w p - w) ≤ p ∧ -p < 2 * (specOf (kindOf op) w p - w)) ∧
    (p ∣ w ↔ specOf (kindOf op) w p = w) ∧
    specOf (kindOf op) (specOf (kindOf op) w p) p = specOf (kindOf op) w p := by
  have hb := spec_bounds (kindOf op) w p hp
  have hs := spec_sides w p hp
  refine ⟨spec_dvd _ w p hp, hb.1, hb.2, ?_, ?_, ?_, spec_fixed_iff _ w p hp, spec_idem _ w p hp⟩
  · intro e; subst e; exact hs.1
  · intro e; subst e; exact hs.2.1
  · intro e; subst e; exact hs.2.2

/-- `Moved` for an operand inside a leap second, spelled out -/
theorem moved_leap (dt x : NaiveDT) (d : Int) (hl : ¬ NonLeap dt) (h : Moved dt d x) :
    NDTInv x ∧
    (dt.time.frac + d < 2000000000 → instNs x = instNs dt + d) ∧
    (2000000000 ≤ dt.time.frac + d → instNs x = instNs dt + d - 1000000000 ∧ NonLeap x) ∧
    (¬ NonLeap x ↔ (1000000000 ≤ dt.time.frac + d ∧ dt.time.frac + d < 2000000000)) ∧
    (TStrict dt.time → TStrict x.time) := by
  obtain ⟨h1, h2, h3, h4⟩ := h
  unfold NonLeap at *
  unfold stamp_after at h2
  refine ⟨h1, ?_, ?_, by omega, h4⟩
  · intro hlt; rw [h2, if_neg (by omega)]
  · intro hge; rw [h2, if_pos (by omega)]; exact ⟨rfl, by omega⟩

end Chrono.Proofs.RoundDt
