/-
  C10, audit2 gap M1 (data-extraction variant): the literals INSIDE `scan::timezone_offset`,
  `OffsetFormat::format`, `write_hundreds` and `scan::number` (re-extracted from the Rust source on every
  run by tools/extractors/rfc3339_offset.py: every integer, byte and char literal of each body, in source
  order) tied to the MODEL's own literals.  As in Proofs/Rfc3339DataL.lean the `…_with` functions are the
  model bodies with every such literal replaced by a cell of a data list; instantiated with the extracted
  lists they ARE `Scan.timezone_offset`, `Format.OffsetFormat.format`, `Format.write_hundreds`,
  `Scan.number`.  A changed byte class (`b'0'..=b'5'`), multiplier (`3600`, `60`), rounding constant
  (`+ 30`), threshold (`hours < 10`, `n >= 100`), sign character or slice index in the Rust source, or in
  the model, makes an equality here fail.

  Cells that are NOT turned into parameters (they are structure in the model, not data): in
  `timezone_offset` the `2`, `0`, `1` of the inner `digits` (`b.len() < 2`, `b[0]`, `b[1]` = the pattern
  `h1 :: h2 :: _`).  They are still covered by the literal-list theorems of Props/C10
  (`offset_code_data_ok`).
  Namespace `Chrono.Proofs.Rfc3339OffsetData`.
-/
import Chrono.Model.Rfc3339
import Chrono.Extracted.Rfc3339Offset

namespace Chrono.Proofs.Rfc3339OffsetData
open Chrono Chrono.M Chrono.M.Scan Chrono.M.Format

/-! ### `scan::timezone_offset` -/

/-- `if allow_zulu { if let Some(&b'Z' | &b'z') = s.as_bytes().first() { return Ok((&s[1..], 0)) } }`:
the two bytes are cells 0, 1 and the slice index is cell 2 of `l` -/
def zulu_with (l : List Nat) (allow_zulu : Bool) (s : List Nat) : Option (List Nat) :=
  if allow_zulu then match s with
    | c :: _ => if c = l.getD 0 0 ∨ c = l.getD 1 0 then some (s.drop (l.getD 2 0)) else none
    | [] => none
  else none

/-- the model's own reading of the same statement (literal patterns) -/
def zuluM (allow_zulu : Bool) (s : List Nat) : Option (List Nat) :=
  if allow_zulu then match s with
    | 90 :: rest => some rest | 122 :: rest => some rest | _ => none
  else none

/-- `match s.chars().next() { Some('+') => { s = &s['+'.len_utf8()..]; false } … }`: "the next char is
`c`" = "the UTF-8 bytes of `c` are a prefix of `s`"; pattern chars are cells 0, 2, 4 and the `len_utf8`
receivers cells 1, 3, 5 of `cs` -/
def sign_with (cs : List (List Nat)) (allow_tz_minus_sign : Bool) (s : List Nat) : PRes (List Nat × Bool) :=
  match s with
  | [] => .error .tooShort
  | _ :: _ =>
    if (cs.getD 0 []).isPrefixOf s then .ok (s.drop (cs.getD 1 []).length, false)
    else if (cs.getD 2 []).isPrefixOf s then .ok (s.drop (cs.getD 3 []).length, true)
    else if (cs.getD 4 []).isPrefixOf s then
      (if allow_tz_minus_sign then .ok (s.drop (cs.getD 5 []).length, true) else .error .invalid)
    else .error .invalid

/-- the model's own reading (literal patterns) -/
def signM (allow_tz_minus_sign : Bool) (s : List Nat) : PRes (List Nat × Bool) :=
  match s with
  | 43 :: rest => .ok (rest, false)
  | 45 :: rest => .ok (rest, true)
  | 226 :: 136 :: 146 :: rest => if allow_tz_minus_sign then .ok (rest, true) else .error .invalid
  | _ :: _ => .error .invalid
  | [] => .error .tooShort

/-- the body of `Scan.timezone_offset` with the zulu test and the sign match abstracted and every other
literal read from `l` (cell numbers = positions in `RFC3339_TZ_LITS`) -/
def tz_core (zulu : Bool → List Nat → Option (List Nat)) (sign : Bool → List Nat → PRes (List Nat × Bool))
    (l : List Nat) (s : List Nat) (cm : ColonMode) (allow_zulu allow_missing_minutes allow_tz_minus_sign : Bool) :
    PRes (List Nat × Int) :=
  match zulu allow_zulu s with
  | some rest => .ok (rest, ((l.getD 3 0 : Nat) : Int))
  | none =>
    match sign allow_tz_minus_sign s with
    | .error e => .error e
    | .ok (s, negative) =>
      match s with
      | h1 :: h2 :: s =>
        if (decide (l.getD 7 0 ≤ h1) && decide (h1 ≤ l.getD 8 0)) && (decide (l.getD 9 0 ≤ h2) && decide (h2 ≤ l.getD 10 0)) then
          let hours : Int := ((h1 - l.getD 11 0) * l.getD 12 0 + (h2 - l.getD 13 0) : Nat)
          match consumeColon cm ((h1 :: h2 :: s).drop (l.getD 14 0)) with
          | .error e => .error e
          | .ok s =>
            let mins : PRes Int :=
              match s with
              | m1 :: m2 :: _ =>
                if l.getD 15 0 ≤ m1 ∧ m1 ≤ l.getD 16 0 ∧ (decide (l.getD 17 0 ≤ m2) && decide (m2 ≤ l.getD 18 0)) = true then
                  .ok (((m1 - l.getD 19 0) * l.getD 20 0 + (m2 - l.getD 21 0) : Nat) : Int)
                else if l.getD 22 0 ≤ m1 ∧ m1 ≤ l.getD 23 0 ∧ (decide (l.getD 24 0 ≤ m2) && decide (m2 ≤ l.getD 25 0)) = true then
                  .error .outOfRange
                else .error .invalid
              | _ => if allow_missing_minutes then .ok ((l.getD 26 0 : Nat) : Int) else .error .tooShort
            match mins with
            | .error e => .error e
            | .ok minutes =>
              let rest : PRes (List Nat) :=
                if s.length ≥ l.getD 27 0 then .ok (s.drop (l.getD 28 0))
                else if s.length = l.getD 29 0 then .ok s else .error .tooShort
              match rest with
              | .error e => .error e
              | .ok s =>
                let seconds := hours * ((l.getD 30 0 : Nat) : Int) + minutes * ((l.getD 31 0 : Nat) : Int)
                .ok (s, if negative then -seconds else seconds)
        else .error .invalid
      | _ => .error .tooShort

/-- `Scan.timezone_offset` with its literals read from the extracted lists -/
def timezone_offset_with (l : List Nat) (cs : List (List Nat)) :
    List Nat → ColonMode → Bool → Bool → Bool → PRes (List Nat × Int) :=
  tz_core (zulu_with l) (sign_with cs) l

theorem zulu_eq : zulu_with Extracted.RFC3339_TZ_LITS = zuluM := by
  funext az s
  have c0 : Extracted.RFC3339_TZ_LITS.getD 0 0 = 90 := rfl
  have c1 : Extracted.RFC3339_TZ_LITS.getD 1 0 = 122 := rfl
  have c2 : Extracted.RFC3339_TZ_LITS.getD 2 0 = 1 := rfl
  cases az
  · rfl
  · cases s with
    | nil => rfl
    | cons c rest =>
      simp only [zulu_with, zuluM, c0, c1, c2, if_true]
      by_cases h90 : c = 90
      · subst h90; rfl
      · by_cases h122 : c = 122
        · subst h122; rfl
        · rw [if_neg (by omega)]
          split <;> first | rfl | omega | (rename_i h; cases h; omega) | skip
          all_goals simp_all

theorem sign_eq : sign_with Extracted.RFC3339_TZ_CHARS = signM := by
  funext atm s
  have c0 : Extracted.RFC3339_TZ_CHARS.getD 0 [] = [43] := rfl
  have c1 : Extracted.RFC3339_TZ_CHARS.getD 1 [] = [43] := rfl
  have c2 : Extracted.RFC3339_TZ_CHARS.getD 2 [] = [45] := rfl
  have c3 : Extracted.RFC3339_TZ_CHARS.getD 3 [] = [45] := rfl
  have c4 : Extracted.RFC3339_TZ_CHARS.getD 4 [] = [226, 136, 146] := rfl
  have c5 : Extracted.RFC3339_TZ_CHARS.getD 5 [] = [226, 136, 146] := rfl
  unfold signM
  split
  · rfl
  · rfl
  · cases atm <;> rfl
  · rename_i c rest h43 h45 h226
    have n43 : c ≠ 43 := h43
    have n45 : c ≠ 45 := h45
    have n226 : ¬ (c = 226 ∧ [136, 146] <+: rest) := by
      rintro ⟨h, r, hr⟩
      exact h226 r h hr.symm
    simp only [sign_with, c0, c1, c2, c3, c4, c5]
    simp [List.isPrefixOf, Ne.symm n43, Ne.symm n45]
    intro h hp
    exact absurd ⟨h.symm, hp⟩ n226
  · rfl

/-- the model IS the core body with the model's own zulu test / sign match and the extracted cells -/
theorem tz_core_model : tz_core zuluM signM Extracted.RFC3339_TZ_LITS = Scan.timezone_offset := by
  funext s cm az amm atm
  rfl

/-- **the offset reader's literals are the source's.** -/
theorem timezone_offset_uses_extracted :
    Extracted.RFC3339_TZ_LITS.length = 32 ∧ Extracted.RFC3339_TZ_CHARS.length = 6 ∧
    timezone_offset_with Extracted.RFC3339_TZ_LITS Extracted.RFC3339_TZ_CHARS = Scan.timezone_offset := by
  refine ⟨rfl, rfl, ?_⟩
  unfold timezone_offset_with
  rw [zulu_eq, sign_eq, tz_core_model]

/-! ### `write_hundreds` and `OffsetFormat::format` -/

/-- `Format.write_hundreds` with its literals (`n >= 100`, `b'0' + n / 10`, `b'0' + n % 10`) read from `hl` -/
def write_hundreds_with (hl : List Int) (n : Int) : W :=
  if n ≥ hl.getD 0 0 then werr else wok [(hl.getD 1 0 + n / hl.getD 2 0).toNat, (hl.getD 3 0 + n % hl.getD 4 0).toNat]

/-- **`write_hundreds`' literals are the source's.** -/
theorem write_hundreds_uses_extracted :
    Extracted.RFC3339_HUNDREDS_LITS.length = 5 ∧
    write_hundreds_with Extracted.RFC3339_HUNDREDS_LITS = write_hundreds :=
  ⟨rfl, rfl⟩

/-- `Format.offsetParts` with the integer literals of `OffsetFormat::format` read from `l` (cell numbers =
positions in `RFC3339_OFFFMT_LITS`: 2, 3 `let mut mins = 0; let mut secs = 0`, 4 `off / 3600`,
5–8 `(off + 30) / 60`, `minutes % 60`, `minutes / 60`, 9 `mins == 0`, 10–13 `off / 60`, `off % 60`,
`minutes % 60`, `minutes / 60`, 14 `secs == 0`, 15 `mins == 0`) -/
def offsetParts_with (l : List Int) (precision : OffsetPrecision) (off : Int) : Int × Int × Int × OffsetPrecision :=
  match precision with
  | .hours => (asU8 (Int.tdiv off (l.getD 4 0)), l.getD 2 0, l.getD 3 0, .hours)
  | .minutes | .optionalMinutes =>
    let minutes := Int.tdiv (off + l.getD 5 0) (l.getD 6 0)
    let mins := asU8 (Int.tmod minutes (l.getD 7 0))
    let hours := asU8 (Int.tdiv minutes (l.getD 8 0))
    if precision = .optionalMinutes ∧ mins = l.getD 9 0 then (hours, mins, l.getD 3 0, .hours)
    else (hours, mins, l.getD 3 0, .minutes)
  | .seconds | .optionalSeconds | .optionalMinutesAndSeconds =>
    let minutes := Int.tdiv off (l.getD 10 0)
    let secs := asU8 (Int.tmod off (l.getD 11 0))
    let mins := asU8 (Int.tmod minutes (l.getD 12 0))
    let hours := asU8 (Int.tdiv minutes (l.getD 13 0))
    if precision ≠ .seconds ∧ secs = l.getD 14 0 then
      if precision = .optionalMinutesAndSeconds ∧ mins = l.getD 15 0 then (hours, mins, secs, .hours)
      else (hours, mins, secs, .minutes)
    else (hours, mins, secs, .seconds)

/-- `Format.hoursText`: `hours < 10` is cell 16 and `b'0' + hours` cell 17 of `l`; `' '` and `'0'` are cells 3, 4
of `cs` -/
def hoursText_with (l : List Int) (cs : List Nat) (hl : List Int) (padding : Pad) (sign : Nat) (hours : Int) : W :=
  if hours < l.getD 16 0 then
    wok ((if padding = .space then [cs.getD 3 0] else []) ++ [sign]
         ++ (if padding = .zero then [cs.getD 4 0] else []) ++ pushChar (l.getD 17 0 + hours).toNat)
  else (wok [sign]).seq (write_hundreds_with hl hours)

/-- `Format.tailText`: the two `':'` are cells 5, 6 of `cs` -/
def tailText_with (cs : List Nat) (hl : List Int) (colons : Bool) (precision : OffsetPrecision) (mins secs : Int) : W :=
  let mm : W :=
    if precision = .minutes ∨ precision = .seconds then
      (wok (if colons then [cs.getD 5 0] else [])).seq (write_hundreds_with hl mins)
    else wok []
  let ss : W :=
    if precision = .seconds then (wok (if colons then [cs.getD 6 0] else [])).seq (write_hundreds_with hl secs)
    else wok []
  mm.seq ss

/-- `Format.OffsetFormat.format` with every integer / byte literal of the Rust body read from `l`, every char
literal from `cs` (`'Z'`, `'-'`, `'+'`, `' '`, `'0'`, `':'`, `':'`) and `write_hundreds`' literals from `hl` -/
def offset_format_with (l : List Int) (cs : List Nat) (hl : List Int) (f : OffsetFormat) (off : Int) : W :=
  if f.allow_zulu ∧ off = l.getD 0 0 then wok [cs.getD 0 0] else
  let sign : Nat := if off < l.getD 1 0 then cs.getD 1 0 else cs.getD 2 0
  let off := if off < l.getD 1 0 then -off else off
  let r := offsetParts_with l f.precision off
  (hoursText_with l cs hl f.padding sign r.1).seq (tailText_with cs hl (f.colons = .colon) r.2.2.2 r.2.1 r.2.2.1)

theorem offsetParts_eq : offsetParts_with Extracted.RFC3339_OFFFMT_LITS = offsetParts := by
  funext p off
  cases p <;> rfl

/-- **the offset writer's literals are the source's** (all six precisions, both colon modes, all paddings —
the RFC 3339 writer uses `Minutes`, `Colon`, `Zero`). -/
theorem offset_format_uses_extracted :
    Extracted.RFC3339_OFFFMT_LITS.length = 18 ∧ Extracted.RFC3339_OFFFMT_CHARS.length = 7 ∧
    offset_format_with Extracted.RFC3339_OFFFMT_LITS Extracted.RFC3339_OFFFMT_CHARS
      Extracted.RFC3339_HUNDREDS_LITS = OffsetFormat.format := by
  refine ⟨rfl, rfl, ?_⟩
  funext f off
  unfold offset_format_with
  rw [offsetParts_eq]
  rfl

/-! ### `scan::number` -/

/-- `Scan.numberAux` with `n.checked_mul(10)` and `c - b'0'` read from cells 1, 2 of `l` -/
def numberAux_with (l : List Nat) : List Nat → Nat → Nat → Option Nat → Int → PRes (List Nat × Int)
  | s, i, min, max, n =>
    match max with
    | some m => if i ≥ m then .ok (s, n) else step s i min max n
    | none => step s i min max n
where
  step : List Nat → Nat → Nat → Option Nat → Int → PRes (List Nat × Int)
  | [], _, _, _, n => .ok ([], n)
  | c :: rest, i, min, max, n =>
    if !isDigit c then
      if i < min then .error .invalid else .ok (c :: rest, n)
    else
      let n' := n * ((l.getD 1 0 : Nat) : Int) + (c - l.getD 2 0 : Nat)
      if n' > I64_MAX then .error .outOfRange else numberAux_with l rest (i + 1) min max n'

/-- `Scan.number` with `let mut n = 0i64` read from cell 0 of `l` -/
def number_with (l : List Nat) (s : List Nat) (min : Nat) (max : Option Nat) : PRes (List Nat × Int) :=
  if s.length < min then .error .tooShort else numberAux_with l s 0 min max ((l.getD 0 0 : Nat) : Int)

theorem numberAux_eq : ∀ (s : List Nat) (i min : Nat) (max : Option Nat) (n : Int),
    numberAux_with Extracted.RFC3339_NUMBER_LITS s i min max n = numberAux s i min max n
  | [], i, min, max, n => by
    cases max <;> rw [numberAux_with, numberAux, numberAux_with.step, numberAux.step]
  | c :: rest, i, min, max, n => by
    have ih := numberAux_eq rest (i + 1) min max
    have c1 : ((Extracted.RFC3339_NUMBER_LITS.getD 1 0 : Nat) : Int) = 10 := rfl
    have c2 : Extracted.RFC3339_NUMBER_LITS.getD 2 0 = 48 := rfl
    cases max <;> rw [numberAux_with, numberAux, numberAux_with.step, numberAux.step] <;>
      simp only [c1, c2, ih]

/-- **the number scanner's literals are the source's.** -/
theorem number_uses_extracted :
    Extracted.RFC3339_NUMBER_LITS.length = 3 ∧ number_with Extracted.RFC3339_NUMBER_LITS = number := by
  refine ⟨rfl, ?_⟩
  funext s min max
  unfold number_with number
  rw [numberAux_eq]
  rfl

end Chrono.Proofs.Rfc3339OffsetData
