/-
  Helper lemmas for C18, second review G2: the mtime branch of the cache.  Two invariants:
  `Before` (any history: no cache holds the mtime that is going to be set, no cache is younger than the
  clock) and `After` (once /etc/localtime has its new mtime and TZ stays unset: every cache either
  already holds the new zone or is old and still holds a different source).  Core Lean only.
-/
import Chrono.Proofs.LocalCacheHistL
import Chrono.Spec.LocalCacheWorldSpec
namespace Chrono.Proofs.LocalCacheWorld
open Chrono.M.LocalCache Chrono.Spec.LocalCache Chrono.Proofs.LocalCache Chrono.Extracted.LocalCache

/-! ### plumbing: world, environment along `execW` -/

theorem relinked_eq (W : World) (m f n) : W.replaceLocaltime m f n = relinked W m f n := rfl

theorem stepW_world (sw : StateW) (x : StepW) : (stepW sw x).1.W = worldAfter sw.W [x] := by
  cases x <;> rfl

theorem worldAfter_cons (W : World) (x : StepW) (xs : List StepW) :
    worldAfter W (x :: xs) = worldAfter (worldAfter W [x]) xs := by
  cases x <;> rfl

theorem worldAfter_append (W : World) (a b : List StepW) :
    worldAfter W (a ++ b) = worldAfter (worldAfter W a) b := by
  induction a generalizing W with
  | nil => rfl
  | cons x xs ih => rw [List.cons_append, worldAfter_cons, worldAfter_cons W x xs, ih]

theorem execW_world (h : List StepW) : ∀ sw : StateW, (execW sw h).W = worldAfter sw.W h := by
  induction h with
  | nil => intro sw; rfl
  | cons x xs ih =>
    intro sw
    show (execW (stepW sw x).1 xs).W = _
    rw [ih, stepW_world, ← worldAfter_cons]

theorem execW_append (a b : List StepW) : ∀ sw : StateW, execW sw (a ++ b) = execW (execW sw a) b := by
  induction a with
  | nil => intro sw; rfl
  | cons x xs ih => intro sw; exact ih _

theorem execW_base (b : List Step) : ∀ sw : StateW,
    execW sw (b.map StepW.base) = { s := exec sw.W sw.s b, W := sw.W } := by
  induction b with
  | nil => intro sw; rfl
  | cons x xs ih =>
    intro sw
    show execW (stepW sw (.base x)).1 (xs.map StepW.base) = _
    rw [ih]; rfl

theorem execW_env (h : List StepW) : ∀ sw : StateW, (execW sw h).s.env = envAfter sw.s.env (baseSteps h) := by
  induction h with
  | nil => intro sw; rfl
  | cons x xs ih =>
    intro sw
    show (execW (stepW sw x).1 xs).s.env = _
    rw [ih]
    cases x with
    | base y =>
      show envAfter (step sw.W sw.s y).1.env (baseSteps xs) = envAfter sw.s.env (y :: baseSteps xs)
      rw [envAfter_cons sw.s.env y, (step_clock_env sw.W sw.s y).1]
    | setMtime m => rfl
    | replaceLocaltime m f n => rfl

/-! ### one cache lookup -/

/-- the source `Cache::offset` / `Cache::default` record while TZ is unset and the mtime is `m` -/
theorem source_unset (W : World) (now m : Nat) (env : EnvVal) (he : env_var env = none)
    (hm : W.ltMtime = some m) : Source.new W now (env_var env) = .localTime m := by
  rw [he]; unfold Source.new; simp only [hm]

/-- a recorded source is never the mtime `m1` as long as the world's mtime is some other `m0` -/
theorem source_new_ne (W : World) (now m0 m1 : Nat) (e : Option Bytes) (hm : W.ltMtime = some m0)
    (hne : m0 ≠ m1) : Source.new W now e ≠ .localTime m1 := by
  unfold Source.new
  cases e with
  | some tz => simp
  | none => simp only [hm]; intro h; injection h with h; exact hne h

/-- what `Cache::offset` can return: the cache itself, or one checked now with the source of now -/
theorem offset_cases (W : World) (c : Cache) (now : Nat) (env : EnvVal) :
    ((Cache.offset W c now env).1 = c ∧ within_window c.last_checked now = true) ∨
    (within_window c.last_checked now = false ∧
      (Cache.offset W c now env).1.last_checked = now ∧
      (Cache.offset W c now env).1.source = Source.new W now (env_var env) ∧
      ((out_of_date c.source (Source.new W now (env_var env)) = true ∧
          (Cache.offset W c now env).1.zone = current_zone W (env_var env)) ∨
       (out_of_date c.source (Source.new W now (env_var env)) = false ∧
          (Cache.offset W c now env).1.zone = c.zone))) := by
  unfold Cache.offset
  by_cases hw : within_window c.last_checked now = true
  · rw [if_pos hw]; exact Or.inl ⟨rfl, hw⟩
  · rw [if_neg hw]
    have hw' : within_window c.last_checked now = false := by
      cases h : within_window c.last_checked now <;> simp_all
    refine Or.inr ⟨hw', ?_⟩
    dsimp only
    by_cases ho : out_of_date c.source (Source.new W now (env_var env)) = true
    · rw [if_pos ho]; exact ⟨rfl, rfl, Or.inl ⟨ho, rfl⟩⟩
    · rw [if_neg ho]
      have ho' : out_of_date c.source (Source.new W now (env_var env)) = false := by
        cases h : out_of_date c.source (Source.new W now (env_var env)) <;> simp_all
      exact ⟨rfl, rfl, Or.inr ⟨ho', rfl⟩⟩

theorem default_fields (W : World) (now : Nat) (env : EnvVal) :
    (Cache.default W now env).last_checked = now ∧
    (Cache.default W now env).source = Source.new W now (env_var env) ∧
    (Cache.default W now env).zone = current_zone W (env_var env) := ⟨rfl, rfl, rfl⟩

theorem window_self (now : Nat) : within_window now now = true := by
  rw [within_window_iff]; exact ⟨Nat.le_refl _, by simp [ONE_SECOND]⟩

/-- a source other than `localTime m1` is out of date against `localTime m1` -/
theorem out_of_date_of_ne (src : Source) (m1 : Nat) (h : src ≠ .localTime m1) :
    out_of_date src (.localTime m1) = true := by
  cases src with
  | environment tz => rfl
  | localTime m =>
    show (m != m1) = true
    have : m ≠ m1 := fun e => h (by rw [e])
    simpa using this

/-! ### before the change: no cache holds the mtime to come -/

/-- every cache was checked no later than now and does not hold `localTime m1` -/
def Before (m1 : Nat) (s : State) : Prop :=
  ∀ t c, s.caches t = some c → c.last_checked ≤ s.clock ∧ c.source ≠ .localTime m1

theorem before_update (m1 : Nat) (s : State) (t : Nat) (c' : Cache) (hB : Before m1 s)
    (hc : c'.last_checked ≤ s.clock ∧ c'.source ≠ .localTime m1) :
    Before m1 { s with caches := update s.caches t (some c') } := by
  intro t' c h
  have h' : update s.caches t (some c') t' = some c := h
  unfold update at h'
  by_cases ht : t' = t
  · rw [if_pos ht] at h'; injection h' with h'; subst h'; exact hc
  · rw [if_neg ht] at h'; exact hB t' c h'

theorem offset_before (W : World) (m0 m1 : Nat) (hm : W.ltMtime = some m0) (hne : m0 ≠ m1)
    (c : Cache) (now : Nat) (env : EnvVal)
    (hc : c.last_checked ≤ now ∧ c.source ≠ .localTime m1) :
    (Cache.offset W c now env).1.last_checked ≤ now ∧ (Cache.offset W c now env).1.source ≠ .localTime m1 := by
  rcases offset_cases W c now env with ⟨e, _⟩ | ⟨_, hl, hs, _⟩
  · rw [e]; exact hc
  · rw [hl, hs]; exact ⟨Nat.le_refl _, source_new_ne W now m0 m1 _ hm hne⟩

theorem step_before (W : World) (m0 m1 : Nat) (hm : W.ltMtime = some m0) (hne : m0 ≠ m1)
    (s : State) (x : Step) (hB : Before m1 s) : Before m1 (step W s x).1 := by
  cases x with
  | setTZ v => exact hB
  | setNotUnicode => exact hB
  | unsetTZ => exact hB
  | advance n =>
    intro t c h
    obtain ⟨h1, h2⟩ := hB t c h
    exact ⟨Nat.le_trans h1 (Nat.le_add_right _ _), h2⟩
  | spawn t =>
    intro t' c h
    have h' : update s.caches t none t' = some c := h
    unfold update at h'
    by_cases ht : t' = t
    · rw [if_pos ht] at h'; cases h'
    · rw [if_neg ht] at h'; exact hB t' c h'
  | convert t l =>
    show Before m1 (inner_offset W s t).1
    unfold inner_offset
    cases hc : s.caches t with
    | some c => exact before_update m1 s t _ hB (offset_before W m0 m1 hm hne c s.clock s.env (hB t c hc))
    | none =>
      refine before_update m1 s t _ hB (offset_before W m0 m1 hm hne _ s.clock s.env ⟨Nat.le_refl _, ?_⟩)
      exact source_new_ne W s.clock m0 m1 _ hm hne

/-- the mtimes of a history before the change: all available and different from `m1` -/
def Fresh (m1 : Nat) (ms : List (Option Nat)) : Prop := ∀ m ∈ ms, ∃ m0, m = some m0 ∧ m0 ≠ m1

theorem mtimesOf_step (sw : StateW) (x : StepW) (xs : List StepW) (m : Option Nat)
    (h : m ∈ mtimesOf (stepW sw x).1.W xs) : m ∈ mtimesOf sw.W (x :: xs) := by
  unfold mtimesOf at *
  cases x with
  | base y =>
    rw [List.filterMap_cons_none (by rfl)]
    exact h
  | setMtime m' =>
    rw [List.filterMap_cons_some (b := m') (by rfl)]
    exact List.mem_cons_of_mem _ h
  | replaceLocaltime m' f n =>
    rw [List.filterMap_cons_some (b := m') (by rfl)]
    exact List.mem_cons_of_mem _ h

theorem execW_before (m1 : Nat) (h : List StepW) : ∀ sw : StateW,
    Fresh m1 (mtimesOf sw.W h) → Before m1 sw.s → Before m1 (execW sw h).s := by
  induction h with
  | nil => intro sw _ hB; exact hB
  | cons x xs ih =>
    intro sw hF hB
    obtain ⟨m0, hm0, hne⟩ := hF sw.W.ltMtime (List.mem_cons_self ..)
    show Before m1 (execW (stepW sw x).1 xs).s
    apply ih
    · exact fun m hmem => hF m (mtimesOf_step sw x xs m hmem)
    · cases x with
      | base y => exact step_before sw.W m0 m1 hm0 hne sw.s y hB
      | setMtime m' => exact hB
      | replaceLocaltime m' f n => exact hB

/-! ### after the change: TZ unset, mtime `m1`, world `W` fixed -/

/-- a cache either holds the zone of the new /etc/localtime, or was last checked before the change
(at clock `k`) and holds another source -/
def After (W : World) (m1 k : Nat) (s : State) : Prop :=
  ∀ t c, s.caches t = some c →
    c.zone = current_zone W none ∨ (c.last_checked ≤ k ∧ c.source ≠ .localTime m1)

theorem offset_after (W : World) (m1 k : Nat) (hm : W.ltMtime = some m1) (c : Cache) (now : Nat)
    (env : EnvVal) (he : env_var env = none)
    (hc : c.zone = current_zone W none ∨ (c.last_checked ≤ k ∧ c.source ≠ .localTime m1)) :
    ((Cache.offset W c now env).1.zone = current_zone W none ∨
      ((Cache.offset W c now env).1.last_checked ≤ k ∧ (Cache.offset W c now env).1.source ≠ .localTime m1)) ∧
    (within_window c.last_checked now = false → (Cache.offset W c now env).1.zone = current_zone W none) := by
  have hsrc := source_unset W now m1 env he hm
  rcases offset_cases W c now env with ⟨e, hw⟩ | ⟨hw, _, _, hz⟩
  · rw [e]; exact ⟨hc, fun h => by rw [hw] at h; cases h⟩
  · have good : (Cache.offset W c now env).1.zone = current_zone W none := by
      rcases hz with ⟨_, hz⟩ | ⟨ho, hz⟩
      · rw [hz, he]
      · rcases hc with hg | ⟨_, hs⟩
        · rw [hz, hg]
        · rw [hsrc, out_of_date_of_ne _ m1 hs] at ho; cases ho
    exact ⟨Or.inl good, fun _ => good⟩

theorem after_update (W : World) (m1 k : Nat) (s : State) (t : Nat) (c' : Cache) (hA : After W m1 k s)
    (hc : c'.zone = current_zone W none ∨ (c'.last_checked ≤ k ∧ c'.source ≠ .localTime m1)) :
    After W m1 k { s with caches := update s.caches t (some c') } := by
  intro t' c h
  have h' : update s.caches t (some c') t' = some c := h
  unfold update at h'
  by_cases ht : t' = t
  · rw [if_pos ht] at h'; injection h' with h'; subst h'; exact hc
  · rw [if_neg ht] at h'; exact hA t' c h'

/-- the cache `inner_offset` starts from on a thread without one is good -/
theorem default_after (W : World) (now : Nat) (env : EnvVal) (he : env_var env = none) :
    (Cache.default W now env).zone = current_zone W none := by
  show current_zone W (env_var env) = _; rw [he]

theorem step_after (W : World) (m1 k : Nat) (hm : W.ltMtime = some m1) (s : State) (x : Step)
    (hx : isChange x = false) (he : env_var s.env = none) (hA : After W m1 k s) :
    After W m1 k (step W s x).1 ∧ env_var (step W s x).1.env = none := by
  cases x with
  | setTZ v => simp [isChange] at hx
  | setNotUnicode => simp [isChange] at hx
  | unsetTZ => simp [isChange] at hx
  | advance n => exact ⟨hA, he⟩
  | spawn t =>
    refine ⟨?_, he⟩
    intro t' c h
    have h' : update s.caches t none t' = some c := h
    unfold update at h'
    by_cases ht : t' = t
    · rw [if_pos ht] at h'; cases h'
    · rw [if_neg ht] at h'; exact hA t' c h'
  | convert t l =>
    refine ⟨?_, ?_⟩
    · show After W m1 k (inner_offset W s t).1
      unfold inner_offset
      cases hc : s.caches t with
      | some c => exact after_update W m1 k s t _ hA (offset_after W m1 k hm c s.clock s.env he (hA t c hc)).1
      | none =>
        exact after_update W m1 k s t _ hA
          (offset_after W m1 k hm _ s.clock s.env he (Or.inl (default_after W s.clock s.env he))).1
    · show env_var (inner_offset W s t).1.env = none
      unfold inner_offset
      cases s.caches t <;> exact he

theorem exec_after (W : World) (m1 k : Nat) (hm : W.ltMtime = some m1) (b : List Step)
    (hq : ∀ x ∈ b, isChange x = false) : ∀ s : State, env_var s.env = none → After W m1 k s →
      After W m1 k (exec W s b) ∧ env_var (exec W s b).env = none := by
  induction b with
  | nil => intro s he hA; exact ⟨hA, he⟩
  | cons x xs ih =>
    intro s he hA
    obtain ⟨h1, h2⟩ := step_after W m1 k hm s x (hq x (List.mem_cons_self ..)) he hA
    exact ih (fun y hy => hq y (List.mem_cons_of_mem _ hy)) _ h2 h1

/-- the conversion made when at least one second has passed since clock `k` -/
theorem convert_after (W : World) (m1 k : Nat) (hm : W.ltMtime = some m1) (s : State) (t : Nat)
    (he : env_var s.env = none) (hA : After W m1 k s) (hk : k + ONE_SECOND ≤ s.clock) :
    (inner_offset W s t).2.1 = current_zone W none := by
  unfold inner_offset
  cases hc : s.caches t with
  | some c =>
    show (Cache.offset W c s.clock s.env).1.zone = _
    obtain ⟨h1, h2⟩ := offset_after W m1 k hm c s.clock s.env he (hA t c hc)
    rcases hA t c hc with hg | ⟨hl, _⟩
    · rcases h1 with h1 | ⟨h1, _⟩
      · exact h1
      · -- a good cache that was not refreshed is returned as it is; a refreshed one is checked now
        rcases offset_cases W c s.clock s.env with ⟨e, _⟩ | ⟨hw, _⟩
        · rw [e]; exact hg
        · exact h2 hw
    · apply h2
      cases hw : within_window c.last_checked s.clock with
      | false => rfl
      | true =>
        rw [within_window_iff] at hw
        omega
  | none =>
    show (Cache.offset W (Cache.default W s.clock s.env) s.clock s.env).1.zone = _
    exact ((offset_after W m1 k hm _ s.clock s.env he (Or.inl (default_after W s.clock s.env he))).1).elim id
      (fun h => by
        rcases offset_cases W (Cache.default W s.clock s.env) s.clock s.env with ⟨e, _⟩ | ⟨hw, _⟩
        · rw [e]; exact default_after W s.clock s.env he
        · have := window_self s.clock
          rw [show (Cache.default W s.clock s.env).last_checked = s.clock from rfl] at hw
          rw [this] at hw; cases hw)

/-- the zone a step of a history with a changing world used -/
def zoneOfStepW (r : StateW × Option (Zone × Decision)) : Option Zone := r.2.map Prod.fst

theorem chg_is_world_step (sw : StateW) (chg : StepW) (m1 : Nat) (hchg : mtimeSetBy chg = some (some m1)) :
    (stepW sw chg).1.s = sw.s ∧ (stepW sw chg).1.W.ltMtime = some m1 := by
  cases chg with
  | base y => simp [mtimeSetBy] at hchg
  | setMtime m => simp [mtimeSetBy] at hchg; subst hchg; exact ⟨rfl, rfl⟩
  | replaceLocaltime m f n => simp [mtimeSetBy] at hchg; subst hchg; exact ⟨rfl, rfl⟩

theorem mtime_change_honoured' (W0 : World) (e0 : EnvVal) (k0 : Nat) (a : List StepW) (chg : StepW)
    (b : List Step) (m1 : Nat)
    (hchg : mtimeSetBy chg = some (some m1))
    (hfresh : ∀ m ∈ mtimesOf W0 a, ∃ m0, m = some m0 ∧ m0 ≠ m1)
    (hunset : env_var (envAfter e0 (baseSteps a)) = none)
    (hquiet : ∀ x ∈ b, isChange x = false)
    (hwait : ONE_SECOND ≤ elapsed b) (t : Nat) (localDir : Bool) :
    zoneOfStepW (stepW (execW (initW W0 e0 k0) (a ++ chg :: b.map StepW.base)) (.base (.convert t localDir))) =
      some (zoneFor (worldAfter W0 (a ++ [chg])) none) := by
  have hsplit : execW (initW W0 e0 k0) (a ++ chg :: b.map StepW.base) =
      execW (stepW (execW (initW W0 e0 k0) a) chg).1 (b.map StepW.base) := by
    rw [execW_append]; rfl
  rw [hsplit, execW_base]
  generalize hsa : execW (initW W0 e0 k0) a = sa
  obtain ⟨hs, hm⟩ := chg_is_world_step sa chg m1 hchg
  have hW : (stepW sa chg).1.W = worldAfter W0 (a ++ [chg]) := by
    rw [stepW_world, worldAfter_append, ← hsa, execW_world]; rfl
  have hB : Before m1 sa.s := by
    rw [← hsa]
    exact execW_before m1 a (initW W0 e0 k0) hfresh (fun t c h => by simp [initW, init] at h)
  have he : env_var sa.s.env = none := by
    rw [← hsa, execW_env]; exact hunset
  rw [hs]
  generalize (stepW sa chg).1.W = W1 at hm hW
  have hA : After W1 m1 sa.s.clock sa.s := fun t c h => Or.inr (hB t c h)
  obtain ⟨hA', he'⟩ := exec_after W1 m1 sa.s.clock hm b hquiet sa.s he hA
  have hk : sa.s.clock + ONE_SECOND ≤ (exec W1 sa.s b).clock := by
    rw [(exec_clock_env W1 b sa.s).2]; omega
  have hz := convert_after W1 m1 sa.s.clock hm (exec W1 sa.s b) t he' hA' hk
  show some (inner_offset W1 (exec W1 sa.s b) t).2.1 = _
  rw [hz, current_zone_eq, hW]

/-- a clock that went backwards (`duration_since` answers `Err`) never lets the cache be reused -/
theorem backwards_refreshes' (W : World) (c : Cache) (now : Nat) (env : EnvVal)
    (hlt : now < c.last_checked) : (Cache.offset W c now env).2 ≠ .reused := by
  have hw : within_window c.last_checked now = false := by
    cases h : within_window c.last_checked now with
    | false => rfl
    | true => rw [within_window_iff] at h; omega
  unfold Cache.offset
  rw [hw]
  simp only [Bool.false_eq_true, if_false]
  split <;> simp

end Chrono.Proofs.LocalCacheWorld
