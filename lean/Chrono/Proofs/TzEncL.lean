/- Helper lemmas for C16, part 5: what the specification's writer writes is read back exactly. -/
import Chrono.Proofs.TzRoundL
import Chrono.Proofs.TzGrammarL
import Chrono.Proofs.TzTruncL
import Chrono.Proofs.TzSamples

namespace Chrono.Proofs.Tz
open Chrono Chrono.M.Tz Chrono.Spec.Tz Chrono.Spec.Tz.Gr Chrono.Extracted.TzP

/-! ### big-endian integers -/
theorem beBytes_len (n : Nat) (x : Int) : (beBytes n x).length = n := by
  induction n with
  | zero => rfl
  | succ n ih => simp [beBytes, ih]

theorem beNat_beBytes4 (x : Int) : ((beNat (beBytes 4 x) : Nat) : Int) = x % 4294967296 := by
  simp [beBytes, beNat]
  omega

theorem ediv_step (x a b : Int) (ha : 0 ≤ a) (c : Int) (hc : a * b = c) : x / c = x / a / b := by
  rw [Int.ediv_ediv_of_nonneg ha, hc]
theorem beNat_beBytes8 (x : Int) : ((beNat (beBytes 8 x) : Nat) : Int) = x % 18446744073709551616 := by
  have s1 : x % 65536 = (x / 256 % 256) * 256 + x % 256 := by
    have := ediv_step x 256 256 (by omega) 65536 (by omega); omega
  have s2 : x % 16777216 = (x / 65536 % 256) * 65536 + x % 65536 := by
    have := ediv_step x 65536 256 (by omega) 16777216 (by omega); omega
  have s3 : x % 4294967296 = (x / 16777216 % 256) * 16777216 + x % 16777216 := by
    have := ediv_step x 16777216 256 (by omega) 4294967296 (by omega); omega
  have s4 : x % 1099511627776 = (x / 4294967296 % 256) * 4294967296 + x % 4294967296 := by
    have := ediv_step x 4294967296 256 (by omega) 1099511627776 (by omega); omega
  have s5 : x % 281474976710656 = (x / 1099511627776 % 256) * 1099511627776 + x % 1099511627776 := by
    have := ediv_step x 1099511627776 256 (by omega) 281474976710656 (by omega); omega
  have s6 : x % 72057594037927936 = (x / 281474976710656 % 256) * 281474976710656 + x % 281474976710656 := by
    have := ediv_step x 281474976710656 256 (by omega) 72057594037927936 (by omega); omega
  have s7 : x % 18446744073709551616 = (x / 72057594037927936 % 256) * 72057594037927936 + x % 72057594037927936 := by
    have := ediv_step x 72057594037927936 256 (by omega) 18446744073709551616 (by omega); omega
  simp [beBytes, beNat]
  have b0 : 0 ≤ x % 256 ∧ x % 256 < 256 := ⟨Int.emod_nonneg _ (by omega), Int.emod_lt_of_pos _ (by omega)⟩
  have b1 : 0 ≤ x / 256 % 256 ∧ x / 256 % 256 < 256 := ⟨Int.emod_nonneg _ (by omega), Int.emod_lt_of_pos _ (by omega)⟩
  have b2 : 0 ≤ x / 65536 % 256 ∧ x / 65536 % 256 < 256 := ⟨Int.emod_nonneg _ (by omega), Int.emod_lt_of_pos _ (by omega)⟩
  have b3 : 0 ≤ x / 16777216 % 256 ∧ x / 16777216 % 256 < 256 := ⟨Int.emod_nonneg _ (by omega), Int.emod_lt_of_pos _ (by omega)⟩
  have b4 : 0 ≤ x / 4294967296 % 256 ∧ x / 4294967296 % 256 < 256 := ⟨Int.emod_nonneg _ (by omega), Int.emod_lt_of_pos _ (by omega)⟩
  have b5 : 0 ≤ x / 1099511627776 % 256 ∧ x / 1099511627776 % 256 < 256 := ⟨Int.emod_nonneg _ (by omega), Int.emod_lt_of_pos _ (by omega)⟩
  have b6 : 0 ≤ x / 281474976710656 % 256 ∧ x / 281474976710656 % 256 < 256 := ⟨Int.emod_nonneg _ (by omega), Int.emod_lt_of_pos _ (by omega)⟩
  have b7 : 0 ≤ x / 72057594037927936 % 256 ∧ x / 72057594037927936 % 256 < 256 := ⟨Int.emod_nonneg _ (by omega), Int.emod_lt_of_pos _ (by omega)⟩
  generalize x / 72057594037927936 % 256 = c7 at *
  generalize x / 281474976710656 % 256 = c6 at *
  generalize x / 1099511627776 % 256 = c5 at *
  generalize x / 4294967296 % 256 = c4 at *
  generalize x / 16777216 % 256 = c3 at *
  generalize x / 65536 % 256 = c2 at *
  generalize x / 256 % 256 = c1 at *
  generalize x % 256 = c0 at *
  generalize x % 65536 = r2 at *
  generalize x % 16777216 = r3 at *
  generalize x % 4294967296 = r4 at *
  generalize x % 1099511627776 = r5 at *
  generalize x % 281474976710656 = r6 at *
  generalize x % 72057594037927936 = r7 at *
  generalize x % 18446744073709551616 = r8 at *
  have e0 : max c0 0 % 256 = c0 := by omega
  have e1 : max c1 0 % 256 = c1 := by omega
  have e2 : max c2 0 % 256 = c2 := by omega
  have e3 : max c3 0 % 256 = c3 := by omega
  have e4 : max c4 0 % 256 = c4 := by omega
  have e5 : max c5 0 % 256 = c5 := by omega
  have e6 : max c6 0 % 256 = c6 := by omega
  have e7 : max c7 0 % 256 = c7 := by omega
  rw [e0, e1, e2, e3, e4, e5, e6, e7]
  omega

theorem read_i32_beBytes (x : Int) (h : I32r x) : read_be_i32 (beBytes 4 x) = .ok x := by
  unfold read_be_i32
  rw [if_neg (by simp [beBytes_len])]
  unfold asI32
  rw [beNat_beBytes4]
  unfold I32r at h
  dsimp only
  split <;> (congr 1; omega)

theorem read_i64_beBytes (x : Int) (h : I64r x) : read_be_i64 (beBytes 8 x) = .ok x := by
  unfold read_be_i64
  rw [if_neg (by simp [beBytes_len])]
  unfold asI64
  rw [beNat_beBytes8]
  unfold I64r at h
  dsimp only
  split <;> (congr 1; omega)

theorem read_exact_app (X Y : List Nat) (n : Nat) (h : X.length = n) :
    read_exact (X ++ Y) n = .ok (X, Y) := by
  subst h; exact read_exact_append X Y

theorem read_u32_enc (n : Nat) (Y : List Nat) (h : n < 4294967296) :
    read_be_u32 (u32 n ++ Y) = .ok (n, Y) := by
  unfold read_be_u32 u32
  rw [read_exact_app _ _ 4 (beBytes_len 4 _)]
  simp only
  have := beNat_beBytes4 (n : Int)
  have e : beNat (beBytes 4 (n : Int)) = n := by omega
  rw [e]

/-! ### header -/
theorem versionOf_byte (v : Version) : versionOf [versionByte v] = some v := by
  cases v <;> rfl

theorem header_new_enc (v : Version) (b : Block) (Y : List Nat) (hs : BlockShape b) :
    Header.new (encHeader v b ++ Y) = .ok (hdrOf v b, Y) := by
  have e : encHeader v b ++ Y = [84, 90, 105, 102] ++ ([versionByte v] ++ (List.replicate 15 0 ++
      (u32 b.utLocals.length ++ (u32 b.stdWalls.length ++ (u32 b.leaps.length ++
      (u32 b.trans.length ++ (u32 b.types.length ++ (u32 b.names.length ++ Y)))))))) := by
    simp [encHeader, List.append_assoc]
  rw [e]
  unfold Header.new
  rw [read_exact_app _ _ 4 rfl]
  simp only [P.bind_ok]
  rw [if_neg (by decide)]
  rw [read_exact_app _ _ 1 rfl]
  simp only [P.bind_ok, versionOf_byte]
  rw [read_exact_app _ _ RESERVED (by simp [RESERVED])]
  simp only [P.bind_ok]
  have h1 : b.utLocals.length < 4294967296 := by have := hs.ul; have := hs.nty; omega
  have h2 : b.stdWalls.length < 4294967296 := by have := hs.sw; have := hs.nty; omega
  rw [read_u32_enc _ _ h1]; simp only [P.bind_ok]
  rw [read_u32_enc _ _ h2]; simp only [P.bind_ok]
  rw [read_u32_enc _ _ hs.nl]; simp only [P.bind_ok]
  rw [read_u32_enc _ _ hs.nt]; simp only [P.bind_ok]
  rw [read_u32_enc _ _ hs.nty]; simp only [P.bind_ok]
  rw [read_u32_enc _ _ hs.nn]; simp only [P.bind_ok]
  rw [if_neg]
  · rfl
  · have := hs.ty0; have := hs.nn0; have := hs.sw; have := hs.ul
    simp only [Bool.not_eq_true', Bool.not_eq_false, Bool.and_eq_true, Bool.or_eq_true, bne_iff_ne, ne_eq,
      beq_iff_eq]
    omega

/-! ### data block -/
theorem flatMap_len {α} (l : List α) (f : α → List Nat) (k : Nat) (h : ∀ x, (f x).length = k) :
    (l.flatMap f).length = l.length * k := by
  induction l with
  | nil => simp
  | cons a t ih =>
    simp only [List.flatMap_cons, List.length_append, List.length_cons, ih, h, Nat.succ_mul]
    omega

def encTrans (ts : Nat) (b : Block) : List Nat := b.trans.flatMap fun t => beBytes ts t.1
def encTypes (b : Block) : List Nat :=
  b.types.flatMap fun t => beBytes 4 t.off ++ [if t.dst then 1 else 0, t.abbr]
def encLeaps (ts : Nat) (b : Block) : List Nat := b.leaps.flatMap fun l => beBytes ts l.1 ++ beBytes 4 l.2

/-- the slices `State::new` cuts out of a written block -/
def stateOf (v : Version) (ts : Nat) (b : Block) : State :=
  ⟨hdrOf v b, ts, encTrans ts b, b.trans.map (fun t => t.2), encTypes b, b.names, encLeaps ts b,
    b.stdWalls, b.utLocals⟩

theorem encTrans_len (ts : Nat) (b : Block) : (encTrans ts b).length = b.trans.length * ts :=
  flatMap_len _ _ _ (fun _ => beBytes_len _ _)
theorem encTypes_len (b : Block) : (encTypes b).length = b.types.length * 6 :=
  flatMap_len _ _ _ (fun _ => by simp [beBytes_len])
theorem encLeaps_len (ts : Nat) (b : Block) : (encLeaps ts b).length = b.leaps.length * (ts + 4) :=
  flatMap_len _ _ _ (fun _ => by simp [beBytes_len])

theorem encBody_eq (ts : Nat) (b : Block) (Y : List Nat) :
    encBody ts b ++ Y = encTrans ts b ++ (b.trans.map (fun t => t.2) ++ (encTypes b ++ (b.names ++
      (encLeaps ts b ++ (b.stdWalls ++ (b.utLocals ++ Y)))))) := by
  simp [encBody, encTrans, encTypes, encLeaps, List.append_assoc]

theorem state_new_enc (v : Version) (b : Block) (Y : List Nat) (first : Bool) (hs : BlockShape b) :
    State.new (encHeader v b ++ (encBody (if first then 4 else 8) b ++ Y)) first
      = .ok (stateOf v (if first then 4 else 8) b, Y) := by
  have k : TYPE_RECORD = 6 := rfl
  have h1 := hs.nt; have h2 := hs.nty; have h3 := hs.nl
  unfold State.new
  rw [header_new_enc v b _ hs, encBody_eq]
  simp only [P.bind_ok, hdrOf]
  cases first <;> simp only [Bool.false_eq_true, if_false, if_true]
  all_goals
    rw [ckUsz_ok (by omega)]
    simp only [P.bind_ok]
    rw [read_exact_app _ _ _ (encTrans_len _ b)]
    simp only [P.bind_ok]
    rw [read_exact_app _ _ _ (by simp)]
    simp only [P.bind_ok]
    rw [k, ckUsz_ok (by omega)]
    simp only [P.bind_ok]
    rw [read_exact_app _ _ _ (encTypes_len b)]
    simp only [P.bind_ok]
    rw [read_exact_app _ _ _ rfl]
    simp only [P.bind_ok]
    rw [ckUsz_ok (by omega)]
    simp only [P.bind_ok]
    rw [read_exact_app _ _ _ (encLeaps_len _ b)]
    simp only [P.bind_ok]
    rw [read_exact_app _ _ _ rfl]
    simp only [P.bind_ok]
    rw [read_exact_app _ _ _ rfl]
    simp only [P.bind_ok]
    rfl

/-! ### record loops on written data -/
theorem chunksN_flatMap {α} (l : List α) (f : α → List Nat) (k : Nat) (h : ∀ x, (f x).length = k) :
    chunksN l.length k (l.flatMap f) = l.map f := by
  induction l with
  | nil => rfl
  | cons a t ih =>
    simp only [List.length_cons, chunksN, List.flatMap_cons, List.map_cons]
    rw [List.take_left' (h a), List.drop_left' (h a), ih]

theorem chunks_exact_flatMap {α} (l : List α) (f : α → List Nat) (k : Nat) (hk : 0 < k)
    (h : ∀ x, (f x).length = k) : chunks_exact k (l.flatMap f) = l.map f := by
  unfold chunks_exact
  rw [flatMap_len l f k h, Nat.mul_div_cancel _ hk]
  exact chunksN_flatMap l f k h

/-- the time size and version a block is decoded with, and the range its times must fit -/
def TimeFits (v : Version) (ts : Nat) (t : Int) : Prop :=
  (v = .V1 ∧ ts = 4 ∧ I32r t) ∨ (v ≠ .V1 ∧ ts = 8 ∧ I64r t)

theorem slice_full (l : List Nat) (n : Nat) (h : l.length = n) : slice l 0 n = .ok l := by
  rw [slice_ok _ _ _ (by omega) (by omega)]
  simp [← h]

theorem decode_time (v : Version) (ts : Nat) (t : Int) (Y : List Nat) (h : TimeFits v ts t) :
    (slice (beBytes ts t ++ Y) 0 ts >>= fun a => parse_time a v) = .ok t := by
  have hs : slice (beBytes ts t ++ Y) 0 ts = .ok (beBytes ts t) := by
    rw [slice_ok _ _ _ (by omega) (by simp [beBytes_len])]
    simp [List.take_left' (beBytes_len ts t)]
  rw [hs]
  simp only [P.bind_ok]
  rcases h with ⟨rfl, rfl, hr⟩ | ⟨hv, rfl, hr⟩
  · unfold parse_time
    simp only
    rw [slice_full _ 4 (beBytes_len 4 t)]
    exact read_i32_beBytes t hr
  · unfold parse_time
    cases v with
    | V1 => exact absurd rfl hv
    | V2 => exact read_i64_beBytes t hr
    | V3 => exact read_i64_beBytes t hr

theorem parseTransitions_enc (v : Version) (ts : Nat) (l : List (Int × Nat))
    (h : ∀ t ∈ l, TimeFits v ts t.1) :
    parseTransitions ts v ((l.map fun t => beBytes ts t.1).zip (l.map fun t => t.2))
      = .ok (l.map fun t => ⟨t.1, t.2⟩) := by
  induction l with
  | nil => rfl
  | cons t rest ih =>
    simp only [List.map_cons, List.zip_cons_cons, parseTransitions]
    have := decode_time v ts t.1 [] (h t (by simp))
    simp only [List.append_nil] at this
    have h1 : slice (beBytes ts t.1) 0 ts = .ok (beBytes ts t.1) := slice_full _ _ (beBytes_len _ _)
    rw [h1] at this ⊢
    simp only [P.bind_ok] at this ⊢
    rw [this]
    simp only [P.bind_ok]
    rw [ih (fun x hx => h x (List.mem_cons_of_mem _ hx))]
    rfl

theorem parseLeap_enc (v : Version) (ts : Nat) (l : Int × Int) (h : TimeFits v ts l.1) (hc : I32r l.2) :
    parseLeap ts v (beBytes ts l.1 ++ beBytes 4 l.2) = .ok ⟨l.1, l.2⟩ := by
  have hts : ts = 4 ∨ ts = 8 := by rcases h with ⟨_, h, _⟩ | ⟨_, h, _⟩ <;> simp [h]
  unfold parseLeap
  have h1 : slice (beBytes ts l.1 ++ beBytes 4 l.2) 0 ts = .ok (beBytes ts l.1) := by
    rw [slice_ok _ _ _ (by omega) (by simp [beBytes_len])]
    simp [List.take_left' (beBytes_len ts l.1)]
  have h2 := decode_time v ts l.1 (beBytes 4 l.2) h
  rw [h1] at h2 ⊢
  simp only [P.bind_ok] at h2 ⊢
  rw [h2]
  simp only [P.bind_ok]
  rw [ckUsz_ok (by omega)]
  simp only [P.bind_ok]
  have h3 : slice (beBytes ts l.1 ++ beBytes 4 l.2) ts (ts + 4) = .ok (beBytes 4 l.2) := by
    rw [slice_ok _ _ _ (by omega) (by simp [beBytes_len])]
    rw [List.drop_left' (beBytes_len ts l.1)]
    have e4 : ts + 4 - ts = 4 := by omega
    rw [e4, List.take_of_length_le (by simp [beBytes_len])]
  rw [h3]
  simp only [P.bind_ok]
  rw [read_i32_beBytes _ hc]
  rfl

theorem parseLeaps_enc (v : Version) (ts : Nat) (l : List (Int × Int))
    (h : ∀ x ∈ l, TimeFits v ts x.1 ∧ I32r x.2) :
    parseLeaps ts v (l.map fun x => beBytes ts x.1 ++ beBytes 4 x.2) = .ok (l.map fun x => ⟨x.1, x.2⟩) := by
  induction l with
  | nil => rfl
  | cons x rest ih =>
    simp only [List.map_cons, parseLeaps]
    rw [parseLeap_enc v ts x (h x (by simp)).1 (h x (by simp)).2]
    simp only [P.bind_ok]
    rw [ih (fun y hy => h y (List.mem_cons_of_mem _ hy))]
    rfl

/-! ### local time type records -/
theorem nulPos_takeWhile (l : List Nat) (h : 0 ∈ l) :
    nulPos l = some (l.takeWhile (fun c => c != 0)).length := by
  induction l with
  | nil => simp at h
  | cons c t ih =>
    simp only [nulPos]
    by_cases hc : c = 0
    · subst hc; simp
    · have ht : 0 ∈ t := by
        simp only [List.mem_cons] at h
        rcases h with h | h
        · exact absurd h.symm hc
        · exact h
      rw [if_neg hc, ih ht]
      simp [List.takeWhile_cons, hc]

theorem take_takeWhile_len (p : Nat → Bool) (l : List Nat) :
    l.take (l.takeWhile p).length = l.takeWhile p := by
  induction l with
  | nil => rfl
  | cons c t ih =>
    simp only [List.takeWhile_cons]
    split
    · simp [ih]
    · simp

/-- a written type record can be read back: offset fits `i32` and lies strictly within 24 hours
of UTC (an offset of 86400 s or more in magnitude is refused since the repair of F32), the
designation index points into the table, a NUL follows, and the designation is empty or legal -/
def TyRecOk (names : List Nat) (t : TyRec) : Prop :=
  I32r t.off ∧ (-86400 < t.off ∧ t.off < 86400) ∧ t.abbr < names.length ∧ 0 ∈ names.drop t.abbr
    ∧ (match nameAt names t.abbr with
        | some n => NameOk n
        | none => True)

theorem parseType_enc (names : List Nat) (t : TyRec) (hn : names.length < 4294967296)
    (h : TyRecOk names t) :
    parseType names.length names (beBytes 4 t.off ++ [if t.dst then 1 else 0, t.abbr])
      = .ok ⟨t.off, t.dst, nameAt names t.abbr⟩ := by
  obtain ⟨off, dst, abbr⟩ := t
  obtain ⟨h1, h2, h3, h4, h5⟩ := h
  dsimp only at h1 h2 h3 h4 h5 ⊢
  have i4 : ∀ (a b c d x y : Nat), idx [a, b, c, d, x, y] 4 = .ok x := fun _ _ _ _ _ _ => rfl
  have i5 : ∀ (a b c d x y : Nat), idx [a, b, c, d, x, y] 5 = .ok y := fun _ _ _ _ _ _ => rfl
  have hsf : sliceFrom names abbr = .ok (names.drop abbr) := by
    simp [sliceFrom]; omega
  have hpos : ((names.drop abbr).takeWhile (fun c => c != 0)).length ≤ names.length - abbr := by
    have := takeWhile_len_le (fun c => c != 0) (names.drop abbr)
    simpa using this
  have e2 : abbr + ((names.drop abbr).takeWhile (fun c => c != 0)).length - abbr
      = ((names.drop abbr).takeWhile (fun c => c != 0)).length := by omega
  cases dst
  all_goals
    unfold parseType
    have hs : ∀ d : Nat, slice (beBytes 4 off ++ [d, abbr]) 0 4 = .ok (beBytes 4 off) := by
      intro d
      rw [slice_ok _ _ _ (by omega) (by simp [beBytes_len])]
      simp [List.take_left' (beBytes_len 4 off)]
    have e : ∀ d : Nat, beBytes 4 off ++ [d, abbr]
        = [(off / 16777216 % 256).toNat, (off / 65536 % 256).toNat, (off / 256 % 256).toNat,
           (off % 256).toNat, d, abbr] := by
      intro d; simp [beBytes]
    simp only [Bool.false_eq_true, if_false, if_true]
    rw [hs]
    simp only [P.bind_ok]
    rw [read_i32_beBytes _ h1]
    simp only [P.bind_ok]
    rw [e, i4, i5]
    simp only [P.bind_ok]
    rw [if_neg (by omega), hsf]
    simp only [P.bind_ok]
    rw [nulPos_takeWhile _ h4]
    simp only
    rw [ckUsz_ok (by omega)]
    simp only [P.bind_ok]
    rw [slice_ok _ _ _ (by omega) (by omega)]
    simp only [P.bind_ok]
    rw [e2, take_takeWhile_len]
    unfold nameAt at h5 ⊢
    simp only at h5 ⊢
    cases hemp : ((names.drop abbr).takeWhile (fun c => c != 0)).isEmpty with
    | true =>
      simp only [Bool.not_true, Bool.false_eq_true, if_false, if_true]
      unfold Ltt.new
      rw [if_neg (by omega)]
    | false =>
      simp only [hemp, Bool.not_false, if_true, Bool.false_eq_true, if_false] at h5 ⊢
      exact ltt_new_ok _ _ _ h2 h5

theorem parseTypes_enc (names : List Nat) (l : List TyRec) (hn : names.length < 4294967296)
    (h : ∀ t ∈ l, TyRecOk names t) :
    parseTypes names.length names (l.map fun t => beBytes 4 t.off ++ [if t.dst then 1 else 0, t.abbr])
      = .ok (l.map fun t => ⟨t.off, t.dst, nameAt names t.abbr⟩) := by
  induction l with
  | nil => rfl
  | cons t rest ih =>
    simp only [List.map_cons, parseTypes]
    rw [parseType_enc names t hn (h t (by simp))]
    simp only [P.bind_ok]
    rw [ih (fun y hy => h y (List.mem_cons_of_mem _ hy))]
    rfl

/-! ### footer -/
/-- printable, non-blank ASCII -/
def Pr (b : Nat) : Prop := 33 ≤ b ∧ b ≤ 126

theorem pr_append {X Y : List Nat} (hX : ∀ b ∈ X, Pr b) (hY : ∀ b ∈ Y, Pr b) : ∀ b ∈ X ++ Y, Pr b := by
  intro b hb
  rcases List.mem_append.mp hb with h | h
  · exact hX b h
  · exact hY b h

theorem pr_cons {a : Nat} {Y : List Nat} (ha : Pr a) (hY : ∀ b ∈ Y, Pr b) : ∀ b ∈ a :: Y, Pr b := by
  intro b hb
  rcases List.mem_cons.mp hb with h | h
  · subst h; exact ha
  · exact hY b h

theorem pr_nil : ∀ b ∈ ([] : List Nat), Pr b := by intro b hb; cases hb

theorem pr_renderNat (n : Nat) : ∀ b ∈ renderNat n, Pr b := by
  intro b hb
  have := isDigit_bounds ((renderNat_spec n).2.1 b hb)
  unfold Pr; omega

theorem pr_renderHmsAbs (a : Nat) : ∀ b ∈ renderHmsAbs a, Pr b := by
  unfold renderHmsAbs
  refine pr_append (pr_renderNat _) ?_
  split
  · exact pr_append (pr_append (pr_append (pr_cons (by unfold Pr; omega) pr_nil) (pr_renderNat _))
      (pr_cons (by unfold Pr; omega) pr_nil)) (pr_renderNat _)
  · split
    · exact pr_append (pr_cons (by unfold Pr; omega) pr_nil) (pr_renderNat _)
    · exact pr_nil

theorem pr_renderHms (v : Int) : ∀ b ∈ renderHms v, Pr b := by
  unfold renderHms
  refine pr_append ?_ (pr_renderHmsAbs _)
  split
  · exact pr_cons (by unfold Pr; omega) pr_nil
  · exact pr_nil

theorem alpha_bounds {b : Nat} (h : isAlpha b = true) : 65 ≤ b ∧ b ≤ 122 := by
  unfold isAlpha at h
  simp only [Bool.or_eq_true, Bool.and_eq_true] at h
  rcases h with ⟨h1, h2⟩ | ⟨h1, h2⟩
  · have := of_decide_eq_true h1; have := of_decide_eq_true h2; omega
  · have := of_decide_eq_true h1; have := of_decide_eq_true h2; omega

theorem nameChar_pr {b : Nat} (h : nameChar b = true) : Pr b := by
  unfold nameChar at h
  simp only [Bool.or_eq_true, beq_iff_eq] at h
  unfold Pr
  rcases h with ((h | h) | h) | h
  · have := isDigit_bounds h; omega
  · have := alpha_bounds h; omega
  · omega
  · omega

theorem pr_renderName (n : List Nat) (hn : NameOk n) : ∀ b ∈ renderName n, Pr b := by
  have hc := hn.2.2
  rw [List.all_eq_true] at hc
  have hall : ∀ b ∈ n, Pr b := fun b hb => nameChar_pr (hc b hb)
  unfold renderName
  split
  · exact hall
  · exact pr_append (pr_append (pr_cons (by unfold Pr; omega) pr_nil) hall) (pr_cons (by unfold Pr; omega) pr_nil)

theorem pr_renderDay (d : RuleDay) : ∀ b ∈ renderDay d, Pr b := by
  cases d with
  | julian1 n => exact pr_append (pr_cons (by unfold Pr; omega) pr_nil) (pr_renderNat _)
  | julian0 n => exact pr_renderNat _
  | mwd m w d =>
    exact pr_append (pr_append (pr_append (pr_append (pr_append (pr_cons (by unfold Pr; omega) pr_nil)
      (pr_renderNat _)) (pr_cons (by unfold Pr; omega) pr_nil)) (pr_renderNat _))
      (pr_cons (by unfold Pr; omega) pr_nil)) (pr_renderNat _)

theorem pr_renderTz (r : Rule) (ext : Bool) (h : RuleOk ext r) : ∀ b ∈ renderTz r, Pr b := by
  have c44 : ∀ b ∈ [44], Pr b := pr_cons (by unfold Pr; omega) pr_nil
  have c47 : ∀ b ∈ [47], Pr b := pr_cons (by unfold Pr; omega) pr_nil
  cases r with
  | fixed t =>
    obtain ⟨n, e, hn, _, _⟩ := lttOk_elim h
    rw [e]
    simp only [renderTz, Option.getD_some]
    exact pr_append (pr_renderName n hn) (pr_renderHms _)
  | alt a =>
    obtain ⟨std, dst, d1, t1, d2, t2⟩ := a
    obtain ⟨hs, hd, _, _, _, _⟩ := h
    obtain ⟨sn, es, hsn, _, _⟩ := lttOk_elim hs
    obtain ⟨dn, ed, hdn, _, _⟩ := lttOk_elim hd
    dsimp only at es ed
    rw [es, ed]
    simp only [renderTz, Option.getD_some]
    exact pr_append (pr_append (pr_append (pr_append (pr_append (pr_append (pr_append (pr_append
      (pr_append (pr_append (pr_append (pr_renderName sn hsn) (pr_renderHms _)) (pr_renderName dn hdn))
      (pr_renderHms _)) c44) (pr_renderDay _)) c47) (pr_renderHms _)) c44) (pr_renderDay _)) c47)
      (pr_renderHms _)

theorem renderTz_head (r : Rule) (ext : Bool) (h : RuleOk ext r) :
    ∃ b t, renderTz r = b :: t ∧ (b = 60 ∨ isAlpha b = true) := by
  cases r with
  | fixed t =>
    obtain ⟨n, e, hn, _, _⟩ := lttOk_elim h
    rw [e]
    simp only [renderTz, Option.getD_some]
    exact renderName_head n _ hn
  | alt a =>
    obtain ⟨std, dst, d1, t1, d2, t2⟩ := a
    obtain ⟨hs, _, _, _, _, _⟩ := h
    obtain ⟨sn, es, hsn, _, _⟩ := lttOk_elim hs
    dsimp only at es
    rw [es]
    simp only [renderTz, Option.getD_some, List.append_assoc]
    exact renderName_head sn _ hsn

theorem validUtf8_ascii (l : List Nat) (h : ∀ b ∈ l, b < 128) : validUtf8 l = true := by
  induction l with
  | nil => rfl
  | cons b t ih =>
    have hb : b < 128 := h b (by simp)
    have e : validUtf8 (b :: t) = validUtf8 t := by
      rw [validUtf8.eq_def]
      simp only [hb, if_true]
    rw [e]
    exact ih (fun x hx => h x (List.mem_cons_of_mem _ hx))

theorem pr_not_ws {b : Nat} (h : Pr b) : isAsciiWs b = false := by
  unfold Pr at h
  unfold isAsciiWs
  have e1 : (b == 32) = false := by simp; omega
  have e2 : (b == 9) = false := by simp; omega
  have e3 : (b == 10) = false := by simp; omega
  have e4 : (b == 12) = false := by simp; omega
  have e5 : (b == 13) = false := by simp; omega
  rw [e1, e2, e3, e4, e5]; rfl

theorem dropWhile_head (p : Nat → Bool) (a : Nat) (t : List Nat) (h : p a = false) :
    (a :: t).dropWhile p = a :: t := by
  simp [List.dropWhile_cons, h]

theorem trimWs_framed (F : List Nat) (hne : F ≠ []) (h : ∀ b ∈ F, Pr b) :
    trimWs (10 :: (F ++ [10])) = F := by
  unfold trimWs
  have w10 : isAsciiWs 10 = true := by decide
  cases F with
  | nil => exact absurd rfl hne
  | cons a F' =>
    have ha : isAsciiWs a = false := pr_not_ws (h a (by simp))
    have e1 : (10 :: (a :: F' ++ [10])).dropWhile isAsciiWs = a :: F' ++ [10] := by
      rw [List.dropWhile_cons, if_pos w10]
      exact dropWhile_head _ _ _ ha
    rw [e1]
    have e2 : (a :: F' ++ [10]).reverse = 10 :: (a :: F').reverse := by simp
    rw [e2, List.dropWhile_cons, if_pos w10]
    -- the reversed list starts with the last byte of F, which is not blank
    cases hr : (a :: F').reverse with
    | nil => simp at hr
    | cons z R =>
      have hz : z ∈ a :: F' := by
        have : z ∈ (a :: F').reverse := by rw [hr]; simp
        exact List.mem_reverse.mp this
      rw [dropWhile_head _ _ _ (pr_not_ws (h z hz)), ← hr, List.reverse_reverse]

theorem parseFooter_empty (v : Version) : parseFooter [10, 10] v = .ok none := by
  cases v <;> decide

/-! #### every string of the TZ grammar is printable, non-blank ASCII starting with `<` or a letter -/
theorem pr_one (a : Nat) (h : 33 ≤ a ∧ a ≤ 126) : ∀ b ∈ [a], Pr b := pr_cons h pr_nil

theorem pr_num {s : List Nat} {n : Nat} (p : Num s n) : ∀ b ∈ s, Pr b := by
  intro b hb
  have := isDigit_bounds ((num_spec p).2.1 b hb)
  unfold Pr; omega

theorem pr_hms {s : List Nat} {h m sec : Nat} (p : Hms s h m sec) : ∀ b ∈ s, Pr b := by
  have c58 : Pr 58 := by unfold Pr; omega
  cases p with
  | h ph => exact pr_num ph
  | hm ph pm => exact pr_append (pr_num ph) (pr_cons c58 (pr_num pm))
  | hms ph pm ps => exact pr_append (pr_num ph) (pr_cons c58 (pr_append (pr_num pm) (pr_cons c58 (pr_num ps))))

theorem pr_sign {s : List Nat} {sg : Int} (p : Sign s sg) : ∀ b ∈ s, Pr b := by
  cases p with
  | none => exact pr_nil
  | plus => exact pr_one 43 (by omega)
  | minus => exact pr_one 45 (by omega)

theorem pr_offset {s : List Nat} {o : Int} (p : Offset s o) : ∀ b ∈ s, Pr b := by
  cases p with
  | mk psg pb _ _ _ => exact pr_append (pr_sign psg) (pr_hms pb)

theorem pr_time {ext : Bool} {s : List Nat} {t : Int} (p : Time ext s t) : ∀ b ∈ s, Pr b := by
  cases p with
  | posix pb _ _ _ => exact pr_hms pb
  | ext psg pb _ _ _ => exact pr_append (pr_sign psg) (pr_hms pb)

theorem pr_name {s n : List Nat} (p : Name s n) : ∀ b ∈ s, Pr b := by
  have hc := (name_nameOk p).2.2
  rw [List.all_eq_true] at hc
  have hall : ∀ b ∈ n, Pr b := fun b hb => nameChar_pr (hc b hb)
  cases p with
  | bare _ _ _ => exact hall
  | quoted _ _ _ => exact pr_cons (by unfold Pr; omega) (pr_append hall (pr_one 62 (by omega)))

theorem pr_day {s : List Nat} {d : RuleDay} (p : Day s d) : ∀ b ∈ s, Pr b := by
  have c46 : Pr 46 := by unfold Pr; omega
  cases p with
  | j1 p _ _ => exact pr_cons (by unfold Pr; omega) (pr_num p)
  | j0 p _ => exact pr_num p
  | mwd pm pw pd _ _ _ _ _ =>
    exact pr_cons (by unfold Pr; omega)
      (pr_append (pr_num pm) (pr_cons c46 (pr_append (pr_num pw) (pr_cons c46 (pr_num pd)))))

theorem pr_daytime {ext : Bool} {s : List Nat} {d : RuleDay} {t : Int} (p : DayTime ext s d t) :
    ∀ b ∈ s, Pr b := by
  cases p with
  | default pd => exact pr_day pd
  | timed pd pt => exact pr_append (pr_day pd) (pr_cons (by unfold Pr; omega) (pr_time pt))

theorem pr_dstOffset {so : Int} {s : List Nat} {o : Int} (p : DstOffset so s o) : ∀ b ∈ s, Pr b := by
  cases p with
  | default => exact pr_nil
  | given p => exact pr_offset p

theorem pr_denotes {ext : Bool} {s : List Nat} {r : Rule} (h : Denotes ext s r) : ∀ b ∈ s, Pr b := by
  have c44 : Pr 44 := by unfold Pr; omega
  cases h with
  | fixed pn po => exact pr_append (pr_name pn) (pr_offset po)
  | alt pn1 po1 pn2 po2 pd1 pd2 =>
    exact pr_append (pr_name pn1) (pr_append (pr_offset po1) (pr_append (pr_name pn2)
      (pr_append (pr_dstOffset po2) (pr_cons c44 (pr_append (pr_daytime pd1) (pr_cons c44 (pr_daytime pd2)))))))

theorem denotes_head {ext : Bool} {s : List Nat} {r : Rule} (h : Denotes ext s r) :
    ∃ b t, s = b :: t ∧ (b = 60 ∨ isAlpha b = true) := by
  cases h with
  | fixed pn po => exact name_head pn _
  | alt pn1 _ _ _ _ _ => exact name_head pn1 _

/-- a footer holding any string of the TZ grammar is read as the rule the string denotes -/
theorem parseFooter_rule (v : Version) (F : List Nat) (r : Rule) (h : Denotes (v == .V3) F r) :
    parseFooter (10 :: (F ++ [10])) v = .ok (some r) := by
  have hpr := pr_denotes h
  obtain ⟨b0, t0, e0, hb0⟩ := denotes_head h
  have hne : F ≠ [] := by rw [e0]; simp
  unfold parseFooter
  have hu : validUtf8 (10 :: (F ++ [10])) = true := by
    apply validUtf8_ascii
    intro b hb
    simp only [List.mem_cons, List.mem_append, List.mem_nil_iff, or_false] at hb
    rcases hb with rfl | hb | rfl
    · omega
    · have := hpr b hb; unfold Pr at this; omega
    · omega
  rw [hu]
  simp only [Bool.not_true, Bool.false_eq_true, if_false]
  have hl : (10 :: (F ++ [10])).getLast? = some 10 := by
    rw [← List.cons_append]
    exact List.getLast?_concat
  rw [if_neg (by simp [hl])]
  rw [trimWs_framed _ hne hpr]
  have h58 : ¬ (F.head? == some 58 || F.contains 0) = true := by
    simp only [Bool.or_eq_true, beq_iff_eq, List.contains_iff_mem, not_or]
    refine ⟨?_, ?_⟩
    · rw [e0]
      simp only [List.head?_cons, Option.some.injEq]
      rcases hb0 with rfl | hb0
      · omega
      · have := alpha_bounds hb0; omega
    · intro h0
      have := hpr 0 h0
      unfold Pr at this; omega
  rw [if_neg h58]
  have hemp : F.isEmpty = false := by rw [e0]; rfl
  rw [if_neg (by rw [hemp]; simp)]
  rw [tz_accepts_all' _ F r h]
  rfl

/-! ### the whole file -/
/-- the values of a block that is decoded (not merely skipped) can be read back exactly -/
structure BlockVals (v : Version) (ts : Nat) (b : Block) : Prop where
  trans : ∀ t ∈ b.trans, TimeFits v ts t.1
  types : ∀ t ∈ b.types, TyRecOk b.names t
  leaps : ∀ l ∈ b.leaps, TimeFits v ts l.1 ∧ I32r l.2
  ind : badIndicators b.types.length b.stdWalls b.utLocals = false

/-- the footer a writer may put after the 64-bit block: nothing, or ANY string of the POSIX TZ
grammar (`Spec.Tz.Denotes`: optional DST offset, optional `/time`, any zero padding, optional `+`;
the RFC 8536 extensions only in a version-3 file), `rule` being what the string denotes -/
def FooterOk (v : Version) (footer : List Nat) (rule : Option Rule) : Prop :=
  (footer = [] ∧ rule = none) ∨ ∃ r, rule = some r ∧ Denotes (v == .V3) footer r

theorem parseRest_enc (v : Version) (ts : Nat) (b : Block) (fo : Option (List Nat)) (rule : Option Rule)
    (hs : BlockShape b) (hv : BlockVals v ts b) (hts : ts = 4 ∨ ts = 8)
    (hf : parseFooterOpt fo v = .ok rule)
    (hval : validate (absBlock b rule) = .ok ()) :
    parseRest (stateOf v ts b) fo = .ok (absBlock b rule) := by
  have k : TYPE_RECORD = 6 := rfl
  unfold parseRest
  simp only [stateOf, hdrOf]
  have c1 : chunks_exact ts (encTrans ts b) = b.trans.map fun t => beBytes ts t.1 :=
    chunks_exact_flatMap _ _ _ (by omega) (fun _ => beBytes_len _ _)
  have c2 : chunks_exact TYPE_RECORD (encTypes b)
      = b.types.map fun t => beBytes 4 t.off ++ [if t.dst then 1 else 0, t.abbr] := by
    rw [k]; exact chunks_exact_flatMap _ _ _ (by omega) (fun _ => by simp [beBytes_len])
  have c3 : chunks_exact (ts + 4) (encLeaps ts b) = b.leaps.map fun l => beBytes ts l.1 ++ beBytes 4 l.2 :=
    chunks_exact_flatMap _ _ _ (by omega) (fun _ => by simp [beBytes_len])
  rw [c1, c2, c3, parseTransitions_enc v ts b.trans hv.trans]
  simp only [P.bind_ok]
  rw [parseTypes_enc b.names b.types hs.nn hv.types]
  simp only [P.bind_ok]
  rw [parseLeaps_enc v ts b.leaps hv.leaps]
  simp only [P.bind_ok]
  refine (ite_neg' _ _ (by rw [hv.ind]; simp)).trans ?_
  rw [hf]
  simp only [P.bind_ok]
  unfold Zone.new
  unfold absBlock at hval
  rw [hval]
  rfl

theorem parseBlocks_enc_v1 (f : TzFile) (hver : f.version = .V1) (hs : BlockShape f.v1) :
    parseBlocks (encodeTzif f) = .ok (stateOf .V1 4 f.v1, none) := by
  have e : encodeTzif f = encHeader .V1 f.v1 ++ (encBody (if true then 4 else 8) f.v1 ++ []) := by
    simp [encodeTzif, hver]
  unfold parseBlocks
  rw [e, state_new_enc .V1 f.v1 [] true hs]
  simp [stateOf, hdrOf]

theorem parseBlocks_enc_v2 (f : TzFile) (hver : f.version ≠ .V1) (hs1 : BlockShape f.v1)
    (hs2 : BlockShape f.v2) :
    parseBlocks (encodeTzif f) = .ok (stateOf f.version 8 f.v2, some (10 :: (f.footer ++ [10]))) := by
  have e : encodeTzif f = encHeader f.version f.v1 ++ (encBody (if true then 4 else 8) f.v1 ++
      (encHeader f.version f.v2 ++ (encBody (if false then 4 else 8) f.v2 ++ (10 :: (f.footer ++ [10]))))) := by
    cases hv' : f.version with
    | V1 => exact absurd hv' hver
    | V2 => simp [encodeTzif, hv', List.append_assoc]
    | V3 => simp [encodeTzif, hv', List.append_assoc]
  unfold parseBlocks
  rw [e, state_new_enc f.version f.v1 _ true hs1]
  simp only [P.bind_ok]
  simp only [stateOf, hdrOf]
  cases hv' : f.version with
  | V1 => exact absurd hv' hver
  | V2 =>
    rw [state_new_enc _ f.v2 _ false hs2]
    rfl
  | V3 =>
    rw [state_new_enc _ f.v2 _ false hs2]
    rfl

theorem tzif_roundtrip_v1' (f : TzFile) (hver : f.version = .V1) (hs : BlockShape f.v1)
    (hv : BlockVals .V1 4 f.v1) (hval : validate (absBlock f.v1 none) = .ok ()) :
    parse (encodeTzif f) = .ok (absBlock f.v1 none) := by
  rw [parse_of_blocks (parseBlocks_enc_v1 f hver hs)]
  exact parseRest_enc .V1 4 f.v1 none none hs hv (Or.inl rfl) rfl hval

theorem tzif_roundtrip_v2' (f : TzFile) (hver : f.version ≠ .V1) (hs1 : BlockShape f.v1)
    (hs2 : BlockShape f.v2) (hv : BlockVals f.version 8 f.v2) (rule : Option Rule)
    (hfoot : FooterOk f.version f.footer rule) (hval : validate (absBlock f.v2 rule) = .ok ()) :
    parse (encodeTzif f) = .ok (absBlock f.v2 rule) := by
  rw [parse_of_blocks (parseBlocks_enc_v2 f hver hs1 hs2)]
  refine parseRest_enc f.version 8 f.v2 _ rule hs2 hv (Or.inr rfl) ?_ hval
  show parseFooter _ _ = _
  rcases hfoot with ⟨h1, h2⟩ | ⟨r, h1, h2⟩
  · rw [h1, h2]; exact parseFooter_empty _
  · rw [h1]; exact parseFooter_rule _ _ r h2

theorem footerOf_enc_v1 (f : TzFile) (hver : f.version = .V1) (hs : BlockShape f.v1) :
    footerOf (encodeTzif f) = [] := by
  unfold footerOf; rw [parseBlocks_enc_v1 f hver hs]

theorem footerOf_enc_v2 (f : TzFile) (hver : f.version ≠ .V1) (hs1 : BlockShape f.v1)
    (hs2 : BlockShape f.v2) : footerOf (encodeTzif f) = 10 :: (f.footer ++ [10]) := by
  unfold footerOf; rw [parseBlocks_enc_v2 f hver hs1 hs2]

/-! ### `validate` on zones without a rule-versus-transition obligation -/
theorem checkTransitions_of (n : Nat) (l : List Transition) (h1 : SortedStrict l)
    (h2 : ∀ t ∈ l, t.idx < n) : checkTransitions n l = true := by
  induction l with
  | nil => rfl
  | cons t rest ih =>
    have ht : t.idx < n := h2 t (by simp)
    cases rest with
    | nil => simp [checkTransitions, ht]
    | cons u r2 =>
      obtain ⟨hlt, hs⟩ := h1
      have := ih hs (fun x hx => h2 x (List.mem_cons_of_mem _ hx))
      simp only [checkTransitions, Bool.and_eq_true, decide_eq_true_eq] at this ⊢
      exact ⟨⟨ht, hlt⟩, this⟩

/-- without a rule, or without transitions, `validate` only asks for a type, sorted in-range
transitions and the leap-second table constraints -/
theorem validate_ok_of (z : Zone) (h0 : z.types ≠ []) (h1 : SortedStrict z.transitions)
    (h2 : ∀ t ∈ z.transitions, t.idx < z.types.length) (h3 : checkLeaps z.leaps = true)
    (h4 : z.rule = none ∨ z.transitions = []) : validate z = .ok () := by
  unfold validate
  have hl : ¬ z.types.length = 0 := by
    intro e; exact h0 (List.eq_nil_of_length_eq_zero e)
  rw [if_neg hl, if_neg (by rw [checkTransitions_of _ _ h1 h2]; simp), if_neg (by rw [h3]; simp)]
  rcases h4 with h | h
  · rw [h]
  · rw [h]
    cases z.rule <;> rfl

/-! ### the hypotheses are satisfiable: `sampleV2` -/
theorem sampleV2_shape1 : BlockShape sampleV2.v1 :=
  ⟨by decide, by decide, by decide, by decide, by decide, by decide, by decide, by decide⟩
theorem sampleV2_shape2 : BlockShape sampleV2.v2 :=
  ⟨by decide, by decide, by decide, by decide, by decide, by decide, by decide, by decide⟩

instance (x : Int) : Decidable (I32r x) := by unfold I32r; infer_instance
instance (x : Int) : Decidable (I64r x) := by unfold I64r; infer_instance
instance (v : Version) (ts : Nat) (t : Int) : Decidable (TimeFits v ts t) := by
  unfold TimeFits; infer_instance
instance (names : List Nat) (t : TyRec) : Decidable (TyRecOk names t) := by
  unfold TyRecOk
  cases nameAt names t.abbr <;> infer_instance

theorem sampleV2_vals : BlockVals sampleV2.version 8 sampleV2.v2 :=
  ⟨by decide +kernel, by decide +kernel, by decide +kernel, by decide +kernel⟩

end Chrono.Proofs.Tz
