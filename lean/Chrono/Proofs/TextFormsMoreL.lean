/-
  C09, beyond the printed form: what the `FromStr` readers accept in addition to the canonical text —
  a time of day without seconds, and the lower-case separator `t` in a zone-aware date-time (the tail
  lemma takes any offset spelling the relaxed reader accepts: `z`, `Z`, `UTC`, `utc`, `+hh:mm`).
-/
import Chrono.Proofs.TextFormsZonedL
import Chrono.Proofs.RoundTripItemsL
namespace Chrono.Proofs.TextFormsMore
open Chrono Chrono.M Chrono.M.Scan Chrono.M.Format Chrono.M.TextForms
open Chrono.Proofs Chrono.Proofs.TextForms Chrono.Proofs.RenderScan Chrono.Spec Chrono.Spec.Text
open Chrono.Spec.Fields Chrono.Proofs.ParsedRes Chrono.Extracted

/-! ### NaiveTime without seconds -/

/-- the optional seconds run on empty text: the literal `:` is missing -/
theorem sn_on_nil (p : Parsed) : Parse.parseItemsBase p [] SECOND_AND_NANOS = .error .tooShort := rfl

/-- `HH:MM` reads as `HH:MM:00` -/
theorem time_without_seconds (h mi : Nat) (hh : h ≤ 23) (hmi : mi ≤ 59) :
    time_from_str (two h ++ (58 :: two mi)) = .ok ⟨(h : Int) * 3600 + (mi : Int) * 60, 0⟩ := by
  have e : two h ++ (58 :: two mi) = two h ++ (58 :: (two mi ++ [])) := by rw [List.append_nil]
  unfold time_from_str
  rw [e, parse_internal_base HOUR_AND_MINUTE hm_items_plain, hm_items Parsed.new rfl rfl rfl h mi hh hmi []]
  simp only
  rw [parse_internal_base SECOND_AND_NANOS sn_items_plain, sn_on_nil]
  simp only [Parse.parse, TRAILING_WHITESPACE]
  refine Chrono.Props.C14.time_complete _ _ ?_ ⟨?_, ?_, ?_, ⟨?_, ?_⟩, ?_, ?_⟩ ?_
  · refine ⟨⟨by dsimp only; omega, by dsimp only; omega, by dsimp only; omega, by dsimp only; omega⟩,
      Or.inl (by dsimp only; omega)⟩
  · intro x hx; injection hx with hx; unfold hourOf; dsimp only; omega
  · intro x hx; injection hx with hx; unfold hourOf; dsimp only; omega
  · intro x hx; injection hx with hx; unfold minuteOf; dsimp only; omega
  · intro x hx; cases hx
  · intro _; unfold secondOf; dsimp only; omega
  · intro x hx; cases hx
  · intro _; dsimp only; omega
  · unfold TimeSufficient; simp; intro h; exact absurd rfl h

/-! ### the relaxed reader with any of its three separators -/

/-- `relaxed_on_text` (Proofs/TextFormsZonedL.lean) with the separator `t` admitted as well -/
theorem relaxed_on_text3 (y : Int) (hy : -1000000 < y ∧ y < 1000000) (m d : Nat) (hm : 1 ≤ m ∧ m ≤ 12)
    (hd : 1 ≤ d ∧ d ≤ 31) (t : Time) (ht : TStrict t) (sep : Nat)
    (hsep : sep = 116 ∨ sep = 84 ∨ sep = 32) (tail tail' : List Nat) (offv : Int)
    (hoffv : -1000000 < offv ∧ offv < 1000000)
    (htail : TailOk tail) (htrim : trimStart (trimStart tail) = tail')
    (hT : (if tail'.length ≥ 3 ∧ lowerS (List.take 3 tail') = [117, 116, 99] then
             Except.ok (List.drop 3 tail', (0 : Int))
           else timezone_offset tail' .colonOrSpace true false true) = .ok ([], offv)) :
    Parse.parse_rfc3339_relaxed Parsed.new (dateText y m d ++ (sep :: (timeText t ++ tail))) =
      .ok (dtRecord y m d t (some offv), []) := by
  have hd := date_items Parsed.new rfl rfl rfl y hy m d hm hd (sep :: (timeText t ++ tail))
  have htm := time_items
    { Parsed.new with year := some y, month := some ((m : Nat) : Int), day := some ((d : Nat) : Int) }
    rfl rfl rfl rfl rfl t ht tail htail
  have hsepok : (if sep = 116 ∨ sep = 84 ∨ sep = 32 then (Except.ok (timeText t ++ tail) : PRes (List Nat))
      else Except.error PErr.invalid) = Except.ok (timeText t ++ tail) := by
    rw [if_pos hsep]
  unfold Parse.parse_rfc3339_relaxed
  simp only [bind, Except.bind, hd, hsepok, htm, htrim, hT]
  rw [set_offset_new _ rfl offv (by omega)]
  rfl

/-- `fixed_from_text` (Proofs/TextFormsZonedL.lean) with the separator `t` admitted as well: the wall
clock `l` of `z` written as date, `T` / `t` / space, time, and any tail the offset part of the reader
turns into `z`'s offset, reads as `z` -/
theorem fixed_from_text3 (z : Zoned) (hz : ZInv z) (hm : z.off % 60 = 0) (hs : TStrict z.utc.time) (l : NaiveDT)
    (hl : Zoned.naive_local z = .ok l) (sep : Nat) (hsep : sep = 116 ∨ sep = 84 ∨ sep = 32)
    (tail tail' : List Nat) (htail : TailOk tail) (htrim : trimStart (trimStart tail) = tail')
    (hT : (if tail'.length ≥ 3 ∧ lowerS (List.take 3 tail') = [117, 116, 99] then
             Except.ok (List.drop 3 tail', (0 : Int))
           else timezone_offset tail' .colonOrSpace true false true) = .ok ([], z.off)) :
    fixed_from_str (naiveText sep l ++ tail) = .ok (.ok z) := by
  obtain ⟨Y, O, hvd, he, hst, _⟩ := local_facts z hz hm hs l hl
  have ho : -86400 < z.off ∧ z.off < 86400 := hz.2
  have htext : naiveText sep l ++ tail =
      dateText Y (monthOfYo Y O) (dayOfYo Y O) ++ (sep :: (timeText l.time ++ tail)) := by
    unfold naiveText
    have : l.date = dateOfYo Y O := by rw [he]
    rw [this, dateTextOf_yo Y O hvd, List.append_assoc, List.cons_append]
  unfold fixed_from_str
  obtain ⟨a1, a2, a3, a4, a5, a6⟩ := vd_month_day Y O hvd
  rw [htext, relaxed_on_text3 Y ⟨a1, a2⟩ _ _ ⟨a3, a4⟩ ⟨a5, a6⟩ l.time hst sep hsep tail tail' z.off (by omega)
    htail htrim hT]
  simp only [trimStart_nil, ne_eq, not_true_eq_false, if_false]
  exact to_datetime_record z hz l hl Y O hvd he hst

/-! ### outside the side condition: a leap-second representation off second 59 -/

/-- a leap-second representation on a second other than 59 (only `with_nanosecond` builds one) prints
exactly like the ordinary time one second later -/
theorem time_debug_leap_off_59 (t : Time) (ht : TValid t) (hl : t.frac ≥ 1000000000) (h59 : t.secs % 60 ≠ 59) :
    time_debug t = time_debug ⟨t.secs + 1, t.frac - 1000000000⟩ := by
  obtain ⟨t0, t1, t2, t3⟩ := ht
  unfold time_debug Time.hms
  dsimp only
  have e1 : (t.secs + 1) / 60 / 60 = t.secs / 60 / 60 := by omega
  have e2 : (t.secs + 1) / 60 % 60 = t.secs / 60 % 60 := by omega
  have e3 : (t.secs + 1) % 60 = t.secs % 60 + 1 := by omega
  rw [e1, e2, e3, if_pos hl, if_pos hl, if_neg (by omega), if_neg (by omega)]

/-! ### outside the side condition: an offset with a seconds part -/

/-- `FixedOffset`'s text for an offset that is not a whole minute: `±hh:mm:ss` -/
theorem offset_debug_with_seconds (off : Int) (h : -86400 < off ∧ off < 86400) (hs : off % 60 ≠ 0) :
    offset_debug off = (if off < 0 then 45 else 43) ::
      (two (off.natAbs / 3600) ++ (58 :: (two (off.natAbs / 60 % 60) ++ (58 :: two (off.natAbs % 60))))) := by
  unfold offset_debug fixedOffsetName
  dsimp only
  generalize ha : (if off < 0 then -off else off) = a
  have ha0 : 0 ≤ a ∧ a < 86400 := by rw [← ha]; split <;> omega
  have hn : (off.natAbs : Int) = a := by rw [← ha]; split <;> omega
  have hsec : ¬ a % 60 = 0 := by rw [← ha]; split <;> omega
  rw [if_neg hsec, fmtInt_eq_decN _ 2 (by omega) (by omega) (by norm_num; omega),
    fmtInt_eq_decN _ 2 (by omega) (by omega) (by norm_num; omega),
    fmtInt_eq_decN _ 2 (by omega) (by omega) (by norm_num; omega),
    decN_two _ (by omega), decN_two _ (by omega), decN_two _ (by omega)]
  have e1 : (a / 60 / 60).toNat = off.natAbs / 3600 := by omega
  have e2 : (a / 60 % 60).toNat = off.natAbs / 60 % 60 := by omega
  have e3 : (a % 60).toNat = off.natAbs % 60 := by omega
  rw [e1, e2, e3]
  simp only [List.append_assoc, List.cons_append, List.nil_append]

/-- … and `FixedOffset::from_str` of that text stops after the minutes (what follows the offset is not
looked at): it returns the offset truncated to a whole minute -/
theorem offset_with_seconds_reads_truncated (off : Int) (h : -86400 < off ∧ off < 86400) (hs : off % 60 ≠ 0) :
    offset_from_str (offset_debug off) =
      .ok (if off < 0 then -((off.natAbs : Int) - (off.natAbs : Int) % 60)
           else (off.natAbs : Int) - (off.natAbs : Int) % 60) := by
  rw [offset_debug_with_seconds off h hs]
  unfold offset_from_str
  have hsg : (if off < 0 then 45 else 43 : Nat) = 43 ∨ (if off < 0 then 45 else 43 : Nat) = 45 := by
    split <;> simp
  have := Chrono.Proofs.RoundTrip.tzoffset_cos (if off < 0 then 45 else 43) hsg (off.natAbs / 3600)
    (off.natAbs / 60 % 60) (by omega) (by omega) [58] (Or.inr rfl) (58 :: two (off.natAbs % 60)) false true
  simp only [List.cons_append, List.nil_append] at this
  rw [this]
  dsimp only
  by_cases hneg : off < 0
  · simp only [hneg, if_true]
    have hv : -(((off.natAbs / 3600 : Nat) : Int) * 3600 + ((off.natAbs / 60 % 60 : Nat) : Int) * 60) =
        -((off.natAbs : Int) - (off.natAbs : Int) % 60) := by omega
    rw [hv]
    unfold Zoned.east_opt
    rw [if_pos (by omega)]
  · simp only [hneg, if_false]
    have h45 : ¬ ((43 : Nat) = 45) := by decide
    simp only [h45, if_false]
    have hv : (((off.natAbs / 3600 : Nat) : Int) * 3600 + ((off.natAbs / 60 % 60 : Nat) : Int) * 60) =
        ((off.natAbs : Int) - (off.natAbs : Int) % 60) := by omega
    rw [hv]
    unfold Zoned.east_opt
    rw [if_pos (by omega)]

end Chrono.Proofs.TextFormsMore
