/-
  C13, fifth lemma file: from "every supplied field is the value's field" and "the set fields are the
  carried ones" to the hypotheses of C14's completeness theorems, and the round trip per target type.
  Namespace `Chrono.Proofs.RoundTrip`.
-/
import Chrono.Proofs.RoundTripFieldsL
import Chrono.Props.C14

namespace Chrono.Proofs.RoundTrip
open Chrono Chrono.M Chrono.M.Scan Chrono.Spec Chrono.Spec.Fields Chrono.Extracted Chrono.Proofs Chrono.Proofs.ParsedRes

theorem isSome_false_iff {α} (o : Option α) : o.isSome = false ↔ o = none := by cases o <;> simp
theorem isSome_true_iff {α} (o : Option α) : o.isSome = true ↔ o ≠ none := by cases o <;> simp

/-- the record holds values of the Rust field types -/
theorem inType_of_supplied (p : Parsed) (tr : Truth) (hok : TruthOk tr) (hS : Supplied p tr)
    (hts : -9000000000000 ≤ tr.tsv ∧ tr.tsv ≤ 9000000000000) : InType p := by
  obtain ⟨hY1, hY2, ho1, ho2⟩ := hok.vd
  have hMIN : MIN_YEAR = -262143 := rfl
  have hMAX : MAX_YEAR = 262142 := rfl
  obtain ⟨_, _, _, o366, _, _, _, _, m1, m2, d1, d2, _, _, ws1, ws2, wm1, wm2, _⟩ := date_facts tr.Y tr.o hok.vd
  obtain ⟨t1, t2, t3, t4⟩ := hok.t
  have := hok.iy; have := hok.iw; have := hok.nv; have := hok.off
  refine ⟨fun x h => ?_, fun x h => ?_, fun x h => ?_, fun x h => ?_, fun x h => ?_, fun x h => ?_,
    fun x h => ?_, fun x h => ?_, fun x h => ?_, fun x h => ?_, fun x h => ?_, fun x h => ?_,
    fun x h => ?_, fun x h => ?_, fun x h => ?_, fun x h => ?_, fun x h => ?_, fun x h => ?_,
    fun x h => ?_, fun x h => ?_⟩
  · have := hS.year x h; omega
  · have := hS.year_div x h; omega
  · have := hS.year_mod x h; omega
  · have := hS.isoyear x h; omega
  · have := hS.isoyear_div x h; omega
  · have := hS.isoyear_mod x h; omega
  · have := hS.quarter x h; unfold quarterOfMonth at this; omega
  · have := hS.month x h; omega
  · have := hS.week_from_sun x h; omega
  · have := hS.week_from_mon x h; omega
  · have := hS.isoweek x h; omega
  · have := hS.ordinal x h; omega
  · have := hS.day x h; omega
  · have := hS.hour_div x h; unfold hourOf at this; omega
  · have := hS.hour_mod x h; unfold hourOf at this; omega
  · have := hS.minute x h; unfold minuteOf at this; omega
  · have := hS.second x h; unfold secondOf at this; omega
  · have := hS.nano x h; omega
  · have := hS.timestamp x h; omega
  · have := hS.offset x h; omega

theorem dateAgrees_of_supplied (p : Parsed) (tr : Truth) (hok : TruthOk tr) (hS : Supplied p tr) :
    DateAgrees p tr.Y tr.o := by
  obtain ⟨w, hw, hy, hk⟩ := hok.iso
  refine ⟨hS.year, ⟨hS.year_div, hS.year_mod⟩, hS.quarter, hS.month, hS.week_from_sun, hS.week_from_mon,
    fun x h => ?_, hS.ordinal, hS.day, w, hw, ?_, ⟨?_, ?_⟩, ?_⟩
  · rw [hS.weekday x h]; exact hok.wd
  · rw [hy]; exact hS.isoyear
  · rw [hy]; exact hS.isoyear_div
  · rw [hy]; exact hS.isoyear_mod
  · rw [hk]; exact hS.isoweek

/-- a year group is determinate when it is usable and a lone two-digit year lies in the pivot range -/
theorem group_determinate (y q r : Option Int) (by_ bq br : Bool) (yr : Int)
    (hy : y.isSome = by_) (hq : q.isSome = bq) (hr : r.isSome = br)
    (hu : groupUsable by_ bq br = true) (hx : by_ = false → bq = false → br = true → 1970 ≤ yr ∧ yr ≤ 2069) :
    GroupDeterminate y q r yr := by
  refine ⟨?_, fun h1 h2 h3 => hx ?_ ?_ ?_⟩
  · rintro ⟨h1, h2, h3⟩
    subst h1 h3
    have : q.isSome = true := (isSome_true_iff q).mpr h2
    simp only [Option.isSome_none] at hy hr
    rw [← hy, ← hr, ← hq, this] at hu
    simp [groupUsable] at hu
  · rw [← hy]; subst h1; rfl
  · rw [← hq]; subst h2; rfl
  · rw [← hr]; exact (isSome_true_iff r).mpr h3

theorem uses_of_tracks (p : Parsed) (cr : Carries) (nv : Int) (hT : Tracks p cr nv) (hf : fullDate cr = true) :
    UsesCalendar p ∨ UsesIso p := by
  have y := hT.year; have r := hT.year_mod; have m := hT.month; have d := hT.day; have o := hT.ordinal
  have ws := hT.week_from_sun; have wm := hT.week_from_mon; have wd := hT.weekday
  have iy := hT.isoyear; have ir := hT.isoyear_mod; have iw := hT.isoweek
  simp only [fullDate, yearGroup, Bool.or_eq_true, Bool.and_eq_true] at hf
  have ne : ∀ {α} (o : Option α) (b : Bool), o.isSome = b → b = true → o ≠ none := by
    intro α o b h hb; rw [← h] at hb; exact (isSome_true_iff o).mp hb
  rcases hf with ⟨hg, hc⟩ | ⟨⟨hg, hw⟩, hwd⟩
  · left
    refine ⟨?_, ?_⟩
    · rcases hg with h | h
      · exact Or.inl (ne _ _ y h)
      · exact Or.inr (ne _ _ r h)
    · rcases hc with ((⟨h1, h2⟩ | h) | ⟨h1, h2⟩) | ⟨h1, h2⟩
      · exact Or.inl ⟨ne _ _ m h1, ne _ _ d h2⟩
      · exact Or.inr (Or.inl (ne _ _ o h))
      · exact Or.inr (Or.inr (Or.inl ⟨ne _ _ ws h1, ne _ _ wd h2⟩))
      · exact Or.inr (Or.inr (Or.inr ⟨ne _ _ wm h1, ne _ _ wd h2⟩))
  · right
    refine ⟨?_, ne _ _ iw hw, ne _ _ wd hwd⟩
    rcases hg with h | h
    · exact Or.inl (ne _ _ iy h)
    · exact Or.inr (ne _ _ ir h)

theorem cutFrac_bounds (frac : Int) (k : Nat) (h : 0 ≤ frac) :
    0 ≤ cutFrac frac k ∧ cutFrac frac k ≤ frac % 1000000000 := by
  unfold cutFrac
  have hu : (0 : Int) < ((10 ^ (9 - k) : Nat) : Int) := by
    have : 0 < 10 ^ (9 - k) := Nat.pow_pos (by omega)
    exact_mod_cast this
  have hx : 0 ≤ frac % 1000000000 := by omega
  generalize frac % 1000000000 = x at *
  generalize ((10 ^ (9 - k) : Nat) : Int) = u at *
  exact ⟨Int.mul_nonneg (Int.ediv_nonneg hx (by omega)) (by omega), Int.ediv_mul_le x (by omega)⟩

/-- the time the round trip must return is one the public constructors build, agrees with the record
on every field, reads 0 where the record has no field, and the record is sufficient -/
theorem time_of_supplied (is : List Item) (p : Parsed) (tr : Truth) (hok : TruthOk tr) (hS : Supplied p tr)
    (hT : Tracks p (carries is) tr.nv) (hfull : fullTime (carries is) = true)
    (hleap : 1000000000 ≤ tr.t.frac → tr.t.secs % 60 = 59)
    (hnv : tr.nv = (truncTime is tr.t).frac % 1000000000)
    (hnone : (carries is).nano = false → (truncTime is tr.t).frac % 1000000000 = 0) :
    TStrict (truncTime is tr.t) ∧ TimeAgrees p (truncTime is tr.t) ∧ TimeSufficient p := by
  obtain ⟨t1, t2, t3, t4⟩ := hok.t
  obtain ⟨c1, c2⟩ := cutFrac_bounds tr.t.frac (fracDigits is) t3
  have hsecs : (truncTime is tr.t).secs = (if (carries is).second = false then tr.t.secs / 60 * 60 else tr.t.secs) := by
    by_cases hs : (carries is).second = false <;> simp [truncTime, hs]
  have hfrac : (truncTime is tr.t).frac = (if (carries is).second = false then 0 else
      (if tr.t.frac ≥ 1000000000 then 1000000000 + cutFrac tr.t.frac (fracDigits is) else cutFrac tr.t.frac (fracDigits is))) := by
    by_cases hs : (carries is).second = false <;> simp [truncTime, hs]
  simp only [fullTime, Bool.and_eq_true, Bool.or_eq_true, Bool.not_eq_true'] at hfull
  obtain ⟨⟨hh, hm⟩, hns⟩ := hfull
  have ne : ∀ {α} (o : Option α) (b : Bool), o.isSome = b → b = true → o ≠ none := by
    intro α o b h hb; rw [← h] at hb; exact (isSome_true_iff o).mp hb
  refine ⟨?_, ⟨?_, ?_, ?_, ⟨?_, ?_⟩, ⟨?_, ?_⟩⟩, ⟨?_, ?_, ?_, ?_⟩⟩
  · unfold TStrict TValid
    rw [hsecs, hfrac]
    by_cases hs : (carries is).second = false
    · simp only [hs, if_true]; omega
    · simp only [hs, if_false]; split <;> omega
  · intro x h; rw [hS.hour_div x h]; unfold hourOf; rw [hsecs]; split <;> omega
  · intro x h; rw [hS.hour_mod x h]; unfold hourOf; rw [hsecs]; split <;> omega
  · intro x h; rw [hS.minute x h]; unfold minuteOf; rw [hsecs]; split <;> omega
  · intro x h
    have hx := hS.second x h
    have hsec : (carries is).second = true := by rw [← hT.second]; simp [h]
    unfold secondOf at hx ⊢
    rw [hsecs, hfrac]
    simp only [hsec, Bool.true_eq_false, if_false]
    by_cases hl : tr.t.frac ≥ 1000000000
    · have := hleap hl
      have e : x = 60 := by omega
      simp only [e, if_true, hl]; omega
    · have e : ¬ x = 60 := by omega
      simp only [e, if_false, hl]; omega
  · intro h
    have hsec : (carries is).second = false := by rw [← hT.second]; simp [h]
    unfold secondOf
    rw [hsecs, hfrac]
    simp only [hsec, if_true]; omega
  · intro x h; rw [hS.nano x h, hnv]
  · intro h
    by_cases hn : (carries is).nano = true
    · rcases hT.nano2 hn with h' | h'
      · simp [h] at h'
      · rw [← hnv]; exact h'
    · exact hnone (by simpa using hn)
  · have := hT.hour_div
    rcases hh with h | ⟨_, h⟩
    · exact ne _ _ this (by simp [h])
    · exact ne _ _ this (by simp [h])
  · have := hT.hour_mod
    rcases hh with h | ⟨h, _⟩
    · exact ne _ _ this (by simp [h])
    · exact ne _ _ this (by simp [h])
  · exact ne _ _ hT.minute hm
  · intro h
    have hn : (carries is).nano = true := hT.nano1 ((isSome_true_iff _).mpr h)
    rcases hns with h' | h'
    · rw [hn] at h'; cases h'
    · exact ne _ _ hT.second h'

/-! ### facts about `Spec.carries` -/

theorem foldl_flag_mono (flag : Carries → Bool)
    (hmono : ∀ cr it, flag cr = true → flag (carriesItem cr it) = true) :
    ∀ (is : List Item) (cr : Carries), flag cr = true → flag (is.foldl carriesItem cr) = true := by
  intro is
  induction is with
  | nil => intro cr h; exact h
  | cons it is ih => intro cr h; exact ih _ (hmono cr it h)

/-- an item that sets a flag makes the flag of the whole list -/
theorem carries_mem (flag : Carries → Bool)
    (hmono : ∀ cr it, flag cr = true → flag (carriesItem cr it) = true)
    (it : Item) (hset : ∀ cr, flag (carriesItem cr it) = true) :
    ∀ (is : List Item) (cr : Carries), it ∈ is → flag (is.foldl carriesItem cr) = true := by
  intro is
  induction is with
  | nil => intro cr h; cases h
  | cons a is ih =>
    intro cr h
    rcases List.mem_cons.mp h with rfl | h
    · exact foldl_flag_mono flag hmono is _ (hset cr)
    · exact ih _ h

theorem mono_nano : ∀ cr it, Carries.nano cr = true → Carries.nano (carriesItem cr it) = true := by
  intro cr it h
  cases it with
  | numeric n p => cases n <;> simp [carriesItem, h]
  | fixed f => cases f <;> simp [carriesItem, h]
  | _ => simp [carriesItem, h]
theorem mono_yearDiv : ∀ cr it, Carries.yearDiv cr = true → Carries.yearDiv (carriesItem cr it) = true := by
  intro cr it h
  cases it with
  | numeric n p => cases n <;> simp [carriesItem, h]
  | fixed f => cases f <;> simp [carriesItem, h]
  | _ => simp [carriesItem, h]
theorem mono_yearMod : ∀ cr it, Carries.yearMod cr = true → Carries.yearMod (carriesItem cr it) = true := by
  intro cr it h
  cases it with
  | numeric n p => cases n <;> simp [carriesItem, h]
  | fixed f => cases f <;> simp [carriesItem, h]
  | _ => simp [carriesItem, h]
theorem mono_isoYearDiv : ∀ cr it, Carries.isoYearDiv cr = true → Carries.isoYearDiv (carriesItem cr it) = true := by
  intro cr it h
  cases it with
  | numeric n p => cases n <;> simp [carriesItem, h]
  | fixed f => cases f <;> simp [carriesItem, h]
  | _ => simp [carriesItem, h]
theorem mono_isoYearMod : ∀ cr it, Carries.isoYearMod cr = true → Carries.isoYearMod (carriesItem cr it) = true := by
  intro cr it h
  cases it with
  | numeric n p => cases n <;> simp [carriesItem, h]
  | fixed f => cases f <;> simp [carriesItem, h]
  | _ => simp [carriesItem, h]

theorem frac_item_sets (cr : Carries) (it : Item) (k : Nat) (h : itemFracDigits it = some k) :
    (carriesItem cr it).nano = true := by
  cases it with
  | numeric n p => cases n <;> simp [itemFracDigits] at h <;> simp [carriesItem]
  | fixed f => cases f <;> simp [itemFracDigits] at h <;> simp [carriesItem]
  | _ => simp [itemFracDigits] at h

theorem fracDigits_zero (is : List Item) (h : (carries is).nano = false) : fracDigits is = 0 := by
  have key : ∀ (is : List Item) (cr : Carries) (acc : Nat), (is.foldl carriesItem cr).nano = false →
      is.foldl (fun acc it => max acc ((itemFracDigits it).getD 0)) acc = acc := by
    intro is
    induction is with
    | nil => intro _ _ _; rfl
    | cons it is ih =>
      intro cr acc h
      simp only [List.foldl_cons] at h ⊢
      have hnot : (carriesItem cr it).nano = false := by
        cases hc : (carriesItem cr it).nano with
        | false => rfl
        | true => rw [foldl_flag_mono Carries.nano mono_nano is _ hc] at h; cases h
      have hz : itemFracDigits it = none := by
        cases hk : itemFracDigits it with
        | none => rfl
        | some k => rw [frac_item_sets cr it k hk] at hnot; cases hnot
      rw [hz]
      simp only [Option.getD_none, Nat.max_zero]
      exact ih _ acc h
  exact key is {} 0 h

/-! ### text to fields, for a value's context -/

/-- **parse ∘ format = the value's own fields**, for the proved items under the syntactic family
predicates -/
theorem fields_of_format (c : Ctx) (hcok : CtxOk c) (tr : Truth) (hc : CtxTruth c tr) (hok : TruthOk tr)
    (is : List Item) (text : List Nat) (hp : ∀ it ∈ is, provedItem it = true) (hexp : ∀ it ∈ is, ItemExpr c it)
    (hx : ∀ it ∈ is, ItemTruth tr it) (hsep : separated is = true) (hsafe : spaceSafe is = true)
    (hy : YearOk c is) (hfmt : Format.formatItemsR c.date c.time c.off is = Format.wok text) :
    ∃ p', Parse.parse Parsed.new text is = .ok p' ∧ Supplied p' tr ∧ Tracks p' (carries is) tr.nv := by
  obtain ⟨tks, htk, hflat⟩ := tokens_exist c hcok is text hp hexp hfmt
  have hchain := chain_of_separated c hcok is tks htk hp hexp hsep hsafe hy
  obtain ⟨p', hp', hS, hT⟩ := chain_fields c tr hc hok is tks Parsed.new {} htk hp hx (supplied_new tr) (tracks_new _)
  have hparse := chain2_parse is tks [] Parsed.new hchain
  rw [List.append_nil, hflat, hp'] at hparse
  refine ⟨p', ?_, hS, hT⟩
  unfold Parse.parse
  rw [hparse]
  rfl

/-! ### the side conditions of the chain, from `Spec.expressible` -/

theorem cutFrac_forms (frac : Int) :
    cutFrac frac 9 = frac % 1000000000 ∧ cutFrac frac 6 = frac / 1000 % 1000000 * 1000 ∧
    cutFrac frac 3 = frac / 1000000 % 1000 * 1000000 ∧ cutFrac frac 0 = 0 := by
  unfold cutFrac
  norm_num
  omega

theorem side_conditions (c : Ctx) (tr : Truth) (hc : CtxTruth c tr) (is : List Item)
    (hY : yearExpressible (carries is).year (carries is).yearDiv (carries is).yearMod
      (yearTouchesDigits .year is) tr.Y)
    (hI : yearExpressible (carries is).isoYear (carries is).isoYearDiv (carries is).isoYearMod
      (yearTouchesDigits .isoYear is) tr.IY)
    (hF : ∀ it ∈ is, onSome (itemFracDigits it) fun k => cutFrac tr.t.frac k = tr.nv) :
    (∀ it ∈ is, ItemExpr c it) ∧ (∀ it ∈ is, ItemTruth tr it) ∧ YearOk c is := by
  obtain ⟨_, y2, y3, y4⟩ := hY
  obtain ⟨_, i2, i3, i4⟩ := hI
  obtain ⟨f9, f6, f3, _⟩ := cutFrac_forms tr.t.frac
  have hyv : ∀ v, numVal c .year = some v → v = tr.Y := fun v h => numVal_truth c tr hc .year v h
  have hiv : ∀ v, numVal c .isoYear = some v → v = tr.IY := fun v h => numVal_truth c tr hc .isoYear v h
  refine ⟨fun it hm => ?_, fun it hm => ?_, ⟨fun ht v hv => ?_, fun ht v hv => ?_⟩⟩
  · cases it with
    | numeric n pad =>
      cases n <;> first
        | trivial
        | (intro v hv
           rw [hyv v hv]
           exact y2 (carries_mem Carries.yearDiv mono_yearDiv _ (fun cr => rfl) is {} hm))
        | (intro v hv
           rw [hiv v hv]
           exact i2 (carries_mem Carries.isoYearDiv mono_isoYearDiv _ (fun cr => rfl) is {} hm))
    | _ => trivial
  · have hfr := hF it hm
    cases it with
    | numeric n pad =>
      cases n <;> first
        | trivial
        | exact (y2 (carries_mem Carries.yearDiv mono_yearDiv _ (fun cr => rfl) is {} hm)).1
        | exact y3 (carries_mem Carries.yearMod mono_yearMod _ (fun cr => rfl) is {} hm)
        | exact (i2 (carries_mem Carries.isoYearDiv mono_isoYearDiv _ (fun cr => rfl) is {} hm)).1
        | exact i3 (carries_mem Carries.isoYearMod mono_isoYearMod _ (fun cr => rfl) is {} hm)
        | (simp only [itemFracDigits, onSome] at hfr; rw [f9] at hfr; exact hfr)
    | fixed f =>
      cases f <;> first
        | trivial
        | (simp only [itemFracDigits, onSome] at hfr; rw [f9] at hfr; exact hfr)
        | (simp only [itemFracDigits, onSome] at hfr; rw [f6] at hfr; exact hfr)
        | (simp only [itemFracDigits, onSome] at hfr; rw [f3] at hfr; exact hfr)
    | _ => trivial
  · rw [hyv v hv]; exact y4 ht
  · rw [hiv v hv]; exact i4 ht

/-- ISO fields, weekday and their ranges for an existing day -/
theorem truth_date (Y : Int) (o : Nat) (h : VD Y o) :
    ∃ (IY IW : Int) (wd : Weekday),
      (∃ w, (dateOfYo Y o).iso_week = .ok w ∧ IsoWeek.year w = IY ∧ IsoWeek.week w = IW) ∧
      (dateOfYo Y o).weekday = wd ∧ ((wd.toNat : Nat) : Int) = weekdayOf (dayNumYo Y o) ∧
      -1000000 < IY ∧ IY < 1000000 ∧ 1 ≤ IW ∧ IW ≤ 53 := by
  obtain ⟨_, _, _, _, _, _, _, _, _, _, _, _, _, _, _, _, _, _, w, hw, w1, w2, w3, w4⟩ := date_facts Y o h
  obtain ⟨_, _, _, _, _, hwd, _⟩ := vd_fields Y o h
  exact ⟨_, _, _, ⟨w, hw, rfl, rfl⟩, rfl, hwd, w3, w4, w1, w2⟩

theorem cutFrac_zero (k : Nat) : cutFrac 0 k = 0 := by simp [cutFrac]

theorem tvalid_zero : TValid ⟨0, 0⟩ := by unfold TValid; decide

/-! ### dates -/

/-- **round trip, target `NaiveDate`** (proved items) -/
theorem family_date (is : List Item) (Y : Int) (o : Nat) (hvd : VD Y o) (text : List Nat)
    (hp : ∀ it ∈ is, provedItem it = true) (hU : Unambiguous is .date) (hsafe : spaceSafe is = true)
    (hE : expressible is (.date (dateOfYo Y o)))
    (hfmt : ParseFrom.formatItemsOf (.date (dateOfYo Y o)) is = Format.wok text) :
    ∃ p', Parse.parse Parsed.new text is = .ok p' ∧
      ParseFrom.resolve .date p' = .ok (.ok (.date (dateOfYo Y o))) := by
  obtain ⟨IY, IW, wd, ⟨w, hw, hwy, hwk⟩, hwd, hwdn, iy1, iy2, iw1, iw2⟩ := truth_date Y o hvd
  obtain ⟨fy, _⟩ := date_facts Y o hvd
  let tr : Truth := ⟨Y, o, IY, IW, wd, ⟨0, 0⟩, 0, 0, 0⟩
  let c : Ctx := ⟨some (dateOfYo Y o), none, none⟩
  have hcok : CtxOk c := ⟨fun d h => (by cases h; exact ⟨Y, o, hvd, rfl⟩), fun t h => (by cases h), fun x h => (by cases h)⟩
  have hc : CtxTruth c tr :=
    ⟨fun d h => (by cases h; exact ⟨rfl, hvd, ⟨w, hw, hwy, hwk⟩, hwd⟩), fun t h => (by cases h),
     fun x h => (by cases h), fun v h => (by simp [numVal, c] at h)⟩
  have hok : TruthOk tr :=
    ⟨hvd, ⟨iy1, iy2⟩, ⟨iw1, iw2⟩, tvalid_zero, ⟨by simp [tr], by simp [tr]⟩, ⟨by simp [tr], by simp [tr]⟩, hwdn, ⟨w, hw, hwy, hwk⟩⟩
  obtain ⟨hEy, _, _, _, _⟩ := hE
  simp only [exprYears, shown, onSome, onOk, hw, fy, hwy] at hEy
  obtain ⟨hY, hI⟩ := hEy
  obtain ⟨_, hsep, hg1, hg2, hfull, hnots⟩ := hU
  obtain ⟨hexp, hx, hy⟩ := side_conditions c tr hc is hY hI
    (fun it _ => by cases itemFracDigits it <;> simp [onSome, cutFrac_zero, tr])
  obtain ⟨p', hparse, hS, hT⟩ := fields_of_format c hcok tr hc hok is text hp hexp hx hsep hsafe hy hfmt
  refine ⟨p', hparse, ?_⟩
  have hd := Chrono.Props.C14.date_complete p' (inType_of_supplied p' tr hok hS ⟨by simp [tr], by simp [tr]⟩) Y o hvd
    (dateAgrees_of_supplied p' tr hok hS)
    (group_determinate _ _ _ _ _ _ Y hT.year hT.year_div hT.year_mod hg1 hY.1)
    (fun w' hw' => by
      rw [hw] at hw'; cases hw'
      rw [hwy]
      exact group_determinate _ _ _ _ _ _ IY hT.isoyear hT.isoyear_div hT.isoyear_mod hg2 hI.1)
    (uses_of_tracks p' _ _ hT hfull)
  simp only [ParseFrom.resolve, hd, Parsed.RP.bind]

end Chrono.Proofs.RoundTrip
