/-
  C13, fifth lemma file: from "every supplied field is the value's field" and "the set fields are the
  carried ones" to the hypotheses of C14's completeness theorems, and the round trip per target type.
  Namespace `Chrono.Proofs.RoundTrip`.
-/
import Chrono.Proofs.RoundTripFieldsL
import Chrono.Props.C14

namespace Chrono.Proofs.RoundTrip
open Chrono Chrono.M Chrono.M.Scan Chrono.Spec Chrono.Spec.Fields Chrono.Extracted Chrono.Proofs Chrono.Proofs.ParsedRes

theorem isSome_false_iff {α} (o : Option α) : o.isSome = false ↔ o = none := by cases o <;> simp
theorem isSome_true_iff {α} (o : Option α) : o.isSome = true ↔ o ≠ none := by cases o <;> simp

/-- the record holds values of the Rust field types -/
theorem inType_of_supplied (p : Parsed) (tr : Truth) (hok : TruthOk tr) (hS : Supplied p tr)
    (hts : -10000000000000 ≤ tr.tsv ∧ tr.tsv ≤ 10000000000000) : InType p := by
  obtain ⟨hY1, hY2, ho1, ho2⟩ := hok.vd
  have hMIN : MIN_YEAR = -262143 := rfl
  have hMAX : MAX_YEAR = 262142 := rfl
  obtain ⟨_, _, _, o366, _, _, _, _, m1, m2, d1, d2, _, _, ws1, ws2, wm1, wm2, _⟩ := date_facts tr.Y tr.o hok.vd
  obtain ⟨t1, t2, t3, t4⟩ := hok.t
  have := hok.iy; have := hok.iw; have := hok.nv; have := hok.off
  refine ⟨fun x h => ?_, fun x h => ?_, fun x h => ?_, fun x h => ?_, fun x h => ?_, fun x h => ?_,
    fun x h => ?_, fun x h => ?_, fun x h => ?_, fun x h => ?_, fun x h => ?_, fun x h => ?_,
    fun x h => ?_, fun x h => ?_, fun x h => ?_, fun x h => ?_, fun x h => ?_, fun x h => ?_,
    fun x h => ?_, fun x h => ?_⟩
  · have := hS.year x h; omega
  · have := hS.year_div x h; omega
  · have := hS.year_mod x h; omega
  · have := hS.isoyear x h; omega
  · have := hS.isoyear_div x h; omega
  · have := hS.isoyear_mod x h; omega
  · have := hS.quarter x h; unfold quarterOfMonth at this; omega
  · have := hS.month x h; omega
  · have := hS.week_from_sun x h; omega
  · have := hS.week_from_mon x h; omega
  · have := hS.isoweek x h; omega
  · have := hS.ordinal x h; omega
  · have := hS.day x h; omega
  · have := hS.hour_div x h; unfold hourOf at this; omega
  · have := hS.hour_mod x h; unfold hourOf at this; omega
  · have := hS.minute x h; unfold minuteOf at this; omega
  · have := hS.second x h; unfold secondOf at this; omega
  · have := hS.nano x h; omega
  · have := hS.timestamp x h; omega
  · have := hS.offset x h; omega

theorem dateAgrees_of_supplied (p : Parsed) (tr : Truth) (hok : TruthOk tr) (hS : Supplied p tr) :
    DateAgrees p tr.Y tr.o := by
  obtain ⟨w, hw, hy, hk⟩ := hok.iso
  refine ⟨hS.year, ⟨hS.year_div, hS.year_mod⟩, hS.quarter, hS.month, hS.week_from_sun, hS.week_from_mon,
    fun x h => ?_, hS.ordinal, hS.day, w, hw, ?_, ⟨?_, ?_⟩, ?_⟩
  · rw [hS.weekday x h]; exact hok.wd
  · rw [hy]; exact hS.isoyear
  · rw [hy]; exact hS.isoyear_div
  · rw [hy]; exact hS.isoyear_mod
  · rw [hk]; exact hS.isoweek

/-- a year group is determinate when it is usable and a lone two-digit year lies in the pivot range -/
theorem group_determinate (y q r : Option Int) (by_ bq br : Bool) (yr : Int)
    (hy : y.isSome = by_) (hq : q.isSome = bq) (hr : r.isSome = br)
    (hu : groupUsable by_ bq br = true) (hx : by_ = false → bq = false → br = true → 1970 ≤ yr ∧ yr ≤ 2069) :
    GroupDeterminate y q r yr := by
  refine ⟨?_, fun h1 h2 h3 => hx ?_ ?_ ?_⟩
  · rintro ⟨h1, h2, h3⟩
    subst h1 h3
    have : q.isSome = true := (isSome_true_iff q).mpr h2
    simp only [Option.isSome_none] at hy hr
    rw [← hy, ← hr, ← hq, this] at hu
    simp [groupUsable] at hu
  · rw [← hy]; subst h1; rfl
  · rw [← hq]; subst h2; rfl
  · rw [← hr]; exact (isSome_true_iff r).mpr h3

theorem uses_of_tracks (p : Parsed) (cr : Carries) (nv : Int) (hT : Tracks p cr nv) (hf : fullDate cr = true) :
    UsesCalendar p ∨ UsesIso p := by
  have y := hT.year; have r := hT.year_mod; have m := hT.month; have d := hT.day; have o := hT.ordinal
  have ws := hT.week_from_sun; have wm := hT.week_from_mon; have wd := hT.weekday
  have iy := hT.isoyear; have ir := hT.isoyear_mod; have iw := hT.isoweek
  simp only [fullDate, yearGroup, Bool.or_eq_true, Bool.and_eq_true] at hf
  have ne : ∀ {α} (o : Option α) (b : Bool), o.isSome = b → b = true → o ≠ none := by
    intro α o b h hb; rw [← h] at hb; exact (isSome_true_iff o).mp hb
  rcases hf with ⟨hg, hc⟩ | ⟨⟨hg, hw⟩, hwd⟩
  · left
    refine ⟨?_, ?_⟩
    · rcases hg with h | h
      · exact Or.inl (ne _ _ y h)
      · exact Or.inr (ne _ _ r h)
    · rcases hc with ((⟨h1, h2⟩ | h) | ⟨h1, h2⟩) | ⟨h1, h2⟩
      · exact Or.inl ⟨ne _ _ m h1, ne _ _ d h2⟩
      · exact Or.inr (Or.inl (ne _ _ o h))
      · exact Or.inr (Or.inr (Or.inl ⟨ne _ _ ws h1, ne _ _ wd h2⟩))
      · exact Or.inr (Or.inr (Or.inr ⟨ne _ _ wm h1, ne _ _ wd h2⟩))
  · right
    refine ⟨?_, ne _ _ iw hw, ne _ _ wd hwd⟩
    rcases hg with h | h
    · exact Or.inl (ne _ _ iy h)
    · exact Or.inr (ne _ _ ir h)

theorem cutFrac_bounds (frac : Int) (k : Nat) (h : 0 ≤ frac) :
    0 ≤ cutFrac frac k ∧ cutFrac frac k ≤ frac % 1000000000 := by
  unfold cutFrac
  have hu : (0 : Int) < ((10 ^ (9 - k) : Nat) : Int) := by
    have : 0 < 10 ^ (9 - k) := Nat.pow_pos (by omega)
    exact_mod_cast this
  have hx : 0 ≤ frac % 1000000000 := by omega
  generalize frac % 1000000000 = x at *
  generalize ((10 ^ (9 - k) : Nat) : Int) = u at *
  exact ⟨Int.mul_nonneg (Int.ediv_nonneg hx (by omega)) (by omega), Int.ediv_mul_le x (by omega)⟩

/-- the time the round trip must return is one the public constructors build, agrees with the record
on every field, reads 0 where the record has no field, and the record is sufficient -/
theorem time_of_supplied (is : List Item) (p : Parsed) (tr : Truth) (hok : TruthOk tr) (hS : Supplied p tr)
    (hT : Tracks p (carries is) tr.nv) (hfull : fullTime (carries is) = true)
    (hleap : 1000000000 ≤ tr.t.frac → tr.t.secs % 60 = 59)
    (hnv : tr.nv = (truncTime is tr.t).frac % 1000000000)
    (hnone : (carries is).nano = false → (truncTime is tr.t).frac % 1000000000 = 0) :
    TStrict (truncTime is tr.t) ∧ TimeAgrees p (truncTime is tr.t) ∧ TimeSufficient p := by
  obtain ⟨t1, t2, t3, t4⟩ := hok.t
  obtain ⟨c1, c2⟩ := cutFrac_bounds tr.t.frac (fracDigits is) t3
  have hsecs : (truncTime is tr.t).secs = (if (carries is).second = false then tr.t.secs / 60 * 60 else tr.t.secs) := by
    by_cases hs : (carries is).second = false <;> simp [truncTime, hs]
  have hfrac : (truncTime is tr.t).frac = (if (carries is).second = false then 0 else
      (if tr.t.frac ≥ 1000000000 then 1000000000 + cutFrac tr.t.frac (fracDigits is) else cutFrac tr.t.frac (fracDigits is))) := by
    by_cases hs : (carries is).second = false <;> simp [truncTime, hs]
  simp only [fullTime, Bool.and_eq_true, Bool.or_eq_true, Bool.not_eq_true'] at hfull
  obtain ⟨⟨hh, hm⟩, hns⟩ := hfull
  have ne : ∀ {α} (o : Option α) (b : Bool), o.isSome = b → b = true → o ≠ none := by
    intro α o b h hb; rw [← h] at hb; exact (isSome_true_iff o).mp hb
  refine ⟨?_, ⟨?_, ?_, ?_, ⟨?_, ?_⟩, ⟨?_, ?_⟩⟩, ⟨?_, ?_, ?_, ?_⟩⟩
  · unfold TStrict TValid
    rw [hsecs, hfrac]
    by_cases hs : (carries is).second = false
    · simp only [hs, if_true]; omega
    · simp only [hs, if_false]; split <;> omega
  · intro x h; rw [hS.hour_div x h]; unfold hourOf; rw [hsecs]; split <;> omega
  · intro x h; rw [hS.hour_mod x h]; unfold hourOf; rw [hsecs]; split <;> omega
  · intro x h; rw [hS.minute x h]; unfold minuteOf; rw [hsecs]; split <;> omega
  · intro x h
    have hx := hS.second x h
    have hsec : (carries is).second = true := by rw [← hT.second]; simp [h]
    unfold secondOf at hx ⊢
    rw [hsecs, hfrac]
    simp only [hsec, Bool.true_eq_false, if_false]
    by_cases hl : tr.t.frac ≥ 1000000000
    · have := hleap hl
      have e : x = 60 := by omega
      simp only [e, if_true, hl]; omega
    · have e : ¬ x = 60 := by omega
      simp only [e, if_false, hl]; omega
  · intro h
    have hsec : (carries is).second = false := by rw [← hT.second]; simp [h]
    unfold secondOf
    rw [hsecs, hfrac]
    simp only [hsec, if_true]; omega
  · intro x h; rw [hS.nano x h, hnv]
  · intro h
    by_cases hn : (carries is).nano = true
    · rcases hT.nano2 hn with h' | h'
      · simp [h] at h'
      · rw [← hnv]; exact h'
    · exact hnone (by simpa using hn)
  · have := hT.hour_div
    rcases hh with h | ⟨_, h⟩
    · exact ne _ _ this (by simp [h])
    · exact ne _ _ this (by simp [h])
  · have := hT.hour_mod
    rcases hh with h | ⟨h, _⟩
    · exact ne _ _ this (by simp [h])
    · exact ne _ _ this (by simp [h])
  · exact ne _ _ hT.minute hm
  · intro h
    have hn : (carries is).nano = true := hT.nano1 ((isSome_true_iff _).mpr h)
    rcases hns with h' | h'
    · rw [hn] at h'; cases h'
    · exact ne _ _ hT.second h'

/-! ### facts about `Spec.carries` -/

theorem foldl_flag_mono (flag : Carries → Bool)
    (hmono : ∀ cr it, flag cr = true → flag (carriesItem cr it) = true) :
    ∀ (is : List Item) (cr : Carries), flag cr = true → flag (is.foldl carriesItem cr) = true := by
  intro is
  induction is with
  | nil => intro cr h; exact h
  | cons it is ih => intro cr h; exact ih _ (hmono cr it h)

/-- an item that sets a flag makes the flag of the whole list -/
theorem carries_mem (flag : Carries → Bool)
    (hmono : ∀ cr it, flag cr = true → flag (carriesItem cr it) = true)
    (it : Item) (hset : ∀ cr, flag (carriesItem cr it) = true) :
    ∀ (is : List Item) (cr : Carries), it ∈ is → flag (is.foldl carriesItem cr) = true := by
  intro is
  induction is with
  | nil => intro cr h; cases h
  | cons a is ih =>
    intro cr h
    rcases List.mem_cons.mp h with rfl | h
    · exact foldl_flag_mono flag hmono is _ (hset cr)
    · exact ih _ h

theorem mono_nano : ∀ cr it, Carries.nano cr = true → Carries.nano (carriesItem cr it) = true := by
  intro cr it h
  cases it with
  | numeric n p => cases n <;> simp [carriesItem, h]
  | fixed f => cases f <;> simp [carriesItem, h]
  | _ => simp [carriesItem, h]
theorem mono_yearDiv : ∀ cr it, Carries.yearDiv cr = true → Carries.yearDiv (carriesItem cr it) = true := by
  intro cr it h
  cases it with
  | numeric n p => cases n <;> simp [carriesItem, h]
  | fixed f => cases f <;> simp [carriesItem, h]
  | _ => simp [carriesItem, h]
theorem mono_yearMod : ∀ cr it, Carries.yearMod cr = true → Carries.yearMod (carriesItem cr it) = true := by
  intro cr it h
  cases it with
  | numeric n p => cases n <;> simp [carriesItem, h]
  | fixed f => cases f <;> simp [carriesItem, h]
  | _ => simp [carriesItem, h]
theorem mono_isoYearDiv : ∀ cr it, Carries.isoYearDiv cr = true → Carries.isoYearDiv (carriesItem cr it) = true := by
  intro cr it h
  cases it with
  | numeric n p => cases n <;> simp [carriesItem, h]
  | fixed f => cases f <;> simp [carriesItem, h]
  | _ => simp [carriesItem, h]
theorem mono_isoYearMod : ∀ cr it, Carries.isoYearMod cr = true → Carries.isoYearMod (carriesItem cr it) = true := by
  intro cr it h
  cases it with
  | numeric n p => cases n <;> simp [carriesItem, h]
  | fixed f => cases f <;> simp [carriesItem, h]
  | _ => simp [carriesItem, h]

theorem frac_item_sets (cr : Carries) (it : Item) (k : Nat) (h : itemFracDigits it = some k) :
    (carriesItem cr it).nano = true := by
  cases it with
  | numeric n p => cases n <;> simp [itemFracDigits] at h <;> simp [carriesItem]
  | fixed f => cases f <;> simp [itemFracDigits] at h <;> simp [carriesItem]
  | _ => simp [itemFracDigits] at h

theorem fracDigits_zero (is : List Item) (h : (carries is).nano = false) : fracDigits is = 0 := by
  have key : ∀ (is : List Item) (cr : Carries) (acc : Nat), (is.foldl carriesItem cr).nano = false →
      is.foldl (fun acc it => max acc ((itemFracDigits it).getD 0)) acc = acc := by
    intro is
    induction is with
    | nil => intro _ _ _; rfl
    | cons it is ih =>
      intro cr acc h
      simp only [List.foldl_cons] at h ⊢
      have hnot : (carriesItem cr it).nano = false := by
        cases hc : (carriesItem cr it).nano with
        | false => rfl
        | true => rw [foldl_flag_mono Carries.nano mono_nano is _ hc] at h; cases h
      have hz : itemFracDigits it = none := by
        cases hk : itemFracDigits it with
        | none => rfl
        | some k => rw [frac_item_sets cr it k hk] at hnot; cases hnot
      rw [hz]
      simp only [Option.getD_none, Nat.max_zero]
      exact ih _ acc h
  exact key is {} 0 h

/-! ### text to fields, for a value's context -/

/-- **parse ∘ format = the value's own fields**, for the proved items under the syntactic family
predicates -/
theorem fields_of_format (c : Ctx) (hcok : CtxOk c) (tr : Truth) (hc : CtxTruth c tr) (hok : TruthOk tr)
    (is : List Item) (text : List Nat) (hp : ∀ it ∈ is, provedItem it = true) (hexp : ∀ it ∈ is, ItemExpr c it)
    (hx : ∀ it ∈ is, ItemTruth tr it) (hsep : separated is = true) (hsafe : spaceSafe is = true)
    (hy : YearOk c is) (hfmt : Format.formatItemsR c.date c.time c.off is = Format.wok text) :
    ∃ p', Parse.parse Parsed.new text is = .ok p' ∧ Supplied p' tr ∧ Tracks p' (carries is) tr.nv := by
  obtain ⟨tks, htk, hflat⟩ := tokens_exist c hcok is text hp hexp hfmt
  have hchain := chain_of_separated c hcok is tks htk hp hexp hsep hsafe hy
  obtain ⟨p', hp', hS, hT⟩ := chain_fields c tr hc hok is tks Parsed.new {} htk hp hx (supplied_new tr) (tracks_new _)
  have hparse := chain2_parse is tks [] Parsed.new hchain
  rw [List.append_nil, hflat, hp'] at hparse
  refine ⟨p', ?_, hS, hT⟩
  unfold Parse.parse
  rw [hparse]
  rfl

/-! ### the side conditions of the chain, from `Spec.expressible` -/

theorem cutFrac_forms (frac : Int) :
    cutFrac frac 9 = frac % 1000000000 ∧ cutFrac frac 6 = frac / 1000 % 1000000 * 1000 ∧
    cutFrac frac 3 = frac / 1000000 % 1000 * 1000000 ∧ cutFrac frac 0 = 0 := by
  unfold cutFrac
  norm_num
  omega

theorem side_conditions (c : Ctx) (tr : Truth) (hc : CtxTruth c tr) (is : List Item)
    (hY : yearExpressible (carries is).year (carries is).yearDiv (carries is).yearMod
      (yearTouchesDigits .year is) tr.Y)
    (hI : yearExpressible (carries is).isoYear (carries is).isoYearDiv (carries is).isoYearMod
      (yearTouchesDigits .isoYear is) tr.IY)
    (hF : ∀ it ∈ is, onSome (itemFracDigits it) fun k => cutFrac tr.t.frac k = tr.nv) :
    (∀ it ∈ is, ItemExpr c it) ∧ (∀ it ∈ is, ItemTruth tr it) ∧ YearOk c is := by
  obtain ⟨_, y2, y3, y4⟩ := hY
  obtain ⟨_, i2, i3, i4⟩ := hI
  obtain ⟨f9, f6, f3, _⟩ := cutFrac_forms tr.t.frac
  have hyv : ∀ v, numVal c .year = some v → v = tr.Y := fun v h => numVal_truth c tr hc .year v h
  have hiv : ∀ v, numVal c .isoYear = some v → v = tr.IY := fun v h => numVal_truth c tr hc .isoYear v h
  refine ⟨fun it hm => ?_, fun it hm => ?_, ⟨fun ht v hv => ?_, fun ht v hv => ?_⟩⟩
  · cases it with
    | numeric n pad =>
      cases n <;> first
        | trivial
        | (intro v hv
           rw [hyv v hv]
           exact y2 (carries_mem Carries.yearDiv mono_yearDiv _ (fun cr => rfl) is {} hm))
        | (intro v hv
           rw [hiv v hv]
           exact i2 (carries_mem Carries.isoYearDiv mono_isoYearDiv _ (fun cr => rfl) is {} hm))
    | _ => trivial
  · have hfr := hF it hm
    cases it with
    | numeric n pad =>
      cases n <;> first
        | trivial
        | exact (y2 (carries_mem Carries.yearDiv mono_yearDiv _ (fun cr => rfl) is {} hm)).1
        | exact y3 (carries_mem Carries.yearMod mono_yearMod _ (fun cr => rfl) is {} hm)
        | exact (i2 (carries_mem Carries.isoYearDiv mono_isoYearDiv _ (fun cr => rfl) is {} hm)).1
        | exact i3 (carries_mem Carries.isoYearMod mono_isoYearMod _ (fun cr => rfl) is {} hm)
        | (simp only [itemFracDigits, onSome] at hfr; rw [f9] at hfr; exact hfr)
    | fixed f =>
      cases f <;> first
        | trivial
        | (simp only [itemFracDigits, onSome] at hfr; rw [f9] at hfr; exact hfr)
        | (simp only [itemFracDigits, onSome] at hfr; rw [f6] at hfr; exact hfr)
        | (simp only [itemFracDigits, onSome] at hfr; rw [f3] at hfr; exact hfr)
    | _ => trivial
  · rw [hyv v hv]; exact y4 ht
  · rw [hiv v hv]; exact i4 ht

/-- ISO fields, weekday and their ranges for an existing day -/
theorem truth_date (Y : Int) (o : Nat) (h : VD Y o) :
    ∃ (IY IW : Int) (wd : Weekday),
      (∃ w, (dateOfYo Y o).iso_week = .ok w ∧ IsoWeek.year w = IY ∧ IsoWeek.week w = IW) ∧
      (dateOfYo Y o).weekday = wd ∧ ((wd.toNat : Nat) : Int) = weekdayOf (dayNumYo Y o) ∧
      -1000000 < IY ∧ IY < 1000000 ∧ 1 ≤ IW ∧ IW ≤ 53 := by
  obtain ⟨_, _, _, _, _, _, _, _, _, _, _, _, _, _, _, _, _, _, w, hw, w1, w2, w3, w4⟩ := date_facts Y o h
  obtain ⟨_, _, _, _, _, hwd, _⟩ := vd_fields Y o h
  exact ⟨_, _, _, ⟨w, hw, rfl, rfl⟩, rfl, hwd, w3, w4, w1, w2⟩

/-- the leap clause of `Spec.expressible` (`exprLeapFor`) is the plain one for every format with a full
time (a timestamp-only format has no minute item) -/
theorem exprLeap_of_for (is : List Item) (v : ParseFrom.Value) (hft : fullTime (carries is) = true)
    (h : exprLeapFor is v) : exprLeap v := by
  rcases h with h | h
  · exfalso
    generalize carries is = c at h hft
    cases c
    simp only [stampOnly, beq_iff_eq, Carries.mk.injEq] at h
    simp [fullTime, h] at hft
  · exact h

theorem cutFrac_zero (k : Nat) : cutFrac 0 k = 0 := by simp [cutFrac]

theorem tvalid_zero : TValid ⟨0, 0⟩ := by unfold TValid; decide

/-! ### dates -/

/-- **round trip, target `NaiveDate`** (proved items) -/
theorem family_date (is : List Item) (Y : Int) (o : Nat) (hvd : VD Y o) (text : List Nat)
    (hp : ∀ it ∈ is, provedItem it = true) (hU : Unambiguous is .date) (hsafe : spaceSafe is = true)
    (hE : expressible is (.date (dateOfYo Y o)))
    (hfmt : ParseFrom.formatItemsOf (.date (dateOfYo Y o)) is = Format.wok text) :
    ∃ p', Parse.parse Parsed.new text is = .ok p' ∧
      ParseFrom.resolve .date p' = .ok (.ok (.date (dateOfYo Y o))) := by
  obtain ⟨IY, IW, wd, ⟨w, hw, hwy, hwk⟩, hwd, hwdn, iy1, iy2, iw1, iw2⟩ := truth_date Y o hvd
  obtain ⟨fy, _⟩ := date_facts Y o hvd
  let tr : Truth := ⟨Y, o, IY, IW, wd, ⟨0, 0⟩, 0, 0, 0⟩
  let c : Ctx := ⟨some (dateOfYo Y o), none, none⟩
  have hcok : CtxOk c := ⟨fun d h => (by cases h; exact ⟨Y, o, hvd, rfl⟩), fun t h => (by cases h), fun x h => (by cases h)⟩
  have hc : CtxTruth c tr :=
    ⟨fun d h => (by cases h; exact ⟨rfl, hvd, ⟨w, hw, hwy, hwk⟩, hwd⟩), fun t h => (by cases h),
     fun x h => (by cases h), fun v h => (by simp [numVal, c] at h)⟩
  have hok : TruthOk tr :=
    ⟨hvd, ⟨iy1, iy2⟩, ⟨iw1, iw2⟩, tvalid_zero, ⟨by simp [tr], by simp [tr]⟩, ⟨by simp [tr], by simp [tr]⟩, hwdn, ⟨w, hw, hwy, hwk⟩⟩
  obtain ⟨hEy, _, _, _, _⟩ := hE
  simp only [exprYears, shown, onSome, onOk, hw, fy, hwy] at hEy
  obtain ⟨hY, hI⟩ := hEy
  obtain ⟨_, ⟨hsep, _⟩, hg1, hg2, hfull, hnots⟩ := hU
  obtain ⟨hexp, hx, hy⟩ := side_conditions c tr hc is hY hI
    (fun it _ => by cases itemFracDigits it <;> simp [onSome, cutFrac_zero, tr])
  obtain ⟨p', hparse, hS, hT⟩ := fields_of_format c hcok tr hc hok is text hp hexp hx hsep hsafe hy hfmt
  refine ⟨p', hparse, ?_⟩
  have hd := Chrono.Props.C14.date_complete p' (inType_of_supplied p' tr hok hS ⟨by simp [tr], by simp [tr]⟩) Y o hvd
    (dateAgrees_of_supplied p' tr hok hS)
    (group_determinate _ _ _ _ _ _ Y hT.year hT.year_div hT.year_mod hg1 hY.1)
    (fun w' hw' => by
      rw [hw] at hw'; cases hw'
      rw [hwy]
      exact group_determinate _ _ _ _ _ _ IY hT.isoyear hT.isoyear_div hT.isoyear_mod hg2 hI.1)
    (uses_of_tracks p' _ _ hT hfull)
  simp only [ParseFrom.resolve, hd, Parsed.RP.bind]

/-! ### times -/

theorem yearExpressible_1970 (a b c d : Bool) : yearExpressible a b c d 1970 := by
  unfold yearExpressible
  refine ⟨fun _ _ _ => by omega, fun _ => by omega, fun _ => by omega, fun _ => by omega⟩

/-- the fraction the format prints, as the nanosecond field every fraction item must carry -/
theorem frac_conditions (is : List Item) (t : Time) (htv : TValid t) (hfull : fullTime (carries is) = true)
    (hEf : ∀ it ∈ is, onSome (itemFracDigits it) fun k => cutFrac t.frac k = cutFrac t.frac (fracDigits is)) :
    (∀ it ∈ is, onSome (itemFracDigits it) fun k => cutFrac t.frac k = (truncTime is t).frac % 1000000000) ∧
    ((carries is).nano = false → (truncTime is t).frac % 1000000000 = 0) ∧
    0 ≤ (truncTime is t).frac % 1000000000 ∧ (truncTime is t).frac % 1000000000 ≤ 999999999 := by
  obtain ⟨_, _, t3, t4⟩ := htv
  obtain ⟨c1, c2⟩ := cutFrac_bounds t.frac (fracDigits is) t3
  have hfrac : (truncTime is t).frac = (if (carries is).second = false then 0 else
      (if t.frac ≥ 1000000000 then 1000000000 + cutFrac t.frac (fracDigits is) else cutFrac t.frac (fracDigits is))) := by
    by_cases hs : (carries is).second = false <;> simp [truncTime, hs]
  have hmod : (carries is).second = true → (truncTime is t).frac % 1000000000 = cutFrac t.frac (fracDigits is) := by
    intro hs
    rw [hfrac]
    simp only [hs, Bool.true_eq_false, if_false]
    split <;> omega
  refine ⟨fun it hm => ?_, fun hn => ?_, by omega, by omega⟩
  · have h := hEf it hm
    cases hk : itemFracDigits it with
    | none => simp [onSome]
    | some k =>
      rw [hk] at h
      simp only [onSome] at h ⊢
      have hnano : (carries is).nano = true :=
        carries_mem Carries.nano mono_nano it (fun cr => frac_item_sets cr it k hk) is {} hm
      have hsec : (carries is).second = true := by
        simp only [fullTime, Bool.and_eq_true, Bool.or_eq_true, Bool.not_eq_true'] at hfull
        rcases hfull.2 with h' | h'
        · rw [hnano] at h'; cases h'
        · exact h'
      rw [hmod hsec]; exact h
  · rw [hfrac]
    have h0 : cutFrac t.frac (fracDigits is) = 0 := by
      rw [fracDigits_zero is hn]; exact (cutFrac_forms t.frac).2.2.2
    split
    · rfl
    · rw [h0]; split <;> omega

/-- **round trip, target `NaiveTime`** (proved items): the result is the time cut to the printed
precision -/
theorem family_time (is : List Item) (t : Time) (htv : TValid t) (text : List Nat)
    (hp : ∀ it ∈ is, provedItem it = true) (hU : Unambiguous is .time) (hsafe : spaceSafe is = true)
    (hE : expressible is (.time t))
    (hfmt : ParseFrom.formatItemsOf (.time t) is = Format.wok text) :
    ∃ p', Parse.parse Parsed.new text is = .ok p' ∧
      ParseFrom.resolve .time p' = .ok (.ok (.time (truncTime is t))) := by
  have hvd : VD 1970 1 := by unfold VD; decide
  have hw : (dateOfYo 1970 1).iso_week = .ok 2017306 := by decide +kernel
  have hwdn : ((Weekday.thu.toNat : Nat) : Int) = weekdayOf (dayNumYo 1970 ((1 : Nat) : Int)) := by decide
  have hiy : IsoWeek.year 2017306 = 1970 := by decide
  have hiw : IsoWeek.week 2017306 = 1 := by decide
  obtain ⟨_, ⟨hsep, _⟩, hg1, hg2, hfull⟩ := hU
  obtain ⟨_, hEl, _, _, hEf⟩ := hE
  have hEl := exprLeap_of_for is _ hfull hEl
  simp only [exprLeap, shown, onSome] at hEl
  simp only [exprFrac, shown, onSome] at hEf
  obtain ⟨hF, hnone, nv1, nv2⟩ := frac_conditions is t htv hfull hEf
  let tr : Truth := ⟨1970, 1, 1970, 1, .thu, t, (truncTime is t).frac % 1000000000, 0, 0⟩
  let c : Ctx := ⟨none, some t, none⟩
  have hcok : CtxOk c := ⟨fun d h => (by cases h), fun t' h => (by cases h; exact htv), fun x h => (by cases h)⟩
  have hc : CtxTruth c tr :=
    ⟨fun d h => (by cases h), fun t' h => (by cases h; exact ⟨rfl, htv⟩), fun x h => (by cases h),
     fun v h => (by simp [numVal, c] at h)⟩
  have hok : TruthOk tr :=
    ⟨hvd, ⟨by simp [tr], by simp [tr]⟩, ⟨by simp [tr], by simp [tr]⟩, htv, ⟨nv1, nv2⟩,
     ⟨by simp [tr], by simp [tr]⟩, hwdn, ⟨_, hw, hiy, hiw⟩⟩
  obtain ⟨hexp, hx, hy⟩ := side_conditions c tr hc is (yearExpressible_1970 _ _ _ _) (yearExpressible_1970 _ _ _ _) hF
  obtain ⟨p', hparse, hS, hT⟩ := fields_of_format c hcok tr hc hok is text hp hexp hx hsep hsafe hy hfmt
  refine ⟨p', hparse, ?_⟩
  obtain ⟨h1, h2, h3⟩ := time_of_supplied is p' tr hok hS hT hfull hEl rfl hnone
  have ht := Chrono.Props.C14.time_complete p' (truncTime is t) h1 h2 h3
  simp only [ParseFrom.resolve, ht, Parsed.RP.bind]

/-! ### date-times -/

/-- the common part of the two date-time targets: the record resolves (through
`to_naive_datetime_with_offset off'`) to the local reading cut to the printed precision -/
theorem family_datetime_core (is : List Item) (Y : Int) (o : Nat) (hvd : VD Y o) (t : Time) (htv : TValid t)
    (c : Ctx) (hcd : c.date = some (dateOfYo Y o)) (hct : c.time = some t)
    (hco : ∀ x, c.off = some x → -86400 < x.2 ∧ x.2 < 86400)
    (offv off' : Int) (hoffv : ∀ x, c.off = some x → offv = roundedOffset x.2)
    (hoffv' : -86400 ≤ offv ∧ offv ≤ 86400) (hoff' : -86400 < off' ∧ off' < 86400)
    (text : List Nat) (hp : ∀ it ∈ is, provedItem it = true)
    (hsep : separated is = true) (hg1 : groupUsable (carries is).year (carries is).yearDiv (carries is).yearMod = true)
    (hg2 : groupUsable (carries is).isoYear (carries is).isoYearDiv (carries is).isoYearMod = true)
    (hfd : fullDate (carries is) = true) (hft : fullTime (carries is) = true) (hsafe : spaceSafe is = true)
    (hY : ∀ w, (dateOfYo Y o).iso_week = .ok w →
      yearExpressible (carries is).year (carries is).yearDiv (carries is).yearMod (yearTouchesDigits .year is) Y ∧
      yearExpressible (carries is).isoYear (carries is).isoYearDiv (carries is).isoYearMod
        (yearTouchesDigits .isoYear is) (IsoWeek.year w))
    (hEl : 1000000000 ≤ t.frac → t.secs % 60 = 59)
    (hEf : ∀ it ∈ is, onSome (itemFracDigits it) fun k => cutFrac t.frac k = cutFrac t.frac (fracDigits is))
    (hstampOff : (carries is).timestamp = true → off' = (c.off.map (·.2)).getD 0)
    (hstampSec : (carries is).timestamp = true → (carries is).second = false → t.secs % 60 = 0)
    (hfmt : Format.formatItemsR c.date c.time c.off is = Format.wok text) :
    ∃ p', Parse.parse Parsed.new text is = .ok p' ∧
      Parsed.to_naive_datetime_with_offset p' off' = .ok (.ok ⟨dateOfYo Y o, truncTime is t⟩) ∧
      (∀ x, p'.offset = some x → x = offv) ∧ p'.offset.isSome = (carries is).offset ∧
      p'.timestamp.isSome = (carries is).timestamp := by
  obtain ⟨IY, IW, wd, ⟨w, hw, hwy, hwk⟩, hwd, hwdn, iy1, iy2, iw1, iw2⟩ := truth_date Y o hvd
  obtain ⟨s1, s2, s3⟩ := ParsedRes.timestamp_spec Y o t hvd htv
  obtain ⟨hYe, hIe⟩ := hY w hw
  rw [hwy] at hIe
  obtain ⟨hF, hnone, nv1, nv2⟩ := frac_conditions is t htv hft hEf
  have hoffr : -86400 < (c.off.map (·.2)).getD 0 ∧ (c.off.map (·.2)).getD 0 < 86400 := by
    cases ho : c.off with
    | none => simp
    | some x => simpa using hco x ho
  let tr : Truth := ⟨Y, o, IY, IW, wd, t, (truncTime is t).frac % 1000000000, offv,
    timestampIs.instSecsLocal ⟨dateOfYo Y o, t⟩ - (c.off.map (·.2)).getD 0⟩
  have hcok : CtxOk c := ⟨fun d h => (by rw [hcd] at h; cases h; exact ⟨Y, o, hvd, rfl⟩),
    fun t' h => (by rw [hct] at h; cases h; exact htv), hco⟩
  have hc : CtxTruth c tr :=
    ⟨fun d h => (by rw [hcd] at h; cases h; exact ⟨rfl, hvd, ⟨w, hw, hwy, hwk⟩, hwd⟩),
     fun t' h => (by rw [hct] at h; cases h; exact ⟨rfl, htv⟩),
     fun x h => ⟨hoffv x h, hco x h⟩,
     fun v h => (by simp only [numVal, hcd, hct, s1] at h; simpa [tr] using h.symm)⟩
  have hok : TruthOk tr := ⟨hvd, ⟨iy1, iy2⟩, ⟨iw1, iw2⟩, htv, ⟨nv1, nv2⟩, hoffv', hwdn, ⟨w, hw, hwy, hwk⟩⟩
  obtain ⟨hexp, hx, hy⟩ := side_conditions c tr hc is hYe hIe hF
  obtain ⟨p', hparse, hS, hT⟩ := fields_of_format c hcok tr hc hok is text hp hexp hx hsep hsafe hy hfmt
  refine ⟨p', hparse, ?_, hS.offset, hT.offset, hT.timestamp⟩
  obtain ⟨h1, h2, h3⟩ := time_of_supplied is p' tr hok hS hT hft hEl rfl hnone
  have hts : -10000000000000 ≤ tr.tsv ∧ tr.tsv ≤ 10000000000000 := by simp only [tr]; omega
  refine Chrono.Props.C14.datetime_complete_fields p' (inType_of_supplied p' tr hok hS hts) off' (by omega)
    Y o (truncTime is t) hvd (dateAgrees_of_supplied p' tr hok hS)
    (group_determinate _ _ _ _ _ _ Y hT.year hT.year_div hT.year_mod hg1 hYe.1)
    (fun w' hw' => by
      rw [hw] at hw'; cases hw'
      rw [hwy]
      exact group_determinate _ _ _ _ _ _ IY hT.isoyear hT.isoyear_div hT.isoyear_mod hg2 hIe.1)
    (uses_of_tracks p' _ _ hT hfd) h1 h2 h3 ?_
  intro g hg
  left
  have hcar : (carries is).timestamp = true := by rw [← hT.timestamp]; simp [hg]
  have hg' : g = timestampIs.instSecsLocal ⟨dateOfYo Y o, t⟩ - (c.off.map (·.2)).getD 0 := hS.timestamp g hg
  rw [hg', hstampOff hcar]
  have hsecs : (truncTime is t).secs = t.secs := by
    by_cases hs : (carries is).second = false
    · have := hstampSec hcar hs
      simp only [truncTime, hs, if_true]; omega
    · simp [truncTime, hs]
  simp only [timestampIs.instSecsLocal, hsecs]

/-- **round trip, target `NaiveDateTime`**, formats with a full date and a full time (proved items) -/
theorem family_naive (is : List Item) (Y : Int) (o : Nat) (hvd : VD Y o) (t : Time) (htv : TValid t)
    (text : List Nat) (hp : ∀ it ∈ is, provedItem it = true) (hU : Unambiguous is .naive)
    (hfd : fullDate (carries is) = true) (hft : fullTime (carries is) = true) (hsafe : spaceSafe is = true)
    (hE : expressible is (.naive ⟨dateOfYo Y o, t⟩))
    (hfmt : ParseFrom.formatItemsOf (.naive ⟨dateOfYo Y o, t⟩) is = Format.wok text) :
    ∃ p', Parse.parse Parsed.new text is = .ok p' ∧
      ParseFrom.resolve .naive p' = .ok (.ok (.naive ⟨dateOfYo Y o, truncTime is t⟩)) := by
  obtain ⟨fy, _⟩ := date_facts Y o hvd
  obtain ⟨_, ⟨hsep, _⟩, hg1, hg2, _⟩ := hU
  obtain ⟨hEy, hEl, _, hEs, hEf⟩ := hE
  have hEl := exprLeap_of_for is _ hft hEl
  simp only [exprLeap, shown, onSome] at hEl
  simp only [exprFrac, shown, onSome] at hEf
  simp only [exprYears, shown, onSome, fy] at hEy
  simp only [exprStamp, shown, onSome] at hEs
  obtain ⟨p', h1, h2, _⟩ := family_datetime_core is Y o hvd t htv ⟨some (dateOfYo Y o), some t, none⟩ rfl rfl
    (fun x h => by cases h) 0 0 (fun x h => by cases h) (by omega) (by omega) text hp hsep hg1 hg2 hfd hft hsafe
    (fun w hw => by rw [hw] at hEy; exact hEy) hEl hEf (fun _ => rfl)
    (fun hts hs => (hEs hts hfd hft).2 hs) hfmt
  exact ⟨p', h1, by simp only [ParseFrom.resolve, h2, Parsed.RP.bind]⟩

theorem wallInRange_vd (Y : Int) (o : Nat) (hvd : VD Y o) : wallInRange (dateOfYo Y o) = true := by
  obtain ⟨fy, _, _, _, y1, y2, _⟩ := date_facts Y o hvd
  have hMIN : MIN_YEAR = -262143 := rfl
  have hMAX : MAX_YEAR = 262142 := rfl
  simp only [wallInRange, fy, Bool.and_eq_true, decide_eq_true_eq]
  omega

theorem rounded_of_whole (off : Int) (h : off % 60 = 0) : roundedOffset off = off := by
  unfold roundedOffset; split <;> omega

theorem rounded_range (off : Int) (h : -86400 < off ∧ off < 86400) :
    -86400 ≤ roundedOffset off ∧ roundedOffset off ≤ 86400 := by
  unfold roundedOffset; split <;> omega

theorem to_datetime_of (p : Parsed) (off' : Int) (dt : NaiveDT)
    (hsel : p.offset = some off' ∨ (p.offset = none ∧ p.timestamp ≠ none ∧ off' = 0))
    (hn : Parsed.to_naive_datetime_with_offset p off' = .ok (.ok dt))
    (he : Zoned.east_opt off' = some off') :
    Parsed.to_datetime p =
      match Zoned.from_local_datetime off' dt with
      | .panic => .panic
      | .ok none => .ok (.error .impossible)
      | .ok (some t) => .ok (.ok t) := by
  rcases hsel with h | ⟨h1, h2, rfl⟩
  · simp only [Parsed.to_datetime, h, hn, Parsed.RP.bind, he]
    cases Zoned.from_local_datetime off' dt with
    | panic => rfl
    | ok r => cases r <;> rfl
  · cases hpt : p.timestamp with
    | none => exact absurd hpt h2
    | some g =>
      simp only [Parsed.to_datetime, h1, hpt, hn, Parsed.RP.bind, he]
      cases Zoned.from_local_datetime 0 dt with
      | panic => rfl
      | ok r => cases r <;> rfl

/-- **round trip, target `DateTime<FixedOffset>`**, formats with a full date, a full time and an offset
(or a timestamp) (proved items): the result is the local reading cut to the printed precision, put
back at the printed (minute-rounded) offset — exactly `Spec.truncate_to_precision` -/
theorem family_zoned (is : List Item) (z : Zoned) (Y : Int) (o : Nat) (hvd : VD Y o) (t : Time) (htv : TValid t)
    (hl : z.overflowing_naive_local = .ok ⟨dateOfYo Y o, t⟩) (hzo : -86400 < z.off ∧ z.off < 86400)
    (text : List Nat) (hp : ∀ it ∈ is, provedItem it = true) (hU : Unambiguous is .zoned)
    (hfd : fullDate (carries is) = true) (hft : fullTime (carries is) = true)
    (hot : (carries is).offset = true ∨ (carries is).timestamp = true) (hsafe : spaceSafe is = true)
    (hE : expressible is (.zoned z))
    (hfmt : ParseFrom.formatItemsOf (.zoned z) is = Format.wok text) :
    ∃ p', Parse.parse Parsed.new text is = .ok p' ∧
      ∀ v', truncate_to_precision is (.zoned z) = some v' → ParseFrom.resolve .zoned p' = .ok (.ok v') := by
  obtain ⟨fy, _⟩ := date_facts Y o hvd
  obtain ⟨_, ⟨hsep, _⟩, hg1, hg2, _⟩ := hU
  obtain ⟨hEy, hEl, hEo, hEs, hEf⟩ := hE
  have hEl := exprLeap_of_for is _ hft hEl
  simp only [exprLeap, shown, hl, onSome] at hEl
  simp only [exprFrac, shown, hl, onSome] at hEf
  simp only [exprYears, shown, hl, onSome, fy] at hEy
  simp only [exprStamp, shown, hl, onSome] at hEs
  simp only [exprOffset, shown, hl, onSome] at hEo
  simp only [ParseFrom.formatItemsOf, hl, Format.W.ofRes] at hfmt
  generalize hoff' : (if (carries is).offset = true then roundedOffset z.off else 0) = off'
  have hr1 : -86400 < off' ∧ off' < 86400 := by
    rw [← hoff']
    by_cases ho : (carries is).offset = true
    · rw [if_pos ho]; exact hEo ho
    · rw [if_neg ho]; omega
  have hstampOff : (carries is).timestamp = true → off' = z.off := by
    intro hts
    have := (hEs hts hfd hft).1
    rw [← hoff']
    by_cases ho : (carries is).offset = true
    · rw [if_pos ho] at this ⊢; exact rounded_of_whole _ this
    · rw [if_neg ho] at this ⊢; exact this.symm
  obtain ⟨p', h1, h2, hoS, hoI, htI⟩ := family_datetime_core is Y o hvd t htv
    ⟨some (dateOfYo Y o), some t, some (Format.fixedOffsetName z.off, z.off)⟩ rfl rfl
    (fun x h => by cases h; exact hzo) (roundedOffset z.off) off' (fun x h => by cases h; rfl)
    (rounded_range z.off hzo) hr1 text hp hsep hg1 hg2 hfd hft hsafe
    (fun w hw => by rw [hw] at hEy; exact hEy) hEl hEf hstampOff
    (fun hts hs => (hEs hts hfd hft).2 hs) hfmt
  refine ⟨p', h1, fun v' hv' => ?_⟩
  have hoffsel : p'.offset = some off' ∨ (p'.offset = none ∧ p'.timestamp ≠ none ∧ off' = 0) := by
    by_cases ho : (carries is).offset = true
    · rw [ho] at hoI
      cases hpo : p'.offset with
      | none => rw [hpo] at hoI; cases hoI
      | some x =>
        have := hoS x hpo
        left; rw [← hoff', if_pos ho, this]
    · have hto : (carries is).timestamp = true := by
        rcases hot with h | h
        · exact absurd h ho
        · exact h
      have ho' : (carries is).offset = false := by simpa using ho
      rw [ho'] at hoI
      rw [hto] at htI
      exact Or.inr ⟨(isSome_false_iff _).mp hoI, (isSome_true_iff _).mp htI, by rw [← hoff', if_neg ho]⟩
  have heast : Zoned.east_opt off' = some off' := by
    unfold Zoned.east_opt; rw [if_pos hr1]
  have hwall : wallInRange (dateOfYo Y o) = true := wallInRange_vd Y o hvd
  simp only [truncate_to_precision, hfd, hft, Bool.and_self, if_true, hl, hoff', hwall] at hv'
  simp only [ParseFrom.resolve, to_datetime_of p' off' _ hoffsel h2 heast]
  cases hfl : Zoned.from_local_datetime off' ⟨dateOfYo Y o, truncTime is t⟩ with
  | panic => rw [hfl] at hv'; cases hv'
  | ok r =>
    rw [hfl] at hv'
    cases r with
    | none => cases hv'
    | some z' => cases hv'; rfl

end Chrono.Proofs.RoundTrip
