/-
  Helper lemmas for C11, part 3: field resolution (`Parsed::to_datetime`) of the record the RFC 2822
  scanner builds — the denoted value for valid fields, rejection of a contradicting day-name.
  Built on C14's completeness lemmas (Proofs/ParsedDtL.lean) and C04's `from_local_spec`.
-/
import Chrono.Proofs.Rfc2822ScanL
import Chrono.Proofs.ParsedDtL
import Chrono.Proofs.ZonedL
import Chrono.Proofs.TimestampL
namespace Chrono.Proofs.Rfc2822
open Chrono Chrono.M Chrono.Spec Chrono.Spec.Rfc2822 Chrono.Spec.Fields Chrono.Proofs Chrono.Proofs.ParsedRes
open Chrono.Extracted

/-- the wall-clock time of day the fields spell -/
def timeOf (f : Rfc2822.Fields) : Time :=
  ⟨(f.hour : Int) * 3600 + (f.min : Int) * 60 + (if secOf f = 60 then 59 else (secOf f : Int)),
   if secOf f = 60 then 1000000000 else 0⟩

theorem naive_of_fields (f : Rfc2822.Fields) (hv : Valid f) :
    VD f.year (ordinalOf f.year f.month f.day) ∧
    Parsed.to_naive_datetime_with_offset (parsedOf f) f.off =
      .ok (.ok ⟨dateOfYo f.year (ordinalOf f.year f.month f.day), timeOf f⟩) := by
  obtain ⟨wd, d, m, Y, h, mi, sec, off⟩ := f
  obtain ⟨v1, v2, v3, v4, v5, v6, v7, v8, _⟩ := hv
  simp only [] at v1 v2 v3 v4 v5 v6 v7 v8 ⊢
  have hob := ordinal_bounds Y m d v3
  have hvd : VD Y (ordinalOf Y m d) := ⟨v1, v2, hob.1, hob.2⟩
  refine ⟨hvd, ?_⟩
  have hMIN : MIN_YEAR = -262143 := rfl
  have hMAX : MAX_YEAR = 262142 := rfl
  obtain ⟨um, ud⟩ := ymd_unique Y m d v3
  have hmb := valid_bounds Y m d v3
  obtain ⟨wk, hwk⟩ := iso_week_ok Y (ordinalOf Y m d) hvd
  unfold OffValid at v8
  have hs60 : secOf ⟨wd, d, m, Y, h, mi, sec, off⟩ = sec.getD 0 := rfl
  rw [hs60] at v7
  have hp : InType (parsedOf ⟨wd, d, m, Y, h, mi, sec, off⟩) := by
    unfold InType optIn parsedOf
    simp only []
    refine ⟨fun x hx => ?_, (fun _ hx => nomatch hx), (fun _ hx => nomatch hx), (fun _ hx => nomatch hx),
      (fun _ hx => nomatch hx), (fun _ hx => nomatch hx), (fun _ hx => nomatch hx), fun x hx => ?_,
      (fun _ hx => nomatch hx), (fun _ hx => nomatch hx), (fun _ hx => nomatch hx), (fun _ hx => nomatch hx),
      fun x hx => ?_, fun x hx => ?_, fun x hx => ?_, fun x hx => ?_, fun x hx => ?_,
      (fun _ hx => nomatch hx), (fun _ hx => nomatch hx), fun x hx => ?_⟩
    · cases hx; omega
    · cases hx; omega
    · cases hx; omega
    · cases hx; omega
    · cases hx; omega
    · cases hx; omega
    · cases sec with
      | none => cases hx
      | some n =>
        simp only [Option.map_some, Option.getD_some] at hx v7
        cases hx
        show (0 : Int) ≤ (n : Int) ∧ (n : Int) ≤ 4294967295
        omega
    · cases hx; omega
  have hag : DateAgrees (parsedOf ⟨wd, d, m, Y, h, mi, sec, off⟩) Y (ordinalOf Y m d) := by
    unfold DateAgrees parsedOf optIs centIs IsoIs
    simp only []
    refine ⟨fun x hx => (by cases hx; rfl), ⟨(fun _ hx => nomatch hx), (fun _ hx => nomatch hx)⟩,
      (fun _ hx => nomatch hx), fun x hx => (by cases hx; rw [um]), (fun _ hx => nomatch hx),
      (fun _ hx => nomatch hx), fun w hw => v4 w hw, (fun _ hx => nomatch hx), fun x hx => (by cases hx; rw [ud]),
      ⟨wk, hwk, (fun _ hx => nomatch hx), ⟨(fun _ hx => nomatch hx), (fun _ hx => nomatch hx)⟩,
        (fun _ hx => nomatch hx)⟩⟩
  have hdY : GroupDeterminate (parsedOf ⟨wd, d, m, Y, h, mi, sec, off⟩).year
      (parsedOf ⟨wd, d, m, Y, h, mi, sec, off⟩).year_div_100 (parsedOf ⟨wd, d, m, Y, h, mi, sec, off⟩).year_mod_100 Y := by
    unfold GroupDeterminate GroupUsable parsedOf
    simp
  have hdI : ∀ w, (dateOfYo Y (ordinalOf Y m d)).iso_week = .ok w →
      GroupDeterminate (parsedOf ⟨wd, d, m, Y, h, mi, sec, off⟩).isoyear
        (parsedOf ⟨wd, d, m, Y, h, mi, sec, off⟩).isoyear_div_100
        (parsedOf ⟨wd, d, m, Y, h, mi, sec, off⟩).isoyear_mod_100 (IsoWeek.year w) := by
    intro w _
    unfold GroupDeterminate GroupUsable parsedOf
    simp
  have hc : UsesCalendar (parsedOf ⟨wd, d, m, Y, h, mi, sec, off⟩) := by
    unfold UsesCalendar GroupHasYear parsedOf
    simp
  have hdate := date_complete' _ hp Y _ hvd hag hdY hdI hc
  have ht : TStrict (timeOf ⟨wd, d, m, Y, h, mi, sec, off⟩) ∧
      TimeAgrees (parsedOf ⟨wd, d, m, Y, h, mi, sec, off⟩) (timeOf ⟨wd, d, m, Y, h, mi, sec, off⟩) := by
    unfold TStrict TValid TimeAgrees timeOf parsedOf optIs secondIs nanoIs hourOf minuteOf secondOf
    simp only [hs60]
    cases sec with
    | none =>
      simp only [Option.getD_none, Option.map_none]
      refine ⟨⟨⟨by omega, by omega, by omega, by omega⟩, Or.inl (by omega)⟩,
        fun x hx => (by cases hx; omega), fun x hx => (by cases hx; omega), fun x hx => (by cases hx; omega),
        ⟨(fun _ hx => nomatch hx), fun _ => ⟨by omega, by omega⟩⟩, ⟨(fun _ hx => nomatch hx), fun _ => by omega⟩⟩
    | some n =>
      simp only [Option.getD_some, Option.map_some] at v7 ⊢
      by_cases h60 : n = 60
      · subst h60
        simp only [if_true]
        refine ⟨⟨⟨by omega, by omega, by omega, by omega⟩, Or.inr (by omega)⟩,
          fun x hx => (by cases hx; omega), fun x hx => (by cases hx; omega), fun x hx => (by cases hx; omega),
          ⟨fun x hx => (by cases hx; exact ⟨by omega, by omega⟩), (fun hx => nomatch hx)⟩,
          ⟨(fun _ hx => nomatch hx), fun _ => by omega⟩⟩
      · simp only [h60, if_false]
        refine ⟨⟨⟨by omega, by omega, by omega, by omega⟩, Or.inl (by omega)⟩,
          fun x hx => (by cases hx; omega), fun x hx => (by cases hx; omega), fun x hx => (by cases hx; omega),
          ⟨fun x hx => (by
            cases hx
            have : ¬ ((Int.ofNat n) = 60) := by
              intro hh; apply h60; exact Int.ofNat.inj hh
            rw [if_neg this]
            refine ⟨?_, by omega⟩
            show ((h : Int) * 3600 + (mi : Int) * 60 + (n : Int)) % 60 = (n : Int)
            omega), (fun hx => nomatch hx)⟩,
          ⟨(fun _ hx => nomatch hx), fun _ => by omega⟩⟩
  have hsuf : TimeSufficient (parsedOf ⟨wd, d, m, Y, h, mi, sec, off⟩) := by
    unfold TimeSufficient parsedOf
    simp
  have htime := time_complete' _ _ ht.1 ht.2 hsuf
  rw [dt_fields_path _ off ⟨by omega, by omega⟩ Y _ _ hvd ht.1.1 hdate htime]
  rfl


/-- field resolution of what the scanner built: the denoted value -/
theorem resolve_ok (f : Rfc2822.Fields) (hv : Valid f) :
    ∃ z, Parsed.to_datetime (parsedOf f) = .ok (.ok z) ∧ Denotes f z := by
  obtain ⟨hvd, hnaive⟩ := naive_of_fields f hv
  obtain ⟨v1, v2, v3, v4, v5, v6, v7, v8, v9⟩ := hv
  have hob := ordinal_bounds f.year f.month f.day v3
  have hyl := yearLen_ge f.year
  obtain ⟨hdi, hdn⟩ := Chrono.Proofs.Ts.dateInv_of_yo f.year (ordinalOf f.year f.month f.day) ⟨v1, v2⟩ hob
  have htv : TValid (timeOf f) := by
    unfold TValid timeOf
    simp only []
    split <;> omega
  have hnl : NDTInv ⟨dateOfYo f.year (ordinalOf f.year f.month f.day), timeOf f⟩ := ⟨hdi, htv⟩
  have hext : ExtNDTInv ⟨dateOfYo f.year (ordinalOf f.year f.month f.day), timeOf f⟩ :=
    ⟨((dateInv_iff _).mp hdi).1, htv⟩
  have hsecs : instSecs ⟨dateOfYo f.year (ordinalOf f.year f.month f.day), timeOf f⟩ = localSecs f := by
    unfold instSecs localSecs
    simp only [hdn, timeOf]
    unfold dayNum
    omega
  obtain ⟨r, h1, h2, h3, _⟩ := from_local_spec f.off _ v8 hext
  rw [hsecs] at h2 h3
  cases r with
  | none => exact absurd v9 (h3 rfl)
  | some z =>
    obtain ⟨a, b, c, d, e⟩ := h2 z rfl
    refine ⟨z, ?_, a, c, ?_, ⟨e hdi, b.2⟩, by rw [a]; exact v8⟩
    · unfold Parsed.to_datetime
      have hoffp : (parsedOf f).offset = some f.off := rfl
      simp only [hoffp, Parsed.RP.bind, hnaive]
      have he : Zoned.east_opt f.off = some f.off := by
        unfold Zoned.east_opt; exact if_pos v8
      simp only [he, h1]
    · rw [d]; rfl


theorem inType_parsedOf (f : Rfc2822.Fields) (hr : SetterRanges f) (hm : f.month ≤ 12)
    (hy : -2147483648 ≤ f.year) : InType (parsedOf f) := by
  obtain ⟨wd, d, m, Y, h, mi, sec, off⟩ := f
  obtain ⟨r1, r2, r3, r4, r5, r6, r7, r8⟩ := hr
  have hs60 : secOf ⟨wd, d, m, Y, h, mi, sec, off⟩ = sec.getD 0 := rfl
  rw [hs60] at r6
  simp only [] at r1 r2 r3 r4 r5 r7 r8 hm hy
  unfold InType optIn parsedOf
  simp only []
  refine ⟨fun x hx => ?_, (fun _ hx => nomatch hx), (fun _ hx => nomatch hx), (fun _ hx => nomatch hx),
    (fun _ hx => nomatch hx), (fun _ hx => nomatch hx), (fun _ hx => nomatch hx), fun x hx => ?_,
    (fun _ hx => nomatch hx), (fun _ hx => nomatch hx), (fun _ hx => nomatch hx), (fun _ hx => nomatch hx),
    fun x hx => ?_, fun x hx => ?_, fun x hx => ?_, fun x hx => ?_, fun x hx => ?_,
    (fun _ hx => nomatch hx), (fun _ hx => nomatch hx), fun x hx => ?_⟩
  · cases hx; omega
  · cases hx; omega
  · cases hx; omega
  · cases hx; omega
  · cases hx; omega
  · cases hx; omega
  · cases sec with
    | none => cases hx
    | some n =>
      simp only [Option.map_some, Option.getD_some] at hx r6
      cases hx
      show (0 : Int) ≤ (n : Int) ∧ (n : Int) ≤ 4294967295
      omega
  · cases hx; omega

/-- a day-name that contradicts the date makes field resolution fail (by value, no panic) -/
theorem resolve_weekday_mismatch (f : Rfc2822.Fields) (hp : InType (parsedOf f)) (w : Weekday)
    (hw : f.weekday = some w) (hne : (w.toNat : Int) ≠ weekdayOf (dayNum f.year f.month f.day)) :
    ∃ e, Parsed.to_datetime (parsedOf f) = .ok (.error e) := by
  obtain ⟨r, hr, hok, _, _⟩ := date_main (parsedOf f) hp
  have huc : UsesCalendar (parsedOf f) := by
    unfold UsesCalendar GroupHasYear parsedOf
    simp
  have hnot : ∀ d, r ≠ .ok d := by
    intro d hd
    obtain ⟨Y, o, hvd, _, hag⟩ := hok d hd
    obtain ⟨a1, _, _, a4, _, _, a7, _, a9, _⟩ := hag (Or.inr huc)
    have e1 : f.year = Y := a1 f.year rfl
    have e4 : (f.month : Int) = (monthOfYo Y o : Int) := a4 (f.month : Int) rfl
    have e9 : (f.day : Int) = (dayOfYo Y o : Int) := a9 (f.day : Int) rfl
    have e7 := a7 w hw
    obtain ⟨_, _, _, hoo⟩ := month_day_spec Y o hvd.2.2.1 hvd.2.2.2
    have em : f.month = monthOfYo Y o := by omega
    have ed : f.day = dayOfYo Y o := by omega
    apply hne
    rw [e7]
    unfold dayNum
    rw [e1, em, ed, hoo]
  cases r with
  | ok d => exact absurd rfl (hnot d)
  | error e =>
    refine ⟨e, ?_⟩
    unfold Parsed.to_datetime
    have hoffp : (parsedOf f).offset = some f.off := rfl
    have hts : (parsedOf f).timestamp = none := rfl
    simp only [hoffp]
    unfold Parsed.to_naive_datetime_with_offset
    simp only [hr, hts, Parsed.RP.bind]

end Chrono.Proofs.Rfc2822
