/-
  Helper lemmas for C14: `to_naive_datetime_with_offset` when date and time both resolve from the
  fields (the timestamp cross-check with the one-second leap allowance).
-/
import Chrono.Proofs.ParsedDateL
namespace Chrono.Proofs
open Chrono Chrono.M Chrono.Spec Chrono.Extracted

theorem timestamp_spec (Y : Int) (o : Nat) (t : Time) (h : VD Y o) (ht : TValid t) :
    NaiveDT.timestamp ⟨dateOfYo Y o, t⟩ = .ok (timestampIs.instSecsLocal ⟨dateOfYo Y o, t⟩) ∧
    -9000000000000 ≤ timestampIs.instSecsLocal ⟨dateOfYo Y o, t⟩ ∧
    timestampIs.instSecsLocal ⟨dateOfYo Y o, t⟩ ≤ 9000000000000 := by
  obtain ⟨hy, hord, _, _, _, _, ho⟩ := vd_fields Y o h
  obtain ⟨h1, h2, h3, h4⟩ := h
  have hMIN : MIN_YEAR = -262143 := rfl
  have hMAX : MAX_YEAR = 262142 := rfl
  have hE : UNIX_EPOCH_DAY = 719163 := rfl
  have hyl := yearLen_ge Y
  have hnd := num_days_spec (dateOfYo Y o) (by rw [hy]; omega) (by rw [hy]; omega) (by rw [hord]; omega)
  rw [hy, hord] at hnd
  unfold NaiveDT.timestamp timestampIs.instSecsLocal
  simp only [hnd, hy, hord, Res.bind, Time.num_seconds_from_midnight, hE]
  obtain ⟨t0, t1, _, _⟩ := ht
  have hb : -95746500 ≤ dayNumYo Y o ∧ dayNumYo Y o ≤ 95745800 := by
    unfold dayNumYo daysBeforeYear
    omega
  generalize dayNumYo Y o = N at *
  rw [ckI64_ok (by omega) (by omega)]
  simp only []
  rw [ckI64_ok (by omega) (by omega)]
  simp only []
  rw [ckI64_ok (by omega) (by omega)]
  refine ⟨rfl, by omega, by omega⟩

/-- the first path of `to_naive_datetime_with_offset`: date and time both resolve -/
theorem dt_fields_path (p : Parsed) (off : Int) (hoff : -2147483648 ≤ off ∧ off ≤ 2147483647)
    (Y : Int) (o : Nat) (t : Time) (hvd : VD Y o) (htv : TValid t)
    (hd : Parsed.to_naive_date p = .ok (.ok (dateOfYo Y o))) (ht : Parsed.to_naive_time p = .ok t) :
    Parsed.to_naive_datetime_with_offset p off =
      .ok (match p.timestamp with
        | some g =>
          if g ≠ timestampIs.instSecsLocal ⟨dateOfYo Y o, t⟩ - off ∧
             ¬ (t.frac ≥ 1000000000 ∧ g = timestampIs.instSecsLocal ⟨dateOfYo Y o, t⟩ - off + 1)
          then .error .impossible else .ok ⟨dateOfYo Y o, t⟩
        | none => .ok ⟨dateOfYo Y o, t⟩) := by
  obtain ⟨hts, hb1, hb2⟩ := timestamp_spec Y o t hvd htv
  unfold Parsed.to_naive_datetime_with_offset
  rw [hd]
  simp only []
  rw [ht]
  simp only []
  rw [hts]
  simp only [Res.bind]
  rw [ckI64_ok (by omega) (by omega)]
  simp only []
  cases p.timestamp with
  | none => rfl
  | some g =>
    simp only [Time.nanosecond]
    by_cases hc : g ≠ timestampIs.instSecsLocal ⟨dateOfYo Y o, t⟩ - off ∧
        ¬ (t.frac ≥ 1000000000 ∧ g = timestampIs.instSecsLocal ⟨dateOfYo Y o, t⟩ - off + 1)
    · rw [if_pos hc]; exact ite_pos' _ _ hc
    · rw [if_neg hc]; exact ite_neg' _ _ hc


end Chrono.Proofs
