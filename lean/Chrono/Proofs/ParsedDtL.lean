/-
  Helper lemmas for C14: `to_naive_datetime_with_offset` when date and time both resolve from the
  fields (the timestamp cross-check with the one-second leap allowance).
-/
import Chrono.Proofs.ParsedDateL
namespace Chrono.Proofs.ParsedRes
open Chrono Chrono.M Chrono.Spec Chrono.Spec.Fields Chrono.Extracted

theorem timestamp_spec (Y : Int) (o : Nat) (t : Time) (h : VD Y o) (ht : TValid t) :
    NaiveDT.timestamp ⟨dateOfYo Y o, t⟩ = .ok (timestampIs.instSecsLocal ⟨dateOfYo Y o, t⟩) ∧
    -9000000000000 ≤ timestampIs.instSecsLocal ⟨dateOfYo Y o, t⟩ ∧
    timestampIs.instSecsLocal ⟨dateOfYo Y o, t⟩ ≤ 9000000000000 := by
  obtain ⟨hy, hord, _, _, _, _, ho⟩ := vd_fields Y o h
  obtain ⟨h1, h2, h3, h4⟩ := h
  have hMIN : MIN_YEAR = -262143 := rfl
  have hMAX : MAX_YEAR = 262142 := rfl
  have hE : UNIX_EPOCH_DAY = 719163 := rfl
  have hyl := yearLen_ge Y
  have hnd := num_days_spec (dateOfYo Y o) (by rw [hy]; omega) (by rw [hy]; omega) (by rw [hord]; omega)
  rw [hy, hord] at hnd
  unfold NaiveDT.timestamp timestampIs.instSecsLocal
  simp only [hnd, hy, hord, Res.bind, Time.num_seconds_from_midnight, hE]
  obtain ⟨t0, t1, _, _⟩ := ht
  have hb : -95746500 ≤ dayNumYo Y o ∧ dayNumYo Y o ≤ 95745800 := by
    unfold dayNumYo daysBeforeYear
    omega
  generalize dayNumYo Y o = N at *
  rw [ckI64_ok (by omega) (by omega)]
  simp only []
  rw [ckI64_ok (by omega) (by omega)]
  simp only []
  rw [ckI64_ok (by omega) (by omega)]
  refine ⟨rfl, by omega, by omega⟩

/-- the first path of `to_naive_datetime_with_offset`: date and time both resolve -/
theorem dt_fields_path (p : Parsed) (off : Int) (hoff : -2147483648 ≤ off ∧ off ≤ 2147483647)
    (Y : Int) (o : Nat) (t : Time) (hvd : VD Y o) (htv : TValid t)
    (hd : Parsed.to_naive_date p = .ok (.ok (dateOfYo Y o))) (ht : Parsed.to_naive_time p = .ok t) :
    Parsed.to_naive_datetime_with_offset p off =
      .ok (match p.timestamp with
        | some g =>
          if g ≠ timestampIs.instSecsLocal ⟨dateOfYo Y o, t⟩ - off ∧
             ¬ (t.frac ≥ 1000000000 ∧ g = timestampIs.instSecsLocal ⟨dateOfYo Y o, t⟩ - off + 1)
          then .error .impossible else .ok ⟨dateOfYo Y o, t⟩
        | none => .ok ⟨dateOfYo Y o, t⟩) := by
  obtain ⟨hts, hb1, hb2⟩ := timestamp_spec Y o t hvd htv
  unfold Parsed.to_naive_datetime_with_offset
  rw [hd]
  simp only []
  rw [ht]
  simp only []
  rw [hts]
  simp only [Res.bind]
  rw [ckI64_ok (by omega) (by omega)]
  simp only []
  cases p.timestamp with
  | none => rfl
  | some g =>
    simp only [Time.nanosecond]
    by_cases hc : g ≠ timestampIs.instSecsLocal ⟨dateOfYo Y o, t⟩ - off ∧
        ¬ (t.frac ≥ 1000000000 ∧ g = timestampIs.instSecsLocal ⟨dateOfYo Y o, t⟩ - off + 1)
    · rw [if_pos hc]; exact ite_pos' _ _ hc
    · rw [if_neg hc]; exact ite_neg' _ _ hc


/-! ### completeness -/

theorem optI32_some' {x : Int} (h1 : -2147483648 ≤ x) (h2 : x ≤ 2147483647) : optI32 x = some x := by
  simp [optI32, inI32, I32_MIN, I32_MAX, h1, h2]

/-- a determinate group whose members agree with the year `Y` resolves to `Y` (or to nothing when
the group is empty) -/
theorem resolve_year_complete (y q r : Option Int) (Y : Int) (hY : -2147483648 ≤ Y ∧ Y ≤ 2147483647)
    (h1 : optIs y Y) (h2 : centIs q r Y) (hd : GroupDeterminate y q r Y) :
    Parsed.resolve_year y q r = .ok (if y = none ∧ r = none then none else some Y) := by
  unfold Parsed.resolve_year
  unfold optIs at h1
  obtain ⟨hq, hr⟩ := h2
  obtain ⟨hu, hp⟩ := hd
  cases y with
  | some yv =>
    have := h1 yv rfl
    subst this
    simp only [reduceCtorEq, false_and, if_false]
    split
    · rfl
    · rename_i hqr
      have hmod : Parsed.modOk r = true := by
        cases r with
        | none => rfl
        | some rv => have := hr rv rfl; simp [Parsed.modOk]; omega
      rw [if_pos hmod]
      have h0 : 0 ≤ yv := by
        cases q with
        | some qv => exact (hq qv rfl).1
        | none =>
          cases r with
          | some rv => exact (hr rv rfl).1
          | none => simp at hqr
      rw [if_neg (by omega)]
      have hmod' : Int.tmod yv 100 = yv % 100 := by rw [tmod_eq, if_pos h0]; omega
      rw [Int.tdiv_eq_ediv_of_nonneg h0, hmod']
      rw [if_pos]
      constructor
      · cases q with
        | none => rfl
        | some qv => simp [(hq qv rfl).2]
      · cases r with
        | none => rfl
        | some rv => simp [(hr rv rfl).2]
  | none =>
    simp only [true_and]
    cases q with
    | none =>
      cases r with
      | none => simp
      | some rv =>
        obtain ⟨_, e⟩ := hr rv rfl
        have hpiv := hp rfl rfl (by simp)
        simp only [reduceCtorEq, if_false]
        rw [if_pos (by omega)]
        congr 2
        split <;> omega
    | some qv =>
      cases r with
      | none => exact absurd ⟨rfl, by simp, rfl⟩ hu
      | some rv =>
        obtain ⟨h0, e1⟩ := hq qv rfl
        obtain ⟨_, e2⟩ := hr rv rfl
        simp only [reduceCtorEq, if_false]
        rw [if_pos (by omega), if_neg (by omega)]
        rw [optI32_some' (by omega) (by omega)]
        simp only [Option.bind_some]
        rw [optI32_some' (by omega) (by omega)]
        simp only []
        congr 2
        omega

theorem weekOrd_of_weekNo (Y : Int) (o : Nat) (w : Int) (wd start : Weekday) (s : Int)
    (hs : (start.toNat : Int) = s)
    (hw : w = weekNo Y o s) (hwd : (wd.toNat : Int) = weekdayOf (dayNumYo Y o)) :
    weekOrd Y w wd start = o := by
  unfold weekOrd
  rw [hs, hwd, hw]
  unfold weekNo weekdayOf dayNumYo
  generalize daysBeforeYear Y = B
  push_cast
  omega

theorem nisoweeks_le (f : Nat) : YearFlags.nisoweeks f ≤ 53 := by
  unfold YearFlags.nisoweeks
  have : 1030 / 2 ^ f % 2 < 2 := Nat.mod_lt _ (by decide)
  omega

theorem iso_year_bound (Y : Int) (o : Nat) (h : VD Y o) (w : Int)
    (hw : (dateOfYo Y o).iso_week = .ok w) : Y - 1 ≤ IsoWeek.year w ∧ IsoWeek.year w ≤ Y + 1 := by
  obtain ⟨hy, hord, hfl, _, _, _, _⟩ := vd_fields Y o h
  obtain ⟨h1, h2, _, _⟩ := h
  have hMIN : MIN_YEAR = -262143 := rfl
  have hMAX : MAX_YEAR = 262142 := rfl
  unfold Date.iso_week IsoWeek.from_yof at hw
  rw [hy, hord, hfl] at hw
  simp only [Int.toNat_natCast] at hw
  rw [ckI32_ok (by omega) (by omega), ckI32_ok (by omega) (by omega)] at hw
  simp only [from_year_spec] at hw
  unfold IsoWeek.year
  have f1 := (flagsOf_facts (Y - 1)).1
  have f2 := (flagsOf_facts Y).1
  have f3 := (flagsOf_facts (Y + 1)).1
  have n1 := nisoweeks_le (flagsOf (Y - 1))
  have n2 := nisoweeks_le (flagsOf Y)
  by_cases c1 : (o + YearFlags.isoweek_delta (flagsOf Y)) / 7 < 1
  · rw [if_pos c1] at hw
    simp only [] at hw
    cases hw
    omega
  · rw [if_neg c1] at hw
    by_cases c2 : (o + YearFlags.isoweek_delta (flagsOf Y)) / 7 > YearFlags.nisoweeks (flagsOf Y)
    · rw [if_pos c2] at hw
      simp only [] at hw
      cases hw
      omega
    · rw [if_neg c2] at hw
      simp only [] at hw
      cases hw
      omega


theorem date_complete' (p : Parsed) (hp : InType p) (Y : Int) (o : Nat) (hvd : VD Y o)
    (hag : DateAgrees p Y o)
    (hdY : GroupDeterminate p.year p.year_div_100 p.year_mod_100 Y)
    (hdI : ∀ w, (dateOfYo Y o).iso_week = .ok w →
      GroupDeterminate p.isoyear p.isoyear_div_100 p.isoyear_mod_100 (IsoWeek.year w))
    (hc : UsesCalendar p) :
    Parsed.to_naive_date p = .ok (.ok (dateOfYo Y o)) := by
  obtain ⟨a1, a2, a3, a4, a5, a6, a7, a8, a9, ⟨w, hw, i1, i2, i3⟩⟩ := hag
  have hall : AllOk p Y o := ⟨⟨a1, a2, a4, a9⟩, ⟨⟨w, hw, i1, i2, i3⟩, a7⟩, a8, a5, a6⟩
  have hMIN : MIN_YEAR = -262143 := rfl
  have hMAX : MAX_YEAR = 262142 := rfl
  obtain ⟨v1, v2, v3, v4⟩ := hvd
  have hvd : VD Y o := ⟨v1, v2, v3, v4⟩
  have hib := iso_year_bound Y o hvd w hw
  have hgy := resolve_year_complete _ _ _ Y (by omega) a1 a2 hdY
  have hgi := resolve_year_complete _ _ _ (IsoWeek.year w) (by omega) i1 i2 (hdI w hw)
  have hgy' : Parsed.resolve_year p.year p.year_div_100 p.year_mod_100 = .ok (some Y) := by
    rw [hgy]
    rw [if_neg]
    rintro ⟨h1, h2⟩
    rcases hc.1 with h | h
    · exact h h1
    · exact h h2
  obtain ⟨b1, b2, c1, c2, iall, _, _⟩ := checks_ok p Y o hp hvd
  have hb := iall.mpr hall
  rw [Bool.and_eq_true, Bool.and_eq_true] at hb
  obtain ⟨⟨hb1, hb2⟩, hb3⟩ := hb
  obtain ⟨_, _, _, hm, _, hwdy, _⟩ := vd_fields Y o hvd
  obtain ⟨_, _, hval, hoo⟩ := month_day_spec Y o v3 v4
  have hm1 : 1 ≤ monthOfYo Y o := by
    unfold validYmd at hval; simp at hval; omega
  -- whichever calendar combination is selected, it reconstructs the day
  have harm : Parsed.armDate p (Parsed.dateArm p (some Y)
      (if p.isoyear = none ∧ p.isoyear_mod_100 = none then none else some (IsoWeek.year w))) =
      .ok (.ok (true, dateOfYo Y o)) := by
    generalize (if p.isoyear = none ∧ p.isoyear_mod_100 = none then none else some (IsoWeek.year w)) = gi
    have hni := dateArm_not_iso p (some Y) gi ⟨by simp, hc.2⟩
    rcases dateArm_cases p (some Y) gi with ⟨y, m, d, e1, e2, e3, ha⟩ | ⟨y, oo, e1, e2, ha⟩ |
        ⟨y, wk, wd, e1, e2, e3, ha⟩ | ⟨y, wk, wd, e1, e2, e3, ha⟩ | ⟨y, wk, wd, _, _, _, ha⟩ | ⟨_, hn⟩
    · cases e1
      rw [ha]
      unfold Parsed.armDate
      simp only []
      have em := a4 m e2
      have ed := a9 d e3
      subst em; subst ed
      simp only [Int.toNat_natCast]
      rw [ctor_ymd', if_pos ⟨v1, v2, hval⟩, hoo]
      simp only [Parsed.okOr, Parsed.RP.bind]
      rw [c2, andR_ok, hb2, hb3]
      rfl
    · cases e1
      rw [ha]
      unfold Parsed.armDate
      simp only []
      have eo := a8 oo e2
      subst eo
      simp only [Int.toNat_natCast]
      rw [ctor_yo', if_pos ⟨v1, v2, v3, v4⟩]
      simp only [Parsed.okOr, Parsed.RP.bind]
      rw [c1, c2, andR_ok, andR_ok, hb1, hb2, hb3]
      rfl
    · cases e1
      rw [ha]
      unfold Parsed.armDate
      simp only []
      have ew := a5 wk e2
      have ewd := a7 wd e3
      have hwo := weekOrd_of_weekNo Y o wk wd .sun 6 rfl ew ewd
      rw [resolve_week_date_spec, hwo]
      have hwk := (weeks_from_spec Y o hvd).2.2.2.1
      rw [if_neg (by rw [ew]; omega), if_neg (by intro h; exact h ⟨v1, v2⟩), if_neg (by omega),
        if_pos (by omega)]
      simp only [Int.toNat_natCast, Parsed.RP.bind]
      rw [c1, c2, andR_ok, andR_ok, hb1, hb2, hb3]
      rfl
    · cases e1
      rw [ha]
      unfold Parsed.armDate
      simp only []
      have ew := a6 wk e2
      have ewd := a7 wd e3
      have hwo := weekOrd_of_weekNo Y o wk wd .mon 0 rfl ew ewd
      rw [resolve_week_date_spec, hwo]
      have hwk := (weeks_from_spec Y o hvd).2.2.2.2.2
      rw [if_neg (by rw [ew]; omega), if_neg (by intro h; exact h ⟨v1, v2⟩), if_neg (by omega),
        if_pos (by omega)]
      simp only [Int.toNat_natCast, Parsed.RP.bind]
      rw [c1, c2, andR_ok, andR_ok, hb1, hb2, hb3]
      rfl
    · exact absurd ha (hni y wk wd)
    · exfalso; apply hn; left; exact ⟨by simp, hc.2⟩
  unfold Parsed.to_naive_date
  rw [hgy', hgi]
  simp only []
  rw [harm]
  simp only [Parsed.RP.bind, Bool.not_true, Bool.false_eq_true, if_false]
  cases hq : p.quarter with
  | none => rfl
  | some q =>
    simp only []
    rw [hm]
    simp only []
    rw [quarter_eq _ hm1, if_neg]
    intro hne
    exact hne (a3 q hq)


end Chrono.Proofs.ParsedRes
