/- Helper lemmas for C17, sub-second rounding at the level of the values (audit gap MEDIUM-2):
`self ± TimeDelta::nanoseconds(|d|)` for the `d` that `round_subsecs` / `trunc_subsecs` choose is
C07's extended-line sum `addLeap`, and on the nanosecond field it is what the model's `apply_within`
assumed; lifted to `NaiveTime`, `NaiveDateTime` (C03) and `DateTime<FixedOffset>` (C04). -/
import Chrono.Proofs.RoundDtL

namespace Chrono.Proofs.RoundDt
open Chrono Chrono.M Chrono.M.Round Chrono.Spec Chrono.Spec.Round Chrono.Extracted Chrono.Extracted.Round
open Chrono.Proofs Chrono.Proofs.RoundL

/-- the decision part equals the specified move (no step panics) -/
theorem subsec_move_eq (round : Bool) (frac : Int) (digits : Nat) (h0 : 0 ≤ frac) (h1 : frac < 2000000000) :
    subsec_move round frac digits = .ok (subsecMove round frac digits) := by
  have hlit := digitSpan_cases digits
  have hK := span_for_digits_eq digits
  unfold subsec_move subsecMove
  rw [hK]
  generalize digitSpan digits = K at *
  have hkp : 0 < K := by omega
  have hb := emod_bounds frac K hkp
  simp only [remU32_ok frac K h0 (by omega), shift_eq, tieUpSubsec_eq]
  cases round with
  | false =>
    simp only [Bool.false_eq_true, if_false]
    unfold truncSpec
    by_cases hr : frac % K > 0
    · rw [if_pos hr]; congr 1; omega
    · rw [if_neg hr]; congr 1; omega
  | true =>
    simp only [if_true]
    rw [roundSpec_eq frac K hkp]
    by_cases hr : frac % K > 0
    · rw [if_pos hr, ckU32_ok (by omega) (by omega)]
      simp only []
      by_cases ht : K - frac % K ≤ frac % K
      · rw [if_pos (by simpa using ht), if_pos ⟨by omega, ht⟩]; congr 1; omega
      · rw [if_neg (by simpa using ht), if_neg (fun h => ht h.2)]; congr 1; omega
    · rw [if_neg hr, if_neg (fun h => h.1 (by omega))]; congr 1; omega

/-- where the specified move leads on the line of the current second -/
theorem subsec_move_lands (round : Bool) (frac : Int) (digits : Nat) (h0 : 0 ≤ frac) (h1 : frac < 2000000000) :
    let p := subsecSpec round frac digits
    let d := subsecMove round frac digits
    (p.2 = 0 ∧ p.1 = frac + d ∧ leapBase frac ≤ p.1 ∧ p.1 < leapBase frac + 1000000000) ∨
    (p.2 = 1 ∧ p.1 = 0 ∧ frac + d = leapBase frac + 1000000000) := by
  obtain ⟨ht, hr, _⟩ := subsec_meaning' frac digits h0 h1
  dsimp only at ht hr ⊢
  unfold subsecSpec subsecMove
  cases round with
  | false =>
    simp only [Bool.false_eq_true, if_false]
    left
    unfold leapBase at *
    refine ⟨ht.1, by omega, ht.2.2.1, ?_⟩
    split at ht <;> split <;> omega
  | true =>
    simp only [if_true]
    rcases hr with h | h
    · left; exact ⟨h.1, by omega, h.2.2.1, h.2.2.2⟩
    · right; exact ⟨h.1, h.2.1, by omega⟩

/-- MEDIUM-2 of the audit: `apply_within`, the model's stand-in for "adding less than a second,
seen on the nanosecond field", is C07's `addLeap`: for a move that lands inside the current second
(`c = 0`) or exactly on its end (`c = 1`, field 0) the extended-line sum has that field, the second
count moved by `c` (modulo a day), and carries the whole day when that passes midnight -/
theorem addLeap_within (t : Time) (d f c : Int) (ht : TValid t)
    (h : (c = 0 ∧ f = t.frac + d ∧ leapBase t.frac ≤ f ∧ f < leapBase t.frac + 1000000000) ∨
      (c = 1 ∧ f = 0 ∧ t.frac + d = leapBase t.frac + 1000000000)) :
    addLeap t d = (⟨(t.secs + c) % 86400, f⟩, (t.secs + c) / 86400 * 86400) ∧
    apply_within t.frac d = (f, c) := by
  obtain ⟨s, fr⟩ := t
  simp only [TValid] at ht
  unfold leapBase at h
  dsimp only at h
  constructor
  · unfold addLeap pos
    simp only []
    rcases h with ⟨hc, hf, h2, h3⟩ | ⟨hc, hf, h2⟩
    · subst hc
      by_cases hl : fr ≥ 1000000000
      · rw [if_pos hl] at h2 h3
        rw [if_pos ⟨hl, by omega, by omega⟩]
        simp only [Prod.mk.injEq, Time.mk.injEq]
        omega
      · rw [if_neg hl] at h2 h3
        rw [if_neg (fun h => hl h.1), if_neg (fun h => hl h.1)]
        simp only [Prod.mk.injEq, Time.mk.injEq]
        omega
    · subst hc
      by_cases hl : fr ≥ 1000000000
      · rw [if_pos hl] at h2
        rw [if_neg (by omega), if_pos ⟨hl, by omega⟩]
        simp only [Prod.mk.injEq, Time.mk.injEq]
        omega
      · rw [if_neg hl] at h2
        rw [if_neg (fun h => hl h.1), if_neg (fun h => hl h.1)]
        simp only [Prod.mk.injEq, Time.mk.injEq]
        omega
  · unfold apply_within
    simp only []
    rcases h with ⟨hc, hf, h2, h3⟩ | ⟨hc, hf, h2⟩
    · rw [if_neg (by split at h3 <;> split <;> omega), hc, hf]
    · rw [if_pos (by split at h2 <;> split <;> omega), hc, hf]
      simp only [Prod.mk.injEq, and_true]
      split at h2 <;> split <;> omega

theorem subsecMove_bounds (round : Bool) (frac : Int) (digits : Nat) (h0 : 0 ≤ frac) (h1 : frac < 2000000000) :
    -1000000000 < subsecMove round frac digits ∧ subsecMove round frac digits < 1000000000 := by
  have hlit := digitSpan_cases digits
  have hkp : 0 < digitSpan digits := by omega
  unfold subsecMove
  cases round with
  | false =>
    have := spec_bounds .trunc frac (digitSpan digits) hkp
    simp only [specOf, Bool.false_eq_true, if_false] at this ⊢
    omega
  | true =>
    have := spec_bounds .round frac (digitSpan digits) hkp
    simp only [specOf, if_true] at this ⊢
    omega

/-- the integer-level functions of Model/Round.lean are the decision followed by `apply_within` -/
theorem subsecs_are_move_within (frac : Int) (digits : Nat) (h0 : 0 ≤ frac) (h1 : frac < 2000000000) :
    round_subsecs frac digits = .ok (apply_within frac (subsecMove true frac digits)) ∧
    trunc_subsecs frac digits = .ok (apply_within frac (subsecMove false frac digits)) := by
  have hlit := digitSpan_cases digits
  have l1 := subsec_move_lands true frac digits h0 h1
  have l2 := subsec_move_lands false frac digits h0 h1
  dsimp only at l1 l2
  have hv : TValid ⟨0, frac⟩ := ⟨Int.le_refl 0, (by show (0 : Int) < 86400; omega), h0, h1⟩
  have a1 := (addLeap_within ⟨0, frac⟩ _ _ _ hv l1).2
  have a2 := (addLeap_within ⟨0, frac⟩ _ _ _ hv l2).2
  dsimp only at a1 a2
  rw [a1, a2]
  exact ⟨round_subsecs_lit frac _ digits (span_for_digits_eq digits) rfl h0 h1 hlit,
    trunc_subsecs_lit frac _ digits (span_for_digits_eq digits) rfl h0 h1 hlit⟩

/-! ### the three receivers -/

/-- "the move `d` lands at field `f` with `c` seconds carried", as `subsec_move_lands` provides it -/
def Lands (frac d f c : Int) : Prop :=
  (c = 0 ∧ f = frac + d ∧ leapBase frac ≤ f ∧ f < leapBase frac + 1000000000) ∨
  (c = 1 ∧ f = 0 ∧ frac + d = leapBase frac + 1000000000)

theorem lands_zero (frac f c : Int) (h1 : frac < 2000000000) (h : Lands frac 0 f c) : c = 0 ∧ f = frac := by
  unfold Lands leapBase at h
  rcases h with h | h
  · exact ⟨h.1, by omega⟩
  · exfalso; have := h.2.2; split at this <;> omega

/-- `NaiveTime`: wraps around midnight, never panics -/
theorem time_move_within (t : Time) (d f c : Int) (ht : TValid t)
    (hd : -1000000000 < d ∧ d < 1000000000) (h : Lands t.frac d f c) :
    apply_move Time.add Time.sub t d = .ok ⟨(t.secs + c) % 86400, f⟩ := by
  have hw := (addLeap_within t d f c ht h).1
  unfold apply_move
  by_cases h0 : d = 0
  · subst h0
    obtain ⟨hc, hf⟩ := lands_zero t.frac f c ht.2.2.2 h
    rw [if_pos rfl, hc, hf]
    unfold TValid at ht
    have e : (t.secs + 0) % 86400 = t.secs := by omega
    rw [e]
  · rw [if_neg h0]
    by_cases hp : d > 0
    · rw [if_pos hp]
      obtain ⟨hi, hn⟩ := nanos_delta d ⟨by omega, by omega⟩
      unfold Time.add
      rw [add_spec' t _ ht hi, hn, hw]
      rfl
    · rw [if_neg hp]
      obtain ⟨hi, hn⟩ := nanos_delta (-d) ⟨by omega, by omega⟩
      unfold Time.sub
      rw [sub_spec' t _ ht hi, hn, Int.neg_neg, hw]
      rfl

/-- the day shift of C03's general statement, for a move inside or to the end of the current second -/
theorem within_general (dt : NaiveDT) (d f c : Int) (r : Option NaiveDT) (hdt : NDTInv dt)
    (h : Lands dt.time.frac d f c)
    (h1 : IsDayShift dt.date ((addLeap dt.time d).2 / 86400) (r.map (·.date)))
    (h2 : ∀ x, r = some x → x.time = (addLeap dt.time d).1) :
    (instSecs dt + c ≤ instSecs NaiveDT.MAX →
      ∃ v, r = some v ∧ NDTInv v ∧ v.time.frac = f ∧ instSecs v = instSecs dt + c) ∧
    (instSecs NaiveDT.MAX < instSecs dt + c → r = none) := by
  obtain ⟨hd, ht⟩ := hdt
  have hw := (addLeap_within dt.time d f c ht h).1
  have hv := (addLeap_facts dt.time d ht).1
  obtain ⟨c1, c2, _⟩ := dn_consts
  have hmax : instSecs NaiveDT.MAX = (95745399 - 719163) * 86400 + 86399 := by decide
  have hb := dn_bounds dt.date hd
  have hc01 : c = 0 ∨ c = 1 := by rcases h with h | h <;> omega
  unfold IsDayShift at h1
  rw [hw] at h1 h2 hv
  dsimp only at h1 h2 hv
  rw [c1, c2] at h1
  obtain ⟨h1a, h1b⟩ := h1
  unfold TValid at ht
  rw [hmax]
  unfold instSecs
  have hE : EPOCH_DAY = 719163 := rfl
  rw [hE]
  constructor
  · intro hle
    cases r with
    | none => exfalso; have := h1a.mp rfl; omega
    | some x =>
      have hx := h1b x.date rfl
      have ht' := h2 x rfl
      refine ⟨x, rfl, ⟨hx.1, by rw [ht']; exact hv⟩, by rw [ht'], ?_⟩
      rw [hx.2, ht']
      dsimp only
      omega
  · intro hgt
    cases r with
    | none => rfl
    | some x =>
      exfalso
      have : ¬ ((some x : Option NaiveDT).map (·.date) = none) := by simp
      apply this
      apply h1a.mpr
      omega

/-- `NaiveDateTime`: the `(field, carry)` pair is what happens to the value; `+` panics exactly when
the carried second would pass `NaiveDateTime::MAX` -/
theorem naive_move_within (dt : NaiveDT) (d f c : Int) (hdt : NDTInv dt)
    (hd : -1000000000 < d ∧ d < 1000000000) (h : Lands dt.time.frac d f c) :
    (instSecs dt + c ≤ instSecs NaiveDT.MAX →
      ∃ v, apply_move NaiveDT.add NaiveDT.sub dt d = .ok v ∧ NDTInv v ∧ v.time.frac = f ∧
        instSecs v = instSecs dt + c) ∧
    (instSecs NaiveDT.MAX < instSecs dt + c → apply_move NaiveDT.add NaiveDT.sub dt d = .panic) := by
  unfold apply_move
  by_cases h0 : d = 0
  · subst h0
    obtain ⟨hc, hf⟩ := lands_zero dt.time.frac f c hdt.2.2.2.2 h
    rw [if_pos rfl, hc, hf]
    have hin := (Chrono.Proofs.Ts.instSecs_range dt hdt).2
    have : instSecs NaiveDT.MAX = Chrono.Spec.Ts.TS_MAX := by decide
    exact ⟨fun _ => ⟨dt, rfl, hdt, rfl, by omega⟩, fun hh => by omega⟩
  · rw [if_neg h0]
    by_cases hp : d > 0
    · rw [if_pos hp]
      obtain ⟨hi, hn⟩ := nanos_delta d ⟨by omega, by omega⟩
      obtain ⟨r, e0, e1, e2⟩ := dt_add_general dt _ hdt hi
      rw [hn] at e1 e2
      obtain ⟨g1, g2⟩ := within_general dt d f c r hdt h e1 e2
      unfold NaiveDT.add
      rw [e0]
      refine ⟨fun hle => ?_, fun hgt => by rw [g2 hgt]; rfl⟩
      obtain ⟨v, hv, rest⟩ := g1 hle
      exact ⟨v, by rw [hv]; rfl, rest⟩
    · rw [if_neg hp]
      obtain ⟨hi, hn⟩ := nanos_delta (-d) ⟨by omega, by omega⟩
      obtain ⟨r, e0, e1, e2⟩ := dt_sub_general dt _ hdt hi
      rw [hn, Int.neg_neg] at e1 e2
      obtain ⟨g1, g2⟩ := within_general dt d f c r hdt h e1 e2
      unfold NaiveDT.sub
      rw [e0]
      refine ⟨fun hle => ?_, fun hgt => by rw [g2 hgt]; rfl⟩
      obtain ⟨v, hv, rest⟩ := g1 hle
      exact ⟨v, by rw [hv]; rfl, rest⟩

/-- `DateTime<FixedOffset>`: the UTC reading moves like a `NaiveDateTime`, the offset is kept -/
theorem zoned_move_within (z : Zoned) (d f c : Int) (hz : NDTInv z.utc)
    (hd : -1000000000 < d ∧ d < 1000000000) (h : Lands z.utc.time.frac d f c) :
    (instSecs z.utc + c ≤ instSecs NaiveDT.MAX →
      ∃ v, apply_move Zoned.add Zoned.sub z d = .ok ⟨v, z.off⟩ ∧ NDTInv v ∧ v.time.frac = f ∧
        instSecs v = instSecs z.utc + c) ∧
    (instSecs NaiveDT.MAX < instSecs z.utc + c → apply_move Zoned.add Zoned.sub z d = .panic) := by
  obtain ⟨n1, n2⟩ := naive_move_within z.utc d f c hz hd h
  unfold apply_move at n1 n2 ⊢
  by_cases h0 : d = 0
  · rw [if_pos h0] at n1 n2 ⊢
    refine ⟨fun hle => ?_, fun hgt => by have := n2 hgt; cases this⟩
    obtain ⟨v, hv, rest⟩ := n1 hle
    have : z.utc = v := Res.ok.inj hv
    exact ⟨v, by rw [← this], rest⟩
  · rw [if_neg h0] at n1 n2 ⊢
    by_cases hp : d > 0
    · rw [if_pos hp] at n1 n2 ⊢
      unfold Zoned.add
      unfold NaiveDT.add at n1 n2
      rw [zoned_add_eq]
      refine ⟨fun hle => ?_, fun hgt => ?_⟩
      · obtain ⟨v, hv, rest⟩ := n1 hle
        rw [(expectSome_iff _ v).mp hv]
        exact ⟨v, rfl, rest⟩
      · rcases (expectSome_panic _).mp (n2 hgt) with e | e <;> rw [e] <;> rfl
    · rw [if_neg hp] at n1 n2 ⊢
      unfold Zoned.sub
      unfold NaiveDT.sub at n1 n2
      rw [zoned_sub_eq]
      refine ⟨fun hle => ?_, fun hgt => ?_⟩
      · obtain ⟨v, hv, rest⟩ := n1 hle
        rw [(expectSome_iff _ v).mp hv]
        exact ⟨v, rfl, rest⟩
      · rcases (expectSome_panic _).mp (n2 hgt) with e | e <;> rw [e] <;> rfl

/-! ### the three `SubsecRound` impls -/

theorem time_subsecs_eval (round : Bool) (t : Time) (digits : Nat) (ht : TValid t) :
    time_subsecs round t digits =
      .ok ⟨(t.secs + (subsecSpec round t.frac digits).2) % 86400, (subsecSpec round t.frac digits).1⟩ := by
  have hf := ht.2.2
  unfold time_subsecs subsec_generic Time.nanosecond
  simp only []
  rw [subsec_move_eq round t.frac digits hf.1 hf.2]
  simp only []
  exact time_move_within t _ _ _ ht (subsecMove_bounds round t.frac digits hf.1 hf.2)
    (subsec_move_lands round t.frac digits hf.1 hf.2)

theorem naive_subsecs_eval (round : Bool) (dt : NaiveDT) (digits : Nat) (hdt : NDTInv dt) :
    (instSecs dt + (subsecSpec round dt.time.frac digits).2 ≤ instSecs NaiveDT.MAX →
      ∃ v, naive_subsecs round dt digits = .ok v ∧ NDTInv v ∧
        v.time.frac = (subsecSpec round dt.time.frac digits).1 ∧
        instSecs v = instSecs dt + (subsecSpec round dt.time.frac digits).2) ∧
    (instSecs NaiveDT.MAX < instSecs dt + (subsecSpec round dt.time.frac digits).2 →
      naive_subsecs round dt digits = .panic) := by
  have hf := hdt.2.2.2
  unfold naive_subsecs subsec_generic Time.nanosecond
  simp only []
  rw [subsec_move_eq round dt.time.frac digits hf.1 hf.2]
  simp only []
  exact naive_move_within dt _ _ _ hdt (subsecMove_bounds round dt.time.frac digits hf.1 hf.2)
    (subsec_move_lands round dt.time.frac digits hf.1 hf.2)

theorem zoned_subsecs_eval (round : Bool) (z : Zoned) (digits : Nat) (hz : ZInv z) :
    (instSecs z.utc + (subsecSpec round z.utc.time.frac digits).2 ≤ instSecs NaiveDT.MAX →
      ∃ v, zoned_subsecs round z digits = .ok ⟨v, z.off⟩ ∧ NDTInv v ∧
        v.time.frac = (subsecSpec round z.utc.time.frac digits).1 ∧
        instSecs v = instSecs z.utc + (subsecSpec round z.utc.time.frac digits).2) ∧
    (instSecs NaiveDT.MAX < instSecs z.utc + (subsecSpec round z.utc.time.frac digits).2 →
      zoned_subsecs round z digits = .panic) := by
  obtain ⟨l, hl, _, _, hfrac, _, _⟩ := naive_local_spec z hz
  have hf := hz.1.2.2.2
  unfold zoned_subsecs subsec_generic Zoned.nanosecond
  rw [hl]
  simp only [Res.bind, Time.nanosecond]
  rw [hfrac, subsec_move_eq round z.utc.time.frac digits hf.1 hf.2]
  simp only []
  exact zoned_move_within z _ _ _ hz.1 (subsecMove_bounds round z.utc.time.frac digits hf.1 hf.2)
    (subsec_move_lands round z.utc.time.frac digits hf.1 hf.2)

end Chrono.Proofs.RoundDt
