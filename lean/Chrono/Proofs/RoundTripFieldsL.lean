/-
  C13, fourth lemma file: along a token chain every setter call is made with the value's own field, so
  it succeeds and the record keeps agreeing with the value (`Supplied`); which fields are set is what
  `Spec.carries` says (`Tracks`).  These are the facts C14's completeness theorems need.
  Namespace `Chrono.Proofs.RoundTrip`.
-/
import Chrono.Proofs.RoundTripChainL

namespace Chrono.Proofs.RoundTrip
open Chrono Chrono.M Chrono.M.Scan Chrono.Spec Chrono.Spec.Fields Chrono.Extracted Chrono.Proofs Chrono.Proofs.ParsedRes

/-! ### setters called with a value the field already agrees with -/

theorem setIf_agree {α} [DecidableEq α] (old : Option α) (v : α) (h : ∀ x, old = some x → x = v) :
    Parsed.setIf old v = .ok (some v) := by
  unfold Parsed.setIf
  cases old with
  | none => rfl
  | some o => simp [h o rfl]

section setters
variable (p : Parsed) (v : Int)

theorem set_year_eq (hr : -2147483648 ≤ v ∧ v ≤ 2147483647) (h : optIs p.year v) :
    p.set_year v = .ok { p with year := some v } := by
  have : inI32 v = true := by simp [inI32, I32_MIN, I32_MAX, hr]
  simp only [Parsed.set_year, Parsed.toI32, this, if_true, setIf_agree _ _ h, bind, Except.bind, pure, Except.pure]
theorem set_isoyear_eq (hr : -2147483648 ≤ v ∧ v ≤ 2147483647) (h : optIs p.isoyear v) :
    p.set_isoyear v = .ok { p with isoyear := some v } := by
  have : inI32 v = true := by simp [inI32, I32_MIN, I32_MAX, hr]
  simp only [Parsed.set_isoyear, Parsed.toI32, this, if_true, setIf_agree _ _ h, bind, Except.bind, pure, Except.pure]
theorem set_offset_eq (hr : -2147483648 ≤ v ∧ v ≤ 2147483647) (h : optIs p.offset v) :
    p.set_offset v = .ok { p with offset := some v } := by
  have : inI32 v = true := by simp [inI32, I32_MIN, I32_MAX, hr]
  simp only [Parsed.set_offset, Parsed.toI32, this, if_true, setIf_agree _ _ h, bind, Except.bind, pure, Except.pure]
theorem set_timestamp_eq (h : optIs p.timestamp v) : p.set_timestamp v = .ok { p with timestamp := some v } := by
  simp only [Parsed.set_timestamp, setIf_agree _ _ h, bind, Except.bind, pure, Except.pure]
theorem set_year_div_100_eq (hr : 0 ≤ v ∧ v ≤ 2147483647) (h : optIs p.year_div_100 v) :
    p.set_year_div_100 v = .ok { p with year_div_100 := some v } := by
  have : 0 ≤ v ∧ v ≤ I32_MAX := hr
  simp only [Parsed.set_year_div_100, Parsed.inRange, this, and_self, if_true, setIf_agree _ _ h, bind, Except.bind, pure, Except.pure]
theorem set_isoyear_div_100_eq (hr : 0 ≤ v ∧ v ≤ 2147483647) (h : optIs p.isoyear_div_100 v) :
    p.set_isoyear_div_100 v = .ok { p with isoyear_div_100 := some v } := by
  have : 0 ≤ v ∧ v ≤ I32_MAX := hr
  simp only [Parsed.set_isoyear_div_100, Parsed.inRange, this, and_self, if_true, setIf_agree _ _ h, bind, Except.bind, pure, Except.pure]
theorem set_year_mod_100_eq (hr : 0 ≤ v ∧ v ≤ 99) (h : optIs p.year_mod_100 v) :
    p.set_year_mod_100 v = .ok { p with year_mod_100 := some v } := by
  simp only [Parsed.set_year_mod_100, Parsed.inRange, hr, and_self, if_true, setIf_agree _ _ h, bind, Except.bind, pure, Except.pure]
theorem set_isoyear_mod_100_eq (hr : 0 ≤ v ∧ v ≤ 99) (h : optIs p.isoyear_mod_100 v) :
    p.set_isoyear_mod_100 v = .ok { p with isoyear_mod_100 := some v } := by
  simp only [Parsed.set_isoyear_mod_100, Parsed.inRange, hr, and_self, if_true, setIf_agree _ _ h, bind, Except.bind, pure, Except.pure]
theorem set_quarter_eq (hr : 1 ≤ v ∧ v ≤ 4) (h : optIs p.quarter v) :
    p.set_quarter v = .ok { p with quarter := some v } := by
  simp only [Parsed.set_quarter, Parsed.inRange, hr, and_self, if_true, setIf_agree _ _ h, bind, Except.bind, pure, Except.pure]
theorem set_month_eq (hr : 1 ≤ v ∧ v ≤ 12) (h : optIs p.month v) :
    p.set_month v = .ok { p with month := some v } := by
  simp only [Parsed.set_month, Parsed.inRange, hr, and_self, if_true, setIf_agree _ _ h, bind, Except.bind, pure, Except.pure]
theorem set_week_from_sun_eq (hr : 0 ≤ v ∧ v ≤ 53) (h : optIs p.week_from_sun v) :
    p.set_week_from_sun v = .ok { p with week_from_sun := some v } := by
  simp only [Parsed.set_week_from_sun, Parsed.inRange, hr, and_self, if_true, setIf_agree _ _ h, bind, Except.bind, pure, Except.pure]
theorem set_week_from_mon_eq (hr : 0 ≤ v ∧ v ≤ 53) (h : optIs p.week_from_mon v) :
    p.set_week_from_mon v = .ok { p with week_from_mon := some v } := by
  simp only [Parsed.set_week_from_mon, Parsed.inRange, hr, and_self, if_true, setIf_agree _ _ h, bind, Except.bind, pure, Except.pure]
theorem set_isoweek_eq (hr : 1 ≤ v ∧ v ≤ 53) (h : optIs p.isoweek v) :
    p.set_isoweek v = .ok { p with isoweek := some v } := by
  simp only [Parsed.set_isoweek, Parsed.inRange, hr, and_self, if_true, setIf_agree _ _ h, bind, Except.bind, pure, Except.pure]
theorem set_ordinal_eq (hr : 1 ≤ v ∧ v ≤ 366) (h : optIs p.ordinal v) :
    p.set_ordinal v = .ok { p with ordinal := some v } := by
  simp only [Parsed.set_ordinal, Parsed.inRange, hr, and_self, if_true, setIf_agree _ _ h, bind, Except.bind, pure, Except.pure]
theorem set_day_eq (hr : 1 ≤ v ∧ v ≤ 31) (h : optIs p.day v) :
    p.set_day v = .ok { p with day := some v } := by
  simp only [Parsed.set_day, Parsed.inRange, hr, and_self, if_true, setIf_agree _ _ h, bind, Except.bind, pure, Except.pure]
theorem set_minute_eq (hr : 0 ≤ v ∧ v ≤ 59) (h : optIs p.minute v) :
    p.set_minute v = .ok { p with minute := some v } := by
  simp only [Parsed.set_minute, Parsed.inRange, hr, and_self, if_true, setIf_agree _ _ h, bind, Except.bind, pure, Except.pure]
theorem set_second_eq (hr : 0 ≤ v ∧ v ≤ 60) (h : optIs p.second v) :
    p.set_second v = .ok { p with second := some v } := by
  simp only [Parsed.set_second, Parsed.inRange, hr, and_self, if_true, setIf_agree _ _ h, bind, Except.bind, pure, Except.pure]
theorem set_nanosecond_eq (hr : 0 ≤ v ∧ v ≤ 999999999) (h : optIs p.nanosecond v) :
    p.set_nanosecond v = .ok { p with nanosecond := some v } := by
  simp only [Parsed.set_nanosecond, Parsed.inRange, hr, and_self, if_true, setIf_agree _ _ h, bind, Except.bind, pure, Except.pure]
theorem set_hour_eq (hr : 0 ≤ v ∧ v ≤ 23) (h1 : optIs p.hour_div_12 (v / 12)) (h2 : optIs p.hour_mod_12 (v % 12)) :
    p.set_hour v = .ok { p with hour_div_12 := some (v / 12), hour_mod_12 := some (v % 12) } := by
  have e1 : (if v ≤ 11 then ((0 : Int), v) else (1, v - 12)) = (v / 12, v % 12) := by
    split <;> (congr 1 <;> omega)
  simp only [Parsed.set_hour, Parsed.inRange, hr, and_self, if_true, bind, Except.bind, pure, Except.pure, e1,
    setIf_agree _ _ h1, setIf_agree _ _ h2]
theorem set_hour12_eq (w : Int) (hr : 1 ≤ v ∧ v ≤ 12) (hw : w = (if v = 12 then 0 else v)) (h : optIs p.hour_mod_12 w) :
    p.set_hour12 v = .ok { p with hour_mod_12 := some w } := by
  subst hw
  simp only [Parsed.set_hour12, Parsed.inRange, hr, and_self, if_true, setIf_agree _ _ h, bind, Except.bind, pure, Except.pure]
end setters

theorem set_ampm_eq (p : Parsed) (pm : Bool) (h : optIs p.hour_div_12 (if pm then 1 else 0)) :
    p.set_ampm pm = .ok { p with hour_div_12 := some (if pm then 1 else 0) } := by
  simp only [Parsed.set_ampm, setIf_agree _ _ h, bind, Except.bind, pure, Except.pure]
theorem set_weekday_eq (p : Parsed) (w : Weekday) (h : ∀ x, p.weekday = some x → x = w) :
    p.set_weekday w = .ok { p with weekday := some w } := by
  simp only [Parsed.set_weekday, setIf_agree _ _ h, bind, Except.bind, pure, Except.pure]

/-! ### the value's own fields -/

/-- the field values of the value a context shows: day `(Y, o)`, its ISO year/week and weekday, the
time of day, the fraction value the items print (`nv`), the printed offset, the timestamp -/
structure Truth where
  Y : Int
  o : Nat
  IY : Int
  IW : Int
  wd : Weekday
  t : Time
  nv : Int
  offv : Int
  tsv : Int

/-- every supplied field of the record is the value's field -/
structure Supplied (p : Parsed) (tr : Truth) : Prop where
  year : optIs p.year tr.Y
  year_div : ∀ x, p.year_div_100 = some x → 0 ≤ tr.Y ∧ x = tr.Y / 100
  year_mod : ∀ x, p.year_mod_100 = some x → 0 ≤ tr.Y ∧ x = tr.Y % 100
  isoyear : optIs p.isoyear tr.IY
  isoyear_div : ∀ x, p.isoyear_div_100 = some x → 0 ≤ tr.IY ∧ x = tr.IY / 100
  isoyear_mod : ∀ x, p.isoyear_mod_100 = some x → 0 ≤ tr.IY ∧ x = tr.IY % 100
  quarter : optIs p.quarter (quarterOfMonth (monthOfYo tr.Y tr.o))
  month : optIs p.month (monthOfYo tr.Y tr.o)
  week_from_sun : optIs p.week_from_sun (weekNo tr.Y tr.o 6)
  week_from_mon : optIs p.week_from_mon (weekNo tr.Y tr.o 0)
  isoweek : optIs p.isoweek tr.IW
  weekday : ∀ w, p.weekday = some w → w = tr.wd
  ordinal : optIs p.ordinal tr.o
  day : optIs p.day (dayOfYo tr.Y tr.o)
  hour_div : optIs p.hour_div_12 (hourOf tr.t / 12)
  hour_mod : optIs p.hour_mod_12 (hourOf tr.t % 12)
  minute : optIs p.minute (minuteOf tr.t)
  second : optIs p.second (secondOf tr.t + tr.t.frac / 1000000000)
  nano : optIs p.nanosecond tr.nv
  timestamp : optIs p.timestamp tr.tsv
  offset : optIs p.offset tr.offv

/-- the fields that are set are exactly the ones the items carry -/
structure Tracks (p : Parsed) (cr : Carries) (nv : Int) : Prop where
  year : p.year.isSome = cr.year
  year_div : p.year_div_100.isSome = cr.yearDiv
  year_mod : p.year_mod_100.isSome = cr.yearMod
  isoyear : p.isoyear.isSome = cr.isoYear
  isoyear_div : p.isoyear_div_100.isSome = cr.isoYearDiv
  isoyear_mod : p.isoyear_mod_100.isSome = cr.isoYearMod
  quarter : p.quarter.isSome = cr.quarter
  month : p.month.isSome = cr.month
  week_from_sun : p.week_from_sun.isSome = cr.weekSun
  week_from_mon : p.week_from_mon.isSome = cr.weekMon
  isoweek : p.isoweek.isSome = cr.isoWeek
  weekday : p.weekday.isSome = cr.weekday
  ordinal : p.ordinal.isSome = cr.ordinal
  day : p.day.isSome = cr.day
  hour_div : p.hour_div_12.isSome = (cr.hour24 || cr.ampm)
  hour_mod : p.hour_mod_12.isSome = (cr.hour24 || cr.hour12)
  minute : p.minute.isSome = cr.minute
  second : p.second.isSome = cr.second
  nano1 : p.nanosecond.isSome = true → cr.nano = true
  nano2 : cr.nano = true → p.nanosecond.isSome = true ∨ nv = 0
  timestamp : p.timestamp.isSome = cr.timestamp
  offset : p.offset.isSome = cr.offset

theorem supplied_new (tr : Truth) : Supplied Parsed.new tr := by
  constructor <;> intro x h <;> cases h

theorem tracks_new (nv : Int) : Tracks Parsed.new {} nv := by
  constructor <;> first | rfl | (intro h; cases h)

/-- the context shows the value whose fields are `tr` -/
structure CtxTruth (c : Ctx) (tr : Truth) : Prop where
  date : ∀ d, c.date = some d → d = dateOfYo tr.Y tr.o ∧ VD tr.Y tr.o ∧
    (∃ w, d.iso_week = .ok w ∧ IsoWeek.year w = tr.IY ∧ IsoWeek.week w = tr.IW) ∧ d.weekday = tr.wd
  time : ∀ t, c.time = some t → t = tr.t ∧ TValid t
  off : ∀ x, c.off = some x → tr.offv = roundedOffset x.2 ∧ -86400 < x.2 ∧ x.2 < 86400
  ts : ∀ v, numVal c .timestamp = some v → v = tr.tsv

/-- field-level expressibility of one item: two-digit year fields exist only for years ≥ 0, and every
fraction item prints the fraction `nv` the format prints as a whole -/
def ItemTruth (tr : Truth) : Item → Prop
  | .numeric .yearDiv100 _ | .numeric .yearMod100 _ => 0 ≤ tr.Y
  | .numeric .isoYearDiv100 _ | .numeric .isoYearMod100 _ => 0 ≤ tr.IY
  | .numeric .nanosecond _ | .fixed .nanosecond | .fixed .nanosecond9 | .fixed .nanosecond9NoDot =>
    tr.t.frac % 1000000000 = tr.nv
  | .fixed .nanosecond3 | .fixed .nanosecond3NoDot => tr.t.frac / 1000000 % 1000 * 1000000 = tr.nv
  | .fixed .nanosecond6 | .fixed .nanosecond6NoDot => tr.t.frac / 1000 % 1000000 * 1000 = tr.nv
  | _ => True

/-- the number a numeric item denotes, in terms of the value's fields -/
def truthVal (tr : Truth) : Numeric → Int
  | .year => tr.Y
  | .yearDiv100 => tr.Y / 100
  | .yearMod100 => tr.Y % 100
  | .isoYear => tr.IY
  | .isoYearDiv100 => tr.IY / 100
  | .isoYearMod100 => tr.IY % 100
  | .quarter => quarterOfMonth (monthOfYo tr.Y tr.o)
  | .month => monthOfYo tr.Y tr.o
  | .day => dayOfYo tr.Y tr.o
  | .weekFromSun => weekNo tr.Y tr.o 6
  | .weekFromMon => weekNo tr.Y tr.o 0
  | .isoWeek => tr.IW
  | .numDaysFromSun => tr.wd.num_days_from_sunday
  | .weekdayFromMon => tr.wd.number_from_monday
  | .ordinal => tr.o
  | .hour => hourOf tr.t
  | .hour12 => if hourOf tr.t % 12 = 0 then 12 else hourOf tr.t % 12
  | .minute => minuteOf tr.t
  | .second => secondOf tr.t + tr.t.frac / 1000000000
  | .nanosecond => tr.t.frac % 1000000000
  | .timestamp => tr.tsv

theorem numVal_truth (c : Ctx) (tr : Truth) (h : CtxTruth c tr) (n : Numeric) (v : Int)
    (hv : numVal c n = some v) : v = truthVal tr n := by
  have dateCase : ∀ (f : Date → Option Int), c.date.bind f = some v →
      ∃ d, c.date = some d ∧ f d = some v := by
    intro f hf
    cases hd : c.date with
    | none => rw [hd] at hf; cases hf
    | some d => rw [hd] at hf; exact ⟨d, rfl, hf⟩
  have timeCase : ∀ (f : Time → Int), c.time.map f = some v → f tr.t = v := by
    intro f hf
    cases ht : c.time with
    | none => rw [ht] at hf; cases hf
    | some t =>
      rw [ht] at hf
      obtain ⟨rfl, _⟩ := h.time t ht
      simpa using hf
  have withDate : ∀ d, c.date = some d →
      d = dateOfYo tr.Y tr.o ∧ d.year = tr.Y ∧ d.ordinal = tr.o ∧ d.month = .ok (monthOfYo tr.Y tr.o) ∧
      d.day = .ok (dayOfYo tr.Y tr.o) ∧ Format.weeks_from d .sun = weekNo tr.Y tr.o 6 ∧
      Format.weeks_from d .mon = weekNo tr.Y tr.o 0 ∧ 1 ≤ monthOfYo tr.Y tr.o ∧
      (∃ w, d.iso_week = .ok w ∧ IsoWeek.year w = tr.IY ∧ IsoWeek.week w = tr.IW) ∧ d.weekday = tr.wd := by
    intro d hd
    obtain ⟨rfl, hvd, hw, hwd⟩ := h.date d hd
    obtain ⟨f1, f2, _, _, _, _, f3, f4, f5, _, _, _, f6, f7, _⟩ := date_facts tr.Y tr.o hvd
    exact ⟨rfl, f1, f2, f3, f4, f6, f7, f5, hw, hwd⟩
  have tsecs : ∀ t : Time, TValid t → t.hour = hourOf t ∧ t.minute = minuteOf t ∧ t.second = secondOf t := by
    intro t ht
    unfold Time.hour Time.minute Time.second Time.hms hourOf minuteOf secondOf
    dsimp only
    obtain ⟨a, b, _⟩ := ht
    refine ⟨by omega, by omega, rfl⟩
  have htv : ∀ t, c.time = some t → t = tr.t ∧ TValid tr.t := by
    intro t ht; obtain ⟨rfl, hv⟩ := h.time t ht; exact ⟨rfl, hv⟩
  cases n with
  | timestamp => exact h.ts v hv
  | year | yearDiv100 | yearMod100 | weekFromSun | weekFromMon | numDaysFromSun | weekdayFromMon | ordinal =>
    simp only [numVal] at hv
    cases hd : c.date with
    | none => rw [hd] at hv; cases hv
    | some d =>
      obtain ⟨_, f1, f2, _, _, f6, f7, _, _, hwd⟩ := withDate d hd
      rw [hd] at hv
      simp only [Option.map_some, Option.some.injEq] at hv
      simp only [truthVal, ← hv, f1, f2, f6, f7, hwd]
  | isoYear | isoYearDiv100 | isoYearMod100 | isoWeek =>
    simp only [numVal] at hv
    obtain ⟨d, hd, hv⟩ := dateCase _ hv
    obtain ⟨_, _, _, _, _, _, _, _, ⟨w, hw, hy, hk⟩, _⟩ := withDate d hd
    rw [hw] at hv
    simp only [Option.some.injEq] at hv
    simp only [truthVal, ← hv, hy, hk]
  | quarter | month =>
    simp only [numVal] at hv
    obtain ⟨d, hd, hv⟩ := dateCase _ hv
    obtain ⟨_, _, _, hm, _, _, _, m1, _, _⟩ := withDate d hd
    rw [hm] at hv
    simp only [Option.some.injEq] at hv
    simp only [truthVal, ← hv, Format.quarter, quarterOfMonth]
    try omega
  | day =>
    simp only [numVal] at hv
    obtain ⟨d, hd, hv⟩ := dateCase _ hv
    obtain ⟨_, _, _, _, hdd, _⟩ := withDate d hd
    rw [hdd] at hv
    simp only [Option.some.injEq] at hv
    simp only [truthVal, ← hv]
  | hour =>
    have := timeCase _ hv
    cases ht : c.time with
    | none => simp [numVal, ht] at hv
    | some t => obtain ⟨rfl, hval⟩ := htv t ht; rw [← this, truthVal, (tsecs _ hval).1]
  | hour12 =>
    have := timeCase _ hv
    cases ht : c.time with
    | none => simp [numVal, ht] at hv
    | some t =>
      obtain ⟨rfl, hval⟩ := htv t ht
      rw [← this, truthVal]
      simp only [Time.hour12, (tsecs _ hval).1]
  | minute =>
    have := timeCase _ hv
    cases ht : c.time with
    | none => simp [numVal, ht] at hv
    | some t => obtain ⟨rfl, hval⟩ := htv t ht; rw [← this, truthVal, (tsecs _ hval).2.1]
  | second =>
    have := timeCase _ hv
    cases ht : c.time with
    | none => simp [numVal, ht] at hv
    | some t =>
      obtain ⟨rfl, hval⟩ := htv t ht
      rw [← this, truthVal, (tsecs _ hval).2.2]; rfl
  | nanosecond =>
    have := timeCase _ hv
    rw [← this, truthVal]; rfl

theorem set_wd_sun (p : Parsed) (wd : Weekday) :
    Parsed.set_weekday_with_num_days_from_sunday p ((wd.num_days_from_sunday : Nat) : Int) = p.set_weekday wd := by
  cases wd <;> rfl
theorem set_wd_mon (p : Parsed) (wd : Weekday) :
    Parsed.set_weekday_with_number_from_monday p ((wd.number_from_monday : Nat) : Int) = p.set_weekday wd := by
  cases wd <;> rfl

/-- ranges of the value's fields -/
structure TruthOk (tr : Truth) : Prop where
  vd : VD tr.Y tr.o
  iy : -1000000 < tr.IY ∧ tr.IY < 1000000
  iw : 1 ≤ tr.IW ∧ tr.IW ≤ 53
  t : TValid tr.t
  nv : 0 ≤ tr.nv ∧ tr.nv ≤ 999999999
  off : -86400 ≤ tr.offv ∧ tr.offv ≤ 86400
  wd : ((tr.wd.toNat : Nat) : Int) = weekdayOf (dayNumYo tr.Y tr.o)
  iso : ∃ w, (dateOfYo tr.Y tr.o).iso_week = .ok w ∧ IsoWeek.year w = tr.IY ∧ IsoWeek.week w = tr.IW

/-- **one setter call of the chain**: made with the value's own field it succeeds, the record keeps
agreeing with the value, and exactly the item's fields become set -/
theorem step_fields (c : Ctx) (tr : Truth) (hc : CtxTruth c tr) (hok : TruthOk tr) (it : Item)
    (hp : provedItem it = true) (hx : ItemTruth tr it) (set : Parsed → PRes Parsed)
    (hfc : fieldCall c it = some set) (p : Parsed) (cr : Carries) (hS : Supplied p tr) (hT : Tracks p cr tr.nv) :
    ∃ p', set p = .ok p' ∧ Supplied p' tr ∧ Tracks p' (carriesItem cr it) tr.nv := by
  obtain ⟨hY1, hY2, ho1, ho2⟩ := hok.vd
  have hMIN : MIN_YEAR = -262143 := rfl
  have hMAX : MAX_YEAR = 262142 := rfl
  obtain ⟨_, _, _, o366, _, _, _, _, m1, m2, d1, d2, _, _, ws1, ws2, wm1, wm2, _⟩ := date_facts tr.Y tr.o hok.vd
  obtain ⟨t1, t2, t3, t4⟩ := hok.t
  have hh : 0 ≤ hourOf tr.t ∧ hourOf tr.t ≤ 23 := by unfold hourOf; omega
  have hmi : 0 ≤ minuteOf tr.t ∧ minuteOf tr.t ≤ 59 := by unfold minuteOf; omega
  have hse : 0 ≤ secondOf tr.t + tr.t.frac / 1000000000 ∧ secondOf tr.t + tr.t.frac / 1000000000 ≤ 60 := by
    unfold secondOf; omega
  cases it with
  | literal s =>
    cases hfc
    exact ⟨p, rfl, hS, by cases cr; exact hT⟩
  | space s =>
    cases hfc
    exact ⟨p, rfl, hS, by cases cr; exact hT⟩
  | error => cases hp
  | numeric n pad =>
    simp only [fieldCall, Option.map_eq_some_iff] at hfc
    obtain ⟨v, hv, rfl⟩ := hfc
    have hv' := numVal_truth c tr hc n v hv
    subst hv'
    cases n with
    | year =>
      exact ⟨_, set_year_eq p _ (by simp only [truthVal]; omega) hS.year,
        { hS with year := fun x h => by cases h; rfl }, { hT with year := rfl }⟩
    | yearDiv100 =>
      have h0 : 0 ≤ tr.Y := hx
      exact ⟨_, set_year_div_100_eq p _ (by simp only [truthVal]; omega)
          (fun x h => (hS.year_div x h).2),
        { hS with year_div := fun x h => by cases h; exact ⟨h0, rfl⟩ }, { hT with year_div := rfl }⟩
    | yearMod100 =>
      have h0 : 0 ≤ tr.Y := hx
      exact ⟨_, set_year_mod_100_eq p _ (by simp only [truthVal]; omega)
          (fun x h => (hS.year_mod x h).2),
        { hS with year_mod := fun x h => by cases h; exact ⟨h0, rfl⟩ }, { hT with year_mod := rfl }⟩
    | isoYear =>
      exact ⟨_, set_isoyear_eq p _ (by simp only [truthVal]; have := hok.iy; omega) hS.isoyear,
        { hS with isoyear := fun x h => by cases h; rfl }, { hT with isoyear := rfl }⟩
    | isoYearDiv100 =>
      have h0 : 0 ≤ tr.IY := hx
      exact ⟨_, set_isoyear_div_100_eq p _ (by simp only [truthVal]; have := hok.iy; omega)
          (fun x h => (hS.isoyear_div x h).2),
        { hS with isoyear_div := fun x h => by cases h; exact ⟨h0, rfl⟩ }, { hT with isoyear_div := rfl }⟩
    | isoYearMod100 =>
      have h0 : 0 ≤ tr.IY := hx
      exact ⟨_, set_isoyear_mod_100_eq p _ (by simp only [truthVal]; omega)
          (fun x h => (hS.isoyear_mod x h).2),
        { hS with isoyear_mod := fun x h => by cases h; exact ⟨h0, rfl⟩ }, { hT with isoyear_mod := rfl }⟩
    | quarter =>
      exact ⟨_, set_quarter_eq p _ (by simp only [truthVal, quarterOfMonth]; omega) hS.quarter,
        { hS with quarter := fun x h => by cases h; rfl }, { hT with quarter := rfl }⟩
    | month =>
      exact ⟨_, set_month_eq p _ (by simp only [truthVal]; omega) hS.month,
        { hS with month := fun x h => by cases h; rfl }, { hT with month := rfl }⟩
    | day =>
      exact ⟨_, set_day_eq p _ (by simp only [truthVal]; omega) hS.day,
        { hS with day := fun x h => by cases h; rfl }, { hT with day := rfl }⟩
    | weekFromSun =>
      exact ⟨_, set_week_from_sun_eq p _ ⟨ws1, ws2⟩ hS.week_from_sun,
        { hS with week_from_sun := fun x h => by cases h; rfl }, { hT with week_from_sun := rfl }⟩
    | weekFromMon =>
      exact ⟨_, set_week_from_mon_eq p _ ⟨wm1, wm2⟩ hS.week_from_mon,
        { hS with week_from_mon := fun x h => by cases h; rfl }, { hT with week_from_mon := rfl }⟩
    | isoWeek =>
      exact ⟨_, set_isoweek_eq p _ hok.iw hS.isoweek,
        { hS with isoweek := fun x h => by cases h; rfl }, { hT with isoweek := rfl }⟩
    | numDaysFromSun =>
      refine ⟨{ p with weekday := some tr.wd }, ?_, { hS with weekday := fun x h => by cases h; rfl },
        { hT with weekday := rfl }⟩
      show Parsed.set_weekday_with_num_days_from_sunday p _ = _
      rw [truthVal, set_wd_sun, set_weekday_eq p _ hS.weekday]
    | weekdayFromMon =>
      refine ⟨{ p with weekday := some tr.wd }, ?_, { hS with weekday := fun x h => by cases h; rfl },
        { hT with weekday := rfl }⟩
      show Parsed.set_weekday_with_number_from_monday p _ = _
      rw [truthVal, set_wd_mon, set_weekday_eq p _ hS.weekday]
    | ordinal =>
      exact ⟨_, set_ordinal_eq p _ (by simp only [truthVal]; omega) hS.ordinal,
        { hS with ordinal := fun x h => by cases h; rfl }, { hT with ordinal := rfl }⟩
    | hour =>
      exact ⟨_, set_hour_eq p _ hh hS.hour_div hS.hour_mod,
        { hS with hour_div := fun x h => by cases h; rfl, hour_mod := fun x h => by cases h; rfl },
        { hT with hour_div := rfl, hour_mod := rfl }⟩
    | hour12 =>
      refine ⟨_, set_hour12_eq p _ (hourOf tr.t % 12) ?_ ?_ hS.hour_mod,
        { hS with hour_mod := fun x h => by cases h; rfl },
        { hT with hour_mod := by simp [carriesItem] }⟩
      · simp only [truthVal]; split <;> omega
      · simp only [truthVal]; split <;> split <;> omega
    | minute =>
      exact ⟨_, set_minute_eq p _ hmi hS.minute,
        { hS with minute := fun x h => by cases h; rfl }, { hT with minute := rfl }⟩
    | second =>
      exact ⟨_, set_second_eq p _ hse hS.second,
        { hS with second := fun x h => by cases h; rfl }, { hT with second := rfl }⟩
    | nanosecond =>
      have e : truthVal tr .nanosecond = tr.nv := hx
      rw [e]
      exact ⟨_, set_nanosecond_eq p _ hok.nv hS.nano, { hS with nano := fun x h => by cases h; rfl },
        { hT with nano1 := fun _ => rfl, nano2 := fun _ => Or.inl rfl }⟩
    | timestamp =>
      exact ⟨_, set_timestamp_eq p _ hS.timestamp,
        { hS with timestamp := fun x h => by cases h; rfl }, { hT with timestamp := rfl }⟩
  | fixed f =>
    have monthCase : ∀ set, ((numVal c .month).map fun (m : Int) (p : Parsed) => p.set_month m) = some set →
        ∃ p', set p = .ok p' ∧ Supplied p' tr ∧ Tracks p' { cr with month := true } tr.nv := by
      intro set h
      simp only [Option.map_eq_some_iff] at h
      obtain ⟨v, hv, rfl⟩ := h
      have hv' := numVal_truth c tr hc .month v hv
      subst hv'
      exact ⟨_, set_month_eq p _ (by simp only [truthVal]; omega) hS.month,
        { hS with month := fun x h => by cases h; rfl }, { hT with month := rfl }⟩
    have wdCase : ∀ set, (c.date.map fun (d : Date) (p : Parsed) => p.set_weekday d.weekday) = some set →
        ∃ p', set p = .ok p' ∧ Supplied p' tr ∧ Tracks p' { cr with weekday := true } tr.nv := by
      intro set h
      simp only [Option.map_eq_some_iff] at h
      obtain ⟨d, hd, rfl⟩ := h
      obtain ⟨_, _, _, hwd⟩ := hc.date d hd
      rw [hwd]
      exact ⟨_, set_weekday_eq p _ hS.weekday, { hS with weekday := fun x h => by cases h; rfl },
        { hT with weekday := rfl }⟩
    have ampmCase : ∀ set, (c.time.map fun (t : Time) (p : Parsed) => p.set_ampm t.hour12.1) = some set →
        ∃ p', set p = .ok p' ∧ Supplied p' tr ∧ Tracks p' { cr with ampm := true } tr.nv := by
      intro set h
      simp only [Option.map_eq_some_iff] at h
      obtain ⟨t, ht, rfl⟩ := h
      obtain ⟨rfl, _⟩ := hc.time t ht
      have e : (if tr.t.hour12.1 = true then (1 : Int) else 0) = hourOf tr.t / 12 := by
        simp only [Time.hour12, Time.hour, Time.hms, hourOf]
        by_cases hge : tr.t.secs / 60 / 60 ≥ 12
        · simp only [hge, decide_true, if_true]; omega
        · simp only [hge, decide_false, Bool.false_eq_true, if_false]; omega
      refine ⟨_, set_ampm_eq p _ (by rw [e]; exact hS.hour_div),
        { hS with hour_div := fun x h => by cases h; exact e }, { hT with hour_div := by simp }⟩
    have nanoCase : ∀ (g : Time → Int), g tr.t = tr.nv → ∀ set,
        (c.time.map fun (t : Time) (p : Parsed) => p.set_nanosecond (g t)) = some set →
        ∃ p', set p = .ok p' ∧ Supplied p' tr ∧ Tracks p' { cr with nano := true } tr.nv := by
      intro g hg set h
      simp only [Option.map_eq_some_iff] at h
      obtain ⟨t, ht, rfl⟩ := h
      obtain ⟨rfl, _⟩ := hc.time t ht
      dsimp only
      rw [hg]
      exact ⟨_, set_nanosecond_eq p _ hok.nv hS.nano, { hS with nano := fun x h => by cases h; rfl },
        { hT with nano1 := fun _ => rfl, nano2 := fun _ => Or.inl rfl }⟩
    have offCase : ∀ set, (c.off.map fun (o : List Nat × Int) (p : Parsed) => p.set_offset (roundedOffset o.2)) = some set →
        ∃ p', set p = .ok p' ∧ Supplied p' tr ∧ Tracks p' { cr with offset := true } tr.nv := by
      intro set h
      simp only [Option.map_eq_some_iff] at h
      obtain ⟨x, hx', rfl⟩ := h
      obtain ⟨e, _, _⟩ := hc.off x hx'
      dsimp only
      rw [← e]
      exact ⟨_, set_offset_eq p _ (by have := hok.off; omega) hS.offset,
        { hS with offset := fun x h => by cases h; rfl }, { hT with offset := rfl }⟩
    cases f with
    | shortMonthName => exact monthCase set hfc
    | longMonthName => exact monthCase set hfc
    | shortWeekdayName => exact wdCase set hfc
    | longWeekdayName => exact wdCase set hfc
    | lowerAmPm => exact ampmCase set hfc
    | upperAmPm => exact ampmCase set hfc
    | nanosecond =>
      simp only [fieldCall, Option.map_eq_some_iff] at hfc
      obtain ⟨t, ht, rfl⟩ := hfc
      obtain ⟨rfl, _⟩ := hc.time t ht
      have hn : tr.t.nanosecond % 1000000000 = tr.nv := hx
      dsimp only
      by_cases h0 : tr.t.nanosecond % 1000000000 = 0
      · rw [if_pos h0]
        exact ⟨p, rfl, hS, { hT with nano1 := fun _ => rfl, nano2 := fun _ => Or.inr (by rw [← hn]; exact h0) }⟩
      · rw [if_neg h0, hn]
        exact ⟨_, set_nanosecond_eq p _ hok.nv hS.nano, { hS with nano := fun x h => by cases h; rfl },
          { hT with nano1 := fun _ => rfl, nano2 := fun _ => Or.inl rfl }⟩
    | nanosecond3 => exact nanoCase (fun t => t.nanosecond / 1000000 % 1000 * 1000000) hx set hfc
    | nanosecond3NoDot => exact nanoCase (fun t => t.nanosecond / 1000000 % 1000 * 1000000) hx set hfc
    | nanosecond6 => exact nanoCase (fun t => t.nanosecond / 1000 % 1000000 * 1000) hx set hfc
    | nanosecond6NoDot => exact nanoCase (fun t => t.nanosecond / 1000 % 1000000 * 1000) hx set hfc
    | nanosecond9 => exact nanoCase (fun t => t.nanosecond % 1000000000) hx set hfc
    | nanosecond9NoDot => exact nanoCase (fun t => t.nanosecond % 1000000000) hx set hfc
    | timezoneOffset => exact offCase set hfc
    | timezoneOffsetColon => exact offCase set hfc
    | _ => exact absurd hp (by simp [provedItem])

/-- **all setter calls of a chain** -/
theorem chain_fields (c : Ctx) (tr : Truth) (hc : CtxTruth c tr) (hok : TruthOk tr) :
    ∀ (is : List Item) (tks : List Tok) (p : Parsed) (cr : Carries), TokensOf c is tks →
    (∀ it ∈ is, provedItem it = true) → (∀ it ∈ is, ItemTruth tr it) → Supplied p tr → Tracks p cr tr.nv →
    ∃ p', applyAll tks p = .ok p' ∧ Supplied p' tr ∧ Tracks p' (is.foldl carriesItem cr) tr.nv := by
  intro is
  induction is with
  | nil =>
    intro tks p cr h _ _ hS hT
    cases tks with
    | nil => exact ⟨p, rfl, hS, hT⟩
    | cons _ _ => exact absurd h (by simp [TokensOf])
  | cons it is ih =>
    intro tks p cr h hp hx hS hT
    cases tks with
    | nil => exact absurd h (by simp [TokensOf])
    | cons tk tks =>
      obtain ⟨⟨_, hfc⟩, htl⟩ := h
      obtain ⟨p1, h1, hS1, hT1⟩ := step_fields c tr hc hok it (hp it List.mem_cons_self)
        (hx it List.mem_cons_self) tk.set hfc p cr hS hT
      obtain ⟨p2, h2, hS2, hT2⟩ := ih tks p1 (carriesItem cr it) htl
        (fun x hx' => hp x (List.mem_cons_of_mem _ hx')) (fun x hx' => hx x (List.mem_cons_of_mem _ hx')) hS1 hT1
      exact ⟨p2, by simp only [applyAll, h1, h2], hS2, by simpa [List.foldl_cons] using hT2⟩

end Chrono.Proofs.RoundTrip
