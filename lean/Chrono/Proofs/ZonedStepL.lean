/-
  Helper lemmas for C04, part 3: from a stepped / replaced wall clock back to a zone-aware value
  (conversion, then the filter each operation applies).
-/
import Chrono.Proofs.ZonedDateL

namespace Chrono.Proofs.ZN
open Chrono Chrono.M Chrono.Spec Chrono.Proofs Chrono.Extracted Chrono.Extracted.DateOps

theorem inUtc_iff (s f : Int) : InUtcRange s f ↔ GeMinUtc s ∧ LeMaxUtc s f := by
  unfold InUtcRange InRangeSecs GeMinUtc LeMaxUtc
  constructor
  · rintro ⟨⟨a, b⟩, c⟩; exact ⟨a, by omega⟩
  · rintro ⟨a, b⟩; exact ⟨⟨a, by omega⟩, by omega⟩

theorem filter_lo (u : NaiveDT) (hu : ExtNDTInv u) :
    NaiveDT.cmp u NaiveDT.MIN ≥ 0 ↔ GeMinUtc (instSecs u) := by
  obtain ⟨m1, m2, m3, m4, m5, m6⟩ := instSecs_min_max
  obtain ⟨_, _, f1, f2⟩ := hu.2
  rw [cmp_spec u _ hu m3, m1, m5]
  unfold GeMinUtc cmpKey
  constructor
  · intro h; by_contra hc; rw [if_pos (by omega)] at h; omega
  · intro h
    by_cases c1 : instSecs u > SECS_MIN
    · rw [if_neg (by omega), if_pos c1]; omega
    · rw [if_neg (by omega), if_neg c1, if_neg (by omega)]; split <;> omega

theorem filter_hi (u : NaiveDT) (hu : ExtNDTInv u) :
    NaiveDT.cmp u NaiveDT.MAX ≤ 0 ↔ LeMaxUtc (instSecs u) u.time.frac := by
  obtain ⟨m1, m2, m3, m4, m5, m6⟩ := instSecs_min_max
  obtain ⟨_, _, f1, f2⟩ := hu.2
  rw [cmp_spec u _ hu m4, m2, m6]
  unfold LeMaxUtc cmpKey
  constructor
  · intro h
    by_cases c1 : instSecs u < SECS_MAX
    · exact Or.inl c1
    · right
      by_cases c2 : instSecs u > SECS_MAX
      · rw [if_neg c1, if_pos c2] at h; omega
      · rw [if_neg c1, if_neg c2] at h
        refine ⟨by omega, ?_⟩
        by_contra hc
        by_cases c3 : u.time.frac < 999999999
        · omega
        · rw [if_neg c3, if_pos (by omega)] at h; omega
  · intro h
    rcases h with h | ⟨h1, h2⟩
    · rw [if_pos h]; omega
    · rw [if_neg (by omega), if_neg (by omega)]; omega

/-- conversion of a reading of the extended calendar back to a value at `z`'s offset -/
theorem back_plain (z : Zoned) (hz : ZInv z) (nl : NaiveDT) (hnl : ExtNDTInv nl) :
    ∃ q, Zoned.from_local_datetime z.off nl = .ok q ∧
      (q = none → ¬ InRangeSecs (instSecs nl - z.off)) ∧
      (DateInv nl.date → q ≠ none → InRangeSecs (instSecs nl - z.off)) ∧
      ∀ z', q = some z' → z'.off = z.off ∧ ExtNDTInv z'.utc ∧ instSecs z'.utc = instSecs nl - z.off ∧
        z'.utc.time.frac = nl.time.frac ∧
        (InRangeSecs (instSecs nl - z.off) → ZInv z' ∧ Zoned.overflowing_naive_local z' = .ok nl) := by
  obtain ⟨q, h1, h2, h3, h4⟩ := from_local_spec z.off nl hz.2 hnl
  refine ⟨q, h1, h3, h4, ?_⟩
  intro z' hz'
  obtain ⟨a, b, c, d, _⟩ := h2 z' hz'
  refine ⟨a, b, c, d, ?_⟩
  intro hin
  have hzi : ZInv z' := ⟨⟨(filter_spec z'.utc z'.off b).2 (by rw [c]; exact hin), b.2⟩, by rw [a]; exact hz.2⟩
  exact ⟨hzi, local_back z' hzi nl hnl (by rw [a]; exact c) d⟩

/-- converting the wall clock of `z` back gives `z` -/
theorem from_local_of_wall (z : Zoned) (hz : ZInv z) (l : NaiveDT)
    (hl : Zoned.overflowing_naive_local z = .ok l) : Zoned.from_local_datetime z.off l = .ok (some z) := by
  obtain ⟨h2, h3, h4, _, _, _, hur⟩ := wall_date_cases z hz l hl
  obtain ⟨q, a, b, _, c⟩ := back_plain z hz l h2
  have hin : InRangeSecs (instSecs l - z.off) := by
    rw [h3]; unfold wallSecs
    rw [show instSecs z.utc + z.off - z.off = instSecs z.utc by omega]; exact hur
  cases q with
  | none => exact absurd hin (b rfl)
  | some z' =>
    obtain ⟨b1, b2, b3, b4, _⟩ := c z' rfl
    rw [a]; congr 2
    have : z'.utc = z.utc := by
      apply ndt_unique _ _ b2 ⟨((dateInv_iff z.utc.date).mp hz.1.1).1, hz.1.2⟩
      · rw [b3, h3]; unfold wallSecs; omega
      · rw [b4, h4]
    cases z'; cases z; simp_all

/-- conversion back without any further filter (month stepping, `with_ymd_and_hms`) -/
theorem back_acts_plain (z : Zoned) (hz : ZInv z) (r0 : Option NaiveDT)
    (hv : ∀ nl, r0 = some nl → NDTInv nl) :
    ∃ r, (match r0 with
          | none => (Res.ok none : Res (Option Zoned))
          | some nl => Zoned.from_local_datetime z.off nl) = .ok r ∧
      ActsOnWallWith (fun s _ => InRangeSecs s) z r0 r := by
  cases r0 with
  | none =>
    refine ⟨none, rfl, ?_, ?_⟩
    · intro z' h; cases h
    · simp
  | some nl =>
    have hn := hv nl rfl
    have hext : ExtNDTInv nl := ⟨((dateInv_iff nl.date).mp hn.1).1, hn.2⟩
    obtain ⟨q, a, b, c, d⟩ := back_plain z hz nl hext
    refine ⟨q, a, ?_, ?_⟩
    · intro z' hz'
      obtain ⟨d1, d2, d3, d4, d5⟩ := d z' hz'
      have hin := c hn.1 (by rw [hz']; simp)
      obtain ⟨e1, e2⟩ := d5 hin
      exact ⟨nl, rfl, d1, e1, e2, d3, d4, by rw [d3]; exact hin⟩
    · constructor
      · intro hq; right; exact ⟨nl, rfl, b hq⟩
      · intro h
        rcases h with h | ⟨nl', e, h⟩
        · cases h
        · cases e
          by_contra hne
          exact h (c hn.1 hne)

/-- `map_local`: the replacement acts on the wall clock, the result is filtered to `MIN_UTC ..= MAX_UTC` -/
theorem map_local_acts (z : Zoned) (hz : ZInv z) (f : NaiveDT → Res (Option NaiveDT)) (l : NaiveDT)
    (r0 : Option NaiveDT) (hl : Zoned.overflowing_naive_local z = .ok l) (hf : f l = .ok r0)
    (hv : ∀ nl, r0 = some nl → ExtNDTInv nl) :
    ∃ r, Zoned.map_local z f = .ok r ∧ ActsOnWall z r0 r := by
  unfold Zoned.map_local ActsOnWall ActsOnWallWith
  rw [hl, bind_ok', hf, bind_ok']
  cases r0 with
  | none => exact ⟨none, rfl, by intro z' h; simp at h, by simp⟩
  | some nl =>
    obtain ⟨r, h1, h2, h3⟩ := back_filtered z hz nl (hv nl rfl)
    refine ⟨r, h1, ?_, ?_⟩
    · intro z' hz'; exact ⟨nl, rfl, h2 z' hz'⟩
    · rw [h3]; simp


/-! ### day stepping -/

theorem instSecs_step (l : NaiveDT) (d' : Date) (k : Int) (h : dayNumOf d' = dayNumOf l.date + k) :
    instSecs ⟨d', l.time⟩ = instSecs l + k * 86400 := by
  unfold instSecs; dsimp only; rw [h]; omega

theorem dayNum_inrange (d : Date) (h : DateInv d) : DAY_MIN ≤ dayNumOf d ∧ dayNumOf d ≤ DAY_MAX := by
  obtain ⟨dm, dM, _⟩ := day_consts
  have := dn_bounds d h
  rw [dm, dM]; exact this

theorem sub_days_zero (d : Date) (hd : HeadOrIn d) : Date.checked_sub_days d 0 = .ok (some d) := by
  rcases hd with hd | hd | hd
  · obtain ⟨r, a, b⟩ := checked_sub_days_spec d 0 hd (by omega)
    obtain ⟨c1, c2, _⟩ := dn_consts
    have hb := dn_bounds d hd
    rw [a]; congr 1
    cases r with
    | none => have := b.1.mp rfl; rw [c1, c2] at this; omega
    | some d' =>
      obtain ⟨i, e⟩ := b.2 d' rfl
      obtain ⟨e1, o1, o2, _⟩ := inv_eq d hd
      obtain ⟨e2, p1, p2, _⟩ := inv_eq d' i
      congr 1
      rw [e1, e2]
      apply date_of_daynum_unique _ _ _ _ ⟨p1, p2⟩ ⟨o1, o2⟩
      have hyl := yearLen_ge d.year
      have hyl' := yearLen_ge d'.year
      rw [← dayNumOf_yo _ _ (by omega), ← dayNumOf_yo _ _ (by omega), ← e1, ← e2, e]; omega
  · subst hd; decide +kernel
  · subst hd; decide +kernel

/-- `DateTime::checked_add_days(Days(n))`, `n > 0` -/
theorem zoned_add_days (z : Zoned) (hz : ZInv z) (l : NaiveDT) (hl : Zoned.overflowing_naive_local z = .ok l)
    (n : Int) (hn : 0 < n ∧ n ≤ 18446744073709551615) :
    ∃ r, Zoned.checked_add_days z n = .ok r ∧
      (r = none ↔ ¬ ((DAY_MIN ≤ dayNumOf l.date + n ∧ dayNumOf l.date + n ≤ DAY_MAX) ∧
                     LeMaxUtc (instSecs z.utc + n * 86400) z.utc.time.frac)) ∧
      ∀ z', r = some z' → SteppedDays z l z' n := by
  obtain ⟨hext, hls, hfr, hho, _, hA, hur⟩ := wall_date_cases z hz l hl
  obtain ⟨⟨r, ha, hb1, hb2⟩, _⟩ := wall_checked_days l.date hho n ⟨by omega, hn.2⟩
  unfold wallSecs at hls
  unfold InRangeSecs at hur
  unfold Zoned.checked_add_days NaiveDT.zchecked_add_days NaiveDT.mapDate
  rw [if_neg (by omega), hl, bind_ok', ha, bind_ok', bind_ok']
  cases r with
  | none =>
    refine ⟨none, rfl, ?_, by intro z' h; cases h⟩
    simp only [true_iff]
    intro h; exact hb2 rfl h.1
  | some d' =>
    obtain ⟨e1, e2, e3⟩ := hb1 d' rfl
    have hnl : ExtNDTInv ⟨d', l.time⟩ := ⟨e1, hext.2⟩
    have hs := instSecs_step l d' n e2
    have hs' : instSecs ⟨d', l.time⟩ - z.off = instSecs z.utc + n * 86400 := by rw [hs, hls]; omega
    obtain ⟨q, qa, qb, _, qd⟩ := back_plain z hz ⟨d', l.time⟩ hnl
    dsimp only [Option.map_some]
    rw [qa, bind_ok']
    rw [hs'] at qb qd
    cases q with
    | none =>
      refine ⟨none, rfl, ?_, by intro z' h; cases h⟩
      simp only [true_iff]
      intro h
      apply qb rfl
      unfold LeMaxUtc at h
      unfold InRangeSecs
      omega
    | some z'' =>
      obtain ⟨d1, d2, d3, d4, d5⟩ := qd z'' rfl
      have hf := filter_hi z''.utc d2
      rw [d3, d4] at hf
      dsimp only at hf ⊢
      by_cases hc : NaiveDT.cmp z''.utc NaiveDT.MAX ≤ 0
      · rw [if_pos hc]
        have hB := hf.mp hc
        have hB' : LeMaxUtc (instSecs z.utc + n * 86400) z.utc.time.frac := by rw [← hfr]; exact hB
        have hin : InRangeSecs (instSecs z.utc + n * 86400) := by
          unfold LeMaxUtc at hB; unfold InRangeSecs; omega
        obtain ⟨g1, g2⟩ := d5 hin
        have hAA : DAY_MIN ≤ dayNumOf l.date + n ∧ dayNumOf l.date + n ≤ DAY_MAX := by
          rcases e3 with e3 | e3 | e3
          · rw [← e2]; exact dayNum_inrange d' e3
          · omega
          · have := hA e3.1; unfold LeMaxUtc at hB; omega
        refine ⟨some z'', rfl, ?_, ?_⟩
        · constructor
          · intro h; cases h
          · intro h; exact absurd ⟨hAA, hB'⟩ h
        · intro z' hz'
          have := Option.some.inj hz'
          subst this
          exact ⟨d1, g1, d3, by rw [d4, hfr], ⟨d', l.time⟩, g2, rfl, e2⟩
      · rw [if_neg hc]
        refine ⟨none, rfl, ?_, by intro z' h; cases h⟩
        simp only [true_iff]
        intro h; apply hc; apply hf.mpr; rw [hfr]; exact h.2

/-- `DateTime::checked_sub_days(Days(n))`, every `n` (no `Days(0)` short cut in the code) -/
theorem zoned_sub_days (z : Zoned) (hz : ZInv z) (l : NaiveDT) (hl : Zoned.overflowing_naive_local z = .ok l)
    (n : Int) (hn : 0 ≤ n ∧ n ≤ 18446744073709551615) :
    ∃ r, Zoned.checked_sub_days z n = .ok r ∧
      (r = none ↔ ¬ ((n = 0 ∨ (DAY_MIN ≤ dayNumOf l.date - n ∧ dayNumOf l.date - n ≤ DAY_MAX)) ∧
                     GeMinUtc (instSecs z.utc - n * 86400))) ∧
      ∀ z', r = some z' → SteppedDays z l z' (-n) := by
  obtain ⟨hext, hls, hfr, hho, hB0, _, hur⟩ := wall_date_cases z hz l hl
  unfold wallSecs at hls
  unfold InRangeSecs at hur
  by_cases h0 : n = 0
  · subst h0
    unfold Zoned.checked_sub_days NaiveDT.zchecked_sub_days NaiveDT.mapDate
    rw [hl, bind_ok', sub_days_zero l.date hho, bind_ok', bind_ok']
    dsimp only [Option.map_some]
    have : (⟨l.date, l.time⟩ : NaiveDT) = l := by cases l; rfl
    rw [this, from_local_of_wall z hz l hl, bind_ok']
    dsimp only
    have hlo := (filter_lo z.utc ⟨((dateInv_iff z.utc.date).mp hz.1.1).1, hz.1.2⟩).mpr (by unfold GeMinUtc; omega)
    rw [if_pos hlo]
    refine ⟨some z, rfl, ?_, ?_⟩
    · constructor
      · intro h; cases h
      · intro h; exfalso; apply h; exact ⟨Or.inl rfl, by unfold GeMinUtc; omega⟩
    · intro z' hz'
      have := Option.some.inj hz'
      subst this
      exact ⟨rfl, hz, by omega, rfl, l, hl, rfl, by omega⟩
  · obtain ⟨_, ⟨r, ha, hb1, hb2⟩⟩ := wall_checked_days l.date hho n hn
    unfold Zoned.checked_sub_days NaiveDT.zchecked_sub_days NaiveDT.mapDate
    rw [hl, bind_ok', ha, bind_ok', bind_ok']
    cases r with
    | none =>
      refine ⟨none, rfl, ?_, by intro z' h; cases h⟩
      simp only [true_iff]
      intro h
      apply hb2 rfl
      rcases h.1 with h | h
      · exact absurd h h0
      · rw [show dayNumOf l.date + -n = dayNumOf l.date - n by omega]; exact h
    | some d' =>
      obtain ⟨e1, e2, e3⟩ := hb1 d' rfl
      have hnl : ExtNDTInv ⟨d', l.time⟩ := ⟨e1, hext.2⟩
      have hs := instSecs_step l d' (-n) e2
      have hs' : instSecs ⟨d', l.time⟩ - z.off = instSecs z.utc - n * 86400 := by rw [hs, hls]; omega
      obtain ⟨q, qa, qb, _, qd⟩ := back_plain z hz ⟨d', l.time⟩ hnl
      dsimp only [Option.map_some]
      rw [qa, bind_ok']
      rw [hs'] at qb qd
      cases q with
      | none =>
        refine ⟨none, rfl, ?_, by intro z' h; cases h⟩
        simp only [true_iff]
        intro h
        apply qb rfl
        have := h.2
        unfold GeMinUtc at this
        unfold InRangeSecs
        omega
      | some z'' =>
        obtain ⟨d1, d2, d3, d4, d5⟩ := qd z'' rfl
        have hf := filter_lo z''.utc d2
        rw [d3] at hf
        dsimp only at hf ⊢
        by_cases hc : NaiveDT.cmp z''.utc NaiveDT.MIN ≥ 0
        · rw [if_pos hc]
          have hB := hf.mp hc
          have hin : InRangeSecs (instSecs z.utc - n * 86400) := by
            unfold GeMinUtc at hB; unfold InRangeSecs; omega
          obtain ⟨g1, g2⟩ := d5 hin
          have hAA : DAY_MIN ≤ dayNumOf l.date - n ∧ dayNumOf l.date - n ≤ DAY_MAX := by
            rw [show dayNumOf l.date - n = dayNumOf l.date + -n by omega]
            rcases e3 with e3 | e3 | e3
            · rw [← e2]; exact dayNum_inrange d' e3
            · have := hB0 e3.1; unfold GeMinUtc at hB; omega
            · omega
          refine ⟨some z'', rfl, ?_, ?_⟩
          · constructor
            · intro h; cases h
            · intro h; exact absurd ⟨Or.inr hAA, hB⟩ h
          · intro z' hz'
            have := Option.some.inj hz'
            subst this
            exact ⟨d1, g1, by rw [d3]; omega, by rw [d4, hfr], ⟨d', l.time⟩, g2, rfl, e2⟩
        · rw [if_neg hc]
          refine ⟨none, rfl, ?_, by intro z' h; cases h⟩
          simp only [true_iff]
          intro h; apply hc; apply hf.mpr; exact h.2


/-! ### month stepping -/

theorem ymdDate_ndt (y : Int) (m d : Nat) (t : Time) (ht : TValid t) (nd : Date)
    (h : ymdDate? y m d = some nd) : NDTInv ⟨nd, t⟩ := by
  unfold ymdDate? at h
  by_cases hc : MIN_YEAR ≤ y ∧ y ≤ MAX_YEAR ∧ validYmd y m d = true
  · rw [if_pos hc] at h
    have := Option.some.inj h
    subst this
    have hb := ordinal_bounds_c08 y m d hc.2.2
    exact ⟨(inv_of_yo y _ ⟨hc.1, hc.2.1⟩ hb).1, ht⟩
  · rw [if_neg hc] at h; cases h

/-- `DateTime::checked_add_months` / `checked_sub_months`: `Months(0)` gives the value back;
otherwise the wall-clock date is stepped by C08's `addMonths?` (time of day kept) and converted
back, with no filter beyond representability -/
theorem zoned_months (z : Zoned) (hz : ZInv z) (l : NaiveDT) (hl : Zoned.overflowing_naive_local z = .ok l)
    (k : Nat) :
    (∃ r, Zoned.checked_add_months z k = .ok r ∧ (k = 0 → r = some z) ∧
      (0 < k → ActsOnWallWith (fun s _ => InRangeSecs s) z
        ((addMonths? l.date.year (monthOfYo l.date.year l.date.ordinal.toNat)
            (dayOfYo l.date.year l.date.ordinal.toNat) k).map fun nd => ⟨nd, l.time⟩) r)) ∧
    (∃ r, Zoned.checked_sub_months z k = .ok r ∧ (k = 0 → r = some z) ∧
      (0 < k → ActsOnWallWith (fun s _ => InRangeSecs s) z
        ((addMonths? l.date.year (monthOfYo l.date.year l.date.ordinal.toNat)
            (dayOfYo l.date.year l.date.ordinal.toNat) (-(k : Int))).map fun nd => ⟨nd, l.time⟩) r)) := by
  obtain ⟨hext, _, _, _, _, _, _⟩ := wall_date_cases z hz l hl
  obtain ⟨el, vl⟩ := ext_eq l.date hext.1
  obtain ⟨m1, m2⟩ := months_ext l.date.year l.date.ordinal.toNat ⟨vl.1, vl.2.1⟩ ⟨vl.2.2.1, vl.2.2.2⟩ k
  rw [← el] at m1 m2
  have hll : (⟨l.date, l.time⟩ : NaiveDT) = l := by cases l; rfl
  constructor
  · unfold Zoned.checked_add_months NaiveDT.checked_add_months NaiveDT.mapDate
    rw [hl, bind_ok', m1, bind_ok', bind_ok']
    by_cases h0 : k = 0
    · rw [if_pos h0]
      dsimp only [Option.map_some]
      rw [hll, from_local_of_wall z hz l hl]
      exact ⟨some z, rfl, fun _ => rfl, fun h => by omega⟩
    · rw [if_neg h0]
      obtain ⟨r, a, b⟩ := back_acts_plain z hz
        ((addMonths? l.date.year (monthOfYo l.date.year l.date.ordinal.toNat)
            (dayOfYo l.date.year l.date.ordinal.toNat) k).map fun nd => ⟨nd, l.time⟩)
        (by
          intro nl hnl
          cases hq : addMonths? l.date.year (monthOfYo l.date.year l.date.ordinal.toNat)
            (dayOfYo l.date.year l.date.ordinal.toNat) k with
          | none => rw [hq] at hnl; cases hnl
          | some nd =>
            rw [hq] at hnl
            simp only [Option.map_some, Option.some.injEq] at hnl
            subst hnl
            exact ymdDate_ndt _ _ _ _ hext.2 nd hq)
      exact ⟨r, a, fun h => absurd h h0, fun _ => b⟩
  · unfold Zoned.checked_sub_months NaiveDT.checked_sub_months NaiveDT.mapDate
    rw [hl, bind_ok', m2, bind_ok', bind_ok']
    by_cases h0 : k = 0
    · rw [if_pos h0]
      dsimp only [Option.map_some]
      rw [hll, from_local_of_wall z hz l hl]
      exact ⟨some z, rfl, fun _ => rfl, fun h => by omega⟩
    · rw [if_neg h0]
      obtain ⟨r, a, b⟩ := back_acts_plain z hz
        ((addMonths? l.date.year (monthOfYo l.date.year l.date.ordinal.toNat)
            (dayOfYo l.date.year l.date.ordinal.toNat) (-(k : Int))).map fun nd => ⟨nd, l.time⟩)
        (by
          intro nl hnl
          cases hq : addMonths? l.date.year (monthOfYo l.date.year l.date.ordinal.toNat)
            (dayOfYo l.date.year l.date.ordinal.toNat) (-(k : Int)) with
          | none => rw [hq] at hnl; cases hnl
          | some nd =>
            rw [hq] at hnl
            simp only [Option.map_some, Option.some.injEq] at hnl
            subst hnl
            exact ymdDate_ndt _ _ _ _ hext.2 nd hq)
      exact ⟨r, a, fun h => absurd h h0, fun _ => b⟩

/-! ### calendar-field replacement -/

theorem ymdReading_eq (y : Int) (m d : Nat) (t : Time) :
    ymdReading? y m d t = (ymdAny? y m d).map fun nd => ⟨nd, t⟩ := by
  unfold ymdReading? ymdAny?; split <;> rfl
theorem yoReading_eq (y : Int) (o : Nat) (t : Time) :
    yoReading? y o t = (yoAny? y o).map fun nd => ⟨nd, t⟩ := by
  unfold yoReading? yoAny?; split <;> rfl

theorem ymdReading_ext (y : Int) (m d : Nat) (t : Time) (hy : MIN_YEAR - 1 ≤ y ∧ y ≤ MAX_YEAR + 1)
    (ht : TValid t) (nl : NaiveDT) (h : ymdReading? y m d t = some nl) : ExtNDTInv nl := by
  unfold ymdReading? at h
  by_cases hc : validYmd y m d = true
  · rw [if_pos hc] at h
    have := Option.some.inj h
    subst this
    have hb := ordinal_bounds_c08 y m d hc
    exact ⟨ext_of_vyo _ _ ⟨hy.1, hy.2, hb.1, hb.2⟩, ht⟩
  · rw [if_neg hc] at h; cases h

theorem yoReading_ext (y : Int) (o : Nat) (t : Time) (hy : MIN_YEAR - 1 ≤ y ∧ y ≤ MAX_YEAR + 1)
    (ht : TValid t) (nl : NaiveDT) (h : yoReading? y o t = some nl) : ExtNDTInv nl := by
  unfold yoReading? at h
  by_cases hc : 1 ≤ o ∧ o ≤ yearLen y
  · rw [if_pos hc] at h
    have := Option.some.inj h
    subst this
    exact ⟨ext_of_vyo _ _ ⟨hy.1, hy.2, hc.1, hc.2⟩, ht⟩
  · rw [if_neg hc] at h; cases h

/-- all seven calendar-field replacements of `DateTime` -/
theorem zoned_with_date_fields (z : Zoned) (hz : ZInv z) (l : NaiveDT)
    (hl : Zoned.overflowing_naive_local z = .ok l) (v : Nat) (y' : Int) :
    (∃ r, Zoned.with_year z y' = .ok r ∧ ActsOnWall z (yearReading? l y') r) ∧
    (∃ r, Zoned.with_month z v = .ok r ∧ ActsOnWall z
      (ymdReading? l.date.year v (dayOfYo l.date.year l.date.ordinal.toNat) l.time) r) ∧
    (∃ r, Zoned.with_month0 z v = .ok r ∧ ActsOnWall z
      (ymdReading? l.date.year (v + 1) (dayOfYo l.date.year l.date.ordinal.toNat) l.time) r) ∧
    (∃ r, Zoned.with_day z v = .ok r ∧ ActsOnWall z
      (ymdReading? l.date.year (monthOfYo l.date.year l.date.ordinal.toNat) v l.time) r) ∧
    (∃ r, Zoned.with_day0 z v = .ok r ∧ ActsOnWall z
      (ymdReading? l.date.year (monthOfYo l.date.year l.date.ordinal.toNat) (v + 1) l.time) r) ∧
    (∃ r, Zoned.with_ordinal z v = .ok r ∧ ActsOnWall z (yoReading? l.date.year v l.time) r) ∧
    (∃ r, Zoned.with_ordinal0 z v = .ok r ∧ ActsOnWall z (yoReading? l.date.year (v + 1) l.time) r) := by
  obtain ⟨hext, _, _, _, _, _, _⟩ := wall_date_cases z hz l hl
  obtain ⟨el, vl⟩ := ext_eq l.date hext.1
  have hy : MIN_YEAR - 1 ≤ l.date.year ∧ l.date.year ≤ MAX_YEAR + 1 := ⟨vl.1, vl.2.1⟩
  have ho : 1 ≤ l.date.ordinal.toNat ∧ l.date.ordinal.toNat ≤ yearLen l.date.year := ⟨vl.2.2.1, vl.2.2.2⟩
  have w1 := with_year_spec l.date.year l.date.ordinal.toNat ho y'
  have w2 := with_month_any l.date.year l.date.ordinal.toNat ho v
  have w3 := with_month0_any l.date.year l.date.ordinal.toNat ho v
  have w4 := with_day_any l.date.year l.date.ordinal.toNat ho v
  have w5 := with_day0_any l.date.year l.date.ordinal.toNat ho v
  have w6 := with_ordinal_any l.date.year l.date.ordinal.toNat ho v
  have w7 := with_ordinal0_any l.date.year l.date.ordinal.toNat ho v
  rw [← el] at w1 w2 w3 w4 w5 w6 w7
  refine ⟨?_, ?_, ?_, ?_, ?_, ?_, ?_⟩
  · unfold Zoned.with_year
    apply map_local_acts z hz _ l _ hl
    · unfold yearReading?
      by_cases hc : y' = l.date.year
      · rw [if_pos hc.symm, if_pos hc]
      · rw [if_neg (fun h => hc h.symm), if_neg hc]
        unfold NaiveDT.with_year NaiveDT.mapDate
        rw [w1, bind_ok']
        refine congrArg Res.ok ?_
        unfold ymdDate? ymdReading?
        by_cases hr : MIN_YEAR ≤ y' ∧ y' ≤ MAX_YEAR
        · rw [if_pos hr]
          by_cases hv : validYmd y' (monthOfYo l.date.year l.date.ordinal.toNat)
              (dayOfYo l.date.year l.date.ordinal.toNat) = true
          · rw [if_pos ⟨hr.1, hr.2, hv⟩, if_pos hv]; rfl
          · rw [if_neg (fun h => hv h.2.2), if_neg hv]; rfl
        · rw [if_neg hr, if_neg (fun h => hr ⟨h.1, h.2.1⟩)]; rfl
    · intro nl hnl
      unfold yearReading? at hnl
      by_cases hc : y' = l.date.year
      · rw [if_pos hc] at hnl; cases hnl; exact hext
      · rw [if_neg hc] at hnl
        by_cases hr : MIN_YEAR ≤ y' ∧ y' ≤ MAX_YEAR
        · rw [if_pos hr] at hnl
          exact ymdReading_ext _ _ _ _ ⟨by omega, by omega⟩ hext.2 nl hnl
        · rw [if_neg hr] at hnl; cases hnl
  · unfold Zoned.with_month
    apply map_local_acts z hz _ l _ hl
    · unfold NaiveDT.with_month NaiveDT.mapDate; rw [w2, bind_ok', ymdReading_eq]
    · exact ymdReading_ext _ _ _ _ hy hext.2
  · unfold Zoned.with_month0
    apply map_local_acts z hz _ l _ hl
    · unfold NaiveDT.with_month0 NaiveDT.mapDate; rw [w3, bind_ok', ymdReading_eq]
    · exact ymdReading_ext _ _ _ _ hy hext.2
  · unfold Zoned.with_day
    apply map_local_acts z hz _ l _ hl
    · unfold NaiveDT.with_day NaiveDT.mapDate; rw [w4, bind_ok', ymdReading_eq]
    · exact ymdReading_ext _ _ _ _ hy hext.2
  · unfold Zoned.with_day0
    apply map_local_acts z hz _ l _ hl
    · unfold NaiveDT.with_day0 NaiveDT.mapDate; rw [w5, bind_ok', ymdReading_eq]
    · exact ymdReading_ext _ _ _ _ hy hext.2
  · unfold Zoned.with_ordinal
    apply map_local_acts z hz _ l _ hl
    · unfold NaiveDT.with_ordinal NaiveDT.mapDate; rw [w6, bind_ok', yoReading_eq]
    · exact yoReading_ext _ _ _ hy hext.2
  · unfold Zoned.with_ordinal0
    apply map_local_acts z hz _ l _ hl
    · unfold NaiveDT.with_ordinal0 NaiveDT.mapDate; rw [w7, bind_ok', yoReading_eq]
    · exact yoReading_ext _ _ _ hy hext.2

end Chrono.Proofs.ZN
