/-
  C10, strict vs relaxed reader, offset part: the relaxed reader (`FromStr for DateTime<FixedOffset>`,
  the `%+` parsing item) scans the offset with `timezone_offset(s.trim_start(), colon_or_space, true, false, true)`
  (or `UTC`), the strict one with `timezone_offset(s, |s| char(s, b':'), true, false, true)`.
  Namespace `Chrono.Proofs.Rfc3339Relaxed`.
-/
import Chrono.Proofs.Rfc3339SlicesL

namespace Chrono.Proofs.Rfc3339Relaxed
open Chrono Chrono.M Chrono.M.Scan Chrono.M.Rfc3339Slices Chrono.Proofs.Rfc3339Slices

/-- `colon_or_space` stops at a digit that follows a single colon -/
theorem colon_then_digit (m1 : Nat) (t : List Nat) (h : 48 ≤ m1 ∧ m1 ≤ 57) :
    colon_or_space (58 :: m1 :: t) = m1 :: t := by
  unfold colon_or_space
  simp only [List.length_cons]
  unfold colonOrSpaceAux
  simp only
  unfold colonOrSpaceAux
  have h58 : m1 ≠ 58 := by omega
  have hw : wsLen (m1 :: t) = 0 := by
    unfold wsLen
    dsimp only
    rw [if_neg (by omega)]
    split <;> first | rfl | omega
  split
  · rename_i rest heq; injection heq with heq _; exact absurd heq h58
  · simp only [hw, if_true]

/-- what the minutes stage accepts starts with a digit -/
theorem tzMins_digit (s : List Nat) (v : Int) (h : tzMins s false = .ok v) :
    ∃ m1 t, s = m1 :: t ∧ 48 ≤ m1 ∧ m1 ≤ 57 := by
  unfold tzMins at h
  split at h
  · rename_i m1 m2 t
    split at h
    · rename_i hd; exact ⟨m1, m2 :: t, rfl, by omega, by omega⟩
    · split at h <;> cases h
  · simp at h

/-- **the relaxed offset scanner accepts whatever the strict one accepts, with the same result** -/
theorem relaxed_offset_accepts_strict (s r : List Nat) (v : Int)
    (h : timezone_offset s .charColon true false true = .ok (r, v)) :
    timezone_offset s .colonOrSpace true false true = .ok (r, v) := by
  rw [timezone_offset_staged] at h ⊢
  cases hz : tzZulu s true with
  | some r0 => rw [hz] at h; exact h
  | none =>
    rw [hz] at h
    dsimp only at h ⊢
    cases hs : tzSign s true with
    | error e => rw [hs] at h; cases h
    | ok a =>
      obtain ⟨s1, neg⟩ := a
      rw [hs] at h
      dsimp only at h ⊢
      match s1, h with
      | [], h => cases h
      | [_], h => cases h
      | h1 :: h2 :: s2, h =>
        dsimp only at h ⊢
        cases hd : (Scan.isDigit h1 && Scan.isDigit h2) with
        | false => rw [hd] at h; simp at h
        | true =>
          rw [hd] at h
          simp only [if_true] at h ⊢
          cases hc : consumeColon .charColon s2 with
          | error e => rw [hc] at h; cases h
          | ok s3 =>
            rw [hc] at h
            dsimp only at h
            have e2 : s2 = 58 :: s3 := Rfc2822.char_inv s2 s3 58 hc
            cases hm : tzMins s3 false with
            | error e => rw [hm] at h; cases h
            | ok minutes =>
              obtain ⟨m1, t, e3, hdig⟩ := tzMins_digit s3 minutes hm
              have hco : consumeColon .colonOrSpace s2 = .ok s3 := by
                show Except.ok (colon_or_space s2) = _
                rw [e2, e3, colon_then_digit m1 t hdig]
              rw [hco]
              exact h

end Chrono.Proofs.Rfc3339Relaxed
