/-
  Prim: machine-integer helpers and the `Res` result type (ok | panic) shared by all models.
  No Mathlib, no Std imports: this file is in the import closure of the compiled driver.
-/
namespace Chrono

/-- Result of running a piece of Rust code: a value, or a panic (overflow in the
overflow-checked build, `unwrap`/`expect` on `None`, failed `debug_assert!`, slice index). -/
inductive Res (α : Type) where
  | ok (a : α)
  | panic
  deriving DecidableEq, Repr

namespace Res
@[inline] def bind {α β} (r : Res α) (f : α → Res β) : Res β :=
  match r with
  | ok a => f a
  | panic => panic
instance : Monad Res where
  pure := ok
  bind := bind
@[simp] theorem bind_ok {α β} (a : α) (f : α → Res β) : (Res.ok a >>= f) = f a := rfl
@[simp] theorem bind_panic {α β} (f : α → Res β) : ((Res.panic : Res α) >>= f) = Res.panic := rfl
@[simp] theorem pure_eq {α} (a : α) : (pure a : Res α) = Res.ok a := rfl
def isOk {α} : Res α → Bool
  | ok _ => true
  | panic => false
end Res

/-! Machine integer ranges -/
def I8_MIN  : Int := -128
def I8_MAX  : Int := 127
def I16_MIN : Int := -32768
def I16_MAX : Int := 32767
def I32_MIN : Int := -2147483648
def I32_MAX : Int := 2147483647
def I64_MIN : Int := -9223372036854775808
def I64_MAX : Int := 9223372036854775807
def U8_MAX  : Int := 255
def U16_MAX : Int := 65535
def U32_MAX : Int := 4294967295
def U64_MAX : Int := 18446744073709551615
def I128_MIN : Int := -170141183460469231731687303715884105728
def I128_MAX : Int := 170141183460469231731687303715884105727

@[inline] def inI32 (x : Int) : Bool := decide (I32_MIN ≤ x) && decide (x ≤ I32_MAX)
@[inline] def inI64 (x : Int) : Bool := decide (I64_MIN ≤ x) && decide (x ≤ I64_MAX)
@[inline] def inU32 (x : Int) : Bool := decide (0 ≤ x) && decide (x ≤ U32_MAX)
@[inline] def inU64 (x : Int) : Bool := decide (0 ≤ x) && decide (x ≤ U64_MAX)
@[inline] def inI128 (x : Int) : Bool := decide (I128_MIN ≤ x) && decide (x ≤ I128_MAX)

/-- overflow-checked arithmetic result in `i32` (debug build semantics) -/
@[inline] def ckI32 (x : Int) : Res Int := if inI32 x then .ok x else .panic
@[inline] def ckI64 (x : Int) : Res Int := if inI64 x then .ok x else .panic
@[inline] def ckU32 (x : Int) : Res Int := if inU32 x then .ok x else .panic
@[inline] def ckU64 (x : Int) : Res Int := if inU64 x then .ok x else .panic

/-- `checked_*` on `i64`/`i32`: `None` outside the type -/
@[inline] def optI64 (x : Int) : Option Int := if inI64 x then some x else none
@[inline] def optI32 (x : Int) : Option Int := if inI32 x then some x else none
@[inline] def optU32 (x : Int) : Option Int := if inU32 x then some x else none

/-- `x as u32` for any integer `x` (two's-complement truncation) -/
@[inline] def asU32 (x : Int) : Int := x % 4294967296
@[inline] def asU8 (x : Int) : Int := x % 256
/-- `x as i32` -/
@[inline] def asI32 (x : Int) : Int :=
  let r := x % 4294967296
  if r ≥ 2147483648 then r - 4294967296 else r
@[inline] def asI64 (x : Int) : Int :=
  let r := x % 18446744073709551616
  if r ≥ 9223372036854775808 then r - 18446744073709551616 else r

/-! Text: byte strings are `List Nat` (each < 256); the line protocol carries them as hex. -/
def hexDigit (n : Nat) : Char :=
  match n with
  | 0 => '0' | 1 => '1' | 2 => '2' | 3 => '3' | 4 => '4' | 5 => '5' | 6 => '6' | 7 => '7'
  | 8 => '8' | 9 => '9' | 10 => 'a' | 11 => 'b' | 12 => 'c' | 13 => 'd' | 14 => 'e' | _ => 'f'

def hexVal (c : Char) : Option Nat :=
  if '0' ≤ c ∧ c ≤ '9' then some (c.toNat - 48)
  else if 'a' ≤ c ∧ c ≤ 'f' then some (c.toNat - 87)
  else none

def hexDecodeAux : List Char → List Nat → Option (List Nat)
  | [], acc => some acc.reverse
  | [_], _ => none
  | a :: b :: rest, acc =>
    match hexVal a, hexVal b with
    | some x, some y => hexDecodeAux rest ((x * 16 + y) :: acc)
    | _, _ => none

/-- decode `x<hex>` (the protocol form of a byte string) -/
def hexDecode (s : String) : Option (List Nat) :=
  match s.toList with
  | 'x' :: rest => hexDecodeAux rest []
  | _ => none

def hexEncode (bs : List Nat) : String :=
  String.ofList ('x' :: bs.flatMap (fun b => [hexDigit (b / 16), hexDigit (b % 16)]))

def asciiBytes (s : String) : List Nat := s.toList.map Char.toNat

def showOptInt : Option Int → String
  | some x => toString x
  | none => "none"
def showOptNat : Option Nat → String
  | some x => toString x
  | none => "none"
def showBool (b : Bool) : String := if b then "1" else "0"

end Chrono
