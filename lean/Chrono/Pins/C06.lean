/-
  PINS of property C06: the decision tokens of every item the property is anchored in
  (properties.jsonl `anchors` + tools/anchor_extra.json), as they were in /repo at 770977e when the
  model was validated against the source.  Written by tools/pin_anchors.py; the right-hand sides are
  compared by the kernel with lean/Chrono/Extracted/Anchors.lean, which tools/extractors/anchors.py
  regenerates from /repo's working tree on every check.  A theorem that fails here means: anchored
  code changed; the hand-written model may no longer mirror it.
-/
import Chrono.Extracted.Anchors
namespace Chrono.Pins.C06
open Chrono.Extracted.Anchors

/-- src/lib.rs:fn expect -/
theorem src_lib_rs_fn_expect : C06_src_lib_rs_fn_expect =
    ["<", "T", "Copy", ">", "v1", "Option", "<", "T", ">", "v2", "&", "str", "->", "T", "match", "v1", "Some(", "v3", "=>", "v3", "None", "=>", "panic!(", "\"{}\"", "v2"] := by decide +kernel

/-- src/time_delta.rs:const MAX -/
theorem src_time_delta_rs_const_MAX : C06_src_time_delta_rs_const_MAX =
    ["TimeDelta", "TimeDelta", "v1", "i64", "MAX", "/", "MILLIS_PER_SEC", "v2", "i64", "MAX", "%", "MILLIS_PER_SEC", "as", "i32", "*", "NANOS_PER_MILLI", "§", "Self", "MAX"] := by decide +kernel

/-- src/time_delta.rs:const MIN -/
theorem src_time_delta_rs_const_MIN : C06_src_time_delta_rs_const_MIN =
    ["TimeDelta", "TimeDelta", "v1", "-", "i64", "MAX", "/", "MILLIS_PER_SEC", "-", "1", "v2", "NANOS_PER_SEC", "+", "-", "i64", "MAX", "%", "MILLIS_PER_SEC", "as", "i32", "*", "NANOS_PER_MILLI", "§", "Self", "MIN"] := by decide +kernel

/-- src/time_delta.rs:fn abs -/
theorem src_time_delta_rs_fn_abs : C06_src_time_delta_rs_fn_abs =
    ["&", "self", "->", "TimeDelta", "if", "self", "v1", "<", "0", "&&", "self", "v2", "!=", "0", "TimeDelta", "v1", "self", "v1", "+", "1", "abs(", "v2", "NANOS_PER_SEC", "-", "self", "v2", "else", "TimeDelta", "v1", "self", "v1", "abs(", "v2", "self", "v2"] := by decide +kernel

/-- src/time_delta.rs:fn as_seconds_f32 -/
theorem src_time_delta_rs_fn_as_seconds_f32 : C06_src_time_delta_rs_fn_as_seconds_f32 =
    ["self", "->", "f32", "self", "v1", "as", "f32", "+", "self", "v2", "as", "f32", "/", "NANOS_PER_SEC", "as", "f32"] := by decide +kernel

/-- src/time_delta.rs:fn as_seconds_f64 -/
theorem src_time_delta_rs_fn_as_seconds_f64 : C06_src_time_delta_rs_fn_as_seconds_f64 =
    ["self", "->", "f64", "self", "v1", "as", "f64", "+", "self", "v2", "as", "f64", "/", "NANOS_PER_SEC", "as", "f64"] := by decide +kernel

/-- src/time_delta.rs:fn checked_add -/
theorem src_time_delta_rs_fn_checked_add : C06_src_time_delta_rs_fn_checked_add =
    ["&", "self", "v1", "&", "TimeDelta", "->", "Option", "<", "TimeDelta", ">", "v2", "self", "v2", "+", "v1", "v2", "v3", "self", "v3", "+", "v1", "v3", "if", "v3", ">=", "NANOS_PER_SEC", "v3", "-=", "NANOS_PER_SEC", "v2", "+=", "1", "TimeDelta", "new(", "v2", "v3", "as", "u32"] := by decide +kernel

/-- src/time_delta.rs:fn checked_div -/
theorem src_time_delta_rs_fn_checked_div : C06_src_time_delta_rs_fn_checked_div =
    ["&", "self", "v1", "i32", "->", "Option", "<", "TimeDelta", ">", "if", "v1", "==", "0", "return", "None", "v2", "self", "v2", "/", "v1", "as", "i64", "v3", "self", "v2", "%", "v1", "as", "i64", "v4", "v3", "*", "NANOS_PER_SEC", "as", "i64", "/", "v1", "as", "i64", "v5", "self", "v5", "/", "v1", "+", "v4", "as", "i32", "let(", "v2", "v5", "match", "v5", "i32", "MIN", "..=", "-", "1", "=>", "v2", "-", "1", "v5", "+", "NANOS_PER_SEC", "NANOS_PER_SEC", "..=", "i32", "MAX", "=>", "v2", "+", "1", "v5", "-", "NANOS_PER_SEC", "v6", "=>", "v2", "v5", "Some(", "TimeDelta", "v2", "v5"] := by decide +kernel

/-- src/time_delta.rs:fn checked_mul -/
theorem src_time_delta_rs_fn_checked_mul : C06_src_time_delta_rs_fn_checked_mul =
    ["&", "self", "v1", "i32", "->", "Option", "<", "TimeDelta", ">", "v2", "self", "v3", "as", "i64", "*", "v1", "as", "i64", "let(", "v4", "v3", "div_mod_floor_64(", "v2", "NANOS_PER_SEC", "as", "i64", "v5", "i128", "self", "v5", "as", "i128", "*", "v1", "as", "i128", "+", "v4", "as", "i128", "if", "v5", "<=", "i64", "MIN", "as", "i128", "||", "v5", ">=", "i64", "MAX", "as", "i128", "return", "None", "TimeDelta", "new(", "v5", "as", "i64", "v3", "as", "u32"] := by decide +kernel

/-- src/time_delta.rs:fn checked_sub -/
theorem src_time_delta_rs_fn_checked_sub : C06_src_time_delta_rs_fn_checked_sub =
    ["&", "self", "v1", "&", "TimeDelta", "->", "Option", "<", "TimeDelta", ">", "v2", "self", "v2", "-", "v1", "v2", "v3", "self", "v3", "-", "v1", "v3", "if", "v3", "<", "0", "v3", "+=", "NANOS_PER_SEC", "v2", "-=", "1", "TimeDelta", "new(", "v2", "v3", "as", "u32"] := by decide +kernel

/-- src/time_delta.rs:fn days -/
theorem src_time_delta_rs_fn_days : C06_src_time_delta_rs_fn_days =
    ["v1", "i64", "->", "TimeDelta", "expect(", "TimeDelta", "try_days(", "v1", "\"…\""] := by decide +kernel

/-- src/time_delta.rs:fn div_mod_floor_64 -/
theorem src_time_delta_rs_fn_div_mod_floor_64 : C06_src_time_delta_rs_fn_div_mod_floor_64 =
    ["v1", "i64", "v2", "i64", "->", "i64", "i64", "v1", "div_euclid(", "v2", "v1", "rem_euclid(", "v2"] := by decide +kernel

/-- src/time_delta.rs:fn from_std -/
theorem src_time_delta_rs_fn_from_std : C06_src_time_delta_rs_fn_from_std =
    ["v1", "Duration", "->", "Result", "<", "TimeDelta", "OutOfRangeError", ">", "if", "v1", "as_secs(", ">", "MAX", "v2", "as", "u64", "return", "Err(", "OutOfRangeError(", "match", "TimeDelta", "new(", "v1", "as_secs(", "as", "i64", "v1", "subsec_nanos(", "Some(", "v3", "=>", "Ok(", "v3", "None", "=>", "Err(", "OutOfRangeError("] := by decide +kernel

/-- src/time_delta.rs:fn hours -/
theorem src_time_delta_rs_fn_hours : C06_src_time_delta_rs_fn_hours =
    ["v1", "i64", "->", "TimeDelta", "expect(", "TimeDelta", "try_hours(", "v1", "\"…\""] := by decide +kernel

/-- src/time_delta.rs:fn is_zero -/
theorem src_time_delta_rs_fn_is_zero : C06_src_time_delta_rs_fn_is_zero =
    ["&", "self", "->", "bool", "self", "v1", "==", "0", "&&", "self", "v2", "==", "0"] := by decide +kernel

/-- src/time_delta.rs:fn max_value -/
theorem src_time_delta_rs_fn_max_value : C06_src_time_delta_rs_fn_max_value =
    ["->", "TimeDelta", "MAX"] := by decide +kernel

/-- src/time_delta.rs:fn microseconds -/
theorem src_time_delta_rs_fn_microseconds : C06_src_time_delta_rs_fn_microseconds =
    ["v1", "i64", "->", "TimeDelta", "let(", "v2", "v3", "div_mod_floor_64(", "v1", "MICROS_PER_SEC", "v4", "v3", "as", "i32", "*", "NANOS_PER_MICRO", "TimeDelta", "v2", "v4"] := by decide +kernel

/-- src/time_delta.rs:fn milliseconds -/
theorem src_time_delta_rs_fn_milliseconds : C06_src_time_delta_rs_fn_milliseconds =
    ["v1", "i64", "->", "TimeDelta", "expect(", "TimeDelta", "try_milliseconds(", "v1", "\"…\""] := by decide +kernel

/-- src/time_delta.rs:fn min_value -/
theorem src_time_delta_rs_fn_min_value : C06_src_time_delta_rs_fn_min_value =
    ["->", "TimeDelta", "MIN"] := by decide +kernel

/-- src/time_delta.rs:fn minutes -/
theorem src_time_delta_rs_fn_minutes : C06_src_time_delta_rs_fn_minutes =
    ["v1", "i64", "->", "TimeDelta", "expect(", "TimeDelta", "try_minutes(", "v1", "\"…\""] := by decide +kernel

/-- src/time_delta.rs:fn nanoseconds -/
theorem src_time_delta_rs_fn_nanoseconds : C06_src_time_delta_rs_fn_nanoseconds =
    ["v1", "i64", "->", "TimeDelta", "let(", "v2", "v1", "div_mod_floor_64(", "v1", "NANOS_PER_SEC", "as", "i64", "TimeDelta", "v2", "v1", "v1", "as", "i32"] := by decide +kernel

/-- src/time_delta.rs:fn neg -/
theorem src_time_delta_rs_fn_neg : C06_src_time_delta_rs_fn_neg =
    ["self", "->", "TimeDelta", "let(", "v1", "v2", "match", "self", "v2", "0", "=>", "0", "0", "v2", "=>", "1", "NANOS_PER_SEC", "-", "v2", "TimeDelta", "v3", "-", "self", "v3", "-", "v1", "v2", "§", "self", "->", "TimeDelta", "let(", "v1", "v2", "match", "self", "v2", "0", "=>", "0", "0", "v2", "=>", "1", "NANOS_PER_SEC", "-", "v2", "TimeDelta", "v3", "-", "self", "v3", "-", "v1", "v2"] := by decide +kernel

/-- src/time_delta.rs:fn new -/
theorem src_time_delta_rs_fn_new : C06_src_time_delta_rs_fn_new =
    ["v1", "i64", "v2", "u32", "->", "Option", "<", "TimeDelta", ">", "if", "v1", "<", "MIN", "v1", "||", "v1", ">", "MAX", "v1", "||", "v2", ">=", "1000000000", "||", "v1", "==", "MAX", "v1", "&&", "v2", ">", "MAX", "v2", "as", "u32", "||", "v1", "==", "MIN", "v1", "&&", "v2", "<", "MIN", "v2", "as", "u32", "return", "None", "Some(", "TimeDelta", "v1", "v2", "v2", "as", "i32"] := by decide +kernel

/-- src/time_delta.rs:fn num_days -/
theorem src_time_delta_rs_fn_num_days : C06_src_time_delta_rs_fn_num_days =
    ["&", "self", "->", "i64", "self", "num_seconds(", "/", "SECS_PER_DAY"] := by decide +kernel

/-- src/time_delta.rs:fn num_hours -/
theorem src_time_delta_rs_fn_num_hours : C06_src_time_delta_rs_fn_num_hours =
    ["&", "self", "->", "i64", "self", "num_seconds(", "/", "SECS_PER_HOUR"] := by decide +kernel

/-- src/time_delta.rs:fn num_microseconds -/
theorem src_time_delta_rs_fn_num_microseconds : C06_src_time_delta_rs_fn_num_microseconds =
    ["&", "self", "->", "Option", "<", "i64", ">", "v1", "try_opt!(", "self", "num_seconds(", "checked_mul(", "MICROS_PER_SEC", "v2", "self", "subsec_nanos(", "/", "NANOS_PER_MICRO", "v1", "checked_add(", "v2", "as", "i64"] := by decide +kernel

/-- src/time_delta.rs:fn num_milliseconds -/
theorem src_time_delta_rs_fn_num_milliseconds : C06_src_time_delta_rs_fn_num_milliseconds =
    ["&", "self", "->", "i64", "v1", "self", "num_seconds(", "*", "MILLIS_PER_SEC", "v2", "self", "subsec_nanos(", "/", "NANOS_PER_MILLI", "v1", "+", "v2", "as", "i64"] := by decide +kernel

/-- src/time_delta.rs:fn num_minutes -/
theorem src_time_delta_rs_fn_num_minutes : C06_src_time_delta_rs_fn_num_minutes =
    ["&", "self", "->", "i64", "self", "num_seconds(", "/", "SECS_PER_MINUTE"] := by decide +kernel

/-- src/time_delta.rs:fn num_nanoseconds -/
theorem src_time_delta_rs_fn_num_nanoseconds : C06_src_time_delta_rs_fn_num_nanoseconds =
    ["&", "self", "->", "Option", "<", "i64", ">", "v1", "try_opt!(", "self", "num_seconds(", "checked_mul(", "NANOS_PER_SEC", "as", "i64", "v2", "self", "subsec_nanos(", "v1", "checked_add(", "v2", "as", "i64"] := by decide +kernel

/-- src/time_delta.rs:fn num_seconds -/
theorem src_time_delta_rs_fn_num_seconds : C06_src_time_delta_rs_fn_num_seconds =
    ["&", "self", "->", "i64", "if", "self", "v1", "<", "0", "&&", "self", "v2", ">", "0", "self", "v1", "+", "1", "else", "self", "v1"] := by decide +kernel

/-- src/time_delta.rs:fn num_weeks -/
theorem src_time_delta_rs_fn_num_weeks : C06_src_time_delta_rs_fn_num_weeks =
    ["&", "self", "->", "i64", "self", "num_days(", "/", "7"] := by decide +kernel

/-- src/time_delta.rs:fn seconds -/
theorem src_time_delta_rs_fn_seconds : C06_src_time_delta_rs_fn_seconds =
    ["v1", "i64", "->", "TimeDelta", "expect(", "TimeDelta", "try_seconds(", "v1", "\"…\""] := by decide +kernel

/-- src/time_delta.rs:fn subsec_micros -/
theorem src_time_delta_rs_fn_subsec_micros : C06_src_time_delta_rs_fn_subsec_micros =
    ["&", "self", "->", "i32", "self", "subsec_nanos(", "/", "NANOS_PER_MICRO"] := by decide +kernel

/-- src/time_delta.rs:fn subsec_millis -/
theorem src_time_delta_rs_fn_subsec_millis : C06_src_time_delta_rs_fn_subsec_millis =
    ["&", "self", "->", "i32", "self", "subsec_nanos(", "/", "NANOS_PER_MILLI"] := by decide +kernel

/-- src/time_delta.rs:fn subsec_nanos -/
theorem src_time_delta_rs_fn_subsec_nanos : C06_src_time_delta_rs_fn_subsec_nanos =
    ["&", "self", "->", "i32", "if", "self", "v1", "<", "0", "&&", "self", "v2", ">", "0", "self", "v2", "-", "NANOS_PER_SEC", "else", "self", "v2"] := by decide +kernel

/-- src/time_delta.rs:fn to_std -/
theorem src_time_delta_rs_fn_to_std : C06_src_time_delta_rs_fn_to_std =
    ["&", "self", "->", "Result", "<", "Duration", "OutOfRangeError", ">", "if", "self", "v1", "<", "0", "return", "Err(", "OutOfRangeError(", "Ok(", "Duration", "new(", "self", "v1", "as", "u64", "self", "v2", "as", "u32"] := by decide +kernel

/-- src/time_delta.rs:fn try_days -/
theorem src_time_delta_rs_fn_try_days : C06_src_time_delta_rs_fn_try_days =
    ["v1", "i64", "->", "Option", "<", "TimeDelta", ">", "TimeDelta", "try_seconds(", "try_opt!(", "v1", "checked_mul(", "SECS_PER_DAY"] := by decide +kernel

/-- src/time_delta.rs:fn try_hours -/
theorem src_time_delta_rs_fn_try_hours : C06_src_time_delta_rs_fn_try_hours =
    ["v1", "i64", "->", "Option", "<", "TimeDelta", ">", "TimeDelta", "try_seconds(", "try_opt!(", "v1", "checked_mul(", "SECS_PER_HOUR"] := by decide +kernel

/-- src/time_delta.rs:fn try_milliseconds -/
theorem src_time_delta_rs_fn_try_milliseconds : C06_src_time_delta_rs_fn_try_milliseconds =
    ["v1", "i64", "->", "Option", "<", "TimeDelta", ">", "if", "v1", "<", "-", "i64", "MAX", "return", "None", "let(", "v2", "v3", "div_mod_floor_64(", "v1", "MILLIS_PER_SEC", "v4", "TimeDelta", "v2", "v5", "v3", "as", "i32", "*", "NANOS_PER_MILLI", "Some(", "v4"] := by decide +kernel

/-- src/time_delta.rs:fn try_minutes -/
theorem src_time_delta_rs_fn_try_minutes : C06_src_time_delta_rs_fn_try_minutes =
    ["v1", "i64", "->", "Option", "<", "TimeDelta", ">", "TimeDelta", "try_seconds(", "try_opt!(", "v1", "checked_mul(", "SECS_PER_MINUTE"] := by decide +kernel

/-- src/time_delta.rs:fn try_seconds -/
theorem src_time_delta_rs_fn_try_seconds : C06_src_time_delta_rs_fn_try_seconds =
    ["v1", "i64", "->", "Option", "<", "TimeDelta", ">", "TimeDelta", "new(", "v1", "0"] := by decide +kernel

/-- src/time_delta.rs:fn try_weeks -/
theorem src_time_delta_rs_fn_try_weeks : C06_src_time_delta_rs_fn_try_weeks =
    ["v1", "i64", "->", "Option", "<", "TimeDelta", ">", "TimeDelta", "try_seconds(", "try_opt!(", "v1", "checked_mul(", "SECS_PER_WEEK"] := by decide +kernel

/-- src/time_delta.rs:fn weeks -/
theorem src_time_delta_rs_fn_weeks : C06_src_time_delta_rs_fn_weeks =
    ["v1", "i64", "->", "TimeDelta", "expect(", "TimeDelta", "try_weeks(", "v1", "\"…\""] := by decide +kernel

/-- src/time_delta.rs:fn zero -/
theorem src_time_delta_rs_fn_zero : C06_src_time_delta_rs_fn_zero =
    ["->", "TimeDelta", "TimeDelta", "v1", "0", "v2", "0"] := by decide +kernel

/-- src/time_delta.rs:impl Add for TimeDelta -/
theorem src_time_delta_rs_impl_Add_for_TimeDelta : C06_src_time_delta_rs_impl_Add_for_TimeDelta =
    ["Add", "for", "TimeDelta", "Output", "TimeDelta", "add(", "self", "v1", "TimeDelta", "->", "TimeDelta", "self", "checked_add(", "&", "v1", "expect(", "\"…\""] := by decide +kernel

/-- src/time_delta.rs:impl AddAssign for TimeDelta -/
theorem src_time_delta_rs_impl_AddAssign_for_TimeDelta : C06_src_time_delta_rs_impl_AddAssign_for_TimeDelta =
    ["AddAssign", "for", "TimeDelta", "add_assign(", "&", "self", "v1", "TimeDelta", "v2", "self", "checked_add(", "&", "v1", "expect(", "\"…\"", "*", "self", "v2"] := by decide +kernel

/-- src/time_delta.rs:impl Display -/
theorem src_time_delta_rs_impl_Display : C06_src_time_delta_rs_impl_Display =
    ["v1", "Display", "for", "TimeDelta", "fmt(", "&", "self", "v2", "&", "v1", "Formatter", "->", "v1", "Result", "let(", "v3", "v4", "if", "self", "v5", "<", "0", "-", "*", "self", "\"-\"", "else", "*", "self", "\"\"", "write!(", "v2", "\"{}P\"", "v4", "?", "if", "v3", "v5", "==", "0", "&&", "v3", "v6", "==", "0", "return", "v2", "write_str(", "\"0D\"", "v2", "write_fmt(", "format_args!(", "\"T{}\"", "v3", "v5", "?", "if", "v3", "v6", ">", "0", "v7", "9", "v8", "v3", "v6", "loop", "v9", "v8", "/", "10", "v10", "v8", "%", "10", "if", "v10", "!=", "0", "break", "v8", "v9", "v7", "-=", "1", "v2", "write_fmt(", "format_args!(", "\".{:01$}\"", "v8", "v7", "?", "v2", "write_str(", "\"S\"", "?", "Ok(", "§", "v1", "Display", "for", "OutOfRangeError", "fmt(", "&", "self", "v2", "&", "v1", "Formatter", "->", "v1", "Result", "write!(", "v2", "\"…\""] := by decide +kernel

/-- src/time_delta.rs:impl Div for TimeDelta -/
theorem src_time_delta_rs_impl_Div_for_TimeDelta : C06_src_time_delta_rs_impl_Div_for_TimeDelta =
    ["Div", "<", "i32", ">", "for", "TimeDelta", "Output", "TimeDelta", "div(", "self", "v1", "i32", "->", "TimeDelta", "self", "checked_div(", "v1", "expect(", "\"…\""] := by decide +kernel

/-- src/time_delta.rs:impl Mul for TimeDelta -/
theorem src_time_delta_rs_impl_Mul_for_TimeDelta : C06_src_time_delta_rs_impl_Mul_for_TimeDelta =
    ["Mul", "<", "i32", ">", "for", "TimeDelta", "Output", "TimeDelta", "mul(", "self", "v1", "i32", "->", "TimeDelta", "self", "checked_mul(", "v1", "expect(", "\"…\""] := by decide +kernel

/-- src/time_delta.rs:impl Neg for TimeDelta -/
theorem src_time_delta_rs_impl_Neg_for_TimeDelta : C06_src_time_delta_rs_impl_Neg_for_TimeDelta =
    ["Neg", "for", "TimeDelta", "Output", "TimeDelta", "neg(", "self", "->", "TimeDelta", "let(", "v1", "v2", "match", "self", "v2", "0", "=>", "0", "0", "v2", "=>", "1", "NANOS_PER_SEC", "-", "v2", "TimeDelta", "v3", "-", "self", "v3", "-", "v1", "v2"] := by decide +kernel

/-- src/time_delta.rs:impl Sub for TimeDelta -/
theorem src_time_delta_rs_impl_Sub_for_TimeDelta : C06_src_time_delta_rs_impl_Sub_for_TimeDelta =
    ["Sub", "for", "TimeDelta", "Output", "TimeDelta", "sub(", "self", "v1", "TimeDelta", "->", "TimeDelta", "self", "checked_sub(", "&", "v1", "expect(", "\"…\""] := by decide +kernel

/-- src/time_delta.rs:impl SubAssign for TimeDelta -/
theorem src_time_delta_rs_impl_SubAssign_for_TimeDelta : C06_src_time_delta_rs_impl_SubAssign_for_TimeDelta =
    ["SubAssign", "for", "TimeDelta", "sub_assign(", "&", "self", "v1", "TimeDelta", "v2", "self", "checked_sub(", "&", "v1", "expect(", "\"…\"", "*", "self", "v2"] := by decide +kernel

/-- src/time_delta.rs:impl Sum -/
theorem src_time_delta_rs_impl_Sum : C06_src_time_delta_rs_impl_Sum =
    ["<", ">", "v1", "v2", "Sum", "<", "&", "TimeDelta", ">", "for", "TimeDelta", "v3", "<", "I", "Iterator", "<", "Item", "&", "TimeDelta", ">>", "v2", "I", "->", "TimeDelta", "v2", "fold(", "TimeDelta", "zero(", "|", "v4", "v5", "|", "v4", "+", "*", "v5", "§", "v1", "v2", "Sum", "<", "TimeDelta", ">", "for", "TimeDelta", "v3", "<", "I", "Iterator", "<", "Item", "TimeDelta", ">>", "v2", "I", "->", "TimeDelta", "v2", "fold(", "TimeDelta", "zero(", "|", "v4", "v5", "|", "v4", "+", "v5"] := by decide +kernel

/-- src/time_delta.rs:mod serde -/
theorem src_time_delta_rs_mod_serde : C06_src_time_delta_rs_mod_serde =
    ["TimeDelta", "v1", "Deserialize", "Deserializer", "Serialize", "Serializer", "v2", "Error", "Serialize", "for", "TimeDelta", "v3", "<", "S", "Serializer", ">", "&", "self", "v4", "S", "->", "Result", "<", "S", "Ok", "S", "Error", ">", "<", "i64", "i32", "as", "Serialize", ">", "serialize(", "&", "self", "v5", "self", "v6", "v4", "<", ">", "Deserialize", "<", ">", "for", "TimeDelta", "v7", "<", "D", "Deserializer", "<", ">>", "v8", "D", "->", "Result", "<", "Self", "D", "Error", ">", "let(", "v5", "v6", "<", "i64", "i32", "as", "Deserialize", ">", "deserialize(", "v8", "?", "TimeDelta", "new(", "v5", "v6", "as", "u32", "ok_or(", "Error", "custom(", "\"…\""] := by decide +kernel

/-- src/time_delta.rs:type TimeDelta -/
theorem src_time_delta_rs_type_TimeDelta : C06_src_time_delta_rs_type_TimeDelta =
    ["v1", "i64", "v2", "i32", "§", "TimeDelta", "new(", "v1", "i64", "v2", "u32", "->", "Option", "<", "TimeDelta", ">", "if", "v1", "<", "MIN", "v1", "||", "v1", ">", "MAX", "v1", "||", "v2", ">=", "1000000000", "||", "v1", "==", "MAX", "v1", "&&", "v2", ">", "MAX", "v2", "as", "u32", "||", "v1", "==", "MIN", "v1", "&&", "v2", "<", "MIN", "v2", "as", "u32", "return", "None", "Some(", "TimeDelta", "v1", "v2", "v2", "as", "i32", "weeks(", "v3", "i64", "->", "TimeDelta", "expect(", "TimeDelta", "try_weeks(", "v3", "\"…\"", "try_weeks(", "v3", "i64", "->", "Option", "<", "TimeDelta", ">", "TimeDelta", "try_seconds(", "try_opt!(", "v3", "checked_mul(", "SECS_PER_WEEK", "days(", "v4", "i64", "->", "TimeDelta", "expect(", "TimeDelta", "try_days(", "v4", "\"…\"", "try_days(", "v4", "i64", "->", "Option", "<", "TimeDelta", ">", "TimeDelta", "try_seconds(", "try_opt!(", "v4", "checked_mul(", "SECS_PER_DAY", "hours(", "v5", "i64", "->", "TimeDelta", "expect(", "TimeDelta", "try_hours(", "v5", "\"…\"", "try_hours(", "v5", "i64", "->", "Option", "<", "TimeDelta", ">", "TimeDelta", "try_seconds(", "try_opt!(", "v5", "checked_mul(", "SECS_PER_HOUR", "minutes(", "v6", "i64", "->", "TimeDelta", "expect(", "TimeDelta", "try_minutes(", "v6", "\"…\"", "try_minutes(", "v6", "i64", "->", "Option", "<", "TimeDelta", ">", "TimeDelta", "try_seconds(", "try_opt!(", "v6", "checked_mul(", "SECS_PER_MINUTE", "seconds(", "v7", "i64", "->", "TimeDelta", "expect(", "TimeDelta", "try_seconds(", "v7", "\"…\"", "try_seconds(", "v7", "i64", "->", "Option", "<", "TimeDelta", ">", "TimeDelta", "new(", "v7", "0", "milliseconds(", "v8", "i64", "->", "TimeDelta", "expect(", "TimeDelta", "try_milliseconds(", "v8", "\"…\"", "try_milliseconds(", "v8", "i64", "->", "Option", "<", "TimeDelta", ">", "if", "v8", "<", "-", "i64", "MAX", "return", "None", "let(", "v1", "v9", "div_mod_floor_64(", "v8", "MILLIS_PER_SEC", "v10", "TimeDelta", "v1", "v2", "v9", "as", "i32", "*", "NANOS_PER_MILLI", "Some(", "v10", "microseconds(", "v11", "i64", "->", "TimeDelta", "let(", "v1", "v12", "div_mod_floor_64(", "v11", "MICROS_PER_SEC", "v2", "v12", "as", "i32", "*", "NANOS_PER_MICRO", "TimeDelta", "v1", "v2", "nanoseconds(", "v2", "i64", "->", "TimeDelta", "let(", "v1", "v2", "div_mod_floor_64(", "v2", "NANOS_PER_SEC", "as", "i64", "TimeDelta", "v1", "v2", "v2", "as", "i32", "num_weeks(", "&", "self", "->", "i64", "self", "num_days(", "/", "7", "num_days(", "&", "self", "->", "i64", "self", "num_seconds(", "/", "SECS_PER_DAY", "num_hours(", "&", "self", "->", "i64", "self", "num_seconds(", "/", "SECS_PER_HOUR", "num_minutes(", "&", "self", "->", "i64", "self", "num_seconds(", "/", "SECS_PER_MINUTE", "num_seconds(", "&", "self", "->", "i64", "if", "self", "v1", "<", "0", "&&", "self", "v2", ">", "0", "self", "v1", "+", "1", "else", "self", "v1", "as_seconds_f64(", "self", "->", "f64", "self", "v1", "as", "f64", "+", "self", "v2", "as", "f64", "/", "NANOS_PER_SEC", "as", "f64", "as_seconds_f32(", "self", "->", "f32", "self", "v1", "as", "f32", "+", "self", "v2", "as", "f32", "/", "NANOS_PER_SEC", "as", "f32", "num_milliseconds(", "&", "self", "->", "i64", "v13", "self", "num_seconds(", "*", "MILLIS_PER_SEC", "v14", "self", "subsec_nanos(", "/", "NANOS_PER_MILLI", "v13", "+", "v14", "as", "i64", "subsec_millis(", "&", "self", "->", "i32", "self", "subsec_nanos(", "/", "NANOS_PER_MILLI", "num_microseconds(", "&", "self", "->", "Option", "<", "i64", ">", "v13", "try_opt!(", "self", "num_seconds(", "checked_mul(", "MICROS_PER_SEC", "v14", "self", "subsec_nanos(", "/", "NANOS_PER_MICRO", "v13", "checked_add(", "v14", "as", "i64", "subsec_micros(", "&", "self", "->", "i32", "self", "subsec_nanos(", "/", "NANOS_PER_MICRO", "num_nanoseconds(", "&", "self", "->", "Option", "<", "i64", ">", "v13", "try_opt!(", "self", "num_seconds(", "checked_mul(", "NANOS_PER_SEC", "as", "i64", "v14", "self", "subsec_nanos(", "v13", "checked_add(", "v14", "as", "i64", "subsec_nanos(", "&", "self", "->", "i32", "if", "self", "v1", "<", "0", "&&", "self", "v2", ">", "0", "self", "v2", "-", "NANOS_PER_SEC", "else", "self", "v2", "checked_add(", "&", "self", "v15", "&", "TimeDelta", "->", "Option", "<", "TimeDelta", ">", "v1", "self", "v1", "+", "v15", "v1", "v2", "self", "v2", "+", "v15", "v2", "if", "v2", ">=", "NANOS_PER_SEC", "v2", "-=", "NANOS_PER_SEC", "v1", "+=", "1", "TimeDelta", "new(", "v1", "v2", "as", "u32", "checked_sub(", "&", "self", "v15", "&", "TimeDelta", "->", "Option", "<", "TimeDelta", ">", "v1", "self", "v1", "-", "v15", "v1", "v2", "self", "v2", "-", "v15", "v2", "if", "v2", "<", "0", "v2", "+=", "NANOS_PER_SEC", "v1", "-=", "1", "TimeDelta", "new(", "v1", "v2", "as", "u32", "checked_mul(", "&", "self", "v15", "i32", "->", "Option", "<", "TimeDelta", ">", "v16", "self", "v2", "as", "i64", "*", "v15", "as", "i64", "let(", "v17", "v2", "div_mod_floor_64(", "v16", "NANOS_PER_SEC", "as", "i64", "v1", "i128", "self", "v1", "as", "i128", "*", "v15", "as", "i128", "+", "v17", "as", "i128", "if", "v1", "<=", "i64", "MIN", "as", "i128", "||", "v1", ">=", "i64", "MAX", "as", "i128", "return", "None", "TimeDelta", "new(", "v1", "as", "i64", "v2", "as", "u32", "checked_div(", "&", "self", "v15", "i32", "->", "Option", "<", "TimeDelta", ">", "if", "v15", "==", "0", "return", "None", "v1", "self", "v1", "/", "v15", "as", "i64", "v18", "self", "v1", "%", "v15", "as", "i64", "v19", "v18", "*", "NANOS_PER_SEC", "as", "i64", "/", "v15", "as", "i64", "v2", "self", "v2", "/", "v15", "+", "v19", "as", "i32", "let(", "v1", "v2", "match", "v2", "i32", "MIN", "..=", "-", "1", "=>", "v1", "-", "1", "v2", "+", "NANOS_PER_SEC", "NANOS_PER_SEC", "..=", "i32", "MAX", "=>", "v1", "+", "1", "v2", "-", "NANOS_PER_SEC", "v20", "=>", "v1", "v2", "Some(", "TimeDelta", "v1", "v2", "abs(", "&", "self", "->", "TimeDelta", "if", "self", "v1", "<", "0", "&&", "self", "v2", "!=", "0", "TimeDelta", "v1", "self", "v1", "+", "1", "abs(", "v2", "NANOS_PER_SEC", "-", "self", "v2", "else", "TimeDelta", "v1", "self", "v1", "abs(", "v2", "self", "v2", "min_value(", "->", "TimeDelta", "MIN", "max_value(", "->", "TimeDelta", "MAX", "zero(", "->", "TimeDelta", "TimeDelta", "v1", "0", "v2", "0", "is_zero(", "&", "self", "->", "bool", "self", "v1", "==", "0", "&&", "self", "v2", "==", "0", "from_std(", "v21", "Duration", "->", "Result", "<", "TimeDelta", "OutOfRangeError", ">", "if", "v21", "as_secs(", ">", "MAX", "v1", "as", "u64", "return", "Err(", "OutOfRangeError(", "match", "TimeDelta", "new(", "v21", "as_secs(", "as", "i64", "v21", "subsec_nanos(", "Some(", "v10", "=>", "Ok(", "v10", "None", "=>", "Err(", "OutOfRangeError(", "to_std(", "&", "self", "->", "Result", "<", "Duration", "OutOfRangeError", ">", "if", "self", "v1", "<", "0", "return", "Err(", "OutOfRangeError(", "Ok(", "Duration", "new(", "self", "v1", "as", "u64", "self", "v2", "as", "u32", "pub(", "neg(", "self", "->", "TimeDelta", "let(", "v22", "v2", "match", "self", "v2", "0", "=>", "0", "0", "v2", "=>", "1", "NANOS_PER_SEC", "-", "v2", "TimeDelta", "v1", "-", "self", "v1", "-", "v22", "v2", "MIN", "Self", "MIN", "MAX", "Self", "MAX", "§", "Neg", "for", "TimeDelta", "Output", "TimeDelta", "neg(", "self", "->", "TimeDelta", "let(", "v1", "v2", "match", "self", "v2", "0", "=>", "0", "0", "v2", "=>", "1", "NANOS_PER_SEC", "-", "v2", "TimeDelta", "v3", "-", "self", "v3", "-", "v1", "v2", "§", "Add", "for", "TimeDelta", "Output", "TimeDelta", "add(", "self", "v1", "TimeDelta", "->", "TimeDelta", "self", "checked_add(", "&", "v1", "expect(", "\"…\"", "§", "Sub", "for", "TimeDelta", "Output", "TimeDelta", "sub(", "self", "v1", "TimeDelta", "->", "TimeDelta", "self", "checked_sub(", "&", "v1", "expect(", "\"…\"", "§", "AddAssign", "for", "TimeDelta", "add_assign(", "&", "self", "v1", "TimeDelta", "v2", "self", "checked_add(", "&", "v1", "expect(", "\"…\"", "*", "self", "v2", "§", "SubAssign", "for", "TimeDelta", "sub_assign(", "&", "self", "v1", "TimeDelta", "v2", "self", "checked_sub(", "&", "v1", "expect(", "\"…\"", "*", "self", "v2", "§", "Mul", "<", "i32", ">", "for", "TimeDelta", "Output", "TimeDelta", "mul(", "self", "v1", "i32", "->", "TimeDelta", "self", "checked_mul(", "v1", "expect(", "\"…\"", "§", "Div", "<", "i32", ">", "for", "TimeDelta", "Output", "TimeDelta", "div(", "self", "v1", "i32", "->", "TimeDelta", "self", "checked_div(", "v1", "expect(", "\"…\"", "§", "<", ">", "v1", "v2", "Sum", "<", "&", "TimeDelta", ">", "for", "TimeDelta", "v3", "<", "I", "Iterator", "<", "Item", "&", "TimeDelta", ">>", "v2", "I", "->", "TimeDelta", "v2", "fold(", "TimeDelta", "zero(", "|", "v4", "v5", "|", "v4", "+", "*", "v5", "§", "v1", "v2", "Sum", "<", "TimeDelta", ">", "for", "TimeDelta", "v3", "<", "I", "Iterator", "<", "Item", "TimeDelta", ">>", "v2", "I", "->", "TimeDelta", "v2", "fold(", "TimeDelta", "zero(", "|", "v4", "v5", "|", "v4", "+", "v5", "§", "v1", "Display", "for", "TimeDelta", "fmt(", "&", "self", "v2", "&", "v1", "Formatter", "->", "v1", "Result", "let(", "v3", "v4", "if", "self", "v5", "<", "0", "-", "*", "self", "\"-\"", "else", "*", "self", "\"\"", "write!(", "v2", "\"{}P\"", "v4", "?", "if", "v3", "v5", "==", "0", "&&", "v3", "v6", "==", "0", "return", "v2", "write_str(", "\"0D\"", "v2", "write_fmt(", "format_args!(", "\"T{}\"", "v3", "v5", "?", "if", "v3", "v6", ">", "0", "v7", "9", "v8", "v3", "v6", "loop", "v9", "v8", "/", "10", "v10", "v8", "%", "10", "if", "v10", "!=", "0", "break", "v8", "v9", "v7", "-=", "1", "v2", "write_fmt(", "format_args!(", "\".{:01$}\"", "v8", "v7", "?", "v2", "write_str(", "\"S\"", "?", "Ok(", "§", "v1", "Arbitrary", "<", ">", "for", "TimeDelta", "arbitrary(", "v2", "&", "v1", "Unstructured", "->", "v1", "Result", "<", "TimeDelta", ">", "MIN_SECS", "i64", "-", "i64", "MAX", "/", "MILLIS_PER_SEC", "-", "1", "MAX_SECS", "i64", "i64", "MAX", "/", "MILLIS_PER_SEC", "v3", "i64", "v2", "int_in_range(", "MIN_SECS", "..=", "MAX_SECS", "?", "v4", "i32", "v2", "int_in_range(", "0", "..=", "NANOS_PER_SEC", "-", "1", "?", "v5", "TimeDelta", "v3", "v4", "if", "v5", "<", "MIN", "||", "v5", ">", "MAX", "Err(", "v1", "Error", "IncorrectFormat", "else", "Ok(", "v5", "§", "Serialize", "for", "TimeDelta", "v1", "<", "S", "Serializer", ">", "&", "self", "v2", "S", "->", "Result", "<", "S", "Ok", "S", "Error", ">", "<", "i64", "i32", "as", "Serialize", ">", "serialize(", "&", "self", "v3", "self", "v4", "v2", "§", "<", ">", "Deserialize", "<", ">", "for", "TimeDelta", "v1", "<", "D", "Deserializer", "<", ">>", "v2", "D", "->", "Result", "<", "Self", "D", "Error", ">", "let(", "v3", "v4", "<", "i64", "i32", "as", "Deserialize", ">", "deserialize(", "v2", "?", "TimeDelta", "new(", "v3", "v4", "as", "u32", "ok_or(", "Error", "custom(", "\"…\""] := by decide +kernel

end Chrono.Pins.C06
