/-
  PINS of property C15: the decision tokens of every item the property is anchored in
  (properties.jsonl `anchors` + tools/anchor_extra.json), as they were in /repo at 32de816 when the
  model was validated against the source.  Written by tools/pin_anchors.py; the right-hand sides are
  compared by the kernel with lean/Chrono/Extracted/Anchors.lean, which tools/extractors/anchors.py
  regenerates from /repo's working tree on every check.  A theorem that fails here means: anchored
  code changed; the hand-written model may no longer mirror it.
-/
import Chrono.Extracted.Anchors
namespace Chrono.Pins.C15
open Chrono.Extracted.Anchors

/-- src/datetime/mod.rs:fn checked_add_days -/
theorem src_datetime_mod_rs_fn_checked_add_days : C15_src_datetime_mod_rs_fn_checked_add_days =
    ["self", "v1", "Days", "->", "Option", "<", "Self", ">", "if", "v1", "==", "Days", "new(", "0", "return", "Some(", "self", "self", "overflowing_naive_local(", "checked_add_days(", "v1", "and_then(", "|", "v2", "|", "self", "timezone(", "from_local_datetime(", "&", "v2", "single(", "filter(", "|", "v2", "|", "v2", "<=", "&", "DateTime", "<", "Utc", ">", "MAX_UTC"] := by decide +kernel

/-- src/datetime/mod.rs:fn checked_sub_days -/
theorem src_datetime_mod_rs_fn_checked_sub_days : C15_src_datetime_mod_rs_fn_checked_sub_days =
    ["self", "v1", "Days", "->", "Option", "<", "Self", ">", "self", "overflowing_naive_local(", "checked_sub_days(", "v1", "and_then(", "|", "v2", "|", "self", "timezone(", "from_local_datetime(", "&", "v2", "single(", "filter(", "|", "v2", "|", "v2", ">=", "&", "DateTime", "<", "Utc", ">", "MIN_UTC"] := by decide +kernel

/-- src/datetime/mod.rs:fn map_local -/
theorem src_datetime_mod_rs_fn_map_local : C15_src_datetime_mod_rs_fn_map_local =
    ["<", "Tz", "TimeZone", "F", ">", "v1", "&", "DateTime", "<", "Tz", ">", "v2", "F", "->", "Option", "<", "DateTime", "<", "Tz", ">>", "F", "FnMut(", "NaiveDateTime", "->", "Option", "<", "NaiveDateTime", ">", "f(", "v1", "overflowing_naive_local(", "and_then(", "|", "v3", "|", "v1", "timezone(", "from_local_datetime(", "&", "v3", "single(", "filter(", "|", "v1", "|", "v1", ">=", "&", "DateTime", "<", "Utc", ">", "MIN_UTC", "&&", "v1", "<=", "&", "DateTime", "<", "Utc", ">", "MAX_UTC"] := by decide +kernel

/-- src/datetime/mod.rs:fn overflowing_naive_local -/
theorem src_datetime_mod_rs_fn_overflowing_naive_local : C15_src_datetime_mod_rs_fn_overflowing_naive_local =
    ["&", "self", "->", "NaiveDateTime", "self", "v1", "overflowing_add_offset(", "self", "v2", "fix("] := by decide +kernel

/-- src/datetime/mod.rs:fn to_rfc3339 -/
theorem src_datetime_mod_rs_fn_to_rfc3339 : C15_src_datetime_mod_rs_fn_to_rfc3339 =
    ["&", "self", "->", "String", "v1", "String", "with_capacity(", "32", "v2", "self", "overflowing_naive_local(", "v3", "self", "v3", "fix(", "write_rfc3339(", "&", "v1", "v2", "v3", "SecondsFormat", "AutoSi", "false", "expect(", "\"…\"", "v1"] := by decide +kernel

/-- src/datetime/mod.rs:fn to_rfc3339_opts -/
theorem src_datetime_mod_rs_fn_to_rfc3339_opts : C15_src_datetime_mod_rs_fn_to_rfc3339_opts =
    ["&", "self", "v1", "SecondsFormat", "v2", "bool", "->", "String", "v3", "String", "with_capacity(", "38", "v4", "self", "overflowing_naive_local(", "write_rfc3339(", "&", "v3", "v4", "self", "v5", "fix(", "v1", "v2", "expect(", "\"…\"", "v3"] := by decide +kernel

/-- src/datetime/mod.rs:fn with_time -/
theorem src_datetime_mod_rs_fn_with_time : C15_src_datetime_mod_rs_fn_with_time =
    ["&", "self", "v1", "NaiveTime", "->", "LocalResult", "<", "Self", ">", "self", "timezone(", "from_local_datetime(", "&", "self", "overflowing_naive_local(", "date(", "and_time(", "v1", "and_then(", "|", "v2", "|", "if", "v2", ">=", "DateTime", "<", "Utc", ">", "MIN_UTC", "&&", "v2", "<=", "DateTime", "<", "Utc", ">", "MAX_UTC", "Some(", "v2", "else", "None"] := by decide +kernel

/-- src/datetime/serde.rs:impl Serialize for DateTime -/
theorem src_datetime_serde_rs_impl_Serialize_for_DateTime : C15_src_datetime_serde_rs_impl_Serialize_for_DateTime =
    ["<", "Tz", "TimeZone", ">", "v1", "Serialize", "for", "DateTime", "<", "Tz", ">", "v2", "<", "S", ">", "&", "self", "v3", "S", "->", "Result", "<", "S", "Ok", "S", "Error", ">", "S", "v1", "Serializer", "FormatIso8601", "<", "Tz", "TimeZone", ">", "v4", "&", "DateTime", "<", "Tz", ">", "<", "Tz", "TimeZone", ">", "v5", "Display", "for", "FormatIso8601", "<", "Tz", ">", "fmt(", "&", "self", "v6", "&", "v5", "Formatter", "->", "v5", "Result", "v7", "self", "v4", "overflowing_naive_local(", "v8", "self", "v4", "v8", "fix(", "write_rfc3339(", "v6", "v7", "v8", "SecondsFormat", "AutoSi", "true", "v3", "collect_str(", "&", "FormatIso8601", "v4", "self"] := by decide +kernel

/-- src/format/parse.rs:fn parse_internal -/
theorem src_format_parse_rs_fn_parse_internal : C15_src_format_parse_rs_fn_parse_internal =
    ["<", "I", "B", ">", "v1", "&", "Parsed", "v2", "&", "str", "v3", "I", "->", "Result", "<", "&", "str", "ParseError", ">", "I", "Iterator", "<", "Item", "B", ">", "B", "Borrow", "<", "Item", "<", ">>", "v4", "!", "v5", "v6", "v7", "=>", "match", "v6", "Ok(", "v8", "v9", "=>", "v2", "v8", "v9", "Err(", "v6", "=>", "return", "Err(", "v6", "for", "v10", "in", "v3", "match", "*", "v10", "borrow(", "Item", "Literal(", "v11", "=>", "if", "v2", "len(", "<", "v11", "len(", "return", "Err(", "TOO_SHORT", "if", "!", "v2", "starts_with(", "v11", "return", "Err(", "INVALID", "v2", "&", "v2", "v11", "len(", "..", "Item", "OwnedLiteral(", "v11", "=>", "if", "v2", "len(", "<", "v11", "len(", "return", "Err(", "TOO_SHORT", "if", "!", "v2", "starts_with(", "&", "v11", "..", "return", "Err(", "INVALID", "v2", "&", "v2", "v11", "len(", "..", "Item", "Space(", "v12", "=>", "v2", "v2", "trim_start(", "Item", "OwnedSpace(", "v12", "=>", "v2", "v2", "trim_start(", "Item", "Numeric(", "v13", "v14", "=>", "Numeric", "*", "Setter", "fn(", "&", "Parsed", "i64", "->", "ParseResult", "<", ">", "let(", "v15", "v16", "v17", "usize", "bool", "Setter", "match", "*", "v13", "Year", "=>", "4", "true", "Parsed", "v18", "YearDiv100", "=>", "2", "false", "Parsed", "v19", "YearMod100", "=>", "2", "false", "Parsed", "v20", "IsoYear", "=>", "4", "true", "Parsed", "v21", "IsoYearDiv100", "=>", "2", "false", "Parsed", "v22", "IsoYearMod100", "=>", "2", "false", "Parsed", "v23", "Quarter", "=>", "1", "false", "Parsed", "v24", "Month", "=>", "2", "false", "Parsed", "v25", "Day", "=>", "2", "false", "Parsed", "v26", "WeekFromSun", "=>", "2", "false", "Parsed", "v27", "WeekFromMon", "=>", "2", "false", "Parsed", "v28", "IsoWeek", "=>", "2", "false", "Parsed", "v29", "NumDaysFromSun", "=>", "1", "false", "v30", "WeekdayFromMon", "=>", "1", "false", "v31", "Ordinal", "=>", "3", "false", "Parsed", "v32", "Hour", "=>", "2", "false", "Parsed", "v33", "Hour12", "=>", "2", "false", "Parsed", "v34", "Minute", "=>", "2", "false", "Parsed", "v35", "Second", "=>", "2", "false", "Parsed", "v36", "Nanosecond", "=>", "9", "false", "Parsed", "v37", "Timestamp", "=>", "usize", "MAX", "true", "Parsed", "v38", "Internal(", "v39", "=>", "match", "v39", "v40", "v2", "v2", "trim_start(", "v9", "if", "v16", "if", "v2", "starts_with(", "'-'", "v9", "try_consume!(", "v41", "number(", "&", "v2", "1", "..", "1", "usize", "MAX", "0", "checked_sub(", "v9", "ok_or(", "OUT_OF_RANGE", "?", "else", "if", "v2", "starts_with(", "'+'", "try_consume!(", "v41", "number(", "&", "v2", "1", "..", "1", "usize", "MAX", "else", "try_consume!(", "v41", "number(", "v2", "1", "v15", "else", "try_consume!(", "v41", "number(", "v2", "1", "v15", "set(", "v1", "v9", "?", "Item", "Fixed(", "v13", "=>", "Fixed", "*", "match", "v13", "&", "ShortMonthName", "=>", "v42", "try_consume!(", "v41", "short_month0(", "v2", "v1", "set_month(", "i64", "from(", "v42", "+", "1", "?", "&", "LongMonthName", "=>", "v42", "try_consume!(", "v41", "short_or_long_month0(", "v2", "v1", "set_month(", "i64", "from(", "v42", "+", "1", "?", "&", "ShortWeekdayName", "=>", "v43", "try_consume!(", "v41", "short_weekday(", "v2", "v1", "set_weekday(", "v43", "?", "&", "LongWeekdayName", "=>", "v43", "try_consume!(", "v41", "short_or_long_weekday(", "v2", "v1", "set_weekday(", "v43", "?", "&", "LowerAmPm", "|", "&", "UpperAmPm", "=>", "if", "v2", "len(", "<", "2", "return", "Err(", "TOO_SHORT", "v44", "match(", "v2", "as_bytes(", "0", "|", "32", "v2", "as_bytes(", "1", "|", "32", "b'a'", "b'm'", "=>", "false", "b'p'", "b'm'", "=>", "true", "v12", "=>", "return", "Err(", "INVALID", "v1", "set_ampm(", "v44", "?", "v2", "&", "v2", "2", "..", "&", "Nanosecond", "|", "&", "Nanosecond3", "|", "&", "Nanosecond6", "|", "&", "Nanosecond9", "=>", "if", "v2", "starts_with(", "'.'", "v45", "try_consume!(", "v41", "nanosecond(", "&", "v2", "1", "..", "v1", "set_nanosecond(", "v45", "?", "&", "Internal(", "InternalFixed", "v46", "InternalInternal", "Nanosecond3NoDot", "=>", "if", "v2", "len(", "<", "3", "return", "Err(", "TOO_SHORT", "v45", "try_consume!(", "v41", "nanosecond_fixed(", "v2", "3", "v1", "set_nanosecond(", "v45", "?", "&", "Internal(", "InternalFixed", "v46", "InternalInternal", "Nanosecond6NoDot", "=>", "if", "v2", "len(", "<", "6", "return", "Err(", "TOO_SHORT", "v45", "try_consume!(", "v41", "nanosecond_fixed(", "v2", "6", "v1", "set_nanosecond(", "v45", "?", "&", "Internal(", "InternalFixed", "v46", "InternalInternal", "Nanosecond9NoDot", "=>", "if", "v2", "len(", "<", "9", "return", "Err(", "TOO_SHORT", "v45", "try_consume!(", "v41", "nanosecond_fixed(", "v2", "9", "v1", "set_nanosecond(", "v45", "?", "&", "TimezoneName", "=>", "try_consume!(", "Ok(", "v2", "trim_start_matches(", "|", "v47", "char", "|", "!", "v47", "is_whitespace(", "&", "TimezoneOffsetColon", "|", "&", "TimezoneOffsetDoubleColon", "|", "&", "TimezoneOffsetTripleColon", "|", "&", "TimezoneOffset", "=>", "v48", "try_consume!(", "v41", "timezone_offset(", "v2", "trim_start(", "v41", "v49", "false", "false", "true", "v1", "set_offset(", "i64", "from(", "v48", "?", "&", "TimezoneOffsetColonZ", "|", "&", "TimezoneOffsetZ", "=>", "v48", "try_consume!(", "v41", "timezone_offset(", "v2", "trim_start(", "v41", "v49", "true", "false", "true", "v1", "set_offset(", "i64", "from(", "v48", "?", "&", "Internal(", "InternalFixed", "v46", "InternalInternal", "TimezoneOffsetPermissive", "=>", "v48", "try_consume!(", "v41", "timezone_offset(", "v2", "trim_start(", "v41", "v49", "true", "true", "true", "v1", "set_offset(", "i64", "from(", "v48", "?", "&", "RFC2822", "=>", "try_consume!(", "parse_rfc2822(", "v1", "v2", "&", "RFC3339", "=>", "try_consume!(", "parse_rfc3339_relaxed(", "v1", "v2", "Item", "Error", "=>", "return", "Err(", "BAD_FORMAT", "Ok(", "v2"] := by decide +kernel

/-- src/format/parsed.rs:fn to_naive_datetime_with_offset -/
theorem src_format_parsed_rs_fn_to_naive_datetime_with_offset : C15_src_format_parsed_rs_fn_to_naive_datetime_with_offset =
    ["&", "self", "v1", "i32", "->", "ParseResult", "<", "NaiveDateTime", ">", "v2", "self", "to_naive_date(", "v3", "self", "to_naive_time(", "if", "let(", "Ok(", "v2", "Ok(", "v3", "v2", "v3", "v4", "v2", "and_time(", "v3", "v5", "v4", "and_utc(", "timestamp(", "-", "i64", "from(", "v1", "if", "Some(", "v6", "self", "v5", "if", "v6", "!=", "v5", "&&", "!", "v4", "nanosecond(", ">=", "1000000000", "&&", "v6", "==", "v5", "+", "1", "return", "Err(", "IMPOSSIBLE", "Ok(", "v4", "else", "if", "Some(", "v5", "self", "v5", "ParseError", "as", "PE", "ParseErrorKind", "Impossible", "OutOfRange", "match(", "v2", "v3", "Err(", "PE(", "OutOfRange", "v7", "|", "v7", "Err(", "PE(", "OutOfRange", "=>", "return", "Err(", "OUT_OF_RANGE", "Err(", "PE(", "Impossible", "v7", "|", "v7", "Err(", "PE(", "Impossible", "=>", "return", "Err(", "IMPOSSIBLE", "v7", "v7", "=>", "v8", "v5", "checked_add(", "i64", "from(", "v1", "ok_or(", "OUT_OF_RANGE", "?", "v4", "DateTime", "from_timestamp(", "v8", "0", "ok_or(", "OUT_OF_RANGE", "?", "naive_utc(", "v9", "self", "clone(", "if", "v9", "v10", "==", "Some(", "60", "match", "v4", "second(", "59", "=>", "0", "=>", "v4", "v4", "checked_sub_signed(", "TimeDelta", "try_seconds(", "1", "unwrap(", "ok_or(", "OUT_OF_RANGE", "?", "v7", "=>", "return", "Err(", "IMPOSSIBLE", "else", "v9", "set_second(", "i64", "from(", "v4", "second(", "?", "v9", "set_year(", "i64", "from(", "v4", "year(", "?", "v9", "set_ordinal(", "i64", "from(", "v4", "ordinal(", "?", "v9", "set_hour(", "i64", "from(", "v4", "hour(", "?", "v9", "set_minute(", "i64", "from(", "v4", "minute(", "?", "v2", "v9", "to_naive_date(", "?", "v3", "v9", "to_naive_time(", "?", "Ok(", "v2", "and_time(", "v3", "else", "v2", "?", "v3", "?", "unreachable!("] := by decide +kernel

/-- src/format/scan.rs:fn comment_2822 -/
theorem src_format_scan_rs_fn_comment_2822 : C15_src_format_scan_rs_fn_comment_2822 =
    ["v1", "&", "str", "->", "ParseResult", "<", "&", "str", ">", "CommentState", "*", "v1", "v1", "trim_start(", "v2", "Start", "for(", "v3", "v4", "in", "v1", "bytes(", "enumerate(", "v2", "match(", "v2", "v4", "Start", "b'('", "=>", "Next(", "1", "Next(", "1", "b')'", "=>", "return", "Ok(", "&", "v1", "v3", "+", "1", "..", "Next(", "v5", "b'\\\\'", "=>", "Escape(", "v5", "Next(", "v5", "b'('", "=>", "Next(", "v5", "+", "1", "Next(", "v5", "b')'", "=>", "Next(", "v5", "-", "1", "Next(", "v5", "v6", "|", "Escape(", "v5", "v6", "=>", "Next(", "v5", "v6", "=>", "return", "Err(", "INVALID", "Err(", "TOO_SHORT"] := by decide +kernel

/-- src/format/scan.rs:fn short_month0 -/
theorem src_format_scan_rs_fn_short_month0 : C15_src_format_scan_rs_fn_short_month0 =
    ["v1", "&", "str", "->", "ParseResult", "<", "&", "str", "u8", ">", "if", "v1", "len(", "<", "3", "return", "Err(", "TOO_SHORT", "v2", "v1", "as_bytes(", "v3", "match(", "v2", "0", "|", "32", "v2", "1", "|", "32", "v2", "2", "|", "32", "b'j'", "b'a'", "b'n'", "=>", "0", "b'f'", "b'e'", "b'b'", "=>", "1", "b'm'", "b'a'", "b'r'", "=>", "2", "b'a'", "b'p'", "b'r'", "=>", "3", "b'm'", "b'a'", "b'y'", "=>", "4", "b'j'", "b'u'", "b'n'", "=>", "5", "b'j'", "b'u'", "b'l'", "=>", "6", "b'a'", "b'u'", "b'g'", "=>", "7", "b's'", "b'e'", "b'p'", "=>", "8", "b'o'", "b'c'", "b't'", "=>", "9", "b'n'", "b'o'", "b'v'", "=>", "10", "b'd'", "b'e'", "b'c'", "=>", "11", "v4", "=>", "return", "Err(", "INVALID", "Ok(", "&", "v1", "3", "..", "v3"] := by decide +kernel

/-- src/format/scan.rs:fn short_weekday -/
theorem src_format_scan_rs_fn_short_weekday : C15_src_format_scan_rs_fn_short_weekday =
    ["v1", "&", "str", "->", "ParseResult", "<", "&", "str", "Weekday", ">", "if", "v1", "len(", "<", "3", "return", "Err(", "TOO_SHORT", "v2", "v1", "as_bytes(", "v3", "match(", "v2", "0", "|", "32", "v2", "1", "|", "32", "v2", "2", "|", "32", "b'm'", "b'o'", "b'n'", "=>", "Weekday", "Mon", "b't'", "b'u'", "b'e'", "=>", "Weekday", "Tue", "b'w'", "b'e'", "b'd'", "=>", "Weekday", "Wed", "b't'", "b'h'", "b'u'", "=>", "Weekday", "Thu", "b'f'", "b'r'", "b'i'", "=>", "Weekday", "Fri", "b's'", "b'a'", "b't'", "=>", "Weekday", "Sat", "b's'", "b'u'", "b'n'", "=>", "Weekday", "Sun", "v4", "=>", "return", "Err(", "INVALID", "Ok(", "&", "v1", "3", "..", "v3"] := by decide +kernel

/-- src/format/scan.rs:fn timezone_offset -/
theorem src_format_scan_rs_fn_timezone_offset : C15_src_format_scan_rs_fn_timezone_offset =
    ["<", "F", ">", "v1", "&", "str", "v2", "F", "v3", "bool", "v4", "bool", "v5", "bool", "->", "ParseResult", "<", "&", "str", "i32", ">", "F", "FnMut(", "&", "str", "->", "ParseResult", "<", "&", "str", ">", "if", "v3", "if", "Some(", "&", "b'Z'", "|", "&", "b'z'", "v1", "as_bytes(", "first(", "return", "Ok(", "&", "v1", "1", "..", "0", "digits(", "v1", "&", "str", "->", "ParseResult", "<", "u8", "u8", ">", "v6", "v1", "as_bytes(", "if", "v6", "len(", "<", "2", "Err(", "TOO_SHORT", "else", "Ok(", "v6", "0", "v6", "1", "v7", "match", "v1", "chars(", "next(", "Some(", "'+'", "=>", "v1", "&", "v1", "'+'", "len_utf8(", "..", "false", "Some(", "'-'", "=>", "v1", "&", "v1", "'-'", "len_utf8(", "..", "true", "Some(", "'−'", "=>", "if", "!", "v5", "return", "Err(", "INVALID", "v1", "&", "v1", "'−'", "len_utf8(", "..", "true", "Some(", "v8", "=>", "return", "Err(", "INVALID", "None", "=>", "return", "Err(", "TOO_SHORT", "v9", "match", "digits(", "v1", "?", "v10", "b'0'", "..=", "b'9'", "v11", "b'0'", "..=", "b'9'", "=>", "i32", "from(", "v10", "-", "b'0'", "*", "10", "+", "v11", "-", "b'0'", "v8", "=>", "return", "Err(", "INVALID", "v1", "&", "v1", "2", "..", "v1", "consume_colon(", "v1", "?", "v12", "if", "Ok(", "v13", "digits(", "v1", "match", "v13", "v14", "b'0'", "..=", "b'5'", "v15", "b'0'", "..=", "b'9'", "=>", "i32", "from(", "v14", "-", "b'0'", "*", "10", "+", "v15", "-", "b'0'", "b'6'", "..=", "b'9'", "b'0'", "..=", "b'9'", "=>", "return", "Err(", "OUT_OF_RANGE", "v8", "=>", "return", "Err(", "INVALID", "else", "if", "v4", "0", "else", "return", "Err(", "TOO_SHORT", "v1", "match", "v1", "len(", "v16", "if", "v16", ">=", "2", "=>", "&", "v1", "2", "..", "0", "=>", "v1", "v8", "=>", "return", "Err(", "TOO_SHORT", "v17", "v9", "*", "3600", "+", "v12", "*", "60", "Ok(", "v1", "if", "v7", "-", "v17", "else", "v17"] := by decide +kernel

/-- src/format/strftime.rs:fn error -/
theorem src_format_strftime_rs_fn_error : C15_src_format_strftime_rs_fn_error =
    ["<", ">", "&", "self", "v1", "&", "str", "v2", "&", "usize", "v3", "Option", "<", "char", ">", "->", "&", "str", "Item", "<", ">", "if", "!", "self", "v4", "return(", "&", "v1", "v1", "len(", "..", "Item", "Error", "if", "Some(", "v5", "v3", "*", "v2", "-=", "v5", "len_utf8(", "&", "v1", "*", "v2", "..", "Item", "Literal(", "&", "v1", "..", "*", "v2"] := by decide +kernel

/-- src/format/strftime.rs:fn next -/
theorem src_format_strftime_rs_fn_next : C15_src_format_strftime_rs_fn_next =
    ["&", "self", "->", "Option", "<", "Item", "<", ">>", "if", "Some(", "v1", "v2", "self", "v3", "split_first(", "self", "v3", "v2", "return", "Some(", "v1", "clone(", "if", "!", "self", "v4", "is_empty(", "let(", "v2", "v1", "self", "parse_next_item(", "self", "v4", "?", "self", "v4", "v2", "return", "Some(", "v1", "let(", "v2", "v1", "self", "parse_next_item(", "self", "v2", "?", "self", "v2", "v2", "Some(", "v1"] := by decide +kernel

/-- src/format/strftime.rs:fn parse_next_item -/
theorem src_format_strftime_rs_fn_parse_next_item : C15_src_format_strftime_rs_fn_parse_next_item =
    ["&", "self", "v1", "&", "str", "->", "Option", "<", "&", "str", "Item", "<", ">", ">", "InternalInternal", "*", "Item", "Literal", "Space", "Numeric", "*", "D_FMT", "&", "Item", "<", ">", "&", "num0(", "Month", "Literal(", "\"/\"", "num0(", "Day", "Literal(", "\"/\"", "num0(", "YearMod100", "D_T_FMT", "&", "Item", "<", ">", "&", "fixed(", "Fixed", "ShortWeekdayName", "Space(", "\" \"", "fixed(", "Fixed", "ShortMonthName", "Space(", "\" \"", "nums(", "Day", "Space(", "\" \"", "num0(", "Hour", "Literal(", "\":\"", "num0(", "Minute", "Literal(", "\":\"", "num0(", "Second", "Space(", "\" \"", "num0(", "Year", "T_FMT", "&", "Item", "<", ">", "&", "num0(", "Hour", "Literal(", "\":\"", "num0(", "Minute", "Literal(", "\":\"", "num0(", "Second", "T_FMT_AMPM", "&", "Item", "<", ">", "&", "num0(", "Hour12", "Literal(", "\":\"", "num0(", "Minute", "Literal(", "\":\"", "num0(", "Second", "Space(", "\" \"", "fixed(", "Fixed", "UpperAmPm", "match", "v1", "chars(", "next(", "None", "=>", "None", "Some(", "'%'", "=>", "v2", "v1", "v1", "&", "v1", "1", "..", "v3", "0", "if", "self", "v4", "v3", "+=", "1", "v5", "!", "v6", "=>", "match", "v1", "chars(", "next(", "Some(", "v7", "=>", "v1", "&", "v1", "v7", "len_utf8(", "..", "if", "self", "v4", "v3", "+=", "v7", "len_utf8(", "v7", "None", "=>", "return", "Some(", "self", "error(", "v2", "&", "v3", "None", "v8", "next!(", "v9", "match", "v8", "'-'", "=>", "Some(", "Pad", "None", "'0'", "=>", "Some(", "Pad", "Zero", "'_'", "=>", "Some(", "Pad", "Space", "v10", "=>", "None", "v11", "v8", "==", "'#'", "v8", "if", "v9", "is_some(", "||", "v11", "next!(", "else", "v8", "if", "v11", "&&", "!", "HAVE_ALTERNATES", "contains(", "v8", "return", "Some(", "self", "error(", "v2", "&", "v3", "Some(", "v8", "v5", "!", "v12", "v13", "v14", "v15", "v14", "+", "*", "=>", "QUEUE", "&", "Item", "<", ">", "&", "v15", "+", "self", "v12", "QUEUE", "v13", "v5", "!", "v16", "v17", "v14", "=>", "self", "v12", "&", "v17", "1", "..", "v17", "0", "clone(", "v18", "match", "v8", "'A'", "=>", "fixed(", "Fixed", "LongWeekdayName", "'B'", "=>", "fixed(", "Fixed", "LongMonthName", "'C'", "=>", "num0(", "YearDiv100", "'D'", "=>", "v12", "!", "num0(", "Month", "Literal(", "\"/\"", "num0(", "Day", "Literal(", "\"/\"", "num0(", "YearMod100", "'F'", "=>", "v12", "!", "num0(", "Year", "Literal(", "\"-\"", "num0(", "Month", "Literal(", "\"-\"", "num0(", "Day", "'G'", "=>", "num0(", "IsoYear", "'H'", "=>", "num0(", "Hour", "'I'", "=>", "num0(", "Hour12", "'M'", "=>", "num0(", "Minute", "'P'", "=>", "fixed(", "Fixed", "LowerAmPm", "'R'", "=>", "v12", "!", "num0(", "Hour", "Literal(", "\":\"", "num0(", "Minute", "'S'", "=>", "num0(", "Second", "'T'", "=>", "v12", "!", "num0(", "Hour", "Literal(", "\":\"", "num0(", "Minute", "Literal(", "\":\"", "num0(", "Second", "'U'", "=>", "num0(", "WeekFromSun", "'V'", "=>", "num0(", "IsoWeek", "'W'", "=>", "num0(", "WeekFromMon", "'X'", "=>", "queue_from_slice!(", "T_FMT", "'X'", "=>", "self", "switch_to_locale_str(", "v19", "v20", "T_FMT", "'Y'", "=>", "num0(", "Year", "'Z'", "=>", "fixed(", "Fixed", "TimezoneName", "'a'", "=>", "fixed(", "Fixed", "ShortWeekdayName", "'b'", "|", "'h'", "=>", "fixed(", "Fixed", "ShortMonthName", "'c'", "=>", "queue_from_slice!(", "D_T_FMT", "'c'", "=>", "self", "switch_to_locale_str(", "v19", "v21", "D_T_FMT", "'d'", "=>", "num0(", "Day", "'e'", "=>", "nums(", "Day", "'f'", "=>", "num0(", "Nanosecond", "'g'", "=>", "num0(", "IsoYearMod100", "'j'", "=>", "num0(", "Ordinal", "'k'", "=>", "nums(", "Hour", "'l'", "=>", "nums(", "Hour12", "'m'", "=>", "num0(", "Month", "'n'", "=>", "Space(", "\"\\n\"", "'p'", "=>", "fixed(", "Fixed", "UpperAmPm", "'q'", "=>", "num(", "Quarter", "'r'", "=>", "queue_from_slice!(", "T_FMT_AMPM", "'r'", "=>", "if", "self", "v22", "is_some(", "&&", "v19", "t_fmt_ampm(", "self", "v22", "unwrap(", "is_empty(", "self", "switch_to_locale_str(", "v19", "v20", "T_FMT", "else", "self", "switch_to_locale_str(", "v19", "v23", "T_FMT_AMPM", "'s'", "=>", "num(", "Timestamp", "'t'", "=>", "Space(", "\"\\t\"", "'u'", "=>", "num(", "WeekdayFromMon", "'v'", "=>", "v12", "!", "nums(", "Day", "Literal(", "\"-\"", "fixed(", "Fixed", "ShortMonthName", "Literal(", "\"-\"", "num0(", "Year", "'w'", "=>", "num(", "NumDaysFromSun", "'x'", "=>", "queue_from_slice!(", "D_FMT", "'x'", "=>", "self", "switch_to_locale_str(", "v19", "v24", "D_FMT", "'y'", "=>", "num0(", "YearMod100", "'z'", "=>", "if", "v11", "internal_fixed(", "TimezoneOffsetPermissive", "else", "fixed(", "Fixed", "TimezoneOffset", "'+'", "=>", "fixed(", "Fixed", "RFC3339", "':'", "=>", "if", "v1", "starts_with(", "\"::z\"", "v1", "&", "v1", "3", "..", "fixed(", "Fixed", "TimezoneOffsetTripleColon", "else", "if", "v1", "starts_with(", "\":z\"", "v1", "&", "v1", "2", "..", "fixed(", "Fixed", "TimezoneOffsetDoubleColon", "else", "if", "v1", "starts_with(", "'z'", "v1", "&", "v1", "1", "..", "fixed(", "Fixed", "TimezoneOffsetColon", "else", "self", "error(", "v2", "&", "v3", "None", "'.'", "=>", "match", "next!(", "'3'", "=>", "match", "next!(", "'f'", "=>", "fixed(", "Fixed", "Nanosecond3", "v25", "=>", "v26", "self", "error(", "v2", "&", "v3", "Some(", "v25", "v1", "v26", "v26", "'6'", "=>", "match", "next!(", "'f'", "=>", "fixed(", "Fixed", "Nanosecond6", "v25", "=>", "v26", "self", "error(", "v2", "&", "v3", "Some(", "v25", "v1", "v26", "v26", "'9'", "=>", "match", "next!(", "'f'", "=>", "fixed(", "Fixed", "Nanosecond9", "v25", "=>", "v26", "self", "error(", "v2", "&", "v3", "Some(", "v25", "v1", "v26", "v26", "'f'", "=>", "fixed(", "Fixed", "Nanosecond", "v25", "=>", "v26", "self", "error(", "v2", "&", "v3", "Some(", "v25", "v1", "v26", "v26", "'3'", "=>", "match", "next!(", "'f'", "=>", "internal_fixed(", "Nanosecond3NoDot", "v25", "=>", "v26", "self", "error(", "v2", "&", "v3", "Some(", "v25", "v1", "v26", "v26", "'6'", "=>", "match", "next!(", "'f'", "=>", "internal_fixed(", "Nanosecond6NoDot", "v25", "=>", "v26", "self", "error(", "v2", "&", "v3", "Some(", "v25", "v1", "v26", "v26", "'9'", "=>", "match", "next!(", "'f'", "=>", "internal_fixed(", "Nanosecond9NoDot", "v25", "=>", "v26", "self", "error(", "v2", "&", "v3", "Some(", "v25", "v1", "v26", "v26", "'%'", "=>", "Literal(", "\"%\"", "v25", "=>", "v26", "self", "error(", "v2", "&", "v3", "Some(", "v25", "v1", "v26", "v26", "if", "Some(", "v27", "v9", "match", "v18", "Item", "Numeric(", "v28", "v29", "if", "self", "v12", "is_empty(", "=>", "Some(", "v1", "Item", "Numeric(", "v28", "clone(", "v27", "v10", "=>", "Some(", "self", "error(", "v2", "&", "v3", "None", "else", "Some(", "v1", "v18", "Some(", "v25", "if", "v25", "is_whitespace(", "=>", "v30", "v1", "find(", "|", "v25", "char", "|", "!", "v25", "is_whitespace(", "unwrap_or(", "v1", "len(", "assert!(", "v30", ">", "0", "v18", "Space(", "&", "v1", "..", "v30", "v1", "&", "v1", "v30", "..", "Some(", "v1", "v18", "v10", "=>", "v30", "v1", "find(", "|", "v25", "char", "|", "v25", "is_whitespace(", "||", "v25", "==", "'%'", "unwrap_or(", "v1", "len(", "assert!(", "v30", ">", "0", "v18", "Literal(", "&", "v1", "..", "v30", "v1", "&", "v1", "v30", "..", "Some(", "v1", "v18"] := by decide +kernel

/-- src/naive/date/mod.rs:fn add_days -/
theorem src_naive_date_mod_rs_fn_add_days : C15_src_naive_date_mod_rs_fn_add_days =
    ["self", "v1", "i32", "->", "Option", "<", "Self", ">", "ORDINAL_MASK", "i32", "8176", "if", "Some(", "v2", "self", "yof(", "&", "ORDINAL_MASK", ">>", "4", "checked_add(", "v1", "if", "v2", ">", "0", "&&", "v2", "<=", "365", "+", "self", "leap_year(", "as", "i32", "v3", "self", "yof(", "&", "!", "ORDINAL_MASK", "return", "Some(", "NaiveDate", "from_yof(", "v3", "|", "v2", "<<", "4", "v4", "self", "year(", "let(", "v5", "v6", "div_mod_floor(", "v4", "400", "v7", "yo_to_cycle(", "v6", "as", "u32", "self", "ordinal(", "v7", "try_opt!(", "v7", "as", "i32", "checked_add(", "v1", "let(", "v8", "v7", "div_mod_floor(", "v7", "146097", "v5", "+=", "v8", "let(", "v6", "v2", "cycle_to_yo(", "v7", "as", "u32", "v9", "YearFlags", "from_year_mod_400(", "v6", "as", "i32", "NaiveDate", "from_ordinal_and_flags(", "v5", "*", "400", "+", "v6", "as", "i32", "v2", "v9"] := by decide +kernel

/-- src/naive/date/mod.rs:fn diff_months -/
theorem src_naive_date_mod_rs_fn_diff_months : C15_src_naive_date_mod_rs_fn_diff_months =
    ["self", "v1", "i32", "->", "Option", "<", "Self", ">", "v1", "try_opt!(", "self", "year(", "*", "12", "+", "self", "month(", "as", "i32", "-", "1", "checked_add(", "v1", "v2", "v1", "div_euclid(", "12", "v3", "v1", "rem_euclid(", "12", "as", "u32", "+", "1", "v4", "YearFlags", "from_year(", "v2", "v5", "if", "v4", "ndays(", "==", "366", "29", "else", "28", "v6", "31", "v5", "31", "30", "31", "30", "31", "31", "30", "31", "30", "31", "v7", "v6", "v3", "-", "1", "as", "usize", "v8", "self", "day(", "if", "v8", ">", "v7", "v8", "v7", "NaiveDate", "from_ymd_opt(", "v2", "v3", "v8"] := by decide +kernel

/-- src/naive/date/mod.rs:fn from_isoywd_opt -/
theorem src_naive_date_mod_rs_fn_from_isoywd_opt : C15_src_naive_date_mod_rs_fn_from_isoywd_opt =
    ["v1", "i32", "v2", "u32", "v3", "Weekday", "->", "Option", "<", "NaiveDate", ">", "v4", "YearFlags", "from_year(", "v1", "v5", "v4", "nisoweeks(", "if", "v2", "==", "0", "||", "v2", ">", "v5", "return", "None", "v6", "v2", "*", "7", "+", "v3", "as", "u32", "v7", "v4", "isoweek_delta(", "let(", "v1", "v8", "v4", "if", "v6", "<=", "v7", "v9", "try_opt!(", "v1", "checked_sub(", "1", "v10", "YearFlags", "from_year(", "v9", "v9", "v6", "+", "v10", "ndays(", "-", "v7", "v10", "else", "v8", "v6", "-", "v7", "v11", "v4", "ndays(", "if", "v8", "<=", "v11", "v1", "v8", "v4", "else", "v12", "try_opt!(", "v1", "checked_add(", "1", "v13", "YearFlags", "from_year(", "v12", "v12", "v8", "-", "v11", "v13", "NaiveDate", "from_ordinal_and_flags(", "v1", "v8", "v4"] := by decide +kernel

/-- src/naive/date/mod.rs:fn from_num_days_from_ce_opt -/
theorem src_naive_date_mod_rs_fn_from_num_days_from_ce_opt : C15_src_naive_date_mod_rs_fn_from_num_days_from_ce_opt =
    ["v1", "i32", "->", "Option", "<", "NaiveDate", ">", "v1", "try_opt!(", "v1", "checked_add(", "365", "v2", "v1", "div_euclid(", "146097", "v3", "v1", "rem_euclid(", "146097", "let(", "v4", "v5", "cycle_to_yo(", "v3", "as", "u32", "v6", "YearFlags", "from_year_mod_400(", "v4", "as", "i32", "NaiveDate", "from_ordinal_and_flags(", "v2", "*", "400", "+", "v4", "as", "i32", "v5", "v6"] := by decide +kernel

/-- src/naive/date/mod.rs:fn from_yof -/
theorem src_naive_date_mod_rs_fn_from_yof : C15_src_naive_date_mod_rs_fn_from_yof =
    ["v1", "i32", "->", "NaiveDate", "debug_assert!(", "v1", "&", "OL_MASK", ">>", "3", ">", "1", "debug_assert!(", "v1", "&", "OL_MASK", ">>", "3", "<=", "MAX_OL", "debug_assert!(", "v1", "&", "7", "!=", "0", "NaiveDate", "v1", "NonZeroI32", "new_unchecked(", "v1"] := by decide +kernel

/-- src/round.rs:impl DurationRound for DateTime -/
theorem src_round_rs_impl_DurationRound_for_DateTime : C15_src_round_rs_impl_DurationRound_for_DateTime =
    ["<", "Tz", "TimeZone", ">", "DurationRound", "for", "DateTime", "<", "Tz", ">", "Err", "RoundingError", "duration_round(", "self", "v1", "TimeDelta", "->", "Result", "<", "Self", "Self", "Err", ">", "duration_round(", "self", "overflowing_naive_local(", "self", "v1", "duration_trunc(", "self", "v1", "TimeDelta", "->", "Result", "<", "Self", "Self", "Err", ">", "duration_trunc(", "self", "overflowing_naive_local(", "self", "v1", "duration_round_up(", "self", "v1", "TimeDelta", "->", "Result", "<", "Self", "Self", "Err", ">", "duration_round_up(", "self", "overflowing_naive_local(", "self", "v1"] := by decide +kernel

/-- src/time_delta.rs:fn checked_mul -/
theorem src_time_delta_rs_fn_checked_mul : C15_src_time_delta_rs_fn_checked_mul =
    ["&", "self", "v1", "i32", "->", "Option", "<", "TimeDelta", ">", "v2", "self", "v3", "as", "i64", "*", "v1", "as", "i64", "let(", "v4", "v3", "div_mod_floor_64(", "v2", "NANOS_PER_SEC", "as", "i64", "v5", "i128", "self", "v5", "as", "i128", "*", "v1", "as", "i128", "+", "v4", "as", "i128", "if", "v5", "<=", "i64", "MIN", "as", "i128", "||", "v5", ">=", "i64", "MAX", "as", "i128", "return", "None", "TimeDelta", "new(", "v5", "as", "i64", "v3", "as", "u32"] := by decide +kernel

/-- callee src/datetime/mod.rs:fn from_naive_utc_and_offset -/
theorem callee_src_datetime_mod_rs_fn_from_naive_utc_and_offset : C15_callee_src_datetime_mod_rs_fn_from_naive_utc_and_offset =
    ["v1", "NaiveDateTime", "v2", "Tz", "Offset", "->", "DateTime", "<", "Tz", ">", "DateTime", "v1", "v2"] := by decide +kernel

/-- callee src/format/formatting.rs:fn write_hundreds -/
theorem callee_src_format_formatting_rs_fn_write_hundreds : C15_callee_src_format_formatting_rs_fn_write_hundreds =
    ["v1", "&", "Write", "v2", "u8", "->", "v3", "Result", "if", "v2", ">=", "100", "return", "Err(", "v3", "Error", "v4", "b'0'", "+", "v2", "/", "10", "v5", "b'0'", "+", "v2", "%", "10", "v1", "write_char(", "v4", "as", "char", "?", "v1", "write_char(", "v5", "as", "char"] := by decide +kernel

/-- callee src/format/formatting.rs:fn write_rfc3339 -/
theorem callee_src_format_formatting_rs_fn_write_rfc3339 : C15_callee_src_format_formatting_rs_fn_write_rfc3339 =
    ["v1", "&", "Write", "v2", "NaiveDateTime", "v3", "FixedOffset", "v4", "SecondsFormat", "v5", "bool", "->", "v6", "Result", "v7", "v2", "date(", "year(", "if(", "0", "..=", "9999", "contains(", "&", "v7", "write_hundreds(", "v1", "v7", "/", "100", "as", "u8", "?", "write_hundreds(", "v1", "v7", "%", "100", "as", "u8", "?", "else", "write!(", "v1", "\"{:+05}\"", "v7", "?", "v1", "write_char(", "'-'", "?", "write_hundreds(", "v1", "v2", "date(", "month(", "as", "u8", "?", "v1", "write_char(", "'-'", "?", "write_hundreds(", "v1", "v2", "date(", "day(", "as", "u8", "?", "v1", "write_char(", "'T'", "?", "let(", "v8", "v9", "v10", "v2", "time(", "hms(", "v11", "v2", "nanosecond(", "if", "v11", ">=", "1000000000", "v10", "+=", "1", "v11", "-=", "1000000000", "write_hundreds(", "v1", "v8", "as", "u8", "?", "v1", "write_char(", "':'", "?", "write_hundreds(", "v1", "v9", "as", "u8", "?", "v1", "write_char(", "':'", "?", "v10", "v10", "write_hundreds(", "v1", "v10", "as", "u8", "?", "match", "v4", "SecondsFormat", "Secs", "=>", "SecondsFormat", "Millis", "=>", "write!(", "v1", "\".{:03}\"", "v11", "/", "1000000", "?", "SecondsFormat", "Micros", "=>", "write!(", "v1", "\".{:06}\"", "v11", "/", "1000", "?", "SecondsFormat", "Nanos", "=>", "write!(", "v1", "\".{:09}\"", "v11", "?", "SecondsFormat", "AutoSi", "=>", "if", "v11", "==", "0", "else", "if", "v11", "%", "1000000", "==", "0", "write!(", "v1", "\".{:03}\"", "v11", "/", "1000000", "?", "else", "if", "v11", "%", "1000", "==", "0", "write!(", "v1", "\".{:06}\"", "v11", "/", "1000", "?", "else", "write!(", "v1", "\".{:09}\"", "v11", "?", "SecondsFormat", "__NonExhaustive", "=>", "unreachable!(", "OffsetFormat", "v12", "OffsetPrecision", "Minutes", "v13", "Colons", "Colon", "v14", "v5", "v15", "Pad", "Zero", "format(", "v1", "v3"] := by decide +kernel

/-- callee src/format/locales.rs:fn t_fmt_ampm -/
theorem callee_src_format_locales_rs_fn_t_fmt_ampm : C15_callee_src_format_locales_rs_fn_t_fmt_ampm =
    ["v1", "Locale", "->", "&", "str", "locale_match!(", "v1", "=>", "LC_TIME", "T_FMT_AMPM"] := by decide +kernel

/-- callee src/format/mod.rs:fn internal_fixed -/
theorem callee_src_format_mod_rs_fn_internal_fixed : C15_callee_src_format_mod_rs_fn_internal_fixed =
    ["v1", "InternalInternal", "->", "Item", "<", ">", "Item", "Fixed(", "Fixed", "Internal(", "InternalFixed", "v1"] := by decide +kernel

/-- callee src/format/mod.rs:fn num -/
theorem callee_src_format_mod_rs_fn_num : C15_callee_src_format_mod_rs_fn_num =
    ["v1", "Numeric", "->", "Item", "<", ">", "Item", "Numeric(", "v1", "Pad", "None"] := by decide +kernel

/-- callee src/format/mod.rs:fn num0 -/
theorem callee_src_format_mod_rs_fn_num0 : C15_callee_src_format_mod_rs_fn_num0 =
    ["v1", "Numeric", "->", "Item", "<", ">", "Item", "Numeric(", "v1", "Pad", "Zero"] := by decide +kernel

/-- callee src/format/mod.rs:fn nums -/
theorem callee_src_format_mod_rs_fn_nums : C15_callee_src_format_mod_rs_fn_nums =
    ["v1", "Numeric", "->", "Item", "<", ">", "Item", "Numeric(", "v1", "Pad", "Space"] := by decide +kernel

/-- callee src/format/parse.rs:fn parse_rfc2822 -/
theorem callee_src_format_parse_rs_fn_parse_rfc2822 : C15_callee_src_format_parse_rs_fn_parse_rfc2822 =
    ["<", ">", "v1", "&", "Parsed", "v2", "&", "str", "->", "ParseResult", "<", "&", "str", ">", "v3", "!", "v4", "v5", "v6", "=>", "let(", "v7", "v8", "v5", "?", "v2", "v7", "v8", "v2", "v2", "trim_start(", "if", "Ok(", "v7", "v9", "v10", "short_weekday(", "v2", "if", "!", "v7", "starts_with(", "','", "return", "Err(", "INVALID", "v2", "&", "v7", "1", "..", "v1", "set_weekday(", "v9", "?", "v2", "v2", "trim_start(", "v1", "set_day(", "try_consume!(", "v10", "number(", "v2", "1", "2", "?", "v2", "v10", "space(", "v2", "?", "v1", "set_month(", "1", "+", "i64", "from(", "try_consume!(", "v10", "short_month0(", "v2", "?", "v2", "v10", "space(", "v2", "?", "v11", "v2", "len(", "v12", "try_consume!(", "v10", "number(", "v2", "2", "usize", "MAX", "v13", "v11", "-", "v2", "len(", "match(", "v13", "v12", "2", "0", "..=", "49", "=>", "v12", "+=", "2000", "2", "50", "..=", "99", "=>", "v12", "+=", "1900", "3", "v14", "=>", "v12", "+=", "1900", "v14", "v14", "=>", "v1", "set_year(", "v12", "?", "v2", "v10", "space(", "v2", "?", "v1", "set_hour(", "try_consume!(", "v10", "number(", "v2", "2", "2", "?", "v2", "v10", "char(", "v2", "trim_start(", "b':'", "?", "trim_start(", "v1", "set_minute(", "try_consume!(", "v10", "number(", "v2", "2", "2", "?", "if", "Ok(", "v7", "v10", "char(", "v2", "trim_start(", "b':'", "v1", "set_second(", "try_consume!(", "v10", "number(", "v7", "2", "2", "?", "v2", "v10", "space(", "v2", "?", "v1", "set_offset(", "i64", "from(", "try_consume!(", "v10", "timezone_offset_2822(", "v2", "?", "while", "Ok(", "v15", "v10", "comment_2822(", "v2", "v2", "v15", "Ok(", "v2"] := by decide +kernel

/-- callee src/format/parse.rs:fn parse_rfc3339_relaxed -/
theorem callee_src_format_parse_rs_fn_parse_rfc3339_relaxed : C15_callee_src_format_parse_rs_fn_parse_rfc3339_relaxed =
    ["<", ">", "v1", "&", "Parsed", "v2", "&", "str", "->", "ParseResult", "<", "&", "str", ">", "DATE_ITEMS", "&", "Item", "<", ">", "&", "Item", "Numeric(", "Numeric", "Year", "Pad", "Zero", "Item", "Space(", "\"\"", "Item", "Literal(", "\"-\"", "Item", "Numeric(", "Numeric", "Month", "Pad", "Zero", "Item", "Space(", "\"\"", "Item", "Literal(", "\"-\"", "Item", "Numeric(", "Numeric", "Day", "Pad", "Zero", "TIME_ITEMS", "&", "Item", "<", ">", "&", "Item", "Numeric(", "Numeric", "Hour", "Pad", "Zero", "Item", "Space(", "\"\"", "Item", "Literal(", "\":\"", "Item", "Numeric(", "Numeric", "Minute", "Pad", "Zero", "Item", "Space(", "\"\"", "Item", "Literal(", "\":\"", "Item", "Numeric(", "Numeric", "Second", "Pad", "Zero", "Item", "Fixed(", "Fixed", "Nanosecond", "Item", "Space(", "\"\"", "v2", "parse_internal(", "v1", "v2", "DATE_ITEMS", "iter(", "?", "v2", "match", "v2", "as_bytes(", "first(", "Some(", "&", "b't'", "|", "&", "b'T'", "|", "&", "b' '", "=>", "&", "v2", "1", "..", "Some(", "v3", "=>", "return", "Err(", "INVALID", "None", "=>", "return", "Err(", "TOO_SHORT", "v2", "parse_internal(", "v1", "v2", "TIME_ITEMS", "iter(", "?", "v2", "v2", "trim_start(", "let(", "v2", "v4", "if", "v2", "len(", ">=", "3", "&&", "\"UTC\"", "as_bytes(", "eq_ignore_ascii_case(", "&", "v2", "as_bytes(", "..", "&", "v2", "3", "..", "0", "else", "v5", "timezone_offset(", "v2", "v5", "v6", "true", "false", "true", "?", "v1", "set_offset(", "i64", "from(", "v4", "?", "Ok(", "v2"] := by decide +kernel

/-- callee src/format/parsed.rs:fn resolve_week_date -/
theorem callee_src_format_parsed_rs_fn_resolve_week_date : C15_callee_src_format_parsed_rs_fn_resolve_week_date =
    ["v1", "i32", "v2", "u32", "v3", "Weekday", "v4", "Weekday", "->", "ParseResult", "<", "NaiveDate", ">", "if", "v2", ">", "53", "return", "Err(", "OUT_OF_RANGE", "v5", "NaiveDate", "from_yo_opt(", "v1", "1", "ok_or(", "OUT_OF_RANGE", "?", "v6", "1", "+", "v4", "days_since(", "v5", "weekday(", "as", "i32", "v3", "v3", "days_since(", "v4", "as", "i32", "v7", "v6", "+", "v2", "as", "i32", "-", "1", "*", "7", "+", "v3", "if", "v7", "<=", "0", "return", "Err(", "IMPOSSIBLE", "v5", "with_ordinal(", "v7", "as", "u32", "ok_or(", "IMPOSSIBLE"] := by decide +kernel

/-- callee src/format/parsed.rs:fn resolve_year -/
theorem callee_src_format_parsed_rs_fn_resolve_year : C15_callee_src_format_parsed_rs_fn_resolve_year =
    ["v1", "Option", "<", "i32", ">", "v2", "Option", "<", "i32", ">", "v3", "Option", "<", "i32", ">", "->", "ParseResult", "<", "Option", "<", "i32", ">>", "match(", "v1", "v2", "v3", "v1", "None", "None", "=>", "Ok(", "v1", "Some(", "v1", "v2", "v3", "Some(", "0", "..=", "99", "|", "Some(", "v1", "v2", "v3", "None", "=>", "if", "v1", "<", "0", "return", "Err(", "IMPOSSIBLE", "v4", "v1", "/", "100", "v5", "v1", "%", "100", "if", "v2", "unwrap_or(", "v4", "==", "v4", "&&", "v3", "unwrap_or(", "v5", "==", "v5", "Ok(", "Some(", "v1", "else", "Err(", "IMPOSSIBLE", "None", "Some(", "v2", "Some(", "v3", "0", "..=", "99", "=>", "if", "v2", "<", "0", "return", "Err(", "IMPOSSIBLE", "v1", "v2", "checked_mul(", "100", "and_then(", "|", "v6", "|", "v6", "checked_add(", "v3", "Ok(", "Some(", "v1", "ok_or(", "OUT_OF_RANGE", "?", "None", "None", "Some(", "v3", "0", "..=", "99", "=>", "Ok(", "Some(", "v3", "+", "if", "v3", "<", "70", "2000", "else", "1900", "None", "Some(", "v7", "None", "=>", "Err(", "NOT_ENOUGH", "v7", "v7", "Some(", "v7", "=>", "Err(", "OUT_OF_RANGE"] := by decide +kernel

/-- callee src/format/parsed.rs:fn set_ampm -/
theorem callee_src_format_parsed_rs_fn_set_ampm : C15_callee_src_format_parsed_rs_fn_set_ampm =
    ["&", "self", "v1", "bool", "->", "ParseResult", "<", ">", "set_if_consistent(", "&", "self", "v2", "v1", "as", "u32"] := by decide +kernel

/-- callee src/format/parsed.rs:fn set_day -/
theorem callee_src_format_parsed_rs_fn_set_day : C15_callee_src_format_parsed_rs_fn_set_day =
    ["&", "self", "v1", "i64", "->", "ParseResult", "<", ">", "if!(", "1", "..=", "31", "contains(", "&", "v1", "return", "Err(", "OUT_OF_RANGE", "set_if_consistent(", "&", "self", "v2", "v1", "as", "u32"] := by decide +kernel

/-- callee src/format/parsed.rs:fn set_hour -/
theorem callee_src_format_parsed_rs_fn_set_hour : C15_callee_src_format_parsed_rs_fn_set_hour =
    ["&", "self", "v1", "i64", "->", "ParseResult", "<", ">", "let(", "v2", "v3", "match", "v1", "v4", "0", "..=", "11", "=>", "0", "v4", "as", "u32", "v4", "12", "..=", "23", "=>", "1", "v4", "as", "u32", "-", "12", "v5", "=>", "return", "Err(", "OUT_OF_RANGE", "set_if_consistent(", "&", "self", "v2", "v2", "?", "set_if_consistent(", "&", "self", "v3", "v3"] := by decide +kernel

/-- callee src/format/parsed.rs:fn set_if_consistent -/
theorem callee_src_format_parsed_rs_fn_set_if_consistent : C15_callee_src_format_parsed_rs_fn_set_if_consistent =
    ["<", "T", "PartialEq", ">", "v1", "&", "Option", "<", "T", ">", "v2", "T", "->", "ParseResult", "<", ">", "match", "v1", "Some(", "v1", "if", "*", "v1", "!=", "v2", "=>", "Err(", "IMPOSSIBLE", "v3", "=>", "*", "v1", "Some(", "v2", "Ok("] := by decide +kernel

/-- callee src/format/parsed.rs:fn set_minute -/
theorem callee_src_format_parsed_rs_fn_set_minute : C15_callee_src_format_parsed_rs_fn_set_minute =
    ["&", "self", "v1", "i64", "->", "ParseResult", "<", ">", "if!(", "0", "..=", "59", "contains(", "&", "v1", "return", "Err(", "OUT_OF_RANGE", "set_if_consistent(", "&", "self", "v2", "v1", "as", "u32"] := by decide +kernel

/-- callee src/format/parsed.rs:fn set_month -/
theorem callee_src_format_parsed_rs_fn_set_month : C15_callee_src_format_parsed_rs_fn_set_month =
    ["&", "self", "v1", "i64", "->", "ParseResult", "<", ">", "if!(", "1", "..=", "12", "contains(", "&", "v1", "return", "Err(", "OUT_OF_RANGE", "set_if_consistent(", "&", "self", "v2", "v1", "as", "u32"] := by decide +kernel

/-- callee src/format/parsed.rs:fn set_nanosecond -/
theorem callee_src_format_parsed_rs_fn_set_nanosecond : C15_callee_src_format_parsed_rs_fn_set_nanosecond =
    ["&", "self", "v1", "i64", "->", "ParseResult", "<", ">", "if!(", "0", "..=", "999999999", "contains(", "&", "v1", "return", "Err(", "OUT_OF_RANGE", "set_if_consistent(", "&", "self", "v2", "v1", "as", "u32"] := by decide +kernel

/-- callee src/format/parsed.rs:fn set_offset -/
theorem callee_src_format_parsed_rs_fn_set_offset : C15_callee_src_format_parsed_rs_fn_set_offset =
    ["&", "self", "v1", "i64", "->", "ParseResult", "<", ">", "set_if_consistent(", "&", "self", "v2", "i32", "try_from(", "v1", "map_err(", "|", "v3", "|", "OUT_OF_RANGE", "?"] := by decide +kernel

/-- callee src/format/parsed.rs:fn set_ordinal -/
theorem callee_src_format_parsed_rs_fn_set_ordinal : C15_callee_src_format_parsed_rs_fn_set_ordinal =
    ["&", "self", "v1", "i64", "->", "ParseResult", "<", ">", "if!(", "1", "..=", "366", "contains(", "&", "v1", "return", "Err(", "OUT_OF_RANGE", "set_if_consistent(", "&", "self", "v2", "v1", "as", "u32"] := by decide +kernel

/-- callee src/format/parsed.rs:fn set_second -/
theorem callee_src_format_parsed_rs_fn_set_second : C15_callee_src_format_parsed_rs_fn_set_second =
    ["&", "self", "v1", "i64", "->", "ParseResult", "<", ">", "if!(", "0", "..=", "60", "contains(", "&", "v1", "return", "Err(", "OUT_OF_RANGE", "set_if_consistent(", "&", "self", "v2", "v1", "as", "u32"] := by decide +kernel

/-- callee src/format/parsed.rs:fn set_weekday -/
theorem callee_src_format_parsed_rs_fn_set_weekday : C15_callee_src_format_parsed_rs_fn_set_weekday =
    ["&", "self", "v1", "Weekday", "->", "ParseResult", "<", ">", "set_if_consistent(", "&", "self", "v2", "v1"] := by decide +kernel

/-- callee src/format/parsed.rs:fn set_year -/
theorem callee_src_format_parsed_rs_fn_set_year : C15_callee_src_format_parsed_rs_fn_set_year =
    ["&", "self", "v1", "i64", "->", "ParseResult", "<", ">", "set_if_consistent(", "&", "self", "v2", "i32", "try_from(", "v1", "map_err(", "|", "v3", "|", "OUT_OF_RANGE", "?"] := by decide +kernel

/-- callee src/format/parsed.rs:fn to_naive_date -/
theorem callee_src_format_parsed_rs_fn_to_naive_date : C15_callee_src_format_parsed_rs_fn_to_naive_date =
    ["&", "self", "->", "ParseResult", "<", "NaiveDate", ">", "resolve_year(", "v1", "Option", "<", "i32", ">", "v2", "Option", "<", "i32", ">", "v3", "Option", "<", "i32", ">", "->", "ParseResult", "<", "Option", "<", "i32", ">>", "match(", "v1", "v2", "v3", "v1", "None", "None", "=>", "Ok(", "v1", "Some(", "v1", "v2", "v3", "Some(", "0", "..=", "99", "|", "Some(", "v1", "v2", "v3", "None", "=>", "if", "v1", "<", "0", "return", "Err(", "IMPOSSIBLE", "v4", "v1", "/", "100", "v5", "v1", "%", "100", "if", "v2", "unwrap_or(", "v4", "==", "v4", "&&", "v3", "unwrap_or(", "v5", "==", "v5", "Ok(", "Some(", "v1", "else", "Err(", "IMPOSSIBLE", "None", "Some(", "v2", "Some(", "v3", "0", "..=", "99", "=>", "if", "v2", "<", "0", "return", "Err(", "IMPOSSIBLE", "v1", "v2", "checked_mul(", "100", "and_then(", "|", "v6", "|", "v6", "checked_add(", "v3", "Ok(", "Some(", "v1", "ok_or(", "OUT_OF_RANGE", "?", "None", "None", "Some(", "v3", "0", "..=", "99", "=>", "Ok(", "Some(", "v3", "+", "if", "v3", "<", "70", "2000", "else", "1900", "None", "Some(", "v7", "None", "=>", "Err(", "NOT_ENOUGH", "v7", "v7", "Some(", "v7", "=>", "Err(", "OUT_OF_RANGE", "v8", "resolve_year(", "self", "v9", "self", "v10", "self", "v11", "?", "v12", "resolve_year(", "self", "v13", "self", "v14", "self", "v15", "?", "v16", "|", "v17", "NaiveDate", "|", "v9", "v17", "year(", "let(", "v10", "v11", "if", "v9", ">=", "0", "Some(", "v9", "/", "100", "Some(", "v9", "%", "100", "else", "None", "None", "v18", "v17", "month(", "v19", "v17", "day(", "self", "v9", "unwrap_or(", "v9", "==", "v9", "&&", "self", "v10", "or(", "v10", "==", "v10", "&&", "self", "v11", "or(", "v11", "==", "v11", "&&", "self", "v18", "unwrap_or(", "v18", "==", "v18", "&&", "self", "v19", "unwrap_or(", "v19", "==", "v19", "v20", "|", "v17", "NaiveDate", "|", "v21", "v17", "iso_week(", "v13", "v21", "year(", "v22", "v21", "week(", "v23", "v17", "weekday(", "let(", "v14", "v15", "if", "v13", ">=", "0", "Some(", "v13", "/", "100", "Some(", "v13", "%", "100", "else", "None", "None", "self", "v13", "unwrap_or(", "v13", "==", "v13", "&&", "self", "v14", "or(", "v14", "==", "v14", "&&", "self", "v15", "or(", "v15", "==", "v15", "&&", "self", "v22", "unwrap_or(", "v22", "==", "v22", "&&", "self", "v23", "unwrap_or(", "v23", "==", "v23", "v24", "|", "v17", "NaiveDate", "|", "v25", "v17", "ordinal(", "v26", "v17", "weeks_from(", "Weekday", "Sun", "v27", "v17", "weeks_from(", "Weekday", "Mon", "self", "v25", "unwrap_or(", "v25", "==", "v25", "&&", "self", "v26", "map_or(", "v26", "|", "v6", "|", "v6", "as", "i32", "==", "v26", "&&", "self", "v27", "map_or(", "v27", "|", "v6", "|", "v6", "as", "i32", "==", "v27", "let(", "v28", "v29", "match(", "v8", "v12", "self", "Some(", "v9", "v7", "&", "Parsed", "v18", "Some(", "v18", "v19", "Some(", "v19", "..", "=>", "v17", "NaiveDate", "from_ymd_opt(", "v9", "v18", "v19", "ok_or(", "OUT_OF_RANGE", "?", "verify_isoweekdate(", "v17", "&&", "verify_ordinal(", "v17", "v17", "Some(", "v9", "v7", "&", "Parsed", "v25", "Some(", "v25", "..", "=>", "v17", "NaiveDate", "from_yo_opt(", "v9", "v25", "ok_or(", "OUT_OF_RANGE", "?", "verify_ymd(", "v17", "&&", "verify_isoweekdate(", "v17", "&&", "verify_ordinal(", "v17", "v17", "Some(", "v9", "v7", "&", "Parsed", "v26", "Some(", "v21", "v23", "Some(", "v23", "..", "=>", "v17", "resolve_week_date(", "v9", "v21", "v23", "Weekday", "Sun", "?", "verify_ymd(", "v17", "&&", "verify_isoweekdate(", "v17", "&&", "verify_ordinal(", "v17", "v17", "Some(", "v9", "v7", "&", "Parsed", "v27", "Some(", "v21", "v23", "Some(", "v23", "..", "=>", "v17", "resolve_week_date(", "v9", "v21", "v23", "Weekday", "Mon", "?", "verify_ymd(", "v17", "&&", "verify_isoweekdate(", "v17", "&&", "verify_ordinal(", "v17", "v17", "v7", "Some(", "v13", "&", "Parsed", "v22", "Some(", "v22", "v23", "Some(", "v23", "..", "=>", "v17", "NaiveDate", "from_isoywd_opt(", "v13", "v22", "v23", "v17", "v17", "ok_or(", "OUT_OF_RANGE", "?", "verify_ymd(", "v17", "&&", "verify_ordinal(", "v17", "v17", "v7", "v7", "v7", "=>", "return", "Err(", "NOT_ENOUGH", "if", "!", "v28", "return", "Err(", "IMPOSSIBLE", "else", "if", "Some(", "v30", "self", "v31", "if", "v30", "!=", "v29", "quarter(", "return", "Err(", "IMPOSSIBLE", "Ok(", "v29"] := by decide +kernel

/-- callee src/format/parsed.rs:fn to_naive_time -/
theorem callee_src_format_parsed_rs_fn_to_naive_time : C15_callee_src_format_parsed_rs_fn_to_naive_time =
    ["&", "self", "->", "ParseResult", "<", "NaiveTime", ">", "v1", "match", "self", "v1", "Some(", "v2", "0", "..=", "1", "=>", "v2", "Some(", "v3", "=>", "return", "Err(", "OUT_OF_RANGE", "None", "=>", "return", "Err(", "NOT_ENOUGH", "v4", "match", "self", "v4", "Some(", "v2", "0", "..=", "11", "=>", "v2", "Some(", "v3", "=>", "return", "Err(", "OUT_OF_RANGE", "None", "=>", "return", "Err(", "NOT_ENOUGH", "v5", "v1", "*", "12", "+", "v4", "v6", "match", "self", "v6", "Some(", "v2", "0", "..=", "59", "=>", "v2", "Some(", "v3", "=>", "return", "Err(", "OUT_OF_RANGE", "None", "=>", "return", "Err(", "NOT_ENOUGH", "let(", "v7", "v8", "match", "self", "v7", "unwrap_or(", "0", "v2", "0", "..=", "59", "=>", "v2", "0", "60", "=>", "59", "1000000000", "v3", "=>", "return", "Err(", "OUT_OF_RANGE", "v8", "+=", "match", "self", "v9", "Some(", "v2", "0", "..=", "999999999", "if", "self", "v7", "is_some(", "=>", "v2", "Some(", "0", "..=", "999999999", "=>", "return", "Err(", "NOT_ENOUGH", "Some(", "v3", "=>", "return", "Err(", "OUT_OF_RANGE", "None", "=>", "0", "NaiveTime", "from_hms_nano_opt(", "v5", "v6", "v7", "v8", "ok_or(", "OUT_OF_RANGE"] := by decide +kernel

/-- callee src/format/scan.rs:fn char -/
theorem callee_src_format_scan_rs_fn_char : C15_callee_src_format_scan_rs_fn_char =
    ["v1", "&", "str", "v2", "u8", "->", "ParseResult", "<", "&", "str", ">", "match", "v1", "as_bytes(", "first(", "Some(", "&", "v3", "if", "v3", "==", "v2", "=>", "Ok(", "&", "v1", "1", "..", "Some(", "v4", "=>", "Err(", "INVALID", "None", "=>", "Err(", "TOO_SHORT"] := by decide +kernel

/-- callee src/format/scan.rs:fn digits -/
theorem callee_src_format_scan_rs_fn_digits : C15_callee_src_format_scan_rs_fn_digits =
    ["v1", "&", "str", "->", "ParseResult", "<", "u8", "u8", ">", "v2", "v1", "as_bytes(", "if", "v2", "len(", "<", "2", "Err(", "TOO_SHORT", "else", "Ok(", "v2", "0", "v2", "1"] := by decide +kernel

/-- callee src/format/scan.rs:fn nanosecond_fixed -/
theorem callee_src_format_scan_rs_fn_nanosecond_fixed : C15_callee_src_format_scan_rs_fn_nanosecond_fixed =
    ["v1", "&", "str", "v2", "usize", "->", "ParseResult", "<", "&", "str", "i64", ">", "let(", "v1", "v3", "number(", "v1", "v2", "v2", "?", "SCALE", "i64", "10", "0", "100000000", "10000000", "1000000", "100000", "10000", "1000", "100", "10", "1", "v3", "v3", "checked_mul(", "SCALE", "v2", "ok_or(", "OUT_OF_RANGE", "?", "Ok(", "v1", "v3"] := by decide +kernel

/-- callee src/format/scan.rs:fn number -/
theorem callee_src_format_scan_rs_fn_number : C15_callee_src_format_scan_rs_fn_number =
    ["v1", "&", "str", "v2", "usize", "v3", "usize", "->", "ParseResult", "<", "&", "str", "i64", ">", "assert!(", "v2", "<=", "v3", "v4", "v1", "as_bytes(", "if", "v4", "len(", "<", "v2", "return", "Err(", "TOO_SHORT", "v5", "0", "for(", "v6", "v7", "in", "v4", "iter(", "take(", "v3", "cloned(", "enumerate(", "if", "!", "v7", "is_ascii_digit(", "if", "v6", "<", "v2", "return", "Err(", "INVALID", "else", "return", "Ok(", "&", "v1", "v6", "..", "v5", "v5", "match", "v5", "checked_mul(", "10", "and_then(", "|", "v5", "|", "v5", "checked_add(", "v7", "-", "b'0'", "as", "i64", "Some(", "v5", "=>", "v5", "None", "=>", "return", "Err(", "OUT_OF_RANGE", "Ok(", "&", "v1", "v8", "v9", "min(", "v3", "v4", "len(", "..", "v5"] := by decide +kernel

/-- callee src/format/scan.rs:fn short_or_long_month0 -/
theorem callee_src_format_scan_rs_fn_short_or_long_month0 : C15_callee_src_format_scan_rs_fn_short_or_long_month0 =
    ["v1", "&", "str", "->", "ParseResult", "<", "&", "str", "u8", ">", "LONG_MONTH_SUFFIXES", "&", "u8", "12", "b\"uary\"", "b\"ruary\"", "b\"ch\"", "b\"il\"", "b\"\"", "b\"e\"", "b\"y\"", "b\"ust\"", "b\"tember\"", "b\"ober\"", "b\"ember\"", "b\"ember\"", "let(", "v1", "v2", "short_month0(", "v1", "?", "v3", "LONG_MONTH_SUFFIXES", "v2", "as", "usize", "if", "v1", "len(", ">=", "v3", "len(", "&&", "v1", "as_bytes(", "..", "v3", "len(", "eq_ignore_ascii_case(", "v3", "v1", "&", "v1", "v3", "len(", "..", "Ok(", "v1", "v2"] := by decide +kernel

/-- callee src/format/scan.rs:fn short_or_long_weekday -/
theorem callee_src_format_scan_rs_fn_short_or_long_weekday : C15_callee_src_format_scan_rs_fn_short_or_long_weekday =
    ["v1", "&", "str", "->", "ParseResult", "<", "&", "str", "Weekday", ">", "LONG_WEEKDAY_SUFFIXES", "&", "u8", "7", "b\"day\"", "b\"sday\"", "b\"nesday\"", "b\"rsday\"", "b\"day\"", "b\"urday\"", "b\"day\"", "let(", "v1", "v2", "short_weekday(", "v1", "?", "v3", "LONG_WEEKDAY_SUFFIXES", "v2", "num_days_from_monday(", "as", "usize", "if", "v1", "len(", ">=", "v3", "len(", "&&", "v1", "as_bytes(", "..", "v3", "len(", "eq_ignore_ascii_case(", "v3", "v1", "&", "v1", "v3", "len(", "..", "Ok(", "v1", "v2"] := by decide +kernel

/-- callee src/format/scan.rs:fn space -/
theorem callee_src_format_scan_rs_fn_space : C15_callee_src_format_scan_rs_fn_space =
    ["v1", "&", "str", "->", "ParseResult", "<", "&", "str", ">", "v2", "v1", "trim_start(", "if", "v2", "len(", "<", "v1", "len(", "Ok(", "v2", "else", "if", "v1", "is_empty(", "Err(", "TOO_SHORT", "else", "Err(", "INVALID"] := by decide +kernel

/-- callee src/format/scan.rs:fn timezone_offset_2822 -/
theorem callee_src_format_scan_rs_fn_timezone_offset_2822 : C15_callee_src_format_scan_rs_fn_timezone_offset_2822 =
    ["v1", "&", "str", "->", "ParseResult", "<", "&", "str", "i32", ">", "v2", "v1", "as_bytes(", "iter(", "position(", "|", "&", "v3", "|", "!", "v3", "is_ascii_alphabetic(", "unwrap_or(", "v1", "len(", "if", "v2", ">", "0", "v4", "&", "v1", "as_bytes(", "..", "v2", "v1", "&", "v1", "v2", "..", "v5", "|", "v6", "|", "Ok(", "v1", "v6", "*", "3600", "if", "v4", "eq_ignore_ascii_case(", "b\"gmt\"", "||", "v4", "eq_ignore_ascii_case(", "b\"ut\"", "||", "v4", "eq_ignore_ascii_case(", "b\"z\"", "return", "offset_hours(", "0", "else", "if", "v4", "eq_ignore_ascii_case(", "b\"edt\"", "return", "offset_hours(", "-", "4", "else", "if", "v4", "eq_ignore_ascii_case(", "b\"est\"", "||", "v4", "eq_ignore_ascii_case(", "b\"cdt\"", "return", "offset_hours(", "-", "5", "else", "if", "v4", "eq_ignore_ascii_case(", "b\"cst\"", "||", "v4", "eq_ignore_ascii_case(", "b\"mdt\"", "return", "offset_hours(", "-", "6", "else", "if", "v4", "eq_ignore_ascii_case(", "b\"mst\"", "||", "v4", "eq_ignore_ascii_case(", "b\"pdt\"", "return", "offset_hours(", "-", "7", "else", "if", "v4", "eq_ignore_ascii_case(", "b\"pst\"", "return", "offset_hours(", "-", "8", "else", "if", "v4", "len(", "==", "1", "if", "b'a'", "..=", "b'i'", "|", "b'k'", "..=", "b'y'", "|", "b'A'", "..=", "b'I'", "|", "b'K'", "..=", "b'Y'", "v4", "0", "return", "Ok(", "v1", "0", "Err(", "INVALID", "else", "timezone_offset(", "v1", "|", "v1", "|", "Ok(", "v1", "false", "false", "false"] := by decide +kernel

/-- callee src/format/strftime.rs:fn switch_to_locale_str -/
theorem callee_src_format_strftime_rs_fn_switch_to_locale_str : C15_callee_src_format_strftime_rs_fn_switch_to_locale_str =
    ["&", "self", "v1", "Fn(", "Locale", "->", "&", "str", "v2", "&", "Item", "<", ">", "->", "Item", "<", ">", "if", "Some(", "v3", "self", "v3", "assert!(", "self", "v4", "is_empty(", "let(", "v5", "v6", "self", "parse_next_item(", "localized_fmt_str(", "v3", "unwrap(", "self", "v4", "v5", "v6", "else", "self", "v7", "&", "v2", "1", "..", "v2", "0", "clone("] := by decide +kernel

/-- callee src/naive/date/mod.rs:fn cycle_to_yo -/
theorem callee_src_naive_date_mod_rs_fn_cycle_to_yo : C15_callee_src_naive_date_mod_rs_fn_cycle_to_yo =
    ["v1", "u32", "->", "u32", "u32", "v2", "v1", "/", "365", "v3", "v1", "%", "365", "v4", "YEAR_DELTAS", "v2", "as", "usize", "as", "u32", "if", "v3", "<", "v4", "v2", "-=", "1", "v3", "+=", "365", "-", "YEAR_DELTAS", "v2", "as", "usize", "as", "u32", "else", "v3", "-=", "v4", "v2", "v3", "+", "1"] := by decide +kernel

/-- callee src/naive/date/mod.rs:fn div_mod_floor -/
theorem callee_src_naive_date_mod_rs_fn_div_mod_floor : C15_callee_src_naive_date_mod_rs_fn_div_mod_floor =
    ["v1", "i32", "v2", "i32", "->", "i32", "i32", "v1", "div_euclid(", "v2", "v1", "rem_euclid(", "v2"] := by decide +kernel

/-- callee src/naive/date/mod.rs:fn from_mdf -/
theorem callee_src_naive_date_mod_rs_fn_from_mdf : C15_callee_src_naive_date_mod_rs_fn_from_mdf =
    ["v1", "i32", "v2", "Mdf", "->", "Option", "<", "NaiveDate", ">", "if", "v1", "<", "MIN_YEAR", "||", "v1", ">", "MAX_YEAR", "return", "None", "Some(", "NaiveDate", "from_yof(", "v1", "<<", "13", "|", "try_opt!(", "v2", "ordinal_and_flags("] := by decide +kernel

/-- callee src/naive/date/mod.rs:fn from_ordinal_and_flags -/
theorem callee_src_naive_date_mod_rs_fn_from_ordinal_and_flags : C15_callee_src_naive_date_mod_rs_fn_from_ordinal_and_flags =
    ["v1", "i32", "v2", "u32", "v3", "YearFlags", "->", "Option", "<", "NaiveDate", ">", "if", "v1", "<", "MIN_YEAR", "||", "v1", ">", "MAX_YEAR", "return", "None", "if", "v2", "==", "0", "||", "v2", ">", "366", "return", "None", "debug_assert!(", "YearFlags", "from_year(", "v1", "==", "v3", "v4", "v1", "<<", "13", "|", "v2", "<<", "4", "as", "i32", "|", "v3", "as", "i32", "match", "v4", "&", "OL_MASK", "<=", "MAX_OL", "true", "=>", "Some(", "NaiveDate", "from_yof(", "v4", "false", "=>", "None"] := by decide +kernel

/-- callee src/naive/date/mod.rs:fn from_ymd_opt -/
theorem callee_src_naive_date_mod_rs_fn_from_ymd_opt : C15_callee_src_naive_date_mod_rs_fn_from_ymd_opt =
    ["v1", "i32", "v2", "u32", "v3", "u32", "->", "Option", "<", "NaiveDate", ">", "v4", "YearFlags", "from_year(", "v1", "if", "Some(", "v5", "Mdf", "new(", "v2", "v3", "v4", "NaiveDate", "from_mdf(", "v1", "v5", "else", "None"] := by decide +kernel

/-- callee src/naive/date/mod.rs:fn from_yo_opt -/
theorem callee_src_naive_date_mod_rs_fn_from_yo_opt : C15_callee_src_naive_date_mod_rs_fn_from_yo_opt =
    ["v1", "i32", "v2", "u32", "->", "Option", "<", "NaiveDate", ">", "v3", "YearFlags", "from_year(", "v1", "NaiveDate", "from_ordinal_and_flags(", "v1", "v2", "v3"] := by decide +kernel

/-- callee src/naive/date/mod.rs:fn leap_year -/
theorem callee_src_naive_date_mod_rs_fn_leap_year : C15_callee_src_naive_date_mod_rs_fn_leap_year =
    ["&", "self", "->", "bool", "self", "yof(", "&", "8", "==", "0"] := by decide +kernel

/-- callee src/naive/date/mod.rs:fn weeks_from -/
theorem callee_src_naive_date_mod_rs_fn_weeks_from : C15_callee_src_naive_date_mod_rs_fn_weeks_from =
    ["&", "self", "v1", "Weekday", "->", "i32", "self", "ordinal(", "as", "i32", "-", "self", "weekday(", "days_since(", "v1", "as", "i32", "+", "6", "/", "7"] := by decide +kernel

/-- callee src/naive/date/mod.rs:fn yo_to_cycle -/
theorem callee_src_naive_date_mod_rs_fn_yo_to_cycle : C15_callee_src_naive_date_mod_rs_fn_yo_to_cycle =
    ["v1", "u32", "v2", "u32", "->", "u32", "v1", "*", "365", "+", "YEAR_DELTAS", "v1", "as", "usize", "as", "u32", "+", "v2", "-", "1"] := by decide +kernel

/-- callee src/naive/date/mod.rs:fn yof -/
theorem callee_src_naive_date_mod_rs_fn_yof : C15_callee_src_naive_date_mod_rs_fn_yof =
    ["&", "self", "->", "i32", "self", "v1", "get("] := by decide +kernel

/-- callee src/naive/datetime/mod.rs:fn and_utc -/
theorem callee_src_naive_datetime_mod_rs_fn_and_utc : C15_callee_src_naive_datetime_mod_rs_fn_and_utc =
    ["&", "self", "->", "DateTime", "<", "Utc", ">", "DateTime", "from_naive_utc_and_offset(", "*", "self", "Utc"] := by decide +kernel

/-- callee src/naive/datetime/mod.rs:fn checked_sub_offset -/
theorem callee_src_naive_datetime_mod_rs_fn_checked_sub_offset : C15_callee_src_naive_datetime_mod_rs_fn_checked_sub_offset =
    ["self", "v1", "FixedOffset", "->", "Option", "<", "NaiveDateTime", ">", "let(", "v2", "v3", "self", "v2", "overflowing_sub_offset(", "v1", "v4", "match", "v3", "-", "1", "=>", "try_opt!(", "self", "v4", "pred_opt(", "1", "=>", "try_opt!(", "self", "v4", "succ_opt(", "v5", "=>", "self", "v4", "Some(", "NaiveDateTime", "v4", "v2"] := by decide +kernel

/-- callee src/naive/internals.rs:fn from_year -/
theorem callee_src_naive_internals_rs_fn_from_year : C15_callee_src_naive_internals_rs_fn_from_year =
    ["v1", "i32", "->", "YearFlags", "v1", "v1", "rem_euclid(", "400", "YearFlags", "from_year_mod_400(", "v1"] := by decide +kernel

/-- callee src/naive/internals.rs:fn from_year_mod_400 -/
theorem callee_src_naive_internals_rs_fn_from_year_mod_400 : C15_callee_src_naive_internals_rs_fn_from_year_mod_400 =
    ["v1", "i32", "->", "YearFlags", "YEAR_TO_FLAGS", "v1", "as", "usize"] := by decide +kernel

/-- callee src/naive/internals.rs:fn isoweek_delta -/
theorem callee_src_naive_internals_rs_fn_isoweek_delta : C15_callee_src_naive_internals_rs_fn_isoweek_delta =
    ["&", "self", "->", "u32", "YearFlags(", "v1", "*", "self", "v2", "v1", "&", "7", "as", "u32", "if", "v2", "<", "3", "v2", "+=", "7", "v2"] := by decide +kernel

/-- callee src/naive/internals.rs:fn ndays -/
theorem callee_src_naive_internals_rs_fn_ndays : C15_callee_src_naive_internals_rs_fn_ndays =
    ["&", "self", "->", "u32", "YearFlags(", "v1", "*", "self", "366", "-", "v1", ">>", "3", "as", "u32"] := by decide +kernel

/-- callee src/naive/internals.rs:fn nisoweeks -/
theorem callee_src_naive_internals_rs_fn_nisoweeks : C15_callee_src_naive_internals_rs_fn_nisoweeks =
    ["&", "self", "->", "u32", "YearFlags(", "v1", "*", "self", "52", "+", "1030", ">>", "v1", "as", "usize", "&", "1"] := by decide +kernel

/-- callee src/naive/internals.rs:fn ordinal_and_flags -/
theorem callee_src_naive_internals_rs_fn_ordinal_and_flags : C15_callee_src_naive_internals_rs_fn_ordinal_and_flags =
    ["&", "self", "->", "Option", "<", "i32", ">", "v1", "self", ">>", "3", "match", "MDL_TO_OL", "v1", "as", "usize", "XX", "=>", "None", "v2", "=>", "Some(", "self", "as", "i32", "-", "v2", "as", "i32", "<<", "3"] := by decide +kernel

/-- callee src/naive/time/mod.rs:fn from_hms_nano_opt -/
theorem callee_src_naive_time_mod_rs_fn_from_hms_nano_opt : C15_callee_src_naive_time_mod_rs_fn_from_hms_nano_opt =
    ["v1", "u32", "v2", "u32", "v3", "u32", "v4", "u32", "->", "Option", "<", "NaiveTime", ">", "if(", "v1", ">=", "24", "||", "v2", ">=", "60", "||", "v3", ">=", "60", "||", "v4", ">=", "1000000000", "&&", "v3", "!=", "59", "||", "v4", ">=", "2000000000", "return", "None", "v5", "v1", "*", "3600", "+", "v2", "*", "60", "+", "v3", "Some(", "NaiveTime", "v5", "v6", "v4"] := by decide +kernel

/-- callee src/naive/time/mod.rs:fn hms -/
theorem callee_src_naive_time_mod_rs_fn_hms : C15_callee_src_naive_time_mod_rs_fn_hms =
    ["&", "self", "->", "u32", "u32", "u32", "v1", "self", "v2", "%", "60", "v3", "self", "v2", "/", "60", "v4", "v3", "%", "60", "v5", "v3", "/", "60", "v5", "v4", "v1"] := by decide +kernel

/-- callee src/offset/mod.rs:fn from_local_datetime -/
theorem callee_src_offset_mod_rs_fn_from_local_datetime : C15_callee_src_offset_mod_rs_fn_from_local_datetime =
    ["&", "self", "v1", "&", "NaiveDateTime", "->", "MappedLocalTime", "<", "DateTime", "<", "Self", ">>", "self", "offset_from_local_datetime(", "v1", "and_then(", "|", "v2", "|", "v1", "checked_sub_offset(", "v2", "fix(", "map(", "|", "v3", "|", "DateTime", "from_naive_utc_and_offset(", "v3", "v2"] := by decide +kernel

/-- callee src/time_delta.rs:fn div_mod_floor_64 -/
theorem callee_src_time_delta_rs_fn_div_mod_floor_64 : C15_callee_src_time_delta_rs_fn_div_mod_floor_64 =
    ["v1", "i64", "v2", "i64", "->", "i64", "i64", "v1", "div_euclid(", "v2", "v1", "rem_euclid(", "v2"] := by decide +kernel

/-- callee src/time_delta.rs:fn try_seconds -/
theorem callee_src_time_delta_rs_fn_try_seconds : C15_callee_src_time_delta_rs_fn_try_seconds =
    ["v1", "i64", "->", "Option", "<", "TimeDelta", ">", "TimeDelta", "new(", "v1", "0"] := by decide +kernel

/-- callee src/weekday.rs:fn days_since -/
theorem callee_src_weekday_rs_fn_days_since : C15_callee_src_weekday_rs_fn_days_since =
    ["&", "self", "v1", "Weekday", "->", "u32", "v2", "*", "self", "as", "u32", "v3", "v1", "as", "u32", "if", "v2", "<", "v3", "7", "+", "v2", "-", "v3", "else", "v2", "-", "v3"] := by decide +kernel

/-- callee src/weekday.rs:fn num_days_from_monday -/
theorem callee_src_weekday_rs_fn_num_days_from_monday : C15_callee_src_weekday_rs_fn_num_days_from_monday =
    ["&", "self", "->", "u32", "self", "days_since(", "Weekday", "Mon"] := by decide +kernel

end Chrono.Pins.C15
