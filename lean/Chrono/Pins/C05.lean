/-
  PINS of property C05: the decision tokens of every item the property is anchored in
  (properties.jsonl `anchors` + tools/anchor_extra.json), as they were in /repo at 770977e when the
  model was validated against the source.  Written by tools/pin_anchors.py; the right-hand sides are
  compared by the kernel with lean/Chrono/Extracted/Anchors.lean, which tools/extractors/anchors.py
  regenerates from /repo's working tree on every check.  A theorem that fails here means: anchored
  code changed; the hand-written model may no longer mirror it.
-/
import Chrono.Extracted.Anchors
namespace Chrono.Pins.C05
open Chrono.Extracted.Anchors

/-- src/offset/local/mod.rs:impl TimeZone for Local -/
theorem src_offset_local_mod_rs_impl_TimeZone_for_Local : C05_src_offset_local_mod_rs_impl_TimeZone_for_Local =
    ["TimeZone", "for", "Local", "Offset", "FixedOffset", "from_offset(", "v1", "&", "FixedOffset", "->", "Local", "Local", "offset_from_local_date(", "&", "self", "v2", "&", "NaiveDate", "->", "MappedLocalTime", "<", "FixedOffset", ">", "self", "offset_from_local_datetime(", "&", "v2", "and_time(", "NaiveTime", "MIN", "offset_from_local_datetime(", "&", "self", "v2", "&", "NaiveDateTime", "->", "MappedLocalTime", "<", "FixedOffset", ">", "v3", "offset_from_local_datetime(", "v2", "offset_from_utc_date(", "&", "self", "v4", "&", "NaiveDate", "->", "FixedOffset", "self", "offset_from_utc_datetime(", "&", "v4", "and_time(", "NaiveTime", "MIN", "offset_from_utc_datetime(", "&", "self", "v4", "&", "NaiveDateTime", "->", "FixedOffset", "v3", "offset_from_utc_datetime(", "v4", "unwrap("] := by decide +kernel

/-- src/offset/local/tz_info/rule.rs:fn days_since_unix_epoch -/
theorem src_offset_local_tz_info_rule_rs_fn_days_since_unix_epoch : C05_src_offset_local_tz_info_rule_rs_fn_days_since_unix_epoch =
    ["v1", "i32", "v2", "usize", "v3", "i64", "->", "i64", "v4", "is_leap_year(", "v1", "v1", "v1", "as", "i64", "v5", "v1", "-", "1970", "*", "365", "if", "v1", ">=", "1970", "v5", "+=", "v1", "-", "1968", "/", "4", "v5", "-=", "v1", "-", "1900", "/", "100", "v5", "+=", "v1", "-", "1600", "/", "400", "if", "v4", "&&", "v2", "<", "3", "v5", "-=", "1", "else", "v5", "+=", "v1", "-", "1972", "/", "4", "v5", "-=", "v1", "-", "2000", "/", "100", "v5", "+=", "v1", "-", "2000", "/", "400", "if", "v4", "&&", "v2", ">=", "3", "v5", "+=", "1", "v5", "+=", "CUMUL_DAY_IN_MONTHS_NORMAL_YEAR", "v2", "-", "1", "+", "v3", "-", "1", "v5"] := by decide +kernel

/-- src/offset/local/tz_info/rule.rs:fn find_local_time_type -/
theorem src_offset_local_tz_info_rule_rs_fn_find_local_time_type : C05_src_offset_local_tz_info_rule_rs_fn_find_local_time_type =
    ["&", "self", "v1", "i64", "->", "Result", "<", "&", "LocalTimeType", "Error", ">", "match", "self", "TransitionRule", "Fixed(", "v2", "=>", "Ok(", "v2", "TransitionRule", "Alternate(", "v3", "=>", "v3", "find_local_time_type(", "v1", "§", "&", "self", "v1", "i64", "->", "Result", "<", "&", "LocalTimeType", "Error", ">", "v2", "self", "v3", "as", "i64", "-", "self", "v4", "v5", "as", "i64", "v6", "self", "v7", "as", "i64", "-", "self", "v8", "v5", "as", "i64", "v9", "match", "UtcDateTime", "from_timespec(", "v1", "Ok(", "v10", "=>", "v10", "v11", "Err(", "v12", "=>", "return", "Err(", "v12", "if!(", "i32", "MIN", "+", "2", "..=", "i32", "MAX", "-", "2", "contains(", "&", "v9", "return", "Err(", "Error", "OutOfRange(", "\"…\"", "v13", "self", "v14", "unix_time(", "v9", "v2", "v15", "self", "v16", "unix_time(", "v9", "v6", "v17", "match", "Ord", "cmp(", "&", "v13", "&", "v15", "Ordering", "Less", "|", "Ordering", "Equal", "=>", "if", "v1", "<", "v13", "v18", "self", "v16", "unix_time(", "v9", "-", "1", "v6", "if", "v1", "<", "v18", "v19", "self", "v14", "unix_time(", "v9", "-", "1", "v2", "v19", "<=", "v1", "else", "false", "else", "if", "v1", "<", "v15", "true", "else", "v20", "self", "v14", "unix_time(", "v9", "+", "1", "v2", "if", "v20", "<=", "v1", "v21", "self", "v16", "unix_time(", "v9", "+", "1", "v6", "v1", "<", "v21", "else", "false", "Ordering", "Greater", "=>", "if", "v1", "<", "v15", "v19", "self", "v14", "unix_time(", "v9", "-", "1", "v2", "if", "v1", "<", "v19", "v18", "self", "v16", "unix_time(", "v9", "-", "1", "v6", "v1", "<", "v18", "else", "true", "else", "if", "v1", "<", "v13", "false", "else", "v21", "self", "v16", "unix_time(", "v9", "+", "1", "v6", "if", "v21", "<=", "v1", "v20", "self", "v14", "unix_time(", "v9", "+", "1", "v2", "v20", "<=", "v1", "else", "true", "if", "v17", "Ok(", "&", "self", "v8", "else", "Ok(", "&", "self", "v4"] := by decide +kernel

/-- src/offset/local/tz_info/rule.rs:fn find_local_time_type_from_local -/
theorem src_offset_local_tz_info_rule_rs_fn_find_local_time_type_from_local : C05_src_offset_local_tz_info_rule_rs_fn_find_local_time_type_from_local =
    ["&", "self", "v1", "NaiveDateTime", "->", "Result", "<", "MappedLocalTime", "<", "LocalTimeType", ">", "Error", ">", "match", "self", "TransitionRule", "Fixed(", "v2", "=>", "Ok(", "MappedLocalTime", "Single(", "*", "v2", "TransitionRule", "Alternate(", "v3", "=>", "v3", "find_local_time_type_from_local(", "v1", "§", "&", "self", "v1", "NaiveDateTime", "->", "Result", "<", "MappedLocalTime", "<", "LocalTimeType", ">", "Error", ">", "v2", "v1", "year(", "v1", "v1", "and_utc(", "timestamp(", "v3", "self", "v4", "unix_time(", "v2", "0", "+", "i64", "from(", "self", "v5", "v6", "self", "v4", "unix_time(", "v2", "0", "+", "i64", "from(", "self", "v5", "+", "i64", "from(", "self", "v7", "v8", "-", "i64", "from(", "self", "v9", "v8", "v10", "self", "v11", "unix_time(", "v2", "0", "+", "i64", "from(", "self", "v12", "v13", "self", "v11", "unix_time(", "v2", "0", "+", "i64", "from(", "self", "v12", "+", "i64", "from(", "self", "v9", "v8", "-", "i64", "from(", "self", "v7", "v8", "match", "self", "v9", "v8", "cmp(", "&", "self", "v7", "v8", "Ordering", "Equal", "=>", "Ok(", "MappedLocalTime", "Single(", "self", "v9", "Ordering", "Less", "=>", "if", "v3", "<", "v10", "if", "v1", "<=", "v3", "Ok(", "MappedLocalTime", "Single(", "self", "v9", "else", "if", "v1", ">", "v3", "&&", "v1", "<", "v6", "Ok(", "MappedLocalTime", "None", "else", "if", "v1", ">=", "v6", "&&", "v1", "<", "v13", "Ok(", "MappedLocalTime", "Single(", "self", "v7", "else", "if", "v1", ">=", "v13", "&&", "v1", "<=", "v10", "Ok(", "MappedLocalTime", "Ambiguous(", "self", "v7", "self", "v9", "else", "Ok(", "MappedLocalTime", "Single(", "self", "v9", "else", "if", "v1", "<", "v13", "Ok(", "MappedLocalTime", "Single(", "self", "v7", "else", "if", "v1", ">=", "v13", "&&", "v1", "<=", "v10", "Ok(", "MappedLocalTime", "Ambiguous(", "self", "v7", "self", "v9", "else", "if", "v1", ">", "v13", "&&", "v1", "<", "v3", "Ok(", "MappedLocalTime", "Single(", "self", "v9", "else", "if", "v1", ">=", "v3", "&&", "v1", "<", "v6", "Ok(", "MappedLocalTime", "None", "else", "Ok(", "MappedLocalTime", "Single(", "self", "v7", "Ordering", "Greater", "=>", "if", "v3", "<", "v10", "if", "v1", "<", "v6", "Ok(", "MappedLocalTime", "Single(", "self", "v9", "else", "if", "v1", ">=", "v6", "&&", "v1", "<=", "v3", "Ok(", "MappedLocalTime", "Ambiguous(", "self", "v9", "self", "v7", "else", "if", "v1", ">", "v3", "&&", "v1", "<", "v10", "Ok(", "MappedLocalTime", "Single(", "self", "v7", "else", "if", "v1", ">=", "v10", "&&", "v1", "<", "v13", "Ok(", "MappedLocalTime", "None", "else", "Ok(", "MappedLocalTime", "Single(", "self", "v9", "else", "if", "v1", "<=", "v10", "Ok(", "MappedLocalTime", "Single(", "self", "v7", "else", "if", "v1", ">", "v10", "&&", "v1", "<", "v13", "Ok(", "MappedLocalTime", "None", "else", "if", "v1", ">=", "v13", "&&", "v1", "<", "v6", "Ok(", "MappedLocalTime", "Single(", "self", "v9", "else", "if", "v1", ">=", "v6", "&&", "v1", "<=", "v3", "Ok(", "MappedLocalTime", "Ambiguous(", "self", "v9", "self", "v7", "else", "Ok(", "MappedLocalTime", "Single(", "self", "v7"] := by decide +kernel

/-- src/offset/local/tz_info/rule.rs:fn from_timespec -/
theorem src_offset_local_tz_info_rule_rs_fn_from_timespec : C05_src_offset_local_tz_info_rule_rs_fn_from_timespec =
    ["v1", "i64", "->", "Result", "<", "Self", "Error", ">", "v2", "match", "v1", "checked_sub(", "UNIX_OFFSET_SECS", "Some(", "v2", "=>", "v2", "None", "=>", "return", "Err(", "Error", "OutOfRange(", "\"…\"", "v3", "v2", "/", "SECONDS_PER_DAY", "v4", "v2", "%", "SECONDS_PER_DAY", "if", "v4", "<", "0", "v4", "+=", "SECONDS_PER_DAY", "v3", "-=", "1", "v5", "v3", "/", "DAYS_PER_400_YEARS", "v3", "%=", "DAYS_PER_400_YEARS", "if", "v3", "<", "0", "v3", "+=", "DAYS_PER_400_YEARS", "v5", "-=", "1", "v6", "Ord", "min(", "v3", "/", "DAYS_PER_100_YEARS", "3", "v3", "-=", "v6", "*", "DAYS_PER_100_YEARS", "v7", "Ord", "min(", "v3", "/", "DAYS_PER_4_YEARS", "24", "v3", "-=", "v7", "*", "DAYS_PER_4_YEARS", "v8", "Ord", "min(", "v3", "/", "DAYS_PER_NORMAL_YEAR", "3", "v3", "-=", "v8", "*", "DAYS_PER_NORMAL_YEAR", "v9", "OFFSET_YEAR", "+", "v8", "+", "v7", "*", "4", "+", "v6", "*", "100", "+", "v5", "*", "400", "v10", "0", "while", "v10", "<", "DAY_IN_MONTHS_LEAP_YEAR_FROM_MARCH", "len(", "v11", "DAY_IN_MONTHS_LEAP_YEAR_FROM_MARCH", "v10", "if", "v3", "<", "v11", "break", "v3", "-=", "v11", "v10", "+=", "1", "v10", "+=", "2", "if", "v10", ">=", "MONTHS_PER_YEAR", "as", "usize", "v10", "-=", "MONTHS_PER_YEAR", "as", "usize", "v9", "+=", "1", "v10", "+=", "1", "v12", "1", "+", "v3", "v13", "v4", "/", "SECONDS_PER_HOUR", "v14", "v4", "/", "SECONDS_PER_MINUTE", "%", "MINUTES_PER_HOUR", "v15", "v4", "%", "SECONDS_PER_MINUTE", "v9", "match", "v9", ">=", "i32", "MIN", "as", "i64", "&&", "v9", "<=", "i32", "MAX", "as", "i64", "true", "=>", "v9", "as", "i32", "false", "=>", "return", "Err(", "Error", "OutOfRange(", "\"…\"", "Ok(", "Self", "v9", "v10", "v10", "as", "u8", "v12", "v12", "as", "u8", "v13", "v13", "as", "u8", "v14", "v14", "as", "u8", "v15", "v15", "as", "u8"] := by decide +kernel

/-- src/offset/local/tz_info/rule.rs:fn transition_date -/
theorem src_offset_local_tz_info_rule_rs_fn_transition_date : C05_src_offset_local_tz_info_rule_rs_fn_transition_date =
    ["&", "self", "v1", "i32", "->", "usize", "i64", "match", "*", "self", "RuleDay", "Julian1WithoutLeap(", "v2", "=>", "v2", "v2", "as", "i64", "v3", "match", "CUMUL_DAY_IN_MONTHS_NORMAL_YEAR", "binary_search(", "&", "v2", "-", "1", "Ok(", "v4", "=>", "v4", "+", "1", "Err(", "v4", "=>", "v4", "v5", "v2", "-", "CUMUL_DAY_IN_MONTHS_NORMAL_YEAR", "v3", "-", "1", "v3", "v5", "RuleDay", "Julian0WithLeap(", "v2", "=>", "v6", "is_leap_year(", "v1", "as", "i64", "v7", "0", "31", "59", "+", "v6", "90", "+", "v6", "120", "+", "v6", "151", "+", "v6", "181", "+", "v6", "212", "+", "v6", "243", "+", "v6", "273", "+", "v6", "304", "+", "v6", "334", "+", "v6", "v2", "v2", "as", "i64", "v3", "match", "v7", "binary_search(", "&", "v2", "Ok(", "v4", "=>", "v4", "+", "1", "Err(", "v4", "=>", "v4", "v5", "1", "+", "v2", "-", "v7", "v3", "-", "1", "v3", "v5", "RuleDay", "MonthWeekday", "v3", "v8", "v9", "v10", "=>", "v6", "is_leap_year(", "v1", "as", "i64", "v3", "v8", "as", "usize", "v11", "DAY_IN_MONTHS_NORMAL_YEAR", "v3", "-", "1", "if", "v3", "==", "2", "v11", "+=", "v6", "v12", "4", "+", "days_since_unix_epoch(", "v1", "v3", "1", "rem_euclid(", "DAYS_PER_WEEK", "v13", "1", "+", "v10", "as", "i64", "-", "v12", "rem_euclid(", "DAYS_PER_WEEK", "v5", "v13", "+", "v9", "as", "i64", "-", "1", "*", "DAYS_PER_WEEK", "if", "v5", ">", "v11", "v5", "-=", "DAYS_PER_WEEK", "v3", "v5"] := by decide +kernel

/-- src/offset/local/tz_info/rule.rs:fn unix_time -/
theorem src_offset_local_tz_info_rule_rs_fn_unix_time : C05_src_offset_local_tz_info_rule_rs_fn_unix_time =
    ["&", "self", "v1", "i32", "v2", "i64", "->", "i64", "let(", "v3", "v4", "self", "transition_date(", "v1", "days_since_unix_epoch(", "v1", "v3", "v4", "*", "SECONDS_PER_DAY", "+", "v2"] := by decide +kernel

/-- src/offset/local/tz_info/timezone.rs:fn find_local_time_type -/
theorem src_offset_local_tz_info_timezone_rs_fn_find_local_time_type : C05_src_offset_local_tz_info_timezone_rs_fn_find_local_time_type =
    ["&", "self", "v1", "i64", "->", "Result", "<", "&", "LocalTimeType", "Error", ">", "self", "as_ref(", "find_local_time_type(", "v1", "§", "&", "self", "v1", "i64", "->", "Result", "<", "&", "LocalTimeType", "Error", ">", "v2", "match", "self", "v3", "last(", "None", "=>", "match", "self", "v2", "Some(", "v2", "=>", "v2", "None", "=>", "return", "Ok(", "&", "self", "v4", "0", "Some(", "v5", "=>", "v6", "match", "self", "unix_time_to_unix_leap_time(", "v1", "Ok(", "v6", "=>", "v6", "Err(", "Error", "OutOfRange(", "v7", "=>", "return", "Err(", "Error", "FindLocalTimeType(", "v7", "Err(", "v8", "=>", "return", "Err(", "v8", "if", "v6", ">=", "v5", "v6", "match", "self", "v2", "Some(", "v2", "=>", "v2", "None", "=>", "return", "Ok(", "&", "self", "v4", "v5", "v9", "else", "v10", "match", "self", "v3", "binary_search_by_key(", "&", "v6", "Transition", "v6", "Ok(", "v11", "=>", "v11", "+", "1", "Err(", "v11", "=>", "v11", "v9", "if", "v10", ">", "0", "self", "v3", "v10", "-", "1", "v9", "else", "0", "return", "Ok(", "&", "self", "v4", "v9", "match", "v2", "find_local_time_type(", "v1", "Ok(", "v12", "=>", "Ok(", "v12", "Err(", "Error", "OutOfRange(", "v7", "=>", "Err(", "Error", "FindLocalTimeType(", "v7", "v8", "=>", "v8"] := by decide +kernel

/-- src/offset/local/tz_info/timezone.rs:fn find_local_time_type_from_local -/
theorem src_offset_local_tz_info_timezone_rs_fn_find_local_time_type_from_local : C05_src_offset_local_tz_info_timezone_rs_fn_find_local_time_type_from_local =
    ["&", "self", "v1", "NaiveDateTime", "->", "Result", "<", "MappedLocalTime", "<", "LocalTimeType", ">", "Error", ">", "self", "as_ref(", "find_local_time_type_from_local(", "v1", "§", "&", "self", "v1", "NaiveDateTime", "->", "Result", "<", "MappedLocalTime", "<", "LocalTimeType", ">", "Error", ">", "v2", "v1", "and_utc(", "timestamp(", "v3", "if", "!", "self", "v4", "is_empty(", "v5", "self", "v6", "0", "for", "v7", "in", "self", "v4", "v8", "self", "v6", "v7", "v9", "v10", "v7", "v11", "saturating_add(", "i64", "from(", "v8", "v12", "v13", "v7", "v11", "saturating_add(", "i64", "from(", "v5", "v12", "match", "v13", "cmp(", "&", "v10", "Ordering", "Greater", "=>", "if", "v2", "<", "v10", "return", "Ok(", "MappedLocalTime", "Single(", "v5", "else", "if", "v2", ">=", "v10", "&&", "v2", "<=", "v13", "return", "Ok(", "MappedLocalTime", "Ambiguous(", "v5", "v8", "Ordering", "Equal", "=>", "if", "v2", "<", "v13", "return", "Ok(", "MappedLocalTime", "Single(", "v5", "else", "if", "v2", "==", "v10", "return", "Ok(", "MappedLocalTime", "Single(", "v8", "Ordering", "Less", "=>", "if", "v2", "<=", "v13", "return", "Ok(", "MappedLocalTime", "Single(", "v5", "else", "if", "v2", "<", "v10", "return", "Ok(", "MappedLocalTime", "None", "else", "if", "v2", "==", "v10", "return", "Ok(", "MappedLocalTime", "Single(", "v8", "v5", "v8", "v5", "else", "self", "v6", "0", "if", "Some(", "v14", "self", "v14", "match", "v14", "find_local_time_type_from_local(", "v1", "Ok(", "v15", "=>", "Ok(", "v15", "Err(", "Error", "OutOfRange(", "v16", "=>", "Err(", "Error", "FindLocalTimeType(", "v16", "v17", "=>", "v17", "else", "Ok(", "MappedLocalTime", "Single(", "v3"] := by decide +kernel

/-- src/offset/local/unix.rs:fn offset -/
theorem src_offset_local_unix_rs_fn_offset : C05_src_offset_local_unix_rs_fn_offset =
    ["v1", "&", "NaiveDateTime", "v2", "bool", "->", "MappedLocalTime", "<", "FixedOffset", ">", "TZ_INFO", "with(", "|", "v3", "|", "v3", "borrow_mut(", "get_or_insert_with(", "Cache", "v4", "offset(", "*", "v1", "v2", "§", "&", "self", "v1", "NaiveDateTime", "v2", "bool", "->", "MappedLocalTime", "<", "FixedOffset", ">", "v3", "SystemTime", "now(", "match", "v3", "duration_since(", "self", "v4", "Ok(", "v1", "if", "v1", "as_secs(", "<", "1", "=>", "Ok(", "v5", "|", "Err(", "v5", "=>", "v6", "v7", "var(", "\"TZ\"", "ok(", "v8", "v6", "as_deref(", "v9", "Source", "new(", "v8", "v10", "match(", "&", "self", "v11", "&", "v9", "Source", "Environment", "..", "Source", "LocalTime", "..", "|", "Source", "LocalTime", "..", "Source", "Environment", "..", "=>", "true", "Source", "LocalTime", "v12", "v13", "Source", "LocalTime", "v12", "if", "v13", "!=", "v12", "=>", "true", "Source", "Environment", "v14", "v15", "Source", "Environment", "v14", "if", "v15", "!=", "v14", "=>", "true", "v5", "=>", "false", "if", "v10", "self", "v16", "current_zone(", "v8", "self", "v4", "v3", "self", "v11", "v9", "if", "!", "v2", "v17", "self", "v16", "find_local_time_type(", "v1", "and_utc(", "timestamp(", "expect(", "\"…\"", "offset(", "return", "match", "FixedOffset", "east_opt(", "v17", "Some(", "v17", "=>", "MappedLocalTime", "Single(", "v17", "None", "=>", "MappedLocalTime", "None", "self", "v16", "find_local_time_type_from_local(", "v1", "expect(", "\"…\"", "and_then(", "|", "v18", "|", "FixedOffset", "east_opt(", "v18", "offset("] := by decide +kernel

/-- src/offset/mod.rs:fn from_local_datetime -/
theorem src_offset_mod_rs_fn_from_local_datetime : C05_src_offset_mod_rs_fn_from_local_datetime =
    ["&", "self", "v1", "&", "NaiveDateTime", "->", "MappedLocalTime", "<", "DateTime", "<", "Self", ">>", "self", "offset_from_local_datetime(", "v1", "and_then(", "|", "v2", "|", "v1", "checked_sub_offset(", "v2", "fix(", "map(", "|", "v3", "|", "DateTime", "from_naive_utc_and_offset(", "v3", "v2"] := by decide +kernel

/-- src/offset/mod.rs:type MappedLocalTime -/
theorem src_offset_mod_rs_type_MappedLocalTime : C05_src_offset_mod_rs_type_MappedLocalTime =
    ["<", "T", ">", "MappedLocalTime", "<", "T", ">", "single(", "self", "->", "Option", "<", "T", ">", "match", "self", "MappedLocalTime", "Single(", "v1", "=>", "Some(", "v1", "v2", "=>", "None", "earliest(", "self", "->", "Option", "<", "T", ">", "match", "self", "MappedLocalTime", "Single(", "v1", "|", "MappedLocalTime", "Ambiguous(", "v1", "v2", "=>", "Some(", "v1", "v2", "=>", "None", "latest(", "self", "->", "Option", "<", "T", ">", "match", "self", "MappedLocalTime", "Single(", "v1", "|", "MappedLocalTime", "Ambiguous(", "v2", "v1", "=>", "Some(", "v1", "v2", "=>", "None", "v3", "<", "U", "F", "FnMut(", "T", "->", "U", ">", "self", "v4", "F", "->", "MappedLocalTime", "<", "U", ">", "match", "self", "MappedLocalTime", "None", "=>", "MappedLocalTime", "None", "MappedLocalTime", "Single(", "v5", "=>", "MappedLocalTime", "Single(", "f(", "v5", "MappedLocalTime", "Ambiguous(", "v6", "v7", "=>", "MappedLocalTime", "Ambiguous(", "f(", "v6", "f(", "v7", "pub(", "v8", "<", "U", "F", "FnMut(", "T", "->", "Option", "<", "U", ">>", "self", "v4", "F", "->", "MappedLocalTime", "<", "U", ">", "match", "self", "MappedLocalTime", "None", "=>", "MappedLocalTime", "None", "MappedLocalTime", "Single(", "v5", "=>", "match", "f(", "v5", "Some(", "v9", "=>", "MappedLocalTime", "Single(", "v9", "None", "=>", "MappedLocalTime", "None", "MappedLocalTime", "Ambiguous(", "v6", "v7", "=>", "match(", "f(", "v6", "f(", "v7", "Some(", "v6", "Some(", "v7", "=>", "MappedLocalTime", "Ambiguous(", "v6", "v7", "v2", "=>", "MappedLocalTime", "None", "§", "<", "Tz", "TimeZone", ">", "MappedLocalTime", "<", "Date", "<", "Tz", ">>", "and_time(", "self", "v1", "NaiveTime", "->", "MappedLocalTime", "<", "DateTime", "<", "Tz", ">>", "match", "self", "MappedLocalTime", "Single(", "v2", "=>", "v2", "and_time(", "v1", "map_or(", "MappedLocalTime", "None", "MappedLocalTime", "Single", "v3", "=>", "MappedLocalTime", "None", "and_hms_opt(", "self", "v4", "u32", "v5", "u32", "v6", "u32", "->", "MappedLocalTime", "<", "DateTime", "<", "Tz", ">>", "match", "self", "MappedLocalTime", "Single(", "v2", "=>", "v2", "and_hms_opt(", "v4", "v5", "v6", "map_or(", "MappedLocalTime", "None", "MappedLocalTime", "Single", "v3", "=>", "MappedLocalTime", "None", "and_hms_milli_opt(", "self", "v4", "u32", "v5", "u32", "v6", "u32", "v7", "u32", "->", "MappedLocalTime", "<", "DateTime", "<", "Tz", ">>", "match", "self", "MappedLocalTime", "Single(", "v2", "=>", "v2", "and_hms_milli_opt(", "v4", "v5", "v6", "v7", "map_or(", "MappedLocalTime", "None", "MappedLocalTime", "Single", "v3", "=>", "MappedLocalTime", "None", "and_hms_micro_opt(", "self", "v4", "u32", "v5", "u32", "v6", "u32", "v8", "u32", "->", "MappedLocalTime", "<", "DateTime", "<", "Tz", ">>", "match", "self", "MappedLocalTime", "Single(", "v2", "=>", "v2", "and_hms_micro_opt(", "v4", "v5", "v6", "v8", "map_or(", "MappedLocalTime", "None", "MappedLocalTime", "Single", "v3", "=>", "MappedLocalTime", "None", "and_hms_nano_opt(", "self", "v4", "u32", "v5", "u32", "v6", "u32", "v9", "u32", "->", "MappedLocalTime", "<", "DateTime", "<", "Tz", ">>", "match", "self", "MappedLocalTime", "Single(", "v2", "=>", "v2", "and_hms_nano_opt(", "v4", "v5", "v6", "v9", "map_or(", "MappedLocalTime", "None", "MappedLocalTime", "Single", "v3", "=>", "MappedLocalTime", "None", "§", "<", "T", "v1", "Debug", ">", "MappedLocalTime", "<", "T", ">", "unwrap(", "self", "->", "T", "match", "self", "MappedLocalTime", "None", "=>", "panic!(", "\"…\"", "MappedLocalTime", "Single(", "v2", "=>", "v2", "MappedLocalTime", "Ambiguous(", "v3", "v4", "=>", "panic!(", "\"…\"", "v3", "v4"] := by decide +kernel

/-- callee src/datetime/mod.rs:fn from_naive_utc_and_offset -/
theorem callee_src_datetime_mod_rs_fn_from_naive_utc_and_offset : C05_callee_src_datetime_mod_rs_fn_from_naive_utc_and_offset =
    ["v1", "NaiveDateTime", "v2", "Tz", "Offset", "->", "DateTime", "<", "Tz", ">", "DateTime", "v1", "v2"] := by decide +kernel

/-- callee src/naive/datetime/mod.rs:fn and_utc -/
theorem callee_src_naive_datetime_mod_rs_fn_and_utc : C05_callee_src_naive_datetime_mod_rs_fn_and_utc =
    ["&", "self", "->", "DateTime", "<", "Utc", ">", "DateTime", "from_naive_utc_and_offset(", "*", "self", "Utc"] := by decide +kernel

/-- callee src/naive/datetime/mod.rs:fn checked_sub_offset -/
theorem callee_src_naive_datetime_mod_rs_fn_checked_sub_offset : C05_callee_src_naive_datetime_mod_rs_fn_checked_sub_offset =
    ["self", "v1", "FixedOffset", "->", "Option", "<", "NaiveDateTime", ">", "let(", "v2", "v3", "self", "v2", "overflowing_sub_offset(", "v1", "v4", "match", "v3", "-", "1", "=>", "try_opt!(", "self", "v4", "pred_opt(", "1", "=>", "try_opt!(", "self", "v4", "succ_opt(", "v5", "=>", "self", "v4", "Some(", "NaiveDateTime", "v4", "v2"] := by decide +kernel

/-- callee src/offset/fixed.rs:fn east_opt -/
theorem callee_src_offset_fixed_rs_fn_east_opt : C05_callee_src_offset_fixed_rs_fn_east_opt =
    ["v1", "i32", "->", "Option", "<", "FixedOffset", ">", "if", "-", "86400", "<", "v1", "&&", "v1", "<", "86400", "Some(", "FixedOffset", "v2", "v1", "else", "None"] := by decide +kernel

/-- callee src/offset/local/tz_info/parser.rs:fn peek -/
theorem callee_src_offset_local_tz_info_parser_rs_fn_peek : C05_callee_src_offset_local_tz_info_parser_rs_fn_peek =
    ["&", "self", "->", "Option", "<", "&", "u8", ">", "self", "remaining(", "first("] := by decide +kernel

/-- callee src/offset/local/tz_info/parser.rs:fn read_be_u32 -/
theorem callee_src_offset_local_tz_info_parser_rs_fn_read_be_u32 : C05_callee_src_offset_local_tz_info_parser_rs_fn_read_be_u32 =
    ["&", "self", "->", "Result", "<", "u32", "Error", ">", "v1", "0", "4", "v1", "copy_from_slice(", "self", "read_exact(", "4", "?", "Ok(", "u32", "from_be_bytes(", "v1"] := by decide +kernel

/-- callee src/offset/local/tz_info/parser.rs:fn read_exact -/
theorem callee_src_offset_local_tz_info_parser_rs_fn_read_exact : C05_callee_src_offset_local_tz_info_parser_rs_fn_read_exact =
    ["&", "self", "v1", "usize", "->", "Result", "<", "&", "u8", "v2", "Error", ">", "match(", "self", "v3", "get(", "..", "v1", "self", "v3", "get(", "v1", "..", "Some(", "v4", "Some(", "v3", "=>", "self", "v3", "v3", "self", "v5", "+=", "v1", "Ok(", "v4", "v6", "=>", "Err(", "v2", "Error", "from(", "ErrorKind", "UnexpectedEof"] := by decide +kernel

/-- callee src/offset/local/tz_info/parser.rs:fn read_int -/
theorem callee_src_offset_local_tz_info_parser_rs_fn_read_int : C05_callee_src_offset_local_tz_info_parser_rs_fn_read_int =
    ["<", "T", "FromStr", "<", "Err", "ParseIntError", ">>", "&", "self", "->", "Result", "<", "T", "Error", ">", "v1", "self", "read_while(", "u8", "v2", "?", "Ok(", "str", "from_utf8(", "v1", "?", "parse(", "?"] := by decide +kernel

/-- callee src/offset/local/tz_info/parser.rs:fn read_optional_tag -/
theorem callee_src_offset_local_tz_info_parser_rs_fn_read_optional_tag : C05_callee_src_offset_local_tz_info_parser_rs_fn_read_optional_tag =
    ["&", "self", "v1", "&", "u8", "->", "Result", "<", "bool", "v2", "Error", ">", "if", "self", "v3", "starts_with(", "v1", "self", "read_exact(", "v1", "len(", "?", "Ok(", "true", "else", "Ok(", "false"] := by decide +kernel

/-- callee src/offset/local/tz_info/parser.rs:fn read_tag -/
theorem callee_src_offset_local_tz_info_parser_rs_fn_read_tag : C05_callee_src_offset_local_tz_info_parser_rs_fn_read_tag =
    ["&", "self", "v1", "&", "u8", "->", "Result", "<", "v2", "Error", ">", "if", "self", "read_exact(", "v1", "len(", "?", "==", "v1", "Ok(", "else", "Err(", "v2", "Error", "from(", "ErrorKind", "InvalidData"] := by decide +kernel

/-- callee src/offset/local/tz_info/parser.rs:fn read_until -/
theorem callee_src_offset_local_tz_info_parser_rs_fn_read_until : C05_callee_src_offset_local_tz_info_parser_rs_fn_read_until =
    ["<", "F", "Fn(", "&", "u8", "->", "bool", ">", "&", "self", "v1", "F", "->", "Result", "<", "&", "u8", "v2", "Error", ">", "match", "self", "v3", "iter(", "position(", "v1", "None", "=>", "self", "read_exact(", "self", "v3", "len(", "Some(", "v4", "=>", "self", "read_exact(", "v4"] := by decide +kernel

/-- callee src/offset/local/tz_info/parser.rs:fn read_while -/
theorem callee_src_offset_local_tz_info_parser_rs_fn_read_while : C05_callee_src_offset_local_tz_info_parser_rs_fn_read_while =
    ["<", "F", "Fn(", "&", "u8", "->", "bool", ">", "&", "self", "v1", "F", "->", "Result", "<", "&", "u8", "v2", "Error", ">", "match", "self", "v3", "iter(", "position(", "|", "v4", "|", "!", "f(", "v4", "None", "=>", "self", "read_exact(", "self", "v3", "len(", "Some(", "v5", "=>", "self", "read_exact(", "v5"] := by decide +kernel

/-- callee src/offset/local/tz_info/parser.rs:fn remaining -/
theorem callee_src_offset_local_tz_info_parser_rs_fn_remaining : C05_callee_src_offset_local_tz_info_parser_rs_fn_remaining =
    ["&", "self", "->", "&", "u8", "self", "v1"] := by decide +kernel

/-- callee src/offset/local/tz_info/parser.rs:fn seek_after -/
theorem callee_src_offset_local_tz_info_parser_rs_fn_seek_after : C05_callee_src_offset_local_tz_info_parser_rs_fn_seek_after =
    ["&", "self", "v1", "usize", "->", "Result", "<", "usize", "v2", "Error", ">", "if", "v1", "<", "self", "v3", "return", "Err(", "v2", "Error", "from(", "ErrorKind", "UnexpectedEof", "match", "self", "v4", "get(", "v1", "-", "self", "v3", "..", "Some(", "v4", "=>", "self", "v4", "v4", "self", "v3", "v1", "Ok(", "v1", "v5", "=>", "Err(", "v2", "Error", "from(", "ErrorKind", "UnexpectedEof"] := by decide +kernel

/-- callee src/offset/local/tz_info/rule.rs:fn from_tz_string -/
theorem callee_src_offset_local_tz_info_rule_rs_fn_from_tz_string : C05_callee_src_offset_local_tz_info_rule_rs_fn_from_tz_string =
    ["v1", "&", "u8", "v2", "bool", "->", "Result", "<", "Self", "Error", ">", "v3", "Cursor", "new(", "v1", "v4", "Some(", "parse_name(", "&", "v3", "?", "v5", "parse_offset(", "&", "v3", "?", "if", "v3", "is_empty(", "return", "Ok(", "LocalTimeType", "new(", "-", "v5", "false", "v4", "?", "into(", "v6", "Some(", "parse_name(", "&", "v3", "?", "v7", "match", "v3", "peek(", "Some(", "&", "b','", "=>", "v5", "-", "3600", "Some(", "v8", "=>", "parse_offset(", "&", "v3", "?", "None", "=>", "return", "Err(", "Error", "UnsupportedTzString(", "\"…\"", "if", "v3", "is_empty(", "return", "Err(", "Error", "UnsupportedTzString(", "\"…\"", "v3", "read_tag(", "b\",\"", "?", "let(", "v9", "v10", "RuleDay", "parse(", "&", "v3", "v2", "?", "v3", "read_tag(", "b\",\"", "?", "let(", "v11", "v12", "RuleDay", "parse(", "&", "v3", "v2", "?", "if", "!", "v3", "is_empty(", "return", "Err(", "Error", "InvalidTzString(", "\"…\"", "Ok(", "AlternateTime", "new(", "LocalTimeType", "new(", "-", "v5", "false", "v4", "?", "LocalTimeType", "new(", "-", "v7", "true", "v6", "?", "v9", "v10", "v11", "v12", "?", "into("] := by decide +kernel

/-- callee src/offset/local/tz_info/rule.rs:fn is_leap_year -/
theorem callee_src_offset_local_tz_info_rule_rs_fn_is_leap_year : C05_callee_src_offset_local_tz_info_rule_rs_fn_is_leap_year =
    ["v1", "i32", "->", "bool", "v1", "%", "400", "==", "0", "||", "v1", "%", "4", "==", "0", "&&", "v1", "%", "100", "!=", "0"] := by decide +kernel

/-- callee src/offset/local/tz_info/rule.rs:fn parse_hhmmss -/
theorem callee_src_offset_local_tz_info_rule_rs_fn_parse_hhmmss : C05_callee_src_offset_local_tz_info_rule_rs_fn_parse_hhmmss =
    ["v1", "&", "Cursor", "->", "Result", "<", "i32", "i32", "i32", "Error", ">", "v2", "v1", "read_int(", "?", "v3", "0", "v4", "0", "if", "v1", "read_optional_tag(", "b\":\"", "?", "v3", "v1", "read_int(", "?", "if", "v1", "read_optional_tag(", "b\":\"", "?", "v4", "v1", "read_int(", "?", "Ok(", "v2", "v3", "v4"] := by decide +kernel

/-- callee src/offset/local/tz_info/rule.rs:fn parse_name -/
theorem callee_src_offset_local_tz_info_rule_rs_fn_parse_name : C05_callee_src_offset_local_tz_info_rule_rs_fn_parse_name =
    ["<", ">", "v1", "&", "Cursor", "<", ">", "->", "Result", "<", "&", "u8", "Error", ">", "match", "v1", "peek(", "Some(", "b'<'", "=>", "v2", "=>", "return", "Ok(", "v1", "read_while(", "u8", "v3", "?", "v1", "read_exact(", "1", "?", "v4", "v1", "read_until(", "|", "&", "v5", "|", "v5", "==", "b'>'", "?", "v1", "read_exact(", "1", "?", "Ok(", "v4"] := by decide +kernel

/-- callee src/offset/local/tz_info/rule.rs:fn parse_offset -/
theorem callee_src_offset_local_tz_info_rule_rs_fn_parse_offset : C05_callee_src_offset_local_tz_info_rule_rs_fn_parse_offset =
    ["v1", "&", "Cursor", "->", "Result", "<", "i32", "Error", ">", "let(", "v2", "v3", "v4", "v5", "parse_signed_hhmmss(", "v1", "?", "if!(", "0", "..=", "24", "contains(", "&", "v3", "return", "Err(", "Error", "InvalidTzString(", "\"…\"", "if!(", "0", "..=", "59", "contains(", "&", "v4", "return", "Err(", "Error", "InvalidTzString(", "\"…\"", "if!(", "0", "..=", "59", "contains(", "&", "v5", "return", "Err(", "Error", "InvalidTzString(", "\"…\"", "Ok(", "v2", "*", "v3", "*", "3600", "+", "v4", "*", "60", "+", "v5"] := by decide +kernel

/-- callee src/offset/local/tz_info/rule.rs:fn parse_signed_hhmmss -/
theorem callee_src_offset_local_tz_info_rule_rs_fn_parse_signed_hhmmss : C05_callee_src_offset_local_tz_info_rule_rs_fn_parse_signed_hhmmss =
    ["v1", "&", "Cursor", "->", "Result", "<", "i32", "i32", "i32", "i32", "Error", ">", "v2", "1", "if", "Some(", "&", "v3", "v1", "peek(", "if", "v3", "==", "b'+'", "||", "v3", "==", "b'-'", "v1", "read_exact(", "1", "?", "if", "v3", "==", "b'-'", "v2", "-", "1", "let(", "v4", "v5", "v6", "parse_hhmmss(", "v1", "?", "Ok(", "v2", "v4", "v5", "v6"] := by decide +kernel

/-- callee src/offset/local/tz_info/timezone.rs:fn find_ohos_tz_data -/
theorem callee_src_offset_local_tz_info_timezone_rs_fn_find_ohos_tz_data : C05_callee_src_offset_local_tz_info_timezone_rs_fn_find_ohos_tz_data =
    ["v1", "&", "str", "->", "Result", "<", "Vec", "<", "u8", ">", "Error", ">", "TZDATA_PATH", "&", "str", "\"…\"", "match", "File", "open(", "TZDATA_PATH", "Ok(", "v2", "=>", "from_tzdata_file(", "&", "v2", "v1", "Err(", "v3", "=>", "Err(", "v3", "into("] := by decide +kernel

/-- callee src/offset/local/tz_info/timezone.rs:fn find_tz_file -/
theorem callee_src_offset_local_tz_info_timezone_rs_fn_find_tz_file : C05_callee_src_offset_local_tz_info_timezone_rs_fn_find_tz_file =
    ["v1", "AsRef", "<", "Path", ">", "->", "Result", "<", "File", "Error", ">", "return", "Ok(", "File", "open(", "v1", "?", "v1", "v1", "as_ref(", "if", "v1", "is_absolute(", "return", "Ok(", "File", "open(", "v1", "?", "for", "v2", "in", "&", "ZONE_INFO_DIRECTORIES", "if", "Ok(", "v3", "File", "open(", "PathBuf", "from(", "v2", "join(", "v1", "return", "Ok(", "v3", "Err(", "Error", "Io(", "v4", "ErrorKind", "NotFound", "into("] := by decide +kernel

/-- callee src/offset/local/tz_info/timezone.rs:fn from_file -/
theorem callee_src_offset_local_tz_info_timezone_rs_fn_from_file : C05_callee_src_offset_local_tz_info_timezone_rs_fn_from_file =
    ["v1", "&", "File", "->", "Result", "<", "Self", "Error", ">", "v2", "Vec", "new(", "v1", "read_to_end(", "&", "v2", "?", "Self", "from_tz_data(", "&", "v2"] := by decide +kernel

/-- callee src/offset/local/tz_info/timezone.rs:fn from_posix_tz -/
theorem callee_src_offset_local_tz_info_timezone_rs_fn_from_posix_tz : C05_callee_src_offset_local_tz_info_timezone_rs_fn_from_posix_tz =
    ["v1", "&", "str", "->", "Result", "<", "Self", "Error", ">", "if", "v1", "is_empty(", "return", "Ok(", "Self", "utc(", "if", "v1", "==", "\"localtime\"", "return", "Self", "from_tz_data(", "&", "v2", "read(", "\"…\"", "?", "if", "Ok(", "v3", "v4", "find_tz_data(", "v1", "return", "Self", "from_tz_data(", "&", "v3", "return", "Self", "from_tz_data(", "&", "find_ohos_tz_data(", "v1", "?", "v5", "v1", "chars(", "if", "v5", "next(", "==", "Some(", "':'", "return", "Self", "from_file(", "&", "find_tz_file(", "v5", "as_str(", "?", "if", "Ok(", "v6", "find_tz_file(", "v1", "return", "Self", "from_file(", "&", "v6", "v1", "v1", "trim_matches(", "|", "v7", "char", "|", "v7", "is_ascii_whitespace(", "v8", "TransitionRule", "from_tz_string(", "v1", "as_bytes(", "false", "?", "Self", "new(", "v9", "!", "match", "v8", "TransitionRule", "Fixed(", "v10", "=>", "v9", "!", "v10", "TransitionRule", "Alternate(", "AlternateTime", "v11", "v12", "..", "=>", "v9", "!", "v11", "v12", "v9", "!", "Some(", "v8"] := by decide +kernel

/-- callee src/offset/local/tz_info/timezone.rs:fn from_tz_data -/
theorem callee_src_offset_local_tz_info_timezone_rs_fn_from_tz_data : C05_callee_src_offset_local_tz_info_timezone_rs_fn_from_tz_data =
    ["v1", "&", "u8", "->", "Result", "<", "Self", "Error", ">", "v2", "parse(", "v1"] := by decide +kernel

/-- callee src/offset/local/tz_info/timezone.rs:fn from_tzdata_bytes -/
theorem callee_src_offset_local_tz_info_timezone_rs_fn_from_tzdata_bytes : C05_callee_src_offset_local_tz_info_timezone_rs_fn_from_tzdata_bytes =
    ["v1", "&", "Vec", "<", "u8", ">", "v2", "&", "str", "->", "Result", "<", "Vec", "<", "u8", ">", "Error", ">", "VERSION_SIZE", "usize", "12", "OFFSET_SIZE", "usize", "4", "INDEX_CHUNK_SIZE", "usize", "48", "ZONENAME_SIZE", "usize", "40", "v3", "Cursor", "new(", "&", "v1", "v4", "v3", "read_exact(", "VERSION_SIZE", "?", "v5", "v3", "read_be_u32(", "?", "v6", "v3", "read_be_u32(", "?", "v4", "v3", "read_be_u32(", "?", "v3", "seek_after(", "v5", "as", "usize", "?", "v7", "v5", "while", "v7", "<", "v6", "v8", "v3", "read_exact(", "ZONENAME_SIZE", "?", "v9", "v3", "read_be_u32(", "?", "v10", "v3", "read_be_u32(", "?", "v11", "str", "from_utf8(", "v8", "?", "trim_end_matches(", "'\\0'", "if", "v11", "!=", "v2", "v7", "+=", "INDEX_CHUNK_SIZE", "as", "u32", "continue", "v3", "seek_after(", "v6", "+", "v9", "as", "usize", "?", "return", "match", "v3", "read_exact(", "v10", "as", "usize", "Ok(", "v12", "=>", "Ok(", "v12", "to_vec(", "Err(", "v13", "=>", "Err(", "Error", "InvalidTzFile(", "\"…\"", "Err(", "Error", "InvalidTzString(", "\"…\""] := by decide +kernel

/-- callee src/offset/local/tz_info/timezone.rs:fn from_tzdata_file -/
theorem callee_src_offset_local_tz_info_timezone_rs_fn_from_tzdata_file : C05_callee_src_offset_local_tz_info_timezone_rs_fn_from_tzdata_file =
    ["v1", "&", "File", "v2", "&", "str", "->", "Result", "<", "Vec", "<", "u8", ">", "Error", ">", "v3", "Vec", "new(", "v1", "read_to_end(", "&", "v3", "?", "from_tzdata_bytes(", "&", "v3", "v2"] := by decide +kernel

/-- callee src/offset/local/tz_info/timezone.rs:fn local -/
theorem callee_src_offset_local_tz_info_timezone_rs_fn_local : C05_callee_src_offset_local_tz_info_timezone_rs_fn_local =
    ["v1", "Option", "<", "&", "str", ">", "->", "Result", "<", "Self", "Error", ">", "match", "v1", "Some(", "v2", "=>", "Self", "from_posix_tz(", "v2", "None", "=>", "Self", "from_posix_tz(", "\"localtime\""] := by decide +kernel

/-- callee src/offset/local/tz_info/timezone.rs:fn unix_time_to_unix_leap_time -/
theorem callee_src_offset_local_tz_info_timezone_rs_fn_unix_time_to_unix_leap_time : C05_callee_src_offset_local_tz_info_timezone_rs_fn_unix_time_to_unix_leap_time =
    ["&", "self", "v1", "i64", "->", "Result", "<", "i64", "Error", ">", "v2", "v1", "v3", "0", "while", "v3", "<", "self", "v4", "len(", "v5", "&", "self", "v4", "v3", "if", "v2", "<", "v5", "v2", "break", "v2", "match", "v1", "checked_add(", "v5", "v6", "as", "i64", "Some(", "v2", "=>", "v2", "None", "=>", "return", "Err(", "Error", "OutOfRange(", "\"…\"", "v3", "+=", "1", "Ok(", "v2"] := by decide +kernel

/-- callee src/offset/local/tz_info/timezone.rs:fn utc -/
theorem callee_src_offset_local_tz_info_timezone_rs_fn_utc : C05_callee_src_offset_local_tz_info_timezone_rs_fn_utc =
    ["->", "Self", "Self", "v1", "Vec", "new(", "v2", "v3", "!", "LocalTimeType", "UTC", "v4", "Vec", "new(", "v5", "None"] := by decide +kernel

/-- callee src/offset/local/unix.rs:fn current_zone -/
theorem callee_src_offset_local_unix_rs_fn_current_zone : C05_callee_src_offset_local_unix_rs_fn_current_zone =
    ["v1", "Option", "<", "&", "str", ">", "->", "TimeZone", "TimeZone", "local(", "v1", "ok(", "or_else(", "v2", "unwrap_or_else(", "TimeZone", "v3"] := by decide +kernel

/-- callee src/offset/mod.rs:fn earliest -/
theorem callee_src_offset_mod_rs_fn_earliest : C05_callee_src_offset_mod_rs_fn_earliest =
    ["self", "->", "Option", "<", "T", ">", "match", "self", "MappedLocalTime", "Single(", "v1", "|", "MappedLocalTime", "Ambiguous(", "v1", "v2", "=>", "Some(", "v1", "v2", "=>", "None"] := by decide +kernel

/-- callee src/offset/mod.rs:fn latest -/
theorem callee_src_offset_mod_rs_fn_latest : C05_callee_src_offset_mod_rs_fn_latest =
    ["self", "->", "Option", "<", "T", ">", "match", "self", "MappedLocalTime", "Single(", "v1", "|", "MappedLocalTime", "Ambiguous(", "v2", "v1", "=>", "Some(", "v1", "v2", "=>", "None"] := by decide +kernel

end Chrono.Pins.C05
