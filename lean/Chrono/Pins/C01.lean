/-
  PINS of property C01: the decision tokens of every item the property is anchored in
  (properties.jsonl `anchors` + tools/anchor_extra.json), as they were in /repo at 32de816 when the
  model was validated against the source.  Written by tools/pin_anchors.py; the right-hand sides are
  compared by the kernel with lean/Chrono/Extracted/Anchors.lean, which tools/extractors/anchors.py
  regenerates from /repo's working tree on every check.  A theorem that fails here means: anchored
  code changed; the hand-written model may no longer mirror it.
-/
import Chrono.Extracted.Anchors
namespace Chrono.Pins.C01
open Chrono.Extracted.Anchors

/-- src/naive/date/mod.rs:const MAX -/
theorem src_naive_date_mod_rs_const_MAX : C01_src_naive_date_mod_rs_const_MAX =
    ["NaiveDate", "NaiveDate", "from_yof(", "MAX_YEAR", "<<", "13", "|", "365", "<<", "4", "|", "14", "/", "*", "G", "*", "/"] := by decide +kernel

/-- src/naive/date/mod.rs:const MAX_YEAR -/
theorem src_naive_date_mod_rs_const_MAX_YEAR : C01_src_naive_date_mod_rs_const_MAX_YEAR =
    ["i32", "i32", "MAX", ">>", "13", "-", "1"] := by decide +kernel

/-- src/naive/date/mod.rs:const MIN -/
theorem src_naive_date_mod_rs_const_MIN : C01_src_naive_date_mod_rs_const_MIN =
    ["NaiveDate", "NaiveDate", "from_yof(", "MIN_YEAR", "<<", "13", "|", "1", "<<", "4", "|", "10", "/", "*", "D", "*", "/"] := by decide +kernel

/-- src/naive/date/mod.rs:const MIN_YEAR -/
theorem src_naive_date_mod_rs_const_MIN_YEAR : C01_src_naive_date_mod_rs_const_MIN_YEAR =
    ["i32", "i32", "MIN", ">>", "13", "+", "1"] := by decide +kernel

/-- src/naive/date/mod.rs:const YEAR_DELTAS -/
theorem src_naive_date_mod_rs_const_YEAR_DELTAS : C01_src_naive_date_mod_rs_const_YEAR_DELTAS =
    ["&", "u8", "401", "&", "0", "1", "1", "1", "1", "2", "2", "2", "2", "3", "3", "3", "3", "4", "4", "4", "4", "5", "5", "5", "5", "6", "6", "6", "6", "7", "7", "7", "7", "8", "8", "8", "8", "9", "9", "9", "9", "10", "10", "10", "10", "11", "11", "11", "11", "12", "12", "12", "12", "13", "13", "13", "13", "14", "14", "14", "14", "15", "15", "15", "15", "16", "16", "16", "16", "17", "17", "17", "17", "18", "18", "18", "18", "19", "19", "19", "19", "20", "20", "20", "20", "21", "21", "21", "21", "22", "22", "22", "22", "23", "23", "23", "23", "24", "24", "24", "24", "25", "25", "25", "25", "25", "25", "25", "25", "26", "26", "26", "26", "27", "27", "27", "27", "28", "28", "28", "28", "29", "29", "29", "29", "30", "30", "30", "30", "31", "31", "31", "31", "32", "32", "32", "32", "33", "33", "33", "33", "34", "34", "34", "34", "35", "35", "35", "35", "36", "36", "36", "36", "37", "37", "37", "37", "38", "38", "38", "38", "39", "39", "39", "39", "40", "40", "40", "40", "41", "41", "41", "41", "42", "42", "42", "42", "43", "43", "43", "43", "44", "44", "44", "44", "45", "45", "45", "45", "46", "46", "46", "46", "47", "47", "47", "47", "48", "48", "48", "48", "49", "49", "49", "49", "49", "49", "49", "49", "50", "50", "50", "50", "51", "51", "51", "51", "52", "52", "52", "52", "53", "53", "53", "53", "54", "54", "54", "54", "55", "55", "55", "55", "56", "56", "56", "56", "57", "57", "57", "57", "58", "58", "58", "58", "59", "59", "59", "59", "60", "60", "60", "60", "61", "61", "61", "61", "62", "62", "62", "62", "63", "63", "63", "63", "64", "64", "64", "64", "65", "65", "65", "65", "66", "66", "66", "66", "67", "67", "67", "67", "68", "68", "68", "68", "69", "69", "69", "69", "70", "70", "70", "70", "71", "71", "71", "71", "72", "72", "72", "72", "73", "73", "73", "73", "73", "73", "73", "73", "74", "74", "74", "74", "75", "75", "75", "75", "76", "76", "76", "76", "77", "77", "77", "77", "78", "78", "78", "78", "79", "79", "79", "79", "80", "80", "80", "80", "81", "81", "81", "81", "82", "82", "82", "82", "83", "83", "83", "83", "84", "84", "84", "84", "85", "85", "85", "85", "86", "86", "86", "86", "87", "87", "87", "87", "88", "88", "88", "88", "89", "89", "89", "89", "90", "90", "90", "90", "91", "91", "91", "91", "92", "92", "92", "92", "93", "93", "93", "93", "94", "94", "94", "94", "95", "95", "95", "95", "96", "96", "96", "96", "97", "97", "97", "97"] := by decide +kernel

/-- src/naive/date/mod.rs:fn cycle_to_yo -/
theorem src_naive_date_mod_rs_fn_cycle_to_yo : C01_src_naive_date_mod_rs_fn_cycle_to_yo =
    ["v1", "u32", "->", "u32", "u32", "v2", "v1", "/", "365", "v3", "v1", "%", "365", "v4", "YEAR_DELTAS", "v2", "as", "usize", "as", "u32", "if", "v3", "<", "v4", "v2", "-=", "1", "v3", "+=", "365", "-", "YEAR_DELTAS", "v2", "as", "usize", "as", "u32", "else", "v3", "-=", "v4", "v2", "v3", "+", "1"] := by decide +kernel

/-- src/naive/date/mod.rs:fn day0 -/
theorem src_naive_date_mod_rs_fn_day0 : C01_src_naive_date_mod_rs_fn_day0 =
    ["&", "self", "->", "u32", "self", "mdf(", "day(", "-", "1"] := by decide +kernel

/-- src/naive/date/mod.rs:fn from_isoywd_opt -/
theorem src_naive_date_mod_rs_fn_from_isoywd_opt : C01_src_naive_date_mod_rs_fn_from_isoywd_opt =
    ["v1", "i32", "v2", "u32", "v3", "Weekday", "->", "Option", "<", "NaiveDate", ">", "v4", "YearFlags", "from_year(", "v1", "v5", "v4", "nisoweeks(", "if", "v2", "==", "0", "||", "v2", ">", "v5", "return", "None", "v6", "v2", "*", "7", "+", "v3", "as", "u32", "v7", "v4", "isoweek_delta(", "let(", "v1", "v8", "v4", "if", "v6", "<=", "v7", "v9", "try_opt!(", "v1", "checked_sub(", "1", "v10", "YearFlags", "from_year(", "v9", "v9", "v6", "+", "v10", "ndays(", "-", "v7", "v10", "else", "v8", "v6", "-", "v7", "v11", "v4", "ndays(", "if", "v8", "<=", "v11", "v1", "v8", "v4", "else", "v12", "try_opt!(", "v1", "checked_add(", "1", "v13", "YearFlags", "from_year(", "v12", "v12", "v8", "-", "v11", "v13", "NaiveDate", "from_ordinal_and_flags(", "v1", "v8", "v4"] := by decide +kernel

/-- src/naive/date/mod.rs:fn from_mdf -/
theorem src_naive_date_mod_rs_fn_from_mdf : C01_src_naive_date_mod_rs_fn_from_mdf =
    ["v1", "i32", "v2", "Mdf", "->", "Option", "<", "NaiveDate", ">", "if", "v1", "<", "MIN_YEAR", "||", "v1", ">", "MAX_YEAR", "return", "None", "Some(", "NaiveDate", "from_yof(", "v1", "<<", "13", "|", "try_opt!(", "v2", "ordinal_and_flags("] := by decide +kernel

/-- src/naive/date/mod.rs:fn from_num_days_from_ce_opt -/
theorem src_naive_date_mod_rs_fn_from_num_days_from_ce_opt : C01_src_naive_date_mod_rs_fn_from_num_days_from_ce_opt =
    ["v1", "i32", "->", "Option", "<", "NaiveDate", ">", "v1", "try_opt!(", "v1", "checked_add(", "365", "v2", "v1", "div_euclid(", "146097", "v3", "v1", "rem_euclid(", "146097", "let(", "v4", "v5", "cycle_to_yo(", "v3", "as", "u32", "v6", "YearFlags", "from_year_mod_400(", "v4", "as", "i32", "NaiveDate", "from_ordinal_and_flags(", "v2", "*", "400", "+", "v4", "as", "i32", "v5", "v6"] := by decide +kernel

/-- src/naive/date/mod.rs:fn from_ordinal_and_flags -/
theorem src_naive_date_mod_rs_fn_from_ordinal_and_flags : C01_src_naive_date_mod_rs_fn_from_ordinal_and_flags =
    ["v1", "i32", "v2", "u32", "v3", "YearFlags", "->", "Option", "<", "NaiveDate", ">", "if", "v1", "<", "MIN_YEAR", "||", "v1", ">", "MAX_YEAR", "return", "None", "if", "v2", "==", "0", "||", "v2", ">", "366", "return", "None", "debug_assert!(", "YearFlags", "from_year(", "v1", "==", "v3", "v4", "v1", "<<", "13", "|", "v2", "<<", "4", "as", "i32", "|", "v3", "as", "i32", "match", "v4", "&", "OL_MASK", "<=", "MAX_OL", "true", "=>", "Some(", "NaiveDate", "from_yof(", "v4", "false", "=>", "None"] := by decide +kernel

/-- src/naive/date/mod.rs:fn from_ymd_opt -/
theorem src_naive_date_mod_rs_fn_from_ymd_opt : C01_src_naive_date_mod_rs_fn_from_ymd_opt =
    ["v1", "i32", "v2", "u32", "v3", "u32", "->", "Option", "<", "NaiveDate", ">", "v4", "YearFlags", "from_year(", "v1", "if", "Some(", "v5", "Mdf", "new(", "v2", "v3", "v4", "NaiveDate", "from_mdf(", "v1", "v5", "else", "None"] := by decide +kernel

/-- src/naive/date/mod.rs:fn from_yo_opt -/
theorem src_naive_date_mod_rs_fn_from_yo_opt : C01_src_naive_date_mod_rs_fn_from_yo_opt =
    ["v1", "i32", "v2", "u32", "->", "Option", "<", "NaiveDate", ">", "v3", "YearFlags", "from_year(", "v1", "NaiveDate", "from_ordinal_and_flags(", "v1", "v2", "v3"] := by decide +kernel

/-- src/naive/date/mod.rs:fn iso_week -/
theorem src_naive_date_mod_rs_fn_iso_week : C01_src_naive_date_mod_rs_fn_iso_week =
    ["&", "self", "->", "IsoWeek", "IsoWeek", "from_yof(", "self", "year(", "self", "ordinal(", "self", "year_flags("] := by decide +kernel

/-- src/naive/date/mod.rs:fn leap_year -/
theorem src_naive_date_mod_rs_fn_leap_year : C01_src_naive_date_mod_rs_fn_leap_year =
    ["&", "self", "->", "bool", "self", "yof(", "&", "8", "==", "0"] := by decide +kernel

/-- src/naive/date/mod.rs:fn mdf -/
theorem src_naive_date_mod_rs_fn_mdf : C01_src_naive_date_mod_rs_fn_mdf =
    ["&", "self", "->", "Mdf", "Mdf", "from_ol(", "self", "yof(", "&", "OL_MASK", ">>", "3", "self", "year_flags("] := by decide +kernel

/-- src/naive/date/mod.rs:fn month0 -/
theorem src_naive_date_mod_rs_fn_month0 : C01_src_naive_date_mod_rs_fn_month0 =
    ["&", "self", "->", "u32", "self", "month(", "-", "1"] := by decide +kernel

/-- src/naive/date/mod.rs:fn num_days_from_ce -/
theorem src_naive_date_mod_rs_fn_num_days_from_ce : C01_src_naive_date_mod_rs_fn_num_days_from_ce =
    ["&", "self", "->", "i32", "v1", "self", "year(", "-", "1", "v2", "0", "if", "v1", "<", "0", "v3", "1", "+", "-", "v1", "/", "400", "v1", "+=", "v3", "*", "400", "v2", "-=", "v3", "*", "146097", "v4", "v1", "/", "100", "v2", "+=", "v1", "*", "1461", ">>", "2", "-", "v4", "+", "v4", ">>", "2", "v2", "+", "self", "ordinal(", "as", "i32"] := by decide +kernel

/-- src/naive/date/mod.rs:fn ordinal0 -/
theorem src_naive_date_mod_rs_fn_ordinal0 : C01_src_naive_date_mod_rs_fn_ordinal0 =
    ["&", "self", "->", "u32", "self", "ordinal(", "-", "1"] := by decide +kernel

/-- src/naive/date/mod.rs:fn pred_opt -/
theorem src_naive_date_mod_rs_fn_pred_opt : C01_src_naive_date_mod_rs_fn_pred_opt =
    ["&", "self", "->", "Option", "<", "NaiveDate", ">", "v1", "self", "yof(", "&", "ORDINAL_MASK", "-", "1", "<<", "4", "match", "v1", ">", "0", "true", "=>", "Some(", "NaiveDate", "from_yof(", "self", "yof(", "&", "!", "ORDINAL_MASK", "|", "v1", "false", "=>", "NaiveDate", "from_ymd_opt(", "self", "year(", "-", "1", "12", "31"] := by decide +kernel

/-- src/naive/date/mod.rs:fn succ_opt -/
theorem src_naive_date_mod_rs_fn_succ_opt : C01_src_naive_date_mod_rs_fn_succ_opt =
    ["&", "self", "->", "Option", "<", "NaiveDate", ">", "v1", "self", "yof(", "&", "OL_MASK", "+", "1", "<<", "4", "match", "v1", "<=", "MAX_OL", "true", "=>", "Some(", "NaiveDate", "from_yof(", "self", "yof(", "&", "!", "OL_MASK", "|", "v1", "false", "=>", "NaiveDate", "from_yo_opt(", "self", "year(", "+", "1", "1"] := by decide +kernel

/-- src/naive/date/mod.rs:fn weekday -/
theorem src_naive_date_mod_rs_fn_weekday : C01_src_naive_date_mod_rs_fn_weekday =
    ["&", "self", "->", "Weekday", "match(", "self", "yof(", "&", "ORDINAL_MASK", ">>", "4", "+", "self", "yof(", "&", "WEEKDAY_FLAGS_MASK", "%", "7", "0", "=>", "Weekday", "Mon", "1", "=>", "Weekday", "Tue", "2", "=>", "Weekday", "Wed", "3", "=>", "Weekday", "Thu", "4", "=>", "Weekday", "Fri", "5", "=>", "Weekday", "Sat", "v1", "=>", "Weekday", "Sun", "§", "&", "self", "->", "Weekday", "self", "weekday("] := by decide +kernel

/-- src/naive/date/mod.rs:fn yo_to_cycle -/
theorem src_naive_date_mod_rs_fn_yo_to_cycle : C01_src_naive_date_mod_rs_fn_yo_to_cycle =
    ["v1", "u32", "v2", "u32", "->", "u32", "v1", "*", "365", "+", "YEAR_DELTAS", "v1", "as", "usize", "as", "u32", "+", "v2", "-", "1"] := by decide +kernel

/-- src/naive/internals.rs:const MDL_TO_OL -/
theorem src_naive_internals_rs_const_MDL_TO_OL : C01_src_naive_internals_rs_const_MDL_TO_OL =
    ["&", "i8", "MAX_MDL", "as", "usize", "+", "1", "&", "XX", "XX", "XX", "XX", "XX", "XX", "XX", "XX", "XX", "XX", "XX", "XX", "XX", "XX", "XX", "XX", "XX", "XX", "XX", "XX", "XX", "XX", "XX", "XX", "XX", "XX", "XX", "XX", "XX", "XX", "XX", "XX", "XX", "XX", "XX", "XX", "XX", "XX", "XX", "XX", "XX", "XX", "XX", "XX", "XX", "XX", "XX", "XX", "XX", "XX", "XX", "XX", "XX", "XX", "XX", "XX", "XX", "XX", "XX", "XX", "XX", "XX", "XX", "XX", "XX", "XX", "64", "64", "64", "64", "64", "64", "64", "64", "64", "64", "64", "64", "64", "64", "64", "64", "64", "64", "64", "64", "64", "64", "64", "64", "64", "64", "64", "64", "64", "64", "64", "64", "64", "64", "64", "64", "64", "64", "64", "64", "64", "64", "64", "64", "64", "64", "64", "64", "64", "64", "64", "64", "64", "64", "64", "64", "64", "64", "64", "64", "64", "64", "XX", "XX", "66", "66", "66", "66", "66", "66", "66", "66", "66", "66", "66", "66", "66", "66", "66", "66", "66", "66", "66", "66", "66", "66", "66", "66", "66", "66", "66", "66", "66", "66", "66", "66", "66", "66", "66", "66", "66", "66", "66", "66", "66", "66", "66", "66", "66", "66", "66", "66", "66", "66", "66", "66", "66", "66", "66", "66", "66", "XX", "XX", "XX", "XX", "XX", "XX", "XX", "72", "74", "72", "74", "72", "74", "72", "74", "72", "74", "72", "74", "72", "74", "72", "74", "72", "74", "72", "74", "72", "74", "72", "74", "72", "74", "72", "74", "72", "74", "72", "74", "72", "74", "72", "74", "72", "74", "72", "74", "72", "74", "72", "74", "72", "74", "72", "74", "72", "74", "72", "74", "72", "74", "72", "74", "72", "74", "72", "74", "72", "74", "XX", "XX", "74", "76", "74", "76", "74", "76", "74", "76", "74", "76", "74", "76", "74", "76", "74", "76", "74", "76", "74", "76", "74", "76", "74", "76", "74", "76", "74", "76", "74", "76", "74", "76", "74", "76", "74", "76", "74", "76", "74", "76", "74", "76", "74", "76", "74", "76", "74", "76", "74", "76", "74", "76", "74", "76", "74", "76", "74", "76", "74", "76", "XX", "XX", "XX", "XX", "78", "80", "78", "80", "78", "80", "78", "80", "78", "80", "78", "80", "78", "80", "78", "80", "78", "80", "78", "80", "78", "80", "78", "80", "78", "80", "78", "80", "78", "80", "78", "80", "78", "80", "78", "80", "78", "80", "78", "80", "78", "80", "78", "80", "78", "80", "78", "80", "78", "80", "78", "80", "78", "80", "78", "80", "78", "80", "78", "80", "78", "80", "XX", "XX", "80", "82", "80", "82", "80", "82", "80", "82", "80", "82", "80", "82", "80", "82", "80", "82", "80", "82", "80", "82", "80", "82", "80", "82", "80", "82", "80", "82", "80", "82", "80", "82", "80", "82", "80", "82", "80", "82", "80", "82", "80", "82", "80", "82", "80", "82", "80", "82", "80", "82", "80", "82", "80", "82", "80", "82", "80", "82", "80", "82", "XX", "XX", "XX", "XX", "84", "86", "84", "86", "84", "86", "84", "86", "84", "86", "84", "86", "84", "86", "84", "86", "84", "86", "84", "86", "84", "86", "84", "86", "84", "86", "84", "86", "84", "86", "84", "86", "84", "86", "84", "86", "84", "86", "84", "86", "84", "86", "84", "86", "84", "86", "84", "86", "84", "86", "84", "86", "84", "86", "84", "86", "84", "86", "84", "86", "84", "86", "XX", "XX", "86", "88", "86", "88", "86", "88", "86", "88", "86", "88", "86", "88", "86", "88", "86", "88", "86", "88", "86", "88", "86", "88", "86", "88", "86", "88", "86", "88", "86", "88", "86", "88", "86", "88", "86", "88", "86", "88", "86", "88", "86", "88", "86", "88", "86", "88", "86", "88", "86", "88", "86", "88", "86", "88", "86", "88", "86", "88", "86", "88", "86", "88", "XX", "XX", "88", "90", "88", "90", "88", "90", "88", "90", "88", "90", "88", "90", "88", "90", "88", "90", "88", "90", "88", "90", "88", "90", "88", "90", "88", "90", "88", "90", "88", "90", "88", "90", "88", "90", "88", "90", "88", "90", "88", "90", "88", "90", "88", "90", "88", "90", "88", "90", "88", "90", "88", "90", "88", "90", "88", "90", "88", "90", "88", "90", "XX", "XX", "XX", "XX", "92", "94", "92", "94", "92", "94", "92", "94", "92", "94", "92", "94", "92", "94", "92", "94", "92", "94", "92", "94", "92", "94", "92", "94", "92", "94", "92", "94", "92", "94", "92", "94", "92", "94", "92", "94", "92", "94", "92", "94", "92", "94", "92", "94", "92", "94", "92", "94", "92", "94", "92", "94", "92", "94", "92", "94", "92", "94", "92", "94", "92", "94", "XX", "XX", "94", "96", "94", "96", "94", "96", "94", "96", "94", "96", "94", "96", "94", "96", "94", "96", "94", "96", "94", "96", "94", "96", "94", "96", "94", "96", "94", "96", "94", "96", "94", "96", "94", "96", "94", "96", "94", "96", "94", "96", "94", "96", "94", "96", "94", "96", "94", "96", "94", "96", "94", "96", "94", "96", "94", "96", "94", "96", "94", "96", "XX", "XX", "XX", "XX", "98", "100", "98", "100", "98", "100", "98", "100", "98", "100", "98", "100", "98", "100", "98", "100", "98", "100", "98", "100", "98", "100", "98", "100", "98", "100", "98", "100", "98", "100", "98", "100", "98", "100", "98", "100", "98", "100", "98", "100", "98", "100", "98", "100", "98", "100", "98", "100", "98", "100", "98", "100", "98", "100", "98", "100", "98", "100", "98", "100", "98", "100"] := by decide +kernel

/-- src/naive/internals.rs:const OL_TO_MDL -/
theorem src_naive_internals_rs_const_OL_TO_MDL : C01_src_naive_internals_rs_const_OL_TO_MDL =
    ["&", "u8", "MAX_OL", "as", "usize", "+", "1", "&", "0", "0", "64", "64", "64", "64", "64", "64", "64", "64", "64", "64", "64", "64", "64", "64", "64", "64", "64", "64", "64", "64", "64", "64", "64", "64", "64", "64", "64", "64", "64", "64", "64", "64", "64", "64", "64", "64", "64", "64", "64", "64", "64", "64", "64", "64", "64", "64", "64", "64", "64", "64", "64", "64", "64", "64", "64", "64", "64", "64", "64", "64", "64", "64", "66", "66", "66", "66", "66", "66", "66", "66", "66", "66", "66", "66", "66", "66", "66", "66", "66", "66", "66", "66", "66", "66", "66", "66", "66", "66", "66", "66", "66", "66", "66", "66", "66", "66", "66", "66", "66", "66", "66", "66", "66", "66", "66", "66", "66", "66", "66", "66", "66", "66", "66", "66", "66", "66", "66", "66", "66", "74", "72", "74", "72", "74", "72", "74", "72", "74", "72", "74", "72", "74", "72", "74", "72", "74", "72", "74", "72", "74", "72", "74", "72", "74", "72", "74", "72", "74", "72", "74", "72", "74", "72", "74", "72", "74", "72", "74", "72", "74", "72", "74", "72", "74", "72", "74", "72", "74", "72", "74", "72", "74", "72", "74", "72", "74", "72", "74", "72", "74", "72", "76", "74", "76", "74", "76", "74", "76", "74", "76", "74", "76", "74", "76", "74", "76", "74", "76", "74", "76", "74", "76", "74", "76", "74", "76", "74", "76", "74", "76", "74", "76", "74", "76", "74", "76", "74", "76", "74", "76", "74", "76", "74", "76", "74", "76", "74", "76", "74", "76", "74", "76", "74", "76", "74", "76", "74", "76", "74", "76", "74", "80", "78", "80", "78", "80", "78", "80", "78", "80", "78", "80", "78", "80", "78", "80", "78", "80", "78", "80", "78", "80", "78", "80", "78", "80", "78", "80", "78", "80", "78", "80", "78", "80", "78", "80", "78", "80", "78", "80", "78", "80", "78", "80", "78", "80", "78", "80", "78", "80", "78", "80", "78", "80", "78", "80", "78", "80", "78", "80", "78", "80", "78", "82", "80", "82", "80", "82", "80", "82", "80", "82", "80", "82", "80", "82", "80", "82", "80", "82", "80", "82", "80", "82", "80", "82", "80", "82", "80", "82", "80", "82", "80", "82", "80", "82", "80", "82", "80", "82", "80", "82", "80", "82", "80", "82", "80", "82", "80", "82", "80", "82", "80", "82", "80", "82", "80", "82", "80", "82", "80", "82", "80", "86", "84", "86", "84", "86", "84", "86", "84", "86", "84", "86", "84", "86", "84", "86", "84", "86", "84", "86", "84", "86", "84", "86", "84", "86", "84", "86", "84", "86", "84", "86", "84", "86", "84", "86", "84", "86", "84", "86", "84", "86", "84", "86", "84", "86", "84", "86", "84", "86", "84", "86", "84", "86", "84", "86", "84", "86", "84", "86", "84", "86", "84", "88", "86", "88", "86", "88", "86", "88", "86", "88", "86", "88", "86", "88", "86", "88", "86", "88", "86", "88", "86", "88", "86", "88", "86", "88", "86", "88", "86", "88", "86", "88", "86", "88", "86", "88", "86", "88", "86", "88", "86", "88", "86", "88", "86", "88", "86", "88", "86", "88", "86", "88", "86", "88", "86", "88", "86", "88", "86", "88", "86", "88", "86", "90", "88", "90", "88", "90", "88", "90", "88", "90", "88", "90", "88", "90", "88", "90", "88", "90", "88", "90", "88", "90", "88", "90", "88", "90", "88", "90", "88", "90", "88", "90", "88", "90", "88", "90", "88", "90", "88", "90", "88", "90", "88", "90", "88", "90", "88", "90", "88", "90", "88", "90", "88", "90", "88", "90", "88", "90", "88", "90", "88", "94", "92", "94", "92", "94", "92", "94", "92", "94", "92", "94", "92", "94", "92", "94", "92", "94", "92", "94", "92", "94", "92", "94", "92", "94", "92", "94", "92", "94", "92", "94", "92", "94", "92", "94", "92", "94", "92", "94", "92", "94", "92", "94", "92", "94", "92", "94", "92", "94", "92", "94", "92", "94", "92", "94", "92", "94", "92", "94", "92", "94", "92", "96", "94", "96", "94", "96", "94", "96", "94", "96", "94", "96", "94", "96", "94", "96", "94", "96", "94", "96", "94", "96", "94", "96", "94", "96", "94", "96", "94", "96", "94", "96", "94", "96", "94", "96", "94", "96", "94", "96", "94", "96", "94", "96", "94", "96", "94", "96", "94", "96", "94", "96", "94", "96", "94", "96", "94", "96", "94", "96", "94", "100", "98", "100", "98", "100", "98", "100", "98", "100", "98", "100", "98", "100", "98", "100", "98", "100", "98", "100", "98", "100", "98", "100", "98", "100", "98", "100", "98", "100", "98", "100", "98", "100", "98", "100", "98", "100", "98", "100", "98", "100", "98", "100", "98", "100", "98", "100", "98", "100", "98", "100", "98", "100", "98", "100", "98", "100", "98", "100", "98", "100", "98"] := by decide +kernel

/-- src/naive/internals.rs:fn from_ol -/
theorem src_naive_internals_rs_fn_from_ol : C01_src_naive_internals_rs_fn_from_ol =
    ["v1", "i32", "YearFlags(", "v2", "YearFlags", "->", "Mdf", "debug_assert!(", "v1", ">", "1", "&&", "v1", "<=", "MAX_OL", "as", "i32", "Mdf(", "v1", "as", "u32", "+", "OL_TO_MDL", "v1", "as", "usize", "as", "u32", "<<", "3", "|", "v2", "as", "u32"] := by decide +kernel

/-- src/naive/internals.rs:fn isoweek_delta -/
theorem src_naive_internals_rs_fn_isoweek_delta : C01_src_naive_internals_rs_fn_isoweek_delta =
    ["&", "self", "->", "u32", "YearFlags(", "v1", "*", "self", "v2", "v1", "&", "7", "as", "u32", "if", "v2", "<", "3", "v2", "+=", "7", "v2"] := by decide +kernel

/-- src/naive/internals.rs:fn new -/
theorem src_naive_internals_rs_fn_new : C01_src_naive_internals_rs_fn_new =
    ["v1", "u32", "v2", "u32", "YearFlags(", "v3", "YearFlags", "->", "Option", "<", "Mdf", ">", "match", "v1", "<=", "12", "&&", "v2", "<=", "31", "true", "=>", "Some(", "Mdf(", "v1", "<<", "9", "|", "v2", "<<", "4", "|", "v3", "as", "u32", "false", "=>", "None"] := by decide +kernel

/-- src/naive/internals.rs:fn nisoweeks -/
theorem src_naive_internals_rs_fn_nisoweeks : C01_src_naive_internals_rs_fn_nisoweeks =
    ["&", "self", "->", "u32", "YearFlags(", "v1", "*", "self", "52", "+", "1030", ">>", "v1", "as", "usize", "&", "1"] := by decide +kernel

/-- src/naive/internals.rs:fn ordinal_and_flags -/
theorem src_naive_internals_rs_fn_ordinal_and_flags : C01_src_naive_internals_rs_fn_ordinal_and_flags =
    ["&", "self", "->", "Option", "<", "i32", ">", "v1", "self", ">>", "3", "match", "MDL_TO_OL", "v1", "as", "usize", "XX", "=>", "None", "v2", "=>", "Some(", "self", "as", "i32", "-", "v2", "as", "i32", "<<", "3"] := by decide +kernel

/-- src/naive/isoweek.rs:fn from_yof -/
theorem src_naive_isoweek_rs_fn_from_yof : C01_src_naive_isoweek_rs_fn_from_yof =
    ["v1", "i32", "v2", "u32", "v3", "YearFlags", "->", "Self", "v4", "v2", "+", "v3", "isoweek_delta(", "/", "7", "let(", "v1", "v5", "if", "v4", "<", "1", "v6", "YearFlags", "from_year(", "v1", "-", "1", "nisoweeks(", "v1", "-", "1", "v6", "else", "v7", "v3", "nisoweeks(", "if", "v4", ">", "v7", "v1", "+", "1", "1", "else", "v1", "v4", "v8", "YearFlags", "from_year(", "v1", "IsoWeek", "v9", "v1", "<<", "10", "|", "v5", "<<", "4", "as", "i32", "|", "i32", "from(", "v8"] := by decide +kernel

/-- src/naive/isoweek.rs:type IsoWeek -/
theorem src_naive_isoweek_rs_type_IsoWeek : C01_src_naive_isoweek_rs_type_IsoWeek =
    ["v1", "i32", "§", "IsoWeek", "pub(", "from_yof(", "v1", "i32", "v2", "u32", "v3", "YearFlags", "->", "Self", "v4", "v2", "+", "v3", "isoweek_delta(", "/", "7", "let(", "v1", "v5", "if", "v4", "<", "1", "v6", "YearFlags", "from_year(", "v1", "-", "1", "nisoweeks(", "v1", "-", "1", "v6", "else", "v7", "v3", "nisoweeks(", "if", "v4", ">", "v7", "v1", "+", "1", "1", "else", "v1", "v4", "v8", "YearFlags", "from_year(", "v1", "IsoWeek", "v9", "v1", "<<", "10", "|", "v5", "<<", "4", "as", "i32", "|", "i32", "from(", "v8", "year(", "&", "self", "->", "i32", "self", "v9", ">>", "10", "week(", "&", "self", "->", "u32", "self", "v9", ">>", "4", "&", "63", "as", "u32", "week0(", "&", "self", "->", "u32", "self", "v9", ">>", "4", "&", "63", "as", "u32", "-", "1", "§", "v1", "Debug", "for", "IsoWeek", "fmt(", "&", "self", "v2", "&", "v1", "Formatter", "->", "v1", "Result", "v3", "self", "year(", "v4", "self", "week(", "if(", "0", "..=", "9999", "contains(", "&", "v3", "write!(", "v2", "\"{:04}-W{:02}\"", "v3", "v4", "else", "write!(", "v2", "\"…\"", "v3", "v4"] := by decide +kernel

/-- src/traits.rs:fn year_ce -/
theorem src_traits_rs_fn_year_ce : C01_src_traits_rs_fn_year_ce =
    ["&", "self", "->", "bool", "u32", "v1", "self", "year(", "if", "v1", "<", "1", "false", "1", "-", "v1", "as", "u32", "else", "true", "v1", "as", "u32"] := by decide +kernel

/-- callee src/naive/date/mod.rs:fn yof -/
theorem callee_src_naive_date_mod_rs_fn_yof : C01_callee_src_naive_date_mod_rs_fn_yof =
    ["&", "self", "->", "i32", "self", "v1", "get("] := by decide +kernel

/-- callee src/naive/internals.rs:fn from_year -/
theorem callee_src_naive_internals_rs_fn_from_year : C01_callee_src_naive_internals_rs_fn_from_year =
    ["v1", "i32", "->", "YearFlags", "v1", "v1", "rem_euclid(", "400", "YearFlags", "from_year_mod_400(", "v1"] := by decide +kernel

/-- callee src/naive/internals.rs:fn from_year_mod_400 -/
theorem callee_src_naive_internals_rs_fn_from_year_mod_400 : C01_callee_src_naive_internals_rs_fn_from_year_mod_400 =
    ["v1", "i32", "->", "YearFlags", "YEAR_TO_FLAGS", "v1", "as", "usize"] := by decide +kernel

/-- callee src/naive/internals.rs:fn ndays -/
theorem callee_src_naive_internals_rs_fn_ndays : C01_callee_src_naive_internals_rs_fn_ndays =
    ["&", "self", "->", "u32", "YearFlags(", "v1", "*", "self", "366", "-", "v1", ">>", "3", "as", "u32"] := by decide +kernel

/-- callee src/naive/isoweek.rs:fn week0 -/
theorem callee_src_naive_isoweek_rs_fn_week0 : C01_callee_src_naive_isoweek_rs_fn_week0 =
    ["&", "self", "->", "u32", "self", "v1", ">>", "4", "&", "63", "as", "u32", "-", "1"] := by decide +kernel

end Chrono.Pins.C01
