/-
  PINS of property C19: the decision tokens of every item the property is anchored in
  (properties.jsonl `anchors` + tools/anchor_extra.json), as they were in /repo at b30ed81 when the
  model was validated against the source.  Written by tools/pin_anchors.py; the right-hand sides are
  compared by the kernel with lean/Chrono/Extracted/Anchors.lean, which tools/extractors/anchors.py
  regenerates from /repo's working tree on every check.  A theorem that fails here means: anchored
  code changed; the hand-written model may no longer mirror it.
-/
import Chrono.Extracted.Anchors
namespace Chrono.Pins.C19
open Chrono.Extracted.Anchors

/-- src/format/mod.rs:impl FromStr for Weekday -/
theorem src_format_mod_rs_impl_FromStr_for_Weekday : C19_src_format_mod_rs_impl_FromStr_for_Weekday =
    ["FromStr", "for", "Weekday", "Err", "ParseWeekdayError", "from_str(", "v1", "&", "str", "->", "Result", "<", "Self", "Self", "Err", ">", "if", "Ok(", "\"\"", "v2", "v3", "short_or_long_weekday(", "v1", "Ok(", "v2", "else", "Err(", "ParseWeekdayError", "v4"] := by decide +kernel

/-- src/format/scan.rs:fn short_or_long_month0 -/
theorem src_format_scan_rs_fn_short_or_long_month0 : C19_src_format_scan_rs_fn_short_or_long_month0 =
    ["v1", "&", "str", "->", "ParseResult", "<", "&", "str", "u8", ">", "LONG_MONTH_SUFFIXES", "&", "u8", "12", "b\"uary\"", "b\"ruary\"", "b\"ch\"", "b\"il\"", "b\"\"", "b\"e\"", "b\"y\"", "b\"ust\"", "b\"tember\"", "b\"ober\"", "b\"ember\"", "b\"ember\"", "let(", "v1", "v2", "short_month0(", "v1", "?", "v3", "LONG_MONTH_SUFFIXES", "v2", "as", "usize", "if", "v1", "len(", ">=", "v3", "len(", "&&", "v1", "as_bytes(", "..", "v3", "len(", "eq_ignore_ascii_case(", "v3", "v1", "&", "v1", "v3", "len(", "..", "Ok(", "v1", "v2"] := by decide +kernel

/-- src/format/scan.rs:fn short_or_long_weekday -/
theorem src_format_scan_rs_fn_short_or_long_weekday : C19_src_format_scan_rs_fn_short_or_long_weekday =
    ["v1", "&", "str", "->", "ParseResult", "<", "&", "str", "Weekday", ">", "LONG_WEEKDAY_SUFFIXES", "&", "u8", "7", "b\"day\"", "b\"sday\"", "b\"nesday\"", "b\"rsday\"", "b\"day\"", "b\"urday\"", "b\"day\"", "let(", "v1", "v2", "short_weekday(", "v1", "?", "v3", "LONG_WEEKDAY_SUFFIXES", "v2", "num_days_from_monday(", "as", "usize", "if", "v1", "len(", ">=", "v3", "len(", "&&", "v1", "as_bytes(", "..", "v3", "len(", "eq_ignore_ascii_case(", "v3", "v1", "&", "v1", "v3", "len(", "..", "Ok(", "v1", "v2"] := by decide +kernel

/-- src/month.rs:fn name -/
theorem src_month_rs_fn_name : C19_src_month_rs_fn_name =
    ["&", "self", "->", "&", "str", "match", "*", "self", "Month", "January", "=>", "\"January\"", "Month", "February", "=>", "\"February\"", "Month", "March", "=>", "\"March\"", "Month", "April", "=>", "\"April\"", "Month", "May", "=>", "\"May\"", "Month", "June", "=>", "\"June\"", "Month", "July", "=>", "\"July\"", "Month", "August", "=>", "\"August\"", "Month", "September", "=>", "\"September\"", "Month", "October", "=>", "\"October\"", "Month", "November", "=>", "\"November\"", "Month", "December", "=>", "\"December\""] := by decide +kernel

/-- src/month.rs:fn num_days -/
theorem src_month_rs_fn_num_days : C19_src_month_rs_fn_num_days =
    ["&", "self", "v1", "i32", "->", "Option", "<", "u8", ">", "Some(", "match", "*", "self", "Month", "January", "=>", "31", "Month", "February", "=>", "match", "NaiveDate", "from_ymd_opt(", "v1", "2", "1", "?", "leap_year(", "true", "=>", "29", "false", "=>", "28", "Month", "March", "=>", "31", "Month", "April", "=>", "30", "Month", "May", "=>", "31", "Month", "June", "=>", "30", "Month", "July", "=>", "31", "Month", "August", "=>", "31", "Month", "September", "=>", "30", "Month", "October", "=>", "31", "Month", "November", "=>", "30", "Month", "December", "=>", "31"] := by decide +kernel

/-- src/month.rs:fn number_from_month -/
theorem src_month_rs_fn_number_from_month : C19_src_month_rs_fn_number_from_month =
    ["&", "self", "->", "u32", "match", "*", "self", "Month", "January", "=>", "1", "Month", "February", "=>", "2", "Month", "March", "=>", "3", "Month", "April", "=>", "4", "Month", "May", "=>", "5", "Month", "June", "=>", "6", "Month", "July", "=>", "7", "Month", "August", "=>", "8", "Month", "September", "=>", "9", "Month", "October", "=>", "10", "Month", "November", "=>", "11", "Month", "December", "=>", "12"] := by decide +kernel

/-- src/month.rs:fn pred -/
theorem src_month_rs_fn_pred : C19_src_month_rs_fn_pred =
    ["&", "self", "->", "Month", "match", "*", "self", "Month", "January", "=>", "Month", "December", "Month", "February", "=>", "Month", "January", "Month", "March", "=>", "Month", "February", "Month", "April", "=>", "Month", "March", "Month", "May", "=>", "Month", "April", "Month", "June", "=>", "Month", "May", "Month", "July", "=>", "Month", "June", "Month", "August", "=>", "Month", "July", "Month", "September", "=>", "Month", "August", "Month", "October", "=>", "Month", "September", "Month", "November", "=>", "Month", "October", "Month", "December", "=>", "Month", "November"] := by decide +kernel

/-- src/month.rs:fn succ -/
theorem src_month_rs_fn_succ : C19_src_month_rs_fn_succ =
    ["&", "self", "->", "Month", "match", "*", "self", "Month", "January", "=>", "Month", "February", "Month", "February", "=>", "Month", "March", "Month", "March", "=>", "Month", "April", "Month", "April", "=>", "Month", "May", "Month", "May", "=>", "Month", "June", "Month", "June", "=>", "Month", "July", "Month", "July", "=>", "Month", "August", "Month", "August", "=>", "Month", "September", "Month", "September", "=>", "Month", "October", "Month", "October", "=>", "Month", "November", "Month", "November", "=>", "Month", "December", "Month", "December", "=>", "Month", "January"] := by decide +kernel

/-- src/month.rs:impl FromPrimitive -/
theorem src_month_rs_impl_FromPrimitive : C19_src_month_rs_impl_FromPrimitive =
    ["v1", "FromPrimitive", "for", "Month", "from_u64(", "v2", "u64", "->", "Option", "<", "Month", ">", "Self", "from_u32(", "u32", "try_from(", "v2", "ok(", "?", "from_i64(", "v2", "i64", "->", "Option", "<", "Month", ">", "Self", "from_u32(", "u32", "try_from(", "v2", "ok(", "?", "from_u32(", "v2", "u32", "->", "Option", "<", "Month", ">", "match", "v2", "1", "=>", "Some(", "Month", "January", "2", "=>", "Some(", "Month", "February", "3", "=>", "Some(", "Month", "March", "4", "=>", "Some(", "Month", "April", "5", "=>", "Some(", "Month", "May", "6", "=>", "Some(", "Month", "June", "7", "=>", "Some(", "Month", "July", "8", "=>", "Some(", "Month", "August", "9", "=>", "Some(", "Month", "September", "10", "=>", "Some(", "Month", "October", "11", "=>", "Some(", "Month", "November", "12", "=>", "Some(", "Month", "December", "v3", "=>", "None"] := by decide +kernel

/-- src/month.rs:impl TryFrom -/
theorem src_month_rs_impl_TryFrom : C19_src_month_rs_impl_TryFrom =
    ["TryFrom", "<", "u8", ">", "for", "Month", "Error", "OutOfRange", "try_from(", "v1", "u8", "->", "Result", "<", "Self", "Self", "Error", ">", "match", "v1", "1", "=>", "Ok(", "Month", "January", "2", "=>", "Ok(", "Month", "February", "3", "=>", "Ok(", "Month", "March", "4", "=>", "Ok(", "Month", "April", "5", "=>", "Ok(", "Month", "May", "6", "=>", "Ok(", "Month", "June", "7", "=>", "Ok(", "Month", "July", "8", "=>", "Ok(", "Month", "August", "9", "=>", "Ok(", "Month", "September", "10", "=>", "Ok(", "Month", "October", "11", "=>", "Ok(", "Month", "November", "12", "=>", "Ok(", "Month", "December", "v2", "=>", "Err(", "OutOfRange", "new("] := by decide +kernel

/-- src/weekday.rs:fn days_since -/
theorem src_weekday_rs_fn_days_since : C19_src_weekday_rs_fn_days_since =
    ["&", "self", "v1", "Weekday", "->", "u32", "v2", "*", "self", "as", "u32", "v3", "v1", "as", "u32", "if", "v2", "<", "v3", "7", "+", "v2", "-", "v3", "else", "v2", "-", "v3"] := by decide +kernel

/-- src/weekday.rs:fn num_days_from_monday -/
theorem src_weekday_rs_fn_num_days_from_monday : C19_src_weekday_rs_fn_num_days_from_monday =
    ["&", "self", "->", "u32", "self", "days_since(", "Weekday", "Mon"] := by decide +kernel

/-- src/weekday.rs:fn num_days_from_sunday -/
theorem src_weekday_rs_fn_num_days_from_sunday : C19_src_weekday_rs_fn_num_days_from_sunday =
    ["&", "self", "->", "u32", "self", "days_since(", "Weekday", "Sun"] := by decide +kernel

/-- src/weekday.rs:fn number_from_monday -/
theorem src_weekday_rs_fn_number_from_monday : C19_src_weekday_rs_fn_number_from_monday =
    ["&", "self", "->", "u32", "self", "days_since(", "Weekday", "Mon", "+", "1"] := by decide +kernel

/-- src/weekday.rs:fn number_from_sunday -/
theorem src_weekday_rs_fn_number_from_sunday : C19_src_weekday_rs_fn_number_from_sunday =
    ["&", "self", "->", "u32", "self", "days_since(", "Weekday", "Sun", "+", "1"] := by decide +kernel

/-- src/weekday.rs:fn pred -/
theorem src_weekday_rs_fn_pred : C19_src_weekday_rs_fn_pred =
    ["&", "self", "->", "Weekday", "match", "*", "self", "Weekday", "Mon", "=>", "Weekday", "Sun", "Weekday", "Tue", "=>", "Weekday", "Mon", "Weekday", "Wed", "=>", "Weekday", "Tue", "Weekday", "Thu", "=>", "Weekday", "Wed", "Weekday", "Fri", "=>", "Weekday", "Thu", "Weekday", "Sat", "=>", "Weekday", "Fri", "Weekday", "Sun", "=>", "Weekday", "Sat"] := by decide +kernel

/-- src/weekday.rs:fn succ -/
theorem src_weekday_rs_fn_succ : C19_src_weekday_rs_fn_succ =
    ["&", "self", "->", "Weekday", "match", "*", "self", "Weekday", "Mon", "=>", "Weekday", "Tue", "Weekday", "Tue", "=>", "Weekday", "Wed", "Weekday", "Wed", "=>", "Weekday", "Thu", "Weekday", "Thu", "=>", "Weekday", "Fri", "Weekday", "Fri", "=>", "Weekday", "Sat", "Weekday", "Sat", "=>", "Weekday", "Sun", "Weekday", "Sun", "=>", "Weekday", "Mon"] := by decide +kernel

/-- src/weekday.rs:impl Display -/
theorem src_weekday_rs_impl_Display : C19_src_weekday_rs_impl_Display =
    ["v1", "Display", "for", "Weekday", "fmt(", "&", "self", "v2", "&", "v1", "Formatter", "->", "v1", "Result", "v2", "pad(", "match", "*", "self", "Weekday", "Mon", "=>", "\"Mon\"", "Weekday", "Tue", "=>", "\"Tue\"", "Weekday", "Wed", "=>", "\"Wed\"", "Weekday", "Thu", "=>", "\"Thu\"", "Weekday", "Fri", "=>", "\"Fri\"", "Weekday", "Sat", "=>", "\"Sat\"", "Weekday", "Sun", "=>", "\"Sun\"", "§", "v1", "Display", "for", "ParseWeekdayError", "fmt(", "&", "self", "v2", "&", "v1", "Formatter", "->", "v1", "Result", "v2", "write_fmt(", "format_args!(", "\"{:?}\"", "self"] := by decide +kernel

/-- src/weekday.rs:impl FromPrimitive -/
theorem src_weekday_rs_impl_FromPrimitive : C19_src_weekday_rs_impl_FromPrimitive =
    ["v1", "FromPrimitive", "for", "Weekday", "from_i64(", "v2", "i64", "->", "Option", "<", "Weekday", ">", "match", "v2", "0", "=>", "Some(", "Weekday", "Mon", "1", "=>", "Some(", "Weekday", "Tue", "2", "=>", "Some(", "Weekday", "Wed", "3", "=>", "Some(", "Weekday", "Thu", "4", "=>", "Some(", "Weekday", "Fri", "5", "=>", "Some(", "Weekday", "Sat", "6", "=>", "Some(", "Weekday", "Sun", "v3", "=>", "None", "from_u64(", "v2", "u64", "->", "Option", "<", "Weekday", ">", "match", "v2", "0", "=>", "Some(", "Weekday", "Mon", "1", "=>", "Some(", "Weekday", "Tue", "2", "=>", "Some(", "Weekday", "Wed", "3", "=>", "Some(", "Weekday", "Thu", "4", "=>", "Some(", "Weekday", "Fri", "5", "=>", "Some(", "Weekday", "Sat", "6", "=>", "Some(", "Weekday", "Sun", "v3", "=>", "None"] := by decide +kernel

/-- src/weekday.rs:impl TryFrom -/
theorem src_weekday_rs_impl_TryFrom : C19_src_weekday_rs_impl_TryFrom =
    ["TryFrom", "<", "u8", ">", "for", "Weekday", "Error", "OutOfRange", "try_from(", "v1", "u8", "->", "Result", "<", "Self", "Self", "Error", ">", "match", "v1", "0", "=>", "Ok(", "Weekday", "Mon", "1", "=>", "Ok(", "Weekday", "Tue", "2", "=>", "Ok(", "Weekday", "Wed", "3", "=>", "Ok(", "Weekday", "Thu", "4", "=>", "Ok(", "Weekday", "Fri", "5", "=>", "Ok(", "Weekday", "Sat", "6", "=>", "Ok(", "Weekday", "Sun", "v2", "=>", "Err(", "OutOfRange", "new("] := by decide +kernel

/-- src/weekday_set.rs:fn contains -/
theorem src_weekday_set_rs_fn_contains : C19_src_weekday_set_rs_fn_contains =
    ["self", "v1", "Weekday", "->", "bool", "self", "&", "Self", "single(", "v1", "!=", "0"] := by decide +kernel

/-- src/weekday_set.rs:fn difference -/
theorem src_weekday_set_rs_fn_difference : C19_src_weekday_set_rs_fn_difference =
    ["self", "v1", "Self", "->", "Self", "Self(", "self", "&", "!", "v1"] := by decide +kernel

/-- src/weekday_set.rs:fn first -/
theorem src_weekday_set_rs_fn_first : C19_src_weekday_set_rs_fn_first =
    ["self", "->", "Option", "<", "Weekday", ">", "if", "self", "is_empty(", "return", "None", "v1", "1", "<<", "self", "trailing_zeros(", "Self(", "v1", "single_day("] := by decide +kernel

/-- src/weekday_set.rs:fn fmt -/
theorem src_weekday_set_rs_fn_fmt : C19_src_weekday_set_rs_fn_fmt =
    ["&", "self", "v1", "&", "v2", "Formatter", "<", ">", "->", "v2", "Result", "write!(", "v1", "\"…\"", "self", "§", "&", "self", "v1", "&", "v2", "v3", "Formatter", "<", ">", "->", "v2", "v3", "Result", "write!(", "v1", "\"[\"", "?", "v4", "self", "iter(", "Weekday", "Mon", "if", "Some(", "v5", "v4", "next(", "write!(", "v1", "\"{first}\"", "?", "for", "v6", "in", "v4", "write!(", "v1", "\", {weekday}\"", "?", "write!(", "v1", "\"]\""] := by decide +kernel

/-- src/weekday_set.rs:fn from_iter -/
theorem src_weekday_set_rs_fn_from_iter : C19_src_weekday_set_rs_fn_from_iter =
    ["<", "T", "IntoIterator", "<", "Item", "Weekday", ">>", "v1", "T", "->", "Self", "v1", "into_iter(", "map(", "Self", "v2", "fold(", "Self", "EMPTY", "Self", "v3"] := by decide +kernel

/-- src/weekday_set.rs:fn insert -/
theorem src_weekday_set_rs_fn_insert : C19_src_weekday_set_rs_fn_insert =
    ["&", "self", "v1", "Weekday", "->", "bool", "if", "self", "contains(", "v1", "return", "false", "self", "|=", "Self", "single(", "v1", "true"] := by decide +kernel

/-- src/weekday_set.rs:fn intersection -/
theorem src_weekday_set_rs_fn_intersection : C19_src_weekday_set_rs_fn_intersection =
    ["self", "v1", "Self", "->", "Self", "Self(", "self", "&", "v1"] := by decide +kernel

/-- src/weekday_set.rs:fn is_empty -/
theorem src_weekday_set_rs_fn_is_empty : C19_src_weekday_set_rs_fn_is_empty =
    ["self", "->", "bool", "self", "len(", "==", "0"] := by decide +kernel

/-- src/weekday_set.rs:fn is_subset -/
theorem src_weekday_set_rs_fn_is_subset : C19_src_weekday_set_rs_fn_is_subset =
    ["self", "v1", "Self", "->", "bool", "self", "intersection(", "v1", "==", "self"] := by decide +kernel

/-- src/weekday_set.rs:fn iter -/
theorem src_weekday_set_rs_fn_iter : C19_src_weekday_set_rs_fn_iter =
    ["self", "v1", "Weekday", "->", "WeekdaySetIter", "WeekdaySetIter", "v2", "self", "v1"] := by decide +kernel

/-- src/weekday_set.rs:fn last -/
theorem src_weekday_set_rs_fn_last : C19_src_weekday_set_rs_fn_last =
    ["self", "->", "Option", "<", "Weekday", ">", "if", "self", "is_empty(", "return", "None", "v1", "1", "<<", "7", "-", "self", "leading_zeros(", "Self(", "v1", "single_day("] := by decide +kernel

/-- src/weekday_set.rs:fn len -/
theorem src_weekday_set_rs_fn_len : C19_src_weekday_set_rs_fn_len =
    ["self", "->", "u8", "self", "count_ones(", "as", "u8", "§", "&", "self", "->", "usize", "self", "v1", "len(", "into("] := by decide +kernel

/-- src/weekday_set.rs:fn next -/
theorem src_weekday_set_rs_fn_next : C19_src_weekday_set_rs_fn_next =
    ["&", "self", "->", "Option", "<", "Self", "Item", ">", "if", "self", "v1", "is_empty(", "return", "None", "let(", "v2", "v3", "self", "v1", "split_at(", "self", "v4", "v1", "if", "v3", "is_empty(", "v2", "else", "v3", "v5", "v1", "first(", "expect(", "\"…\"", "self", "v1", "remove(", "v5", "Some(", "v5"] := by decide +kernel

/-- src/weekday_set.rs:fn next_back -/
theorem src_weekday_set_rs_fn_next_back : C19_src_weekday_set_rs_fn_next_back =
    ["&", "self", "->", "Option", "<", "Self", "Item", ">", "if", "self", "v1", "is_empty(", "return", "None", "let(", "v2", "v3", "self", "v1", "split_at(", "self", "v4", "v1", "if", "v2", "is_empty(", "v3", "else", "v2", "v5", "v1", "last(", "expect(", "\"…\"", "self", "v1", "remove(", "v5", "Some(", "v5"] := by decide +kernel

/-- src/weekday_set.rs:fn remove -/
theorem src_weekday_set_rs_fn_remove : C19_src_weekday_set_rs_fn_remove =
    ["&", "self", "v1", "Weekday", "->", "bool", "if", "self", "contains(", "v1", "self", "&=", "!", "Self", "single(", "v1", "return", "true", "false"] := by decide +kernel

/-- src/weekday_set.rs:fn single -/
theorem src_weekday_set_rs_fn_single : C19_src_weekday_set_rs_fn_single =
    ["v1", "Weekday", "->", "Self", "match", "v1", "Weekday", "Mon", "=>", "Self(", "1", "Weekday", "Tue", "=>", "Self(", "2", "Weekday", "Wed", "=>", "Self(", "4", "Weekday", "Thu", "=>", "Self(", "8", "Weekday", "Fri", "=>", "Self(", "16", "Weekday", "Sat", "=>", "Self(", "32", "Weekday", "Sun", "=>", "Self(", "64"] := by decide +kernel

/-- src/weekday_set.rs:fn single_day -/
theorem src_weekday_set_rs_fn_single_day : C19_src_weekday_set_rs_fn_single_day =
    ["self", "->", "Option", "<", "Weekday", ">", "match", "self", "Self(", "1", "=>", "Some(", "Weekday", "Mon", "Self(", "2", "=>", "Some(", "Weekday", "Tue", "Self(", "4", "=>", "Some(", "Weekday", "Wed", "Self(", "8", "=>", "Some(", "Weekday", "Thu", "Self(", "16", "=>", "Some(", "Weekday", "Fri", "Self(", "32", "=>", "Some(", "Weekday", "Sat", "Self(", "64", "=>", "Some(", "Weekday", "Sun", "v1", "=>", "None"] := by decide +kernel

/-- src/weekday_set.rs:fn split_at -/
theorem src_weekday_set_rs_fn_split_at : C19_src_weekday_set_rs_fn_split_at =
    ["self", "v1", "Weekday", "->", "Self", "Self", "v2", "128", "-", "Self", "single(", "v1", "v3", "v2", "^", "127", "Self(", "self", "&", "v3", "Self(", "self", "&", "v2"] := by decide +kernel

/-- src/weekday_set.rs:fn symmetric_difference -/
theorem src_weekday_set_rs_fn_symmetric_difference : C19_src_weekday_set_rs_fn_symmetric_difference =
    ["self", "v1", "Self", "->", "Self", "Self(", "self", "^", "v1"] := by decide +kernel

/-- src/weekday_set.rs:fn union -/
theorem src_weekday_set_rs_fn_union : C19_src_weekday_set_rs_fn_union =
    ["self", "v1", "Self", "->", "Self", "Self(", "self", "|", "v1"] := by decide +kernel

/-- src/weekday_set.rs:type Display -/
theorem src_weekday_set_rs_type_Display : C19_src_weekday_set_rs_type_Display =
    ["v1", "Display", "for", "WeekdaySet", "fmt(", "&", "self", "v2", "&", "v3", "v1", "Formatter", "<", ">", "->", "v3", "v1", "Result", "write!(", "v2", "\"[\"", "?", "v4", "self", "iter(", "Weekday", "Mon", "if", "Some(", "v5", "v4", "next(", "write!(", "v2", "\"{first}\"", "?", "for", "v6", "in", "v4", "write!(", "v2", "\", {weekday}\"", "?", "write!(", "v2", "\"]\""] := by decide +kernel

/-- src/weekday_set.rs:type FromIterator -/
theorem src_weekday_set_rs_type_FromIterator : C19_src_weekday_set_rs_type_FromIterator =
    ["FromIterator", "<", "Weekday", ">", "for", "WeekdaySet", "v1", "<", "T", "IntoIterator", "<", "Item", "Weekday", ">>", "v2", "T", "->", "Self", "v2", "into_iter(", "map(", "Self", "v3", "fold(", "Self", "EMPTY", "Self", "v4"] := by decide +kernel

/-- callee src/format/scan.rs:fn short_month0 -/
theorem callee_src_format_scan_rs_fn_short_month0 : C19_callee_src_format_scan_rs_fn_short_month0 =
    ["v1", "&", "str", "->", "ParseResult", "<", "&", "str", "u8", ">", "if", "v1", "len(", "<", "3", "return", "Err(", "TOO_SHORT", "v2", "v1", "as_bytes(", "v3", "match(", "v2", "0", "|", "32", "v2", "1", "|", "32", "v2", "2", "|", "32", "b'j'", "b'a'", "b'n'", "=>", "0", "b'f'", "b'e'", "b'b'", "=>", "1", "b'm'", "b'a'", "b'r'", "=>", "2", "b'a'", "b'p'", "b'r'", "=>", "3", "b'm'", "b'a'", "b'y'", "=>", "4", "b'j'", "b'u'", "b'n'", "=>", "5", "b'j'", "b'u'", "b'l'", "=>", "6", "b'a'", "b'u'", "b'g'", "=>", "7", "b's'", "b'e'", "b'p'", "=>", "8", "b'o'", "b'c'", "b't'", "=>", "9", "b'n'", "b'o'", "b'v'", "=>", "10", "b'd'", "b'e'", "b'c'", "=>", "11", "v4", "=>", "return", "Err(", "INVALID", "Ok(", "&", "v1", "3", "..", "v3"] := by decide +kernel

/-- callee src/format/scan.rs:fn short_weekday -/
theorem callee_src_format_scan_rs_fn_short_weekday : C19_callee_src_format_scan_rs_fn_short_weekday =
    ["v1", "&", "str", "->", "ParseResult", "<", "&", "str", "Weekday", ">", "if", "v1", "len(", "<", "3", "return", "Err(", "TOO_SHORT", "v2", "v1", "as_bytes(", "v3", "match(", "v2", "0", "|", "32", "v2", "1", "|", "32", "v2", "2", "|", "32", "b'm'", "b'o'", "b'n'", "=>", "Weekday", "Mon", "b't'", "b'u'", "b'e'", "=>", "Weekday", "Tue", "b'w'", "b'e'", "b'd'", "=>", "Weekday", "Wed", "b't'", "b'h'", "b'u'", "=>", "Weekday", "Thu", "b'f'", "b'r'", "b'i'", "=>", "Weekday", "Fri", "b's'", "b'a'", "b't'", "=>", "Weekday", "Sat", "b's'", "b'u'", "b'n'", "=>", "Weekday", "Sun", "v4", "=>", "return", "Err(", "INVALID", "Ok(", "&", "v1", "3", "..", "v3"] := by decide +kernel

/-- callee src/month.rs:fn from_u32 -/
theorem callee_src_month_rs_fn_from_u32 : C19_callee_src_month_rs_fn_from_u32 =
    ["v1", "u32", "->", "Option", "<", "Month", ">", "match", "v1", "1", "=>", "Some(", "Month", "January", "2", "=>", "Some(", "Month", "February", "3", "=>", "Some(", "Month", "March", "4", "=>", "Some(", "Month", "April", "5", "=>", "Some(", "Month", "May", "6", "=>", "Some(", "Month", "June", "7", "=>", "Some(", "Month", "July", "8", "=>", "Some(", "Month", "August", "9", "=>", "Some(", "Month", "September", "10", "=>", "Some(", "Month", "October", "11", "=>", "Some(", "Month", "November", "12", "=>", "Some(", "Month", "December", "v2", "=>", "None"] := by decide +kernel

/-- callee src/naive/date/mod.rs:fn from_mdf -/
theorem callee_src_naive_date_mod_rs_fn_from_mdf : C19_callee_src_naive_date_mod_rs_fn_from_mdf =
    ["v1", "i32", "v2", "Mdf", "->", "Option", "<", "NaiveDate", ">", "if", "v1", "<", "MIN_YEAR", "||", "v1", ">", "MAX_YEAR", "return", "None", "Some(", "NaiveDate", "from_yof(", "v1", "<<", "13", "|", "try_opt!(", "v2", "ordinal_and_flags("] := by decide +kernel

/-- callee src/naive/date/mod.rs:fn from_ymd_opt -/
theorem callee_src_naive_date_mod_rs_fn_from_ymd_opt : C19_callee_src_naive_date_mod_rs_fn_from_ymd_opt =
    ["v1", "i32", "v2", "u32", "v3", "u32", "->", "Option", "<", "NaiveDate", ">", "v4", "YearFlags", "from_year(", "v1", "if", "Some(", "v5", "Mdf", "new(", "v2", "v3", "v4", "NaiveDate", "from_mdf(", "v1", "v5", "else", "None"] := by decide +kernel

/-- callee src/naive/date/mod.rs:fn leap_year -/
theorem callee_src_naive_date_mod_rs_fn_leap_year : C19_callee_src_naive_date_mod_rs_fn_leap_year =
    ["&", "self", "->", "bool", "self", "yof(", "&", "8", "==", "0"] := by decide +kernel

/-- callee src/naive/date/mod.rs:fn yof -/
theorem callee_src_naive_date_mod_rs_fn_yof : C19_callee_src_naive_date_mod_rs_fn_yof =
    ["&", "self", "->", "i32", "self", "v1", "get("] := by decide +kernel

/-- callee src/naive/internals.rs:fn from_year -/
theorem callee_src_naive_internals_rs_fn_from_year : C19_callee_src_naive_internals_rs_fn_from_year =
    ["v1", "i32", "->", "YearFlags", "v1", "v1", "rem_euclid(", "400", "YearFlags", "from_year_mod_400(", "v1"] := by decide +kernel

/-- callee src/naive/internals.rs:fn from_year_mod_400 -/
theorem callee_src_naive_internals_rs_fn_from_year_mod_400 : C19_callee_src_naive_internals_rs_fn_from_year_mod_400 =
    ["v1", "i32", "->", "YearFlags", "YEAR_TO_FLAGS", "v1", "as", "usize"] := by decide +kernel

/-- callee src/naive/internals.rs:fn ordinal_and_flags -/
theorem callee_src_naive_internals_rs_fn_ordinal_and_flags : C19_callee_src_naive_internals_rs_fn_ordinal_and_flags =
    ["&", "self", "->", "Option", "<", "i32", ">", "v1", "self", ">>", "3", "match", "MDL_TO_OL", "v1", "as", "usize", "XX", "=>", "None", "v2", "=>", "Some(", "self", "as", "i32", "-", "v2", "as", "i32", "<<", "3"] := by decide +kernel

end Chrono.Pins.C19
