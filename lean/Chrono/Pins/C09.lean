/-
  PINS of property C09: the decision tokens of every item the property is anchored in
  (properties.jsonl `anchors` + tools/anchor_extra.json), as they were in /repo at b30ed81 when the
  model was validated against the source.  Written by tools/pin_anchors.py; the right-hand sides are
  compared by the kernel with lean/Chrono/Extracted/Anchors.lean, which tools/extractors/anchors.py
  regenerates from /repo's working tree on every check.  A theorem that fails here means: anchored
  code changed; the hand-written model may no longer mirror it.
-/
import Chrono.Extracted.Anchors
namespace Chrono.Pins.C09
open Chrono.Extracted.Anchors

/-- src/datetime/mod.rs:impl Debug -/
theorem src_datetime_mod_rs_impl_Debug : C09_src_datetime_mod_rs_impl_Debug =
    ["<", "Tz", "TimeZone", ">", "v1", "Debug", "for", "DateTime", "<", "Tz", ">", "fmt(", "&", "self", "v2", "&", "v1", "Formatter", "->", "v1", "Result", "self", "overflowing_naive_local(", "fmt(", "v2", "?", "self", "v3", "fmt(", "v2", "§", "<", "Tz", "TimeZone", ">", "v1", "Debug", "for", "ArchivedDateTime", "<", "Tz", ">", "Tz", "Archive", "<", "Tz", "as", "Archive", ">", "Archived", "v1", "Debug", "<<", "Tz", "as", "TimeZone", ">", "Offset", "as", "Archive", ">", "Archived", "v1", "Debug", "<", "Tz", "as", "TimeZone", ">", "Offset", "v1", "Debug", "+", "Archive", "fmt(", "&", "self", "v2", "&", "v1", "Formatter", "->", "v1", "Result", "v2", "debug_struct(", "\"…\"", "field(", "\"datetime\"", "&", "self", "v3", "field(", "\"offset\"", "&", "self", "v4", "finish("] := by decide +kernel

/-- src/datetime/mod.rs:impl Display -/
theorem src_datetime_mod_rs_impl_Display : C09_src_datetime_mod_rs_impl_Display =
    ["<", "Tz", "TimeZone", ">", "DateTime", "<", "Tz", ">", "Tz", "Offset", "v1", "Display", "v2", "<", "I", "B", ">", "&", "self", "v3", "I", "->", "DelayedFormat", "<", "I", ">", "I", "Iterator", "<", "Item", "B", ">", "+", "Clone", "B", "Borrow", "<", "Item", "<", ">>", "v4", "self", "overflowing_naive_local(", "DelayedFormat", "new_with_offset(", "Some(", "v4", "date(", "Some(", "v4", "time(", "&", "self", "v5", "v3", "v6", "<", ">", "&", "self", "v1", "&", "str", "->", "DelayedFormat", "<", "StrftimeItems", "<", ">>", "self", "format_with_items(", "StrftimeItems", "new(", "v1", "v7", "<", "I", "B", ">", "&", "self", "v3", "I", "v8", "Locale", "->", "DelayedFormat", "<", "I", ">", "I", "Iterator", "<", "Item", "B", ">", "+", "Clone", "B", "Borrow", "<", "Item", "<", ">>", "v4", "self", "overflowing_naive_local(", "DelayedFormat", "new_with_offset_and_locale(", "Some(", "v4", "date(", "Some(", "v4", "time(", "&", "self", "v5", "v3", "v8", "v9", "<", ">", "&", "self", "v1", "&", "str", "v8", "Locale", "->", "DelayedFormat", "<", "StrftimeItems", "<", ">>", "self", "format_localized_with_items(", "StrftimeItems", "new_with_locale(", "v1", "v8", "v8", "§", "<", "Tz", "TimeZone", ">", "v1", "Display", "for", "DateTime", "<", "Tz", ">", "Tz", "Offset", "v1", "Display", "fmt(", "&", "self", "v2", "&", "v1", "Formatter", "->", "v1", "Result", "self", "overflowing_naive_local(", "fmt(", "v2", "?", "v2", "write_char(", "' '", "?", "self", "v3", "fmt(", "v2"] := by decide +kernel

/-- src/datetime/mod.rs:impl FromStr for DateTime -/
theorem src_datetime_mod_rs_impl_FromStr_for_DateTime : C09_src_datetime_mod_rs_impl_FromStr_for_DateTime =
    ["str", "FromStr", "for", "DateTime", "<", "Utc", ">", "Err", "ParseError", "from_str(", "v1", "&", "str", "->", "ParseResult", "<", "DateTime", "<", "Utc", ">>", "v1", "v2", "<", "DateTime", "<", "FixedOffset", ">>", "map(", "|", "v3", "|", "v3", "with_timezone(", "&", "Utc", "§", "str", "FromStr", "for", "DateTime", "<", "Local", ">", "Err", "ParseError", "from_str(", "v1", "&", "str", "->", "ParseResult", "<", "DateTime", "<", "Local", ">>", "v1", "v2", "<", "DateTime", "<", "FixedOffset", ">>", "map(", "|", "v3", "|", "v3", "with_timezone(", "&", "Local"] := by decide +kernel

/-- src/format/formatting.rs:fn write_hundreds -/
theorem src_format_formatting_rs_fn_write_hundreds : C09_src_format_formatting_rs_fn_write_hundreds =
    ["v1", "&", "Write", "v2", "u8", "->", "v3", "Result", "if", "v2", ">=", "100", "return", "Err(", "v3", "Error", "v4", "b'0'", "+", "v2", "/", "10", "v5", "b'0'", "+", "v2", "%", "10", "v1", "write_char(", "v4", "as", "char", "?", "v1", "write_char(", "v5", "as", "char"] := by decide +kernel

/-- src/format/mod.rs:type Month -/
theorem src_format_mod_rs_type_Month : C09_src_format_mod_rs_type_Month =
    ["FromStr", "for", "Month", "Err", "ParseMonthError", "from_str(", "v1", "&", "str", "->", "Result", "<", "Self", "Self", "Err", ">", "if", "Ok(", "\"\"", "v2", "v3", "short_or_long_month0(", "v1", "match", "v2", "0", "=>", "Ok(", "Month", "January", "1", "=>", "Ok(", "Month", "February", "2", "=>", "Ok(", "Month", "March", "3", "=>", "Ok(", "Month", "April", "4", "=>", "Ok(", "Month", "May", "5", "=>", "Ok(", "Month", "June", "6", "=>", "Ok(", "Month", "July", "7", "=>", "Ok(", "Month", "August", "8", "=>", "Ok(", "Month", "September", "9", "=>", "Ok(", "Month", "October", "10", "=>", "Ok(", "Month", "November", "11", "=>", "Ok(", "Month", "December", "v4", "=>", "Err(", "ParseMonthError", "v5", "else", "Err(", "ParseMonthError", "v5"] := by decide +kernel

/-- src/format/parse.rs:fn parse_rfc3339_relaxed -/
theorem src_format_parse_rs_fn_parse_rfc3339_relaxed : C09_src_format_parse_rs_fn_parse_rfc3339_relaxed =
    ["<", ">", "v1", "&", "Parsed", "v2", "&", "str", "->", "ParseResult", "<", "&", "str", ">", "DATE_ITEMS", "&", "Item", "<", ">", "&", "Item", "Numeric(", "Numeric", "Year", "Pad", "Zero", "Item", "Space(", "\"\"", "Item", "Literal(", "\"-\"", "Item", "Numeric(", "Numeric", "Month", "Pad", "Zero", "Item", "Space(", "\"\"", "Item", "Literal(", "\"-\"", "Item", "Numeric(", "Numeric", "Day", "Pad", "Zero", "TIME_ITEMS", "&", "Item", "<", ">", "&", "Item", "Numeric(", "Numeric", "Hour", "Pad", "Zero", "Item", "Space(", "\"\"", "Item", "Literal(", "\":\"", "Item", "Numeric(", "Numeric", "Minute", "Pad", "Zero", "Item", "Space(", "\"\"", "Item", "Literal(", "\":\"", "Item", "Numeric(", "Numeric", "Second", "Pad", "Zero", "Item", "Fixed(", "Fixed", "Nanosecond", "Item", "Space(", "\"\"", "v2", "parse_internal(", "v1", "v2", "DATE_ITEMS", "iter(", "?", "v2", "match", "v2", "as_bytes(", "first(", "Some(", "&", "b't'", "|", "&", "b'T'", "|", "&", "b' '", "=>", "&", "v2", "1", "..", "Some(", "v3", "=>", "return", "Err(", "INVALID", "None", "=>", "return", "Err(", "TOO_SHORT", "v2", "parse_internal(", "v1", "v2", "TIME_ITEMS", "iter(", "?", "v2", "v2", "trim_start(", "let(", "v2", "v4", "if", "v2", "len(", ">=", "3", "&&", "\"UTC\"", "as_bytes(", "eq_ignore_ascii_case(", "&", "v2", "as_bytes(", "..", "&", "v2", "3", "..", "0", "else", "v5", "timezone_offset(", "v2", "v5", "v6", "true", "false", "true", "?", "v1", "set_offset(", "i64", "from(", "v4", "?", "Ok(", "v2"] := by decide +kernel

/-- src/format/parse.rs:impl FromStr for DateTime -/
theorem src_format_parse_rs_impl_FromStr_for_DateTime : C09_src_format_parse_rs_impl_FromStr_for_DateTime =
    ["str", "FromStr", "for", "DateTime", "<", "FixedOffset", ">", "Err", "ParseError", "from_str(", "v1", "&", "str", "->", "ParseResult", "<", "DateTime", "<", "FixedOffset", ">>", "v2", "Parsed", "new(", "let(", "v1", "v3", "parse_rfc3339_relaxed(", "&", "v2", "v1", "?", "if", "!", "v1", "trim_start(", "is_empty(", "return", "Err(", "TOO_LONG", "v2", "to_datetime("] := by decide +kernel

/-- src/format/scan.rs:fn short_or_long_month0 -/
theorem src_format_scan_rs_fn_short_or_long_month0 : C09_src_format_scan_rs_fn_short_or_long_month0 =
    ["v1", "&", "str", "->", "ParseResult", "<", "&", "str", "u8", ">", "LONG_MONTH_SUFFIXES", "&", "u8", "12", "b\"uary\"", "b\"ruary\"", "b\"ch\"", "b\"il\"", "b\"\"", "b\"e\"", "b\"y\"", "b\"ust\"", "b\"tember\"", "b\"ober\"", "b\"ember\"", "b\"ember\"", "let(", "v1", "v2", "short_month0(", "v1", "?", "v3", "LONG_MONTH_SUFFIXES", "v2", "as", "usize", "if", "v1", "len(", ">=", "v3", "len(", "&&", "v1", "as_bytes(", "..", "v3", "len(", "eq_ignore_ascii_case(", "v3", "v1", "&", "v1", "v3", "len(", "..", "Ok(", "v1", "v2"] := by decide +kernel

/-- src/format/scan.rs:fn short_or_long_weekday -/
theorem src_format_scan_rs_fn_short_or_long_weekday : C09_src_format_scan_rs_fn_short_or_long_weekday =
    ["v1", "&", "str", "->", "ParseResult", "<", "&", "str", "Weekday", ">", "LONG_WEEKDAY_SUFFIXES", "&", "u8", "7", "b\"day\"", "b\"sday\"", "b\"nesday\"", "b\"rsday\"", "b\"day\"", "b\"urday\"", "b\"day\"", "let(", "v1", "v2", "short_weekday(", "v1", "?", "v3", "LONG_WEEKDAY_SUFFIXES", "v2", "num_days_from_monday(", "as", "usize", "if", "v1", "len(", ">=", "v3", "len(", "&&", "v1", "as_bytes(", "..", "v3", "len(", "eq_ignore_ascii_case(", "v3", "v1", "&", "v1", "v3", "len(", "..", "Ok(", "v1", "v2"] := by decide +kernel

/-- src/format/scan.rs:fn timezone_offset -/
theorem src_format_scan_rs_fn_timezone_offset : C09_src_format_scan_rs_fn_timezone_offset =
    ["<", "F", ">", "v1", "&", "str", "v2", "F", "v3", "bool", "v4", "bool", "v5", "bool", "->", "ParseResult", "<", "&", "str", "i32", ">", "F", "FnMut(", "&", "str", "->", "ParseResult", "<", "&", "str", ">", "if", "v3", "if", "Some(", "&", "b'Z'", "|", "&", "b'z'", "v1", "as_bytes(", "first(", "return", "Ok(", "&", "v1", "1", "..", "0", "digits(", "v1", "&", "str", "->", "ParseResult", "<", "u8", "u8", ">", "v6", "v1", "as_bytes(", "if", "v6", "len(", "<", "2", "Err(", "TOO_SHORT", "else", "Ok(", "v6", "0", "v6", "1", "v7", "match", "v1", "chars(", "next(", "Some(", "'+'", "=>", "v1", "&", "v1", "'+'", "len_utf8(", "..", "false", "Some(", "'-'", "=>", "v1", "&", "v1", "'-'", "len_utf8(", "..", "true", "Some(", "'−'", "=>", "if", "!", "v5", "return", "Err(", "INVALID", "v1", "&", "v1", "'−'", "len_utf8(", "..", "true", "Some(", "v8", "=>", "return", "Err(", "INVALID", "None", "=>", "return", "Err(", "TOO_SHORT", "v9", "match", "digits(", "v1", "?", "v10", "b'0'", "..=", "b'9'", "v11", "b'0'", "..=", "b'9'", "=>", "i32", "from(", "v10", "-", "b'0'", "*", "10", "+", "v11", "-", "b'0'", "v8", "=>", "return", "Err(", "INVALID", "v1", "&", "v1", "2", "..", "v1", "consume_colon(", "v1", "?", "v12", "if", "Ok(", "v13", "digits(", "v1", "match", "v13", "v14", "b'0'", "..=", "b'5'", "v15", "b'0'", "..=", "b'9'", "=>", "i32", "from(", "v14", "-", "b'0'", "*", "10", "+", "v15", "-", "b'0'", "b'6'", "..=", "b'9'", "b'0'", "..=", "b'9'", "=>", "return", "Err(", "OUT_OF_RANGE", "v8", "=>", "return", "Err(", "INVALID", "else", "if", "v4", "0", "else", "return", "Err(", "TOO_SHORT", "v1", "match", "v1", "len(", "v16", "if", "v16", ">=", "2", "=>", "&", "v1", "2", "..", "0", "=>", "v1", "v8", "=>", "return", "Err(", "TOO_SHORT", "v17", "v9", "*", "3600", "+", "v12", "*", "60", "Ok(", "v1", "if", "v7", "-", "v17", "else", "v17"] := by decide +kernel

/-- src/naive/date/mod.rs:impl Debug -/
theorem src_naive_date_mod_rs_impl_Debug : C09_src_naive_date_mod_rs_impl_Debug =
    ["v1", "Debug", "for", "NaiveDate", "fmt(", "&", "self", "v2", "&", "v1", "Formatter", "->", "v1", "Result", "v3", "v1", "Write", "v4", "self", "year(", "v5", "self", "mdf(", "if(", "0", "..=", "9999", "contains(", "&", "v4", "write_hundreds(", "v2", "v4", "/", "100", "as", "u8", "?", "write_hundreds(", "v2", "v4", "%", "100", "as", "u8", "?", "else", "write!(", "v2", "\"{:+05}\"", "v4", "?", "v2", "write_char(", "'-'", "?", "write_hundreds(", "v2", "v5", "month(", "as", "u8", "?", "v2", "write_char(", "'-'", "?", "write_hundreds(", "v2", "v5", "day(", "as", "u8", "§", "<", "D", "v1", "Debug", ">", "v1", "Display", "for", "FormatWrapped", "<", "D", ">", "fmt(", "&", "self", "v2", "&", "v1", "Formatter", "->", "v1", "Result", "self", "v3", "fmt(", "v2"] := by decide +kernel

/-- src/naive/date/mod.rs:impl Display -/
theorem src_naive_date_mod_rs_impl_Display : C09_src_naive_date_mod_rs_impl_Display =
    ["v1", "Display", "for", "NaiveDate", "fmt(", "&", "self", "v2", "&", "v1", "Formatter", "->", "v1", "Result", "v1", "Debug", "fmt(", "self", "v2", "§", "<", "D", "v1", "Debug", ">", "v1", "Display", "for", "FormatWrapped", "<", "D", ">", "fmt(", "&", "self", "v2", "&", "v1", "Formatter", "->", "v1", "Result", "self", "v3", "fmt(", "v2"] := by decide +kernel

/-- src/naive/date/mod.rs:impl FromStr -/
theorem src_naive_date_mod_rs_impl_FromStr : C09_src_naive_date_mod_rs_impl_FromStr =
    ["str", "FromStr", "for", "NaiveDate", "Err", "ParseError", "from_str(", "v1", "&", "str", "->", "ParseResult", "<", "NaiveDate", ">", "ITEMS", "&", "Item", "<", ">", "&", "Item", "Numeric(", "Numeric", "Year", "Pad", "Zero", "Item", "Space(", "\"\"", "Item", "Literal(", "\"-\"", "Item", "Numeric(", "Numeric", "Month", "Pad", "Zero", "Item", "Space(", "\"\"", "Item", "Literal(", "\"-\"", "Item", "Numeric(", "Numeric", "Day", "Pad", "Zero", "Item", "Space(", "\"\"", "v2", "Parsed", "new(", "parse(", "&", "v2", "v1", "ITEMS", "iter(", "?", "v2", "to_naive_date("] := by decide +kernel

/-- src/naive/datetime/mod.rs:impl Debug -/
theorem src_naive_datetime_mod_rs_impl_Debug : C09_src_naive_datetime_mod_rs_impl_Debug =
    ["v1", "Debug", "for", "NaiveDateTime", "fmt(", "&", "self", "v2", "&", "v1", "Formatter", "->", "v1", "Result", "self", "v3", "fmt(", "v2", "?", "v2", "write_char(", "'T'", "?", "self", "v4", "fmt(", "v2"] := by decide +kernel

/-- src/naive/datetime/mod.rs:impl Display -/
theorem src_naive_datetime_mod_rs_impl_Display : C09_src_naive_datetime_mod_rs_impl_Display =
    ["v1", "Display", "for", "NaiveDateTime", "fmt(", "&", "self", "v2", "&", "v1", "Formatter", "->", "v1", "Result", "self", "v3", "fmt(", "v2", "?", "v2", "write_char(", "' '", "?", "self", "v4", "fmt(", "v2"] := by decide +kernel

/-- src/naive/datetime/mod.rs:impl FromStr -/
theorem src_naive_datetime_mod_rs_impl_FromStr : C09_src_naive_datetime_mod_rs_impl_FromStr =
    ["str", "FromStr", "for", "NaiveDateTime", "Err", "ParseError", "from_str(", "v1", "&", "str", "->", "ParseResult", "<", "NaiveDateTime", ">", "ITEMS", "&", "Item", "<", ">", "&", "Item", "Numeric(", "Numeric", "Year", "Pad", "Zero", "Item", "Space(", "\"\"", "Item", "Literal(", "\"-\"", "Item", "Numeric(", "Numeric", "Month", "Pad", "Zero", "Item", "Space(", "\"\"", "Item", "Literal(", "\"-\"", "Item", "Numeric(", "Numeric", "Day", "Pad", "Zero", "Item", "Space(", "\"\"", "Item", "Literal(", "\"T\"", "Item", "Numeric(", "Numeric", "Hour", "Pad", "Zero", "Item", "Space(", "\"\"", "Item", "Literal(", "\":\"", "Item", "Numeric(", "Numeric", "Minute", "Pad", "Zero", "Item", "Space(", "\"\"", "Item", "Literal(", "\":\"", "Item", "Numeric(", "Numeric", "Second", "Pad", "Zero", "Item", "Fixed(", "Fixed", "Nanosecond", "Item", "Space(", "\"\"", "v2", "Parsed", "new(", "parse(", "&", "v2", "v1", "ITEMS", "iter(", "?", "v2", "to_naive_datetime_with_offset(", "0"] := by decide +kernel

/-- src/naive/time/mod.rs:impl Debug -/
theorem src_naive_time_mod_rs_impl_Debug : C09_src_naive_time_mod_rs_impl_Debug =
    ["v1", "Debug", "for", "NaiveTime", "fmt(", "&", "self", "v2", "&", "v1", "Formatter", "->", "v1", "Result", "let(", "v3", "v4", "v5", "self", "hms(", "let(", "v5", "v6", "if", "self", "v7", ">=", "1000000000", "v5", "+", "1", "self", "v7", "-", "1000000000", "else", "v5", "self", "v7", "v8", "v1", "Write", "write_hundreds(", "v2", "v3", "as", "u8", "?", "v2", "write_char(", "':'", "?", "write_hundreds(", "v2", "v4", "as", "u8", "?", "v2", "write_char(", "':'", "?", "write_hundreds(", "v2", "v5", "as", "u8", "?", "if", "v6", "==", "0", "Ok(", "else", "if", "v6", "%", "1000000", "==", "0", "write!(", "v2", "\".{:03}\"", "v6", "/", "1000000", "else", "if", "v6", "%", "1000", "==", "0", "write!(", "v2", "\".{:06}\"", "v6", "/", "1000", "else", "write!(", "v2", "\".{:09}\"", "v6"] := by decide +kernel

/-- src/naive/time/mod.rs:impl Display -/
theorem src_naive_time_mod_rs_impl_Display : C09_src_naive_time_mod_rs_impl_Display =
    ["v1", "Display", "for", "NaiveTime", "fmt(", "&", "self", "v2", "&", "v1", "Formatter", "->", "v1", "Result", "v1", "Debug", "fmt(", "self", "v2"] := by decide +kernel

/-- src/naive/time/mod.rs:impl FromStr -/
theorem src_naive_time_mod_rs_impl_FromStr : C09_src_naive_time_mod_rs_impl_FromStr =
    ["str", "FromStr", "for", "NaiveTime", "Err", "ParseError", "from_str(", "v1", "&", "str", "->", "ParseResult", "<", "NaiveTime", ">", "HOUR_AND_MINUTE", "&", "Item", "<", ">", "&", "Item", "Numeric(", "Numeric", "Hour", "Pad", "Zero", "Item", "Space(", "\"\"", "Item", "Literal(", "\":\"", "Item", "Numeric(", "Numeric", "Minute", "Pad", "Zero", "SECOND_AND_NANOS", "&", "Item", "<", ">", "&", "Item", "Space(", "\"\"", "Item", "Literal(", "\":\"", "Item", "Numeric(", "Numeric", "Second", "Pad", "Zero", "Item", "Fixed(", "Fixed", "Nanosecond", "Item", "Space(", "\"\"", "TRAILING_WHITESPACE", "Item", "<", ">", "1", "Item", "Space(", "\"\"", "v2", "Parsed", "new(", "v1", "parse_and_remainder(", "&", "v2", "v1", "HOUR_AND_MINUTE", "iter(", "?", "v1", "parse_and_remainder(", "&", "v2", "v1", "SECOND_AND_NANOS", "iter(", "unwrap_or(", "v1", "parse(", "&", "v2", "v1", "TRAILING_WHITESPACE", "iter(", "?", "v2", "to_naive_time("] := by decide +kernel

/-- src/offset/fixed.rs:impl Debug -/
theorem src_offset_fixed_rs_impl_Debug : C09_src_offset_fixed_rs_impl_Debug =
    ["v1", "Debug", "for", "FixedOffset", "fmt(", "&", "self", "v2", "&", "v1", "Formatter", "->", "v1", "Result", "v3", "self", "v4", "let(", "v5", "v3", "if", "v3", "<", "0", "'-'", "-", "v3", "else", "'+'", "v3", "v6", "v3", "rem_euclid(", "60", "v7", "v3", "div_euclid(", "60", "v8", "v7", "rem_euclid(", "60", "v9", "v7", "div_euclid(", "60", "if", "v6", "==", "0", "write!(", "v2", "\"…\"", "v5", "v9", "v8", "else", "write!(", "v2", "\"…\"", "v5", "v9", "v8", "v6"] := by decide +kernel

/-- src/offset/fixed.rs:impl Display -/
theorem src_offset_fixed_rs_impl_Display : C09_src_offset_fixed_rs_impl_Display =
    ["v1", "Display", "for", "FixedOffset", "fmt(", "&", "self", "v2", "&", "v1", "Formatter", "->", "v1", "Result", "v1", "Debug", "fmt(", "self", "v2"] := by decide +kernel

/-- src/offset/fixed.rs:impl FromStr -/
theorem src_offset_fixed_rs_impl_FromStr : C09_src_offset_fixed_rs_impl_FromStr =
    ["FromStr", "for", "FixedOffset", "Err", "ParseError", "from_str(", "v1", "&", "str", "->", "Result", "<", "Self", "Self", "Err", ">", "let(", "v2", "v3", "v4", "timezone_offset(", "v1", "v4", "v5", "false", "false", "true", "?", "Self", "east_opt(", "v3", "ok_or(", "OUT_OF_RANGE"] := by decide +kernel

/-- src/offset/utc.rs:impl Debug -/
theorem src_offset_utc_rs_impl_Debug : C09_src_offset_utc_rs_impl_Debug =
    ["v1", "Debug", "for", "Utc", "fmt(", "&", "self", "v2", "&", "v1", "Formatter", "->", "v1", "Result", "write!(", "v2", "\"Z\""] := by decide +kernel

/-- src/offset/utc.rs:impl Display -/
theorem src_offset_utc_rs_impl_Display : C09_src_offset_utc_rs_impl_Display =
    ["v1", "Display", "for", "Utc", "fmt(", "&", "self", "v2", "&", "v1", "Formatter", "->", "v1", "Result", "write!(", "v2", "\"UTC\""] := by decide +kernel

end Chrono.Pins.C09
