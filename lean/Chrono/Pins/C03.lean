/-
  PINS of property C03: the decision tokens of every item the property is anchored in
  (properties.jsonl `anchors` + tools/anchor_extra.json), as they were in /repo at 770977e when the
  model was validated against the source.  Written by tools/pin_anchors.py; the right-hand sides are
  compared by the kernel with lean/Chrono/Extracted/Anchors.lean, which tools/extractors/anchors.py
  regenerates from /repo's working tree on every check.  A theorem that fails here means: anchored
  code changed; the hand-written model may no longer mirror it.
-/
import Chrono.Extracted.Anchors
namespace Chrono.Pins.C03
open Chrono.Extracted.Anchors

/-- src/datetime/mod.rs:fn checked_add_signed -/
theorem src_datetime_mod_rs_fn_checked_add_signed : C03_src_datetime_mod_rs_fn_checked_add_signed =
    ["self", "v1", "TimeDelta", "->", "Option", "<", "DateTime", "<", "Tz", ">>", "v2", "self", "v2", "checked_add_signed(", "v1", "?", "v3", "self", "timezone(", "Some(", "v3", "from_utc_datetime(", "&", "v2"] := by decide +kernel

/-- src/datetime/mod.rs:fn checked_sub_signed -/
theorem src_datetime_mod_rs_fn_checked_sub_signed : C03_src_datetime_mod_rs_fn_checked_sub_signed =
    ["self", "v1", "TimeDelta", "->", "Option", "<", "DateTime", "<", "Tz", ">>", "v2", "self", "v2", "checked_sub_signed(", "v1", "?", "v3", "self", "timezone(", "Some(", "v3", "from_utc_datetime(", "&", "v2"] := by decide +kernel

/-- src/datetime/mod.rs:fn signed_duration_since -/
theorem src_datetime_mod_rs_fn_signed_duration_since : C03_src_datetime_mod_rs_fn_signed_duration_since =
    ["<", "Tz2", "TimeZone", ">", "self", "v1", "Borrow", "<", "DateTime", "<", "Tz2", ">>", "->", "TimeDelta", "self", "v2", "signed_duration_since(", "v1", "borrow(", "v2"] := by decide +kernel

/-- src/datetime/mod.rs:impl Add -/
theorem src_datetime_mod_rs_impl_Add : C03_src_datetime_mod_rs_impl_Add =
    ["<", "Tz", "TimeZone", ">", "Add", "<", "TimeDelta", ">", "for", "DateTime", "<", "Tz", ">", "Output", "DateTime", "<", "Tz", ">", "add(", "self", "v1", "TimeDelta", "->", "DateTime", "<", "Tz", ">", "self", "checked_add_signed(", "v1", "expect(", "\"…\"", "§", "<", "Tz", "TimeZone", ">", "Add", "<", "Duration", ">", "for", "DateTime", "<", "Tz", ">", "Output", "DateTime", "<", "Tz", ">", "add(", "self", "v1", "Duration", "->", "DateTime", "<", "Tz", ">", "v1", "TimeDelta", "from_std(", "v1", "expect(", "\"…\"", "self", "checked_add_signed(", "v1", "expect(", "\"…\"", "§", "<", "Tz", "TimeZone", ">", "Add", "<", "FixedOffset", ">", "for", "DateTime", "<", "Tz", ">", "Output", "DateTime", "<", "Tz", ">", "add(", "self", "v1", "FixedOffset", "->", "DateTime", "<", "Tz", ">", "self", "v2", "self", "naive_utc(", "checked_add_offset(", "v1", "expect(", "\"…\"", "self", "§", "<", "Tz", "TimeZone", ">", "Add", "<", "Months", ">", "for", "DateTime", "<", "Tz", ">", "Output", "DateTime", "<", "Tz", ">", "add(", "self", "v1", "Months", "->", "Self", "Output", "self", "checked_add_months(", "v1", "expect(", "\"…\"", "§", "<", "Tz", "TimeZone", ">", "Add", "<", "Days", ">", "for", "DateTime", "<", "Tz", ">", "Output", "DateTime", "<", "Tz", ">", "add(", "self", "v1", "Days", "->", "Self", "Output", "self", "checked_add_days(", "v1", "expect(", "\"…\""] := by decide +kernel

/-- src/datetime/mod.rs:impl AddAssign -/
theorem src_datetime_mod_rs_impl_AddAssign : C03_src_datetime_mod_rs_impl_AddAssign =
    ["<", "Tz", "TimeZone", ">", "AddAssign", "<", "TimeDelta", ">", "for", "DateTime", "<", "Tz", ">", "add_assign(", "&", "self", "v1", "TimeDelta", "v2", "self", "v2", "checked_add_signed(", "v1", "expect(", "\"…\"", "v3", "self", "timezone(", "*", "self", "v3", "from_utc_datetime(", "&", "v2", "§", "<", "Tz", "TimeZone", ">", "AddAssign", "<", "Duration", ">", "for", "DateTime", "<", "Tz", ">", "add_assign(", "&", "self", "v1", "Duration", "v1", "TimeDelta", "from_std(", "v1", "expect(", "\"…\"", "*", "self", "+=", "v1"] := by decide +kernel

/-- src/datetime/mod.rs:impl Ord -/
theorem src_datetime_mod_rs_impl_Ord : C03_src_datetime_mod_rs_impl_Ord =
    ["<", "Tz", "TimeZone", ">", "Ord", "for", "DateTime", "<", "Tz", ">", "cmp(", "&", "self", "v1", "&", "DateTime", "<", "Tz", ">", "->", "Ordering", "self", "v2", "cmp(", "&", "v1", "v2"] := by decide +kernel

/-- src/datetime/mod.rs:impl PartialEq -/
theorem src_datetime_mod_rs_impl_PartialEq : C03_src_datetime_mod_rs_impl_PartialEq =
    ["<", "Tz", "TimeZone", "Tz2", "TimeZone", ">", "PartialEq", "<", "DateTime", "<", "Tz2", ">>", "for", "DateTime", "<", "Tz", ">", "eq(", "&", "self", "v1", "&", "DateTime", "<", "Tz2", ">", "->", "bool", "self", "v2", "==", "v1", "v2"] := by decide +kernel

/-- src/datetime/mod.rs:impl PartialOrd -/
theorem src_datetime_mod_rs_impl_PartialOrd : C03_src_datetime_mod_rs_impl_PartialOrd =
    ["<", "Tz", "TimeZone", "Tz2", "TimeZone", ">", "PartialOrd", "<", "DateTime", "<", "Tz2", ">>", "for", "DateTime", "<", "Tz", ">", "partial_cmp(", "&", "self", "v1", "&", "DateTime", "<", "Tz2", ">", "->", "Option", "<", "Ordering", ">", "self", "v2", "partial_cmp(", "&", "v1", "v2"] := by decide +kernel

/-- src/datetime/mod.rs:impl Sub -/
theorem src_datetime_mod_rs_impl_Sub : C03_src_datetime_mod_rs_impl_Sub =
    ["<", "Tz", "TimeZone", ">", "Sub", "<", "TimeDelta", ">", "for", "DateTime", "<", "Tz", ">", "Output", "DateTime", "<", "Tz", ">", "sub(", "self", "v1", "TimeDelta", "->", "DateTime", "<", "Tz", ">", "self", "checked_sub_signed(", "v1", "expect(", "\"…\"", "§", "<", "Tz", "TimeZone", ">", "Sub", "<", "Duration", ">", "for", "DateTime", "<", "Tz", ">", "Output", "DateTime", "<", "Tz", ">", "sub(", "self", "v1", "Duration", "->", "DateTime", "<", "Tz", ">", "v1", "TimeDelta", "from_std(", "v1", "expect(", "\"…\"", "self", "checked_sub_signed(", "v1", "expect(", "\"…\"", "§", "<", "Tz", "TimeZone", ">", "Sub", "<", "FixedOffset", ">", "for", "DateTime", "<", "Tz", ">", "Output", "DateTime", "<", "Tz", ">", "sub(", "self", "v1", "FixedOffset", "->", "DateTime", "<", "Tz", ">", "self", "v2", "self", "naive_utc(", "checked_sub_offset(", "v1", "expect(", "\"…\"", "self", "§", "<", "Tz", "TimeZone", ">", "Sub", "<", "Months", ">", "for", "DateTime", "<", "Tz", ">", "Output", "DateTime", "<", "Tz", ">", "sub(", "self", "v1", "Months", "->", "Self", "Output", "self", "checked_sub_months(", "v1", "expect(", "\"…\"", "§", "<", "Tz", "TimeZone", ">", "Sub", "<", "DateTime", "<", "Tz", ">>", "for", "DateTime", "<", "Tz", ">", "Output", "TimeDelta", "sub(", "self", "v1", "DateTime", "<", "Tz", ">", "->", "TimeDelta", "self", "signed_duration_since(", "v1", "§", "<", "Tz", "TimeZone", ">", "Sub", "<", "&", "DateTime", "<", "Tz", ">>", "for", "DateTime", "<", "Tz", ">", "Output", "TimeDelta", "sub(", "self", "v1", "&", "DateTime", "<", "Tz", ">", "->", "TimeDelta", "self", "signed_duration_since(", "v1", "§", "<", "Tz", "TimeZone", ">", "Sub", "<", "Days", ">", "for", "DateTime", "<", "Tz", ">", "Output", "DateTime", "<", "Tz", ">", "sub(", "self", "v1", "Days", "->", "Self", "Output", "self", "checked_sub_days(", "v1", "expect(", "\"…\""] := by decide +kernel

/-- src/datetime/mod.rs:impl SubAssign -/
theorem src_datetime_mod_rs_impl_SubAssign : C03_src_datetime_mod_rs_impl_SubAssign =
    ["<", "Tz", "TimeZone", ">", "SubAssign", "<", "TimeDelta", ">", "for", "DateTime", "<", "Tz", ">", "sub_assign(", "&", "self", "v1", "TimeDelta", "v2", "self", "v2", "checked_sub_signed(", "v1", "expect(", "\"…\"", "v3", "self", "timezone(", "*", "self", "v3", "from_utc_datetime(", "&", "v2", "§", "<", "Tz", "TimeZone", ">", "SubAssign", "<", "Duration", ">", "for", "DateTime", "<", "Tz", ">", "sub_assign(", "&", "self", "v1", "Duration", "v1", "TimeDelta", "from_std(", "v1", "expect(", "\"…\"", "*", "self", "-=", "v1"] := by decide +kernel

/-- src/naive/date/mod.rs:fn add_days -/
theorem src_naive_date_mod_rs_fn_add_days : C03_src_naive_date_mod_rs_fn_add_days =
    ["self", "v1", "i32", "->", "Option", "<", "Self", ">", "ORDINAL_MASK", "i32", "8176", "if", "Some(", "v2", "self", "yof(", "&", "ORDINAL_MASK", ">>", "4", "checked_add(", "v1", "if", "v2", ">", "0", "&&", "v2", "<=", "365", "+", "self", "leap_year(", "as", "i32", "v3", "self", "yof(", "&", "!", "ORDINAL_MASK", "return", "Some(", "NaiveDate", "from_yof(", "v3", "|", "v2", "<<", "4", "v4", "self", "year(", "let(", "v5", "v6", "div_mod_floor(", "v4", "400", "v7", "yo_to_cycle(", "v6", "as", "u32", "self", "ordinal(", "v7", "try_opt!(", "v7", "as", "i32", "checked_add(", "v1", "let(", "v8", "v7", "div_mod_floor(", "v7", "146097", "v5", "+=", "v8", "let(", "v6", "v2", "cycle_to_yo(", "v7", "as", "u32", "v9", "YearFlags", "from_year_mod_400(", "v6", "as", "i32", "NaiveDate", "from_ordinal_and_flags(", "v5", "*", "400", "+", "v6", "as", "i32", "v2", "v9"] := by decide +kernel

/-- src/naive/date/mod.rs:fn checked_add_days -/
theorem src_naive_date_mod_rs_fn_checked_add_days : C03_src_naive_date_mod_rs_fn_checked_add_days =
    ["self", "v1", "Days", "->", "Option", "<", "Self", ">", "match", "v1", "<=", "i32", "MAX", "as", "u64", "true", "=>", "self", "add_days(", "v1", "as", "i32", "false", "=>", "None"] := by decide +kernel

/-- src/naive/date/mod.rs:fn checked_add_signed -/
theorem src_naive_date_mod_rs_fn_checked_add_signed : C03_src_naive_date_mod_rs_fn_checked_add_signed =
    ["self", "v1", "TimeDelta", "->", "Option", "<", "NaiveDate", ">", "v2", "v1", "num_days(", "if", "v2", "<", "i32", "MIN", "as", "i64", "||", "v2", ">", "i32", "MAX", "as", "i64", "return", "None", "self", "add_days(", "v2", "as", "i32"] := by decide +kernel

/-- src/naive/date/mod.rs:fn checked_sub_days -/
theorem src_naive_date_mod_rs_fn_checked_sub_days : C03_src_naive_date_mod_rs_fn_checked_sub_days =
    ["self", "v1", "Days", "->", "Option", "<", "Self", ">", "match", "v1", "<=", "i32", "MAX", "as", "u64", "true", "=>", "self", "add_days(", "-", "v1", "as", "i32", "false", "=>", "None"] := by decide +kernel

/-- src/naive/date/mod.rs:fn checked_sub_signed -/
theorem src_naive_date_mod_rs_fn_checked_sub_signed : C03_src_naive_date_mod_rs_fn_checked_sub_signed =
    ["self", "v1", "TimeDelta", "->", "Option", "<", "NaiveDate", ">", "v2", "-", "v1", "num_days(", "if", "v2", "<", "i32", "MIN", "as", "i64", "||", "v2", ">", "i32", "MAX", "as", "i64", "return", "None", "self", "add_days(", "v2", "as", "i32"] := by decide +kernel

/-- src/naive/date/mod.rs:fn iter_days -/
theorem src_naive_date_mod_rs_fn_iter_days : C03_src_naive_date_mod_rs_fn_iter_days =
    ["&", "self", "->", "NaiveDateDaysIterator", "NaiveDateDaysIterator", "v1", "*", "self"] := by decide +kernel

/-- src/naive/date/mod.rs:fn iter_weeks -/
theorem src_naive_date_mod_rs_fn_iter_weeks : C03_src_naive_date_mod_rs_fn_iter_weeks =
    ["&", "self", "->", "NaiveDateWeeksIterator", "NaiveDateWeeksIterator", "v1", "*", "self"] := by decide +kernel

/-- src/naive/date/mod.rs:fn signed_duration_since -/
theorem src_naive_date_mod_rs_fn_signed_duration_since : C03_src_naive_date_mod_rs_fn_signed_duration_since =
    ["self", "v1", "NaiveDate", "->", "TimeDelta", "v2", "self", "year(", "v3", "v1", "year(", "let(", "v4", "v5", "div_mod_floor(", "v2", "400", "let(", "v6", "v7", "div_mod_floor(", "v3", "400", "v8", "yo_to_cycle(", "v5", "as", "u32", "self", "ordinal(", "as", "i64", "v9", "yo_to_cycle(", "v7", "as", "u32", "v1", "ordinal(", "as", "i64", "v10", "v4", "as", "i64", "-", "v6", "as", "i64", "*", "146097", "+", "v8", "-", "v9", "expect(", "TimeDelta", "try_days(", "v10", "\"…\""] := by decide +kernel

/-- src/naive/date/mod.rs:impl Add -/
theorem src_naive_date_mod_rs_impl_Add : C03_src_naive_date_mod_rs_impl_Add =
    ["Add", "<", "TimeDelta", ">", "for", "NaiveDate", "Output", "NaiveDate", "add(", "self", "v1", "TimeDelta", "->", "NaiveDate", "self", "checked_add_signed(", "v1", "expect(", "\"…\"", "§", "Add", "<", "Months", ">", "for", "NaiveDate", "Output", "NaiveDate", "add(", "self", "v1", "Months", "->", "Self", "Output", "self", "checked_add_months(", "v1", "expect(", "\"…\"", "§", "Add", "<", "Days", ">", "for", "NaiveDate", "Output", "NaiveDate", "add(", "self", "v1", "Days", "->", "Self", "Output", "self", "checked_add_days(", "v1", "expect(", "\"…\""] := by decide +kernel

/-- src/naive/date/mod.rs:impl AddAssign -/
theorem src_naive_date_mod_rs_impl_AddAssign : C03_src_naive_date_mod_rs_impl_AddAssign =
    ["AddAssign", "<", "TimeDelta", ">", "for", "NaiveDate", "add_assign(", "&", "self", "v1", "TimeDelta", "*", "self", "self", "add(", "v1"] := by decide +kernel

/-- src/naive/date/mod.rs:impl Sub -/
theorem src_naive_date_mod_rs_impl_Sub : C03_src_naive_date_mod_rs_impl_Sub =
    ["Sub", "<", "Months", ">", "for", "NaiveDate", "Output", "NaiveDate", "sub(", "self", "v1", "Months", "->", "Self", "Output", "self", "checked_sub_months(", "v1", "expect(", "\"…\"", "§", "Sub", "<", "Days", ">", "for", "NaiveDate", "Output", "NaiveDate", "sub(", "self", "v1", "Days", "->", "Self", "Output", "self", "checked_sub_days(", "v1", "expect(", "\"…\"", "§", "Sub", "<", "TimeDelta", ">", "for", "NaiveDate", "Output", "NaiveDate", "sub(", "self", "v1", "TimeDelta", "->", "NaiveDate", "self", "checked_sub_signed(", "v1", "expect(", "\"…\"", "§", "Sub", "<", "NaiveDate", ">", "for", "NaiveDate", "Output", "TimeDelta", "sub(", "self", "v1", "NaiveDate", "->", "TimeDelta", "self", "signed_duration_since(", "v1"] := by decide +kernel

/-- src/naive/date/mod.rs:impl SubAssign -/
theorem src_naive_date_mod_rs_impl_SubAssign : C03_src_naive_date_mod_rs_impl_SubAssign =
    ["SubAssign", "<", "TimeDelta", ">", "for", "NaiveDate", "sub_assign(", "&", "self", "v1", "TimeDelta", "*", "self", "self", "sub(", "v1"] := by decide +kernel

/-- src/naive/date/mod.rs:type NaiveDateDaysIterator -/
theorem src_naive_date_mod_rs_type_NaiveDateDaysIterator : C03_src_naive_date_mod_rs_type_NaiveDateDaysIterator =
    ["v1", "NaiveDate", "§", "Iterator", "for", "NaiveDateDaysIterator", "Item", "NaiveDate", "next(", "&", "self", "->", "Option", "<", "Self", "Item", ">", "v1", "self", "v2", "self", "v2", "v1", "succ_opt(", "?", "Some(", "v1", "size_hint(", "&", "self", "->", "usize", "Option", "<", "usize", ">", "v3", "NaiveDate", "MAX", "signed_duration_since(", "self", "v2", "num_days(", "v3", "as", "usize", "Some(", "v3", "as", "usize", "§", "ExactSizeIterator", "for", "NaiveDateDaysIterator", "§", "DoubleEndedIterator", "for", "NaiveDateDaysIterator", "next_back(", "&", "self", "->", "Option", "<", "Self", "Item", ">", "v1", "self", "v2", "self", "v2", "v1", "pred_opt(", "?", "Some(", "v1", "§", "FusedIterator", "for", "NaiveDateDaysIterator"] := by decide +kernel

/-- src/naive/date/mod.rs:type NaiveDateWeeksIterator -/
theorem src_naive_date_mod_rs_type_NaiveDateWeeksIterator : C03_src_naive_date_mod_rs_type_NaiveDateWeeksIterator =
    ["v1", "NaiveDate", "§", "Iterator", "for", "NaiveDateWeeksIterator", "Item", "NaiveDate", "next(", "&", "self", "->", "Option", "<", "Self", "Item", ">", "v1", "self", "v2", "self", "v2", "v1", "checked_add_days(", "Days", "new(", "7", "?", "Some(", "v1", "size_hint(", "&", "self", "->", "usize", "Option", "<", "usize", ">", "v3", "NaiveDate", "MAX", "signed_duration_since(", "self", "v2", "num_weeks(", "v3", "as", "usize", "Some(", "v3", "as", "usize", "§", "ExactSizeIterator", "for", "NaiveDateWeeksIterator", "§", "DoubleEndedIterator", "for", "NaiveDateWeeksIterator", "next_back(", "&", "self", "->", "Option", "<", "Self", "Item", ">", "v1", "self", "v2", "self", "v2", "v1", "checked_sub_days(", "Days", "new(", "7", "?", "Some(", "v1", "§", "FusedIterator", "for", "NaiveDateWeeksIterator"] := by decide +kernel

/-- src/naive/datetime/mod.rs:fn checked_add_days -/
theorem src_naive_datetime_mod_rs_fn_checked_add_days : C03_src_naive_datetime_mod_rs_fn_checked_add_days =
    ["self", "v1", "Days", "->", "Option", "<", "Self", ">", "Some(", "Self", "v2", "try_opt!(", "self", "v2", "checked_add_days(", "v1", "..", "self"] := by decide +kernel

/-- src/naive/datetime/mod.rs:fn checked_add_signed -/
theorem src_naive_datetime_mod_rs_fn_checked_add_signed : C03_src_naive_datetime_mod_rs_fn_checked_add_signed =
    ["self", "v1", "TimeDelta", "->", "Option", "<", "NaiveDateTime", ">", "let(", "v2", "v3", "self", "v2", "overflowing_add_signed(", "v1", "v3", "try_opt!(", "TimeDelta", "try_seconds(", "v3", "v4", "try_opt!(", "self", "v4", "checked_add_signed(", "v3", "Some(", "NaiveDateTime", "v4", "v2"] := by decide +kernel

/-- src/naive/datetime/mod.rs:fn checked_sub_days -/
theorem src_naive_datetime_mod_rs_fn_checked_sub_days : C03_src_naive_datetime_mod_rs_fn_checked_sub_days =
    ["self", "v1", "Days", "->", "Option", "<", "Self", ">", "Some(", "Self", "v2", "try_opt!(", "self", "v2", "checked_sub_days(", "v1", "..", "self"] := by decide +kernel

/-- src/naive/datetime/mod.rs:fn checked_sub_signed -/
theorem src_naive_datetime_mod_rs_fn_checked_sub_signed : C03_src_naive_datetime_mod_rs_fn_checked_sub_signed =
    ["self", "v1", "TimeDelta", "->", "Option", "<", "NaiveDateTime", ">", "let(", "v2", "v3", "self", "v2", "overflowing_sub_signed(", "v1", "v3", "try_opt!(", "TimeDelta", "try_seconds(", "v3", "v4", "try_opt!(", "self", "v4", "checked_sub_signed(", "v3", "Some(", "NaiveDateTime", "v4", "v2"] := by decide +kernel

/-- src/naive/datetime/mod.rs:fn signed_duration_since -/
theorem src_naive_datetime_mod_rs_fn_signed_duration_since : C03_src_naive_datetime_mod_rs_fn_signed_duration_since =
    ["self", "v1", "NaiveDateTime", "->", "TimeDelta", "expect(", "self", "v2", "signed_duration_since(", "v1", "v2", "checked_add(", "&", "self", "v3", "signed_duration_since(", "v1", "v3", "\"…\""] := by decide +kernel

/-- src/naive/datetime/mod.rs:impl Add -/
theorem src_naive_datetime_mod_rs_impl_Add : C03_src_naive_datetime_mod_rs_impl_Add =
    ["Add", "<", "TimeDelta", ">", "for", "NaiveDateTime", "Output", "NaiveDateTime", "add(", "self", "v1", "TimeDelta", "->", "NaiveDateTime", "self", "checked_add_signed(", "v1", "expect(", "\"…\"", "§", "Add", "<", "Duration", ">", "for", "NaiveDateTime", "Output", "NaiveDateTime", "add(", "self", "v1", "Duration", "->", "NaiveDateTime", "v1", "TimeDelta", "from_std(", "v1", "expect(", "\"…\"", "self", "checked_add_signed(", "v1", "expect(", "\"…\"", "§", "Add", "<", "FixedOffset", ">", "for", "NaiveDateTime", "Output", "NaiveDateTime", "add(", "self", "v1", "FixedOffset", "->", "NaiveDateTime", "self", "checked_add_offset(", "v1", "expect(", "\"…\"", "§", "Add", "<", "Months", ">", "for", "NaiveDateTime", "Output", "NaiveDateTime", "add(", "self", "v1", "Months", "->", "Self", "Output", "self", "checked_add_months(", "v1", "expect(", "\"…\"", "§", "Add", "<", "Days", ">", "for", "NaiveDateTime", "Output", "NaiveDateTime", "add(", "self", "v1", "Days", "->", "Self", "Output", "self", "checked_add_days(", "v1", "expect(", "\"…\""] := by decide +kernel

/-- src/naive/datetime/mod.rs:impl AddAssign -/
theorem src_naive_datetime_mod_rs_impl_AddAssign : C03_src_naive_datetime_mod_rs_impl_AddAssign =
    ["AddAssign", "<", "TimeDelta", ">", "for", "NaiveDateTime", "add_assign(", "&", "self", "v1", "TimeDelta", "*", "self", "self", "add(", "v1", "§", "AddAssign", "<", "Duration", ">", "for", "NaiveDateTime", "add_assign(", "&", "self", "v1", "Duration", "*", "self", "self", "add(", "v1"] := by decide +kernel

/-- src/naive/datetime/mod.rs:impl Sub -/
theorem src_naive_datetime_mod_rs_impl_Sub : C03_src_naive_datetime_mod_rs_impl_Sub =
    ["Sub", "<", "TimeDelta", ">", "for", "NaiveDateTime", "Output", "NaiveDateTime", "sub(", "self", "v1", "TimeDelta", "->", "NaiveDateTime", "self", "checked_sub_signed(", "v1", "expect(", "\"…\"", "§", "Sub", "<", "Duration", ">", "for", "NaiveDateTime", "Output", "NaiveDateTime", "sub(", "self", "v1", "Duration", "->", "NaiveDateTime", "v1", "TimeDelta", "from_std(", "v1", "expect(", "\"…\"", "self", "checked_sub_signed(", "v1", "expect(", "\"…\"", "§", "Sub", "<", "FixedOffset", ">", "for", "NaiveDateTime", "Output", "NaiveDateTime", "sub(", "self", "v1", "FixedOffset", "->", "NaiveDateTime", "self", "checked_sub_offset(", "v1", "expect(", "\"…\"", "§", "Sub", "<", "Months", ">", "for", "NaiveDateTime", "Output", "NaiveDateTime", "sub(", "self", "v1", "Months", "->", "Self", "Output", "self", "checked_sub_months(", "v1", "expect(", "\"…\"", "§", "Sub", "<", "NaiveDateTime", ">", "for", "NaiveDateTime", "Output", "TimeDelta", "sub(", "self", "v1", "NaiveDateTime", "->", "TimeDelta", "self", "signed_duration_since(", "v1", "§", "Sub", "<", "Days", ">", "for", "NaiveDateTime", "Output", "NaiveDateTime", "sub(", "self", "v1", "Days", "->", "Self", "Output", "self", "checked_sub_days(", "v1", "expect(", "\"…\""] := by decide +kernel

/-- src/naive/datetime/mod.rs:impl SubAssign -/
theorem src_naive_datetime_mod_rs_impl_SubAssign : C03_src_naive_datetime_mod_rs_impl_SubAssign =
    ["SubAssign", "<", "TimeDelta", ">", "for", "NaiveDateTime", "sub_assign(", "&", "self", "v1", "TimeDelta", "*", "self", "self", "sub(", "v1", "§", "SubAssign", "<", "Duration", ">", "for", "NaiveDateTime", "sub_assign(", "&", "self", "v1", "Duration", "*", "self", "self", "sub(", "v1"] := by decide +kernel

/-- src/naive/time/mod.rs:fn overflowing_add_signed -/
theorem src_naive_time_mod_rs_fn_overflowing_add_signed : C03_src_naive_time_mod_rs_fn_overflowing_add_signed =
    ["&", "self", "v1", "TimeDelta", "->", "NaiveTime", "i64", "v2", "self", "v2", "as", "i64", "v3", "self", "v3", "as", "i32", "v4", "v1", "num_seconds(", "v5", "v1", "subsec_nanos(", "if", "v3", ">=", "1000000000", "if", "v4", ">", "0", "||", "v5", ">", "0", "&&", "v3", ">=", "2000000000", "-", "v5", "v3", "-=", "1000000000", "else", "if", "v4", "<", "0", "v3", "-=", "1000000000", "v2", "+=", "1", "else", "return(", "NaiveTime", "v2", "self", "v2", "v3", "v3", "+", "v5", "as", "u32", "0", "v2", "v2", "+", "v4", "v3", "+=", "v5", "if", "v3", "<", "0", "v3", "+=", "1000000000", "v2", "-=", "1", "else", "if", "v3", ">=", "1000000000", "v3", "-=", "1000000000", "v2", "+=", "1", "v6", "v2", "rem_euclid(", "86400", "v7", "v2", "-", "v6", "NaiveTime", "v2", "v6", "as", "u32", "v3", "v3", "as", "u32", "v7"] := by decide +kernel

/-- callee src/datetime/mod.rs:fn from_naive_utc_and_offset -/
theorem callee_src_datetime_mod_rs_fn_from_naive_utc_and_offset : C03_callee_src_datetime_mod_rs_fn_from_naive_utc_and_offset =
    ["v1", "NaiveDateTime", "v2", "Tz", "Offset", "->", "DateTime", "<", "Tz", ">", "DateTime", "v1", "v2"] := by decide +kernel

/-- callee src/naive/date/mod.rs:fn cycle_to_yo -/
theorem callee_src_naive_date_mod_rs_fn_cycle_to_yo : C03_callee_src_naive_date_mod_rs_fn_cycle_to_yo =
    ["v1", "u32", "->", "u32", "u32", "v2", "v1", "/", "365", "v3", "v1", "%", "365", "v4", "YEAR_DELTAS", "v2", "as", "usize", "as", "u32", "if", "v3", "<", "v4", "v2", "-=", "1", "v3", "+=", "365", "-", "YEAR_DELTAS", "v2", "as", "usize", "as", "u32", "else", "v3", "-=", "v4", "v2", "v3", "+", "1"] := by decide +kernel

/-- callee src/naive/date/mod.rs:fn div_mod_floor -/
theorem callee_src_naive_date_mod_rs_fn_div_mod_floor : C03_callee_src_naive_date_mod_rs_fn_div_mod_floor =
    ["v1", "i32", "v2", "i32", "->", "i32", "i32", "v1", "div_euclid(", "v2", "v1", "rem_euclid(", "v2"] := by decide +kernel

/-- callee src/naive/date/mod.rs:fn from_ordinal_and_flags -/
theorem callee_src_naive_date_mod_rs_fn_from_ordinal_and_flags : C03_callee_src_naive_date_mod_rs_fn_from_ordinal_and_flags =
    ["v1", "i32", "v2", "u32", "v3", "YearFlags", "->", "Option", "<", "NaiveDate", ">", "if", "v1", "<", "MIN_YEAR", "||", "v1", ">", "MAX_YEAR", "return", "None", "if", "v2", "==", "0", "||", "v2", ">", "366", "return", "None", "debug_assert!(", "YearFlags", "from_year(", "v1", "==", "v3", "v4", "v1", "<<", "13", "|", "v2", "<<", "4", "as", "i32", "|", "v3", "as", "i32", "match", "v4", "&", "OL_MASK", "<=", "MAX_OL", "true", "=>", "Some(", "NaiveDate", "from_yof(", "v4", "false", "=>", "None"] := by decide +kernel

/-- callee src/naive/date/mod.rs:fn leap_year -/
theorem callee_src_naive_date_mod_rs_fn_leap_year : C03_callee_src_naive_date_mod_rs_fn_leap_year =
    ["&", "self", "->", "bool", "self", "yof(", "&", "8", "==", "0"] := by decide +kernel

/-- callee src/naive/date/mod.rs:fn yo_to_cycle -/
theorem callee_src_naive_date_mod_rs_fn_yo_to_cycle : C03_callee_src_naive_date_mod_rs_fn_yo_to_cycle =
    ["v1", "u32", "v2", "u32", "->", "u32", "v1", "*", "365", "+", "YEAR_DELTAS", "v1", "as", "usize", "as", "u32", "+", "v2", "-", "1"] := by decide +kernel

/-- callee src/naive/date/mod.rs:fn yof -/
theorem callee_src_naive_date_mod_rs_fn_yof : C03_callee_src_naive_date_mod_rs_fn_yof =
    ["&", "self", "->", "i32", "self", "v1", "get("] := by decide +kernel

/-- callee src/naive/datetime/mod.rs:fn checked_add_offset -/
theorem callee_src_naive_datetime_mod_rs_fn_checked_add_offset : C03_callee_src_naive_datetime_mod_rs_fn_checked_add_offset =
    ["self", "v1", "FixedOffset", "->", "Option", "<", "NaiveDateTime", ">", "let(", "v2", "v3", "self", "v2", "overflowing_add_offset(", "v1", "v4", "match", "v3", "-", "1", "=>", "try_opt!(", "self", "v4", "pred_opt(", "1", "=>", "try_opt!(", "self", "v4", "succ_opt(", "v5", "=>", "self", "v4", "Some(", "NaiveDateTime", "v4", "v2"] := by decide +kernel

/-- callee src/naive/datetime/mod.rs:fn checked_sub_offset -/
theorem callee_src_naive_datetime_mod_rs_fn_checked_sub_offset : C03_callee_src_naive_datetime_mod_rs_fn_checked_sub_offset =
    ["self", "v1", "FixedOffset", "->", "Option", "<", "NaiveDateTime", ">", "let(", "v2", "v3", "self", "v2", "overflowing_sub_offset(", "v1", "v4", "match", "v3", "-", "1", "=>", "try_opt!(", "self", "v4", "pred_opt(", "1", "=>", "try_opt!(", "self", "v4", "succ_opt(", "v5", "=>", "self", "v4", "Some(", "NaiveDateTime", "v4", "v2"] := by decide +kernel

/-- callee src/naive/internals.rs:fn from_year -/
theorem callee_src_naive_internals_rs_fn_from_year : C03_callee_src_naive_internals_rs_fn_from_year =
    ["v1", "i32", "->", "YearFlags", "v1", "v1", "rem_euclid(", "400", "YearFlags", "from_year_mod_400(", "v1"] := by decide +kernel

/-- callee src/naive/internals.rs:fn from_year_mod_400 -/
theorem callee_src_naive_internals_rs_fn_from_year_mod_400 : C03_callee_src_naive_internals_rs_fn_from_year_mod_400 =
    ["v1", "i32", "->", "YearFlags", "YEAR_TO_FLAGS", "v1", "as", "usize"] := by decide +kernel

/-- callee src/naive/time/mod.rs:fn overflowing_sub_signed -/
theorem callee_src_naive_time_mod_rs_fn_overflowing_sub_signed : C03_callee_src_naive_time_mod_rs_fn_overflowing_sub_signed =
    ["&", "self", "v1", "TimeDelta", "->", "NaiveTime", "i64", "let(", "v2", "v1", "self", "overflowing_add_signed(", "v1", "neg(", "v2", "-", "v1"] := by decide +kernel

/-- callee src/offset/mod.rs:fn from_utc_datetime -/
theorem callee_src_offset_mod_rs_fn_from_utc_datetime : C03_callee_src_offset_mod_rs_fn_from_utc_datetime =
    ["&", "self", "v1", "&", "NaiveDateTime", "->", "DateTime", "<", "Self", ">", "DateTime", "from_naive_utc_and_offset(", "*", "v1", "self", "offset_from_utc_datetime(", "v1"] := by decide +kernel

/-- callee src/time_delta.rs:fn from_std -/
theorem callee_src_time_delta_rs_fn_from_std : C03_callee_src_time_delta_rs_fn_from_std =
    ["v1", "Duration", "->", "Result", "<", "TimeDelta", "OutOfRangeError", ">", "if", "v1", "as_secs(", ">", "MAX", "v2", "as", "u64", "return", "Err(", "OutOfRangeError(", "match", "TimeDelta", "new(", "v1", "as_secs(", "as", "i64", "v1", "subsec_nanos(", "Some(", "v3", "=>", "Ok(", "v3", "None", "=>", "Err(", "OutOfRangeError("] := by decide +kernel

/-- callee src/time_delta.rs:fn num_seconds -/
theorem callee_src_time_delta_rs_fn_num_seconds : C03_callee_src_time_delta_rs_fn_num_seconds =
    ["&", "self", "->", "i64", "if", "self", "v1", "<", "0", "&&", "self", "v2", ">", "0", "self", "v1", "+", "1", "else", "self", "v1"] := by decide +kernel

/-- callee src/time_delta.rs:fn num_weeks -/
theorem callee_src_time_delta_rs_fn_num_weeks : C03_callee_src_time_delta_rs_fn_num_weeks =
    ["&", "self", "->", "i64", "self", "num_days(", "/", "7"] := by decide +kernel

/-- callee src/time_delta.rs:fn subsec_nanos -/
theorem callee_src_time_delta_rs_fn_subsec_nanos : C03_callee_src_time_delta_rs_fn_subsec_nanos =
    ["&", "self", "->", "i32", "if", "self", "v1", "<", "0", "&&", "self", "v2", ">", "0", "self", "v2", "-", "NANOS_PER_SEC", "else", "self", "v2"] := by decide +kernel

/-- callee src/time_delta.rs:fn try_days -/
theorem callee_src_time_delta_rs_fn_try_days : C03_callee_src_time_delta_rs_fn_try_days =
    ["v1", "i64", "->", "Option", "<", "TimeDelta", ">", "TimeDelta", "try_seconds(", "try_opt!(", "v1", "checked_mul(", "SECS_PER_DAY"] := by decide +kernel

/-- callee src/time_delta.rs:fn try_seconds -/
theorem callee_src_time_delta_rs_fn_try_seconds : C03_callee_src_time_delta_rs_fn_try_seconds =
    ["v1", "i64", "->", "Option", "<", "TimeDelta", ">", "TimeDelta", "new(", "v1", "0"] := by decide +kernel

end Chrono.Pins.C03
