/-
  PINS of property C08: the decision tokens of every item the property is anchored in
  (properties.jsonl `anchors` + tools/anchor_extra.json), as they were in /repo at 32de816 when the
  model was validated against the source.  Written by tools/pin_anchors.py; the right-hand sides are
  compared by the kernel with lean/Chrono/Extracted/Anchors.lean, which tools/extractors/anchors.py
  regenerates from /repo's working tree on every check.  A theorem that fails here means: anchored
  code changed; the hand-written model may no longer mirror it.
-/
import Chrono.Extracted.Anchors
namespace Chrono.Pins.C08
open Chrono.Extracted.Anchors

/-- src/datetime/mod.rs:fn checked_add_months -/
theorem src_datetime_mod_rs_fn_checked_add_months : C08_src_datetime_mod_rs_fn_checked_add_months =
    ["self", "v1", "Months", "->", "Option", "<", "DateTime", "<", "Tz", ">>", "self", "overflowing_naive_local(", "checked_add_months(", "v1", "?", "and_local_timezone(", "Tz", "from_offset(", "&", "self", "v2", "single("] := by decide +kernel

/-- src/datetime/mod.rs:fn checked_sub_months -/
theorem src_datetime_mod_rs_fn_checked_sub_months : C08_src_datetime_mod_rs_fn_checked_sub_months =
    ["self", "v1", "Months", "->", "Option", "<", "DateTime", "<", "Tz", ">>", "self", "overflowing_naive_local(", "checked_sub_months(", "v1", "?", "and_local_timezone(", "Tz", "from_offset(", "&", "self", "v2", "single("] := by decide +kernel

/-- src/datetime/mod.rs:fn years_since -/
theorem src_datetime_mod_rs_fn_years_since : C08_src_datetime_mod_rs_fn_years_since =
    ["&", "self", "v1", "Self", "->", "Option", "<", "u32", ">", "v2", "self", "year(", "-", "v1", "year(", "v3", "self", "month(", "self", "day(", "self", "time(", "<", "v1", "month(", "v1", "day(", "v1", "time(", "v2", "-=", "match", "v3", "true", "=>", "1", "false", "=>", "0", "match", "v2", ">=", "0", "true", "=>", "Some(", "v2", "as", "u32", "false", "=>", "None"] := by decide +kernel

/-- src/datetime/mod.rs:impl Datelike for DateTime -/
theorem src_datetime_mod_rs_impl_Datelike_for_DateTime : C08_src_datetime_mod_rs_impl_Datelike_for_DateTime =
    ["<", "Tz", "TimeZone", ">", "Datelike", "for", "DateTime", "<", "Tz", ">", "year(", "&", "self", "->", "i32", "self", "overflowing_naive_local(", "year(", "month(", "&", "self", "->", "u32", "self", "overflowing_naive_local(", "month(", "month0(", "&", "self", "->", "u32", "self", "overflowing_naive_local(", "month0(", "day(", "&", "self", "->", "u32", "self", "overflowing_naive_local(", "day(", "day0(", "&", "self", "->", "u32", "self", "overflowing_naive_local(", "day0(", "ordinal(", "&", "self", "->", "u32", "self", "overflowing_naive_local(", "ordinal(", "ordinal0(", "&", "self", "->", "u32", "self", "overflowing_naive_local(", "ordinal0(", "weekday(", "&", "self", "->", "Weekday", "self", "overflowing_naive_local(", "weekday(", "iso_week(", "&", "self", "->", "IsoWeek", "self", "overflowing_naive_local(", "iso_week(", "with_year(", "&", "self", "v1", "i32", "->", "Option", "<", "DateTime", "<", "Tz", ">>", "map_local(", "self", "|", "v2", "|", "match", "v2", "year(", "==", "v1", "true", "=>", "Some(", "v2", "false", "=>", "v2", "with_year(", "v1", "with_month(", "&", "self", "v3", "u32", "->", "Option", "<", "DateTime", "<", "Tz", ">>", "map_local(", "self", "|", "v4", "|", "v4", "with_month(", "v3", "with_month0(", "&", "self", "v5", "u32", "->", "Option", "<", "DateTime", "<", "Tz", ">>", "map_local(", "self", "|", "v4", "|", "v4", "with_month0(", "v5", "with_day(", "&", "self", "v6", "u32", "->", "Option", "<", "DateTime", "<", "Tz", ">>", "map_local(", "self", "|", "v4", "|", "v4", "with_day(", "v6", "with_day0(", "&", "self", "v7", "u32", "->", "Option", "<", "DateTime", "<", "Tz", ">>", "map_local(", "self", "|", "v4", "|", "v4", "with_day0(", "v7", "with_ordinal(", "&", "self", "v8", "u32", "->", "Option", "<", "DateTime", "<", "Tz", ">>", "map_local(", "self", "|", "v4", "|", "v4", "with_ordinal(", "v8", "with_ordinal0(", "&", "self", "v9", "u32", "->", "Option", "<", "DateTime", "<", "Tz", ">>", "map_local(", "self", "|", "v4", "|", "v4", "with_ordinal0(", "v9"] := by decide +kernel

/-- src/datetime/mod.rs:impl Months -/
theorem src_datetime_mod_rs_impl_Months : C08_src_datetime_mod_rs_impl_Months =
    ["<", "Tz", "TimeZone", ">", "Add", "<", "Months", ">", "for", "DateTime", "<", "Tz", ">", "Output", "DateTime", "<", "Tz", ">", "add(", "self", "v1", "Months", "->", "Self", "Output", "self", "checked_add_months(", "v1", "expect(", "\"…\"", "§", "<", "Tz", "TimeZone", ">", "Sub", "<", "Months", ">", "for", "DateTime", "<", "Tz", ">", "Output", "DateTime", "<", "Tz", ">", "sub(", "self", "v1", "Months", "->", "Self", "Output", "self", "checked_sub_months(", "v1", "expect(", "\"…\""] := by decide +kernel

/-- src/datetime/mod.rs:impl Timelike for DateTime -/
theorem src_datetime_mod_rs_impl_Timelike_for_DateTime : C08_src_datetime_mod_rs_impl_Timelike_for_DateTime =
    ["<", "Tz", "TimeZone", ">", "Timelike", "for", "DateTime", "<", "Tz", ">", "hour(", "&", "self", "->", "u32", "self", "overflowing_naive_local(", "hour(", "minute(", "&", "self", "->", "u32", "self", "overflowing_naive_local(", "minute(", "second(", "&", "self", "->", "u32", "self", "overflowing_naive_local(", "second(", "nanosecond(", "&", "self", "->", "u32", "self", "overflowing_naive_local(", "nanosecond(", "with_hour(", "&", "self", "v1", "u32", "->", "Option", "<", "DateTime", "<", "Tz", ">>", "map_local(", "self", "|", "v2", "|", "v2", "with_hour(", "v1", "with_minute(", "&", "self", "v3", "u32", "->", "Option", "<", "DateTime", "<", "Tz", ">>", "map_local(", "self", "|", "v2", "|", "v2", "with_minute(", "v3", "with_second(", "&", "self", "v4", "u32", "->", "Option", "<", "DateTime", "<", "Tz", ">>", "map_local(", "self", "|", "v2", "|", "v2", "with_second(", "v4", "with_nanosecond(", "&", "self", "v5", "u32", "->", "Option", "<", "DateTime", "<", "Tz", ">>", "map_local(", "self", "|", "v2", "|", "v2", "with_nanosecond(", "v5"] := by decide +kernel

/-- src/month.rs:fn num_days -/
theorem src_month_rs_fn_num_days : C08_src_month_rs_fn_num_days =
    ["&", "self", "v1", "i32", "->", "Option", "<", "u8", ">", "Some(", "match", "*", "self", "Month", "January", "=>", "31", "Month", "February", "=>", "match", "NaiveDate", "from_ymd_opt(", "v1", "2", "1", "?", "leap_year(", "true", "=>", "29", "false", "=>", "28", "Month", "March", "=>", "31", "Month", "April", "=>", "30", "Month", "May", "=>", "31", "Month", "June", "=>", "30", "Month", "July", "=>", "31", "Month", "August", "=>", "31", "Month", "September", "=>", "30", "Month", "October", "=>", "31", "Month", "November", "=>", "30", "Month", "December", "=>", "31"] := by decide +kernel

/-- src/month.rs:impl Months -/
theorem src_month_rs_impl_Months : C08_src_month_rs_impl_Months =
    ["Months", "new(", "v1", "u32", "->", "Self", "Self(", "v1", "as_u32(", "&", "self", "->", "u32", "self"] := by decide +kernel

/-- src/naive/date/mod.rs:fn checked_add_months -/
theorem src_naive_date_mod_rs_fn_checked_add_months : C08_src_naive_date_mod_rs_fn_checked_add_months =
    ["self", "v1", "Months", "->", "Option", "<", "Self", ">", "if", "v1", "==", "0", "return", "Some(", "self", "match", "v1", "<=", "i32", "MAX", "as", "u32", "true", "=>", "self", "diff_months(", "v1", "as", "i32", "false", "=>", "None"] := by decide +kernel

/-- src/naive/date/mod.rs:fn checked_sub_months -/
theorem src_naive_date_mod_rs_fn_checked_sub_months : C08_src_naive_date_mod_rs_fn_checked_sub_months =
    ["self", "v1", "Months", "->", "Option", "<", "Self", ">", "if", "v1", "==", "0", "return", "Some(", "self", "match", "v1", "<=", "i32", "MAX", "as", "u32", "true", "=>", "self", "diff_months(", "-", "v1", "as", "i32", "false", "=>", "None"] := by decide +kernel

/-- src/naive/date/mod.rs:fn diff_months -/
theorem src_naive_date_mod_rs_fn_diff_months : C08_src_naive_date_mod_rs_fn_diff_months =
    ["self", "v1", "i32", "->", "Option", "<", "Self", ">", "v1", "try_opt!(", "self", "year(", "*", "12", "+", "self", "month(", "as", "i32", "-", "1", "checked_add(", "v1", "v2", "v1", "div_euclid(", "12", "v3", "v1", "rem_euclid(", "12", "as", "u32", "+", "1", "v4", "YearFlags", "from_year(", "v2", "v5", "if", "v4", "ndays(", "==", "366", "29", "else", "28", "v6", "31", "v5", "31", "30", "31", "30", "31", "31", "30", "31", "30", "31", "v7", "v6", "v3", "-", "1", "as", "usize", "v8", "self", "day(", "if", "v8", ">", "v7", "v8", "v7", "NaiveDate", "from_ymd_opt(", "v2", "v3", "v8"] := by decide +kernel

/-- src/naive/date/mod.rs:fn from_weekday_of_month -/
theorem src_naive_date_mod_rs_fn_from_weekday_of_month : C08_src_naive_date_mod_rs_fn_from_weekday_of_month =
    ["v1", "i32", "v2", "u32", "v3", "Weekday", "v4", "u8", "->", "NaiveDate", "expect(", "NaiveDate", "from_weekday_of_month_opt(", "v1", "v2", "v3", "v4", "\"…\""] := by decide +kernel

/-- src/naive/date/mod.rs:fn from_weekday_of_month_opt -/
theorem src_naive_date_mod_rs_fn_from_weekday_of_month_opt : C08_src_naive_date_mod_rs_fn_from_weekday_of_month_opt =
    ["v1", "i32", "v2", "u32", "v3", "Weekday", "v4", "u8", "->", "Option", "<", "NaiveDate", ">", "if", "v4", "==", "0", "return", "None", "v5", "try_opt!(", "NaiveDate", "from_ymd_opt(", "v1", "v2", "1", "weekday(", "v6", "7", "+", "v3", "number_from_monday(", "-", "v5", "number_from_monday(", "%", "7", "v7", "v4", "-", "1", "as", "u32", "*", "7", "+", "v6", "+", "1", "NaiveDate", "from_ymd_opt(", "v1", "v2", "v7"] := by decide +kernel

/-- src/naive/date/mod.rs:fn week -/
theorem src_naive_date_mod_rs_fn_week : C08_src_naive_date_mod_rs_fn_week =
    ["&", "self", "v1", "Weekday", "->", "NaiveWeek", "NaiveWeek", "new(", "*", "self", "v1"] := by decide +kernel

/-- src/naive/date/mod.rs:fn with_day -/
theorem src_naive_date_mod_rs_fn_with_day : C08_src_naive_date_mod_rs_fn_with_day =
    ["&", "self", "v1", "u32", "->", "Option", "<", "NaiveDate", ">", "self", "with_mdf(", "self", "mdf(", "with_day(", "v1", "?"] := by decide +kernel

/-- src/naive/date/mod.rs:fn with_day0 -/
theorem src_naive_date_mod_rs_fn_with_day0 : C08_src_naive_date_mod_rs_fn_with_day0 =
    ["&", "self", "v1", "u32", "->", "Option", "<", "NaiveDate", ">", "v2", "v1", "checked_add(", "1", "?", "self", "with_mdf(", "self", "mdf(", "with_day(", "v2", "?"] := by decide +kernel

/-- src/naive/date/mod.rs:fn with_mdf -/
theorem src_naive_date_mod_rs_fn_with_mdf : C08_src_naive_date_mod_rs_fn_with_mdf =
    ["&", "self", "v1", "Mdf", "->", "Option", "<", "NaiveDate", ">", "debug_assert!(", "self", "year_flags(", "==", "v1", "year_flags(", "match", "v1", "ordinal(", "Some(", "v2", "=>", "Some(", "NaiveDate", "from_yof(", "self", "yof(", "&", "!", "ORDINAL_MASK", "|", "v2", "<<", "4", "as", "i32", "None", "=>", "None"] := by decide +kernel

/-- src/naive/date/mod.rs:fn with_month -/
theorem src_naive_date_mod_rs_fn_with_month : C08_src_naive_date_mod_rs_fn_with_month =
    ["&", "self", "v1", "u32", "->", "Option", "<", "NaiveDate", ">", "self", "with_mdf(", "self", "mdf(", "with_month(", "v1", "?"] := by decide +kernel

/-- src/naive/date/mod.rs:fn with_month0 -/
theorem src_naive_date_mod_rs_fn_with_month0 : C08_src_naive_date_mod_rs_fn_with_month0 =
    ["&", "self", "v1", "u32", "->", "Option", "<", "NaiveDate", ">", "v2", "v1", "checked_add(", "1", "?", "self", "with_mdf(", "self", "mdf(", "with_month(", "v2", "?"] := by decide +kernel

/-- src/naive/date/mod.rs:fn with_ordinal -/
theorem src_naive_date_mod_rs_fn_with_ordinal : C08_src_naive_date_mod_rs_fn_with_ordinal =
    ["&", "self", "v1", "u32", "->", "Option", "<", "NaiveDate", ">", "if", "v1", "==", "0", "||", "v1", ">", "366", "return", "None", "v2", "self", "yof(", "&", "!", "ORDINAL_MASK", "|", "v1", "<<", "4", "as", "i32", "match", "v2", "&", "OL_MASK", "<=", "MAX_OL", "true", "=>", "Some(", "NaiveDate", "from_yof(", "v2", "false", "=>", "None"] := by decide +kernel

/-- src/naive/date/mod.rs:fn with_ordinal0 -/
theorem src_naive_date_mod_rs_fn_with_ordinal0 : C08_src_naive_date_mod_rs_fn_with_ordinal0 =
    ["&", "self", "v1", "u32", "->", "Option", "<", "NaiveDate", ">", "v2", "v1", "checked_add(", "1", "?", "self", "with_ordinal(", "v2"] := by decide +kernel

/-- src/naive/date/mod.rs:fn with_year -/
theorem src_naive_date_mod_rs_fn_with_year : C08_src_naive_date_mod_rs_fn_with_year =
    ["&", "self", "v1", "i32", "->", "Option", "<", "NaiveDate", ">", "v2", "self", "mdf(", "v3", "YearFlags", "from_year(", "v1", "v2", "v2", "with_flags(", "v3", "NaiveDate", "from_mdf(", "v1", "v2"] := by decide +kernel

/-- src/naive/date/mod.rs:fn years_since -/
theorem src_naive_date_mod_rs_fn_years_since : C08_src_naive_date_mod_rs_fn_years_since =
    ["&", "self", "v1", "Self", "->", "Option", "<", "u32", ">", "v2", "self", "year(", "-", "v1", "year(", "if(", "self", "month(", "<<", "5", "|", "self", "day(", "<", "v1", "month(", "<<", "5", "|", "v1", "day(", "v2", "-=", "1", "match", "v2", ">=", "0", "true", "=>", "Some(", "v2", "as", "u32", "false", "=>", "None"] := by decide +kernel

/-- src/naive/date/mod.rs:impl Months -/
theorem src_naive_date_mod_rs_impl_Months : C08_src_naive_date_mod_rs_impl_Months =
    ["Add", "<", "Months", ">", "for", "NaiveDate", "Output", "NaiveDate", "add(", "self", "v1", "Months", "->", "Self", "Output", "self", "checked_add_months(", "v1", "expect(", "\"…\"", "§", "Sub", "<", "Months", ">", "for", "NaiveDate", "Output", "NaiveDate", "sub(", "self", "v1", "Months", "->", "Self", "Output", "self", "checked_sub_months(", "v1", "expect(", "\"…\""] := by decide +kernel

/-- src/naive/datetime/mod.rs:fn checked_add_months -/
theorem src_naive_datetime_mod_rs_fn_checked_add_months : C08_src_naive_datetime_mod_rs_fn_checked_add_months =
    ["self", "v1", "Months", "->", "Option", "<", "NaiveDateTime", ">", "Some(", "Self", "v2", "try_opt!(", "self", "v2", "checked_add_months(", "v1", "v3", "self", "v3"] := by decide +kernel

/-- src/naive/datetime/mod.rs:fn checked_sub_months -/
theorem src_naive_datetime_mod_rs_fn_checked_sub_months : C08_src_naive_datetime_mod_rs_fn_checked_sub_months =
    ["self", "v1", "Months", "->", "Option", "<", "NaiveDateTime", ">", "Some(", "Self", "v2", "try_opt!(", "self", "v2", "checked_sub_months(", "v1", "v3", "self", "v3"] := by decide +kernel

/-- src/naive/datetime/mod.rs:impl Datelike for NaiveDateTime -/
theorem src_naive_datetime_mod_rs_impl_Datelike_for_NaiveDateTime : C08_src_naive_datetime_mod_rs_impl_Datelike_for_NaiveDateTime =
    ["Datelike", "for", "NaiveDateTime", "year(", "&", "self", "->", "i32", "self", "v1", "year(", "month(", "&", "self", "->", "u32", "self", "v1", "month(", "month0(", "&", "self", "->", "u32", "self", "v1", "month0(", "day(", "&", "self", "->", "u32", "self", "v1", "day(", "day0(", "&", "self", "->", "u32", "self", "v1", "day0(", "ordinal(", "&", "self", "->", "u32", "self", "v1", "ordinal(", "ordinal0(", "&", "self", "->", "u32", "self", "v1", "ordinal0(", "weekday(", "&", "self", "->", "Weekday", "self", "v1", "weekday(", "iso_week(", "&", "self", "->", "IsoWeek", "self", "v1", "iso_week(", "with_year(", "&", "self", "v2", "i32", "->", "Option", "<", "NaiveDateTime", ">", "self", "v1", "with_year(", "v2", "map(", "|", "v3", "|", "NaiveDateTime", "v1", "v3", "..", "*", "self", "with_month(", "&", "self", "v4", "u32", "->", "Option", "<", "NaiveDateTime", ">", "self", "v1", "with_month(", "v4", "map(", "|", "v3", "|", "NaiveDateTime", "v1", "v3", "..", "*", "self", "with_month0(", "&", "self", "v5", "u32", "->", "Option", "<", "NaiveDateTime", ">", "self", "v1", "with_month0(", "v5", "map(", "|", "v3", "|", "NaiveDateTime", "v1", "v3", "..", "*", "self", "with_day(", "&", "self", "v6", "u32", "->", "Option", "<", "NaiveDateTime", ">", "self", "v1", "with_day(", "v6", "map(", "|", "v3", "|", "NaiveDateTime", "v1", "v3", "..", "*", "self", "with_day0(", "&", "self", "v7", "u32", "->", "Option", "<", "NaiveDateTime", ">", "self", "v1", "with_day0(", "v7", "map(", "|", "v3", "|", "NaiveDateTime", "v1", "v3", "..", "*", "self", "with_ordinal(", "&", "self", "v8", "u32", "->", "Option", "<", "NaiveDateTime", ">", "self", "v1", "with_ordinal(", "v8", "map(", "|", "v3", "|", "NaiveDateTime", "v1", "v3", "..", "*", "self", "with_ordinal0(", "&", "self", "v9", "u32", "->", "Option", "<", "NaiveDateTime", ">", "self", "v1", "with_ordinal0(", "v9", "map(", "|", "v3", "|", "NaiveDateTime", "v1", "v3", "..", "*", "self"] := by decide +kernel

/-- src/naive/datetime/mod.rs:impl Months -/
theorem src_naive_datetime_mod_rs_impl_Months : C08_src_naive_datetime_mod_rs_impl_Months =
    ["Add", "<", "Months", ">", "for", "NaiveDateTime", "Output", "NaiveDateTime", "add(", "self", "v1", "Months", "->", "Self", "Output", "self", "checked_add_months(", "v1", "expect(", "\"…\"", "§", "Sub", "<", "Months", ">", "for", "NaiveDateTime", "Output", "NaiveDateTime", "sub(", "self", "v1", "Months", "->", "Self", "Output", "self", "checked_sub_months(", "v1", "expect(", "\"…\""] := by decide +kernel

/-- src/naive/datetime/mod.rs:impl Timelike for NaiveDateTime -/
theorem src_naive_datetime_mod_rs_impl_Timelike_for_NaiveDateTime : C08_src_naive_datetime_mod_rs_impl_Timelike_for_NaiveDateTime =
    ["Timelike", "for", "NaiveDateTime", "hour(", "&", "self", "->", "u32", "self", "v1", "hour(", "minute(", "&", "self", "->", "u32", "self", "v1", "minute(", "second(", "&", "self", "->", "u32", "self", "v1", "second(", "nanosecond(", "&", "self", "->", "u32", "self", "v1", "nanosecond(", "with_hour(", "&", "self", "v2", "u32", "->", "Option", "<", "NaiveDateTime", ">", "self", "v1", "with_hour(", "v2", "map(", "|", "v3", "|", "NaiveDateTime", "v1", "v3", "..", "*", "self", "with_minute(", "&", "self", "v4", "u32", "->", "Option", "<", "NaiveDateTime", ">", "self", "v1", "with_minute(", "v4", "map(", "|", "v3", "|", "NaiveDateTime", "v1", "v3", "..", "*", "self", "with_second(", "&", "self", "v5", "u32", "->", "Option", "<", "NaiveDateTime", ">", "self", "v1", "with_second(", "v5", "map(", "|", "v3", "|", "NaiveDateTime", "v1", "v3", "..", "*", "self", "with_nanosecond(", "&", "self", "v6", "u32", "->", "Option", "<", "NaiveDateTime", ">", "self", "v1", "with_nanosecond(", "v6", "map(", "|", "v3", "|", "NaiveDateTime", "v1", "v3", "..", "*", "self"] := by decide +kernel

/-- src/naive/internals.rs:fn ordinal -/
theorem src_naive_internals_rs_fn_ordinal : C08_src_naive_internals_rs_fn_ordinal =
    ["&", "self", "->", "Option", "<", "u32", ">", "v1", "self", ">>", "3", "match", "MDL_TO_OL", "v1", "as", "usize", "XX", "=>", "None", "v2", "=>", "Some(", "v1", "-", "v2", "as", "u8", "as", "u32", ">>", "1"] := by decide +kernel

/-- src/naive/internals.rs:fn with_day -/
theorem src_naive_internals_rs_fn_with_day : C08_src_naive_internals_rs_fn_with_day =
    ["&", "self", "v1", "u32", "->", "Option", "<", "Mdf", ">", "if", "v1", ">", "31", "return", "None", "Mdf(", "v2", "*", "self", "Some(", "Mdf(", "v2", "&", "!", "496", "|", "v1", "<<", "4"] := by decide +kernel

/-- src/naive/internals.rs:fn with_flags -/
theorem src_naive_internals_rs_fn_with_flags : C08_src_naive_internals_rs_fn_with_flags =
    ["&", "self", "YearFlags(", "v1", "YearFlags", "->", "Mdf", "Mdf(", "v2", "*", "self", "Mdf(", "v2", "&", "!", "15", "|", "v1", "as", "u32"] := by decide +kernel

/-- src/naive/internals.rs:fn with_month -/
theorem src_naive_internals_rs_fn_with_month : C08_src_naive_internals_rs_fn_with_month =
    ["&", "self", "v1", "u32", "->", "Option", "<", "Mdf", ">", "if", "v1", ">", "12", "return", "None", "Mdf(", "v2", "*", "self", "Some(", "Mdf(", "v2", "&", "511", "|", "v1", "<<", "9"] := by decide +kernel

/-- src/naive/mod.rs:fn checked_days -/
theorem src_naive_mod_rs_fn_checked_days : C08_src_naive_mod_rs_fn_checked_days =
    ["&", "self", "->", "Option", "<", "RangeInclusive", "<", "NaiveDate", ">>", "match(", "self", "checked_first_day(", "self", "checked_last_day(", "Some(", "v1", "Some(", "v2", "=>", "Some(", "v1", "..=", "v2", "v3", "v3", "=>", "None"] := by decide +kernel

/-- src/naive/mod.rs:fn checked_first_day -/
theorem src_naive_mod_rs_fn_checked_first_day : C08_src_naive_mod_rs_fn_checked_first_day =
    ["&", "self", "->", "Option", "<", "NaiveDate", ">", "v1", "self", "v1", "num_days_from_monday(", "as", "i32", "v2", "self", "v3", "weekday(", "num_days_from_monday(", "as", "i32", "v4", "v1", "-", "v2", "-", "if", "v1", ">", "v2", "7", "else", "0", "self", "v3", "add_days(", "v4"] := by decide +kernel

/-- src/naive/mod.rs:fn checked_last_day -/
theorem src_naive_mod_rs_fn_checked_last_day : C08_src_naive_mod_rs_fn_checked_last_day =
    ["&", "self", "->", "Option", "<", "NaiveDate", ">", "v1", "self", "v2", "pred(", "num_days_from_monday(", "as", "i32", "v3", "self", "v4", "weekday(", "num_days_from_monday(", "as", "i32", "v5", "v1", "-", "v3", "+", "if", "v1", "<", "v3", "7", "else", "0", "self", "v4", "add_days(", "v5"] := by decide +kernel

/-- src/naive/mod.rs:fn days -/
theorem src_naive_mod_rs_fn_days : C08_src_naive_mod_rs_fn_days =
    ["&", "self", "->", "RangeInclusive", "<", "NaiveDate", ">", "match", "self", "checked_days(", "Some(", "v1", "=>", "v1", "None", "=>", "panic!(", "\"{}\"", "\"…\""] := by decide +kernel

/-- src/naive/mod.rs:fn first_day -/
theorem src_naive_mod_rs_fn_first_day : C08_src_naive_mod_rs_fn_first_day =
    ["&", "self", "->", "NaiveDate", "expect(", "self", "checked_first_day(", "\"…\""] := by decide +kernel

/-- src/naive/mod.rs:fn last_day -/
theorem src_naive_mod_rs_fn_last_day : C08_src_naive_mod_rs_fn_last_day =
    ["&", "self", "->", "NaiveDate", "expect(", "self", "checked_last_day(", "\"…\""] := by decide +kernel

/-- src/naive/time/mod.rs:fn with_hour -/
theorem src_naive_time_mod_rs_fn_with_hour : C08_src_naive_time_mod_rs_fn_with_hour =
    ["&", "self", "v1", "u32", "->", "Option", "<", "NaiveTime", ">", "if", "v1", ">=", "24", "return", "None", "v2", "v1", "*", "3600", "+", "self", "v2", "%", "3600", "Some(", "NaiveTime", "v2", "..", "*", "self"] := by decide +kernel

/-- src/naive/time/mod.rs:fn with_minute -/
theorem src_naive_time_mod_rs_fn_with_minute : C08_src_naive_time_mod_rs_fn_with_minute =
    ["&", "self", "v1", "u32", "->", "Option", "<", "NaiveTime", ">", "if", "v1", ">=", "60", "return", "None", "v2", "self", "v2", "/", "3600", "*", "3600", "+", "v1", "*", "60", "+", "self", "v2", "%", "60", "Some(", "NaiveTime", "v2", "..", "*", "self"] := by decide +kernel

/-- src/naive/time/mod.rs:fn with_nanosecond -/
theorem src_naive_time_mod_rs_fn_with_nanosecond : C08_src_naive_time_mod_rs_fn_with_nanosecond =
    ["&", "self", "v1", "u32", "->", "Option", "<", "NaiveTime", ">", "if", "v1", ">=", "2000000000", "return", "None", "Some(", "NaiveTime", "v2", "v1", "..", "*", "self"] := by decide +kernel

/-- src/naive/time/mod.rs:fn with_second -/
theorem src_naive_time_mod_rs_fn_with_second : C08_src_naive_time_mod_rs_fn_with_second =
    ["&", "self", "v1", "u32", "->", "Option", "<", "NaiveTime", ">", "if", "v1", ">=", "60", "return", "None", "v2", "self", "v2", "/", "60", "*", "60", "+", "v1", "Some(", "NaiveTime", "v2", "..", "*", "self"] := by decide +kernel

/-- src/traits.rs:fn num_days_in_month -/
theorem src_traits_rs_fn_num_days_in_month : C08_src_traits_rs_fn_num_days_in_month =
    ["&", "self", "->", "u8", "v1", "FromPrimitive", "v2", "Month", "from_u32(", "self", "month(", "unwrap(", "v2", "num_days(", "self", "year(", "unwrap("] := by decide +kernel

/-- src/traits.rs:fn quarter -/
theorem src_traits_rs_fn_quarter : C08_src_traits_rs_fn_quarter =
    ["&", "self", "->", "u32", "self", "month(", "-", "1", "div_euclid(", "3", "+", "1"] := by decide +kernel

/-- src/traits.rs:fn year_ce -/
theorem src_traits_rs_fn_year_ce : C08_src_traits_rs_fn_year_ce =
    ["&", "self", "->", "bool", "u32", "v1", "self", "year(", "if", "v1", "<", "1", "false", "1", "-", "v1", "as", "u32", "else", "true", "v1", "as", "u32"] := by decide +kernel

/-- callee src/datetime/mod.rs:fn from_naive_utc_and_offset -/
theorem callee_src_datetime_mod_rs_fn_from_naive_utc_and_offset : C08_callee_src_datetime_mod_rs_fn_from_naive_utc_and_offset =
    ["v1", "NaiveDateTime", "v2", "Tz", "Offset", "->", "DateTime", "<", "Tz", ">", "DateTime", "v1", "v2"] := by decide +kernel

/-- callee src/datetime/mod.rs:fn overflowing_naive_local -/
theorem callee_src_datetime_mod_rs_fn_overflowing_naive_local : C08_callee_src_datetime_mod_rs_fn_overflowing_naive_local =
    ["&", "self", "->", "NaiveDateTime", "self", "v1", "overflowing_add_offset(", "self", "v2", "fix("] := by decide +kernel

/-- callee src/month.rs:fn as_u32 -/
theorem callee_src_month_rs_fn_as_u32 : C08_callee_src_month_rs_fn_as_u32 =
    ["&", "self", "->", "u32", "self"] := by decide +kernel

/-- callee src/month.rs:fn from_u32 -/
theorem callee_src_month_rs_fn_from_u32 : C08_callee_src_month_rs_fn_from_u32 =
    ["v1", "u32", "->", "Option", "<", "Month", ">", "match", "v1", "1", "=>", "Some(", "Month", "January", "2", "=>", "Some(", "Month", "February", "3", "=>", "Some(", "Month", "March", "4", "=>", "Some(", "Month", "April", "5", "=>", "Some(", "Month", "May", "6", "=>", "Some(", "Month", "June", "7", "=>", "Some(", "Month", "July", "8", "=>", "Some(", "Month", "August", "9", "=>", "Some(", "Month", "September", "10", "=>", "Some(", "Month", "October", "11", "=>", "Some(", "Month", "November", "12", "=>", "Some(", "Month", "December", "v2", "=>", "None"] := by decide +kernel

/-- callee src/naive/date/mod.rs:fn add_days -/
theorem callee_src_naive_date_mod_rs_fn_add_days : C08_callee_src_naive_date_mod_rs_fn_add_days =
    ["self", "v1", "i32", "->", "Option", "<", "Self", ">", "ORDINAL_MASK", "i32", "8176", "if", "Some(", "v2", "self", "yof(", "&", "ORDINAL_MASK", ">>", "4", "checked_add(", "v1", "if", "v2", ">", "0", "&&", "v2", "<=", "365", "+", "self", "leap_year(", "as", "i32", "v3", "self", "yof(", "&", "!", "ORDINAL_MASK", "return", "Some(", "NaiveDate", "from_yof(", "v3", "|", "v2", "<<", "4", "v4", "self", "year(", "let(", "v5", "v6", "div_mod_floor(", "v4", "400", "v7", "yo_to_cycle(", "v6", "as", "u32", "self", "ordinal(", "v7", "try_opt!(", "v7", "as", "i32", "checked_add(", "v1", "let(", "v8", "v7", "div_mod_floor(", "v7", "146097", "v5", "+=", "v8", "let(", "v6", "v2", "cycle_to_yo(", "v7", "as", "u32", "v9", "YearFlags", "from_year_mod_400(", "v6", "as", "i32", "NaiveDate", "from_ordinal_and_flags(", "v5", "*", "400", "+", "v6", "as", "i32", "v2", "v9"] := by decide +kernel

/-- callee src/naive/date/mod.rs:fn cycle_to_yo -/
theorem callee_src_naive_date_mod_rs_fn_cycle_to_yo : C08_callee_src_naive_date_mod_rs_fn_cycle_to_yo =
    ["v1", "u32", "->", "u32", "u32", "v2", "v1", "/", "365", "v3", "v1", "%", "365", "v4", "YEAR_DELTAS", "v2", "as", "usize", "as", "u32", "if", "v3", "<", "v4", "v2", "-=", "1", "v3", "+=", "365", "-", "YEAR_DELTAS", "v2", "as", "usize", "as", "u32", "else", "v3", "-=", "v4", "v2", "v3", "+", "1"] := by decide +kernel

/-- callee src/naive/date/mod.rs:fn div_mod_floor -/
theorem callee_src_naive_date_mod_rs_fn_div_mod_floor : C08_callee_src_naive_date_mod_rs_fn_div_mod_floor =
    ["v1", "i32", "v2", "i32", "->", "i32", "i32", "v1", "div_euclid(", "v2", "v1", "rem_euclid(", "v2"] := by decide +kernel

/-- callee src/naive/date/mod.rs:fn from_mdf -/
theorem callee_src_naive_date_mod_rs_fn_from_mdf : C08_callee_src_naive_date_mod_rs_fn_from_mdf =
    ["v1", "i32", "v2", "Mdf", "->", "Option", "<", "NaiveDate", ">", "if", "v1", "<", "MIN_YEAR", "||", "v1", ">", "MAX_YEAR", "return", "None", "Some(", "NaiveDate", "from_yof(", "v1", "<<", "13", "|", "try_opt!(", "v2", "ordinal_and_flags("] := by decide +kernel

/-- callee src/naive/date/mod.rs:fn from_ordinal_and_flags -/
theorem callee_src_naive_date_mod_rs_fn_from_ordinal_and_flags : C08_callee_src_naive_date_mod_rs_fn_from_ordinal_and_flags =
    ["v1", "i32", "v2", "u32", "v3", "YearFlags", "->", "Option", "<", "NaiveDate", ">", "if", "v1", "<", "MIN_YEAR", "||", "v1", ">", "MAX_YEAR", "return", "None", "if", "v2", "==", "0", "||", "v2", ">", "366", "return", "None", "debug_assert!(", "YearFlags", "from_year(", "v1", "==", "v3", "v4", "v1", "<<", "13", "|", "v2", "<<", "4", "as", "i32", "|", "v3", "as", "i32", "match", "v4", "&", "OL_MASK", "<=", "MAX_OL", "true", "=>", "Some(", "NaiveDate", "from_yof(", "v4", "false", "=>", "None"] := by decide +kernel

/-- callee src/naive/date/mod.rs:fn from_ymd_opt -/
theorem callee_src_naive_date_mod_rs_fn_from_ymd_opt : C08_callee_src_naive_date_mod_rs_fn_from_ymd_opt =
    ["v1", "i32", "v2", "u32", "v3", "u32", "->", "Option", "<", "NaiveDate", ">", "v4", "YearFlags", "from_year(", "v1", "if", "Some(", "v5", "Mdf", "new(", "v2", "v3", "v4", "NaiveDate", "from_mdf(", "v1", "v5", "else", "None"] := by decide +kernel

/-- callee src/naive/date/mod.rs:fn leap_year -/
theorem callee_src_naive_date_mod_rs_fn_leap_year : C08_callee_src_naive_date_mod_rs_fn_leap_year =
    ["&", "self", "->", "bool", "self", "yof(", "&", "8", "==", "0"] := by decide +kernel

/-- callee src/naive/date/mod.rs:fn mdf -/
theorem callee_src_naive_date_mod_rs_fn_mdf : C08_callee_src_naive_date_mod_rs_fn_mdf =
    ["&", "self", "->", "Mdf", "Mdf", "from_ol(", "self", "yof(", "&", "OL_MASK", ">>", "3", "self", "year_flags("] := by decide +kernel

/-- callee src/naive/date/mod.rs:fn yo_to_cycle -/
theorem callee_src_naive_date_mod_rs_fn_yo_to_cycle : C08_callee_src_naive_date_mod_rs_fn_yo_to_cycle =
    ["v1", "u32", "v2", "u32", "->", "u32", "v1", "*", "365", "+", "YEAR_DELTAS", "v1", "as", "usize", "as", "u32", "+", "v2", "-", "1"] := by decide +kernel

/-- callee src/naive/date/mod.rs:fn yof -/
theorem callee_src_naive_date_mod_rs_fn_yof : C08_callee_src_naive_date_mod_rs_fn_yof =
    ["&", "self", "->", "i32", "self", "v1", "get("] := by decide +kernel

/-- callee src/naive/datetime/mod.rs:fn and_local_timezone -/
theorem callee_src_naive_datetime_mod_rs_fn_and_local_timezone : C08_callee_src_naive_datetime_mod_rs_fn_and_local_timezone =
    ["<", "Tz", "TimeZone", ">", "&", "self", "v1", "Tz", "->", "MappedLocalTime", "<", "DateTime", "<", "Tz", ">>", "v1", "from_local_datetime(", "self"] := by decide +kernel

/-- callee src/naive/datetime/mod.rs:fn checked_sub_offset -/
theorem callee_src_naive_datetime_mod_rs_fn_checked_sub_offset : C08_callee_src_naive_datetime_mod_rs_fn_checked_sub_offset =
    ["self", "v1", "FixedOffset", "->", "Option", "<", "NaiveDateTime", ">", "let(", "v2", "v3", "self", "v2", "overflowing_sub_offset(", "v1", "v4", "match", "v3", "-", "1", "=>", "try_opt!(", "self", "v4", "pred_opt(", "1", "=>", "try_opt!(", "self", "v4", "succ_opt(", "v5", "=>", "self", "v4", "Some(", "NaiveDateTime", "v4", "v2"] := by decide +kernel

/-- callee src/naive/internals.rs:fn from_ol -/
theorem callee_src_naive_internals_rs_fn_from_ol : C08_callee_src_naive_internals_rs_fn_from_ol =
    ["v1", "i32", "YearFlags(", "v2", "YearFlags", "->", "Mdf", "debug_assert!(", "v1", ">", "1", "&&", "v1", "<=", "MAX_OL", "as", "i32", "Mdf(", "v1", "as", "u32", "+", "OL_TO_MDL", "v1", "as", "usize", "as", "u32", "<<", "3", "|", "v2", "as", "u32"] := by decide +kernel

/-- callee src/naive/internals.rs:fn from_year -/
theorem callee_src_naive_internals_rs_fn_from_year : C08_callee_src_naive_internals_rs_fn_from_year =
    ["v1", "i32", "->", "YearFlags", "v1", "v1", "rem_euclid(", "400", "YearFlags", "from_year_mod_400(", "v1"] := by decide +kernel

/-- callee src/naive/internals.rs:fn from_year_mod_400 -/
theorem callee_src_naive_internals_rs_fn_from_year_mod_400 : C08_callee_src_naive_internals_rs_fn_from_year_mod_400 =
    ["v1", "i32", "->", "YearFlags", "YEAR_TO_FLAGS", "v1", "as", "usize"] := by decide +kernel

/-- callee src/naive/internals.rs:fn ndays -/
theorem callee_src_naive_internals_rs_fn_ndays : C08_callee_src_naive_internals_rs_fn_ndays =
    ["&", "self", "->", "u32", "YearFlags(", "v1", "*", "self", "366", "-", "v1", ">>", "3", "as", "u32"] := by decide +kernel

/-- callee src/naive/internals.rs:fn ordinal_and_flags -/
theorem callee_src_naive_internals_rs_fn_ordinal_and_flags : C08_callee_src_naive_internals_rs_fn_ordinal_and_flags =
    ["&", "self", "->", "Option", "<", "i32", ">", "v1", "self", ">>", "3", "match", "MDL_TO_OL", "v1", "as", "usize", "XX", "=>", "None", "v2", "=>", "Some(", "self", "as", "i32", "-", "v2", "as", "i32", "<<", "3"] := by decide +kernel

/-- callee src/offset/mod.rs:fn from_local_datetime -/
theorem callee_src_offset_mod_rs_fn_from_local_datetime : C08_callee_src_offset_mod_rs_fn_from_local_datetime =
    ["&", "self", "v1", "&", "NaiveDateTime", "->", "MappedLocalTime", "<", "DateTime", "<", "Self", ">>", "self", "offset_from_local_datetime(", "v1", "and_then(", "|", "v2", "|", "v1", "checked_sub_offset(", "v2", "fix(", "map(", "|", "v3", "|", "DateTime", "from_naive_utc_and_offset(", "v3", "v2"] := by decide +kernel

/-- callee src/weekday.rs:fn days_since -/
theorem callee_src_weekday_rs_fn_days_since : C08_callee_src_weekday_rs_fn_days_since =
    ["&", "self", "v1", "Weekday", "->", "u32", "v2", "*", "self", "as", "u32", "v3", "v1", "as", "u32", "if", "v2", "<", "v3", "7", "+", "v2", "-", "v3", "else", "v2", "-", "v3"] := by decide +kernel

/-- callee src/weekday.rs:fn num_days_from_monday -/
theorem callee_src_weekday_rs_fn_num_days_from_monday : C08_callee_src_weekday_rs_fn_num_days_from_monday =
    ["&", "self", "->", "u32", "self", "days_since(", "Weekday", "Mon"] := by decide +kernel

/-- callee src/weekday.rs:fn number_from_monday -/
theorem callee_src_weekday_rs_fn_number_from_monday : C08_callee_src_weekday_rs_fn_number_from_monday =
    ["&", "self", "->", "u32", "self", "days_since(", "Weekday", "Mon", "+", "1"] := by decide +kernel

end Chrono.Pins.C08
