/-
  PINS of property C12: the decision tokens of every item the property is anchored in
  (properties.jsonl `anchors` + tools/anchor_extra.json), as they were in /repo at b30ed81 when the
  model was validated against the source.  Written by tools/pin_anchors.py; the right-hand sides are
  compared by the kernel with lean/Chrono/Extracted/Anchors.lean, which tools/extractors/anchors.py
  regenerates from /repo's working tree on every check.  A theorem that fails here means: anchored
  code changed; the hand-written model may no longer mirror it.
-/
import Chrono.Extracted.Anchors
namespace Chrono.Pins.C12
open Chrono.Extracted.Anchors

/-- src/datetime/mod.rs:fn format -/
theorem src_datetime_mod_rs_fn_format : C12_src_datetime_mod_rs_fn_format =
    ["<", ">", "&", "self", "v1", "&", "str", "->", "DelayedFormat", "<", "StrftimeItems", "<", ">>", "self", "format_with_items(", "StrftimeItems", "new(", "v1"] := by decide +kernel

/-- src/datetime/mod.rs:fn format_with_items -/
theorem src_datetime_mod_rs_fn_format_with_items : C12_src_datetime_mod_rs_fn_format_with_items =
    ["<", "I", "B", ">", "&", "self", "v1", "I", "->", "DelayedFormat", "<", "I", ">", "I", "Iterator", "<", "Item", "B", ">", "+", "Clone", "B", "Borrow", "<", "Item", "<", ">>", "v2", "self", "overflowing_naive_local(", "DelayedFormat", "new_with_offset(", "Some(", "v2", "date(", "Some(", "v2", "time(", "&", "self", "v3", "v1"] := by decide +kernel

/-- src/format/formatting.rs:fn format -/
theorem src_format_formatting_rs_fn_format : C12_src_format_formatting_rs_fn_format =
    ["<", "I", "B", ">", "v1", "&", "v2", "Formatter", "v3", "Option", "<", "&", "NaiveDate", ">", "v4", "Option", "<", "&", "NaiveTime", ">", "v5", "Option", "<", "&", "String", "FixedOffset", ">", "v6", "I", "->", "v2", "Result", "I", "Iterator", "<", "Item", "B", ">", "+", "Clone", "B", "Borrow", "<", "Item", "<", ">>", "DelayedFormat", "v3", "v3", "copied(", "v4", "v4", "copied(", "v5", "v5", "cloned(", "v6", "v7", "default_locale(", "fmt(", "v1", "§", "&", "self", "v1", "&", "Write", "v2", "FixedOffset", "->", "v3", "Result", "v2", "v2", "local_minus_utc(", "if", "self", "v4", "&&", "v2", "==", "0", "v1", "write_char(", "'Z'", "?", "return", "Ok(", "let(", "v5", "v2", "if", "v2", "<", "0", "'-'", "-", "v2", "else", "'+'", "v2", "v6", "v7", "0", "v8", "0", "v9", "match", "self", "v9", "OffsetPrecision", "Hours", "=>", "v6", "v2", "/", "3600", "as", "u8", "OffsetPrecision", "Hours", "OffsetPrecision", "Minutes", "|", "OffsetPrecision", "OptionalMinutes", "=>", "v10", "v2", "+", "30", "/", "60", "v7", "v10", "%", "60", "as", "u8", "v6", "v10", "/", "60", "as", "u8", "if", "self", "v9", "==", "OffsetPrecision", "OptionalMinutes", "&&", "v7", "==", "0", "OffsetPrecision", "Hours", "else", "OffsetPrecision", "Minutes", "OffsetPrecision", "Seconds", "|", "OffsetPrecision", "OptionalSeconds", "|", "OffsetPrecision", "OptionalMinutesAndSeconds", "=>", "v10", "v2", "/", "60", "v8", "v2", "%", "60", "as", "u8", "v7", "v10", "%", "60", "as", "u8", "v6", "v10", "/", "60", "as", "u8", "if", "self", "v9", "!=", "OffsetPrecision", "Seconds", "&&", "v8", "==", "0", "if", "self", "v9", "==", "OffsetPrecision", "OptionalMinutesAndSeconds", "&&", "v7", "==", "0", "OffsetPrecision", "Hours", "else", "OffsetPrecision", "Minutes", "else", "OffsetPrecision", "Seconds", "v11", "self", "v11", "==", "Colons", "Colon", "if", "v6", "<", "10", "if", "self", "v12", "==", "Pad", "Space", "v1", "write_char(", "' '", "?", "v1", "write_char(", "v5", "?", "if", "self", "v12", "==", "Pad", "Zero", "v1", "write_char(", "'0'", "?", "v1", "write_char(", "b'0'", "+", "v6", "as", "char", "?", "else", "v1", "write_char(", "v5", "?", "write_hundreds(", "v1", "v6", "?", "if", "OffsetPrecision", "Minutes", "|", "OffsetPrecision", "Seconds", "v9", "if", "v11", "v1", "write_char(", "':'", "?", "write_hundreds(", "v1", "v7", "?", "if", "OffsetPrecision", "Seconds", "v9", "if", "v11", "v1", "write_char(", "':'", "?", "write_hundreds(", "v1", "v8", "?", "Ok("] := by decide +kernel

/-- src/format/formatting.rs:fn format_fixed -/
theorem src_format_formatting_rs_fn_format_fixed : C12_src_format_formatting_rs_fn_format_fixed =
    ["&", "self", "v1", "&", "Write", "v2", "&", "Fixed", "->", "v3", "Result", "Fixed", "*", "InternalInternal", "*", "match(", "v2", "self", "v4", "self", "v5", "self", "v6", "as_ref(", "ShortMonthName", "Some(", "v7", "v8", "v8", "=>", "v1", "write_str(", "short_months(", "self", "v9", "v7", "month0(", "as", "usize", "LongMonthName", "Some(", "v7", "v8", "v8", "=>", "v1", "write_str(", "long_months(", "self", "v9", "v7", "month0(", "as", "usize", "ShortWeekdayName", "Some(", "v7", "v8", "v8", "=>", "v1", "write_str(", "short_weekdays(", "self", "v9", "v7", "weekday(", "num_days_from_sunday(", "as", "usize", "LongWeekdayName", "Some(", "v7", "v8", "v8", "=>", "v1", "write_str(", "long_weekdays(", "self", "v9", "v7", "weekday(", "num_days_from_sunday(", "as", "usize", "LowerAmPm", "v8", "Some(", "v10", "v8", "=>", "v11", "if", "v10", "hour12(", "am_pm(", "self", "v9", "1", "else", "am_pm(", "self", "v9", "0", "for", "v12", "in", "v11", "chars(", "flat_map(", "|", "v12", "|", "v12", "to_lowercase(", "v1", "write_char(", "v12", "?", "Ok(", "UpperAmPm", "v8", "Some(", "v10", "v8", "=>", "v11", "if", "v10", "hour12(", "am_pm(", "self", "v9", "1", "else", "am_pm(", "self", "v9", "0", "v1", "write_str(", "v11", "Nanosecond", "v8", "Some(", "v10", "v8", "=>", "v13", "v10", "nanosecond(", "%", "1000000000", "if", "v13", "==", "0", "Ok(", "else", "v1", "write_str(", "decimal_point(", "self", "v9", "?", "if", "v13", "%", "1000000", "==", "0", "write!(", "v1", "\"{:03}\"", "v13", "/", "1000000", "else", "if", "v13", "%", "1000", "==", "0", "write!(", "v1", "\"{:06}\"", "v13", "/", "1000", "else", "write!(", "v1", "\"{:09}\"", "v13", "Nanosecond3", "v8", "Some(", "v10", "v8", "=>", "v1", "write_str(", "decimal_point(", "self", "v9", "?", "write!(", "v1", "\"{:03}\"", "v10", "nanosecond(", "/", "1000000", "%", "1000", "Nanosecond6", "v8", "Some(", "v10", "v8", "=>", "v1", "write_str(", "decimal_point(", "self", "v9", "?", "write!(", "v1", "\"{:06}\"", "v10", "nanosecond(", "/", "1000", "%", "1000000", "Nanosecond9", "v8", "Some(", "v10", "v8", "=>", "v1", "write_str(", "decimal_point(", "self", "v9", "?", "write!(", "v1", "\"{:09}\"", "v10", "nanosecond(", "%", "1000000000", "Internal(", "InternalFixed", "v14", "Nanosecond3NoDot", "v8", "Some(", "v10", "v8", "=>", "write!(", "v1", "\"{:03}\"", "v10", "nanosecond(", "/", "1000000", "%", "1000", "Internal(", "InternalFixed", "v14", "Nanosecond6NoDot", "v8", "Some(", "v10", "v8", "=>", "write!(", "v1", "\"{:06}\"", "v10", "nanosecond(", "/", "1000", "%", "1000000", "Internal(", "InternalFixed", "v14", "Nanosecond9NoDot", "v8", "Some(", "v10", "v8", "=>", "write!(", "v1", "\"{:09}\"", "v10", "nanosecond(", "%", "1000000000", "TimezoneName", "v8", "v8", "Some(", "v15", "v8", "=>", "write!(", "v1", "\"{}\"", "v15", "TimezoneOffset", "|", "TimezoneOffsetZ", "v8", "v8", "Some(", "v8", "v6", "=>", "v16", "OffsetFormat", "v17", "OffsetPrecision", "Minutes", "v18", "Colons", "Maybe", "v19", "*", "v2", "==", "TimezoneOffsetZ", "v20", "Pad", "Zero", "v16", "format(", "v1", "*", "v6", "TimezoneOffsetColon", "|", "TimezoneOffsetColonZ", "v8", "v8", "Some(", "v8", "v6", "=>", "v16", "OffsetFormat", "v17", "OffsetPrecision", "Minutes", "v18", "Colons", "Colon", "v19", "*", "v2", "==", "TimezoneOffsetColonZ", "v20", "Pad", "Zero", "v16", "format(", "v1", "*", "v6", "TimezoneOffsetDoubleColon", "v8", "v8", "Some(", "v8", "v6", "=>", "v16", "OffsetFormat", "v17", "OffsetPrecision", "Seconds", "v18", "Colons", "Colon", "v19", "false", "v20", "Pad", "Zero", "v16", "format(", "v1", "*", "v6", "TimezoneOffsetTripleColon", "v8", "v8", "Some(", "v8", "v6", "=>", "v16", "OffsetFormat", "v17", "OffsetPrecision", "Hours", "v18", "Colons", "None", "v19", "false", "v20", "Pad", "Zero", "v16", "format(", "v1", "*", "v6", "RFC2822", "Some(", "v7", "Some(", "v10", "Some(", "v8", "v6", "=>", "write_rfc2822(", "v1", "NaiveDateTime", "new(", "v7", "v10", "*", "v6", "RFC3339", "Some(", "v7", "Some(", "v10", "Some(", "v8", "v6", "=>", "write_rfc3339(", "v1", "NaiveDateTime", "new(", "v7", "v10", "*", "v6", "SecondsFormat", "AutoSi", "false", "v8", "=>", "Err(", "v3", "Error"] := by decide +kernel

/-- src/format/formatting.rs:fn format_item -/
theorem src_format_formatting_rs_fn_format_item : C12_src_format_formatting_rs_fn_format_item =
    ["v1", "&", "v2", "Formatter", "v3", "Option", "<", "&", "NaiveDate", ">", "v4", "Option", "<", "&", "NaiveTime", ">", "v5", "Option", "<", "&", "String", "FixedOffset", ">", "v6", "&", "Item", "<", ">", "->", "v2", "Result", "DelayedFormat", "v3", "v3", "copied(", "v4", "v4", "copied(", "v5", "v5", "cloned(", "v7", "v6", "into_iter(", "v8", "default_locale(", "fmt(", "v1"] := by decide +kernel

/-- src/format/formatting.rs:fn format_numeric -/
theorem src_format_formatting_rs_fn_format_numeric : C12_src_format_formatting_rs_fn_format_numeric =
    ["&", "self", "v1", "&", "Write", "v2", "&", "Numeric", "v3", "Pad", "->", "v4", "Result", "self", "Numeric", "*", "write_one(", "v1", "&", "Write", "v5", "u8", "->", "v4", "Result", "v1", "write_char(", "b'0'", "+", "v5", "as", "char", "write_two(", "v1", "&", "Write", "v5", "u8", "v3", "Pad", "->", "v4", "Result", "v6", "b'0'", "+", "v5", "%", "10", "match(", "v5", "/", "10", "v3", "0", "Pad", "None", "=>", "0", "Pad", "Space", "=>", "v1", "write_char(", "' '", "?", "v7", "v8", "=>", "v1", "write_char(", "b'0'", "+", "v7", "as", "char", "?", "v1", "write_char(", "v6", "as", "char", "write_year(", "v1", "&", "Write", "v9", "i32", "v3", "Pad", "->", "v4", "Result", "if(", "1000", "..=", "9999", "contains(", "&", "v9", "write_hundreds(", "v1", "v9", "/", "100", "as", "u8", "?", "write_hundreds(", "v1", "v9", "%", "100", "as", "u8", "else", "write_n(", "v1", "4", "v9", "as", "i64", "v3", "!", "0", "..", "v10", "contains(", "&", "v9", "write_n(", "v1", "&", "Write", "v11", "usize", "v5", "i64", "v3", "Pad", "v12", "bool", "->", "v4", "Result", "if", "v12", "match", "v3", "Pad", "None", "=>", "write!(", "v1", "\"{:+}\"", "v5", "Pad", "Zero", "=>", "write!(", "v1", "\"{:+01$}\"", "v5", "v11", "+", "1", "Pad", "Space", "=>", "write!(", "v1", "\"{:+1$}\"", "v5", "v11", "+", "1", "else", "match", "v3", "Pad", "None", "=>", "write!(", "v1", "\"{}\"", "v5", "Pad", "Zero", "=>", "write!(", "v1", "\"{:01$}\"", "v5", "v11", "Pad", "Space", "=>", "write!(", "v1", "\"{:1$}\"", "v5", "v11", "match(", "v2", "self", "v13", "self", "v14", "Year", "Some(", "v15", "v8", "=>", "write_year(", "v1", "v15", "year(", "v3", "YearDiv100", "Some(", "v15", "v8", "=>", "write_n(", "v1", "2", "v15", "year(", "div_euclid(", "100", "as", "i64", "v3", "false", "YearMod100", "Some(", "v15", "v8", "=>", "write_two(", "v1", "v15", "year(", "rem_euclid(", "100", "as", "u8", "v3", "IsoYear", "Some(", "v15", "v8", "=>", "write_year(", "v1", "v15", "iso_week(", "year(", "v3", "IsoYearDiv100", "Some(", "v15", "v8", "=>", "write_n(", "v1", "2", "v15", "iso_week(", "year(", "div_euclid(", "100", "as", "i64", "v3", "false", "IsoYearMod100", "Some(", "v15", "v8", "=>", "write_two(", "v1", "v15", "iso_week(", "year(", "rem_euclid(", "100", "as", "u8", "v3", "Quarter", "Some(", "v15", "v8", "=>", "write_one(", "v1", "v15", "quarter(", "as", "u8", "Month", "Some(", "v15", "v8", "=>", "write_two(", "v1", "v15", "month(", "as", "u8", "v3", "Day", "Some(", "v15", "v8", "=>", "write_two(", "v1", "v15", "day(", "as", "u8", "v3", "WeekFromSun", "Some(", "v15", "v8", "=>", "write_two(", "v1", "v15", "weeks_from(", "Weekday", "Sun", "as", "u8", "v3", "WeekFromMon", "Some(", "v15", "v8", "=>", "write_two(", "v1", "v15", "weeks_from(", "Weekday", "Mon", "as", "u8", "v3", "IsoWeek", "Some(", "v15", "v8", "=>", "write_two(", "v1", "v15", "iso_week(", "week(", "as", "u8", "v3", "NumDaysFromSun", "Some(", "v15", "v8", "=>", "write_one(", "v1", "v15", "weekday(", "num_days_from_sunday(", "as", "u8", "WeekdayFromMon", "Some(", "v15", "v8", "=>", "write_one(", "v1", "v15", "weekday(", "number_from_monday(", "as", "u8", "Ordinal", "Some(", "v15", "v8", "=>", "write_n(", "v1", "3", "v15", "ordinal(", "as", "i64", "v3", "false", "Hour", "v8", "Some(", "v16", "=>", "write_two(", "v1", "v16", "hour(", "as", "u8", "v3", "Hour12", "v8", "Some(", "v16", "=>", "write_two(", "v1", "v16", "hour12(", "as", "u8", "v3", "Minute", "v8", "Some(", "v16", "=>", "write_two(", "v1", "v16", "minute(", "as", "u8", "v3", "Second", "v8", "Some(", "v16", "=>", "write_two(", "v1", "v16", "second(", "+", "v16", "nanosecond(", "/", "1000000000", "as", "u8", "v3", "Nanosecond", "v8", "Some(", "v16", "=>", "write_n(", "v1", "9", "v16", "nanosecond(", "%", "1000000000", "as", "i64", "v3", "false", "Timestamp", "Some(", "v15", "Some(", "v16", "=>", "v17", "self", "v18", "as_ref(", "map(", "|", "v8", "v19", "|", "i64", "from(", "v19", "local_minus_utc(", "v20", "v15", "and_time(", "v16", "and_utc(", "timestamp(", "-", "v17", "unwrap_or(", "0", "write_n(", "v1", "9", "v20", "v3", "false", "Internal(", "v8", "v8", "v8", "=>", "Ok(", "v8", "=>", "Err(", "v4", "Error"] := by decide +kernel

/-- src/format/formatting.rs:fn write_n -/
theorem src_format_formatting_rs_fn_write_n : C12_src_format_formatting_rs_fn_write_n =
    ["v1", "&", "Write", "v2", "usize", "v3", "i64", "v4", "Pad", "v5", "bool", "->", "v6", "Result", "if", "v5", "match", "v4", "Pad", "None", "=>", "write!(", "v1", "\"{:+}\"", "v3", "Pad", "Zero", "=>", "write!(", "v1", "\"{:+01$}\"", "v3", "v2", "+", "1", "Pad", "Space", "=>", "write!(", "v1", "\"{:+1$}\"", "v3", "v2", "+", "1", "else", "match", "v4", "Pad", "None", "=>", "write!(", "v1", "\"{}\"", "v3", "Pad", "Zero", "=>", "write!(", "v1", "\"{:01$}\"", "v3", "v2", "Pad", "Space", "=>", "write!(", "v1", "\"{:1$}\"", "v3", "v2"] := by decide +kernel

/-- src/format/formatting.rs:fn write_one -/
theorem src_format_formatting_rs_fn_write_one : C12_src_format_formatting_rs_fn_write_one =
    ["v1", "&", "Write", "v2", "u8", "->", "v3", "Result", "v1", "write_char(", "b'0'", "+", "v2", "as", "char"] := by decide +kernel

/-- src/format/formatting.rs:fn write_two -/
theorem src_format_formatting_rs_fn_write_two : C12_src_format_formatting_rs_fn_write_two =
    ["v1", "&", "Write", "v2", "u8", "v3", "Pad", "->", "v4", "Result", "v5", "b'0'", "+", "v2", "%", "10", "match(", "v2", "/", "10", "v3", "0", "Pad", "None", "=>", "0", "Pad", "Space", "=>", "v1", "write_char(", "' '", "?", "v6", "v7", "=>", "v1", "write_char(", "b'0'", "+", "v6", "as", "char", "?", "v1", "write_char(", "v5", "as", "char"] := by decide +kernel

/-- src/format/formatting.rs:fn write_year -/
theorem src_format_formatting_rs_fn_write_year : C12_src_format_formatting_rs_fn_write_year =
    ["v1", "&", "Write", "v2", "i32", "v3", "Pad", "->", "v4", "Result", "if(", "1000", "..=", "9999", "contains(", "&", "v2", "write_hundreds(", "v1", "v2", "/", "100", "as", "u8", "?", "write_hundreds(", "v1", "v2", "%", "100", "as", "u8", "else", "write_n(", "v1", "4", "v2", "as", "i64", "v3", "!", "0", "..", "v5", "contains(", "&", "v2"] := by decide +kernel

/-- src/format/locales.rs:fn am_pm -/
theorem src_format_locales_rs_fn_am_pm : C12_src_format_locales_rs_fn_am_pm =
    ["v1", "Locale", "->", "&", "&", "str", "locale_match!(", "v1", "=>", "LC_TIME", "AM_PM", "§", "v1", "Locale", "->", "&", "&", "str", "&", "\"AM\"", "\"PM\""] := by decide +kernel

/-- src/format/locales.rs:fn d_fmt -/
theorem src_format_locales_rs_fn_d_fmt : C12_src_format_locales_rs_fn_d_fmt =
    ["v1", "Locale", "->", "&", "str", "locale_match!(", "v1", "=>", "LC_TIME", "D_FMT"] := by decide +kernel

/-- src/format/locales.rs:fn d_t_fmt -/
theorem src_format_locales_rs_fn_d_t_fmt : C12_src_format_locales_rs_fn_d_t_fmt =
    ["v1", "Locale", "->", "&", "str", "locale_match!(", "v1", "=>", "LC_TIME", "D_T_FMT"] := by decide +kernel

/-- src/format/locales.rs:fn decimal_point -/
theorem src_format_locales_rs_fn_decimal_point : C12_src_format_locales_rs_fn_decimal_point =
    ["v1", "Locale", "->", "&", "str", "locale_match!(", "v1", "=>", "LC_NUMERIC", "DECIMAL_POINT", "§", "v1", "Locale", "->", "&", "str", "\".\""] := by decide +kernel

/-- src/format/locales.rs:fn default_locale -/
theorem src_format_locales_rs_fn_default_locale : C12_src_format_locales_rs_fn_default_locale =
    ["->", "Locale", "Locale", "POSIX", "§", "->", "Locale", "Locale"] := by decide +kernel

/-- src/format/locales.rs:fn long_months -/
theorem src_format_locales_rs_fn_long_months : C12_src_format_locales_rs_fn_long_months =
    ["v1", "Locale", "->", "&", "&", "str", "locale_match!(", "v1", "=>", "LC_TIME", "MON", "§", "v1", "Locale", "->", "&", "&", "str", "&", "\"January\"", "\"February\"", "\"March\"", "\"April\"", "\"May\"", "\"June\"", "\"July\"", "\"August\"", "\"September\"", "\"October\"", "\"November\"", "\"December\""] := by decide +kernel

/-- src/format/locales.rs:fn long_weekdays -/
theorem src_format_locales_rs_fn_long_weekdays : C12_src_format_locales_rs_fn_long_weekdays =
    ["v1", "Locale", "->", "&", "&", "str", "locale_match!(", "v1", "=>", "LC_TIME", "DAY", "§", "v1", "Locale", "->", "&", "&", "str", "&", "\"Sunday\"", "\"Monday\"", "\"Tuesday\"", "\"Wednesday\"", "\"Thursday\"", "\"Friday\"", "\"Saturday\""] := by decide +kernel

/-- src/format/locales.rs:fn short_months -/
theorem src_format_locales_rs_fn_short_months : C12_src_format_locales_rs_fn_short_months =
    ["v1", "Locale", "->", "&", "&", "str", "locale_match!(", "v1", "=>", "LC_TIME", "ABMON", "§", "v1", "Locale", "->", "&", "&", "str", "&", "\"Jan\"", "\"Feb\"", "\"Mar\"", "\"Apr\"", "\"May\"", "\"Jun\"", "\"Jul\"", "\"Aug\"", "\"Sep\"", "\"Oct\"", "\"Nov\"", "\"Dec\""] := by decide +kernel

/-- src/format/locales.rs:fn short_weekdays -/
theorem src_format_locales_rs_fn_short_weekdays : C12_src_format_locales_rs_fn_short_weekdays =
    ["v1", "Locale", "->", "&", "&", "str", "locale_match!(", "v1", "=>", "LC_TIME", "ABDAY", "§", "v1", "Locale", "->", "&", "&", "str", "&", "\"Sun\"", "\"Mon\"", "\"Tue\"", "\"Wed\"", "\"Thu\"", "\"Fri\"", "\"Sat\""] := by decide +kernel

/-- src/format/locales.rs:fn t_fmt -/
theorem src_format_locales_rs_fn_t_fmt : C12_src_format_locales_rs_fn_t_fmt =
    ["v1", "Locale", "->", "&", "str", "locale_match!(", "v1", "=>", "LC_TIME", "T_FMT"] := by decide +kernel

/-- src/format/locales.rs:fn t_fmt_ampm -/
theorem src_format_locales_rs_fn_t_fmt_ampm : C12_src_format_locales_rs_fn_t_fmt_ampm =
    ["v1", "Locale", "->", "&", "str", "locale_match!(", "v1", "=>", "LC_TIME", "T_FMT_AMPM"] := by decide +kernel

/-- src/format/strftime.rs:const D_FMT -/
theorem src_format_strftime_rs_const_D_FMT : C12_src_format_strftime_rs_const_D_FMT =
    ["&", "Item", "<", ">", "&", "num0(", "Month", "Literal(", "\"/\"", "num0(", "Day", "Literal(", "\"/\"", "num0(", "YearMod100"] := by decide +kernel

/-- src/format/strftime.rs:const D_T_FMT -/
theorem src_format_strftime_rs_const_D_T_FMT : C12_src_format_strftime_rs_const_D_T_FMT =
    ["&", "Item", "<", ">", "&", "fixed(", "Fixed", "ShortWeekdayName", "Space(", "\" \"", "fixed(", "Fixed", "ShortMonthName", "Space(", "\" \"", "nums(", "Day", "Space(", "\" \"", "num0(", "Hour", "Literal(", "\":\"", "num0(", "Minute", "Literal(", "\":\"", "num0(", "Second", "Space(", "\" \"", "num0(", "Year"] := by decide +kernel

/-- src/format/strftime.rs:const T_FMT -/
theorem src_format_strftime_rs_const_T_FMT : C12_src_format_strftime_rs_const_T_FMT =
    ["&", "Item", "<", ">", "&", "num0(", "Hour", "Literal(", "\":\"", "num0(", "Minute", "Literal(", "\":\"", "num0(", "Second"] := by decide +kernel

/-- src/format/strftime.rs:const T_FMT_AMPM -/
theorem src_format_strftime_rs_const_T_FMT_AMPM : C12_src_format_strftime_rs_const_T_FMT_AMPM =
    ["&", "Item", "<", ">", "&", "num0(", "Hour12", "Literal(", "\":\"", "num0(", "Minute", "Literal(", "\":\"", "num0(", "Second", "Space(", "\" \"", "fixed(", "Fixed", "UpperAmPm"] := by decide +kernel

/-- src/format/strftime.rs:fn parse_next_item -/
theorem src_format_strftime_rs_fn_parse_next_item : C12_src_format_strftime_rs_fn_parse_next_item =
    ["&", "self", "v1", "&", "str", "->", "Option", "<", "&", "str", "Item", "<", ">", ">", "InternalInternal", "*", "Item", "Literal", "Space", "Numeric", "*", "D_FMT", "&", "Item", "<", ">", "&", "num0(", "Month", "Literal(", "\"/\"", "num0(", "Day", "Literal(", "\"/\"", "num0(", "YearMod100", "D_T_FMT", "&", "Item", "<", ">", "&", "fixed(", "Fixed", "ShortWeekdayName", "Space(", "\" \"", "fixed(", "Fixed", "ShortMonthName", "Space(", "\" \"", "nums(", "Day", "Space(", "\" \"", "num0(", "Hour", "Literal(", "\":\"", "num0(", "Minute", "Literal(", "\":\"", "num0(", "Second", "Space(", "\" \"", "num0(", "Year", "T_FMT", "&", "Item", "<", ">", "&", "num0(", "Hour", "Literal(", "\":\"", "num0(", "Minute", "Literal(", "\":\"", "num0(", "Second", "T_FMT_AMPM", "&", "Item", "<", ">", "&", "num0(", "Hour12", "Literal(", "\":\"", "num0(", "Minute", "Literal(", "\":\"", "num0(", "Second", "Space(", "\" \"", "fixed(", "Fixed", "UpperAmPm", "match", "v1", "chars(", "next(", "None", "=>", "None", "Some(", "'%'", "=>", "v2", "v1", "v1", "&", "v1", "1", "..", "v3", "0", "if", "self", "v4", "v3", "+=", "1", "v5", "!", "v6", "=>", "match", "v1", "chars(", "next(", "Some(", "v7", "=>", "v1", "&", "v1", "v7", "len_utf8(", "..", "if", "self", "v4", "v3", "+=", "v7", "len_utf8(", "v7", "None", "=>", "return", "Some(", "self", "error(", "v2", "&", "v3", "None", "v8", "next!(", "v9", "match", "v8", "'-'", "=>", "Some(", "Pad", "None", "'0'", "=>", "Some(", "Pad", "Zero", "'_'", "=>", "Some(", "Pad", "Space", "v10", "=>", "None", "v11", "v8", "==", "'#'", "v8", "if", "v9", "is_some(", "||", "v11", "next!(", "else", "v8", "if", "v11", "&&", "!", "HAVE_ALTERNATES", "contains(", "v8", "return", "Some(", "self", "error(", "v2", "&", "v3", "Some(", "v8", "v5", "!", "v12", "v13", "v14", "v15", "v14", "+", "*", "=>", "QUEUE", "&", "Item", "<", ">", "&", "v15", "+", "self", "v12", "QUEUE", "v13", "v5", "!", "v16", "v17", "v14", "=>", "self", "v12", "&", "v17", "1", "..", "v17", "0", "clone(", "v18", "match", "v8", "'A'", "=>", "fixed(", "Fixed", "LongWeekdayName", "'B'", "=>", "fixed(", "Fixed", "LongMonthName", "'C'", "=>", "num0(", "YearDiv100", "'D'", "=>", "v12", "!", "num0(", "Month", "Literal(", "\"/\"", "num0(", "Day", "Literal(", "\"/\"", "num0(", "YearMod100", "'F'", "=>", "v12", "!", "num0(", "Year", "Literal(", "\"-\"", "num0(", "Month", "Literal(", "\"-\"", "num0(", "Day", "'G'", "=>", "num0(", "IsoYear", "'H'", "=>", "num0(", "Hour", "'I'", "=>", "num0(", "Hour12", "'M'", "=>", "num0(", "Minute", "'P'", "=>", "fixed(", "Fixed", "LowerAmPm", "'R'", "=>", "v12", "!", "num0(", "Hour", "Literal(", "\":\"", "num0(", "Minute", "'S'", "=>", "num0(", "Second", "'T'", "=>", "v12", "!", "num0(", "Hour", "Literal(", "\":\"", "num0(", "Minute", "Literal(", "\":\"", "num0(", "Second", "'U'", "=>", "num0(", "WeekFromSun", "'V'", "=>", "num0(", "IsoWeek", "'W'", "=>", "num0(", "WeekFromMon", "'X'", "=>", "queue_from_slice!(", "T_FMT", "'X'", "=>", "self", "switch_to_locale_str(", "v19", "v20", "T_FMT", "'Y'", "=>", "num0(", "Year", "'Z'", "=>", "fixed(", "Fixed", "TimezoneName", "'a'", "=>", "fixed(", "Fixed", "ShortWeekdayName", "'b'", "|", "'h'", "=>", "fixed(", "Fixed", "ShortMonthName", "'c'", "=>", "queue_from_slice!(", "D_T_FMT", "'c'", "=>", "self", "switch_to_locale_str(", "v19", "v21", "D_T_FMT", "'d'", "=>", "num0(", "Day", "'e'", "=>", "nums(", "Day", "'f'", "=>", "num0(", "Nanosecond", "'g'", "=>", "num0(", "IsoYearMod100", "'j'", "=>", "num0(", "Ordinal", "'k'", "=>", "nums(", "Hour", "'l'", "=>", "nums(", "Hour12", "'m'", "=>", "num0(", "Month", "'n'", "=>", "Space(", "\"\\n\"", "'p'", "=>", "fixed(", "Fixed", "UpperAmPm", "'q'", "=>", "num(", "Quarter", "'r'", "=>", "queue_from_slice!(", "T_FMT_AMPM", "'r'", "=>", "if", "self", "v22", "is_some(", "&&", "v19", "t_fmt_ampm(", "self", "v22", "unwrap(", "is_empty(", "self", "switch_to_locale_str(", "v19", "v20", "T_FMT", "else", "self", "switch_to_locale_str(", "v19", "v23", "T_FMT_AMPM", "'s'", "=>", "num(", "Timestamp", "'t'", "=>", "Space(", "\"\\t\"", "'u'", "=>", "num(", "WeekdayFromMon", "'v'", "=>", "v12", "!", "nums(", "Day", "Literal(", "\"-\"", "fixed(", "Fixed", "ShortMonthName", "Literal(", "\"-\"", "num0(", "Year", "'w'", "=>", "num(", "NumDaysFromSun", "'x'", "=>", "queue_from_slice!(", "D_FMT", "'x'", "=>", "self", "switch_to_locale_str(", "v19", "v24", "D_FMT", "'y'", "=>", "num0(", "YearMod100", "'z'", "=>", "if", "v11", "internal_fixed(", "TimezoneOffsetPermissive", "else", "fixed(", "Fixed", "TimezoneOffset", "'+'", "=>", "fixed(", "Fixed", "RFC3339", "':'", "=>", "if", "v1", "starts_with(", "\"::z\"", "v1", "&", "v1", "3", "..", "fixed(", "Fixed", "TimezoneOffsetTripleColon", "else", "if", "v1", "starts_with(", "\":z\"", "v1", "&", "v1", "2", "..", "fixed(", "Fixed", "TimezoneOffsetDoubleColon", "else", "if", "v1", "starts_with(", "'z'", "v1", "&", "v1", "1", "..", "fixed(", "Fixed", "TimezoneOffsetColon", "else", "self", "error(", "v2", "&", "v3", "None", "'.'", "=>", "match", "next!(", "'3'", "=>", "match", "next!(", "'f'", "=>", "fixed(", "Fixed", "Nanosecond3", "v25", "=>", "v26", "self", "error(", "v2", "&", "v3", "Some(", "v25", "v1", "v26", "v26", "'6'", "=>", "match", "next!(", "'f'", "=>", "fixed(", "Fixed", "Nanosecond6", "v25", "=>", "v26", "self", "error(", "v2", "&", "v3", "Some(", "v25", "v1", "v26", "v26", "'9'", "=>", "match", "next!(", "'f'", "=>", "fixed(", "Fixed", "Nanosecond9", "v25", "=>", "v26", "self", "error(", "v2", "&", "v3", "Some(", "v25", "v1", "v26", "v26", "'f'", "=>", "fixed(", "Fixed", "Nanosecond", "v25", "=>", "v26", "self", "error(", "v2", "&", "v3", "Some(", "v25", "v1", "v26", "v26", "'3'", "=>", "match", "next!(", "'f'", "=>", "internal_fixed(", "Nanosecond3NoDot", "v25", "=>", "v26", "self", "error(", "v2", "&", "v3", "Some(", "v25", "v1", "v26", "v26", "'6'", "=>", "match", "next!(", "'f'", "=>", "internal_fixed(", "Nanosecond6NoDot", "v25", "=>", "v26", "self", "error(", "v2", "&", "v3", "Some(", "v25", "v1", "v26", "v26", "'9'", "=>", "match", "next!(", "'f'", "=>", "internal_fixed(", "Nanosecond9NoDot", "v25", "=>", "v26", "self", "error(", "v2", "&", "v3", "Some(", "v25", "v1", "v26", "v26", "'%'", "=>", "Literal(", "\"%\"", "v25", "=>", "v26", "self", "error(", "v2", "&", "v3", "Some(", "v25", "v1", "v26", "v26", "if", "Some(", "v27", "v9", "match", "v18", "Item", "Numeric(", "v28", "v29", "if", "self", "v12", "is_empty(", "=>", "Some(", "v1", "Item", "Numeric(", "v28", "clone(", "v27", "v10", "=>", "Some(", "self", "error(", "v2", "&", "v3", "None", "else", "Some(", "v1", "v18", "Some(", "v25", "if", "v25", "is_whitespace(", "=>", "v30", "v1", "find(", "|", "v25", "char", "|", "!", "v25", "is_whitespace(", "unwrap_or(", "v1", "len(", "assert!(", "v30", ">", "0", "v18", "Space(", "&", "v1", "..", "v30", "v1", "&", "v1", "v30", "..", "Some(", "v1", "v18", "v10", "=>", "v30", "v1", "find(", "|", "v25", "char", "|", "v25", "is_whitespace(", "||", "v25", "==", "'%'", "unwrap_or(", "v1", "len(", "assert!(", "v30", ">", "0", "v18", "Literal(", "&", "v1", "..", "v30", "v1", "&", "v1", "v30", "..", "Some(", "v1", "v18"] := by decide +kernel

/-- src/format/strftime.rs:fn switch_to_locale_str -/
theorem src_format_strftime_rs_fn_switch_to_locale_str : C12_src_format_strftime_rs_fn_switch_to_locale_str =
    ["&", "self", "v1", "Fn(", "Locale", "->", "&", "str", "v2", "&", "Item", "<", ">", "->", "Item", "<", ">", "if", "Some(", "v3", "self", "v3", "assert!(", "self", "v4", "is_empty(", "let(", "v5", "v6", "self", "parse_next_item(", "localized_fmt_str(", "v3", "unwrap(", "self", "v4", "v5", "v6", "else", "self", "v7", "&", "v2", "1", "..", "v2", "0", "clone("] := by decide +kernel

/-- src/format/strftime.rs:impl Iterator for StrftimeItems -/
theorem src_format_strftime_rs_impl_Iterator_for_StrftimeItems : C12_src_format_strftime_rs_impl_Iterator_for_StrftimeItems =
    ["<", ">", "Iterator", "for", "StrftimeItems", "<", ">", "Item", "Item", "<", ">", "next(", "&", "self", "->", "Option", "<", "Item", "<", ">>", "if", "Some(", "v1", "v2", "self", "v3", "split_first(", "self", "v3", "v2", "return", "Some(", "v1", "clone(", "if", "!", "self", "v4", "is_empty(", "let(", "v2", "v1", "self", "parse_next_item(", "self", "v4", "?", "self", "v4", "v2", "return", "Some(", "v1", "let(", "v2", "v1", "self", "parse_next_item(", "self", "v2", "?", "self", "v2", "v2", "Some(", "v1"] := by decide +kernel

/-- src/naive/date/mod.rs:fn format -/
theorem src_naive_date_mod_rs_fn_format : C12_src_naive_date_mod_rs_fn_format =
    ["<", ">", "&", "self", "v1", "&", "str", "->", "DelayedFormat", "<", "StrftimeItems", "<", ">>", "self", "format_with_items(", "StrftimeItems", "new(", "v1"] := by decide +kernel

/-- src/naive/date/mod.rs:fn format_with_items -/
theorem src_naive_date_mod_rs_fn_format_with_items : C12_src_naive_date_mod_rs_fn_format_with_items =
    ["<", "I", "B", ">", "&", "self", "v1", "I", "->", "DelayedFormat", "<", "I", ">", "I", "Iterator", "<", "Item", "B", ">", "+", "Clone", "B", "Borrow", "<", "Item", "<", ">>", "DelayedFormat", "new(", "Some(", "*", "self", "None", "v1"] := by decide +kernel

/-- src/naive/date/mod.rs:fn weeks_from -/
theorem src_naive_date_mod_rs_fn_weeks_from : C12_src_naive_date_mod_rs_fn_weeks_from =
    ["&", "self", "v1", "Weekday", "->", "i32", "self", "ordinal(", "as", "i32", "-", "self", "weekday(", "days_since(", "v1", "as", "i32", "+", "6", "/", "7"] := by decide +kernel

/-- src/naive/datetime/mod.rs:fn format -/
theorem src_naive_datetime_mod_rs_fn_format : C12_src_naive_datetime_mod_rs_fn_format =
    ["<", ">", "&", "self", "v1", "&", "str", "->", "DelayedFormat", "<", "StrftimeItems", "<", ">>", "self", "format_with_items(", "StrftimeItems", "new(", "v1"] := by decide +kernel

/-- src/naive/datetime/mod.rs:fn format_with_items -/
theorem src_naive_datetime_mod_rs_fn_format_with_items : C12_src_naive_datetime_mod_rs_fn_format_with_items =
    ["<", "I", "B", ">", "&", "self", "v1", "I", "->", "DelayedFormat", "<", "I", ">", "I", "Iterator", "<", "Item", "B", ">", "+", "Clone", "B", "Borrow", "<", "Item", "<", ">>", "DelayedFormat", "new(", "Some(", "self", "v2", "Some(", "self", "v3", "v1"] := by decide +kernel

/-- src/naive/isoweek.rs:fn from_yof -/
theorem src_naive_isoweek_rs_fn_from_yof : C12_src_naive_isoweek_rs_fn_from_yof =
    ["v1", "i32", "v2", "u32", "v3", "YearFlags", "->", "Self", "v4", "v2", "+", "v3", "isoweek_delta(", "/", "7", "let(", "v1", "v5", "if", "v4", "<", "1", "v6", "YearFlags", "from_year(", "v1", "-", "1", "nisoweeks(", "v1", "-", "1", "v6", "else", "v7", "v3", "nisoweeks(", "if", "v4", ">", "v7", "v1", "+", "1", "1", "else", "v1", "v4", "v8", "YearFlags", "from_year(", "v1", "IsoWeek", "v9", "v1", "<<", "10", "|", "v5", "<<", "4", "as", "i32", "|", "i32", "from(", "v8"] := by decide +kernel

/-- src/naive/time/mod.rs:fn format -/
theorem src_naive_time_mod_rs_fn_format : C12_src_naive_time_mod_rs_fn_format =
    ["<", ">", "&", "self", "v1", "&", "str", "->", "DelayedFormat", "<", "StrftimeItems", "<", ">>", "self", "format_with_items(", "StrftimeItems", "new(", "v1"] := by decide +kernel

/-- src/naive/time/mod.rs:fn format_with_items -/
theorem src_naive_time_mod_rs_fn_format_with_items : C12_src_naive_time_mod_rs_fn_format_with_items =
    ["<", "I", "B", ">", "&", "self", "v1", "I", "->", "DelayedFormat", "<", "I", ">", "I", "Iterator", "<", "Item", "B", ">", "+", "Clone", "B", "Borrow", "<", "Item", "<", ">>", "DelayedFormat", "new(", "None", "Some(", "*", "self", "v1"] := by decide +kernel

/-- src/traits.rs:fn hour12 -/
theorem src_traits_rs_fn_hour12 : C12_src_traits_rs_fn_hour12 =
    ["&", "self", "->", "bool", "u32", "v1", "self", "hour(", "v2", "v1", "%", "12", "if", "v2", "==", "0", "v2", "12", "v1", ">=", "12", "v2"] := by decide +kernel

/-- callee src/datetime/mod.rs:fn from_naive_utc_and_offset -/
theorem callee_src_datetime_mod_rs_fn_from_naive_utc_and_offset : C12_callee_src_datetime_mod_rs_fn_from_naive_utc_and_offset =
    ["v1", "NaiveDateTime", "v2", "Tz", "Offset", "->", "DateTime", "<", "Tz", ">", "DateTime", "v1", "v2"] := by decide +kernel

/-- callee src/datetime/mod.rs:fn overflowing_naive_local -/
theorem callee_src_datetime_mod_rs_fn_overflowing_naive_local : C12_callee_src_datetime_mod_rs_fn_overflowing_naive_local =
    ["&", "self", "->", "NaiveDateTime", "self", "v1", "overflowing_add_offset(", "self", "v2", "fix("] := by decide +kernel

/-- callee src/format/formatting.rs:fn new_with_offset -/
theorem callee_src_format_formatting_rs_fn_new_with_offset : C12_callee_src_format_formatting_rs_fn_new_with_offset =
    ["<", "Off", ">", "v1", "Option", "<", "NaiveDate", ">", "v2", "Option", "<", "NaiveTime", ">", "v3", "&", "Off", "v4", "I", "->", "DelayedFormat", "<", "I", ">", "Off", "Offset", "+", "Display", "v5", "v3", "to_string(", "v3", "fix(", "DelayedFormat", "v1", "v2", "v6", "Some(", "v5", "v4", "v7", "default_locale("] := by decide +kernel

/-- callee src/format/formatting.rs:fn write_hundreds -/
theorem callee_src_format_formatting_rs_fn_write_hundreds : C12_callee_src_format_formatting_rs_fn_write_hundreds =
    ["v1", "&", "Write", "v2", "u8", "->", "v3", "Result", "if", "v2", ">=", "100", "return", "Err(", "v3", "Error", "v4", "b'0'", "+", "v2", "/", "10", "v5", "b'0'", "+", "v2", "%", "10", "v1", "write_char(", "v4", "as", "char", "?", "v1", "write_char(", "v5", "as", "char"] := by decide +kernel

/-- callee src/format/formatting.rs:fn write_rfc2822 -/
theorem callee_src_format_formatting_rs_fn_write_rfc2822 : C12_callee_src_format_formatting_rs_fn_write_rfc2822 =
    ["v1", "&", "Write", "v2", "NaiveDateTime", "v3", "FixedOffset", "->", "v4", "Result", "v5", "v2", "year(", "if!(", "0", "..=", "9999", "contains(", "&", "v5", "return", "Err(", "v4", "Error", "v6", "default_locale(", "v1", "write_str(", "short_weekdays(", "v6", "v2", "weekday(", "num_days_from_sunday(", "as", "usize", "?", "v1", "write_str(", "\", \"", "?", "v7", "v2", "day(", "if", "v7", "<", "10", "v1", "write_char(", "b'0'", "+", "v7", "as", "u8", "as", "char", "?", "else", "write_hundreds(", "v1", "v7", "as", "u8", "?", "v1", "write_char(", "' '", "?", "v1", "write_str(", "short_months(", "v6", "v2", "month0(", "as", "usize", "?", "v1", "write_char(", "' '", "?", "write_hundreds(", "v1", "v5", "/", "100", "as", "u8", "?", "write_hundreds(", "v1", "v5", "%", "100", "as", "u8", "?", "v1", "write_char(", "' '", "?", "let(", "v8", "v9", "v10", "v2", "time(", "hms(", "write_hundreds(", "v1", "v8", "as", "u8", "?", "v1", "write_char(", "':'", "?", "write_hundreds(", "v1", "v9", "as", "u8", "?", "v1", "write_char(", "':'", "?", "v10", "v10", "+", "v2", "nanosecond(", "/", "1000000000", "write_hundreds(", "v1", "v10", "as", "u8", "?", "v1", "write_char(", "' '", "?", "OffsetFormat", "v11", "OffsetPrecision", "Minutes", "v12", "Colons", "None", "v13", "false", "v14", "Pad", "Zero", "format(", "v1", "v3"] := by decide +kernel

/-- callee src/format/formatting.rs:fn write_rfc3339 -/
theorem callee_src_format_formatting_rs_fn_write_rfc3339 : C12_callee_src_format_formatting_rs_fn_write_rfc3339 =
    ["v1", "&", "Write", "v2", "NaiveDateTime", "v3", "FixedOffset", "v4", "SecondsFormat", "v5", "bool", "->", "v6", "Result", "v7", "v2", "date(", "year(", "if(", "0", "..=", "9999", "contains(", "&", "v7", "write_hundreds(", "v1", "v7", "/", "100", "as", "u8", "?", "write_hundreds(", "v1", "v7", "%", "100", "as", "u8", "?", "else", "write!(", "v1", "\"{:+05}\"", "v7", "?", "v1", "write_char(", "'-'", "?", "write_hundreds(", "v1", "v2", "date(", "month(", "as", "u8", "?", "v1", "write_char(", "'-'", "?", "write_hundreds(", "v1", "v2", "date(", "day(", "as", "u8", "?", "v1", "write_char(", "'T'", "?", "let(", "v8", "v9", "v10", "v2", "time(", "hms(", "v11", "v2", "nanosecond(", "if", "v11", ">=", "1000000000", "v10", "+=", "1", "v11", "-=", "1000000000", "write_hundreds(", "v1", "v8", "as", "u8", "?", "v1", "write_char(", "':'", "?", "write_hundreds(", "v1", "v9", "as", "u8", "?", "v1", "write_char(", "':'", "?", "v10", "v10", "write_hundreds(", "v1", "v10", "as", "u8", "?", "match", "v4", "SecondsFormat", "Secs", "=>", "SecondsFormat", "Millis", "=>", "write!(", "v1", "\".{:03}\"", "v11", "/", "1000000", "?", "SecondsFormat", "Micros", "=>", "write!(", "v1", "\".{:06}\"", "v11", "/", "1000", "?", "SecondsFormat", "Nanos", "=>", "write!(", "v1", "\".{:09}\"", "v11", "?", "SecondsFormat", "AutoSi", "=>", "if", "v11", "==", "0", "else", "if", "v11", "%", "1000000", "==", "0", "write!(", "v1", "\".{:03}\"", "v11", "/", "1000000", "?", "else", "if", "v11", "%", "1000", "==", "0", "write!(", "v1", "\".{:06}\"", "v11", "/", "1000", "?", "else", "write!(", "v1", "\".{:09}\"", "v11", "?", "SecondsFormat", "__NonExhaustive", "=>", "unreachable!(", "OffsetFormat", "v12", "OffsetPrecision", "Minutes", "v13", "Colons", "Colon", "v14", "v5", "v15", "Pad", "Zero", "format(", "v1", "v3"] := by decide +kernel

/-- callee src/format/mod.rs:fn internal_fixed -/
theorem callee_src_format_mod_rs_fn_internal_fixed : C12_callee_src_format_mod_rs_fn_internal_fixed =
    ["v1", "InternalInternal", "->", "Item", "<", ">", "Item", "Fixed(", "Fixed", "Internal(", "InternalFixed", "v1"] := by decide +kernel

/-- callee src/format/mod.rs:fn num -/
theorem callee_src_format_mod_rs_fn_num : C12_callee_src_format_mod_rs_fn_num =
    ["v1", "Numeric", "->", "Item", "<", ">", "Item", "Numeric(", "v1", "Pad", "None"] := by decide +kernel

/-- callee src/format/mod.rs:fn num0 -/
theorem callee_src_format_mod_rs_fn_num0 : C12_callee_src_format_mod_rs_fn_num0 =
    ["v1", "Numeric", "->", "Item", "<", ">", "Item", "Numeric(", "v1", "Pad", "Zero"] := by decide +kernel

/-- callee src/format/mod.rs:fn nums -/
theorem callee_src_format_mod_rs_fn_nums : C12_callee_src_format_mod_rs_fn_nums =
    ["v1", "Numeric", "->", "Item", "<", ">", "Item", "Numeric(", "v1", "Pad", "Space"] := by decide +kernel

/-- callee src/naive/datetime/mod.rs:fn and_utc -/
theorem callee_src_naive_datetime_mod_rs_fn_and_utc : C12_callee_src_naive_datetime_mod_rs_fn_and_utc =
    ["&", "self", "->", "DateTime", "<", "Utc", ">", "DateTime", "from_naive_utc_and_offset(", "*", "self", "Utc"] := by decide +kernel

/-- callee src/naive/internals.rs:fn from_year -/
theorem callee_src_naive_internals_rs_fn_from_year : C12_callee_src_naive_internals_rs_fn_from_year =
    ["v1", "i32", "->", "YearFlags", "v1", "v1", "rem_euclid(", "400", "YearFlags", "from_year_mod_400(", "v1"] := by decide +kernel

/-- callee src/naive/internals.rs:fn from_year_mod_400 -/
theorem callee_src_naive_internals_rs_fn_from_year_mod_400 : C12_callee_src_naive_internals_rs_fn_from_year_mod_400 =
    ["v1", "i32", "->", "YearFlags", "YEAR_TO_FLAGS", "v1", "as", "usize"] := by decide +kernel

/-- callee src/naive/internals.rs:fn isoweek_delta -/
theorem callee_src_naive_internals_rs_fn_isoweek_delta : C12_callee_src_naive_internals_rs_fn_isoweek_delta =
    ["&", "self", "->", "u32", "YearFlags(", "v1", "*", "self", "v2", "v1", "&", "7", "as", "u32", "if", "v2", "<", "3", "v2", "+=", "7", "v2"] := by decide +kernel

/-- callee src/naive/internals.rs:fn nisoweeks -/
theorem callee_src_naive_internals_rs_fn_nisoweeks : C12_callee_src_naive_internals_rs_fn_nisoweeks =
    ["&", "self", "->", "u32", "YearFlags(", "v1", "*", "self", "52", "+", "1030", ">>", "v1", "as", "usize", "&", "1"] := by decide +kernel

/-- callee src/naive/time/mod.rs:fn hms -/
theorem callee_src_naive_time_mod_rs_fn_hms : C12_callee_src_naive_time_mod_rs_fn_hms =
    ["&", "self", "->", "u32", "u32", "u32", "v1", "self", "v2", "%", "60", "v3", "self", "v2", "/", "60", "v4", "v3", "%", "60", "v5", "v3", "/", "60", "v5", "v4", "v1"] := by decide +kernel

/-- callee src/offset/fixed.rs:fn local_minus_utc -/
theorem callee_src_offset_fixed_rs_fn_local_minus_utc : C12_callee_src_offset_fixed_rs_fn_local_minus_utc =
    ["&", "self", "->", "i32", "self", "v1"] := by decide +kernel

/-- callee src/weekday.rs:fn days_since -/
theorem callee_src_weekday_rs_fn_days_since : C12_callee_src_weekday_rs_fn_days_since =
    ["&", "self", "v1", "Weekday", "->", "u32", "v2", "*", "self", "as", "u32", "v3", "v1", "as", "u32", "if", "v2", "<", "v3", "7", "+", "v2", "-", "v3", "else", "v2", "-", "v3"] := by decide +kernel

/-- callee src/weekday.rs:fn num_days_from_sunday -/
theorem callee_src_weekday_rs_fn_num_days_from_sunday : C12_callee_src_weekday_rs_fn_num_days_from_sunday =
    ["&", "self", "->", "u32", "self", "days_since(", "Weekday", "Sun"] := by decide +kernel

/-- callee src/weekday.rs:fn number_from_monday -/
theorem callee_src_weekday_rs_fn_number_from_monday : C12_callee_src_weekday_rs_fn_number_from_monday =
    ["&", "self", "->", "u32", "self", "days_since(", "Weekday", "Mon", "+", "1"] := by decide +kernel

end Chrono.Pins.C12
