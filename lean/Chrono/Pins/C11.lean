/-
  PINS of property C11: the decision tokens of every item the property is anchored in
  (properties.jsonl `anchors` + tools/anchor_extra.json), as they were in /repo at 770977e when the
  model was validated against the source.  Written by tools/pin_anchors.py; the right-hand sides are
  compared by the kernel with lean/Chrono/Extracted/Anchors.lean, which tools/extractors/anchors.py
  regenerates from /repo's working tree on every check.  A theorem that fails here means: anchored
  code changed; the hand-written model may no longer mirror it.
-/
import Chrono.Extracted.Anchors
namespace Chrono.Pins.C11
open Chrono.Extracted.Anchors

/-- src/datetime/mod.rs:fn format_with_items -/
theorem src_datetime_mod_rs_fn_format_with_items : C11_src_datetime_mod_rs_fn_format_with_items =
    ["<", "I", "B", ">", "&", "self", "v1", "I", "->", "DelayedFormat", "<", "I", ">", "I", "Iterator", "<", "Item", "B", ">", "+", "Clone", "B", "Borrow", "<", "Item", "<", ">>", "v2", "self", "overflowing_naive_local(", "DelayedFormat", "new_with_offset(", "Some(", "v2", "date(", "Some(", "v2", "time(", "&", "self", "v3", "v1"] := by decide +kernel

/-- src/datetime/mod.rs:fn parse_from_rfc2822 -/
theorem src_datetime_mod_rs_fn_parse_from_rfc2822 : C11_src_datetime_mod_rs_fn_parse_from_rfc2822 =
    ["v1", "&", "str", "->", "ParseResult", "<", "DateTime", "<", "FixedOffset", ">>", "ITEMS", "&", "Item", "<", ">", "&", "Item", "Fixed(", "Fixed", "RFC2822", "v2", "Parsed", "new(", "parse(", "&", "v2", "v1", "ITEMS", "iter(", "?", "v2", "to_datetime("] := by decide +kernel

/-- src/datetime/mod.rs:fn to_rfc2822 -/
theorem src_datetime_mod_rs_fn_to_rfc2822 : C11_src_datetime_mod_rs_fn_to_rfc2822 =
    ["&", "self", "->", "String", "v1", "String", "with_capacity(", "32", "write_rfc2822(", "&", "v1", "self", "overflowing_naive_local(", "self", "v2", "fix(", "expect(", "\"…\"", "v1"] := by decide +kernel

/-- src/format/formatting.rs:fn format -/
theorem src_format_formatting_rs_fn_format : C11_src_format_formatting_rs_fn_format =
    ["<", "I", "B", ">", "v1", "&", "v2", "Formatter", "v3", "Option", "<", "&", "NaiveDate", ">", "v4", "Option", "<", "&", "NaiveTime", ">", "v5", "Option", "<", "&", "String", "FixedOffset", ">", "v6", "I", "->", "v2", "Result", "I", "Iterator", "<", "Item", "B", ">", "+", "Clone", "B", "Borrow", "<", "Item", "<", ">>", "DelayedFormat", "v3", "v3", "copied(", "v4", "v4", "copied(", "v5", "v5", "cloned(", "v6", "v7", "default_locale(", "fmt(", "v1", "§", "&", "self", "v1", "&", "Write", "v2", "FixedOffset", "->", "v3", "Result", "v2", "v2", "local_minus_utc(", "if", "self", "v4", "&&", "v2", "==", "0", "v1", "write_char(", "'Z'", "?", "return", "Ok(", "let(", "v5", "v2", "if", "v2", "<", "0", "'-'", "-", "v2", "else", "'+'", "v2", "v6", "v7", "0", "v8", "0", "v9", "match", "self", "v9", "OffsetPrecision", "Hours", "=>", "v6", "v2", "/", "3600", "as", "u8", "OffsetPrecision", "Hours", "OffsetPrecision", "Minutes", "|", "OffsetPrecision", "OptionalMinutes", "=>", "v10", "v2", "+", "30", "/", "60", "v7", "v10", "%", "60", "as", "u8", "v6", "v10", "/", "60", "as", "u8", "if", "self", "v9", "==", "OffsetPrecision", "OptionalMinutes", "&&", "v7", "==", "0", "OffsetPrecision", "Hours", "else", "OffsetPrecision", "Minutes", "OffsetPrecision", "Seconds", "|", "OffsetPrecision", "OptionalSeconds", "|", "OffsetPrecision", "OptionalMinutesAndSeconds", "=>", "v10", "v2", "/", "60", "v8", "v2", "%", "60", "as", "u8", "v7", "v10", "%", "60", "as", "u8", "v6", "v10", "/", "60", "as", "u8", "if", "self", "v9", "!=", "OffsetPrecision", "Seconds", "&&", "v8", "==", "0", "if", "self", "v9", "==", "OffsetPrecision", "OptionalMinutesAndSeconds", "&&", "v7", "==", "0", "OffsetPrecision", "Hours", "else", "OffsetPrecision", "Minutes", "else", "OffsetPrecision", "Seconds", "v11", "self", "v11", "==", "Colons", "Colon", "if", "v6", "<", "10", "if", "self", "v12", "==", "Pad", "Space", "v1", "write_char(", "' '", "?", "v1", "write_char(", "v5", "?", "if", "self", "v12", "==", "Pad", "Zero", "v1", "write_char(", "'0'", "?", "v1", "write_char(", "b'0'", "+", "v6", "as", "char", "?", "else", "v1", "write_char(", "v5", "?", "write_hundreds(", "v1", "v6", "?", "if", "OffsetPrecision", "Minutes", "|", "OffsetPrecision", "Seconds", "v9", "if", "v11", "v1", "write_char(", "':'", "?", "write_hundreds(", "v1", "v7", "?", "if", "OffsetPrecision", "Seconds", "v9", "if", "v11", "v1", "write_char(", "':'", "?", "write_hundreds(", "v1", "v8", "?", "Ok("] := by decide +kernel

/-- src/format/formatting.rs:fn format_fixed -/
theorem src_format_formatting_rs_fn_format_fixed : C11_src_format_formatting_rs_fn_format_fixed =
    ["&", "self", "v1", "&", "Write", "v2", "&", "Fixed", "->", "v3", "Result", "Fixed", "*", "InternalInternal", "*", "match(", "v2", "self", "v4", "self", "v5", "self", "v6", "as_ref(", "ShortMonthName", "Some(", "v7", "v8", "v8", "=>", "v1", "write_str(", "short_months(", "self", "v9", "v7", "month0(", "as", "usize", "LongMonthName", "Some(", "v7", "v8", "v8", "=>", "v1", "write_str(", "long_months(", "self", "v9", "v7", "month0(", "as", "usize", "ShortWeekdayName", "Some(", "v7", "v8", "v8", "=>", "v1", "write_str(", "short_weekdays(", "self", "v9", "v7", "weekday(", "num_days_from_sunday(", "as", "usize", "LongWeekdayName", "Some(", "v7", "v8", "v8", "=>", "v1", "write_str(", "long_weekdays(", "self", "v9", "v7", "weekday(", "num_days_from_sunday(", "as", "usize", "LowerAmPm", "v8", "Some(", "v10", "v8", "=>", "v11", "if", "v10", "hour12(", "am_pm(", "self", "v9", "1", "else", "am_pm(", "self", "v9", "0", "for", "v12", "in", "v11", "chars(", "flat_map(", "|", "v12", "|", "v12", "to_lowercase(", "v1", "write_char(", "v12", "?", "Ok(", "UpperAmPm", "v8", "Some(", "v10", "v8", "=>", "v11", "if", "v10", "hour12(", "am_pm(", "self", "v9", "1", "else", "am_pm(", "self", "v9", "0", "v1", "write_str(", "v11", "Nanosecond", "v8", "Some(", "v10", "v8", "=>", "v13", "v10", "nanosecond(", "%", "1000000000", "if", "v13", "==", "0", "Ok(", "else", "v1", "write_str(", "decimal_point(", "self", "v9", "?", "if", "v13", "%", "1000000", "==", "0", "write!(", "v1", "\"{:03}\"", "v13", "/", "1000000", "else", "if", "v13", "%", "1000", "==", "0", "write!(", "v1", "\"{:06}\"", "v13", "/", "1000", "else", "write!(", "v1", "\"{:09}\"", "v13", "Nanosecond3", "v8", "Some(", "v10", "v8", "=>", "v1", "write_str(", "decimal_point(", "self", "v9", "?", "write!(", "v1", "\"{:03}\"", "v10", "nanosecond(", "/", "1000000", "%", "1000", "Nanosecond6", "v8", "Some(", "v10", "v8", "=>", "v1", "write_str(", "decimal_point(", "self", "v9", "?", "write!(", "v1", "\"{:06}\"", "v10", "nanosecond(", "/", "1000", "%", "1000000", "Nanosecond9", "v8", "Some(", "v10", "v8", "=>", "v1", "write_str(", "decimal_point(", "self", "v9", "?", "write!(", "v1", "\"{:09}\"", "v10", "nanosecond(", "%", "1000000000", "Internal(", "InternalFixed", "v14", "Nanosecond3NoDot", "v8", "Some(", "v10", "v8", "=>", "write!(", "v1", "\"{:03}\"", "v10", "nanosecond(", "/", "1000000", "%", "1000", "Internal(", "InternalFixed", "v14", "Nanosecond6NoDot", "v8", "Some(", "v10", "v8", "=>", "write!(", "v1", "\"{:06}\"", "v10", "nanosecond(", "/", "1000", "%", "1000000", "Internal(", "InternalFixed", "v14", "Nanosecond9NoDot", "v8", "Some(", "v10", "v8", "=>", "write!(", "v1", "\"{:09}\"", "v10", "nanosecond(", "%", "1000000000", "TimezoneName", "v8", "v8", "Some(", "v15", "v8", "=>", "write!(", "v1", "\"{}\"", "v15", "TimezoneOffset", "|", "TimezoneOffsetZ", "v8", "v8", "Some(", "v8", "v6", "=>", "v16", "OffsetFormat", "v17", "OffsetPrecision", "Minutes", "v18", "Colons", "Maybe", "v19", "*", "v2", "==", "TimezoneOffsetZ", "v20", "Pad", "Zero", "v16", "format(", "v1", "*", "v6", "TimezoneOffsetColon", "|", "TimezoneOffsetColonZ", "v8", "v8", "Some(", "v8", "v6", "=>", "v16", "OffsetFormat", "v17", "OffsetPrecision", "Minutes", "v18", "Colons", "Colon", "v19", "*", "v2", "==", "TimezoneOffsetColonZ", "v20", "Pad", "Zero", "v16", "format(", "v1", "*", "v6", "TimezoneOffsetDoubleColon", "v8", "v8", "Some(", "v8", "v6", "=>", "v16", "OffsetFormat", "v17", "OffsetPrecision", "Seconds", "v18", "Colons", "Colon", "v19", "false", "v20", "Pad", "Zero", "v16", "format(", "v1", "*", "v6", "TimezoneOffsetTripleColon", "v8", "v8", "Some(", "v8", "v6", "=>", "v16", "OffsetFormat", "v17", "OffsetPrecision", "Hours", "v18", "Colons", "None", "v19", "false", "v20", "Pad", "Zero", "v16", "format(", "v1", "*", "v6", "RFC2822", "Some(", "v7", "Some(", "v10", "Some(", "v8", "v6", "=>", "write_rfc2822(", "v1", "NaiveDateTime", "new(", "v7", "v10", "*", "v6", "RFC3339", "Some(", "v7", "Some(", "v10", "Some(", "v8", "v6", "=>", "write_rfc3339(", "v1", "NaiveDateTime", "new(", "v7", "v10", "*", "v6", "SecondsFormat", "AutoSi", "false", "v8", "=>", "Err(", "v3", "Error"] := by decide +kernel

/-- src/format/formatting.rs:fn format_item -/
theorem src_format_formatting_rs_fn_format_item : C11_src_format_formatting_rs_fn_format_item =
    ["v1", "&", "v2", "Formatter", "v3", "Option", "<", "&", "NaiveDate", ">", "v4", "Option", "<", "&", "NaiveTime", ">", "v5", "Option", "<", "&", "String", "FixedOffset", ">", "v6", "&", "Item", "<", ">", "->", "v2", "Result", "DelayedFormat", "v3", "v3", "copied(", "v4", "v4", "copied(", "v5", "v5", "cloned(", "v7", "v6", "into_iter(", "v8", "default_locale(", "fmt(", "v1"] := by decide +kernel

/-- src/format/formatting.rs:fn write_rfc2822 -/
theorem src_format_formatting_rs_fn_write_rfc2822 : C11_src_format_formatting_rs_fn_write_rfc2822 =
    ["v1", "&", "Write", "v2", "NaiveDateTime", "v3", "FixedOffset", "->", "v4", "Result", "v5", "v2", "year(", "if!(", "0", "..=", "9999", "contains(", "&", "v5", "return", "Err(", "v4", "Error", "v6", "default_locale(", "v1", "write_str(", "short_weekdays(", "v6", "v2", "weekday(", "num_days_from_sunday(", "as", "usize", "?", "v1", "write_str(", "\", \"", "?", "v7", "v2", "day(", "if", "v7", "<", "10", "v1", "write_char(", "b'0'", "+", "v7", "as", "u8", "as", "char", "?", "else", "write_hundreds(", "v1", "v7", "as", "u8", "?", "v1", "write_char(", "' '", "?", "v1", "write_str(", "short_months(", "v6", "v2", "month0(", "as", "usize", "?", "v1", "write_char(", "' '", "?", "write_hundreds(", "v1", "v5", "/", "100", "as", "u8", "?", "write_hundreds(", "v1", "v5", "%", "100", "as", "u8", "?", "v1", "write_char(", "' '", "?", "let(", "v8", "v9", "v10", "v2", "time(", "hms(", "write_hundreds(", "v1", "v8", "as", "u8", "?", "v1", "write_char(", "':'", "?", "write_hundreds(", "v1", "v9", "as", "u8", "?", "v1", "write_char(", "':'", "?", "v10", "v10", "+", "v2", "nanosecond(", "/", "1000000000", "write_hundreds(", "v1", "v10", "as", "u8", "?", "v1", "write_char(", "' '", "?", "OffsetFormat", "v11", "OffsetPrecision", "Minutes", "v12", "Colons", "None", "v13", "false", "v14", "Pad", "Zero", "format(", "v1", "v3"] := by decide +kernel

/-- src/format/parse.rs:fn parse -/
theorem src_format_parse_rs_fn_parse : C11_src_format_parse_rs_fn_parse =
    ["<", "I", "B", ">", "v1", "&", "Parsed", "v2", "&", "str", "v3", "I", "->", "ParseResult", "<", ">", "I", "Iterator", "<", "Item", "B", ">", "B", "Borrow", "<", "Item", "<", ">>", "match", "parse_internal(", "v1", "v2", "v3", "Ok(", "\"\"", "=>", "Ok(", "Ok(", "v4", "=>", "Err(", "TOO_LONG", "Err(", "v5", "=>", "Err(", "v5"] := by decide +kernel

/-- src/format/parse.rs:fn parse_and_remainder -/
theorem src_format_parse_rs_fn_parse_and_remainder : C11_src_format_parse_rs_fn_parse_and_remainder =
    ["<", "I", "B", ">", "v1", "&", "Parsed", "v2", "&", "str", "v3", "I", "->", "ParseResult", "<", "&", "str", ">", "I", "Iterator", "<", "Item", "B", ">", "B", "Borrow", "<", "Item", "<", ">>", "parse_internal(", "v1", "v2", "v3"] := by decide +kernel

/-- src/format/parse.rs:fn parse_internal -/
theorem src_format_parse_rs_fn_parse_internal : C11_src_format_parse_rs_fn_parse_internal =
    ["<", "I", "B", ">", "v1", "&", "Parsed", "v2", "&", "str", "v3", "I", "->", "Result", "<", "&", "str", "ParseError", ">", "I", "Iterator", "<", "Item", "B", ">", "B", "Borrow", "<", "Item", "<", ">>", "v4", "!", "v5", "v6", "v7", "=>", "match", "v6", "Ok(", "v8", "v9", "=>", "v2", "v8", "v9", "Err(", "v6", "=>", "return", "Err(", "v6", "for", "v10", "in", "v3", "match", "*", "v10", "borrow(", "Item", "Literal(", "v11", "=>", "if", "v2", "len(", "<", "v11", "len(", "return", "Err(", "TOO_SHORT", "if", "!", "v2", "starts_with(", "v11", "return", "Err(", "INVALID", "v2", "&", "v2", "v11", "len(", "..", "Item", "OwnedLiteral(", "v11", "=>", "if", "v2", "len(", "<", "v11", "len(", "return", "Err(", "TOO_SHORT", "if", "!", "v2", "starts_with(", "&", "v11", "..", "return", "Err(", "INVALID", "v2", "&", "v2", "v11", "len(", "..", "Item", "Space(", "v12", "=>", "v2", "v2", "trim_start(", "Item", "OwnedSpace(", "v12", "=>", "v2", "v2", "trim_start(", "Item", "Numeric(", "v13", "v14", "=>", "Numeric", "*", "Setter", "fn(", "&", "Parsed", "i64", "->", "ParseResult", "<", ">", "let(", "v15", "v16", "v17", "usize", "bool", "Setter", "match", "*", "v13", "Year", "=>", "4", "true", "Parsed", "v18", "YearDiv100", "=>", "2", "false", "Parsed", "v19", "YearMod100", "=>", "2", "false", "Parsed", "v20", "IsoYear", "=>", "4", "true", "Parsed", "v21", "IsoYearDiv100", "=>", "2", "false", "Parsed", "v22", "IsoYearMod100", "=>", "2", "false", "Parsed", "v23", "Quarter", "=>", "1", "false", "Parsed", "v24", "Month", "=>", "2", "false", "Parsed", "v25", "Day", "=>", "2", "false", "Parsed", "v26", "WeekFromSun", "=>", "2", "false", "Parsed", "v27", "WeekFromMon", "=>", "2", "false", "Parsed", "v28", "IsoWeek", "=>", "2", "false", "Parsed", "v29", "NumDaysFromSun", "=>", "1", "false", "v30", "WeekdayFromMon", "=>", "1", "false", "v31", "Ordinal", "=>", "3", "false", "Parsed", "v32", "Hour", "=>", "2", "false", "Parsed", "v33", "Hour12", "=>", "2", "false", "Parsed", "v34", "Minute", "=>", "2", "false", "Parsed", "v35", "Second", "=>", "2", "false", "Parsed", "v36", "Nanosecond", "=>", "9", "false", "Parsed", "v37", "Timestamp", "=>", "usize", "MAX", "true", "Parsed", "v38", "Internal(", "v39", "=>", "match", "v39", "v40", "v2", "v2", "trim_start(", "v9", "if", "v16", "if", "v2", "starts_with(", "'-'", "v9", "try_consume!(", "v41", "number(", "&", "v2", "1", "..", "1", "usize", "MAX", "0", "checked_sub(", "v9", "ok_or(", "OUT_OF_RANGE", "?", "else", "if", "v2", "starts_with(", "'+'", "try_consume!(", "v41", "number(", "&", "v2", "1", "..", "1", "usize", "MAX", "else", "try_consume!(", "v41", "number(", "v2", "1", "v15", "else", "try_consume!(", "v41", "number(", "v2", "1", "v15", "set(", "v1", "v9", "?", "Item", "Fixed(", "v13", "=>", "Fixed", "*", "match", "v13", "&", "ShortMonthName", "=>", "v42", "try_consume!(", "v41", "short_month0(", "v2", "v1", "set_month(", "i64", "from(", "v42", "+", "1", "?", "&", "LongMonthName", "=>", "v42", "try_consume!(", "v41", "short_or_long_month0(", "v2", "v1", "set_month(", "i64", "from(", "v42", "+", "1", "?", "&", "ShortWeekdayName", "=>", "v43", "try_consume!(", "v41", "short_weekday(", "v2", "v1", "set_weekday(", "v43", "?", "&", "LongWeekdayName", "=>", "v43", "try_consume!(", "v41", "short_or_long_weekday(", "v2", "v1", "set_weekday(", "v43", "?", "&", "LowerAmPm", "|", "&", "UpperAmPm", "=>", "if", "v2", "len(", "<", "2", "return", "Err(", "TOO_SHORT", "v44", "match(", "v2", "as_bytes(", "0", "|", "32", "v2", "as_bytes(", "1", "|", "32", "b'a'", "b'm'", "=>", "false", "b'p'", "b'm'", "=>", "true", "v12", "=>", "return", "Err(", "INVALID", "v1", "set_ampm(", "v44", "?", "v2", "&", "v2", "2", "..", "&", "Nanosecond", "|", "&", "Nanosecond3", "|", "&", "Nanosecond6", "|", "&", "Nanosecond9", "=>", "if", "v2", "starts_with(", "'.'", "v45", "try_consume!(", "v41", "nanosecond(", "&", "v2", "1", "..", "v1", "set_nanosecond(", "v45", "?", "&", "Internal(", "InternalFixed", "v46", "InternalInternal", "Nanosecond3NoDot", "=>", "if", "v2", "len(", "<", "3", "return", "Err(", "TOO_SHORT", "v45", "try_consume!(", "v41", "nanosecond_fixed(", "v2", "3", "v1", "set_nanosecond(", "v45", "?", "&", "Internal(", "InternalFixed", "v46", "InternalInternal", "Nanosecond6NoDot", "=>", "if", "v2", "len(", "<", "6", "return", "Err(", "TOO_SHORT", "v45", "try_consume!(", "v41", "nanosecond_fixed(", "v2", "6", "v1", "set_nanosecond(", "v45", "?", "&", "Internal(", "InternalFixed", "v46", "InternalInternal", "Nanosecond9NoDot", "=>", "if", "v2", "len(", "<", "9", "return", "Err(", "TOO_SHORT", "v45", "try_consume!(", "v41", "nanosecond_fixed(", "v2", "9", "v1", "set_nanosecond(", "v45", "?", "&", "TimezoneName", "=>", "try_consume!(", "Ok(", "v2", "trim_start_matches(", "|", "v47", "char", "|", "!", "v47", "is_whitespace(", "&", "TimezoneOffsetColon", "|", "&", "TimezoneOffsetDoubleColon", "|", "&", "TimezoneOffsetTripleColon", "|", "&", "TimezoneOffset", "=>", "v48", "try_consume!(", "v41", "timezone_offset(", "v2", "trim_start(", "v41", "v49", "false", "false", "true", "v1", "set_offset(", "i64", "from(", "v48", "?", "&", "TimezoneOffsetColonZ", "|", "&", "TimezoneOffsetZ", "=>", "v48", "try_consume!(", "v41", "timezone_offset(", "v2", "trim_start(", "v41", "v49", "true", "false", "true", "v1", "set_offset(", "i64", "from(", "v48", "?", "&", "Internal(", "InternalFixed", "v46", "InternalInternal", "TimezoneOffsetPermissive", "=>", "v48", "try_consume!(", "v41", "timezone_offset(", "v2", "trim_start(", "v41", "v49", "true", "true", "true", "v1", "set_offset(", "i64", "from(", "v48", "?", "&", "RFC2822", "=>", "try_consume!(", "parse_rfc2822(", "v1", "v2", "&", "RFC3339", "=>", "try_consume!(", "parse_rfc3339_relaxed(", "v1", "v2", "Item", "Error", "=>", "return", "Err(", "BAD_FORMAT", "Ok(", "v2"] := by decide +kernel

/-- src/format/parse.rs:fn parse_rfc2822 -/
theorem src_format_parse_rs_fn_parse_rfc2822 : C11_src_format_parse_rs_fn_parse_rfc2822 =
    ["<", ">", "v1", "&", "Parsed", "v2", "&", "str", "->", "ParseResult", "<", "&", "str", ">", "v3", "!", "v4", "v5", "v6", "=>", "let(", "v7", "v8", "v5", "?", "v2", "v7", "v8", "v2", "v2", "trim_start(", "if", "Ok(", "v7", "v9", "v10", "short_weekday(", "v2", "if", "!", "v7", "starts_with(", "','", "return", "Err(", "INVALID", "v2", "&", "v7", "1", "..", "v1", "set_weekday(", "v9", "?", "v2", "v2", "trim_start(", "v1", "set_day(", "try_consume!(", "v10", "number(", "v2", "1", "2", "?", "v2", "v10", "space(", "v2", "?", "v1", "set_month(", "1", "+", "i64", "from(", "try_consume!(", "v10", "short_month0(", "v2", "?", "v2", "v10", "space(", "v2", "?", "v11", "v2", "len(", "v12", "try_consume!(", "v10", "number(", "v2", "2", "usize", "MAX", "v13", "v11", "-", "v2", "len(", "match(", "v13", "v12", "2", "0", "..=", "49", "=>", "v12", "+=", "2000", "2", "50", "..=", "99", "=>", "v12", "+=", "1900", "3", "v14", "=>", "v12", "+=", "1900", "v14", "v14", "=>", "v1", "set_year(", "v12", "?", "v2", "v10", "space(", "v2", "?", "v1", "set_hour(", "try_consume!(", "v10", "number(", "v2", "2", "2", "?", "v2", "v10", "char(", "v2", "trim_start(", "b':'", "?", "trim_start(", "v1", "set_minute(", "try_consume!(", "v10", "number(", "v2", "2", "2", "?", "if", "Ok(", "v7", "v10", "char(", "v2", "trim_start(", "b':'", "v1", "set_second(", "try_consume!(", "v10", "number(", "v7", "2", "2", "?", "v2", "v10", "space(", "v2", "?", "v1", "set_offset(", "i64", "from(", "try_consume!(", "v10", "timezone_offset_2822(", "v2", "?", "while", "Ok(", "v15", "v10", "comment_2822(", "v2", "v2", "v15", "Ok(", "v2"] := by decide +kernel

/-- src/format/parsed.rs:fn to_datetime -/
theorem src_format_parsed_rs_fn_to_datetime : C11_src_format_parsed_rs_fn_to_datetime =
    ["&", "self", "->", "ParseResult", "<", "DateTime", "<", "FixedOffset", ">>", "v1", "match(", "self", "v1", "self", "v2", "Some(", "v3", "v4", "=>", "v3", "None", "Some(", "v4", "=>", "0", "None", "None", "=>", "return", "Err(", "NOT_ENOUGH", "v5", "self", "to_naive_datetime_with_offset(", "v1", "?", "v1", "FixedOffset", "east_opt(", "v1", "ok_or(", "OUT_OF_RANGE", "?", "match", "v1", "from_local_datetime(", "&", "v5", "MappedLocalTime", "None", "=>", "Err(", "IMPOSSIBLE", "MappedLocalTime", "Single(", "v6", "=>", "Ok(", "v6", "MappedLocalTime", "Ambiguous(", "..", "=>", "Err(", "NOT_ENOUGH"] := by decide +kernel

/-- src/format/parsed.rs:fn to_naive_date -/
theorem src_format_parsed_rs_fn_to_naive_date : C11_src_format_parsed_rs_fn_to_naive_date =
    ["&", "self", "->", "ParseResult", "<", "NaiveDate", ">", "resolve_year(", "v1", "Option", "<", "i32", ">", "v2", "Option", "<", "i32", ">", "v3", "Option", "<", "i32", ">", "->", "ParseResult", "<", "Option", "<", "i32", ">>", "match(", "v1", "v2", "v3", "v1", "None", "None", "=>", "Ok(", "v1", "Some(", "v1", "v2", "v3", "Some(", "0", "..=", "99", "|", "Some(", "v1", "v2", "v3", "None", "=>", "if", "v1", "<", "0", "return", "Err(", "IMPOSSIBLE", "v4", "v1", "/", "100", "v5", "v1", "%", "100", "if", "v2", "unwrap_or(", "v4", "==", "v4", "&&", "v3", "unwrap_or(", "v5", "==", "v5", "Ok(", "Some(", "v1", "else", "Err(", "IMPOSSIBLE", "None", "Some(", "v2", "Some(", "v3", "0", "..=", "99", "=>", "if", "v2", "<", "0", "return", "Err(", "IMPOSSIBLE", "v1", "v2", "checked_mul(", "100", "and_then(", "|", "v6", "|", "v6", "checked_add(", "v3", "Ok(", "Some(", "v1", "ok_or(", "OUT_OF_RANGE", "?", "None", "None", "Some(", "v3", "0", "..=", "99", "=>", "Ok(", "Some(", "v3", "+", "if", "v3", "<", "70", "2000", "else", "1900", "None", "Some(", "v7", "None", "=>", "Err(", "NOT_ENOUGH", "v7", "v7", "Some(", "v7", "=>", "Err(", "OUT_OF_RANGE", "v8", "resolve_year(", "self", "v9", "self", "v10", "self", "v11", "?", "v12", "resolve_year(", "self", "v13", "self", "v14", "self", "v15", "?", "v16", "|", "v17", "NaiveDate", "|", "v9", "v17", "year(", "let(", "v10", "v11", "if", "v9", ">=", "0", "Some(", "v9", "/", "100", "Some(", "v9", "%", "100", "else", "None", "None", "v18", "v17", "month(", "v19", "v17", "day(", "self", "v9", "unwrap_or(", "v9", "==", "v9", "&&", "self", "v10", "or(", "v10", "==", "v10", "&&", "self", "v11", "or(", "v11", "==", "v11", "&&", "self", "v18", "unwrap_or(", "v18", "==", "v18", "&&", "self", "v19", "unwrap_or(", "v19", "==", "v19", "v20", "|", "v17", "NaiveDate", "|", "v21", "v17", "iso_week(", "v13", "v21", "year(", "v22", "v21", "week(", "v23", "v17", "weekday(", "let(", "v14", "v15", "if", "v13", ">=", "0", "Some(", "v13", "/", "100", "Some(", "v13", "%", "100", "else", "None", "None", "self", "v13", "unwrap_or(", "v13", "==", "v13", "&&", "self", "v14", "or(", "v14", "==", "v14", "&&", "self", "v15", "or(", "v15", "==", "v15", "&&", "self", "v22", "unwrap_or(", "v22", "==", "v22", "&&", "self", "v23", "unwrap_or(", "v23", "==", "v23", "v24", "|", "v17", "NaiveDate", "|", "v25", "v17", "ordinal(", "v26", "v17", "weeks_from(", "Weekday", "Sun", "v27", "v17", "weeks_from(", "Weekday", "Mon", "self", "v25", "unwrap_or(", "v25", "==", "v25", "&&", "self", "v26", "map_or(", "v26", "|", "v6", "|", "v6", "as", "i32", "==", "v26", "&&", "self", "v27", "map_or(", "v27", "|", "v6", "|", "v6", "as", "i32", "==", "v27", "let(", "v28", "v29", "match(", "v8", "v12", "self", "Some(", "v9", "v7", "&", "Parsed", "v18", "Some(", "v18", "v19", "Some(", "v19", "..", "=>", "v17", "NaiveDate", "from_ymd_opt(", "v9", "v18", "v19", "ok_or(", "OUT_OF_RANGE", "?", "verify_isoweekdate(", "v17", "&&", "verify_ordinal(", "v17", "v17", "Some(", "v9", "v7", "&", "Parsed", "v25", "Some(", "v25", "..", "=>", "v17", "NaiveDate", "from_yo_opt(", "v9", "v25", "ok_or(", "OUT_OF_RANGE", "?", "verify_ymd(", "v17", "&&", "verify_isoweekdate(", "v17", "&&", "verify_ordinal(", "v17", "v17", "Some(", "v9", "v7", "&", "Parsed", "v26", "Some(", "v21", "v23", "Some(", "v23", "..", "=>", "v17", "resolve_week_date(", "v9", "v21", "v23", "Weekday", "Sun", "?", "verify_ymd(", "v17", "&&", "verify_isoweekdate(", "v17", "&&", "verify_ordinal(", "v17", "v17", "Some(", "v9", "v7", "&", "Parsed", "v27", "Some(", "v21", "v23", "Some(", "v23", "..", "=>", "v17", "resolve_week_date(", "v9", "v21", "v23", "Weekday", "Mon", "?", "verify_ymd(", "v17", "&&", "verify_isoweekdate(", "v17", "&&", "verify_ordinal(", "v17", "v17", "v7", "Some(", "v13", "&", "Parsed", "v22", "Some(", "v22", "v23", "Some(", "v23", "..", "=>", "v17", "NaiveDate", "from_isoywd_opt(", "v13", "v22", "v23", "v17", "v17", "ok_or(", "OUT_OF_RANGE", "?", "verify_ymd(", "v17", "&&", "verify_ordinal(", "v17", "v17", "v7", "v7", "v7", "=>", "return", "Err(", "NOT_ENOUGH", "if", "!", "v28", "return", "Err(", "IMPOSSIBLE", "else", "if", "Some(", "v30", "self", "v31", "if", "v30", "!=", "v29", "quarter(", "return", "Err(", "IMPOSSIBLE", "Ok(", "v29"] := by decide +kernel

/-- src/format/scan.rs:fn comment_2822 -/
theorem src_format_scan_rs_fn_comment_2822 : C11_src_format_scan_rs_fn_comment_2822 =
    ["v1", "&", "str", "->", "ParseResult", "<", "&", "str", ">", "CommentState", "*", "v1", "v1", "trim_start(", "v2", "Start", "for(", "v3", "v4", "in", "v1", "bytes(", "enumerate(", "v2", "match(", "v2", "v4", "Start", "b'('", "=>", "Next(", "1", "Next(", "1", "b')'", "=>", "return", "Ok(", "&", "v1", "v3", "+", "1", "..", "Next(", "v5", "b'\\\\'", "=>", "Escape(", "v5", "Next(", "v5", "b'('", "=>", "Next(", "v5", "+", "1", "Next(", "v5", "b')'", "=>", "Next(", "v5", "-", "1", "Next(", "v5", "v6", "|", "Escape(", "v5", "v6", "=>", "Next(", "v5", "v6", "=>", "return", "Err(", "INVALID", "Err(", "TOO_SHORT"] := by decide +kernel

/-- src/format/scan.rs:fn short_month0 -/
theorem src_format_scan_rs_fn_short_month0 : C11_src_format_scan_rs_fn_short_month0 =
    ["v1", "&", "str", "->", "ParseResult", "<", "&", "str", "u8", ">", "if", "v1", "len(", "<", "3", "return", "Err(", "TOO_SHORT", "v2", "v1", "as_bytes(", "v3", "match(", "v2", "0", "|", "32", "v2", "1", "|", "32", "v2", "2", "|", "32", "b'j'", "b'a'", "b'n'", "=>", "0", "b'f'", "b'e'", "b'b'", "=>", "1", "b'm'", "b'a'", "b'r'", "=>", "2", "b'a'", "b'p'", "b'r'", "=>", "3", "b'm'", "b'a'", "b'y'", "=>", "4", "b'j'", "b'u'", "b'n'", "=>", "5", "b'j'", "b'u'", "b'l'", "=>", "6", "b'a'", "b'u'", "b'g'", "=>", "7", "b's'", "b'e'", "b'p'", "=>", "8", "b'o'", "b'c'", "b't'", "=>", "9", "b'n'", "b'o'", "b'v'", "=>", "10", "b'd'", "b'e'", "b'c'", "=>", "11", "v4", "=>", "return", "Err(", "INVALID", "Ok(", "&", "v1", "3", "..", "v3"] := by decide +kernel

/-- src/format/scan.rs:fn short_weekday -/
theorem src_format_scan_rs_fn_short_weekday : C11_src_format_scan_rs_fn_short_weekday =
    ["v1", "&", "str", "->", "ParseResult", "<", "&", "str", "Weekday", ">", "if", "v1", "len(", "<", "3", "return", "Err(", "TOO_SHORT", "v2", "v1", "as_bytes(", "v3", "match(", "v2", "0", "|", "32", "v2", "1", "|", "32", "v2", "2", "|", "32", "b'm'", "b'o'", "b'n'", "=>", "Weekday", "Mon", "b't'", "b'u'", "b'e'", "=>", "Weekday", "Tue", "b'w'", "b'e'", "b'd'", "=>", "Weekday", "Wed", "b't'", "b'h'", "b'u'", "=>", "Weekday", "Thu", "b'f'", "b'r'", "b'i'", "=>", "Weekday", "Fri", "b's'", "b'a'", "b't'", "=>", "Weekday", "Sat", "b's'", "b'u'", "b'n'", "=>", "Weekday", "Sun", "v4", "=>", "return", "Err(", "INVALID", "Ok(", "&", "v1", "3", "..", "v3"] := by decide +kernel

/-- src/format/scan.rs:fn space -/
theorem src_format_scan_rs_fn_space : C11_src_format_scan_rs_fn_space =
    ["v1", "&", "str", "->", "ParseResult", "<", "&", "str", ">", "v2", "v1", "trim_start(", "if", "v2", "len(", "<", "v1", "len(", "Ok(", "v2", "else", "if", "v1", "is_empty(", "Err(", "TOO_SHORT", "else", "Err(", "INVALID"] := by decide +kernel

/-- src/format/scan.rs:fn timezone_offset -/
theorem src_format_scan_rs_fn_timezone_offset : C11_src_format_scan_rs_fn_timezone_offset =
    ["<", "F", ">", "v1", "&", "str", "v2", "F", "v3", "bool", "v4", "bool", "v5", "bool", "->", "ParseResult", "<", "&", "str", "i32", ">", "F", "FnMut(", "&", "str", "->", "ParseResult", "<", "&", "str", ">", "if", "v3", "if", "Some(", "&", "b'Z'", "|", "&", "b'z'", "v1", "as_bytes(", "first(", "return", "Ok(", "&", "v1", "1", "..", "0", "digits(", "v1", "&", "str", "->", "ParseResult", "<", "u8", "u8", ">", "v6", "v1", "as_bytes(", "if", "v6", "len(", "<", "2", "Err(", "TOO_SHORT", "else", "Ok(", "v6", "0", "v6", "1", "v7", "match", "v1", "chars(", "next(", "Some(", "'+'", "=>", "v1", "&", "v1", "'+'", "len_utf8(", "..", "false", "Some(", "'-'", "=>", "v1", "&", "v1", "'-'", "len_utf8(", "..", "true", "Some(", "'−'", "=>", "if", "!", "v5", "return", "Err(", "INVALID", "v1", "&", "v1", "'−'", "len_utf8(", "..", "true", "Some(", "v8", "=>", "return", "Err(", "INVALID", "None", "=>", "return", "Err(", "TOO_SHORT", "v9", "match", "digits(", "v1", "?", "v10", "b'0'", "..=", "b'9'", "v11", "b'0'", "..=", "b'9'", "=>", "i32", "from(", "v10", "-", "b'0'", "*", "10", "+", "v11", "-", "b'0'", "v8", "=>", "return", "Err(", "INVALID", "v1", "&", "v1", "2", "..", "v1", "consume_colon(", "v1", "?", "v12", "if", "Ok(", "v13", "digits(", "v1", "match", "v13", "v14", "b'0'", "..=", "b'5'", "v15", "b'0'", "..=", "b'9'", "=>", "i32", "from(", "v14", "-", "b'0'", "*", "10", "+", "v15", "-", "b'0'", "b'6'", "..=", "b'9'", "b'0'", "..=", "b'9'", "=>", "return", "Err(", "OUT_OF_RANGE", "v8", "=>", "return", "Err(", "INVALID", "else", "if", "v4", "0", "else", "return", "Err(", "TOO_SHORT", "v1", "match", "v1", "len(", "v16", "if", "v16", ">=", "2", "=>", "&", "v1", "2", "..", "0", "=>", "v1", "v8", "=>", "return", "Err(", "TOO_SHORT", "v17", "v9", "*", "3600", "+", "v12", "*", "60", "Ok(", "v1", "if", "v7", "-", "v17", "else", "v17"] := by decide +kernel

/-- src/format/scan.rs:fn timezone_offset_2822 -/
theorem src_format_scan_rs_fn_timezone_offset_2822 : C11_src_format_scan_rs_fn_timezone_offset_2822 =
    ["v1", "&", "str", "->", "ParseResult", "<", "&", "str", "i32", ">", "v2", "v1", "as_bytes(", "iter(", "position(", "|", "&", "v3", "|", "!", "v3", "is_ascii_alphabetic(", "unwrap_or(", "v1", "len(", "if", "v2", ">", "0", "v4", "&", "v1", "as_bytes(", "..", "v2", "v1", "&", "v1", "v2", "..", "v5", "|", "v6", "|", "Ok(", "v1", "v6", "*", "3600", "if", "v4", "eq_ignore_ascii_case(", "b\"gmt\"", "||", "v4", "eq_ignore_ascii_case(", "b\"ut\"", "||", "v4", "eq_ignore_ascii_case(", "b\"z\"", "return", "offset_hours(", "0", "else", "if", "v4", "eq_ignore_ascii_case(", "b\"edt\"", "return", "offset_hours(", "-", "4", "else", "if", "v4", "eq_ignore_ascii_case(", "b\"est\"", "||", "v4", "eq_ignore_ascii_case(", "b\"cdt\"", "return", "offset_hours(", "-", "5", "else", "if", "v4", "eq_ignore_ascii_case(", "b\"cst\"", "||", "v4", "eq_ignore_ascii_case(", "b\"mdt\"", "return", "offset_hours(", "-", "6", "else", "if", "v4", "eq_ignore_ascii_case(", "b\"mst\"", "||", "v4", "eq_ignore_ascii_case(", "b\"pdt\"", "return", "offset_hours(", "-", "7", "else", "if", "v4", "eq_ignore_ascii_case(", "b\"pst\"", "return", "offset_hours(", "-", "8", "else", "if", "v4", "len(", "==", "1", "if", "b'a'", "..=", "b'i'", "|", "b'k'", "..=", "b'y'", "|", "b'A'", "..=", "b'I'", "|", "b'K'", "..=", "b'Y'", "v4", "0", "return", "Ok(", "v1", "0", "Err(", "INVALID", "else", "timezone_offset(", "v1", "|", "v1", "|", "Ok(", "v1", "false", "false", "false"] := by decide +kernel

/-- callee src/datetime/mod.rs:fn from_naive_utc_and_offset -/
theorem callee_src_datetime_mod_rs_fn_from_naive_utc_and_offset : C11_callee_src_datetime_mod_rs_fn_from_naive_utc_and_offset =
    ["v1", "NaiveDateTime", "v2", "Tz", "Offset", "->", "DateTime", "<", "Tz", ">", "DateTime", "v1", "v2"] := by decide +kernel

/-- callee src/datetime/mod.rs:fn overflowing_naive_local -/
theorem callee_src_datetime_mod_rs_fn_overflowing_naive_local : C11_callee_src_datetime_mod_rs_fn_overflowing_naive_local =
    ["&", "self", "->", "NaiveDateTime", "self", "v1", "overflowing_add_offset(", "self", "v2", "fix("] := by decide +kernel

/-- callee src/format/formatting.rs:fn new_with_offset -/
theorem callee_src_format_formatting_rs_fn_new_with_offset : C11_callee_src_format_formatting_rs_fn_new_with_offset =
    ["<", "Off", ">", "v1", "Option", "<", "NaiveDate", ">", "v2", "Option", "<", "NaiveTime", ">", "v3", "&", "Off", "v4", "I", "->", "DelayedFormat", "<", "I", ">", "Off", "Offset", "+", "Display", "v5", "v3", "to_string(", "v3", "fix(", "DelayedFormat", "v1", "v2", "v6", "Some(", "v5", "v4", "v7", "default_locale("] := by decide +kernel

/-- callee src/format/formatting.rs:fn write_hundreds -/
theorem callee_src_format_formatting_rs_fn_write_hundreds : C11_callee_src_format_formatting_rs_fn_write_hundreds =
    ["v1", "&", "Write", "v2", "u8", "->", "v3", "Result", "if", "v2", ">=", "100", "return", "Err(", "v3", "Error", "v4", "b'0'", "+", "v2", "/", "10", "v5", "b'0'", "+", "v2", "%", "10", "v1", "write_char(", "v4", "as", "char", "?", "v1", "write_char(", "v5", "as", "char"] := by decide +kernel

/-- callee src/format/formatting.rs:fn write_rfc3339 -/
theorem callee_src_format_formatting_rs_fn_write_rfc3339 : C11_callee_src_format_formatting_rs_fn_write_rfc3339 =
    ["v1", "&", "Write", "v2", "NaiveDateTime", "v3", "FixedOffset", "v4", "SecondsFormat", "v5", "bool", "->", "v6", "Result", "v7", "v2", "date(", "year(", "if(", "0", "..=", "9999", "contains(", "&", "v7", "write_hundreds(", "v1", "v7", "/", "100", "as", "u8", "?", "write_hundreds(", "v1", "v7", "%", "100", "as", "u8", "?", "else", "write!(", "v1", "\"{:+05}\"", "v7", "?", "v1", "write_char(", "'-'", "?", "write_hundreds(", "v1", "v2", "date(", "month(", "as", "u8", "?", "v1", "write_char(", "'-'", "?", "write_hundreds(", "v1", "v2", "date(", "day(", "as", "u8", "?", "v1", "write_char(", "'T'", "?", "let(", "v8", "v9", "v10", "v2", "time(", "hms(", "v11", "v2", "nanosecond(", "if", "v11", ">=", "1000000000", "v10", "+=", "1", "v11", "-=", "1000000000", "write_hundreds(", "v1", "v8", "as", "u8", "?", "v1", "write_char(", "':'", "?", "write_hundreds(", "v1", "v9", "as", "u8", "?", "v1", "write_char(", "':'", "?", "v10", "v10", "write_hundreds(", "v1", "v10", "as", "u8", "?", "match", "v4", "SecondsFormat", "Secs", "=>", "SecondsFormat", "Millis", "=>", "write!(", "v1", "\".{:03}\"", "v11", "/", "1000000", "?", "SecondsFormat", "Micros", "=>", "write!(", "v1", "\".{:06}\"", "v11", "/", "1000", "?", "SecondsFormat", "Nanos", "=>", "write!(", "v1", "\".{:09}\"", "v11", "?", "SecondsFormat", "AutoSi", "=>", "if", "v11", "==", "0", "else", "if", "v11", "%", "1000000", "==", "0", "write!(", "v1", "\".{:03}\"", "v11", "/", "1000000", "?", "else", "if", "v11", "%", "1000", "==", "0", "write!(", "v1", "\".{:06}\"", "v11", "/", "1000", "?", "else", "write!(", "v1", "\".{:09}\"", "v11", "?", "SecondsFormat", "__NonExhaustive", "=>", "unreachable!(", "OffsetFormat", "v12", "OffsetPrecision", "Minutes", "v13", "Colons", "Colon", "v14", "v5", "v15", "Pad", "Zero", "format(", "v1", "v3"] := by decide +kernel

/-- callee src/format/parse.rs:fn parse_rfc3339_relaxed -/
theorem callee_src_format_parse_rs_fn_parse_rfc3339_relaxed : C11_callee_src_format_parse_rs_fn_parse_rfc3339_relaxed =
    ["<", ">", "v1", "&", "Parsed", "v2", "&", "str", "->", "ParseResult", "<", "&", "str", ">", "DATE_ITEMS", "&", "Item", "<", ">", "&", "Item", "Numeric(", "Numeric", "Year", "Pad", "Zero", "Item", "Space(", "\"\"", "Item", "Literal(", "\"-\"", "Item", "Numeric(", "Numeric", "Month", "Pad", "Zero", "Item", "Space(", "\"\"", "Item", "Literal(", "\"-\"", "Item", "Numeric(", "Numeric", "Day", "Pad", "Zero", "TIME_ITEMS", "&", "Item", "<", ">", "&", "Item", "Numeric(", "Numeric", "Hour", "Pad", "Zero", "Item", "Space(", "\"\"", "Item", "Literal(", "\":\"", "Item", "Numeric(", "Numeric", "Minute", "Pad", "Zero", "Item", "Space(", "\"\"", "Item", "Literal(", "\":\"", "Item", "Numeric(", "Numeric", "Second", "Pad", "Zero", "Item", "Fixed(", "Fixed", "Nanosecond", "Item", "Space(", "\"\"", "v2", "parse_internal(", "v1", "v2", "DATE_ITEMS", "iter(", "?", "v2", "match", "v2", "as_bytes(", "first(", "Some(", "&", "b't'", "|", "&", "b'T'", "|", "&", "b' '", "=>", "&", "v2", "1", "..", "Some(", "v3", "=>", "return", "Err(", "INVALID", "None", "=>", "return", "Err(", "TOO_SHORT", "v2", "parse_internal(", "v1", "v2", "TIME_ITEMS", "iter(", "?", "v2", "v2", "trim_start(", "let(", "v2", "v4", "if", "v2", "len(", ">=", "3", "&&", "\"UTC\"", "as_bytes(", "eq_ignore_ascii_case(", "&", "v2", "as_bytes(", "..", "&", "v2", "3", "..", "0", "else", "v5", "timezone_offset(", "v2", "v5", "v6", "true", "false", "true", "?", "v1", "set_offset(", "i64", "from(", "v4", "?", "Ok(", "v2"] := by decide +kernel

/-- callee src/format/parsed.rs:fn resolve_week_date -/
theorem callee_src_format_parsed_rs_fn_resolve_week_date : C11_callee_src_format_parsed_rs_fn_resolve_week_date =
    ["v1", "i32", "v2", "u32", "v3", "Weekday", "v4", "Weekday", "->", "ParseResult", "<", "NaiveDate", ">", "if", "v2", ">", "53", "return", "Err(", "OUT_OF_RANGE", "v5", "NaiveDate", "from_yo_opt(", "v1", "1", "ok_or(", "OUT_OF_RANGE", "?", "v6", "1", "+", "v4", "days_since(", "v5", "weekday(", "as", "i32", "v3", "v3", "days_since(", "v4", "as", "i32", "v7", "v6", "+", "v2", "as", "i32", "-", "1", "*", "7", "+", "v3", "if", "v7", "<=", "0", "return", "Err(", "IMPOSSIBLE", "v5", "with_ordinal(", "v7", "as", "u32", "ok_or(", "IMPOSSIBLE"] := by decide +kernel

/-- callee src/format/parsed.rs:fn resolve_year -/
theorem callee_src_format_parsed_rs_fn_resolve_year : C11_callee_src_format_parsed_rs_fn_resolve_year =
    ["v1", "Option", "<", "i32", ">", "v2", "Option", "<", "i32", ">", "v3", "Option", "<", "i32", ">", "->", "ParseResult", "<", "Option", "<", "i32", ">>", "match(", "v1", "v2", "v3", "v1", "None", "None", "=>", "Ok(", "v1", "Some(", "v1", "v2", "v3", "Some(", "0", "..=", "99", "|", "Some(", "v1", "v2", "v3", "None", "=>", "if", "v1", "<", "0", "return", "Err(", "IMPOSSIBLE", "v4", "v1", "/", "100", "v5", "v1", "%", "100", "if", "v2", "unwrap_or(", "v4", "==", "v4", "&&", "v3", "unwrap_or(", "v5", "==", "v5", "Ok(", "Some(", "v1", "else", "Err(", "IMPOSSIBLE", "None", "Some(", "v2", "Some(", "v3", "0", "..=", "99", "=>", "if", "v2", "<", "0", "return", "Err(", "IMPOSSIBLE", "v1", "v2", "checked_mul(", "100", "and_then(", "|", "v6", "|", "v6", "checked_add(", "v3", "Ok(", "Some(", "v1", "ok_or(", "OUT_OF_RANGE", "?", "None", "None", "Some(", "v3", "0", "..=", "99", "=>", "Ok(", "Some(", "v3", "+", "if", "v3", "<", "70", "2000", "else", "1900", "None", "Some(", "v7", "None", "=>", "Err(", "NOT_ENOUGH", "v7", "v7", "Some(", "v7", "=>", "Err(", "OUT_OF_RANGE"] := by decide +kernel

/-- callee src/format/parsed.rs:fn set_ampm -/
theorem callee_src_format_parsed_rs_fn_set_ampm : C11_callee_src_format_parsed_rs_fn_set_ampm =
    ["&", "self", "v1", "bool", "->", "ParseResult", "<", ">", "set_if_consistent(", "&", "self", "v2", "v1", "as", "u32"] := by decide +kernel

/-- callee src/format/parsed.rs:fn set_day -/
theorem callee_src_format_parsed_rs_fn_set_day : C11_callee_src_format_parsed_rs_fn_set_day =
    ["&", "self", "v1", "i64", "->", "ParseResult", "<", ">", "if!(", "1", "..=", "31", "contains(", "&", "v1", "return", "Err(", "OUT_OF_RANGE", "set_if_consistent(", "&", "self", "v2", "v1", "as", "u32"] := by decide +kernel

/-- callee src/format/parsed.rs:fn set_hour -/
theorem callee_src_format_parsed_rs_fn_set_hour : C11_callee_src_format_parsed_rs_fn_set_hour =
    ["&", "self", "v1", "i64", "->", "ParseResult", "<", ">", "let(", "v2", "v3", "match", "v1", "v4", "0", "..=", "11", "=>", "0", "v4", "as", "u32", "v4", "12", "..=", "23", "=>", "1", "v4", "as", "u32", "-", "12", "v5", "=>", "return", "Err(", "OUT_OF_RANGE", "set_if_consistent(", "&", "self", "v2", "v2", "?", "set_if_consistent(", "&", "self", "v3", "v3"] := by decide +kernel

/-- callee src/format/parsed.rs:fn set_if_consistent -/
theorem callee_src_format_parsed_rs_fn_set_if_consistent : C11_callee_src_format_parsed_rs_fn_set_if_consistent =
    ["<", "T", "PartialEq", ">", "v1", "&", "Option", "<", "T", ">", "v2", "T", "->", "ParseResult", "<", ">", "match", "v1", "Some(", "v1", "if", "*", "v1", "!=", "v2", "=>", "Err(", "IMPOSSIBLE", "v3", "=>", "*", "v1", "Some(", "v2", "Ok("] := by decide +kernel

/-- callee src/format/parsed.rs:fn set_minute -/
theorem callee_src_format_parsed_rs_fn_set_minute : C11_callee_src_format_parsed_rs_fn_set_minute =
    ["&", "self", "v1", "i64", "->", "ParseResult", "<", ">", "if!(", "0", "..=", "59", "contains(", "&", "v1", "return", "Err(", "OUT_OF_RANGE", "set_if_consistent(", "&", "self", "v2", "v1", "as", "u32"] := by decide +kernel

/-- callee src/format/parsed.rs:fn set_month -/
theorem callee_src_format_parsed_rs_fn_set_month : C11_callee_src_format_parsed_rs_fn_set_month =
    ["&", "self", "v1", "i64", "->", "ParseResult", "<", ">", "if!(", "1", "..=", "12", "contains(", "&", "v1", "return", "Err(", "OUT_OF_RANGE", "set_if_consistent(", "&", "self", "v2", "v1", "as", "u32"] := by decide +kernel

/-- callee src/format/parsed.rs:fn set_nanosecond -/
theorem callee_src_format_parsed_rs_fn_set_nanosecond : C11_callee_src_format_parsed_rs_fn_set_nanosecond =
    ["&", "self", "v1", "i64", "->", "ParseResult", "<", ">", "if!(", "0", "..=", "999999999", "contains(", "&", "v1", "return", "Err(", "OUT_OF_RANGE", "set_if_consistent(", "&", "self", "v2", "v1", "as", "u32"] := by decide +kernel

/-- callee src/format/parsed.rs:fn set_offset -/
theorem callee_src_format_parsed_rs_fn_set_offset : C11_callee_src_format_parsed_rs_fn_set_offset =
    ["&", "self", "v1", "i64", "->", "ParseResult", "<", ">", "set_if_consistent(", "&", "self", "v2", "i32", "try_from(", "v1", "map_err(", "|", "v3", "|", "OUT_OF_RANGE", "?"] := by decide +kernel

/-- callee src/format/parsed.rs:fn set_ordinal -/
theorem callee_src_format_parsed_rs_fn_set_ordinal : C11_callee_src_format_parsed_rs_fn_set_ordinal =
    ["&", "self", "v1", "i64", "->", "ParseResult", "<", ">", "if!(", "1", "..=", "366", "contains(", "&", "v1", "return", "Err(", "OUT_OF_RANGE", "set_if_consistent(", "&", "self", "v2", "v1", "as", "u32"] := by decide +kernel

/-- callee src/format/parsed.rs:fn set_second -/
theorem callee_src_format_parsed_rs_fn_set_second : C11_callee_src_format_parsed_rs_fn_set_second =
    ["&", "self", "v1", "i64", "->", "ParseResult", "<", ">", "if!(", "0", "..=", "60", "contains(", "&", "v1", "return", "Err(", "OUT_OF_RANGE", "set_if_consistent(", "&", "self", "v2", "v1", "as", "u32"] := by decide +kernel

/-- callee src/format/parsed.rs:fn set_weekday -/
theorem callee_src_format_parsed_rs_fn_set_weekday : C11_callee_src_format_parsed_rs_fn_set_weekday =
    ["&", "self", "v1", "Weekday", "->", "ParseResult", "<", ">", "set_if_consistent(", "&", "self", "v2", "v1"] := by decide +kernel

/-- callee src/format/parsed.rs:fn set_year -/
theorem callee_src_format_parsed_rs_fn_set_year : C11_callee_src_format_parsed_rs_fn_set_year =
    ["&", "self", "v1", "i64", "->", "ParseResult", "<", ">", "set_if_consistent(", "&", "self", "v2", "i32", "try_from(", "v1", "map_err(", "|", "v3", "|", "OUT_OF_RANGE", "?"] := by decide +kernel

/-- callee src/format/parsed.rs:fn to_naive_datetime_with_offset -/
theorem callee_src_format_parsed_rs_fn_to_naive_datetime_with_offset : C11_callee_src_format_parsed_rs_fn_to_naive_datetime_with_offset =
    ["&", "self", "v1", "i32", "->", "ParseResult", "<", "NaiveDateTime", ">", "v2", "self", "to_naive_date(", "v3", "self", "to_naive_time(", "if", "let(", "Ok(", "v2", "Ok(", "v3", "v2", "v3", "v4", "v2", "and_time(", "v3", "v5", "v4", "and_utc(", "timestamp(", "-", "i64", "from(", "v1", "if", "Some(", "v6", "self", "v5", "if", "v6", "!=", "v5", "&&", "!", "v4", "nanosecond(", ">=", "1000000000", "&&", "v6", "==", "v5", "+", "1", "return", "Err(", "IMPOSSIBLE", "Ok(", "v4", "else", "if", "Some(", "v5", "self", "v5", "ParseError", "as", "PE", "ParseErrorKind", "Impossible", "OutOfRange", "match(", "v2", "v3", "Err(", "PE(", "OutOfRange", "v7", "|", "v7", "Err(", "PE(", "OutOfRange", "=>", "return", "Err(", "OUT_OF_RANGE", "Err(", "PE(", "Impossible", "v7", "|", "v7", "Err(", "PE(", "Impossible", "=>", "return", "Err(", "IMPOSSIBLE", "v7", "v7", "=>", "v8", "v5", "checked_add(", "i64", "from(", "v1", "ok_or(", "OUT_OF_RANGE", "?", "v4", "DateTime", "from_timestamp(", "v8", "0", "ok_or(", "OUT_OF_RANGE", "?", "naive_utc(", "v9", "self", "clone(", "if", "v9", "v10", "==", "Some(", "60", "match", "v4", "second(", "59", "=>", "0", "=>", "v4", "v4", "checked_sub_signed(", "TimeDelta", "try_seconds(", "1", "unwrap(", "ok_or(", "OUT_OF_RANGE", "?", "v7", "=>", "return", "Err(", "IMPOSSIBLE", "else", "v9", "set_second(", "i64", "from(", "v4", "second(", "?", "v9", "set_year(", "i64", "from(", "v4", "year(", "?", "v9", "set_ordinal(", "i64", "from(", "v4", "ordinal(", "?", "v9", "set_hour(", "i64", "from(", "v4", "hour(", "?", "v9", "set_minute(", "i64", "from(", "v4", "minute(", "?", "v2", "v9", "to_naive_date(", "?", "v3", "v9", "to_naive_time(", "?", "Ok(", "v2", "and_time(", "v3", "else", "v2", "?", "v3", "?", "unreachable!("] := by decide +kernel

/-- callee src/format/parsed.rs:fn to_naive_time -/
theorem callee_src_format_parsed_rs_fn_to_naive_time : C11_callee_src_format_parsed_rs_fn_to_naive_time =
    ["&", "self", "->", "ParseResult", "<", "NaiveTime", ">", "v1", "match", "self", "v1", "Some(", "v2", "0", "..=", "1", "=>", "v2", "Some(", "v3", "=>", "return", "Err(", "OUT_OF_RANGE", "None", "=>", "return", "Err(", "NOT_ENOUGH", "v4", "match", "self", "v4", "Some(", "v2", "0", "..=", "11", "=>", "v2", "Some(", "v3", "=>", "return", "Err(", "OUT_OF_RANGE", "None", "=>", "return", "Err(", "NOT_ENOUGH", "v5", "v1", "*", "12", "+", "v4", "v6", "match", "self", "v6", "Some(", "v2", "0", "..=", "59", "=>", "v2", "Some(", "v3", "=>", "return", "Err(", "OUT_OF_RANGE", "None", "=>", "return", "Err(", "NOT_ENOUGH", "let(", "v7", "v8", "match", "self", "v7", "unwrap_or(", "0", "v2", "0", "..=", "59", "=>", "v2", "0", "60", "=>", "59", "1000000000", "v3", "=>", "return", "Err(", "OUT_OF_RANGE", "v8", "+=", "match", "self", "v9", "Some(", "v2", "0", "..=", "999999999", "if", "self", "v7", "is_some(", "=>", "v2", "Some(", "0", "..=", "999999999", "=>", "return", "Err(", "NOT_ENOUGH", "Some(", "v3", "=>", "return", "Err(", "OUT_OF_RANGE", "None", "=>", "0", "NaiveTime", "from_hms_nano_opt(", "v5", "v6", "v7", "v8", "ok_or(", "OUT_OF_RANGE"] := by decide +kernel

/-- callee src/format/scan.rs:fn char -/
theorem callee_src_format_scan_rs_fn_char : C11_callee_src_format_scan_rs_fn_char =
    ["v1", "&", "str", "v2", "u8", "->", "ParseResult", "<", "&", "str", ">", "match", "v1", "as_bytes(", "first(", "Some(", "&", "v3", "if", "v3", "==", "v2", "=>", "Ok(", "&", "v1", "1", "..", "Some(", "v4", "=>", "Err(", "INVALID", "None", "=>", "Err(", "TOO_SHORT"] := by decide +kernel

/-- callee src/format/scan.rs:fn digits -/
theorem callee_src_format_scan_rs_fn_digits : C11_callee_src_format_scan_rs_fn_digits =
    ["v1", "&", "str", "->", "ParseResult", "<", "u8", "u8", ">", "v2", "v1", "as_bytes(", "if", "v2", "len(", "<", "2", "Err(", "TOO_SHORT", "else", "Ok(", "v2", "0", "v2", "1"] := by decide +kernel

/-- callee src/format/scan.rs:fn nanosecond_fixed -/
theorem callee_src_format_scan_rs_fn_nanosecond_fixed : C11_callee_src_format_scan_rs_fn_nanosecond_fixed =
    ["v1", "&", "str", "v2", "usize", "->", "ParseResult", "<", "&", "str", "i64", ">", "let(", "v1", "v3", "number(", "v1", "v2", "v2", "?", "SCALE", "i64", "10", "0", "100000000", "10000000", "1000000", "100000", "10000", "1000", "100", "10", "1", "v3", "v3", "checked_mul(", "SCALE", "v2", "ok_or(", "OUT_OF_RANGE", "?", "Ok(", "v1", "v3"] := by decide +kernel

/-- callee src/format/scan.rs:fn number -/
theorem callee_src_format_scan_rs_fn_number : C11_callee_src_format_scan_rs_fn_number =
    ["v1", "&", "str", "v2", "usize", "v3", "usize", "->", "ParseResult", "<", "&", "str", "i64", ">", "assert!(", "v2", "<=", "v3", "v4", "v1", "as_bytes(", "if", "v4", "len(", "<", "v2", "return", "Err(", "TOO_SHORT", "v5", "0", "for(", "v6", "v7", "in", "v4", "iter(", "take(", "v3", "cloned(", "enumerate(", "if", "!", "v7", "is_ascii_digit(", "if", "v6", "<", "v2", "return", "Err(", "INVALID", "else", "return", "Ok(", "&", "v1", "v6", "..", "v5", "v5", "match", "v5", "checked_mul(", "10", "and_then(", "|", "v5", "|", "v5", "checked_add(", "v7", "-", "b'0'", "as", "i64", "Some(", "v5", "=>", "v5", "None", "=>", "return", "Err(", "OUT_OF_RANGE", "Ok(", "&", "v1", "v8", "v9", "min(", "v3", "v4", "len(", "..", "v5"] := by decide +kernel

/-- callee src/format/scan.rs:fn short_or_long_month0 -/
theorem callee_src_format_scan_rs_fn_short_or_long_month0 : C11_callee_src_format_scan_rs_fn_short_or_long_month0 =
    ["v1", "&", "str", "->", "ParseResult", "<", "&", "str", "u8", ">", "LONG_MONTH_SUFFIXES", "&", "u8", "12", "b\"uary\"", "b\"ruary\"", "b\"ch\"", "b\"il\"", "b\"\"", "b\"e\"", "b\"y\"", "b\"ust\"", "b\"tember\"", "b\"ober\"", "b\"ember\"", "b\"ember\"", "let(", "v1", "v2", "short_month0(", "v1", "?", "v3", "LONG_MONTH_SUFFIXES", "v2", "as", "usize", "if", "v1", "len(", ">=", "v3", "len(", "&&", "v1", "as_bytes(", "..", "v3", "len(", "eq_ignore_ascii_case(", "v3", "v1", "&", "v1", "v3", "len(", "..", "Ok(", "v1", "v2"] := by decide +kernel

/-- callee src/format/scan.rs:fn short_or_long_weekday -/
theorem callee_src_format_scan_rs_fn_short_or_long_weekday : C11_callee_src_format_scan_rs_fn_short_or_long_weekday =
    ["v1", "&", "str", "->", "ParseResult", "<", "&", "str", "Weekday", ">", "LONG_WEEKDAY_SUFFIXES", "&", "u8", "7", "b\"day\"", "b\"sday\"", "b\"nesday\"", "b\"rsday\"", "b\"day\"", "b\"urday\"", "b\"day\"", "let(", "v1", "v2", "short_weekday(", "v1", "?", "v3", "LONG_WEEKDAY_SUFFIXES", "v2", "num_days_from_monday(", "as", "usize", "if", "v1", "len(", ">=", "v3", "len(", "&&", "v1", "as_bytes(", "..", "v3", "len(", "eq_ignore_ascii_case(", "v3", "v1", "&", "v1", "v3", "len(", "..", "Ok(", "v1", "v2"] := by decide +kernel

/-- callee src/naive/date/mod.rs:fn from_isoywd_opt -/
theorem callee_src_naive_date_mod_rs_fn_from_isoywd_opt : C11_callee_src_naive_date_mod_rs_fn_from_isoywd_opt =
    ["v1", "i32", "v2", "u32", "v3", "Weekday", "->", "Option", "<", "NaiveDate", ">", "v4", "YearFlags", "from_year(", "v1", "v5", "v4", "nisoweeks(", "if", "v2", "==", "0", "||", "v2", ">", "v5", "return", "None", "v6", "v2", "*", "7", "+", "v3", "as", "u32", "v7", "v4", "isoweek_delta(", "let(", "v1", "v8", "v4", "if", "v6", "<=", "v7", "v9", "try_opt!(", "v1", "checked_sub(", "1", "v10", "YearFlags", "from_year(", "v9", "v9", "v6", "+", "v10", "ndays(", "-", "v7", "v10", "else", "v8", "v6", "-", "v7", "v11", "v4", "ndays(", "if", "v8", "<=", "v11", "v1", "v8", "v4", "else", "v12", "try_opt!(", "v1", "checked_add(", "1", "v13", "YearFlags", "from_year(", "v12", "v12", "v8", "-", "v11", "v13", "NaiveDate", "from_ordinal_and_flags(", "v1", "v8", "v4"] := by decide +kernel

/-- callee src/naive/date/mod.rs:fn from_mdf -/
theorem callee_src_naive_date_mod_rs_fn_from_mdf : C11_callee_src_naive_date_mod_rs_fn_from_mdf =
    ["v1", "i32", "v2", "Mdf", "->", "Option", "<", "NaiveDate", ">", "if", "v1", "<", "MIN_YEAR", "||", "v1", ">", "MAX_YEAR", "return", "None", "Some(", "NaiveDate", "from_yof(", "v1", "<<", "13", "|", "try_opt!(", "v2", "ordinal_and_flags("] := by decide +kernel

/-- callee src/naive/date/mod.rs:fn from_ordinal_and_flags -/
theorem callee_src_naive_date_mod_rs_fn_from_ordinal_and_flags : C11_callee_src_naive_date_mod_rs_fn_from_ordinal_and_flags =
    ["v1", "i32", "v2", "u32", "v3", "YearFlags", "->", "Option", "<", "NaiveDate", ">", "if", "v1", "<", "MIN_YEAR", "||", "v1", ">", "MAX_YEAR", "return", "None", "if", "v2", "==", "0", "||", "v2", ">", "366", "return", "None", "debug_assert!(", "YearFlags", "from_year(", "v1", "==", "v3", "v4", "v1", "<<", "13", "|", "v2", "<<", "4", "as", "i32", "|", "v3", "as", "i32", "match", "v4", "&", "OL_MASK", "<=", "MAX_OL", "true", "=>", "Some(", "NaiveDate", "from_yof(", "v4", "false", "=>", "None"] := by decide +kernel

/-- callee src/naive/date/mod.rs:fn from_ymd_opt -/
theorem callee_src_naive_date_mod_rs_fn_from_ymd_opt : C11_callee_src_naive_date_mod_rs_fn_from_ymd_opt =
    ["v1", "i32", "v2", "u32", "v3", "u32", "->", "Option", "<", "NaiveDate", ">", "v4", "YearFlags", "from_year(", "v1", "if", "Some(", "v5", "Mdf", "new(", "v2", "v3", "v4", "NaiveDate", "from_mdf(", "v1", "v5", "else", "None"] := by decide +kernel

/-- callee src/naive/date/mod.rs:fn from_yo_opt -/
theorem callee_src_naive_date_mod_rs_fn_from_yo_opt : C11_callee_src_naive_date_mod_rs_fn_from_yo_opt =
    ["v1", "i32", "v2", "u32", "->", "Option", "<", "NaiveDate", ">", "v3", "YearFlags", "from_year(", "v1", "NaiveDate", "from_ordinal_and_flags(", "v1", "v2", "v3"] := by decide +kernel

/-- callee src/naive/date/mod.rs:fn weeks_from -/
theorem callee_src_naive_date_mod_rs_fn_weeks_from : C11_callee_src_naive_date_mod_rs_fn_weeks_from =
    ["&", "self", "v1", "Weekday", "->", "i32", "self", "ordinal(", "as", "i32", "-", "self", "weekday(", "days_since(", "v1", "as", "i32", "+", "6", "/", "7"] := by decide +kernel

/-- callee src/naive/datetime/mod.rs:fn and_utc -/
theorem callee_src_naive_datetime_mod_rs_fn_and_utc : C11_callee_src_naive_datetime_mod_rs_fn_and_utc =
    ["&", "self", "->", "DateTime", "<", "Utc", ">", "DateTime", "from_naive_utc_and_offset(", "*", "self", "Utc"] := by decide +kernel

/-- callee src/naive/datetime/mod.rs:fn checked_sub_offset -/
theorem callee_src_naive_datetime_mod_rs_fn_checked_sub_offset : C11_callee_src_naive_datetime_mod_rs_fn_checked_sub_offset =
    ["self", "v1", "FixedOffset", "->", "Option", "<", "NaiveDateTime", ">", "let(", "v2", "v3", "self", "v2", "overflowing_sub_offset(", "v1", "v4", "match", "v3", "-", "1", "=>", "try_opt!(", "self", "v4", "pred_opt(", "1", "=>", "try_opt!(", "self", "v4", "succ_opt(", "v5", "=>", "self", "v4", "Some(", "NaiveDateTime", "v4", "v2"] := by decide +kernel

/-- callee src/naive/internals.rs:fn from_year -/
theorem callee_src_naive_internals_rs_fn_from_year : C11_callee_src_naive_internals_rs_fn_from_year =
    ["v1", "i32", "->", "YearFlags", "v1", "v1", "rem_euclid(", "400", "YearFlags", "from_year_mod_400(", "v1"] := by decide +kernel

/-- callee src/naive/internals.rs:fn from_year_mod_400 -/
theorem callee_src_naive_internals_rs_fn_from_year_mod_400 : C11_callee_src_naive_internals_rs_fn_from_year_mod_400 =
    ["v1", "i32", "->", "YearFlags", "YEAR_TO_FLAGS", "v1", "as", "usize"] := by decide +kernel

/-- callee src/naive/internals.rs:fn isoweek_delta -/
theorem callee_src_naive_internals_rs_fn_isoweek_delta : C11_callee_src_naive_internals_rs_fn_isoweek_delta =
    ["&", "self", "->", "u32", "YearFlags(", "v1", "*", "self", "v2", "v1", "&", "7", "as", "u32", "if", "v2", "<", "3", "v2", "+=", "7", "v2"] := by decide +kernel

/-- callee src/naive/internals.rs:fn ndays -/
theorem callee_src_naive_internals_rs_fn_ndays : C11_callee_src_naive_internals_rs_fn_ndays =
    ["&", "self", "->", "u32", "YearFlags(", "v1", "*", "self", "366", "-", "v1", ">>", "3", "as", "u32"] := by decide +kernel

/-- callee src/naive/internals.rs:fn nisoweeks -/
theorem callee_src_naive_internals_rs_fn_nisoweeks : C11_callee_src_naive_internals_rs_fn_nisoweeks =
    ["&", "self", "->", "u32", "YearFlags(", "v1", "*", "self", "52", "+", "1030", ">>", "v1", "as", "usize", "&", "1"] := by decide +kernel

/-- callee src/naive/internals.rs:fn ordinal_and_flags -/
theorem callee_src_naive_internals_rs_fn_ordinal_and_flags : C11_callee_src_naive_internals_rs_fn_ordinal_and_flags =
    ["&", "self", "->", "Option", "<", "i32", ">", "v1", "self", ">>", "3", "match", "MDL_TO_OL", "v1", "as", "usize", "XX", "=>", "None", "v2", "=>", "Some(", "self", "as", "i32", "-", "v2", "as", "i32", "<<", "3"] := by decide +kernel

/-- callee src/naive/time/mod.rs:fn from_hms_nano_opt -/
theorem callee_src_naive_time_mod_rs_fn_from_hms_nano_opt : C11_callee_src_naive_time_mod_rs_fn_from_hms_nano_opt =
    ["v1", "u32", "v2", "u32", "v3", "u32", "v4", "u32", "->", "Option", "<", "NaiveTime", ">", "if(", "v1", ">=", "24", "||", "v2", ">=", "60", "||", "v3", ">=", "60", "||", "v4", ">=", "1000000000", "&&", "v3", "!=", "59", "||", "v4", ">=", "2000000000", "return", "None", "v5", "v1", "*", "3600", "+", "v2", "*", "60", "+", "v3", "Some(", "NaiveTime", "v5", "v6", "v4"] := by decide +kernel

/-- callee src/naive/time/mod.rs:fn hms -/
theorem callee_src_naive_time_mod_rs_fn_hms : C11_callee_src_naive_time_mod_rs_fn_hms =
    ["&", "self", "->", "u32", "u32", "u32", "v1", "self", "v2", "%", "60", "v3", "self", "v2", "/", "60", "v4", "v3", "%", "60", "v5", "v3", "/", "60", "v5", "v4", "v1"] := by decide +kernel

/-- callee src/offset/fixed.rs:fn east_opt -/
theorem callee_src_offset_fixed_rs_fn_east_opt : C11_callee_src_offset_fixed_rs_fn_east_opt =
    ["v1", "i32", "->", "Option", "<", "FixedOffset", ">", "if", "-", "86400", "<", "v1", "&&", "v1", "<", "86400", "Some(", "FixedOffset", "v2", "v1", "else", "None"] := by decide +kernel

/-- callee src/offset/fixed.rs:fn local_minus_utc -/
theorem callee_src_offset_fixed_rs_fn_local_minus_utc : C11_callee_src_offset_fixed_rs_fn_local_minus_utc =
    ["&", "self", "->", "i32", "self", "v1"] := by decide +kernel

/-- callee src/offset/mod.rs:fn from_local_datetime -/
theorem callee_src_offset_mod_rs_fn_from_local_datetime : C11_callee_src_offset_mod_rs_fn_from_local_datetime =
    ["&", "self", "v1", "&", "NaiveDateTime", "->", "MappedLocalTime", "<", "DateTime", "<", "Self", ">>", "self", "offset_from_local_datetime(", "v1", "and_then(", "|", "v2", "|", "v1", "checked_sub_offset(", "v2", "fix(", "map(", "|", "v3", "|", "DateTime", "from_naive_utc_and_offset(", "v3", "v2"] := by decide +kernel

/-- callee src/time_delta.rs:fn try_seconds -/
theorem callee_src_time_delta_rs_fn_try_seconds : C11_callee_src_time_delta_rs_fn_try_seconds =
    ["v1", "i64", "->", "Option", "<", "TimeDelta", ">", "TimeDelta", "new(", "v1", "0"] := by decide +kernel

/-- callee src/traits.rs:fn hour12 -/
theorem callee_src_traits_rs_fn_hour12 : C11_callee_src_traits_rs_fn_hour12 =
    ["&", "self", "->", "bool", "u32", "v1", "self", "hour(", "v2", "v1", "%", "12", "if", "v2", "==", "0", "v2", "12", "v1", ">=", "12", "v2"] := by decide +kernel

/-- callee src/weekday.rs:fn days_since -/
theorem callee_src_weekday_rs_fn_days_since : C11_callee_src_weekday_rs_fn_days_since =
    ["&", "self", "v1", "Weekday", "->", "u32", "v2", "*", "self", "as", "u32", "v3", "v1", "as", "u32", "if", "v2", "<", "v3", "7", "+", "v2", "-", "v3", "else", "v2", "-", "v3"] := by decide +kernel

/-- callee src/weekday.rs:fn num_days_from_monday -/
theorem callee_src_weekday_rs_fn_num_days_from_monday : C11_callee_src_weekday_rs_fn_num_days_from_monday =
    ["&", "self", "->", "u32", "self", "days_since(", "Weekday", "Mon"] := by decide +kernel

/-- callee src/weekday.rs:fn num_days_from_sunday -/
theorem callee_src_weekday_rs_fn_num_days_from_sunday : C11_callee_src_weekday_rs_fn_num_days_from_sunday =
    ["&", "self", "->", "u32", "self", "days_since(", "Weekday", "Sun"] := by decide +kernel

end Chrono.Pins.C11
