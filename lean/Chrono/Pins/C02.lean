/-
  PINS of property C02: the decision tokens of every item the property is anchored in
  (properties.jsonl `anchors` + tools/anchor_extra.json), as they were in /repo at 770977e when the
  model was validated against the source.  Written by tools/pin_anchors.py; the right-hand sides are
  compared by the kernel with lean/Chrono/Extracted/Anchors.lean, which tools/extractors/anchors.py
  regenerates from /repo's working tree on every check.  A theorem that fails here means: anchored
  code changed; the hand-written model may no longer mirror it.
-/
import Chrono.Extracted.Anchors
namespace Chrono.Pins.C02
open Chrono.Extracted.Anchors

/-- src/datetime/mod.rs:const UNIX_EPOCH_DAY -/
theorem src_datetime_mod_rs_const_UNIX_EPOCH_DAY : C02_src_datetime_mod_rs_const_UNIX_EPOCH_DAY =
    ["i64", "719163"] := by decide +kernel

/-- src/datetime/mod.rs:fn from_timestamp -/
theorem src_datetime_mod_rs_fn_from_timestamp : C02_src_datetime_mod_rs_fn_from_timestamp =
    ["v1", "i64", "v2", "u32", "->", "Option", "<", "Self", ">", "v3", "v1", "div_euclid(", "86400", "+", "UNIX_EPOCH_DAY", "v1", "v1", "rem_euclid(", "86400", "if", "v3", "<", "i32", "MIN", "as", "i64", "||", "v3", ">", "i32", "MAX", "as", "i64", "return", "None", "v4", "try_opt!(", "NaiveDate", "from_num_days_from_ce_opt(", "v3", "as", "i32", "v5", "try_opt!(", "NaiveTime", "from_num_seconds_from_midnight_opt(", "v1", "as", "u32", "v2", "Some(", "v4", "and_time(", "v5", "and_utc("] := by decide +kernel

/-- src/datetime/mod.rs:fn from_timestamp_micros -/
theorem src_datetime_mod_rs_fn_from_timestamp_micros : C02_src_datetime_mod_rs_fn_from_timestamp_micros =
    ["v1", "i64", "->", "Option", "<", "Self", ">", "v2", "v1", "div_euclid(", "1000000", "v3", "v1", "rem_euclid(", "1000000", "as", "u32", "*", "1000", "Self", "from_timestamp(", "v2", "v3"] := by decide +kernel

/-- src/datetime/mod.rs:fn from_timestamp_millis -/
theorem src_datetime_mod_rs_fn_from_timestamp_millis : C02_src_datetime_mod_rs_fn_from_timestamp_millis =
    ["v1", "i64", "->", "Option", "<", "Self", ">", "v2", "v1", "div_euclid(", "1000", "v3", "v1", "rem_euclid(", "1000", "as", "u32", "*", "1000000", "Self", "from_timestamp(", "v2", "v3"] := by decide +kernel

/-- src/datetime/mod.rs:fn from_timestamp_nanos -/
theorem src_datetime_mod_rs_fn_from_timestamp_nanos : C02_src_datetime_mod_rs_fn_from_timestamp_nanos =
    ["v1", "i64", "->", "Self", "v2", "v1", "div_euclid(", "1000000000", "v3", "v1", "rem_euclid(", "1000000000", "as", "u32", "expect(", "Self", "from_timestamp(", "v2", "v3", "\"…\""] := by decide +kernel

/-- src/datetime/mod.rs:fn naive_utc -/
theorem src_datetime_mod_rs_fn_naive_utc : C02_src_datetime_mod_rs_fn_naive_utc =
    ["&", "self", "->", "NaiveDateTime", "self", "v1"] := by decide +kernel

/-- src/datetime/mod.rs:fn timestamp -/
theorem src_datetime_mod_rs_fn_timestamp : C02_src_datetime_mod_rs_fn_timestamp =
    ["&", "self", "->", "i64", "v1", "self", "v2", "date(", "num_days_from_ce(", "as", "i64", "v3", "self", "v2", "time(", "num_seconds_from_midnight(", "as", "i64", "v1", "-", "UNIX_EPOCH_DAY", "*", "86400", "+", "v3"] := by decide +kernel

/-- src/datetime/mod.rs:fn timestamp_micros -/
theorem src_datetime_mod_rs_fn_timestamp_micros : C02_src_datetime_mod_rs_fn_timestamp_micros =
    ["&", "self", "->", "i64", "v1", "self", "timestamp(", "*", "1000000", "v1", "+", "self", "timestamp_subsec_micros(", "as", "i64"] := by decide +kernel

/-- src/datetime/mod.rs:fn timestamp_millis -/
theorem src_datetime_mod_rs_fn_timestamp_millis : C02_src_datetime_mod_rs_fn_timestamp_millis =
    ["&", "self", "->", "i64", "v1", "self", "timestamp(", "*", "1000", "v1", "+", "self", "timestamp_subsec_millis(", "as", "i64"] := by decide +kernel

/-- src/datetime/mod.rs:fn timestamp_nanos -/
theorem src_datetime_mod_rs_fn_timestamp_nanos : C02_src_datetime_mod_rs_fn_timestamp_nanos =
    ["&", "self", "->", "i64", "expect(", "self", "timestamp_nanos_opt(", "\"…\""] := by decide +kernel

/-- src/datetime/mod.rs:fn timestamp_nanos_opt -/
theorem src_datetime_mod_rs_fn_timestamp_nanos_opt : C02_src_datetime_mod_rs_fn_timestamp_nanos_opt =
    ["&", "self", "->", "Option", "<", "i64", ">", "v1", "self", "timestamp(", "as", "i128", "*", "1000000000", "+", "self", "timestamp_subsec_nanos(", "as", "i128", "if", "v1", "<", "i64", "MIN", "as", "i128", "||", "v1", ">", "i64", "MAX", "as", "i128", "return", "None", "Some(", "v1", "as", "i64"] := by decide +kernel

/-- src/datetime/mod.rs:fn timestamp_subsec_micros -/
theorem src_datetime_mod_rs_fn_timestamp_subsec_micros : C02_src_datetime_mod_rs_fn_timestamp_subsec_micros =
    ["&", "self", "->", "u32", "self", "timestamp_subsec_nanos(", "/", "1000"] := by decide +kernel

/-- src/datetime/mod.rs:fn timestamp_subsec_millis -/
theorem src_datetime_mod_rs_fn_timestamp_subsec_millis : C02_src_datetime_mod_rs_fn_timestamp_subsec_millis =
    ["&", "self", "->", "u32", "self", "timestamp_subsec_nanos(", "/", "1000000"] := by decide +kernel

/-- src/datetime/mod.rs:fn timestamp_subsec_nanos -/
theorem src_datetime_mod_rs_fn_timestamp_subsec_nanos : C02_src_datetime_mod_rs_fn_timestamp_subsec_nanos =
    ["&", "self", "->", "u32", "self", "v1", "time(", "nanosecond("] := by decide +kernel

/-- src/datetime/mod.rs:fn with_timezone -/
theorem src_datetime_mod_rs_fn_with_timezone : C02_src_datetime_mod_rs_fn_with_timezone =
    ["<", "Tz2", "TimeZone", ">", "&", "self", "v1", "&", "Tz2", "->", "DateTime", "<", "Tz2", ">", "v1", "from_utc_datetime(", "&", "self", "v2"] := by decide +kernel

/-- src/datetime/mod.rs:impl From for DateTime -/
theorem src_datetime_mod_rs_impl_From_for_DateTime : C02_src_datetime_mod_rs_impl_From_for_DateTime =
    ["From", "<", "DateTime", "<", "Utc", ">>", "for", "DateTime", "<", "FixedOffset", ">", "from(", "v1", "DateTime", "<", "Utc", ">", "->", "Self", "v1", "with_timezone(", "&", "FixedOffset", "east_opt(", "0", "unwrap(", "§", "From", "<", "DateTime", "<", "Utc", ">>", "for", "DateTime", "<", "Local", ">", "from(", "v1", "DateTime", "<", "Utc", ">", "->", "Self", "v1", "with_timezone(", "&", "Local", "§", "From", "<", "DateTime", "<", "FixedOffset", ">>", "for", "DateTime", "<", "Utc", ">", "from(", "v1", "DateTime", "<", "FixedOffset", ">", "->", "Self", "v1", "with_timezone(", "&", "Utc", "§", "From", "<", "DateTime", "<", "FixedOffset", ">>", "for", "DateTime", "<", "Local", ">", "from(", "v1", "DateTime", "<", "FixedOffset", ">", "->", "Self", "v1", "with_timezone(", "&", "Local", "§", "From", "<", "DateTime", "<", "Local", ">>", "for", "DateTime", "<", "Utc", ">", "from(", "v1", "DateTime", "<", "Local", ">", "->", "Self", "v1", "with_timezone(", "&", "Utc", "§", "From", "<", "DateTime", "<", "Local", ">>", "for", "DateTime", "<", "FixedOffset", ">", "from(", "v1", "DateTime", "<", "Local", ">", "->", "Self", "v1", "with_timezone(", "&", "v1", "offset(", "fix(", "§", "From", "<", "SystemTime", ">", "for", "DateTime", "<", "Utc", ">", "from(", "v1", "SystemTime", "->", "DateTime", "<", "Utc", ">", "let(", "v2", "v3", "match", "v1", "duration_since(", "UNIX_EPOCH", "Ok(", "v4", "=>", "v4", "as_secs(", "as", "i64", "v4", "subsec_nanos(", "Err(", "v5", "=>", "v4", "v5", "duration(", "let(", "v2", "v3", "v4", "as_secs(", "as", "i64", "v4", "subsec_nanos(", "if", "v3", "==", "0", "-", "v2", "0", "else", "-", "v2", "-", "1", "1000000000", "-", "v3", "Utc", "timestamp_opt(", "v2", "v3", "unwrap(", "§", "From", "<", "SystemTime", ">", "for", "DateTime", "<", "Local", ">", "from(", "v1", "SystemTime", "->", "DateTime", "<", "Local", ">", "DateTime", "<", "Utc", ">", "from(", "v1", "with_timezone(", "&", "Local", "§", "<", "Tz", "TimeZone", ">", "From", "<", "DateTime", "<", "Tz", ">>", "for", "SystemTime", "from(", "v1", "DateTime", "<", "Tz", ">", "->", "SystemTime", "v2", "v1", "timestamp(", "v3", "v1", "timestamp_subsec_nanos(", "if", "v2", "<", "0", "UNIX_EPOCH", "-", "Duration", "new(", "-", "v2", "as", "u64", "0", "+", "Duration", "new(", "0", "v3", "else", "UNIX_EPOCH", "+", "Duration", "new(", "v2", "as", "u64", "v3", "§", "From", "<", "v1", "Date", ">", "for", "DateTime", "<", "Utc", ">", "from(", "v2", "v1", "Date", "->", "DateTime", "<", "Utc", ">", "DateTime", "<", "Utc", ">", "from(", "&", "v2", "§", "From", "<", "&", "v1", "Date", ">", "for", "DateTime", "<", "Utc", ">", "from(", "v2", "&", "v1", "Date", "->", "DateTime", "<", "Utc", ">", "Utc", "timestamp_millis_opt(", "v2", "get_time(", "as", "i64", "unwrap(", "§", "From", "<", "DateTime", "<", "Utc", ">>", "for", "v1", "Date", "from(", "v2", "DateTime", "<", "Utc", ">", "->", "v1", "Date", "v3", "v4", "JsValue", "from_f64(", "v2", "timestamp_millis(", "as", "f64", "v1", "Date", "new(", "&", "v3"] := by decide +kernel

/-- src/datetime/mod.rs:impl From for SystemTime -/
theorem src_datetime_mod_rs_impl_From_for_SystemTime : C02_src_datetime_mod_rs_impl_From_for_SystemTime =
    ["From", "<", "SystemTime", ">", "for", "DateTime", "<", "Utc", ">", "from(", "v1", "SystemTime", "->", "DateTime", "<", "Utc", ">", "let(", "v2", "v3", "match", "v1", "duration_since(", "UNIX_EPOCH", "Ok(", "v4", "=>", "v4", "as_secs(", "as", "i64", "v4", "subsec_nanos(", "Err(", "v5", "=>", "v4", "v5", "duration(", "let(", "v2", "v3", "v4", "as_secs(", "as", "i64", "v4", "subsec_nanos(", "if", "v3", "==", "0", "-", "v2", "0", "else", "-", "v2", "-", "1", "1000000000", "-", "v3", "Utc", "timestamp_opt(", "v2", "v3", "unwrap(", "§", "From", "<", "SystemTime", ">", "for", "DateTime", "<", "Local", ">", "from(", "v1", "SystemTime", "->", "DateTime", "<", "Local", ">", "DateTime", "<", "Utc", ">", "from(", "v1", "with_timezone(", "&", "Local", "§", "<", "Tz", "TimeZone", ">", "From", "<", "DateTime", "<", "Tz", ">>", "for", "SystemTime", "from(", "v1", "DateTime", "<", "Tz", ">", "->", "SystemTime", "v2", "v1", "timestamp(", "v3", "v1", "timestamp_subsec_nanos(", "if", "v2", "<", "0", "UNIX_EPOCH", "-", "Duration", "new(", "-", "v2", "as", "u64", "0", "+", "Duration", "new(", "0", "v3", "else", "UNIX_EPOCH", "+", "Duration", "new(", "v2", "as", "u64", "v3"] := by decide +kernel

/-- src/naive/datetime/mod.rs:fn from_timestamp -/
theorem src_naive_datetime_mod_rs_fn_from_timestamp : C02_src_naive_datetime_mod_rs_fn_from_timestamp =
    ["v1", "i64", "v2", "u32", "->", "NaiveDateTime", "v3", "expect(", "DateTime", "from_timestamp(", "v1", "v2", "\"…\"", "v3", "naive_utc("] := by decide +kernel

/-- src/naive/datetime/mod.rs:fn from_timestamp_micros -/
theorem src_naive_datetime_mod_rs_fn_from_timestamp_micros : C02_src_naive_datetime_mod_rs_fn_from_timestamp_micros =
    ["v1", "i64", "->", "Option", "<", "NaiveDateTime", ">", "v2", "v1", "div_euclid(", "1000000", "v3", "v1", "rem_euclid(", "1000000", "as", "u32", "*", "1000", "Some(", "try_opt!(", "DateTime", "<", "Utc", ">", "from_timestamp(", "v2", "v3", "naive_utc("] := by decide +kernel

/-- src/naive/datetime/mod.rs:fn from_timestamp_millis -/
theorem src_naive_datetime_mod_rs_fn_from_timestamp_millis : C02_src_naive_datetime_mod_rs_fn_from_timestamp_millis =
    ["v1", "i64", "->", "Option", "<", "NaiveDateTime", ">", "Some(", "try_opt!(", "DateTime", "from_timestamp_millis(", "v1", "naive_utc("] := by decide +kernel

/-- src/naive/datetime/mod.rs:fn from_timestamp_nanos -/
theorem src_naive_datetime_mod_rs_fn_from_timestamp_nanos : C02_src_naive_datetime_mod_rs_fn_from_timestamp_nanos =
    ["v1", "i64", "->", "Option", "<", "NaiveDateTime", ">", "v2", "v1", "div_euclid(", "NANOS_PER_SEC", "as", "i64", "v3", "v1", "rem_euclid(", "NANOS_PER_SEC", "as", "i64", "as", "u32", "Some(", "try_opt!(", "DateTime", "from_timestamp(", "v2", "v3", "naive_utc("] := by decide +kernel

/-- src/naive/datetime/mod.rs:fn from_timestamp_opt -/
theorem src_naive_datetime_mod_rs_fn_from_timestamp_opt : C02_src_naive_datetime_mod_rs_fn_from_timestamp_opt =
    ["v1", "i64", "v2", "u32", "->", "Option", "<", "NaiveDateTime", ">", "Some(", "try_opt!(", "DateTime", "from_timestamp(", "v1", "v2", "naive_utc("] := by decide +kernel

/-- src/naive/datetime/mod.rs:fn timestamp -/
theorem src_naive_datetime_mod_rs_fn_timestamp : C02_src_naive_datetime_mod_rs_fn_timestamp =
    ["&", "self", "->", "i64", "self", "and_utc(", "timestamp("] := by decide +kernel

/-- src/naive/datetime/mod.rs:fn timestamp_micros -/
theorem src_naive_datetime_mod_rs_fn_timestamp_micros : C02_src_naive_datetime_mod_rs_fn_timestamp_micros =
    ["&", "self", "->", "i64", "self", "and_utc(", "timestamp_micros("] := by decide +kernel

/-- src/naive/datetime/mod.rs:fn timestamp_millis -/
theorem src_naive_datetime_mod_rs_fn_timestamp_millis : C02_src_naive_datetime_mod_rs_fn_timestamp_millis =
    ["&", "self", "->", "i64", "self", "and_utc(", "timestamp_millis("] := by decide +kernel

/-- src/naive/datetime/mod.rs:fn timestamp_nanos -/
theorem src_naive_datetime_mod_rs_fn_timestamp_nanos : C02_src_naive_datetime_mod_rs_fn_timestamp_nanos =
    ["&", "self", "->", "i64", "self", "and_utc(", "timestamp_nanos("] := by decide +kernel

/-- src/naive/datetime/mod.rs:fn timestamp_nanos_opt -/
theorem src_naive_datetime_mod_rs_fn_timestamp_nanos_opt : C02_src_naive_datetime_mod_rs_fn_timestamp_nanos_opt =
    ["&", "self", "->", "Option", "<", "i64", ">", "self", "and_utc(", "timestamp_nanos_opt("] := by decide +kernel

/-- src/naive/datetime/mod.rs:fn timestamp_subsec_micros -/
theorem src_naive_datetime_mod_rs_fn_timestamp_subsec_micros : C02_src_naive_datetime_mod_rs_fn_timestamp_subsec_micros =
    ["&", "self", "->", "u32", "self", "and_utc(", "timestamp_subsec_micros("] := by decide +kernel

/-- src/naive/datetime/mod.rs:fn timestamp_subsec_millis -/
theorem src_naive_datetime_mod_rs_fn_timestamp_subsec_millis : C02_src_naive_datetime_mod_rs_fn_timestamp_subsec_millis =
    ["&", "self", "->", "u32", "self", "and_utc(", "timestamp_subsec_millis("] := by decide +kernel

/-- src/naive/datetime/mod.rs:fn timestamp_subsec_nanos -/
theorem src_naive_datetime_mod_rs_fn_timestamp_subsec_nanos : C02_src_naive_datetime_mod_rs_fn_timestamp_subsec_nanos =
    ["&", "self", "->", "u32", "self", "and_utc(", "timestamp_subsec_nanos("] := by decide +kernel

/-- src/offset/mod.rs:fn from_utc_datetime -/
theorem src_offset_mod_rs_fn_from_utc_datetime : C02_src_offset_mod_rs_fn_from_utc_datetime =
    ["&", "self", "v1", "&", "NaiveDateTime", "->", "DateTime", "<", "Self", ">", "DateTime", "from_naive_utc_and_offset(", "*", "v1", "self", "offset_from_utc_datetime(", "v1"] := by decide +kernel

/-- src/offset/mod.rs:fn timestamp -/
theorem src_offset_mod_rs_fn_timestamp : C02_src_offset_mod_rs_fn_timestamp =
    ["&", "self", "v1", "i64", "v2", "u32", "->", "DateTime", "<", "Self", ">", "self", "timestamp_opt(", "v1", "v2", "unwrap("] := by decide +kernel

/-- src/offset/mod.rs:fn timestamp_micros -/
theorem src_offset_mod_rs_fn_timestamp_micros : C02_src_offset_mod_rs_fn_timestamp_micros =
    ["&", "self", "v1", "i64", "->", "MappedLocalTime", "<", "DateTime", "<", "Self", ">>", "match", "DateTime", "from_timestamp_micros(", "v1", "Some(", "v2", "=>", "MappedLocalTime", "Single(", "self", "from_utc_datetime(", "&", "v2", "naive_utc(", "None", "=>", "MappedLocalTime", "None"] := by decide +kernel

/-- src/offset/mod.rs:fn timestamp_millis -/
theorem src_offset_mod_rs_fn_timestamp_millis : C02_src_offset_mod_rs_fn_timestamp_millis =
    ["&", "self", "v1", "i64", "->", "DateTime", "<", "Self", ">", "self", "timestamp_millis_opt(", "v1", "unwrap("] := by decide +kernel

/-- src/offset/mod.rs:fn timestamp_millis_opt -/
theorem src_offset_mod_rs_fn_timestamp_millis_opt : C02_src_offset_mod_rs_fn_timestamp_millis_opt =
    ["&", "self", "v1", "i64", "->", "MappedLocalTime", "<", "DateTime", "<", "Self", ">>", "match", "DateTime", "from_timestamp_millis(", "v1", "Some(", "v2", "=>", "MappedLocalTime", "Single(", "self", "from_utc_datetime(", "&", "v2", "naive_utc(", "None", "=>", "MappedLocalTime", "None"] := by decide +kernel

/-- src/offset/mod.rs:fn timestamp_nanos -/
theorem src_offset_mod_rs_fn_timestamp_nanos : C02_src_offset_mod_rs_fn_timestamp_nanos =
    ["&", "self", "v1", "i64", "->", "DateTime", "<", "Self", ">", "self", "from_utc_datetime(", "&", "DateTime", "from_timestamp_nanos(", "v1", "naive_utc("] := by decide +kernel

/-- src/offset/mod.rs:fn timestamp_opt -/
theorem src_offset_mod_rs_fn_timestamp_opt : C02_src_offset_mod_rs_fn_timestamp_opt =
    ["&", "self", "v1", "i64", "v2", "u32", "->", "MappedLocalTime", "<", "DateTime", "<", "Self", ">>", "match", "DateTime", "from_timestamp(", "v1", "v2", "Some(", "v3", "=>", "MappedLocalTime", "Single(", "self", "from_utc_datetime(", "&", "v3", "naive_utc(", "None", "=>", "MappedLocalTime", "None"] := by decide +kernel

/-- src/time_delta.rs:const NANOS_PER_SEC -/
theorem src_time_delta_rs_const_NANOS_PER_SEC : C02_src_time_delta_rs_const_NANOS_PER_SEC =
    ["i32", "1000000000"] := by decide +kernel

/-- callee src/datetime/mod.rs:fn from_naive_utc_and_offset -/
theorem callee_src_datetime_mod_rs_fn_from_naive_utc_and_offset : C02_callee_src_datetime_mod_rs_fn_from_naive_utc_and_offset =
    ["v1", "NaiveDateTime", "v2", "Tz", "Offset", "->", "DateTime", "<", "Tz", ">", "DateTime", "v1", "v2"] := by decide +kernel

/-- callee src/naive/date/mod.rs:fn cycle_to_yo -/
theorem callee_src_naive_date_mod_rs_fn_cycle_to_yo : C02_callee_src_naive_date_mod_rs_fn_cycle_to_yo =
    ["v1", "u32", "->", "u32", "u32", "v2", "v1", "/", "365", "v3", "v1", "%", "365", "v4", "YEAR_DELTAS", "v2", "as", "usize", "as", "u32", "if", "v3", "<", "v4", "v2", "-=", "1", "v3", "+=", "365", "-", "YEAR_DELTAS", "v2", "as", "usize", "as", "u32", "else", "v3", "-=", "v4", "v2", "v3", "+", "1"] := by decide +kernel

/-- callee src/naive/date/mod.rs:fn from_num_days_from_ce_opt -/
theorem callee_src_naive_date_mod_rs_fn_from_num_days_from_ce_opt : C02_callee_src_naive_date_mod_rs_fn_from_num_days_from_ce_opt =
    ["v1", "i32", "->", "Option", "<", "NaiveDate", ">", "v1", "try_opt!(", "v1", "checked_add(", "365", "v2", "v1", "div_euclid(", "146097", "v3", "v1", "rem_euclid(", "146097", "let(", "v4", "v5", "cycle_to_yo(", "v3", "as", "u32", "v6", "YearFlags", "from_year_mod_400(", "v4", "as", "i32", "NaiveDate", "from_ordinal_and_flags(", "v2", "*", "400", "+", "v4", "as", "i32", "v5", "v6"] := by decide +kernel

/-- callee src/naive/date/mod.rs:fn from_ordinal_and_flags -/
theorem callee_src_naive_date_mod_rs_fn_from_ordinal_and_flags : C02_callee_src_naive_date_mod_rs_fn_from_ordinal_and_flags =
    ["v1", "i32", "v2", "u32", "v3", "YearFlags", "->", "Option", "<", "NaiveDate", ">", "if", "v1", "<", "MIN_YEAR", "||", "v1", ">", "MAX_YEAR", "return", "None", "if", "v2", "==", "0", "||", "v2", ">", "366", "return", "None", "debug_assert!(", "YearFlags", "from_year(", "v1", "==", "v3", "v4", "v1", "<<", "13", "|", "v2", "<<", "4", "as", "i32", "|", "v3", "as", "i32", "match", "v4", "&", "OL_MASK", "<=", "MAX_OL", "true", "=>", "Some(", "NaiveDate", "from_yof(", "v4", "false", "=>", "None"] := by decide +kernel

/-- callee src/naive/datetime/mod.rs:fn and_utc -/
theorem callee_src_naive_datetime_mod_rs_fn_and_utc : C02_callee_src_naive_datetime_mod_rs_fn_and_utc =
    ["&", "self", "->", "DateTime", "<", "Utc", ">", "DateTime", "from_naive_utc_and_offset(", "*", "self", "Utc"] := by decide +kernel

/-- callee src/naive/internals.rs:fn from_year -/
theorem callee_src_naive_internals_rs_fn_from_year : C02_callee_src_naive_internals_rs_fn_from_year =
    ["v1", "i32", "->", "YearFlags", "v1", "v1", "rem_euclid(", "400", "YearFlags", "from_year_mod_400(", "v1"] := by decide +kernel

/-- callee src/naive/internals.rs:fn from_year_mod_400 -/
theorem callee_src_naive_internals_rs_fn_from_year_mod_400 : C02_callee_src_naive_internals_rs_fn_from_year_mod_400 =
    ["v1", "i32", "->", "YearFlags", "YEAR_TO_FLAGS", "v1", "as", "usize"] := by decide +kernel

/-- callee src/naive/time/mod.rs:fn from_num_seconds_from_midnight_opt -/
theorem callee_src_naive_time_mod_rs_fn_from_num_seconds_from_midnight_opt : C02_callee_src_naive_time_mod_rs_fn_from_num_seconds_from_midnight_opt =
    ["v1", "u32", "v2", "u32", "->", "Option", "<", "NaiveTime", ">", "if", "v1", ">=", "86400", "||", "v2", ">=", "2000000000", "||", "v2", ">=", "1000000000", "&&", "v1", "%", "60", "!=", "59", "return", "None", "Some(", "NaiveTime", "v1", "v3", "v2"] := by decide +kernel

/-- callee src/offset/fixed.rs:fn east_opt -/
theorem callee_src_offset_fixed_rs_fn_east_opt : C02_callee_src_offset_fixed_rs_fn_east_opt =
    ["v1", "i32", "->", "Option", "<", "FixedOffset", ">", "if", "-", "86400", "<", "v1", "&&", "v1", "<", "86400", "Some(", "FixedOffset", "v2", "v1", "else", "None"] := by decide +kernel

/-- callee src/time_delta.rs:fn subsec_nanos -/
theorem callee_src_time_delta_rs_fn_subsec_nanos : C02_callee_src_time_delta_rs_fn_subsec_nanos =
    ["&", "self", "->", "i32", "if", "self", "v1", "<", "0", "&&", "self", "v2", ">", "0", "self", "v2", "-", "NANOS_PER_SEC", "else", "self", "v2"] := by decide +kernel

end Chrono.Pins.C02
