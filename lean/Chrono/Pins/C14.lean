/-
  PINS of property C14: the decision tokens of every item the property is anchored in
  (properties.jsonl `anchors` + tools/anchor_extra.json), as they were in /repo at b30ed81 when the
  model was validated against the source.  Written by tools/pin_anchors.py; the right-hand sides are
  compared by the kernel with lean/Chrono/Extracted/Anchors.lean, which tools/extractors/anchors.py
  regenerates from /repo's working tree on every check.  A theorem that fails here means: anchored
  code changed; the hand-written model may no longer mirror it.
-/
import Chrono.Extracted.Anchors
namespace Chrono.Pins.C14
open Chrono.Extracted.Anchors

/-- src/format/parsed.rs:fn resolve_week_date -/
theorem src_format_parsed_rs_fn_resolve_week_date : C14_src_format_parsed_rs_fn_resolve_week_date =
    ["v1", "i32", "v2", "u32", "v3", "Weekday", "v4", "Weekday", "->", "ParseResult", "<", "NaiveDate", ">", "if", "v2", ">", "53", "return", "Err(", "OUT_OF_RANGE", "v5", "NaiveDate", "from_yo_opt(", "v1", "1", "ok_or(", "OUT_OF_RANGE", "?", "v6", "1", "+", "v4", "days_since(", "v5", "weekday(", "as", "i32", "v3", "v3", "days_since(", "v4", "as", "i32", "v7", "v6", "+", "v2", "as", "i32", "-", "1", "*", "7", "+", "v3", "if", "v7", "<=", "0", "return", "Err(", "IMPOSSIBLE", "v5", "with_ordinal(", "v7", "as", "u32", "ok_or(", "IMPOSSIBLE"] := by decide +kernel

/-- src/format/parsed.rs:fn resolve_year -/
theorem src_format_parsed_rs_fn_resolve_year : C14_src_format_parsed_rs_fn_resolve_year =
    ["v1", "Option", "<", "i32", ">", "v2", "Option", "<", "i32", ">", "v3", "Option", "<", "i32", ">", "->", "ParseResult", "<", "Option", "<", "i32", ">>", "match(", "v1", "v2", "v3", "v1", "None", "None", "=>", "Ok(", "v1", "Some(", "v1", "v2", "v3", "Some(", "0", "..=", "99", "|", "Some(", "v1", "v2", "v3", "None", "=>", "if", "v1", "<", "0", "return", "Err(", "IMPOSSIBLE", "v4", "v1", "/", "100", "v5", "v1", "%", "100", "if", "v2", "unwrap_or(", "v4", "==", "v4", "&&", "v3", "unwrap_or(", "v5", "==", "v5", "Ok(", "Some(", "v1", "else", "Err(", "IMPOSSIBLE", "None", "Some(", "v2", "Some(", "v3", "0", "..=", "99", "=>", "if", "v2", "<", "0", "return", "Err(", "IMPOSSIBLE", "v1", "v2", "checked_mul(", "100", "and_then(", "|", "v6", "|", "v6", "checked_add(", "v3", "Ok(", "Some(", "v1", "ok_or(", "OUT_OF_RANGE", "?", "None", "None", "Some(", "v3", "0", "..=", "99", "=>", "Ok(", "Some(", "v3", "+", "if", "v3", "<", "70", "2000", "else", "1900", "None", "Some(", "v7", "None", "=>", "Err(", "NOT_ENOUGH", "v7", "v7", "Some(", "v7", "=>", "Err(", "OUT_OF_RANGE"] := by decide +kernel

/-- src/format/parsed.rs:fn set_ampm -/
theorem src_format_parsed_rs_fn_set_ampm : C14_src_format_parsed_rs_fn_set_ampm =
    ["&", "self", "v1", "bool", "->", "ParseResult", "<", ">", "set_if_consistent(", "&", "self", "v2", "v1", "as", "u32"] := by decide +kernel

/-- src/format/parsed.rs:fn set_day -/
theorem src_format_parsed_rs_fn_set_day : C14_src_format_parsed_rs_fn_set_day =
    ["&", "self", "v1", "i64", "->", "ParseResult", "<", ">", "if!(", "1", "..=", "31", "contains(", "&", "v1", "return", "Err(", "OUT_OF_RANGE", "set_if_consistent(", "&", "self", "v2", "v1", "as", "u32"] := by decide +kernel

/-- src/format/parsed.rs:fn set_hour -/
theorem src_format_parsed_rs_fn_set_hour : C14_src_format_parsed_rs_fn_set_hour =
    ["&", "self", "v1", "i64", "->", "ParseResult", "<", ">", "let(", "v2", "v3", "match", "v1", "v4", "0", "..=", "11", "=>", "0", "v4", "as", "u32", "v4", "12", "..=", "23", "=>", "1", "v4", "as", "u32", "-", "12", "v5", "=>", "return", "Err(", "OUT_OF_RANGE", "set_if_consistent(", "&", "self", "v2", "v2", "?", "set_if_consistent(", "&", "self", "v3", "v3"] := by decide +kernel

/-- src/format/parsed.rs:fn set_hour12 -/
theorem src_format_parsed_rs_fn_set_hour12 : C14_src_format_parsed_rs_fn_set_hour12 =
    ["&", "self", "v1", "i64", "->", "ParseResult", "<", ">", "if!(", "1", "..=", "12", "contains(", "&", "v1", "return", "Err(", "OUT_OF_RANGE", "if", "v1", "==", "12", "v1", "0", "set_if_consistent(", "&", "self", "v2", "v1", "as", "u32"] := by decide +kernel

/-- src/format/parsed.rs:fn set_if_consistent -/
theorem src_format_parsed_rs_fn_set_if_consistent : C14_src_format_parsed_rs_fn_set_if_consistent =
    ["<", "T", "PartialEq", ">", "v1", "&", "Option", "<", "T", ">", "v2", "T", "->", "ParseResult", "<", ">", "match", "v1", "Some(", "v1", "if", "*", "v1", "!=", "v2", "=>", "Err(", "IMPOSSIBLE", "v3", "=>", "*", "v1", "Some(", "v2", "Ok("] := by decide +kernel

/-- src/format/parsed.rs:fn set_isoweek -/
theorem src_format_parsed_rs_fn_set_isoweek : C14_src_format_parsed_rs_fn_set_isoweek =
    ["&", "self", "v1", "i64", "->", "ParseResult", "<", ">", "if!(", "1", "..=", "53", "contains(", "&", "v1", "return", "Err(", "OUT_OF_RANGE", "set_if_consistent(", "&", "self", "v2", "v1", "as", "u32"] := by decide +kernel

/-- src/format/parsed.rs:fn set_isoyear -/
theorem src_format_parsed_rs_fn_set_isoyear : C14_src_format_parsed_rs_fn_set_isoyear =
    ["&", "self", "v1", "i64", "->", "ParseResult", "<", ">", "set_if_consistent(", "&", "self", "v2", "i32", "try_from(", "v1", "map_err(", "|", "v3", "|", "OUT_OF_RANGE", "?"] := by decide +kernel

/-- src/format/parsed.rs:fn set_isoyear_div_100 -/
theorem src_format_parsed_rs_fn_set_isoyear_div_100 : C14_src_format_parsed_rs_fn_set_isoyear_div_100 =
    ["&", "self", "v1", "i64", "->", "ParseResult", "<", ">", "if!(", "0", "..=", "i32", "MAX", "as", "i64", "contains(", "&", "v1", "return", "Err(", "OUT_OF_RANGE", "set_if_consistent(", "&", "self", "v2", "v1", "as", "i32"] := by decide +kernel

/-- src/format/parsed.rs:fn set_isoyear_mod_100 -/
theorem src_format_parsed_rs_fn_set_isoyear_mod_100 : C14_src_format_parsed_rs_fn_set_isoyear_mod_100 =
    ["&", "self", "v1", "i64", "->", "ParseResult", "<", ">", "if!(", "0", "..", "contains(", "&", "v1", "return", "Err(", "OUT_OF_RANGE", "set_if_consistent(", "&", "self", "v2", "v1", "as", "i32"] := by decide +kernel

/-- src/format/parsed.rs:fn set_minute -/
theorem src_format_parsed_rs_fn_set_minute : C14_src_format_parsed_rs_fn_set_minute =
    ["&", "self", "v1", "i64", "->", "ParseResult", "<", ">", "if!(", "0", "..=", "59", "contains(", "&", "v1", "return", "Err(", "OUT_OF_RANGE", "set_if_consistent(", "&", "self", "v2", "v1", "as", "u32"] := by decide +kernel

/-- src/format/parsed.rs:fn set_month -/
theorem src_format_parsed_rs_fn_set_month : C14_src_format_parsed_rs_fn_set_month =
    ["&", "self", "v1", "i64", "->", "ParseResult", "<", ">", "if!(", "1", "..=", "12", "contains(", "&", "v1", "return", "Err(", "OUT_OF_RANGE", "set_if_consistent(", "&", "self", "v2", "v1", "as", "u32"] := by decide +kernel

/-- src/format/parsed.rs:fn set_nanosecond -/
theorem src_format_parsed_rs_fn_set_nanosecond : C14_src_format_parsed_rs_fn_set_nanosecond =
    ["&", "self", "v1", "i64", "->", "ParseResult", "<", ">", "if!(", "0", "..=", "999999999", "contains(", "&", "v1", "return", "Err(", "OUT_OF_RANGE", "set_if_consistent(", "&", "self", "v2", "v1", "as", "u32"] := by decide +kernel

/-- src/format/parsed.rs:fn set_offset -/
theorem src_format_parsed_rs_fn_set_offset : C14_src_format_parsed_rs_fn_set_offset =
    ["&", "self", "v1", "i64", "->", "ParseResult", "<", ">", "set_if_consistent(", "&", "self", "v2", "i32", "try_from(", "v1", "map_err(", "|", "v3", "|", "OUT_OF_RANGE", "?"] := by decide +kernel

/-- src/format/parsed.rs:fn set_ordinal -/
theorem src_format_parsed_rs_fn_set_ordinal : C14_src_format_parsed_rs_fn_set_ordinal =
    ["&", "self", "v1", "i64", "->", "ParseResult", "<", ">", "if!(", "1", "..=", "366", "contains(", "&", "v1", "return", "Err(", "OUT_OF_RANGE", "set_if_consistent(", "&", "self", "v2", "v1", "as", "u32"] := by decide +kernel

/-- src/format/parsed.rs:fn set_quarter -/
theorem src_format_parsed_rs_fn_set_quarter : C14_src_format_parsed_rs_fn_set_quarter =
    ["&", "self", "v1", "i64", "->", "ParseResult", "<", ">", "if!(", "1", "..=", "4", "contains(", "&", "v1", "return", "Err(", "OUT_OF_RANGE", "set_if_consistent(", "&", "self", "v2", "v1", "as", "u32"] := by decide +kernel

/-- src/format/parsed.rs:fn set_second -/
theorem src_format_parsed_rs_fn_set_second : C14_src_format_parsed_rs_fn_set_second =
    ["&", "self", "v1", "i64", "->", "ParseResult", "<", ">", "if!(", "0", "..=", "60", "contains(", "&", "v1", "return", "Err(", "OUT_OF_RANGE", "set_if_consistent(", "&", "self", "v2", "v1", "as", "u32"] := by decide +kernel

/-- src/format/parsed.rs:fn set_timestamp -/
theorem src_format_parsed_rs_fn_set_timestamp : C14_src_format_parsed_rs_fn_set_timestamp =
    ["&", "self", "v1", "i64", "->", "ParseResult", "<", ">", "set_if_consistent(", "&", "self", "v2", "v1"] := by decide +kernel

/-- src/format/parsed.rs:fn set_week_from_mon -/
theorem src_format_parsed_rs_fn_set_week_from_mon : C14_src_format_parsed_rs_fn_set_week_from_mon =
    ["&", "self", "v1", "i64", "->", "ParseResult", "<", ">", "if!(", "0", "..=", "53", "contains(", "&", "v1", "return", "Err(", "OUT_OF_RANGE", "set_if_consistent(", "&", "self", "v2", "v1", "as", "u32"] := by decide +kernel

/-- src/format/parsed.rs:fn set_week_from_sun -/
theorem src_format_parsed_rs_fn_set_week_from_sun : C14_src_format_parsed_rs_fn_set_week_from_sun =
    ["&", "self", "v1", "i64", "->", "ParseResult", "<", ">", "if!(", "0", "..=", "53", "contains(", "&", "v1", "return", "Err(", "OUT_OF_RANGE", "set_if_consistent(", "&", "self", "v2", "v1", "as", "u32"] := by decide +kernel

/-- src/format/parsed.rs:fn set_weekday -/
theorem src_format_parsed_rs_fn_set_weekday : C14_src_format_parsed_rs_fn_set_weekday =
    ["&", "self", "v1", "Weekday", "->", "ParseResult", "<", ">", "set_if_consistent(", "&", "self", "v2", "v1"] := by decide +kernel

/-- src/format/parsed.rs:fn set_year -/
theorem src_format_parsed_rs_fn_set_year : C14_src_format_parsed_rs_fn_set_year =
    ["&", "self", "v1", "i64", "->", "ParseResult", "<", ">", "set_if_consistent(", "&", "self", "v2", "i32", "try_from(", "v1", "map_err(", "|", "v3", "|", "OUT_OF_RANGE", "?"] := by decide +kernel

/-- src/format/parsed.rs:fn set_year_div_100 -/
theorem src_format_parsed_rs_fn_set_year_div_100 : C14_src_format_parsed_rs_fn_set_year_div_100 =
    ["&", "self", "v1", "i64", "->", "ParseResult", "<", ">", "if!(", "0", "..=", "i32", "MAX", "as", "i64", "contains(", "&", "v1", "return", "Err(", "OUT_OF_RANGE", "set_if_consistent(", "&", "self", "v2", "v1", "as", "i32"] := by decide +kernel

/-- src/format/parsed.rs:fn set_year_mod_100 -/
theorem src_format_parsed_rs_fn_set_year_mod_100 : C14_src_format_parsed_rs_fn_set_year_mod_100 =
    ["&", "self", "v1", "i64", "->", "ParseResult", "<", ">", "if!(", "0", "..", "contains(", "&", "v1", "return", "Err(", "OUT_OF_RANGE", "set_if_consistent(", "&", "self", "v2", "v1", "as", "i32"] := by decide +kernel

/-- src/format/parsed.rs:fn to_datetime -/
theorem src_format_parsed_rs_fn_to_datetime : C14_src_format_parsed_rs_fn_to_datetime =
    ["&", "self", "->", "ParseResult", "<", "DateTime", "<", "FixedOffset", ">>", "v1", "match(", "self", "v1", "self", "v2", "Some(", "v3", "v4", "=>", "v3", "None", "Some(", "v4", "=>", "0", "None", "None", "=>", "return", "Err(", "NOT_ENOUGH", "v5", "self", "to_naive_datetime_with_offset(", "v1", "?", "v1", "FixedOffset", "east_opt(", "v1", "ok_or(", "OUT_OF_RANGE", "?", "match", "v1", "from_local_datetime(", "&", "v5", "MappedLocalTime", "None", "=>", "Err(", "IMPOSSIBLE", "MappedLocalTime", "Single(", "v6", "=>", "Ok(", "v6", "MappedLocalTime", "Ambiguous(", "..", "=>", "Err(", "NOT_ENOUGH"] := by decide +kernel

/-- src/format/parsed.rs:fn to_datetime_with_timezone -/
theorem src_format_parsed_rs_fn_to_datetime_with_timezone : C14_src_format_parsed_rs_fn_to_datetime_with_timezone =
    ["<", "Tz", "TimeZone", ">", "&", "self", "v1", "&", "Tz", "->", "ParseResult", "<", "DateTime", "<", "Tz", ">>", "v2", "0", "if", "Some(", "v3", "self", "v3", "v4", "self", "v4", "unwrap_or(", "0", "v5", "DateTime", "from_timestamp(", "v3", "v4", "ok_or(", "OUT_OF_RANGE", "?", "naive_utc(", "v2", "v1", "offset_from_utc_datetime(", "&", "v5", "fix(", "local_minus_utc(", "v6", "|", "v5", "&", "DateTime", "<", "Tz", ">", "|", "if", "Some(", "v7", "self", "v7", "if", "v5", "offset(", "fix(", "local_minus_utc(", "!=", "v7", "return", "false", "if", "Some(", "v8", "self", "v3", "v3", "v5", "timestamp(", "if", "v8", "!=", "v3", "&&", "!", "v5", "nanosecond(", ">=", "1000000000", "&&", "v8", "==", "v3", "+", "1", "return", "false", "true", "v9", "self", "to_naive_datetime_with_offset(", "v2", "?", "match", "v1", "from_local_datetime(", "&", "v9", "MappedLocalTime", "None", "=>", "Err(", "IMPOSSIBLE", "MappedLocalTime", "Single(", "v10", "=>", "if", "check_offset(", "&", "v10", "Ok(", "v10", "else", "Err(", "IMPOSSIBLE", "MappedLocalTime", "Ambiguous(", "v11", "v12", "=>", "match(", "check_offset(", "&", "v11", "check_offset(", "&", "v12", "false", "false", "=>", "Err(", "IMPOSSIBLE", "false", "true", "=>", "Ok(", "v12", "true", "false", "=>", "Ok(", "v11", "true", "true", "=>", "Err(", "NOT_ENOUGH"] := by decide +kernel

/-- src/format/parsed.rs:fn to_fixed_offset -/
theorem src_format_parsed_rs_fn_to_fixed_offset : C14_src_format_parsed_rs_fn_to_fixed_offset =
    ["&", "self", "->", "ParseResult", "<", "FixedOffset", ">", "FixedOffset", "east_opt(", "self", "v1", "ok_or(", "NOT_ENOUGH", "?", "ok_or(", "OUT_OF_RANGE"] := by decide +kernel

/-- src/format/parsed.rs:fn to_naive_date -/
theorem src_format_parsed_rs_fn_to_naive_date : C14_src_format_parsed_rs_fn_to_naive_date =
    ["&", "self", "->", "ParseResult", "<", "NaiveDate", ">", "resolve_year(", "v1", "Option", "<", "i32", ">", "v2", "Option", "<", "i32", ">", "v3", "Option", "<", "i32", ">", "->", "ParseResult", "<", "Option", "<", "i32", ">>", "match(", "v1", "v2", "v3", "v1", "None", "None", "=>", "Ok(", "v1", "Some(", "v1", "v2", "v3", "Some(", "0", "..=", "99", "|", "Some(", "v1", "v2", "v3", "None", "=>", "if", "v1", "<", "0", "return", "Err(", "IMPOSSIBLE", "v4", "v1", "/", "100", "v5", "v1", "%", "100", "if", "v2", "unwrap_or(", "v4", "==", "v4", "&&", "v3", "unwrap_or(", "v5", "==", "v5", "Ok(", "Some(", "v1", "else", "Err(", "IMPOSSIBLE", "None", "Some(", "v2", "Some(", "v3", "0", "..=", "99", "=>", "if", "v2", "<", "0", "return", "Err(", "IMPOSSIBLE", "v1", "v2", "checked_mul(", "100", "and_then(", "|", "v6", "|", "v6", "checked_add(", "v3", "Ok(", "Some(", "v1", "ok_or(", "OUT_OF_RANGE", "?", "None", "None", "Some(", "v3", "0", "..=", "99", "=>", "Ok(", "Some(", "v3", "+", "if", "v3", "<", "70", "2000", "else", "1900", "None", "Some(", "v7", "None", "=>", "Err(", "NOT_ENOUGH", "v7", "v7", "Some(", "v7", "=>", "Err(", "OUT_OF_RANGE", "v8", "resolve_year(", "self", "v9", "self", "v10", "self", "v11", "?", "v12", "resolve_year(", "self", "v13", "self", "v14", "self", "v15", "?", "v16", "|", "v17", "NaiveDate", "|", "v9", "v17", "year(", "let(", "v10", "v11", "if", "v9", ">=", "0", "Some(", "v9", "/", "100", "Some(", "v9", "%", "100", "else", "None", "None", "v18", "v17", "month(", "v19", "v17", "day(", "self", "v9", "unwrap_or(", "v9", "==", "v9", "&&", "self", "v10", "or(", "v10", "==", "v10", "&&", "self", "v11", "or(", "v11", "==", "v11", "&&", "self", "v18", "unwrap_or(", "v18", "==", "v18", "&&", "self", "v19", "unwrap_or(", "v19", "==", "v19", "v20", "|", "v17", "NaiveDate", "|", "v21", "v17", "iso_week(", "v13", "v21", "year(", "v22", "v21", "week(", "v23", "v17", "weekday(", "let(", "v14", "v15", "if", "v13", ">=", "0", "Some(", "v13", "/", "100", "Some(", "v13", "%", "100", "else", "None", "None", "self", "v13", "unwrap_or(", "v13", "==", "v13", "&&", "self", "v14", "or(", "v14", "==", "v14", "&&", "self", "v15", "or(", "v15", "==", "v15", "&&", "self", "v22", "unwrap_or(", "v22", "==", "v22", "&&", "self", "v23", "unwrap_or(", "v23", "==", "v23", "v24", "|", "v17", "NaiveDate", "|", "v25", "v17", "ordinal(", "v26", "v17", "weeks_from(", "Weekday", "Sun", "v27", "v17", "weeks_from(", "Weekday", "Mon", "self", "v25", "unwrap_or(", "v25", "==", "v25", "&&", "self", "v26", "map_or(", "v26", "|", "v6", "|", "v6", "as", "i32", "==", "v26", "&&", "self", "v27", "map_or(", "v27", "|", "v6", "|", "v6", "as", "i32", "==", "v27", "let(", "v28", "v29", "match(", "v8", "v12", "self", "Some(", "v9", "v7", "&", "Parsed", "v18", "Some(", "v18", "v19", "Some(", "v19", "..", "=>", "v17", "NaiveDate", "from_ymd_opt(", "v9", "v18", "v19", "ok_or(", "OUT_OF_RANGE", "?", "verify_isoweekdate(", "v17", "&&", "verify_ordinal(", "v17", "v17", "Some(", "v9", "v7", "&", "Parsed", "v25", "Some(", "v25", "..", "=>", "v17", "NaiveDate", "from_yo_opt(", "v9", "v25", "ok_or(", "OUT_OF_RANGE", "?", "verify_ymd(", "v17", "&&", "verify_isoweekdate(", "v17", "&&", "verify_ordinal(", "v17", "v17", "Some(", "v9", "v7", "&", "Parsed", "v26", "Some(", "v21", "v23", "Some(", "v23", "..", "=>", "v17", "resolve_week_date(", "v9", "v21", "v23", "Weekday", "Sun", "?", "verify_ymd(", "v17", "&&", "verify_isoweekdate(", "v17", "&&", "verify_ordinal(", "v17", "v17", "Some(", "v9", "v7", "&", "Parsed", "v27", "Some(", "v21", "v23", "Some(", "v23", "..", "=>", "v17", "resolve_week_date(", "v9", "v21", "v23", "Weekday", "Mon", "?", "verify_ymd(", "v17", "&&", "verify_isoweekdate(", "v17", "&&", "verify_ordinal(", "v17", "v17", "v7", "Some(", "v13", "&", "Parsed", "v22", "Some(", "v22", "v23", "Some(", "v23", "..", "=>", "v17", "NaiveDate", "from_isoywd_opt(", "v13", "v22", "v23", "v17", "v17", "ok_or(", "OUT_OF_RANGE", "?", "verify_ymd(", "v17", "&&", "verify_ordinal(", "v17", "v17", "v7", "v7", "v7", "=>", "return", "Err(", "NOT_ENOUGH", "if", "!", "v28", "return", "Err(", "IMPOSSIBLE", "else", "if", "Some(", "v30", "self", "v31", "if", "v30", "!=", "v29", "quarter(", "return", "Err(", "IMPOSSIBLE", "Ok(", "v29"] := by decide +kernel

/-- src/format/parsed.rs:fn to_naive_datetime_with_offset -/
theorem src_format_parsed_rs_fn_to_naive_datetime_with_offset : C14_src_format_parsed_rs_fn_to_naive_datetime_with_offset =
    ["&", "self", "v1", "i32", "->", "ParseResult", "<", "NaiveDateTime", ">", "v2", "self", "to_naive_date(", "v3", "self", "to_naive_time(", "if", "let(", "Ok(", "v2", "Ok(", "v3", "v2", "v3", "v4", "v2", "and_time(", "v3", "v5", "v4", "and_utc(", "timestamp(", "-", "i64", "from(", "v1", "if", "Some(", "v6", "self", "v5", "if", "v6", "!=", "v5", "&&", "!", "v4", "nanosecond(", ">=", "1000000000", "&&", "v6", "==", "v5", "+", "1", "return", "Err(", "IMPOSSIBLE", "Ok(", "v4", "else", "if", "Some(", "v5", "self", "v5", "ParseError", "as", "PE", "ParseErrorKind", "Impossible", "OutOfRange", "match(", "v2", "v3", "Err(", "PE(", "OutOfRange", "v7", "|", "v7", "Err(", "PE(", "OutOfRange", "=>", "return", "Err(", "OUT_OF_RANGE", "Err(", "PE(", "Impossible", "v7", "|", "v7", "Err(", "PE(", "Impossible", "=>", "return", "Err(", "IMPOSSIBLE", "v7", "v7", "=>", "v8", "v5", "checked_add(", "i64", "from(", "v1", "ok_or(", "OUT_OF_RANGE", "?", "v4", "DateTime", "from_timestamp(", "v8", "0", "ok_or(", "OUT_OF_RANGE", "?", "naive_utc(", "v9", "self", "clone(", "if", "v9", "v10", "==", "Some(", "60", "match", "v4", "second(", "59", "=>", "0", "=>", "v4", "v4", "checked_sub_signed(", "TimeDelta", "try_seconds(", "1", "unwrap(", "ok_or(", "OUT_OF_RANGE", "?", "v7", "=>", "return", "Err(", "IMPOSSIBLE", "else", "v9", "set_second(", "i64", "from(", "v4", "second(", "?", "v9", "set_year(", "i64", "from(", "v4", "year(", "?", "v9", "set_ordinal(", "i64", "from(", "v4", "ordinal(", "?", "v9", "set_hour(", "i64", "from(", "v4", "hour(", "?", "v9", "set_minute(", "i64", "from(", "v4", "minute(", "?", "v2", "v9", "to_naive_date(", "?", "v3", "v9", "to_naive_time(", "?", "Ok(", "v2", "and_time(", "v3", "else", "v2", "?", "v3", "?", "unreachable!("] := by decide +kernel

/-- src/format/parsed.rs:fn to_naive_time -/
theorem src_format_parsed_rs_fn_to_naive_time : C14_src_format_parsed_rs_fn_to_naive_time =
    ["&", "self", "->", "ParseResult", "<", "NaiveTime", ">", "v1", "match", "self", "v1", "Some(", "v2", "0", "..=", "1", "=>", "v2", "Some(", "v3", "=>", "return", "Err(", "OUT_OF_RANGE", "None", "=>", "return", "Err(", "NOT_ENOUGH", "v4", "match", "self", "v4", "Some(", "v2", "0", "..=", "11", "=>", "v2", "Some(", "v3", "=>", "return", "Err(", "OUT_OF_RANGE", "None", "=>", "return", "Err(", "NOT_ENOUGH", "v5", "v1", "*", "12", "+", "v4", "v6", "match", "self", "v6", "Some(", "v2", "0", "..=", "59", "=>", "v2", "Some(", "v3", "=>", "return", "Err(", "OUT_OF_RANGE", "None", "=>", "return", "Err(", "NOT_ENOUGH", "let(", "v7", "v8", "match", "self", "v7", "unwrap_or(", "0", "v2", "0", "..=", "59", "=>", "v2", "0", "60", "=>", "59", "1000000000", "v3", "=>", "return", "Err(", "OUT_OF_RANGE", "v8", "+=", "match", "self", "v9", "Some(", "v2", "0", "..=", "999999999", "if", "self", "v7", "is_some(", "=>", "v2", "Some(", "0", "..=", "999999999", "=>", "return", "Err(", "NOT_ENOUGH", "Some(", "v3", "=>", "return", "Err(", "OUT_OF_RANGE", "None", "=>", "0", "NaiveTime", "from_hms_nano_opt(", "v5", "v6", "v7", "v8", "ok_or(", "OUT_OF_RANGE"] := by decide +kernel

end Chrono.Pins.C14
