/-
  PINS of property C14: the decision tokens of every item the property is anchored in
  (properties.jsonl `anchors` + tools/anchor_extra.json), as they were in /repo at 770977e when the
  model was validated against the source.  Written by tools/pin_anchors.py; the right-hand sides are
  compared by the kernel with lean/Chrono/Extracted/Anchors.lean, which tools/extractors/anchors.py
  regenerates from /repo's working tree on every check.  A theorem that fails here means: anchored
  code changed; the hand-written model may no longer mirror it.
-/
import Chrono.Extracted.Anchors
namespace Chrono.Pins.C14
open Chrono.Extracted.Anchors

/-- src/datetime/mod.rs:fn from_timestamp -/
theorem src_datetime_mod_rs_fn_from_timestamp : C14_src_datetime_mod_rs_fn_from_timestamp =
    ["v1", "i64", "v2", "u32", "->", "Option", "<", "Self", ">", "v3", "v1", "div_euclid(", "86400", "+", "UNIX_EPOCH_DAY", "v1", "v1", "rem_euclid(", "86400", "if", "v3", "<", "i32", "MIN", "as", "i64", "||", "v3", ">", "i32", "MAX", "as", "i64", "return", "None", "v4", "try_opt!(", "NaiveDate", "from_num_days_from_ce_opt(", "v3", "as", "i32", "v5", "try_opt!(", "NaiveTime", "from_num_seconds_from_midnight_opt(", "v1", "as", "u32", "v2", "Some(", "v4", "and_time(", "v5", "and_utc("] := by decide +kernel

/-- src/format/parsed.rs:fn resolve_week_date -/
theorem src_format_parsed_rs_fn_resolve_week_date : C14_src_format_parsed_rs_fn_resolve_week_date =
    ["v1", "i32", "v2", "u32", "v3", "Weekday", "v4", "Weekday", "->", "ParseResult", "<", "NaiveDate", ">", "if", "v2", ">", "53", "return", "Err(", "OUT_OF_RANGE", "v5", "NaiveDate", "from_yo_opt(", "v1", "1", "ok_or(", "OUT_OF_RANGE", "?", "v6", "1", "+", "v4", "days_since(", "v5", "weekday(", "as", "i32", "v3", "v3", "days_since(", "v4", "as", "i32", "v7", "v6", "+", "v2", "as", "i32", "-", "1", "*", "7", "+", "v3", "if", "v7", "<=", "0", "return", "Err(", "IMPOSSIBLE", "v5", "with_ordinal(", "v7", "as", "u32", "ok_or(", "IMPOSSIBLE"] := by decide +kernel

/-- src/format/parsed.rs:fn resolve_year -/
theorem src_format_parsed_rs_fn_resolve_year : C14_src_format_parsed_rs_fn_resolve_year =
    ["v1", "Option", "<", "i32", ">", "v2", "Option", "<", "i32", ">", "v3", "Option", "<", "i32", ">", "->", "ParseResult", "<", "Option", "<", "i32", ">>", "match(", "v1", "v2", "v3", "v1", "None", "None", "=>", "Ok(", "v1", "Some(", "v1", "v2", "v3", "Some(", "0", "..=", "99", "|", "Some(", "v1", "v2", "v3", "None", "=>", "if", "v1", "<", "0", "return", "Err(", "IMPOSSIBLE", "v4", "v1", "/", "100", "v5", "v1", "%", "100", "if", "v2", "unwrap_or(", "v4", "==", "v4", "&&", "v3", "unwrap_or(", "v5", "==", "v5", "Ok(", "Some(", "v1", "else", "Err(", "IMPOSSIBLE", "None", "Some(", "v2", "Some(", "v3", "0", "..=", "99", "=>", "if", "v2", "<", "0", "return", "Err(", "IMPOSSIBLE", "v1", "v2", "checked_mul(", "100", "and_then(", "|", "v6", "|", "v6", "checked_add(", "v3", "Ok(", "Some(", "v1", "ok_or(", "OUT_OF_RANGE", "?", "None", "None", "Some(", "v3", "0", "..=", "99", "=>", "Ok(", "Some(", "v3", "+", "if", "v3", "<", "70", "2000", "else", "1900", "None", "Some(", "v7", "None", "=>", "Err(", "NOT_ENOUGH", "v7", "v7", "Some(", "v7", "=>", "Err(", "OUT_OF_RANGE"] := by decide +kernel

/-- src/format/parsed.rs:fn set_ampm -/
theorem src_format_parsed_rs_fn_set_ampm : C14_src_format_parsed_rs_fn_set_ampm =
    ["&", "self", "v1", "bool", "->", "ParseResult", "<", ">", "set_if_consistent(", "&", "self", "v2", "v1", "as", "u32"] := by decide +kernel

/-- src/format/parsed.rs:fn set_day -/
theorem src_format_parsed_rs_fn_set_day : C14_src_format_parsed_rs_fn_set_day =
    ["&", "self", "v1", "i64", "->", "ParseResult", "<", ">", "if!(", "1", "..=", "31", "contains(", "&", "v1", "return", "Err(", "OUT_OF_RANGE", "set_if_consistent(", "&", "self", "v2", "v1", "as", "u32"] := by decide +kernel

/-- src/format/parsed.rs:fn set_hour -/
theorem src_format_parsed_rs_fn_set_hour : C14_src_format_parsed_rs_fn_set_hour =
    ["&", "self", "v1", "i64", "->", "ParseResult", "<", ">", "let(", "v2", "v3", "match", "v1", "v4", "0", "..=", "11", "=>", "0", "v4", "as", "u32", "v4", "12", "..=", "23", "=>", "1", "v4", "as", "u32", "-", "12", "v5", "=>", "return", "Err(", "OUT_OF_RANGE", "set_if_consistent(", "&", "self", "v2", "v2", "?", "set_if_consistent(", "&", "self", "v3", "v3"] := by decide +kernel

/-- src/format/parsed.rs:fn set_hour12 -/
theorem src_format_parsed_rs_fn_set_hour12 : C14_src_format_parsed_rs_fn_set_hour12 =
    ["&", "self", "v1", "i64", "->", "ParseResult", "<", ">", "if!(", "1", "..=", "12", "contains(", "&", "v1", "return", "Err(", "OUT_OF_RANGE", "if", "v1", "==", "12", "v1", "0", "set_if_consistent(", "&", "self", "v2", "v1", "as", "u32"] := by decide +kernel

/-- src/format/parsed.rs:fn set_if_consistent -/
theorem src_format_parsed_rs_fn_set_if_consistent : C14_src_format_parsed_rs_fn_set_if_consistent =
    ["<", "T", "PartialEq", ">", "v1", "&", "Option", "<", "T", ">", "v2", "T", "->", "ParseResult", "<", ">", "match", "v1", "Some(", "v1", "if", "*", "v1", "!=", "v2", "=>", "Err(", "IMPOSSIBLE", "v3", "=>", "*", "v1", "Some(", "v2", "Ok("] := by decide +kernel

/-- src/format/parsed.rs:fn set_isoweek -/
theorem src_format_parsed_rs_fn_set_isoweek : C14_src_format_parsed_rs_fn_set_isoweek =
    ["&", "self", "v1", "i64", "->", "ParseResult", "<", ">", "if!(", "1", "..=", "53", "contains(", "&", "v1", "return", "Err(", "OUT_OF_RANGE", "set_if_consistent(", "&", "self", "v2", "v1", "as", "u32"] := by decide +kernel

/-- src/format/parsed.rs:fn set_isoyear -/
theorem src_format_parsed_rs_fn_set_isoyear : C14_src_format_parsed_rs_fn_set_isoyear =
    ["&", "self", "v1", "i64", "->", "ParseResult", "<", ">", "set_if_consistent(", "&", "self", "v2", "i32", "try_from(", "v1", "map_err(", "|", "v3", "|", "OUT_OF_RANGE", "?"] := by decide +kernel

/-- src/format/parsed.rs:fn set_isoyear_div_100 -/
theorem src_format_parsed_rs_fn_set_isoyear_div_100 : C14_src_format_parsed_rs_fn_set_isoyear_div_100 =
    ["&", "self", "v1", "i64", "->", "ParseResult", "<", ">", "if!(", "0", "..=", "i32", "MAX", "as", "i64", "contains(", "&", "v1", "return", "Err(", "OUT_OF_RANGE", "set_if_consistent(", "&", "self", "v2", "v1", "as", "i32"] := by decide +kernel

/-- src/format/parsed.rs:fn set_isoyear_mod_100 -/
theorem src_format_parsed_rs_fn_set_isoyear_mod_100 : C14_src_format_parsed_rs_fn_set_isoyear_mod_100 =
    ["&", "self", "v1", "i64", "->", "ParseResult", "<", ">", "if!(", "0", "..", "contains(", "&", "v1", "return", "Err(", "OUT_OF_RANGE", "set_if_consistent(", "&", "self", "v2", "v1", "as", "i32"] := by decide +kernel

/-- src/format/parsed.rs:fn set_minute -/
theorem src_format_parsed_rs_fn_set_minute : C14_src_format_parsed_rs_fn_set_minute =
    ["&", "self", "v1", "i64", "->", "ParseResult", "<", ">", "if!(", "0", "..=", "59", "contains(", "&", "v1", "return", "Err(", "OUT_OF_RANGE", "set_if_consistent(", "&", "self", "v2", "v1", "as", "u32"] := by decide +kernel

/-- src/format/parsed.rs:fn set_month -/
theorem src_format_parsed_rs_fn_set_month : C14_src_format_parsed_rs_fn_set_month =
    ["&", "self", "v1", "i64", "->", "ParseResult", "<", ">", "if!(", "1", "..=", "12", "contains(", "&", "v1", "return", "Err(", "OUT_OF_RANGE", "set_if_consistent(", "&", "self", "v2", "v1", "as", "u32"] := by decide +kernel

/-- src/format/parsed.rs:fn set_nanosecond -/
theorem src_format_parsed_rs_fn_set_nanosecond : C14_src_format_parsed_rs_fn_set_nanosecond =
    ["&", "self", "v1", "i64", "->", "ParseResult", "<", ">", "if!(", "0", "..=", "999999999", "contains(", "&", "v1", "return", "Err(", "OUT_OF_RANGE", "set_if_consistent(", "&", "self", "v2", "v1", "as", "u32"] := by decide +kernel

/-- src/format/parsed.rs:fn set_offset -/
theorem src_format_parsed_rs_fn_set_offset : C14_src_format_parsed_rs_fn_set_offset =
    ["&", "self", "v1", "i64", "->", "ParseResult", "<", ">", "set_if_consistent(", "&", "self", "v2", "i32", "try_from(", "v1", "map_err(", "|", "v3", "|", "OUT_OF_RANGE", "?"] := by decide +kernel

/-- src/format/parsed.rs:fn set_ordinal -/
theorem src_format_parsed_rs_fn_set_ordinal : C14_src_format_parsed_rs_fn_set_ordinal =
    ["&", "self", "v1", "i64", "->", "ParseResult", "<", ">", "if!(", "1", "..=", "366", "contains(", "&", "v1", "return", "Err(", "OUT_OF_RANGE", "set_if_consistent(", "&", "self", "v2", "v1", "as", "u32"] := by decide +kernel

/-- src/format/parsed.rs:fn set_quarter -/
theorem src_format_parsed_rs_fn_set_quarter : C14_src_format_parsed_rs_fn_set_quarter =
    ["&", "self", "v1", "i64", "->", "ParseResult", "<", ">", "if!(", "1", "..=", "4", "contains(", "&", "v1", "return", "Err(", "OUT_OF_RANGE", "set_if_consistent(", "&", "self", "v2", "v1", "as", "u32"] := by decide +kernel

/-- src/format/parsed.rs:fn set_second -/
theorem src_format_parsed_rs_fn_set_second : C14_src_format_parsed_rs_fn_set_second =
    ["&", "self", "v1", "i64", "->", "ParseResult", "<", ">", "if!(", "0", "..=", "60", "contains(", "&", "v1", "return", "Err(", "OUT_OF_RANGE", "set_if_consistent(", "&", "self", "v2", "v1", "as", "u32"] := by decide +kernel

/-- src/format/parsed.rs:fn set_timestamp -/
theorem src_format_parsed_rs_fn_set_timestamp : C14_src_format_parsed_rs_fn_set_timestamp =
    ["&", "self", "v1", "i64", "->", "ParseResult", "<", ">", "set_if_consistent(", "&", "self", "v2", "v1"] := by decide +kernel

/-- src/format/parsed.rs:fn set_week_from_mon -/
theorem src_format_parsed_rs_fn_set_week_from_mon : C14_src_format_parsed_rs_fn_set_week_from_mon =
    ["&", "self", "v1", "i64", "->", "ParseResult", "<", ">", "if!(", "0", "..=", "53", "contains(", "&", "v1", "return", "Err(", "OUT_OF_RANGE", "set_if_consistent(", "&", "self", "v2", "v1", "as", "u32"] := by decide +kernel

/-- src/format/parsed.rs:fn set_week_from_sun -/
theorem src_format_parsed_rs_fn_set_week_from_sun : C14_src_format_parsed_rs_fn_set_week_from_sun =
    ["&", "self", "v1", "i64", "->", "ParseResult", "<", ">", "if!(", "0", "..=", "53", "contains(", "&", "v1", "return", "Err(", "OUT_OF_RANGE", "set_if_consistent(", "&", "self", "v2", "v1", "as", "u32"] := by decide +kernel

/-- src/format/parsed.rs:fn set_weekday -/
theorem src_format_parsed_rs_fn_set_weekday : C14_src_format_parsed_rs_fn_set_weekday =
    ["&", "self", "v1", "Weekday", "->", "ParseResult", "<", ">", "set_if_consistent(", "&", "self", "v2", "v1"] := by decide +kernel

/-- src/format/parsed.rs:fn set_year -/
theorem src_format_parsed_rs_fn_set_year : C14_src_format_parsed_rs_fn_set_year =
    ["&", "self", "v1", "i64", "->", "ParseResult", "<", ">", "set_if_consistent(", "&", "self", "v2", "i32", "try_from(", "v1", "map_err(", "|", "v3", "|", "OUT_OF_RANGE", "?"] := by decide +kernel

/-- src/format/parsed.rs:fn set_year_div_100 -/
theorem src_format_parsed_rs_fn_set_year_div_100 : C14_src_format_parsed_rs_fn_set_year_div_100 =
    ["&", "self", "v1", "i64", "->", "ParseResult", "<", ">", "if!(", "0", "..=", "i32", "MAX", "as", "i64", "contains(", "&", "v1", "return", "Err(", "OUT_OF_RANGE", "set_if_consistent(", "&", "self", "v2", "v1", "as", "i32"] := by decide +kernel

/-- src/format/parsed.rs:fn set_year_mod_100 -/
theorem src_format_parsed_rs_fn_set_year_mod_100 : C14_src_format_parsed_rs_fn_set_year_mod_100 =
    ["&", "self", "v1", "i64", "->", "ParseResult", "<", ">", "if!(", "0", "..", "contains(", "&", "v1", "return", "Err(", "OUT_OF_RANGE", "set_if_consistent(", "&", "self", "v2", "v1", "as", "i32"] := by decide +kernel

/-- src/format/parsed.rs:fn to_datetime -/
theorem src_format_parsed_rs_fn_to_datetime : C14_src_format_parsed_rs_fn_to_datetime =
    ["&", "self", "->", "ParseResult", "<", "DateTime", "<", "FixedOffset", ">>", "v1", "match(", "self", "v1", "self", "v2", "Some(", "v3", "v4", "=>", "v3", "None", "Some(", "v4", "=>", "0", "None", "None", "=>", "return", "Err(", "NOT_ENOUGH", "v5", "self", "to_naive_datetime_with_offset(", "v1", "?", "v1", "FixedOffset", "east_opt(", "v1", "ok_or(", "OUT_OF_RANGE", "?", "match", "v1", "from_local_datetime(", "&", "v5", "MappedLocalTime", "None", "=>", "Err(", "IMPOSSIBLE", "MappedLocalTime", "Single(", "v6", "=>", "Ok(", "v6", "MappedLocalTime", "Ambiguous(", "..", "=>", "Err(", "NOT_ENOUGH"] := by decide +kernel

/-- src/format/parsed.rs:fn to_datetime_with_timezone -/
theorem src_format_parsed_rs_fn_to_datetime_with_timezone : C14_src_format_parsed_rs_fn_to_datetime_with_timezone =
    ["<", "Tz", "TimeZone", ">", "&", "self", "v1", "&", "Tz", "->", "ParseResult", "<", "DateTime", "<", "Tz", ">>", "v2", "0", "if", "Some(", "v3", "self", "v3", "v4", "self", "v4", "unwrap_or(", "0", "v5", "DateTime", "from_timestamp(", "v3", "v4", "ok_or(", "OUT_OF_RANGE", "?", "naive_utc(", "v2", "v1", "offset_from_utc_datetime(", "&", "v5", "fix(", "local_minus_utc(", "v6", "|", "v5", "&", "DateTime", "<", "Tz", ">", "|", "if", "Some(", "v7", "self", "v7", "if", "v5", "offset(", "fix(", "local_minus_utc(", "!=", "v7", "return", "false", "if", "Some(", "v8", "self", "v3", "v3", "v5", "timestamp(", "if", "v8", "!=", "v3", "&&", "!", "v5", "nanosecond(", ">=", "1000000000", "&&", "v8", "==", "v3", "+", "1", "return", "false", "true", "v9", "self", "to_naive_datetime_with_offset(", "v2", "?", "match", "v1", "from_local_datetime(", "&", "v9", "MappedLocalTime", "None", "=>", "Err(", "IMPOSSIBLE", "MappedLocalTime", "Single(", "v10", "=>", "if", "check_offset(", "&", "v10", "Ok(", "v10", "else", "Err(", "IMPOSSIBLE", "MappedLocalTime", "Ambiguous(", "v11", "v12", "=>", "match(", "check_offset(", "&", "v11", "check_offset(", "&", "v12", "false", "false", "=>", "Err(", "IMPOSSIBLE", "false", "true", "=>", "Ok(", "v12", "true", "false", "=>", "Ok(", "v11", "true", "true", "=>", "Err(", "NOT_ENOUGH"] := by decide +kernel

/-- src/format/parsed.rs:fn to_fixed_offset -/
theorem src_format_parsed_rs_fn_to_fixed_offset : C14_src_format_parsed_rs_fn_to_fixed_offset =
    ["&", "self", "->", "ParseResult", "<", "FixedOffset", ">", "FixedOffset", "east_opt(", "self", "v1", "ok_or(", "NOT_ENOUGH", "?", "ok_or(", "OUT_OF_RANGE"] := by decide +kernel

/-- src/format/parsed.rs:fn to_naive_date -/
theorem src_format_parsed_rs_fn_to_naive_date : C14_src_format_parsed_rs_fn_to_naive_date =
    ["&", "self", "->", "ParseResult", "<", "NaiveDate", ">", "resolve_year(", "v1", "Option", "<", "i32", ">", "v2", "Option", "<", "i32", ">", "v3", "Option", "<", "i32", ">", "->", "ParseResult", "<", "Option", "<", "i32", ">>", "match(", "v1", "v2", "v3", "v1", "None", "None", "=>", "Ok(", "v1", "Some(", "v1", "v2", "v3", "Some(", "0", "..=", "99", "|", "Some(", "v1", "v2", "v3", "None", "=>", "if", "v1", "<", "0", "return", "Err(", "IMPOSSIBLE", "v4", "v1", "/", "100", "v5", "v1", "%", "100", "if", "v2", "unwrap_or(", "v4", "==", "v4", "&&", "v3", "unwrap_or(", "v5", "==", "v5", "Ok(", "Some(", "v1", "else", "Err(", "IMPOSSIBLE", "None", "Some(", "v2", "Some(", "v3", "0", "..=", "99", "=>", "if", "v2", "<", "0", "return", "Err(", "IMPOSSIBLE", "v1", "v2", "checked_mul(", "100", "and_then(", "|", "v6", "|", "v6", "checked_add(", "v3", "Ok(", "Some(", "v1", "ok_or(", "OUT_OF_RANGE", "?", "None", "None", "Some(", "v3", "0", "..=", "99", "=>", "Ok(", "Some(", "v3", "+", "if", "v3", "<", "70", "2000", "else", "1900", "None", "Some(", "v7", "None", "=>", "Err(", "NOT_ENOUGH", "v7", "v7", "Some(", "v7", "=>", "Err(", "OUT_OF_RANGE", "v8", "resolve_year(", "self", "v9", "self", "v10", "self", "v11", "?", "v12", "resolve_year(", "self", "v13", "self", "v14", "self", "v15", "?", "v16", "|", "v17", "NaiveDate", "|", "v9", "v17", "year(", "let(", "v10", "v11", "if", "v9", ">=", "0", "Some(", "v9", "/", "100", "Some(", "v9", "%", "100", "else", "None", "None", "v18", "v17", "month(", "v19", "v17", "day(", "self", "v9", "unwrap_or(", "v9", "==", "v9", "&&", "self", "v10", "or(", "v10", "==", "v10", "&&", "self", "v11", "or(", "v11", "==", "v11", "&&", "self", "v18", "unwrap_or(", "v18", "==", "v18", "&&", "self", "v19", "unwrap_or(", "v19", "==", "v19", "v20", "|", "v17", "NaiveDate", "|", "v21", "v17", "iso_week(", "v13", "v21", "year(", "v22", "v21", "week(", "v23", "v17", "weekday(", "let(", "v14", "v15", "if", "v13", ">=", "0", "Some(", "v13", "/", "100", "Some(", "v13", "%", "100", "else", "None", "None", "self", "v13", "unwrap_or(", "v13", "==", "v13", "&&", "self", "v14", "or(", "v14", "==", "v14", "&&", "self", "v15", "or(", "v15", "==", "v15", "&&", "self", "v22", "unwrap_or(", "v22", "==", "v22", "&&", "self", "v23", "unwrap_or(", "v23", "==", "v23", "v24", "|", "v17", "NaiveDate", "|", "v25", "v17", "ordinal(", "v26", "v17", "weeks_from(", "Weekday", "Sun", "v27", "v17", "weeks_from(", "Weekday", "Mon", "self", "v25", "unwrap_or(", "v25", "==", "v25", "&&", "self", "v26", "map_or(", "v26", "|", "v6", "|", "v6", "as", "i32", "==", "v26", "&&", "self", "v27", "map_or(", "v27", "|", "v6", "|", "v6", "as", "i32", "==", "v27", "let(", "v28", "v29", "match(", "v8", "v12", "self", "Some(", "v9", "v7", "&", "Parsed", "v18", "Some(", "v18", "v19", "Some(", "v19", "..", "=>", "v17", "NaiveDate", "from_ymd_opt(", "v9", "v18", "v19", "ok_or(", "OUT_OF_RANGE", "?", "verify_isoweekdate(", "v17", "&&", "verify_ordinal(", "v17", "v17", "Some(", "v9", "v7", "&", "Parsed", "v25", "Some(", "v25", "..", "=>", "v17", "NaiveDate", "from_yo_opt(", "v9", "v25", "ok_or(", "OUT_OF_RANGE", "?", "verify_ymd(", "v17", "&&", "verify_isoweekdate(", "v17", "&&", "verify_ordinal(", "v17", "v17", "Some(", "v9", "v7", "&", "Parsed", "v26", "Some(", "v21", "v23", "Some(", "v23", "..", "=>", "v17", "resolve_week_date(", "v9", "v21", "v23", "Weekday", "Sun", "?", "verify_ymd(", "v17", "&&", "verify_isoweekdate(", "v17", "&&", "verify_ordinal(", "v17", "v17", "Some(", "v9", "v7", "&", "Parsed", "v27", "Some(", "v21", "v23", "Some(", "v23", "..", "=>", "v17", "resolve_week_date(", "v9", "v21", "v23", "Weekday", "Mon", "?", "verify_ymd(", "v17", "&&", "verify_isoweekdate(", "v17", "&&", "verify_ordinal(", "v17", "v17", "v7", "Some(", "v13", "&", "Parsed", "v22", "Some(", "v22", "v23", "Some(", "v23", "..", "=>", "v17", "NaiveDate", "from_isoywd_opt(", "v13", "v22", "v23", "v17", "v17", "ok_or(", "OUT_OF_RANGE", "?", "verify_ymd(", "v17", "&&", "verify_ordinal(", "v17", "v17", "v7", "v7", "v7", "=>", "return", "Err(", "NOT_ENOUGH", "if", "!", "v28", "return", "Err(", "IMPOSSIBLE", "else", "if", "Some(", "v30", "self", "v31", "if", "v30", "!=", "v29", "quarter(", "return", "Err(", "IMPOSSIBLE", "Ok(", "v29"] := by decide +kernel

/-- src/format/parsed.rs:fn to_naive_datetime_with_offset -/
theorem src_format_parsed_rs_fn_to_naive_datetime_with_offset : C14_src_format_parsed_rs_fn_to_naive_datetime_with_offset =
    ["&", "self", "v1", "i32", "->", "ParseResult", "<", "NaiveDateTime", ">", "v2", "self", "to_naive_date(", "v3", "self", "to_naive_time(", "if", "let(", "Ok(", "v2", "Ok(", "v3", "v2", "v3", "v4", "v2", "and_time(", "v3", "v5", "v4", "and_utc(", "timestamp(", "-", "i64", "from(", "v1", "if", "Some(", "v6", "self", "v5", "if", "v6", "!=", "v5", "&&", "!", "v4", "nanosecond(", ">=", "1000000000", "&&", "v6", "==", "v5", "+", "1", "return", "Err(", "IMPOSSIBLE", "Ok(", "v4", "else", "if", "Some(", "v5", "self", "v5", "ParseError", "as", "PE", "ParseErrorKind", "Impossible", "OutOfRange", "match(", "v2", "v3", "Err(", "PE(", "OutOfRange", "v7", "|", "v7", "Err(", "PE(", "OutOfRange", "=>", "return", "Err(", "OUT_OF_RANGE", "Err(", "PE(", "Impossible", "v7", "|", "v7", "Err(", "PE(", "Impossible", "=>", "return", "Err(", "IMPOSSIBLE", "v7", "v7", "=>", "v8", "v5", "checked_add(", "i64", "from(", "v1", "ok_or(", "OUT_OF_RANGE", "?", "v4", "DateTime", "from_timestamp(", "v8", "0", "ok_or(", "OUT_OF_RANGE", "?", "naive_utc(", "v9", "self", "clone(", "if", "v9", "v10", "==", "Some(", "60", "match", "v4", "second(", "59", "=>", "0", "=>", "v4", "v4", "checked_sub_signed(", "TimeDelta", "try_seconds(", "1", "unwrap(", "ok_or(", "OUT_OF_RANGE", "?", "v7", "=>", "return", "Err(", "IMPOSSIBLE", "else", "v9", "set_second(", "i64", "from(", "v4", "second(", "?", "v9", "set_year(", "i64", "from(", "v4", "year(", "?", "v9", "set_ordinal(", "i64", "from(", "v4", "ordinal(", "?", "v9", "set_hour(", "i64", "from(", "v4", "hour(", "?", "v9", "set_minute(", "i64", "from(", "v4", "minute(", "?", "v2", "v9", "to_naive_date(", "?", "v3", "v9", "to_naive_time(", "?", "Ok(", "v2", "and_time(", "v3", "else", "v2", "?", "v3", "?", "unreachable!("] := by decide +kernel

/-- src/format/parsed.rs:fn to_naive_time -/
theorem src_format_parsed_rs_fn_to_naive_time : C14_src_format_parsed_rs_fn_to_naive_time =
    ["&", "self", "->", "ParseResult", "<", "NaiveTime", ">", "v1", "match", "self", "v1", "Some(", "v2", "0", "..=", "1", "=>", "v2", "Some(", "v3", "=>", "return", "Err(", "OUT_OF_RANGE", "None", "=>", "return", "Err(", "NOT_ENOUGH", "v4", "match", "self", "v4", "Some(", "v2", "0", "..=", "11", "=>", "v2", "Some(", "v3", "=>", "return", "Err(", "OUT_OF_RANGE", "None", "=>", "return", "Err(", "NOT_ENOUGH", "v5", "v1", "*", "12", "+", "v4", "v6", "match", "self", "v6", "Some(", "v2", "0", "..=", "59", "=>", "v2", "Some(", "v3", "=>", "return", "Err(", "OUT_OF_RANGE", "None", "=>", "return", "Err(", "NOT_ENOUGH", "let(", "v7", "v8", "match", "self", "v7", "unwrap_or(", "0", "v2", "0", "..=", "59", "=>", "v2", "0", "60", "=>", "59", "1000000000", "v3", "=>", "return", "Err(", "OUT_OF_RANGE", "v8", "+=", "match", "self", "v9", "Some(", "v2", "0", "..=", "999999999", "if", "self", "v7", "is_some(", "=>", "v2", "Some(", "0", "..=", "999999999", "=>", "return", "Err(", "NOT_ENOUGH", "Some(", "v3", "=>", "return", "Err(", "OUT_OF_RANGE", "None", "=>", "0", "NaiveTime", "from_hms_nano_opt(", "v5", "v6", "v7", "v8", "ok_or(", "OUT_OF_RANGE"] := by decide +kernel

/-- src/naive/date/mod.rs:fn iso_week -/
theorem src_naive_date_mod_rs_fn_iso_week : C14_src_naive_date_mod_rs_fn_iso_week =
    ["&", "self", "->", "IsoWeek", "IsoWeek", "from_yof(", "self", "year(", "self", "ordinal(", "self", "year_flags("] := by decide +kernel

/-- src/naive/date/mod.rs:fn with_ordinal -/
theorem src_naive_date_mod_rs_fn_with_ordinal : C14_src_naive_date_mod_rs_fn_with_ordinal =
    ["&", "self", "v1", "u32", "->", "Option", "<", "NaiveDate", ">", "if", "v1", "==", "0", "||", "v1", ">", "366", "return", "None", "v2", "self", "yof(", "&", "!", "ORDINAL_MASK", "|", "v1", "<<", "4", "as", "i32", "match", "v2", "&", "OL_MASK", "<=", "MAX_OL", "true", "=>", "Some(", "NaiveDate", "from_yof(", "v2", "false", "=>", "None"] := by decide +kernel

/-- src/naive/datetime/mod.rs:fn checked_sub_signed -/
theorem src_naive_datetime_mod_rs_fn_checked_sub_signed : C14_src_naive_datetime_mod_rs_fn_checked_sub_signed =
    ["self", "v1", "TimeDelta", "->", "Option", "<", "NaiveDateTime", ">", "let(", "v2", "v3", "self", "v2", "overflowing_sub_signed(", "v1", "v3", "try_opt!(", "TimeDelta", "try_seconds(", "v3", "v4", "try_opt!(", "self", "v4", "checked_sub_signed(", "v3", "Some(", "NaiveDateTime", "v4", "v2"] := by decide +kernel

/-- src/traits.rs:fn quarter -/
theorem src_traits_rs_fn_quarter : C14_src_traits_rs_fn_quarter =
    ["&", "self", "->", "u32", "self", "month(", "-", "1", "div_euclid(", "3", "+", "1"] := by decide +kernel

/-- callee src/datetime/mod.rs:fn from_naive_utc_and_offset -/
theorem callee_src_datetime_mod_rs_fn_from_naive_utc_and_offset : C14_callee_src_datetime_mod_rs_fn_from_naive_utc_and_offset =
    ["v1", "NaiveDateTime", "v2", "Tz", "Offset", "->", "DateTime", "<", "Tz", ">", "DateTime", "v1", "v2"] := by decide +kernel

/-- callee src/naive/date/mod.rs:fn cycle_to_yo -/
theorem callee_src_naive_date_mod_rs_fn_cycle_to_yo : C14_callee_src_naive_date_mod_rs_fn_cycle_to_yo =
    ["v1", "u32", "->", "u32", "u32", "v2", "v1", "/", "365", "v3", "v1", "%", "365", "v4", "YEAR_DELTAS", "v2", "as", "usize", "as", "u32", "if", "v3", "<", "v4", "v2", "-=", "1", "v3", "+=", "365", "-", "YEAR_DELTAS", "v2", "as", "usize", "as", "u32", "else", "v3", "-=", "v4", "v2", "v3", "+", "1"] := by decide +kernel

/-- callee src/naive/date/mod.rs:fn from_isoywd_opt -/
theorem callee_src_naive_date_mod_rs_fn_from_isoywd_opt : C14_callee_src_naive_date_mod_rs_fn_from_isoywd_opt =
    ["v1", "i32", "v2", "u32", "v3", "Weekday", "->", "Option", "<", "NaiveDate", ">", "v4", "YearFlags", "from_year(", "v1", "v5", "v4", "nisoweeks(", "if", "v2", "==", "0", "||", "v2", ">", "v5", "return", "None", "v6", "v2", "*", "7", "+", "v3", "as", "u32", "v7", "v4", "isoweek_delta(", "let(", "v1", "v8", "v4", "if", "v6", "<=", "v7", "v9", "try_opt!(", "v1", "checked_sub(", "1", "v10", "YearFlags", "from_year(", "v9", "v9", "v6", "+", "v10", "ndays(", "-", "v7", "v10", "else", "v8", "v6", "-", "v7", "v11", "v4", "ndays(", "if", "v8", "<=", "v11", "v1", "v8", "v4", "else", "v12", "try_opt!(", "v1", "checked_add(", "1", "v13", "YearFlags", "from_year(", "v12", "v12", "v8", "-", "v11", "v13", "NaiveDate", "from_ordinal_and_flags(", "v1", "v8", "v4"] := by decide +kernel

/-- callee src/naive/date/mod.rs:fn from_mdf -/
theorem callee_src_naive_date_mod_rs_fn_from_mdf : C14_callee_src_naive_date_mod_rs_fn_from_mdf =
    ["v1", "i32", "v2", "Mdf", "->", "Option", "<", "NaiveDate", ">", "if", "v1", "<", "MIN_YEAR", "||", "v1", ">", "MAX_YEAR", "return", "None", "Some(", "NaiveDate", "from_yof(", "v1", "<<", "13", "|", "try_opt!(", "v2", "ordinal_and_flags("] := by decide +kernel

/-- callee src/naive/date/mod.rs:fn from_num_days_from_ce_opt -/
theorem callee_src_naive_date_mod_rs_fn_from_num_days_from_ce_opt : C14_callee_src_naive_date_mod_rs_fn_from_num_days_from_ce_opt =
    ["v1", "i32", "->", "Option", "<", "NaiveDate", ">", "v1", "try_opt!(", "v1", "checked_add(", "365", "v2", "v1", "div_euclid(", "146097", "v3", "v1", "rem_euclid(", "146097", "let(", "v4", "v5", "cycle_to_yo(", "v3", "as", "u32", "v6", "YearFlags", "from_year_mod_400(", "v4", "as", "i32", "NaiveDate", "from_ordinal_and_flags(", "v2", "*", "400", "+", "v4", "as", "i32", "v5", "v6"] := by decide +kernel

/-- callee src/naive/date/mod.rs:fn from_ordinal_and_flags -/
theorem callee_src_naive_date_mod_rs_fn_from_ordinal_and_flags : C14_callee_src_naive_date_mod_rs_fn_from_ordinal_and_flags =
    ["v1", "i32", "v2", "u32", "v3", "YearFlags", "->", "Option", "<", "NaiveDate", ">", "if", "v1", "<", "MIN_YEAR", "||", "v1", ">", "MAX_YEAR", "return", "None", "if", "v2", "==", "0", "||", "v2", ">", "366", "return", "None", "debug_assert!(", "YearFlags", "from_year(", "v1", "==", "v3", "v4", "v1", "<<", "13", "|", "v2", "<<", "4", "as", "i32", "|", "v3", "as", "i32", "match", "v4", "&", "OL_MASK", "<=", "MAX_OL", "true", "=>", "Some(", "NaiveDate", "from_yof(", "v4", "false", "=>", "None"] := by decide +kernel

/-- callee src/naive/date/mod.rs:fn from_ymd_opt -/
theorem callee_src_naive_date_mod_rs_fn_from_ymd_opt : C14_callee_src_naive_date_mod_rs_fn_from_ymd_opt =
    ["v1", "i32", "v2", "u32", "v3", "u32", "->", "Option", "<", "NaiveDate", ">", "v4", "YearFlags", "from_year(", "v1", "if", "Some(", "v5", "Mdf", "new(", "v2", "v3", "v4", "NaiveDate", "from_mdf(", "v1", "v5", "else", "None"] := by decide +kernel

/-- callee src/naive/date/mod.rs:fn from_yo_opt -/
theorem callee_src_naive_date_mod_rs_fn_from_yo_opt : C14_callee_src_naive_date_mod_rs_fn_from_yo_opt =
    ["v1", "i32", "v2", "u32", "->", "Option", "<", "NaiveDate", ">", "v3", "YearFlags", "from_year(", "v1", "NaiveDate", "from_ordinal_and_flags(", "v1", "v2", "v3"] := by decide +kernel

/-- callee src/naive/date/mod.rs:fn weeks_from -/
theorem callee_src_naive_date_mod_rs_fn_weeks_from : C14_callee_src_naive_date_mod_rs_fn_weeks_from =
    ["&", "self", "v1", "Weekday", "->", "i32", "self", "ordinal(", "as", "i32", "-", "self", "weekday(", "days_since(", "v1", "as", "i32", "+", "6", "/", "7"] := by decide +kernel

/-- callee src/naive/date/mod.rs:fn yof -/
theorem callee_src_naive_date_mod_rs_fn_yof : C14_callee_src_naive_date_mod_rs_fn_yof =
    ["&", "self", "->", "i32", "self", "v1", "get("] := by decide +kernel

/-- callee src/naive/datetime/mod.rs:fn and_utc -/
theorem callee_src_naive_datetime_mod_rs_fn_and_utc : C14_callee_src_naive_datetime_mod_rs_fn_and_utc =
    ["&", "self", "->", "DateTime", "<", "Utc", ">", "DateTime", "from_naive_utc_and_offset(", "*", "self", "Utc"] := by decide +kernel

/-- callee src/naive/datetime/mod.rs:fn checked_sub_offset -/
theorem callee_src_naive_datetime_mod_rs_fn_checked_sub_offset : C14_callee_src_naive_datetime_mod_rs_fn_checked_sub_offset =
    ["self", "v1", "FixedOffset", "->", "Option", "<", "NaiveDateTime", ">", "let(", "v2", "v3", "self", "v2", "overflowing_sub_offset(", "v1", "v4", "match", "v3", "-", "1", "=>", "try_opt!(", "self", "v4", "pred_opt(", "1", "=>", "try_opt!(", "self", "v4", "succ_opt(", "v5", "=>", "self", "v4", "Some(", "NaiveDateTime", "v4", "v2"] := by decide +kernel

/-- callee src/naive/internals.rs:fn from_year -/
theorem callee_src_naive_internals_rs_fn_from_year : C14_callee_src_naive_internals_rs_fn_from_year =
    ["v1", "i32", "->", "YearFlags", "v1", "v1", "rem_euclid(", "400", "YearFlags", "from_year_mod_400(", "v1"] := by decide +kernel

/-- callee src/naive/internals.rs:fn from_year_mod_400 -/
theorem callee_src_naive_internals_rs_fn_from_year_mod_400 : C14_callee_src_naive_internals_rs_fn_from_year_mod_400 =
    ["v1", "i32", "->", "YearFlags", "YEAR_TO_FLAGS", "v1", "as", "usize"] := by decide +kernel

/-- callee src/naive/internals.rs:fn isoweek_delta -/
theorem callee_src_naive_internals_rs_fn_isoweek_delta : C14_callee_src_naive_internals_rs_fn_isoweek_delta =
    ["&", "self", "->", "u32", "YearFlags(", "v1", "*", "self", "v2", "v1", "&", "7", "as", "u32", "if", "v2", "<", "3", "v2", "+=", "7", "v2"] := by decide +kernel

/-- callee src/naive/internals.rs:fn ndays -/
theorem callee_src_naive_internals_rs_fn_ndays : C14_callee_src_naive_internals_rs_fn_ndays =
    ["&", "self", "->", "u32", "YearFlags(", "v1", "*", "self", "366", "-", "v1", ">>", "3", "as", "u32"] := by decide +kernel

/-- callee src/naive/internals.rs:fn nisoweeks -/
theorem callee_src_naive_internals_rs_fn_nisoweeks : C14_callee_src_naive_internals_rs_fn_nisoweeks =
    ["&", "self", "->", "u32", "YearFlags(", "v1", "*", "self", "52", "+", "1030", ">>", "v1", "as", "usize", "&", "1"] := by decide +kernel

/-- callee src/naive/internals.rs:fn ordinal_and_flags -/
theorem callee_src_naive_internals_rs_fn_ordinal_and_flags : C14_callee_src_naive_internals_rs_fn_ordinal_and_flags =
    ["&", "self", "->", "Option", "<", "i32", ">", "v1", "self", ">>", "3", "match", "MDL_TO_OL", "v1", "as", "usize", "XX", "=>", "None", "v2", "=>", "Some(", "self", "as", "i32", "-", "v2", "as", "i32", "<<", "3"] := by decide +kernel

/-- callee src/naive/time/mod.rs:fn from_hms_nano_opt -/
theorem callee_src_naive_time_mod_rs_fn_from_hms_nano_opt : C14_callee_src_naive_time_mod_rs_fn_from_hms_nano_opt =
    ["v1", "u32", "v2", "u32", "v3", "u32", "v4", "u32", "->", "Option", "<", "NaiveTime", ">", "if(", "v1", ">=", "24", "||", "v2", ">=", "60", "||", "v3", ">=", "60", "||", "v4", ">=", "1000000000", "&&", "v3", "!=", "59", "||", "v4", ">=", "2000000000", "return", "None", "v5", "v1", "*", "3600", "+", "v2", "*", "60", "+", "v3", "Some(", "NaiveTime", "v5", "v6", "v4"] := by decide +kernel

/-- callee src/naive/time/mod.rs:fn from_num_seconds_from_midnight_opt -/
theorem callee_src_naive_time_mod_rs_fn_from_num_seconds_from_midnight_opt : C14_callee_src_naive_time_mod_rs_fn_from_num_seconds_from_midnight_opt =
    ["v1", "u32", "v2", "u32", "->", "Option", "<", "NaiveTime", ">", "if", "v1", ">=", "86400", "||", "v2", ">=", "2000000000", "||", "v2", ">=", "1000000000", "&&", "v1", "%", "60", "!=", "59", "return", "None", "Some(", "NaiveTime", "v1", "v3", "v2"] := by decide +kernel

/-- callee src/naive/time/mod.rs:fn overflowing_add_signed -/
theorem callee_src_naive_time_mod_rs_fn_overflowing_add_signed : C14_callee_src_naive_time_mod_rs_fn_overflowing_add_signed =
    ["&", "self", "v1", "TimeDelta", "->", "NaiveTime", "i64", "v2", "self", "v2", "as", "i64", "v3", "self", "v3", "as", "i32", "v4", "v1", "num_seconds(", "v5", "v1", "subsec_nanos(", "if", "v3", ">=", "1000000000", "if", "v4", ">", "0", "||", "v5", ">", "0", "&&", "v3", ">=", "2000000000", "-", "v5", "v3", "-=", "1000000000", "else", "if", "v4", "<", "0", "v3", "-=", "1000000000", "v2", "+=", "1", "else", "return(", "NaiveTime", "v2", "self", "v2", "v3", "v3", "+", "v5", "as", "u32", "0", "v2", "v2", "+", "v4", "v3", "+=", "v5", "if", "v3", "<", "0", "v3", "+=", "1000000000", "v2", "-=", "1", "else", "if", "v3", ">=", "1000000000", "v3", "-=", "1000000000", "v2", "+=", "1", "v6", "v2", "rem_euclid(", "86400", "v7", "v2", "-", "v6", "NaiveTime", "v2", "v6", "as", "u32", "v3", "v3", "as", "u32", "v7"] := by decide +kernel

/-- callee src/naive/time/mod.rs:fn overflowing_sub_signed -/
theorem callee_src_naive_time_mod_rs_fn_overflowing_sub_signed : C14_callee_src_naive_time_mod_rs_fn_overflowing_sub_signed =
    ["&", "self", "v1", "TimeDelta", "->", "NaiveTime", "i64", "let(", "v2", "v1", "self", "overflowing_add_signed(", "v1", "neg(", "v2", "-", "v1"] := by decide +kernel

/-- callee src/offset/fixed.rs:fn east_opt -/
theorem callee_src_offset_fixed_rs_fn_east_opt : C14_callee_src_offset_fixed_rs_fn_east_opt =
    ["v1", "i32", "->", "Option", "<", "FixedOffset", ">", "if", "-", "86400", "<", "v1", "&&", "v1", "<", "86400", "Some(", "FixedOffset", "v2", "v1", "else", "None"] := by decide +kernel

/-- callee src/offset/fixed.rs:fn local_minus_utc -/
theorem callee_src_offset_fixed_rs_fn_local_minus_utc : C14_callee_src_offset_fixed_rs_fn_local_minus_utc =
    ["&", "self", "->", "i32", "self", "v1"] := by decide +kernel

/-- callee src/offset/mod.rs:fn from_local_datetime -/
theorem callee_src_offset_mod_rs_fn_from_local_datetime : C14_callee_src_offset_mod_rs_fn_from_local_datetime =
    ["&", "self", "v1", "&", "NaiveDateTime", "->", "MappedLocalTime", "<", "DateTime", "<", "Self", ">>", "self", "offset_from_local_datetime(", "v1", "and_then(", "|", "v2", "|", "v1", "checked_sub_offset(", "v2", "fix(", "map(", "|", "v3", "|", "DateTime", "from_naive_utc_and_offset(", "v3", "v2"] := by decide +kernel

/-- callee src/time_delta.rs:fn num_seconds -/
theorem callee_src_time_delta_rs_fn_num_seconds : C14_callee_src_time_delta_rs_fn_num_seconds =
    ["&", "self", "->", "i64", "if", "self", "v1", "<", "0", "&&", "self", "v2", ">", "0", "self", "v1", "+", "1", "else", "self", "v1"] := by decide +kernel

/-- callee src/time_delta.rs:fn subsec_nanos -/
theorem callee_src_time_delta_rs_fn_subsec_nanos : C14_callee_src_time_delta_rs_fn_subsec_nanos =
    ["&", "self", "->", "i32", "if", "self", "v1", "<", "0", "&&", "self", "v2", ">", "0", "self", "v2", "-", "NANOS_PER_SEC", "else", "self", "v2"] := by decide +kernel

/-- callee src/time_delta.rs:fn try_seconds -/
theorem callee_src_time_delta_rs_fn_try_seconds : C14_callee_src_time_delta_rs_fn_try_seconds =
    ["v1", "i64", "->", "Option", "<", "TimeDelta", ">", "TimeDelta", "new(", "v1", "0"] := by decide +kernel

/-- callee src/weekday.rs:fn days_since -/
theorem callee_src_weekday_rs_fn_days_since : C14_callee_src_weekday_rs_fn_days_since =
    ["&", "self", "v1", "Weekday", "->", "u32", "v2", "*", "self", "as", "u32", "v3", "v1", "as", "u32", "if", "v2", "<", "v3", "7", "+", "v2", "-", "v3", "else", "v2", "-", "v3"] := by decide +kernel

end Chrono.Pins.C14
