/-
  PINS of property C07: the decision tokens of every item the property is anchored in
  (properties.jsonl `anchors` + tools/anchor_extra.json), as they were in /repo at b30ed81 when the
  model was validated against the source.  Written by tools/pin_anchors.py; the right-hand sides are
  compared by the kernel with lean/Chrono/Extracted/Anchors.lean, which tools/extractors/anchors.py
  regenerates from /repo's working tree on every check.  A theorem that fails here means: anchored
  code changed; the hand-written model may no longer mirror it.
-/
import Chrono.Extracted.Anchors
namespace Chrono.Pins.C07
open Chrono.Extracted.Anchors

/-- src/naive/datetime/mod.rs:impl Add -/
theorem src_naive_datetime_mod_rs_impl_Add : C07_src_naive_datetime_mod_rs_impl_Add =
    ["Add", "<", "TimeDelta", ">", "for", "NaiveDateTime", "Output", "NaiveDateTime", "add(", "self", "v1", "TimeDelta", "->", "NaiveDateTime", "self", "checked_add_signed(", "v1", "expect(", "\"…\"", "§", "Add", "<", "Duration", ">", "for", "NaiveDateTime", "Output", "NaiveDateTime", "add(", "self", "v1", "Duration", "->", "NaiveDateTime", "v1", "TimeDelta", "from_std(", "v1", "expect(", "\"…\"", "self", "checked_add_signed(", "v1", "expect(", "\"…\"", "§", "Add", "<", "FixedOffset", ">", "for", "NaiveDateTime", "Output", "NaiveDateTime", "add(", "self", "v1", "FixedOffset", "->", "NaiveDateTime", "self", "checked_add_offset(", "v1", "expect(", "\"…\"", "§", "Add", "<", "Months", ">", "for", "NaiveDateTime", "Output", "NaiveDateTime", "add(", "self", "v1", "Months", "->", "Self", "Output", "self", "checked_add_months(", "v1", "expect(", "\"…\"", "§", "Add", "<", "Days", ">", "for", "NaiveDateTime", "Output", "NaiveDateTime", "add(", "self", "v1", "Days", "->", "Self", "Output", "self", "checked_add_days(", "v1", "expect(", "\"…\""] := by decide +kernel

/-- src/naive/datetime/mod.rs:impl AddAssign -/
theorem src_naive_datetime_mod_rs_impl_AddAssign : C07_src_naive_datetime_mod_rs_impl_AddAssign =
    ["AddAssign", "<", "TimeDelta", ">", "for", "NaiveDateTime", "add_assign(", "&", "self", "v1", "TimeDelta", "*", "self", "self", "add(", "v1", "§", "AddAssign", "<", "Duration", ">", "for", "NaiveDateTime", "add_assign(", "&", "self", "v1", "Duration", "*", "self", "self", "add(", "v1"] := by decide +kernel

/-- src/naive/datetime/mod.rs:impl Sub -/
theorem src_naive_datetime_mod_rs_impl_Sub : C07_src_naive_datetime_mod_rs_impl_Sub =
    ["Sub", "<", "TimeDelta", ">", "for", "NaiveDateTime", "Output", "NaiveDateTime", "sub(", "self", "v1", "TimeDelta", "->", "NaiveDateTime", "self", "checked_sub_signed(", "v1", "expect(", "\"…\"", "§", "Sub", "<", "Duration", ">", "for", "NaiveDateTime", "Output", "NaiveDateTime", "sub(", "self", "v1", "Duration", "->", "NaiveDateTime", "v1", "TimeDelta", "from_std(", "v1", "expect(", "\"…\"", "self", "checked_sub_signed(", "v1", "expect(", "\"…\"", "§", "Sub", "<", "FixedOffset", ">", "for", "NaiveDateTime", "Output", "NaiveDateTime", "sub(", "self", "v1", "FixedOffset", "->", "NaiveDateTime", "self", "checked_sub_offset(", "v1", "expect(", "\"…\"", "§", "Sub", "<", "Months", ">", "for", "NaiveDateTime", "Output", "NaiveDateTime", "sub(", "self", "v1", "Months", "->", "Self", "Output", "self", "checked_sub_months(", "v1", "expect(", "\"…\"", "§", "Sub", "<", "NaiveDateTime", ">", "for", "NaiveDateTime", "Output", "TimeDelta", "sub(", "self", "v1", "NaiveDateTime", "->", "TimeDelta", "self", "signed_duration_since(", "v1", "§", "Sub", "<", "Days", ">", "for", "NaiveDateTime", "Output", "NaiveDateTime", "sub(", "self", "v1", "Days", "->", "Self", "Output", "self", "checked_sub_days(", "v1", "expect(", "\"…\""] := by decide +kernel

/-- src/naive/datetime/mod.rs:impl SubAssign -/
theorem src_naive_datetime_mod_rs_impl_SubAssign : C07_src_naive_datetime_mod_rs_impl_SubAssign =
    ["SubAssign", "<", "TimeDelta", ">", "for", "NaiveDateTime", "sub_assign(", "&", "self", "v1", "TimeDelta", "*", "self", "self", "sub(", "v1", "§", "SubAssign", "<", "Duration", ">", "for", "NaiveDateTime", "sub_assign(", "&", "self", "v1", "Duration", "*", "self", "self", "sub(", "v1"] := by decide +kernel

/-- src/naive/time/mod.rs:fn from_hms_micro_opt -/
theorem src_naive_time_mod_rs_fn_from_hms_micro_opt : C07_src_naive_time_mod_rs_fn_from_hms_micro_opt =
    ["v1", "u32", "v2", "u32", "v3", "u32", "v4", "u32", "->", "Option", "<", "NaiveTime", ">", "v5", "try_opt!(", "v4", "checked_mul(", "1000", "NaiveTime", "from_hms_nano_opt(", "v1", "v2", "v3", "v5"] := by decide +kernel

/-- src/naive/time/mod.rs:fn from_hms_milli_opt -/
theorem src_naive_time_mod_rs_fn_from_hms_milli_opt : C07_src_naive_time_mod_rs_fn_from_hms_milli_opt =
    ["v1", "u32", "v2", "u32", "v3", "u32", "v4", "u32", "->", "Option", "<", "NaiveTime", ">", "v5", "try_opt!(", "v4", "checked_mul(", "1000000", "NaiveTime", "from_hms_nano_opt(", "v1", "v2", "v3", "v5"] := by decide +kernel

/-- src/naive/time/mod.rs:fn from_hms_nano_opt -/
theorem src_naive_time_mod_rs_fn_from_hms_nano_opt : C07_src_naive_time_mod_rs_fn_from_hms_nano_opt =
    ["v1", "u32", "v2", "u32", "v3", "u32", "v4", "u32", "->", "Option", "<", "NaiveTime", ">", "if(", "v1", ">=", "24", "||", "v2", ">=", "60", "||", "v3", ">=", "60", "||", "v4", ">=", "1000000000", "&&", "v3", "!=", "59", "||", "v4", ">=", "2000000000", "return", "None", "v5", "v1", "*", "3600", "+", "v2", "*", "60", "+", "v3", "Some(", "NaiveTime", "v5", "v6", "v4"] := by decide +kernel

/-- src/naive/time/mod.rs:fn from_num_seconds_from_midnight_opt -/
theorem src_naive_time_mod_rs_fn_from_num_seconds_from_midnight_opt : C07_src_naive_time_mod_rs_fn_from_num_seconds_from_midnight_opt =
    ["v1", "u32", "v2", "u32", "->", "Option", "<", "NaiveTime", ">", "if", "v1", ">=", "86400", "||", "v2", ">=", "2000000000", "||", "v2", ">=", "1000000000", "&&", "v1", "%", "60", "!=", "59", "return", "None", "Some(", "NaiveTime", "v1", "v3", "v2"] := by decide +kernel

/-- src/naive/time/mod.rs:fn hms -/
theorem src_naive_time_mod_rs_fn_hms : C07_src_naive_time_mod_rs_fn_hms =
    ["&", "self", "->", "u32", "u32", "u32", "v1", "self", "v2", "%", "60", "v3", "self", "v2", "/", "60", "v4", "v3", "%", "60", "v5", "v3", "/", "60", "v5", "v4", "v1"] := by decide +kernel

/-- src/naive/time/mod.rs:fn overflowing_add_offset -/
theorem src_naive_time_mod_rs_fn_overflowing_add_offset : C07_src_naive_time_mod_rs_fn_overflowing_add_offset =
    ["&", "self", "v1", "FixedOffset", "->", "NaiveTime", "i32", "v2", "self", "v2", "as", "i32", "+", "v1", "local_minus_utc(", "v3", "v2", "div_euclid(", "86400", "v2", "v2", "rem_euclid(", "86400", "NaiveTime", "v2", "v2", "as", "u32", "v4", "self", "v4", "v3"] := by decide +kernel

/-- src/naive/time/mod.rs:fn overflowing_add_signed -/
theorem src_naive_time_mod_rs_fn_overflowing_add_signed : C07_src_naive_time_mod_rs_fn_overflowing_add_signed =
    ["&", "self", "v1", "TimeDelta", "->", "NaiveTime", "i64", "v2", "self", "v2", "as", "i64", "v3", "self", "v3", "as", "i32", "v4", "v1", "num_seconds(", "v5", "v1", "subsec_nanos(", "if", "v3", ">=", "1000000000", "if", "v4", ">", "0", "||", "v5", ">", "0", "&&", "v3", ">=", "2000000000", "-", "v5", "v3", "-=", "1000000000", "else", "if", "v4", "<", "0", "v3", "-=", "1000000000", "v2", "+=", "1", "else", "return(", "NaiveTime", "v2", "self", "v2", "v3", "v3", "+", "v5", "as", "u32", "0", "v2", "v2", "+", "v4", "v3", "+=", "v5", "if", "v3", "<", "0", "v3", "+=", "1000000000", "v2", "-=", "1", "else", "if", "v3", ">=", "1000000000", "v3", "-=", "1000000000", "v2", "+=", "1", "v6", "v2", "rem_euclid(", "86400", "v7", "v2", "-", "v6", "NaiveTime", "v2", "v6", "as", "u32", "v3", "v3", "as", "u32", "v7"] := by decide +kernel

/-- src/naive/time/mod.rs:fn overflowing_sub_offset -/
theorem src_naive_time_mod_rs_fn_overflowing_sub_offset : C07_src_naive_time_mod_rs_fn_overflowing_sub_offset =
    ["&", "self", "v1", "FixedOffset", "->", "NaiveTime", "i32", "v2", "self", "v2", "as", "i32", "-", "v1", "local_minus_utc(", "v3", "v2", "div_euclid(", "86400", "v2", "v2", "rem_euclid(", "86400", "NaiveTime", "v2", "v2", "as", "u32", "v4", "self", "v4", "v3"] := by decide +kernel

/-- src/naive/time/mod.rs:fn overflowing_sub_signed -/
theorem src_naive_time_mod_rs_fn_overflowing_sub_signed : C07_src_naive_time_mod_rs_fn_overflowing_sub_signed =
    ["&", "self", "v1", "TimeDelta", "->", "NaiveTime", "i64", "let(", "v2", "v1", "self", "overflowing_add_signed(", "v1", "neg(", "v2", "-", "v1"] := by decide +kernel

/-- src/naive/time/mod.rs:fn signed_duration_since -/
theorem src_naive_time_mod_rs_fn_signed_duration_since : C07_src_naive_time_mod_rs_fn_signed_duration_since =
    ["self", "v1", "NaiveTime", "->", "TimeDelta", "v2", "self", "v2", "as", "i64", "-", "v1", "v2", "as", "i64", "v3", "self", "v3", "as", "i64", "-", "v1", "v3", "as", "i64", "if", "self", "v2", ">", "v1", "v2", "&&", "v1", "v3", ">=", "1000000000", "v2", "+=", "1", "else", "if", "self", "v2", "<", "v1", "v2", "&&", "self", "v3", ">=", "1000000000", "v2", "-=", "1", "v4", "v3", "div_euclid(", "1000000000", "v3", "v3", "rem_euclid(", "1000000000", "as", "u32", "expect(", "TimeDelta", "new(", "v2", "+", "v4", "v3", "\"…\""] := by decide +kernel

/-- src/naive/time/mod.rs:impl Add -/
theorem src_naive_time_mod_rs_impl_Add : C07_src_naive_time_mod_rs_impl_Add =
    ["Add", "<", "TimeDelta", ">", "for", "NaiveTime", "Output", "NaiveTime", "add(", "self", "v1", "TimeDelta", "->", "NaiveTime", "self", "overflowing_add_signed(", "v1", "§", "Add", "<", "Duration", ">", "for", "NaiveTime", "Output", "NaiveTime", "add(", "self", "v1", "Duration", "->", "NaiveTime", "v2", "v1", "as_secs(", "v2", "if", "v2", ">=", "86400", "v2", "%", "86400", "+", "86400", "else", "v2", "v3", "TimeDelta", "new(", "v2", "as", "i64", "v1", "subsec_nanos(", "unwrap(", "self", "overflowing_add_signed(", "v3", "§", "Add", "<", "FixedOffset", ">", "for", "NaiveTime", "Output", "NaiveTime", "add(", "self", "v1", "FixedOffset", "->", "NaiveTime", "self", "overflowing_add_offset(", "v1"] := by decide +kernel

/-- src/naive/time/mod.rs:impl AddAssign -/
theorem src_naive_time_mod_rs_impl_AddAssign : C07_src_naive_time_mod_rs_impl_AddAssign =
    ["AddAssign", "<", "TimeDelta", ">", "for", "NaiveTime", "add_assign(", "&", "self", "v1", "TimeDelta", "*", "self", "self", "add(", "v1", "§", "AddAssign", "<", "Duration", ">", "for", "NaiveTime", "add_assign(", "&", "self", "v1", "Duration", "*", "self", "*", "self", "+", "v1"] := by decide +kernel

/-- src/naive/time/mod.rs:impl Sub -/
theorem src_naive_time_mod_rs_impl_Sub : C07_src_naive_time_mod_rs_impl_Sub =
    ["Sub", "<", "TimeDelta", ">", "for", "NaiveTime", "Output", "NaiveTime", "sub(", "self", "v1", "TimeDelta", "->", "NaiveTime", "self", "overflowing_sub_signed(", "v1", "§", "Sub", "<", "Duration", ">", "for", "NaiveTime", "Output", "NaiveTime", "sub(", "self", "v1", "Duration", "->", "NaiveTime", "v2", "v1", "as_secs(", "v2", "if", "v2", ">=", "86400", "v2", "%", "86400", "+", "86400", "else", "v2", "v3", "TimeDelta", "new(", "v2", "as", "i64", "v1", "subsec_nanos(", "unwrap(", "self", "overflowing_sub_signed(", "v3", "§", "Sub", "<", "FixedOffset", ">", "for", "NaiveTime", "Output", "NaiveTime", "sub(", "self", "v1", "FixedOffset", "->", "NaiveTime", "self", "overflowing_sub_offset(", "v1", "§", "Sub", "<", "NaiveTime", ">", "for", "NaiveTime", "Output", "TimeDelta", "sub(", "self", "v1", "NaiveTime", "->", "TimeDelta", "self", "signed_duration_since(", "v1"] := by decide +kernel

/-- src/naive/time/mod.rs:impl SubAssign -/
theorem src_naive_time_mod_rs_impl_SubAssign : C07_src_naive_time_mod_rs_impl_SubAssign =
    ["SubAssign", "<", "TimeDelta", ">", "for", "NaiveTime", "sub_assign(", "&", "self", "v1", "TimeDelta", "*", "self", "self", "sub(", "v1", "§", "SubAssign", "<", "Duration", ">", "for", "NaiveTime", "sub_assign(", "&", "self", "v1", "Duration", "*", "self", "*", "self", "-", "v1"] := by decide +kernel

/-- src/naive/time/mod.rs:impl Timelike for NaiveTime -/
theorem src_naive_time_mod_rs_impl_Timelike_for_NaiveTime : C07_src_naive_time_mod_rs_impl_Timelike_for_NaiveTime =
    ["Timelike", "for", "NaiveTime", "hour(", "&", "self", "->", "u32", "self", "hms(", "minute(", "&", "self", "->", "u32", "self", "hms(", "second(", "&", "self", "->", "u32", "self", "hms(", "nanosecond(", "&", "self", "->", "u32", "self", "v1", "with_hour(", "&", "self", "v2", "u32", "->", "Option", "<", "NaiveTime", ">", "if", "v2", ">=", "24", "return", "None", "v3", "v2", "*", "3600", "+", "self", "v3", "%", "3600", "Some(", "NaiveTime", "v3", "..", "*", "self", "with_minute(", "&", "self", "v4", "u32", "->", "Option", "<", "NaiveTime", ">", "if", "v4", ">=", "60", "return", "None", "v3", "self", "v3", "/", "3600", "*", "3600", "+", "v4", "*", "60", "+", "self", "v3", "%", "60", "Some(", "NaiveTime", "v3", "..", "*", "self", "with_second(", "&", "self", "v5", "u32", "->", "Option", "<", "NaiveTime", ">", "if", "v5", ">=", "60", "return", "None", "v3", "self", "v3", "/", "60", "*", "60", "+", "v5", "Some(", "NaiveTime", "v3", "..", "*", "self", "with_nanosecond(", "&", "self", "v6", "u32", "->", "Option", "<", "NaiveTime", ">", "if", "v6", ">=", "2000000000", "return", "None", "Some(", "NaiveTime", "v1", "v6", "..", "*", "self", "num_seconds_from_midnight(", "&", "self", "->", "u32", "self", "v3"] := by decide +kernel

/-- src/traits.rs:fn hour12 -/
theorem src_traits_rs_fn_hour12 : C07_src_traits_rs_fn_hour12 =
    ["&", "self", "->", "bool", "u32", "v1", "self", "hour(", "v2", "v1", "%", "12", "if", "v2", "==", "0", "v2", "12", "v1", ">=", "12", "v2"] := by decide +kernel

/-- src/traits.rs:fn num_seconds_from_midnight -/
theorem src_traits_rs_fn_num_seconds_from_midnight : C07_src_traits_rs_fn_num_seconds_from_midnight =
    ["&", "self", "->", "u32", "self", "hour(", "*", "3600", "+", "self", "minute(", "*", "60", "+", "self", "second("] := by decide +kernel

/-- callee src/naive/datetime/mod.rs:fn checked_add_offset -/
theorem callee_src_naive_datetime_mod_rs_fn_checked_add_offset : C07_callee_src_naive_datetime_mod_rs_fn_checked_add_offset =
    ["self", "v1", "FixedOffset", "->", "Option", "<", "NaiveDateTime", ">", "let(", "v2", "v3", "self", "v2", "overflowing_add_offset(", "v1", "v4", "match", "v3", "-", "1", "=>", "try_opt!(", "self", "v4", "pred_opt(", "1", "=>", "try_opt!(", "self", "v4", "succ_opt(", "v5", "=>", "self", "v4", "Some(", "NaiveDateTime", "v4", "v2"] := by decide +kernel

/-- callee src/naive/datetime/mod.rs:fn checked_sub_offset -/
theorem callee_src_naive_datetime_mod_rs_fn_checked_sub_offset : C07_callee_src_naive_datetime_mod_rs_fn_checked_sub_offset =
    ["self", "v1", "FixedOffset", "->", "Option", "<", "NaiveDateTime", ">", "let(", "v2", "v3", "self", "v2", "overflowing_sub_offset(", "v1", "v4", "match", "v3", "-", "1", "=>", "try_opt!(", "self", "v4", "pred_opt(", "1", "=>", "try_opt!(", "self", "v4", "succ_opt(", "v5", "=>", "self", "v4", "Some(", "NaiveDateTime", "v4", "v2"] := by decide +kernel

/-- callee src/offset/fixed.rs:fn local_minus_utc -/
theorem callee_src_offset_fixed_rs_fn_local_minus_utc : C07_callee_src_offset_fixed_rs_fn_local_minus_utc =
    ["&", "self", "->", "i32", "self", "v1"] := by decide +kernel

/-- callee src/time_delta.rs:fn from_std -/
theorem callee_src_time_delta_rs_fn_from_std : C07_callee_src_time_delta_rs_fn_from_std =
    ["v1", "Duration", "->", "Result", "<", "TimeDelta", "OutOfRangeError", ">", "if", "v1", "as_secs(", ">", "MAX", "v2", "as", "u64", "return", "Err(", "OutOfRangeError(", "match", "TimeDelta", "new(", "v1", "as_secs(", "as", "i64", "v1", "subsec_nanos(", "Some(", "v3", "=>", "Ok(", "v3", "None", "=>", "Err(", "OutOfRangeError("] := by decide +kernel

/-- callee src/time_delta.rs:fn num_seconds -/
theorem callee_src_time_delta_rs_fn_num_seconds : C07_callee_src_time_delta_rs_fn_num_seconds =
    ["&", "self", "->", "i64", "if", "self", "v1", "<", "0", "&&", "self", "v2", ">", "0", "self", "v1", "+", "1", "else", "self", "v1"] := by decide +kernel

/-- callee src/time_delta.rs:fn subsec_nanos -/
theorem callee_src_time_delta_rs_fn_subsec_nanos : C07_callee_src_time_delta_rs_fn_subsec_nanos =
    ["&", "self", "->", "i32", "if", "self", "v1", "<", "0", "&&", "self", "v2", ">", "0", "self", "v2", "-", "NANOS_PER_SEC", "else", "self", "v2"] := by decide +kernel

end Chrono.Pins.C07
