/-
  PINS of property C04: the decision tokens of every item the property is anchored in
  (properties.jsonl `anchors` + tools/anchor_extra.json), as they were in /repo at 770977e when the
  model was validated against the source.  Written by tools/pin_anchors.py; the right-hand sides are
  compared by the kernel with lean/Chrono/Extracted/Anchors.lean, which tools/extractors/anchors.py
  regenerates from /repo's working tree on every check.  A theorem that fails here means: anchored
  code changed; the hand-written model may no longer mirror it.
-/
import Chrono.Extracted.Anchors
namespace Chrono.Pins.C04
open Chrono.Extracted.Anchors

/-- src/datetime/mod.rs:fn checked_add_days -/
theorem src_datetime_mod_rs_fn_checked_add_days : C04_src_datetime_mod_rs_fn_checked_add_days =
    ["self", "v1", "Days", "->", "Option", "<", "Self", ">", "if", "v1", "==", "Days", "new(", "0", "return", "Some(", "self", "self", "overflowing_naive_local(", "checked_add_days(", "v1", "and_then(", "|", "v2", "|", "self", "timezone(", "from_local_datetime(", "&", "v2", "single(", "filter(", "|", "v2", "|", "v2", "<=", "&", "DateTime", "<", "Utc", ">", "MAX_UTC"] := by decide +kernel

/-- src/datetime/mod.rs:fn checked_add_months -/
theorem src_datetime_mod_rs_fn_checked_add_months : C04_src_datetime_mod_rs_fn_checked_add_months =
    ["self", "v1", "Months", "->", "Option", "<", "DateTime", "<", "Tz", ">>", "self", "overflowing_naive_local(", "checked_add_months(", "v1", "?", "and_local_timezone(", "Tz", "from_offset(", "&", "self", "v2", "single("] := by decide +kernel

/-- src/datetime/mod.rs:fn checked_sub_days -/
theorem src_datetime_mod_rs_fn_checked_sub_days : C04_src_datetime_mod_rs_fn_checked_sub_days =
    ["self", "v1", "Days", "->", "Option", "<", "Self", ">", "self", "overflowing_naive_local(", "checked_sub_days(", "v1", "and_then(", "|", "v2", "|", "self", "timezone(", "from_local_datetime(", "&", "v2", "single(", "filter(", "|", "v2", "|", "v2", ">=", "&", "DateTime", "<", "Utc", ">", "MIN_UTC"] := by decide +kernel

/-- src/datetime/mod.rs:fn checked_sub_months -/
theorem src_datetime_mod_rs_fn_checked_sub_months : C04_src_datetime_mod_rs_fn_checked_sub_months =
    ["self", "v1", "Months", "->", "Option", "<", "DateTime", "<", "Tz", ">>", "self", "overflowing_naive_local(", "checked_sub_months(", "v1", "?", "and_local_timezone(", "Tz", "from_offset(", "&", "self", "v2", "single("] := by decide +kernel

/-- src/datetime/mod.rs:fn date -/
theorem src_datetime_mod_rs_fn_date : C04_src_datetime_mod_rs_fn_date =
    ["&", "self", "->", "Date", "<", "Tz", ">", "Date", "from_utc(", "self", "naive_local(", "date(", "self", "v1", "clone("] := by decide +kernel

/-- src/datetime/mod.rs:fn date_naive -/
theorem src_datetime_mod_rs_fn_date_naive : C04_src_datetime_mod_rs_fn_date_naive =
    ["&", "self", "->", "NaiveDate", "self", "naive_local(", "date("] := by decide +kernel

/-- src/datetime/mod.rs:fn fixed_offset -/
theorem src_datetime_mod_rs_fn_fixed_offset : C04_src_datetime_mod_rs_fn_fixed_offset =
    ["&", "self", "->", "DateTime", "<", "FixedOffset", ">", "self", "with_timezone(", "&", "self", "offset(", "fix("] := by decide +kernel

/-- src/datetime/mod.rs:fn format -/
theorem src_datetime_mod_rs_fn_format : C04_src_datetime_mod_rs_fn_format =
    ["<", ">", "&", "self", "v1", "&", "str", "->", "DelayedFormat", "<", "StrftimeItems", "<", ">>", "self", "format_with_items(", "StrftimeItems", "new(", "v1"] := by decide +kernel

/-- src/datetime/mod.rs:fn format_with_items -/
theorem src_datetime_mod_rs_fn_format_with_items : C04_src_datetime_mod_rs_fn_format_with_items =
    ["<", "I", "B", ">", "&", "self", "v1", "I", "->", "DelayedFormat", "<", "I", ">", "I", "Iterator", "<", "Item", "B", ">", "+", "Clone", "B", "Borrow", "<", "Item", "<", ">>", "v2", "self", "overflowing_naive_local(", "DelayedFormat", "new_with_offset(", "Some(", "v2", "date(", "Some(", "v2", "time(", "&", "self", "v3", "v1"] := by decide +kernel

/-- src/datetime/mod.rs:fn from_local -/
theorem src_datetime_mod_rs_fn_from_local : C04_src_datetime_mod_rs_fn_from_local =
    ["v1", "NaiveDateTime", "v2", "Tz", "Offset", "->", "DateTime", "<", "Tz", ">", "v3", "v1", "-", "v2", "fix(", "DateTime", "v1", "v3", "v2"] := by decide +kernel

/-- src/datetime/mod.rs:fn from_utc -/
theorem src_datetime_mod_rs_fn_from_utc : C04_src_datetime_mod_rs_fn_from_utc =
    ["v1", "NaiveDateTime", "v2", "Tz", "Offset", "->", "DateTime", "<", "Tz", ">", "DateTime", "v1", "v2"] := by decide +kernel

/-- src/datetime/mod.rs:fn map_local -/
theorem src_datetime_mod_rs_fn_map_local : C04_src_datetime_mod_rs_fn_map_local =
    ["<", "Tz", "TimeZone", "F", ">", "v1", "&", "DateTime", "<", "Tz", ">", "v2", "F", "->", "Option", "<", "DateTime", "<", "Tz", ">>", "F", "FnMut(", "NaiveDateTime", "->", "Option", "<", "NaiveDateTime", ">", "f(", "v1", "overflowing_naive_local(", "and_then(", "|", "v3", "|", "v1", "timezone(", "from_local_datetime(", "&", "v3", "single(", "filter(", "|", "v1", "|", "v1", ">=", "&", "DateTime", "<", "Utc", ">", "MIN_UTC", "&&", "v1", "<=", "&", "DateTime", "<", "Utc", ">", "MAX_UTC"] := by decide +kernel

/-- src/datetime/mod.rs:fn naive_local -/
theorem src_datetime_mod_rs_fn_naive_local : C04_src_datetime_mod_rs_fn_naive_local =
    ["&", "self", "->", "NaiveDateTime", "self", "v1", "checked_add_offset(", "self", "v2", "fix(", "expect(", "\"…\""] := by decide +kernel

/-- src/datetime/mod.rs:fn naive_utc -/
theorem src_datetime_mod_rs_fn_naive_utc : C04_src_datetime_mod_rs_fn_naive_utc =
    ["&", "self", "->", "NaiveDateTime", "self", "v1"] := by decide +kernel

/-- src/datetime/mod.rs:fn overflowing_naive_local -/
theorem src_datetime_mod_rs_fn_overflowing_naive_local : C04_src_datetime_mod_rs_fn_overflowing_naive_local =
    ["&", "self", "->", "NaiveDateTime", "self", "v1", "overflowing_add_offset(", "self", "v2", "fix("] := by decide +kernel

/-- src/datetime/mod.rs:fn to_rfc2822 -/
theorem src_datetime_mod_rs_fn_to_rfc2822 : C04_src_datetime_mod_rs_fn_to_rfc2822 =
    ["&", "self", "->", "String", "v1", "String", "with_capacity(", "32", "write_rfc2822(", "&", "v1", "self", "overflowing_naive_local(", "self", "v2", "fix(", "expect(", "\"…\"", "v1"] := by decide +kernel

/-- src/datetime/mod.rs:fn to_rfc3339 -/
theorem src_datetime_mod_rs_fn_to_rfc3339 : C04_src_datetime_mod_rs_fn_to_rfc3339 =
    ["&", "self", "->", "String", "v1", "String", "with_capacity(", "32", "v2", "self", "overflowing_naive_local(", "v3", "self", "v3", "fix(", "write_rfc3339(", "&", "v1", "v2", "v3", "SecondsFormat", "AutoSi", "false", "expect(", "\"…\"", "v1"] := by decide +kernel

/-- src/datetime/mod.rs:fn to_rfc3339_opts -/
theorem src_datetime_mod_rs_fn_to_rfc3339_opts : C04_src_datetime_mod_rs_fn_to_rfc3339_opts =
    ["&", "self", "v1", "SecondsFormat", "v2", "bool", "->", "String", "v3", "String", "with_capacity(", "38", "v4", "self", "overflowing_naive_local(", "write_rfc3339(", "&", "v3", "v4", "self", "v5", "fix(", "v1", "v2", "expect(", "\"…\"", "v3"] := by decide +kernel

/-- src/datetime/mod.rs:fn to_utc -/
theorem src_datetime_mod_rs_fn_to_utc : C04_src_datetime_mod_rs_fn_to_utc =
    ["&", "self", "->", "DateTime", "<", "Utc", ">", "DateTime", "v1", "self", "v1", "v2", "Utc"] := by decide +kernel

/-- src/datetime/mod.rs:fn with_time -/
theorem src_datetime_mod_rs_fn_with_time : C04_src_datetime_mod_rs_fn_with_time =
    ["&", "self", "v1", "NaiveTime", "->", "LocalResult", "<", "Self", ">", "self", "timezone(", "from_local_datetime(", "&", "self", "overflowing_naive_local(", "date(", "and_time(", "v1", "and_then(", "|", "v2", "|", "if", "v2", ">=", "DateTime", "<", "Utc", ">", "MIN_UTC", "&&", "v2", "<=", "DateTime", "<", "Utc", ">", "MAX_UTC", "Some(", "v2", "else", "None"] := by decide +kernel

/-- src/datetime/mod.rs:fn with_timezone -/
theorem src_datetime_mod_rs_fn_with_timezone : C04_src_datetime_mod_rs_fn_with_timezone =
    ["<", "Tz2", "TimeZone", ">", "&", "self", "v1", "&", "Tz2", "->", "DateTime", "<", "Tz2", ">", "v1", "from_utc_datetime(", "&", "self", "v2"] := by decide +kernel

/-- src/datetime/mod.rs:impl Add for DateTime -/
theorem src_datetime_mod_rs_impl_Add_for_DateTime : C04_src_datetime_mod_rs_impl_Add_for_DateTime =
    ["<", "Tz", "TimeZone", ">", "Add", "<", "TimeDelta", ">", "for", "DateTime", "<", "Tz", ">", "Output", "DateTime", "<", "Tz", ">", "add(", "self", "v1", "TimeDelta", "->", "DateTime", "<", "Tz", ">", "self", "checked_add_signed(", "v1", "expect(", "\"…\"", "§", "<", "Tz", "TimeZone", ">", "Add", "<", "Duration", ">", "for", "DateTime", "<", "Tz", ">", "Output", "DateTime", "<", "Tz", ">", "add(", "self", "v1", "Duration", "->", "DateTime", "<", "Tz", ">", "v1", "TimeDelta", "from_std(", "v1", "expect(", "\"…\"", "self", "checked_add_signed(", "v1", "expect(", "\"…\"", "§", "<", "Tz", "TimeZone", ">", "Add", "<", "FixedOffset", ">", "for", "DateTime", "<", "Tz", ">", "Output", "DateTime", "<", "Tz", ">", "add(", "self", "v1", "FixedOffset", "->", "DateTime", "<", "Tz", ">", "self", "v2", "self", "naive_utc(", "checked_add_offset(", "v1", "expect(", "\"…\"", "self", "§", "<", "Tz", "TimeZone", ">", "Add", "<", "Months", ">", "for", "DateTime", "<", "Tz", ">", "Output", "DateTime", "<", "Tz", ">", "add(", "self", "v1", "Months", "->", "Self", "Output", "self", "checked_add_months(", "v1", "expect(", "\"…\"", "§", "<", "Tz", "TimeZone", ">", "Add", "<", "Days", ">", "for", "DateTime", "<", "Tz", ">", "Output", "DateTime", "<", "Tz", ">", "add(", "self", "v1", "Days", "->", "Self", "Output", "self", "checked_add_days(", "v1", "expect(", "\"…\""] := by decide +kernel

/-- src/datetime/mod.rs:impl Datelike -/
theorem src_datetime_mod_rs_impl_Datelike : C04_src_datetime_mod_rs_impl_Datelike =
    ["<", "Tz", "TimeZone", ">", "Datelike", "for", "DateTime", "<", "Tz", ">", "year(", "&", "self", "->", "i32", "self", "overflowing_naive_local(", "year(", "month(", "&", "self", "->", "u32", "self", "overflowing_naive_local(", "month(", "month0(", "&", "self", "->", "u32", "self", "overflowing_naive_local(", "month0(", "day(", "&", "self", "->", "u32", "self", "overflowing_naive_local(", "day(", "day0(", "&", "self", "->", "u32", "self", "overflowing_naive_local(", "day0(", "ordinal(", "&", "self", "->", "u32", "self", "overflowing_naive_local(", "ordinal(", "ordinal0(", "&", "self", "->", "u32", "self", "overflowing_naive_local(", "ordinal0(", "weekday(", "&", "self", "->", "Weekday", "self", "overflowing_naive_local(", "weekday(", "iso_week(", "&", "self", "->", "IsoWeek", "self", "overflowing_naive_local(", "iso_week(", "with_year(", "&", "self", "v1", "i32", "->", "Option", "<", "DateTime", "<", "Tz", ">>", "map_local(", "self", "|", "v2", "|", "match", "v2", "year(", "==", "v1", "true", "=>", "Some(", "v2", "false", "=>", "v2", "with_year(", "v1", "with_month(", "&", "self", "v3", "u32", "->", "Option", "<", "DateTime", "<", "Tz", ">>", "map_local(", "self", "|", "v4", "|", "v4", "with_month(", "v3", "with_month0(", "&", "self", "v5", "u32", "->", "Option", "<", "DateTime", "<", "Tz", ">>", "map_local(", "self", "|", "v4", "|", "v4", "with_month0(", "v5", "with_day(", "&", "self", "v6", "u32", "->", "Option", "<", "DateTime", "<", "Tz", ">>", "map_local(", "self", "|", "v4", "|", "v4", "with_day(", "v6", "with_day0(", "&", "self", "v7", "u32", "->", "Option", "<", "DateTime", "<", "Tz", ">>", "map_local(", "self", "|", "v4", "|", "v4", "with_day0(", "v7", "with_ordinal(", "&", "self", "v8", "u32", "->", "Option", "<", "DateTime", "<", "Tz", ">>", "map_local(", "self", "|", "v4", "|", "v4", "with_ordinal(", "v8", "with_ordinal0(", "&", "self", "v9", "u32", "->", "Option", "<", "DateTime", "<", "Tz", ">>", "map_local(", "self", "|", "v4", "|", "v4", "with_ordinal0(", "v9"] := by decide +kernel

/-- src/datetime/mod.rs:impl Debug for DateTime -/
theorem src_datetime_mod_rs_impl_Debug_for_DateTime : C04_src_datetime_mod_rs_impl_Debug_for_DateTime =
    ["<", "Tz", "TimeZone", ">", "v1", "Debug", "for", "DateTime", "<", "Tz", ">", "fmt(", "&", "self", "v2", "&", "v1", "Formatter", "->", "v1", "Result", "self", "overflowing_naive_local(", "fmt(", "v2", "?", "self", "v3", "fmt(", "v2"] := by decide +kernel

/-- src/datetime/mod.rs:impl Display for DateTime -/
theorem src_datetime_mod_rs_impl_Display_for_DateTime : C04_src_datetime_mod_rs_impl_Display_for_DateTime =
    ["<", "Tz", "TimeZone", ">", "DateTime", "<", "Tz", ">", "Tz", "Offset", "v1", "Display", "v2", "<", "I", "B", ">", "&", "self", "v3", "I", "->", "DelayedFormat", "<", "I", ">", "I", "Iterator", "<", "Item", "B", ">", "+", "Clone", "B", "Borrow", "<", "Item", "<", ">>", "v4", "self", "overflowing_naive_local(", "DelayedFormat", "new_with_offset(", "Some(", "v4", "date(", "Some(", "v4", "time(", "&", "self", "v5", "v3", "v6", "<", ">", "&", "self", "v1", "&", "str", "->", "DelayedFormat", "<", "StrftimeItems", "<", ">>", "self", "format_with_items(", "StrftimeItems", "new(", "v1", "v7", "<", "I", "B", ">", "&", "self", "v3", "I", "v8", "Locale", "->", "DelayedFormat", "<", "I", ">", "I", "Iterator", "<", "Item", "B", ">", "+", "Clone", "B", "Borrow", "<", "Item", "<", ">>", "v4", "self", "overflowing_naive_local(", "DelayedFormat", "new_with_offset_and_locale(", "Some(", "v4", "date(", "Some(", "v4", "time(", "&", "self", "v5", "v3", "v8", "v9", "<", ">", "&", "self", "v1", "&", "str", "v8", "Locale", "->", "DelayedFormat", "<", "StrftimeItems", "<", ">>", "self", "format_localized_with_items(", "StrftimeItems", "new_with_locale(", "v1", "v8", "v8", "§", "<", "Tz", "TimeZone", ">", "v1", "Display", "for", "DateTime", "<", "Tz", ">", "Tz", "Offset", "v1", "Display", "fmt(", "&", "self", "v2", "&", "v1", "Formatter", "->", "v1", "Result", "self", "overflowing_naive_local(", "fmt(", "v2", "?", "v2", "write_char(", "' '", "?", "self", "v3", "fmt(", "v2"] := by decide +kernel

/-- src/datetime/mod.rs:impl From for DateTime -/
theorem src_datetime_mod_rs_impl_From_for_DateTime : C04_src_datetime_mod_rs_impl_From_for_DateTime =
    ["From", "<", "DateTime", "<", "Utc", ">>", "for", "DateTime", "<", "FixedOffset", ">", "from(", "v1", "DateTime", "<", "Utc", ">", "->", "Self", "v1", "with_timezone(", "&", "FixedOffset", "east_opt(", "0", "unwrap(", "§", "From", "<", "DateTime", "<", "Utc", ">>", "for", "DateTime", "<", "Local", ">", "from(", "v1", "DateTime", "<", "Utc", ">", "->", "Self", "v1", "with_timezone(", "&", "Local", "§", "From", "<", "DateTime", "<", "FixedOffset", ">>", "for", "DateTime", "<", "Utc", ">", "from(", "v1", "DateTime", "<", "FixedOffset", ">", "->", "Self", "v1", "with_timezone(", "&", "Utc", "§", "From", "<", "DateTime", "<", "FixedOffset", ">>", "for", "DateTime", "<", "Local", ">", "from(", "v1", "DateTime", "<", "FixedOffset", ">", "->", "Self", "v1", "with_timezone(", "&", "Local", "§", "From", "<", "DateTime", "<", "Local", ">>", "for", "DateTime", "<", "Utc", ">", "from(", "v1", "DateTime", "<", "Local", ">", "->", "Self", "v1", "with_timezone(", "&", "Utc", "§", "From", "<", "DateTime", "<", "Local", ">>", "for", "DateTime", "<", "FixedOffset", ">", "from(", "v1", "DateTime", "<", "Local", ">", "->", "Self", "v1", "with_timezone(", "&", "v1", "offset(", "fix(", "§", "From", "<", "SystemTime", ">", "for", "DateTime", "<", "Utc", ">", "from(", "v1", "SystemTime", "->", "DateTime", "<", "Utc", ">", "let(", "v2", "v3", "match", "v1", "duration_since(", "UNIX_EPOCH", "Ok(", "v4", "=>", "v4", "as_secs(", "as", "i64", "v4", "subsec_nanos(", "Err(", "v5", "=>", "v4", "v5", "duration(", "let(", "v2", "v3", "v4", "as_secs(", "as", "i64", "v4", "subsec_nanos(", "if", "v3", "==", "0", "-", "v2", "0", "else", "-", "v2", "-", "1", "1000000000", "-", "v3", "Utc", "timestamp_opt(", "v2", "v3", "unwrap(", "§", "From", "<", "SystemTime", ">", "for", "DateTime", "<", "Local", ">", "from(", "v1", "SystemTime", "->", "DateTime", "<", "Local", ">", "DateTime", "<", "Utc", ">", "from(", "v1", "with_timezone(", "&", "Local", "§", "<", "Tz", "TimeZone", ">", "From", "<", "DateTime", "<", "Tz", ">>", "for", "SystemTime", "from(", "v1", "DateTime", "<", "Tz", ">", "->", "SystemTime", "v2", "v1", "timestamp(", "v3", "v1", "timestamp_subsec_nanos(", "if", "v2", "<", "0", "UNIX_EPOCH", "-", "Duration", "new(", "-", "v2", "as", "u64", "0", "+", "Duration", "new(", "0", "v3", "else", "UNIX_EPOCH", "+", "Duration", "new(", "v2", "as", "u64", "v3", "§", "From", "<", "v1", "Date", ">", "for", "DateTime", "<", "Utc", ">", "from(", "v2", "v1", "Date", "->", "DateTime", "<", "Utc", ">", "DateTime", "<", "Utc", ">", "from(", "&", "v2", "§", "From", "<", "&", "v1", "Date", ">", "for", "DateTime", "<", "Utc", ">", "from(", "v2", "&", "v1", "Date", "->", "DateTime", "<", "Utc", ">", "Utc", "timestamp_millis_opt(", "v2", "get_time(", "as", "i64", "unwrap(", "§", "From", "<", "DateTime", "<", "Utc", ">>", "for", "v1", "Date", "from(", "v2", "DateTime", "<", "Utc", ">", "->", "v1", "Date", "v3", "v4", "JsValue", "from_f64(", "v2", "timestamp_millis(", "as", "f64", "v1", "Date", "new(", "&", "v3"] := by decide +kernel

/-- src/datetime/mod.rs:impl Hash for DateTime -/
theorem src_datetime_mod_rs_impl_Hash_for_DateTime : C04_src_datetime_mod_rs_impl_Hash_for_DateTime =
    ["<", "Tz", "TimeZone", ">", "v1", "Hash", "for", "DateTime", "<", "Tz", ">", "v1", "<", "H", "v1", "Hasher", ">", "&", "self", "v2", "&", "H", "self", "v3", "hash(", "v2"] := by decide +kernel

/-- src/datetime/mod.rs:impl Ord for DateTime -/
theorem src_datetime_mod_rs_impl_Ord_for_DateTime : C04_src_datetime_mod_rs_impl_Ord_for_DateTime =
    ["<", "Tz", "TimeZone", ">", "Ord", "for", "DateTime", "<", "Tz", ">", "cmp(", "&", "self", "v1", "&", "DateTime", "<", "Tz", ">", "->", "Ordering", "self", "v2", "cmp(", "&", "v1", "v2"] := by decide +kernel

/-- src/datetime/mod.rs:impl PartialEq for DateTime -/
theorem src_datetime_mod_rs_impl_PartialEq_for_DateTime : C04_src_datetime_mod_rs_impl_PartialEq_for_DateTime =
    ["<", "Tz", "TimeZone", "Tz2", "TimeZone", ">", "PartialEq", "<", "DateTime", "<", "Tz2", ">>", "for", "DateTime", "<", "Tz", ">", "eq(", "&", "self", "v1", "&", "DateTime", "<", "Tz2", ">", "->", "bool", "self", "v2", "==", "v1", "v2"] := by decide +kernel

/-- src/datetime/mod.rs:impl PartialOrd for DateTime -/
theorem src_datetime_mod_rs_impl_PartialOrd_for_DateTime : C04_src_datetime_mod_rs_impl_PartialOrd_for_DateTime =
    ["<", "Tz", "TimeZone", "Tz2", "TimeZone", ">", "PartialOrd", "<", "DateTime", "<", "Tz2", ">>", "for", "DateTime", "<", "Tz", ">", "partial_cmp(", "&", "self", "v1", "&", "DateTime", "<", "Tz2", ">", "->", "Option", "<", "Ordering", ">", "self", "v2", "partial_cmp(", "&", "v1", "v2"] := by decide +kernel

/-- src/datetime/mod.rs:impl Sub for DateTime -/
theorem src_datetime_mod_rs_impl_Sub_for_DateTime : C04_src_datetime_mod_rs_impl_Sub_for_DateTime =
    ["<", "Tz", "TimeZone", ">", "Sub", "<", "TimeDelta", ">", "for", "DateTime", "<", "Tz", ">", "Output", "DateTime", "<", "Tz", ">", "sub(", "self", "v1", "TimeDelta", "->", "DateTime", "<", "Tz", ">", "self", "checked_sub_signed(", "v1", "expect(", "\"…\"", "§", "<", "Tz", "TimeZone", ">", "Sub", "<", "Duration", ">", "for", "DateTime", "<", "Tz", ">", "Output", "DateTime", "<", "Tz", ">", "sub(", "self", "v1", "Duration", "->", "DateTime", "<", "Tz", ">", "v1", "TimeDelta", "from_std(", "v1", "expect(", "\"…\"", "self", "checked_sub_signed(", "v1", "expect(", "\"…\"", "§", "<", "Tz", "TimeZone", ">", "Sub", "<", "FixedOffset", ">", "for", "DateTime", "<", "Tz", ">", "Output", "DateTime", "<", "Tz", ">", "sub(", "self", "v1", "FixedOffset", "->", "DateTime", "<", "Tz", ">", "self", "v2", "self", "naive_utc(", "checked_sub_offset(", "v1", "expect(", "\"…\"", "self", "§", "<", "Tz", "TimeZone", ">", "Sub", "<", "Months", ">", "for", "DateTime", "<", "Tz", ">", "Output", "DateTime", "<", "Tz", ">", "sub(", "self", "v1", "Months", "->", "Self", "Output", "self", "checked_sub_months(", "v1", "expect(", "\"…\"", "§", "<", "Tz", "TimeZone", ">", "Sub", "<", "DateTime", "<", "Tz", ">>", "for", "DateTime", "<", "Tz", ">", "Output", "TimeDelta", "sub(", "self", "v1", "DateTime", "<", "Tz", ">", "->", "TimeDelta", "self", "signed_duration_since(", "v1", "§", "<", "Tz", "TimeZone", ">", "Sub", "<", "&", "DateTime", "<", "Tz", ">>", "for", "DateTime", "<", "Tz", ">", "Output", "TimeDelta", "sub(", "self", "v1", "&", "DateTime", "<", "Tz", ">", "->", "TimeDelta", "self", "signed_duration_since(", "v1", "§", "<", "Tz", "TimeZone", ">", "Sub", "<", "Days", ">", "for", "DateTime", "<", "Tz", ">", "Output", "DateTime", "<", "Tz", ">", "sub(", "self", "v1", "Days", "->", "Self", "Output", "self", "checked_sub_days(", "v1", "expect(", "\"…\""] := by decide +kernel

/-- src/datetime/mod.rs:impl Timelike -/
theorem src_datetime_mod_rs_impl_Timelike : C04_src_datetime_mod_rs_impl_Timelike =
    ["<", "Tz", "TimeZone", ">", "Timelike", "for", "DateTime", "<", "Tz", ">", "hour(", "&", "self", "->", "u32", "self", "overflowing_naive_local(", "hour(", "minute(", "&", "self", "->", "u32", "self", "overflowing_naive_local(", "minute(", "second(", "&", "self", "->", "u32", "self", "overflowing_naive_local(", "second(", "nanosecond(", "&", "self", "->", "u32", "self", "overflowing_naive_local(", "nanosecond(", "with_hour(", "&", "self", "v1", "u32", "->", "Option", "<", "DateTime", "<", "Tz", ">>", "map_local(", "self", "|", "v2", "|", "v2", "with_hour(", "v1", "with_minute(", "&", "self", "v3", "u32", "->", "Option", "<", "DateTime", "<", "Tz", ">>", "map_local(", "self", "|", "v2", "|", "v2", "with_minute(", "v3", "with_second(", "&", "self", "v4", "u32", "->", "Option", "<", "DateTime", "<", "Tz", ">>", "map_local(", "self", "|", "v2", "|", "v2", "with_second(", "v4", "with_nanosecond(", "&", "self", "v5", "u32", "->", "Option", "<", "DateTime", "<", "Tz", ">>", "map_local(", "self", "|", "v2", "|", "v2", "with_nanosecond(", "v5"] := by decide +kernel

/-- src/naive/date/mod.rs:const AFTER_MAX -/
theorem src_naive_date_mod_rs_const_AFTER_MAX : C04_src_naive_date_mod_rs_const_AFTER_MAX =
    ["NaiveDate", "NaiveDate", "from_yof(", "MAX_YEAR", "+", "1", "<<", "13", "|", "1", "<<", "4", "|", "15", "/", "*", "F", "*", "/"] := by decide +kernel

/-- src/naive/date/mod.rs:const BEFORE_MIN -/
theorem src_naive_date_mod_rs_const_BEFORE_MIN : C04_src_naive_date_mod_rs_const_BEFORE_MIN =
    ["NaiveDate", "NaiveDate", "from_yof(", "MIN_YEAR", "-", "1", "<<", "13", "|", "366", "<<", "4", "|", "7", "/", "*", "FE", "*", "/"] := by decide +kernel

/-- src/naive/date/mod.rs:fn day0 -/
theorem src_naive_date_mod_rs_fn_day0 : C04_src_naive_date_mod_rs_fn_day0 =
    ["&", "self", "->", "u32", "self", "mdf(", "day(", "-", "1"] := by decide +kernel

/-- src/naive/date/mod.rs:fn month0 -/
theorem src_naive_date_mod_rs_fn_month0 : C04_src_naive_date_mod_rs_fn_month0 =
    ["&", "self", "->", "u32", "self", "month(", "-", "1"] := by decide +kernel

/-- src/naive/date/mod.rs:fn ordinal0 -/
theorem src_naive_date_mod_rs_fn_ordinal0 : C04_src_naive_date_mod_rs_fn_ordinal0 =
    ["&", "self", "->", "u32", "self", "ordinal(", "-", "1"] := by decide +kernel

/-- src/naive/datetime/mod.rs:fn and_local_timezone -/
theorem src_naive_datetime_mod_rs_fn_and_local_timezone : C04_src_naive_datetime_mod_rs_fn_and_local_timezone =
    ["<", "Tz", "TimeZone", ">", "&", "self", "v1", "Tz", "->", "MappedLocalTime", "<", "DateTime", "<", "Tz", ">>", "v1", "from_local_datetime(", "self"] := by decide +kernel

/-- src/naive/datetime/mod.rs:fn and_utc -/
theorem src_naive_datetime_mod_rs_fn_and_utc : C04_src_naive_datetime_mod_rs_fn_and_utc =
    ["&", "self", "->", "DateTime", "<", "Utc", ">", "DateTime", "from_naive_utc_and_offset(", "*", "self", "Utc"] := by decide +kernel

/-- src/naive/datetime/mod.rs:fn checked_add_offset -/
theorem src_naive_datetime_mod_rs_fn_checked_add_offset : C04_src_naive_datetime_mod_rs_fn_checked_add_offset =
    ["self", "v1", "FixedOffset", "->", "Option", "<", "NaiveDateTime", ">", "let(", "v2", "v3", "self", "v2", "overflowing_add_offset(", "v1", "v4", "match", "v3", "-", "1", "=>", "try_opt!(", "self", "v4", "pred_opt(", "1", "=>", "try_opt!(", "self", "v4", "succ_opt(", "v5", "=>", "self", "v4", "Some(", "NaiveDateTime", "v4", "v2"] := by decide +kernel

/-- src/naive/datetime/mod.rs:fn checked_sub_offset -/
theorem src_naive_datetime_mod_rs_fn_checked_sub_offset : C04_src_naive_datetime_mod_rs_fn_checked_sub_offset =
    ["self", "v1", "FixedOffset", "->", "Option", "<", "NaiveDateTime", ">", "let(", "v2", "v3", "self", "v2", "overflowing_sub_offset(", "v1", "v4", "match", "v3", "-", "1", "=>", "try_opt!(", "self", "v4", "pred_opt(", "1", "=>", "try_opt!(", "self", "v4", "succ_opt(", "v5", "=>", "self", "v4", "Some(", "NaiveDateTime", "v4", "v2"] := by decide +kernel

/-- src/naive/datetime/mod.rs:fn overflowing_add_offset -/
theorem src_naive_datetime_mod_rs_fn_overflowing_add_offset : C04_src_naive_datetime_mod_rs_fn_overflowing_add_offset =
    ["self", "v1", "FixedOffset", "->", "NaiveDateTime", "let(", "v2", "v3", "self", "v2", "overflowing_add_offset(", "v1", "v4", "match", "v3", "-", "1", "=>", "self", "v4", "pred_opt(", "unwrap_or(", "NaiveDate", "BEFORE_MIN", "1", "=>", "self", "v4", "succ_opt(", "unwrap_or(", "NaiveDate", "AFTER_MAX", "v5", "=>", "self", "v4", "NaiveDateTime", "v4", "v2"] := by decide +kernel

/-- src/naive/datetime/mod.rs:impl Sub for NaiveDateTime -/
theorem src_naive_datetime_mod_rs_impl_Sub_for_NaiveDateTime : C04_src_naive_datetime_mod_rs_impl_Sub_for_NaiveDateTime =
    ["Sub", "<", "TimeDelta", ">", "for", "NaiveDateTime", "Output", "NaiveDateTime", "sub(", "self", "v1", "TimeDelta", "->", "NaiveDateTime", "self", "checked_sub_signed(", "v1", "expect(", "\"…\"", "§", "Sub", "<", "Duration", ">", "for", "NaiveDateTime", "Output", "NaiveDateTime", "sub(", "self", "v1", "Duration", "->", "NaiveDateTime", "v1", "TimeDelta", "from_std(", "v1", "expect(", "\"…\"", "self", "checked_sub_signed(", "v1", "expect(", "\"…\"", "§", "Sub", "<", "FixedOffset", ">", "for", "NaiveDateTime", "Output", "NaiveDateTime", "sub(", "self", "v1", "FixedOffset", "->", "NaiveDateTime", "self", "checked_sub_offset(", "v1", "expect(", "\"…\"", "§", "Sub", "<", "Months", ">", "for", "NaiveDateTime", "Output", "NaiveDateTime", "sub(", "self", "v1", "Months", "->", "Self", "Output", "self", "checked_sub_months(", "v1", "expect(", "\"…\"", "§", "Sub", "<", "NaiveDateTime", ">", "for", "NaiveDateTime", "Output", "TimeDelta", "sub(", "self", "v1", "NaiveDateTime", "->", "TimeDelta", "self", "signed_duration_since(", "v1", "§", "Sub", "<", "Days", ">", "for", "NaiveDateTime", "Output", "NaiveDateTime", "sub(", "self", "v1", "Days", "->", "Self", "Output", "self", "checked_sub_days(", "v1", "expect(", "\"…\""] := by decide +kernel

/-- src/offset/fixed.rs:fn east_opt -/
theorem src_offset_fixed_rs_fn_east_opt : C04_src_offset_fixed_rs_fn_east_opt =
    ["v1", "i32", "->", "Option", "<", "FixedOffset", ">", "if", "-", "86400", "<", "v1", "&&", "v1", "<", "86400", "Some(", "FixedOffset", "v2", "v1", "else", "None"] := by decide +kernel

/-- src/offset/fixed.rs:fn west_opt -/
theorem src_offset_fixed_rs_fn_west_opt : C04_src_offset_fixed_rs_fn_west_opt =
    ["v1", "i32", "->", "Option", "<", "FixedOffset", ">", "if", "-", "86400", "<", "v1", "&&", "v1", "<", "86400", "Some(", "FixedOffset", "v2", "-", "v1", "else", "None"] := by decide +kernel

/-- src/offset/fixed.rs:impl Offset for FixedOffset -/
theorem src_offset_fixed_rs_impl_Offset_for_FixedOffset : C04_src_offset_fixed_rs_impl_Offset_for_FixedOffset =
    ["Offset", "for", "FixedOffset", "fix(", "&", "self", "->", "FixedOffset", "*", "self"] := by decide +kernel

/-- src/offset/fixed.rs:impl TimeZone for FixedOffset -/
theorem src_offset_fixed_rs_impl_TimeZone_for_FixedOffset : C04_src_offset_fixed_rs_impl_TimeZone_for_FixedOffset =
    ["TimeZone", "for", "FixedOffset", "Offset", "FixedOffset", "from_offset(", "v1", "&", "FixedOffset", "->", "FixedOffset", "*", "v1", "offset_from_local_date(", "&", "self", "v2", "&", "NaiveDate", "->", "MappedLocalTime", "<", "FixedOffset", ">", "MappedLocalTime", "Single(", "*", "self", "offset_from_local_datetime(", "&", "self", "v2", "&", "NaiveDateTime", "->", "MappedLocalTime", "<", "FixedOffset", ">", "MappedLocalTime", "Single(", "*", "self", "offset_from_utc_date(", "&", "self", "v3", "&", "NaiveDate", "->", "FixedOffset", "*", "self", "offset_from_utc_datetime(", "&", "self", "v3", "&", "NaiveDateTime", "->", "FixedOffset", "*", "self"] := by decide +kernel

/-- src/offset/mod.rs:fn and_then -/
theorem src_offset_mod_rs_fn_and_then : C04_src_offset_mod_rs_fn_and_then =
    ["<", "U", "F", "FnMut(", "T", "->", "Option", "<", "U", ">>", "self", "v1", "F", "->", "MappedLocalTime", "<", "U", ">", "match", "self", "MappedLocalTime", "None", "=>", "MappedLocalTime", "None", "MappedLocalTime", "Single(", "v2", "=>", "match", "f(", "v2", "Some(", "v3", "=>", "MappedLocalTime", "Single(", "v3", "None", "=>", "MappedLocalTime", "None", "MappedLocalTime", "Ambiguous(", "v4", "v5", "=>", "match(", "f(", "v4", "f(", "v5", "Some(", "v4", "Some(", "v5", "=>", "MappedLocalTime", "Ambiguous(", "v4", "v5", "v6", "=>", "MappedLocalTime", "None"] := by decide +kernel

/-- src/offset/mod.rs:fn earliest -/
theorem src_offset_mod_rs_fn_earliest : C04_src_offset_mod_rs_fn_earliest =
    ["self", "->", "Option", "<", "T", ">", "match", "self", "MappedLocalTime", "Single(", "v1", "|", "MappedLocalTime", "Ambiguous(", "v1", "v2", "=>", "Some(", "v1", "v2", "=>", "None"] := by decide +kernel

/-- src/offset/mod.rs:fn from_local_datetime -/
theorem src_offset_mod_rs_fn_from_local_datetime : C04_src_offset_mod_rs_fn_from_local_datetime =
    ["&", "self", "v1", "&", "NaiveDateTime", "->", "MappedLocalTime", "<", "DateTime", "<", "Self", ">>", "self", "offset_from_local_datetime(", "v1", "and_then(", "|", "v2", "|", "v1", "checked_sub_offset(", "v2", "fix(", "map(", "|", "v3", "|", "DateTime", "from_naive_utc_and_offset(", "v3", "v2"] := by decide +kernel

/-- src/offset/mod.rs:fn from_utc_datetime -/
theorem src_offset_mod_rs_fn_from_utc_datetime : C04_src_offset_mod_rs_fn_from_utc_datetime =
    ["&", "self", "v1", "&", "NaiveDateTime", "->", "DateTime", "<", "Self", ">", "DateTime", "from_naive_utc_and_offset(", "*", "v1", "self", "offset_from_utc_datetime(", "v1"] := by decide +kernel

/-- src/offset/mod.rs:fn latest -/
theorem src_offset_mod_rs_fn_latest : C04_src_offset_mod_rs_fn_latest =
    ["self", "->", "Option", "<", "T", ">", "match", "self", "MappedLocalTime", "Single(", "v1", "|", "MappedLocalTime", "Ambiguous(", "v2", "v1", "=>", "Some(", "v1", "v2", "=>", "None"] := by decide +kernel

/-- src/offset/mod.rs:fn single -/
theorem src_offset_mod_rs_fn_single : C04_src_offset_mod_rs_fn_single =
    ["self", "->", "Option", "<", "T", ">", "match", "self", "MappedLocalTime", "Single(", "v1", "=>", "Some(", "v1", "v2", "=>", "None"] := by decide +kernel

/-- src/offset/mod.rs:fn with_ymd_and_hms -/
theorem src_offset_mod_rs_fn_with_ymd_and_hms : C04_src_offset_mod_rs_fn_with_ymd_and_hms =
    ["&", "self", "v1", "i32", "v2", "u32", "v3", "u32", "v4", "u32", "v5", "u32", "v6", "u32", "->", "MappedLocalTime", "<", "DateTime", "<", "Self", ">>", "match", "NaiveDate", "from_ymd_opt(", "v1", "v2", "v3", "and_then(", "|", "v7", "|", "v7", "and_hms_opt(", "v4", "v5", "v6", "Some(", "v8", "=>", "self", "from_local_datetime(", "&", "v8", "None", "=>", "MappedLocalTime", "None"] := by decide +kernel

/-- src/offset/utc.rs:impl Offset for Utc -/
theorem src_offset_utc_rs_impl_Offset_for_Utc : C04_src_offset_utc_rs_impl_Offset_for_Utc =
    ["Offset", "for", "Utc", "fix(", "&", "self", "->", "FixedOffset", "FixedOffset", "east_opt(", "0", "unwrap("] := by decide +kernel

/-- src/offset/utc.rs:impl TimeZone for Utc -/
theorem src_offset_utc_rs_impl_TimeZone_for_Utc : C04_src_offset_utc_rs_impl_TimeZone_for_Utc =
    ["TimeZone", "for", "Utc", "Offset", "Utc", "from_offset(", "v1", "&", "Utc", "->", "Utc", "Utc", "offset_from_local_date(", "&", "self", "v2", "&", "NaiveDate", "->", "MappedLocalTime", "<", "Utc", ">", "MappedLocalTime", "Single(", "Utc", "offset_from_local_datetime(", "&", "self", "v2", "&", "NaiveDateTime", "->", "MappedLocalTime", "<", "Utc", ">", "MappedLocalTime", "Single(", "Utc", "offset_from_utc_date(", "&", "self", "v3", "&", "NaiveDate", "->", "Utc", "Utc", "offset_from_utc_datetime(", "&", "self", "v3", "&", "NaiveDateTime", "->", "Utc", "Utc"] := by decide +kernel

/-- src/traits.rs:fn hour12 -/
theorem src_traits_rs_fn_hour12 : C04_src_traits_rs_fn_hour12 =
    ["&", "self", "->", "bool", "u32", "v1", "self", "hour(", "v2", "v1", "%", "12", "if", "v2", "==", "0", "v2", "12", "v1", ">=", "12", "v2"] := by decide +kernel

/-- src/traits.rs:fn num_seconds_from_midnight -/
theorem src_traits_rs_fn_num_seconds_from_midnight : C04_src_traits_rs_fn_num_seconds_from_midnight =
    ["&", "self", "->", "u32", "self", "hour(", "*", "3600", "+", "self", "minute(", "*", "60", "+", "self", "second("] := by decide +kernel

/-- src/traits.rs:fn quarter -/
theorem src_traits_rs_fn_quarter : C04_src_traits_rs_fn_quarter =
    ["&", "self", "->", "u32", "self", "month(", "-", "1", "div_euclid(", "3", "+", "1"] := by decide +kernel

/-- src/traits.rs:fn year_ce -/
theorem src_traits_rs_fn_year_ce : C04_src_traits_rs_fn_year_ce =
    ["&", "self", "->", "bool", "u32", "v1", "self", "year(", "if", "v1", "<", "1", "false", "1", "-", "v1", "as", "u32", "else", "true", "v1", "as", "u32"] := by decide +kernel

/-- callee src/datetime/mod.rs:fn from_naive_utc_and_offset -/
theorem callee_src_datetime_mod_rs_fn_from_naive_utc_and_offset : C04_callee_src_datetime_mod_rs_fn_from_naive_utc_and_offset =
    ["v1", "NaiveDateTime", "v2", "Tz", "Offset", "->", "DateTime", "<", "Tz", ">", "DateTime", "v1", "v2"] := by decide +kernel

/-- callee src/format/formatting.rs:fn new_with_offset -/
theorem callee_src_format_formatting_rs_fn_new_with_offset : C04_callee_src_format_formatting_rs_fn_new_with_offset =
    ["<", "Off", ">", "v1", "Option", "<", "NaiveDate", ">", "v2", "Option", "<", "NaiveTime", ">", "v3", "&", "Off", "v4", "I", "->", "DelayedFormat", "<", "I", ">", "Off", "Offset", "+", "Display", "v5", "v3", "to_string(", "v3", "fix(", "DelayedFormat", "v1", "v2", "v6", "Some(", "v5", "v4", "v7", "default_locale("] := by decide +kernel

/-- callee src/format/formatting.rs:fn new_with_offset_and_locale -/
theorem callee_src_format_formatting_rs_fn_new_with_offset_and_locale : C04_callee_src_format_formatting_rs_fn_new_with_offset_and_locale =
    ["<", "Off", ">", "v1", "Option", "<", "NaiveDate", ">", "v2", "Option", "<", "NaiveTime", ">", "v3", "&", "Off", "v4", "I", "v5", "Locale", "->", "DelayedFormat", "<", "I", ">", "Off", "Offset", "+", "Display", "v6", "v3", "to_string(", "v3", "fix(", "DelayedFormat", "v1", "v2", "v7", "Some(", "v6", "v4", "v5"] := by decide +kernel

/-- callee src/format/formatting.rs:fn write_hundreds -/
theorem callee_src_format_formatting_rs_fn_write_hundreds : C04_callee_src_format_formatting_rs_fn_write_hundreds =
    ["v1", "&", "Write", "v2", "u8", "->", "v3", "Result", "if", "v2", ">=", "100", "return", "Err(", "v3", "Error", "v4", "b'0'", "+", "v2", "/", "10", "v5", "b'0'", "+", "v2", "%", "10", "v1", "write_char(", "v4", "as", "char", "?", "v1", "write_char(", "v5", "as", "char"] := by decide +kernel

/-- callee src/format/formatting.rs:fn write_rfc2822 -/
theorem callee_src_format_formatting_rs_fn_write_rfc2822 : C04_callee_src_format_formatting_rs_fn_write_rfc2822 =
    ["v1", "&", "Write", "v2", "NaiveDateTime", "v3", "FixedOffset", "->", "v4", "Result", "v5", "v2", "year(", "if!(", "0", "..=", "9999", "contains(", "&", "v5", "return", "Err(", "v4", "Error", "v6", "default_locale(", "v1", "write_str(", "short_weekdays(", "v6", "v2", "weekday(", "num_days_from_sunday(", "as", "usize", "?", "v1", "write_str(", "\", \"", "?", "v7", "v2", "day(", "if", "v7", "<", "10", "v1", "write_char(", "b'0'", "+", "v7", "as", "u8", "as", "char", "?", "else", "write_hundreds(", "v1", "v7", "as", "u8", "?", "v1", "write_char(", "' '", "?", "v1", "write_str(", "short_months(", "v6", "v2", "month0(", "as", "usize", "?", "v1", "write_char(", "' '", "?", "write_hundreds(", "v1", "v5", "/", "100", "as", "u8", "?", "write_hundreds(", "v1", "v5", "%", "100", "as", "u8", "?", "v1", "write_char(", "' '", "?", "let(", "v8", "v9", "v10", "v2", "time(", "hms(", "write_hundreds(", "v1", "v8", "as", "u8", "?", "v1", "write_char(", "':'", "?", "write_hundreds(", "v1", "v9", "as", "u8", "?", "v1", "write_char(", "':'", "?", "v10", "v10", "+", "v2", "nanosecond(", "/", "1000000000", "write_hundreds(", "v1", "v10", "as", "u8", "?", "v1", "write_char(", "' '", "?", "OffsetFormat", "v11", "OffsetPrecision", "Minutes", "v12", "Colons", "None", "v13", "false", "v14", "Pad", "Zero", "format(", "v1", "v3"] := by decide +kernel

/-- callee src/format/formatting.rs:fn write_rfc3339 -/
theorem callee_src_format_formatting_rs_fn_write_rfc3339 : C04_callee_src_format_formatting_rs_fn_write_rfc3339 =
    ["v1", "&", "Write", "v2", "NaiveDateTime", "v3", "FixedOffset", "v4", "SecondsFormat", "v5", "bool", "->", "v6", "Result", "v7", "v2", "date(", "year(", "if(", "0", "..=", "9999", "contains(", "&", "v7", "write_hundreds(", "v1", "v7", "/", "100", "as", "u8", "?", "write_hundreds(", "v1", "v7", "%", "100", "as", "u8", "?", "else", "write!(", "v1", "\"{:+05}\"", "v7", "?", "v1", "write_char(", "'-'", "?", "write_hundreds(", "v1", "v2", "date(", "month(", "as", "u8", "?", "v1", "write_char(", "'-'", "?", "write_hundreds(", "v1", "v2", "date(", "day(", "as", "u8", "?", "v1", "write_char(", "'T'", "?", "let(", "v8", "v9", "v10", "v2", "time(", "hms(", "v11", "v2", "nanosecond(", "if", "v11", ">=", "1000000000", "v10", "+=", "1", "v11", "-=", "1000000000", "write_hundreds(", "v1", "v8", "as", "u8", "?", "v1", "write_char(", "':'", "?", "write_hundreds(", "v1", "v9", "as", "u8", "?", "v1", "write_char(", "':'", "?", "v10", "v10", "write_hundreds(", "v1", "v10", "as", "u8", "?", "match", "v4", "SecondsFormat", "Secs", "=>", "SecondsFormat", "Millis", "=>", "write!(", "v1", "\".{:03}\"", "v11", "/", "1000000", "?", "SecondsFormat", "Micros", "=>", "write!(", "v1", "\".{:06}\"", "v11", "/", "1000", "?", "SecondsFormat", "Nanos", "=>", "write!(", "v1", "\".{:09}\"", "v11", "?", "SecondsFormat", "AutoSi", "=>", "if", "v11", "==", "0", "else", "if", "v11", "%", "1000000", "==", "0", "write!(", "v1", "\".{:03}\"", "v11", "/", "1000000", "?", "else", "if", "v11", "%", "1000", "==", "0", "write!(", "v1", "\".{:06}\"", "v11", "/", "1000", "?", "else", "write!(", "v1", "\".{:09}\"", "v11", "?", "SecondsFormat", "__NonExhaustive", "=>", "unreachable!(", "OffsetFormat", "v12", "OffsetPrecision", "Minutes", "v13", "Colons", "Colon", "v14", "v5", "v15", "Pad", "Zero", "format(", "v1", "v3"] := by decide +kernel

/-- callee src/naive/date/mod.rs:fn from_mdf -/
theorem callee_src_naive_date_mod_rs_fn_from_mdf : C04_callee_src_naive_date_mod_rs_fn_from_mdf =
    ["v1", "i32", "v2", "Mdf", "->", "Option", "<", "NaiveDate", ">", "if", "v1", "<", "MIN_YEAR", "||", "v1", ">", "MAX_YEAR", "return", "None", "Some(", "NaiveDate", "from_yof(", "v1", "<<", "13", "|", "try_opt!(", "v2", "ordinal_and_flags("] := by decide +kernel

/-- callee src/naive/date/mod.rs:fn from_ymd_opt -/
theorem callee_src_naive_date_mod_rs_fn_from_ymd_opt : C04_callee_src_naive_date_mod_rs_fn_from_ymd_opt =
    ["v1", "i32", "v2", "u32", "v3", "u32", "->", "Option", "<", "NaiveDate", ">", "v4", "YearFlags", "from_year(", "v1", "if", "Some(", "v5", "Mdf", "new(", "v2", "v3", "v4", "NaiveDate", "from_mdf(", "v1", "v5", "else", "None"] := by decide +kernel

/-- callee src/naive/date/mod.rs:fn mdf -/
theorem callee_src_naive_date_mod_rs_fn_mdf : C04_callee_src_naive_date_mod_rs_fn_mdf =
    ["&", "self", "->", "Mdf", "Mdf", "from_ol(", "self", "yof(", "&", "OL_MASK", ">>", "3", "self", "year_flags("] := by decide +kernel

/-- callee src/naive/date/mod.rs:fn yof -/
theorem callee_src_naive_date_mod_rs_fn_yof : C04_callee_src_naive_date_mod_rs_fn_yof =
    ["&", "self", "->", "i32", "self", "v1", "get("] := by decide +kernel

/-- callee src/naive/internals.rs:fn from_ol -/
theorem callee_src_naive_internals_rs_fn_from_ol : C04_callee_src_naive_internals_rs_fn_from_ol =
    ["v1", "i32", "YearFlags(", "v2", "YearFlags", "->", "Mdf", "debug_assert!(", "v1", ">", "1", "&&", "v1", "<=", "MAX_OL", "as", "i32", "Mdf(", "v1", "as", "u32", "+", "OL_TO_MDL", "v1", "as", "usize", "as", "u32", "<<", "3", "|", "v2", "as", "u32"] := by decide +kernel

/-- callee src/naive/internals.rs:fn from_year -/
theorem callee_src_naive_internals_rs_fn_from_year : C04_callee_src_naive_internals_rs_fn_from_year =
    ["v1", "i32", "->", "YearFlags", "v1", "v1", "rem_euclid(", "400", "YearFlags", "from_year_mod_400(", "v1"] := by decide +kernel

/-- callee src/naive/internals.rs:fn from_year_mod_400 -/
theorem callee_src_naive_internals_rs_fn_from_year_mod_400 : C04_callee_src_naive_internals_rs_fn_from_year_mod_400 =
    ["v1", "i32", "->", "YearFlags", "YEAR_TO_FLAGS", "v1", "as", "usize"] := by decide +kernel

/-- callee src/naive/internals.rs:fn ordinal_and_flags -/
theorem callee_src_naive_internals_rs_fn_ordinal_and_flags : C04_callee_src_naive_internals_rs_fn_ordinal_and_flags =
    ["&", "self", "->", "Option", "<", "i32", ">", "v1", "self", ">>", "3", "match", "MDL_TO_OL", "v1", "as", "usize", "XX", "=>", "None", "v2", "=>", "Some(", "self", "as", "i32", "-", "v2", "as", "i32", "<<", "3"] := by decide +kernel

/-- callee src/naive/time/mod.rs:fn hms -/
theorem callee_src_naive_time_mod_rs_fn_hms : C04_callee_src_naive_time_mod_rs_fn_hms =
    ["&", "self", "->", "u32", "u32", "u32", "v1", "self", "v2", "%", "60", "v3", "self", "v2", "/", "60", "v4", "v3", "%", "60", "v5", "v3", "/", "60", "v5", "v4", "v1"] := by decide +kernel

/-- callee src/offset/mod.rs:fn timestamp_millis_opt -/
theorem callee_src_offset_mod_rs_fn_timestamp_millis_opt : C04_callee_src_offset_mod_rs_fn_timestamp_millis_opt =
    ["&", "self", "v1", "i64", "->", "MappedLocalTime", "<", "DateTime", "<", "Self", ">>", "match", "DateTime", "from_timestamp_millis(", "v1", "Some(", "v2", "=>", "MappedLocalTime", "Single(", "self", "from_utc_datetime(", "&", "v2", "naive_utc(", "None", "=>", "MappedLocalTime", "None"] := by decide +kernel

/-- callee src/offset/mod.rs:fn timestamp_opt -/
theorem callee_src_offset_mod_rs_fn_timestamp_opt : C04_callee_src_offset_mod_rs_fn_timestamp_opt =
    ["&", "self", "v1", "i64", "v2", "u32", "->", "MappedLocalTime", "<", "DateTime", "<", "Self", ">>", "match", "DateTime", "from_timestamp(", "v1", "v2", "Some(", "v3", "=>", "MappedLocalTime", "Single(", "self", "from_utc_datetime(", "&", "v3", "naive_utc(", "None", "=>", "MappedLocalTime", "None"] := by decide +kernel

/-- callee src/time_delta.rs:fn from_std -/
theorem callee_src_time_delta_rs_fn_from_std : C04_callee_src_time_delta_rs_fn_from_std =
    ["v1", "Duration", "->", "Result", "<", "TimeDelta", "OutOfRangeError", ">", "if", "v1", "as_secs(", ">", "MAX", "v2", "as", "u64", "return", "Err(", "OutOfRangeError(", "match", "TimeDelta", "new(", "v1", "as_secs(", "as", "i64", "v1", "subsec_nanos(", "Some(", "v3", "=>", "Ok(", "v3", "None", "=>", "Err(", "OutOfRangeError("] := by decide +kernel

/-- callee src/time_delta.rs:fn subsec_nanos -/
theorem callee_src_time_delta_rs_fn_subsec_nanos : C04_callee_src_time_delta_rs_fn_subsec_nanos =
    ["&", "self", "->", "i32", "if", "self", "v1", "<", "0", "&&", "self", "v2", ">", "0", "self", "v2", "-", "NANOS_PER_SEC", "else", "self", "v2"] := by decide +kernel

/-- callee src/weekday.rs:fn days_since -/
theorem callee_src_weekday_rs_fn_days_since : C04_callee_src_weekday_rs_fn_days_since =
    ["&", "self", "v1", "Weekday", "->", "u32", "v2", "*", "self", "as", "u32", "v3", "v1", "as", "u32", "if", "v2", "<", "v3", "7", "+", "v2", "-", "v3", "else", "v2", "-", "v3"] := by decide +kernel

/-- callee src/weekday.rs:fn num_days_from_sunday -/
theorem callee_src_weekday_rs_fn_num_days_from_sunday : C04_callee_src_weekday_rs_fn_num_days_from_sunday =
    ["&", "self", "->", "u32", "self", "days_since(", "Weekday", "Sun"] := by decide +kernel

end Chrono.Pins.C04
