/-
  PINS of property C18: the decision tokens of every item the property is anchored in
  (properties.jsonl `anchors` + tools/anchor_extra.json), as they were in /repo at b30ed81 when the
  model was validated against the source.  Written by tools/pin_anchors.py; the right-hand sides are
  compared by the kernel with lean/Chrono/Extracted/Anchors.lean, which tools/extractors/anchors.py
  regenerates from /repo's working tree on every check.  A theorem that fails here means: anchored
  code changed; the hand-written model may no longer mirror it.
-/
import Chrono.Extracted.Anchors
namespace Chrono.Pins.C18
open Chrono.Extracted.Anchors

/-- src/offset/local/tz_info/timezone.rs:const ZONE_INFO_DIRECTORIES -/
theorem src_offset_local_tz_info_timezone_rs_const_ZONE_INFO_DIRECTORIES : C18_src_offset_local_tz_info_timezone_rs_const_ZONE_INFO_DIRECTORIES =
    ["&", "str", "4", "\"…\"", "\"…\"", "\"…\"", "\"…\""] := by decide +kernel

/-- src/offset/local/tz_info/timezone.rs:fn find_tz_file -/
theorem src_offset_local_tz_info_timezone_rs_fn_find_tz_file : C18_src_offset_local_tz_info_timezone_rs_fn_find_tz_file =
    ["v1", "AsRef", "<", "Path", ">", "->", "Result", "<", "File", "Error", ">", "return", "Ok(", "File", "open(", "v1", "?", "v1", "v1", "as_ref(", "if", "v1", "is_absolute(", "return", "Ok(", "File", "open(", "v1", "?", "for", "v2", "in", "&", "ZONE_INFO_DIRECTORIES", "if", "Ok(", "v3", "File", "open(", "PathBuf", "from(", "v2", "join(", "v1", "return", "Ok(", "v3", "Err(", "Error", "Io(", "v4", "ErrorKind", "NotFound", "into("] := by decide +kernel

/-- src/offset/local/tz_info/timezone.rs:fn from_posix_tz -/
theorem src_offset_local_tz_info_timezone_rs_fn_from_posix_tz : C18_src_offset_local_tz_info_timezone_rs_fn_from_posix_tz =
    ["v1", "&", "str", "->", "Result", "<", "Self", "Error", ">", "if", "v1", "is_empty(", "return", "Ok(", "Self", "utc(", "if", "v1", "==", "\"localtime\"", "return", "Self", "from_tz_data(", "&", "v2", "read(", "\"…\"", "?", "if", "Ok(", "v3", "v4", "find_tz_data(", "v1", "return", "Self", "from_tz_data(", "&", "v3", "return", "Self", "from_tz_data(", "&", "find_ohos_tz_data(", "v1", "?", "v5", "v1", "chars(", "if", "v5", "next(", "==", "Some(", "':'", "return", "Self", "from_file(", "&", "find_tz_file(", "v5", "as_str(", "?", "if", "Ok(", "v6", "find_tz_file(", "v1", "return", "Self", "from_file(", "&", "v6", "v1", "v1", "trim_matches(", "|", "v7", "char", "|", "v7", "is_ascii_whitespace(", "v8", "TransitionRule", "from_tz_string(", "v1", "as_bytes(", "false", "?", "Self", "new(", "v9", "!", "match", "v8", "TransitionRule", "Fixed(", "v10", "=>", "v9", "!", "v10", "TransitionRule", "Alternate(", "AlternateTime", "v11", "v12", "..", "=>", "v9", "!", "v11", "v12", "v9", "!", "Some(", "v8"] := by decide +kernel

/-- src/offset/local/tz_info/timezone.rs:fn local -/
theorem src_offset_local_tz_info_timezone_rs_fn_local : C18_src_offset_local_tz_info_timezone_rs_fn_local =
    ["v1", "Option", "<", "&", "str", ">", "->", "Result", "<", "Self", "Error", ">", "match", "v1", "Some(", "v2", "=>", "Self", "from_posix_tz(", "v2", "None", "=>", "Self", "from_posix_tz(", "\"localtime\""] := by decide +kernel

/-- src/offset/local/unix.rs:const TZ_INFO -/
theorem src_offset_local_unix_rs_const_TZ_INFO : C18_src_offset_local_unix_rs_const_TZ_INFO =
    ["RefCell", "<", "Option", "<", "Cache", ">>", "Default", "default("] := by decide +kernel

/-- src/offset/local/unix.rs:fn current_zone -/
theorem src_offset_local_unix_rs_fn_current_zone : C18_src_offset_local_unix_rs_fn_current_zone =
    ["v1", "Option", "<", "&", "str", ">", "->", "TimeZone", "TimeZone", "local(", "v1", "ok(", "or_else(", "v2", "unwrap_or_else(", "TimeZone", "v3"] := by decide +kernel

/-- src/offset/local/unix.rs:fn default -/
theorem src_offset_local_unix_rs_fn_default : C18_src_offset_local_unix_rs_fn_default =
    ["->", "Cache", "v1", "v2", "var(", "\"TZ\"", "ok(", "v3", "v1", "as_deref(", "Cache", "v4", "SystemTime", "now(", "v5", "Source", "new(", "v3", "v6", "current_zone(", "v3"] := by decide +kernel

/-- src/offset/local/unix.rs:fn fallback_timezone -/
theorem src_offset_local_unix_rs_fn_fallback_timezone : C18_src_offset_local_unix_rs_fn_fallback_timezone =
    ["->", "Option", "<", "TimeZone", ">", "v1", "v2", "get_timezone(", "ok(", "?", "v3", "v4", "read(", "format!(", "\"{}/{}\"", "TZDB_LOCATION", "v1", "ok(", "?", "v3", "v5", "find_tz_data(", "&", "v1", "ok(", "?", "TimeZone", "from_tz_data(", "&", "v3", "ok("] := by decide +kernel

/-- src/offset/local/unix.rs:fn new -/
theorem src_offset_local_unix_rs_fn_new : C18_src_offset_local_unix_rs_fn_new =
    ["v1", "Option", "<", "&", "str", ">", "->", "Source", "match", "v1", "Some(", "v2", "=>", "v3", "v4", "DefaultHasher", "new(", "v3", "write(", "v2", "as_bytes(", "v5", "v3", "finish(", "Source", "Environment", "v5", "None", "=>", "match", "v6", "symlink_metadata(", "\"…\"", "Ok(", "v7", "=>", "Source", "LocalTime", "v8", "v7", "modified(", "unwrap_or_else(", "|", "v9", "|", "SystemTime", "now(", "Err(", "v9", "=>", "Source", "LocalTime", "v8", "SystemTime", "now("] := by decide +kernel

/-- src/offset/local/unix.rs:fn offset -/
theorem src_offset_local_unix_rs_fn_offset : C18_src_offset_local_unix_rs_fn_offset =
    ["v1", "&", "NaiveDateTime", "v2", "bool", "->", "MappedLocalTime", "<", "FixedOffset", ">", "TZ_INFO", "with(", "|", "v3", "|", "v3", "borrow_mut(", "get_or_insert_with(", "Cache", "v4", "offset(", "*", "v1", "v2", "§", "&", "self", "v1", "NaiveDateTime", "v2", "bool", "->", "MappedLocalTime", "<", "FixedOffset", ">", "v3", "SystemTime", "now(", "match", "v3", "duration_since(", "self", "v4", "Ok(", "v1", "if", "v1", "as_secs(", "<", "1", "=>", "Ok(", "v5", "|", "Err(", "v5", "=>", "v6", "v7", "var(", "\"TZ\"", "ok(", "v8", "v6", "as_deref(", "v9", "Source", "new(", "v8", "v10", "match(", "&", "self", "v11", "&", "v9", "Source", "Environment", "..", "Source", "LocalTime", "..", "|", "Source", "LocalTime", "..", "Source", "Environment", "..", "=>", "true", "Source", "LocalTime", "v12", "v13", "Source", "LocalTime", "v12", "if", "v13", "!=", "v12", "=>", "true", "Source", "Environment", "v14", "v15", "Source", "Environment", "v14", "if", "v15", "!=", "v14", "=>", "true", "v5", "=>", "false", "if", "v10", "self", "v16", "current_zone(", "v8", "self", "v4", "v3", "self", "v11", "v9", "if", "!", "v2", "v17", "self", "v16", "find_local_time_type(", "v1", "and_utc(", "timestamp(", "expect(", "\"…\"", "offset(", "return", "match", "FixedOffset", "east_opt(", "v17", "Some(", "v17", "=>", "MappedLocalTime", "Single(", "v17", "None", "=>", "MappedLocalTime", "None", "self", "v16", "find_local_time_type_from_local(", "v1", "expect(", "\"…\"", "and_then(", "|", "v18", "|", "FixedOffset", "east_opt(", "v18", "offset("] := by decide +kernel

end Chrono.Pins.C18
