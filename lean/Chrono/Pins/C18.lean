/-
  PINS of property C18: the decision tokens of every item the property is anchored in
  (properties.jsonl `anchors` + tools/anchor_extra.json), as they were in /repo at 770977e when the
  model was validated against the source.  Written by tools/pin_anchors.py; the right-hand sides are
  compared by the kernel with lean/Chrono/Extracted/Anchors.lean, which tools/extractors/anchors.py
  regenerates from /repo's working tree on every check.  A theorem that fails here means: anchored
  code changed; the hand-written model may no longer mirror it.
-/
import Chrono.Extracted.Anchors
namespace Chrono.Pins.C18
open Chrono.Extracted.Anchors

/-- src/offset/local/mod.rs:fn now -/
theorem src_offset_local_mod_rs_fn_now : C18_src_offset_local_mod_rs_fn_now =
    ["->", "DateTime", "<", "Local", ">", "Utc", "now(", "with_timezone(", "&", "Local"] := by decide +kernel

/-- src/offset/local/mod.rs:fn offset_from_local_datetime -/
theorem src_offset_local_mod_rs_fn_offset_from_local_datetime : C18_src_offset_local_mod_rs_fn_offset_from_local_datetime =
    ["v1", "&", "NaiveDateTime", "->", "MappedLocalTime", "<", "FixedOffset", ">", "MappedLocalTime", "Single(", "FixedOffset", "east_opt(", "0", "unwrap(", "§", "v1", "&", "NaiveDateTime", "->", "MappedLocalTime", "<", "FixedOffset", ">", "v2", "v1", "year(", "if", "v2", "<", "100", "v3", "v2", "-", "100", "div_euclid(", "400", "v2", "-=", "v3", "*", "400", "v4", "v5", "Date", "new_with_year_month_day_hr_min_sec(", "v2", "as", "u32", "v1", "month0(", "as", "i32", "v1", "day(", "as", "i32", "v1", "hour(", "as", "i32", "v1", "minute(", "as", "i32", "v1", "second(", "as", "i32", "v6", "v4", "get_timezone_offset(", "MappedLocalTime", "Single(", "FixedOffset", "west_opt(", "v6", "as", "i32", "*", "60", "unwrap(", "§", "&", "self", "v1", "&", "NaiveDateTime", "->", "MappedLocalTime", "<", "FixedOffset", ">", "v2", "offset_from_local_datetime(", "v1"] := by decide +kernel

/-- src/offset/local/mod.rs:fn offset_from_utc_datetime -/
theorem src_offset_local_mod_rs_fn_offset_from_utc_datetime : C18_src_offset_local_mod_rs_fn_offset_from_utc_datetime =
    ["v1", "&", "NaiveDateTime", "->", "MappedLocalTime", "<", "FixedOffset", ">", "MappedLocalTime", "Single(", "FixedOffset", "east_opt(", "0", "unwrap(", "§", "v1", "&", "NaiveDateTime", "->", "MappedLocalTime", "<", "FixedOffset", ">", "v2", "v3", "Date", "from(", "v1", "and_utc(", "get_timezone_offset(", "MappedLocalTime", "Single(", "FixedOffset", "west_opt(", "v2", "as", "i32", "*", "60", "unwrap(", "§", "&", "self", "v1", "&", "NaiveDateTime", "->", "FixedOffset", "v2", "offset_from_utc_datetime(", "v1", "unwrap("] := by decide +kernel

/-- src/offset/local/tz_info/timezone.rs:const ZONE_INFO_DIRECTORIES -/
theorem src_offset_local_tz_info_timezone_rs_const_ZONE_INFO_DIRECTORIES : C18_src_offset_local_tz_info_timezone_rs_const_ZONE_INFO_DIRECTORIES =
    ["&", "str", "4", "\"…\"", "\"…\"", "\"…\"", "\"…\""] := by decide +kernel

/-- src/offset/local/tz_info/timezone.rs:fn find_tz_file -/
theorem src_offset_local_tz_info_timezone_rs_fn_find_tz_file : C18_src_offset_local_tz_info_timezone_rs_fn_find_tz_file =
    ["v1", "AsRef", "<", "Path", ">", "->", "Result", "<", "File", "Error", ">", "return", "Ok(", "File", "open(", "v1", "?", "v1", "v1", "as_ref(", "if", "v1", "is_absolute(", "return", "Ok(", "File", "open(", "v1", "?", "for", "v2", "in", "&", "ZONE_INFO_DIRECTORIES", "if", "Ok(", "v3", "File", "open(", "PathBuf", "from(", "v2", "join(", "v1", "return", "Ok(", "v3", "Err(", "Error", "Io(", "v4", "ErrorKind", "NotFound", "into("] := by decide +kernel

/-- src/offset/local/tz_info/timezone.rs:fn from_posix_tz -/
theorem src_offset_local_tz_info_timezone_rs_fn_from_posix_tz : C18_src_offset_local_tz_info_timezone_rs_fn_from_posix_tz =
    ["v1", "&", "str", "->", "Result", "<", "Self", "Error", ">", "if", "v1", "is_empty(", "return", "Ok(", "Self", "utc(", "if", "v1", "==", "\"localtime\"", "return", "Self", "from_tz_data(", "&", "v2", "read(", "\"…\"", "?", "if", "Ok(", "v3", "v4", "find_tz_data(", "v1", "return", "Self", "from_tz_data(", "&", "v3", "return", "Self", "from_tz_data(", "&", "find_ohos_tz_data(", "v1", "?", "v5", "v1", "chars(", "if", "v5", "next(", "==", "Some(", "':'", "return", "Self", "from_file(", "&", "find_tz_file(", "v5", "as_str(", "?", "if", "Ok(", "v6", "find_tz_file(", "v1", "return", "Self", "from_file(", "&", "v6", "v1", "v1", "trim_matches(", "|", "v7", "char", "|", "v7", "is_ascii_whitespace(", "v8", "TransitionRule", "from_tz_string(", "v1", "as_bytes(", "false", "?", "Self", "new(", "v9", "!", "match", "v8", "TransitionRule", "Fixed(", "v10", "=>", "v9", "!", "v10", "TransitionRule", "Alternate(", "AlternateTime", "v11", "v12", "..", "=>", "v9", "!", "v11", "v12", "v9", "!", "Some(", "v8"] := by decide +kernel

/-- src/offset/local/tz_info/timezone.rs:fn local -/
theorem src_offset_local_tz_info_timezone_rs_fn_local : C18_src_offset_local_tz_info_timezone_rs_fn_local =
    ["v1", "Option", "<", "&", "str", ">", "->", "Result", "<", "Self", "Error", ">", "match", "v1", "Some(", "v2", "=>", "Self", "from_posix_tz(", "v2", "None", "=>", "Self", "from_posix_tz(", "\"localtime\""] := by decide +kernel

/-- src/offset/local/unix.rs:const TZ_INFO -/
theorem src_offset_local_unix_rs_const_TZ_INFO : C18_src_offset_local_unix_rs_const_TZ_INFO =
    ["RefCell", "<", "Option", "<", "Cache", ">>", "Default", "default("] := by decide +kernel

/-- src/offset/local/unix.rs:fn current_zone -/
theorem src_offset_local_unix_rs_fn_current_zone : C18_src_offset_local_unix_rs_fn_current_zone =
    ["v1", "Option", "<", "&", "str", ">", "->", "TimeZone", "TimeZone", "local(", "v1", "ok(", "or_else(", "v2", "unwrap_or_else(", "TimeZone", "v3"] := by decide +kernel

/-- src/offset/local/unix.rs:fn default -/
theorem src_offset_local_unix_rs_fn_default : C18_src_offset_local_unix_rs_fn_default =
    ["->", "Cache", "v1", "v2", "var(", "\"TZ\"", "ok(", "v3", "v1", "as_deref(", "Cache", "v4", "SystemTime", "now(", "v5", "Source", "new(", "v3", "v6", "current_zone(", "v3"] := by decide +kernel

/-- src/offset/local/unix.rs:fn fallback_timezone -/
theorem src_offset_local_unix_rs_fn_fallback_timezone : C18_src_offset_local_unix_rs_fn_fallback_timezone =
    ["->", "Option", "<", "TimeZone", ">", "v1", "v2", "get_timezone(", "ok(", "?", "v3", "v4", "read(", "format!(", "\"{}/{}\"", "TZDB_LOCATION", "v1", "ok(", "?", "v3", "v5", "find_tz_data(", "&", "v1", "ok(", "?", "TimeZone", "from_tz_data(", "&", "v3", "ok("] := by decide +kernel

/-- src/offset/local/unix.rs:fn new -/
theorem src_offset_local_unix_rs_fn_new : C18_src_offset_local_unix_rs_fn_new =
    ["v1", "Option", "<", "&", "str", ">", "->", "Source", "match", "v1", "Some(", "v2", "=>", "Source", "Environment", "v2", "v2", "to_owned(", "None", "=>", "match", "v3", "symlink_metadata(", "\"…\"", "Ok(", "v4", "=>", "Source", "LocalTime", "v5", "v4", "modified(", "unwrap_or_else(", "|", "v6", "|", "SystemTime", "now(", "Err(", "v6", "=>", "Source", "LocalTime", "v5", "SystemTime", "now("] := by decide +kernel

/-- src/offset/local/unix.rs:fn offset -/
theorem src_offset_local_unix_rs_fn_offset : C18_src_offset_local_unix_rs_fn_offset =
    ["v1", "&", "NaiveDateTime", "v2", "bool", "->", "MappedLocalTime", "<", "FixedOffset", ">", "TZ_INFO", "with(", "|", "v3", "|", "v3", "borrow_mut(", "get_or_insert_with(", "Cache", "v4", "offset(", "*", "v1", "v2", "§", "&", "self", "v1", "NaiveDateTime", "v2", "bool", "->", "MappedLocalTime", "<", "FixedOffset", ">", "v3", "SystemTime", "now(", "match", "v3", "duration_since(", "self", "v4", "Ok(", "v1", "if", "v1", "as_secs(", "<", "1", "=>", "Ok(", "v5", "|", "Err(", "v5", "=>", "v6", "v7", "var(", "\"TZ\"", "ok(", "v8", "v6", "as_deref(", "v9", "Source", "new(", "v8", "v10", "match(", "&", "self", "v11", "&", "v9", "Source", "Environment", "..", "Source", "LocalTime", "..", "|", "Source", "LocalTime", "..", "Source", "Environment", "..", "=>", "true", "Source", "LocalTime", "v12", "v13", "Source", "LocalTime", "v12", "if", "v13", "!=", "v12", "=>", "true", "Source", "Environment", "v14", "v15", "Source", "Environment", "v14", "if", "v15", "!=", "v14", "=>", "true", "v5", "=>", "false", "if", "v10", "self", "v16", "current_zone(", "v8", "self", "v4", "v3", "self", "v11", "v9", "if", "!", "v2", "v17", "self", "v16", "find_local_time_type(", "v1", "and_utc(", "timestamp(", "expect(", "\"…\"", "offset(", "return", "match", "FixedOffset", "east_opt(", "v17", "Some(", "v17", "=>", "MappedLocalTime", "Single(", "v17", "None", "=>", "MappedLocalTime", "None", "self", "v16", "find_local_time_type_from_local(", "v1", "expect(", "\"…\"", "and_then(", "|", "v18", "|", "FixedOffset", "east_opt(", "v18", "offset("] := by decide +kernel

/-- src/offset/local/unix.rs:fn offset_from_local_datetime -/
theorem src_offset_local_unix_rs_fn_offset_from_local_datetime : C18_src_offset_local_unix_rs_fn_offset_from_local_datetime =
    ["v1", "&", "NaiveDateTime", "->", "MappedLocalTime", "<", "FixedOffset", ">", "offset(", "v1", "true"] := by decide +kernel

/-- src/offset/local/unix.rs:fn offset_from_utc_datetime -/
theorem src_offset_local_unix_rs_fn_offset_from_utc_datetime : C18_src_offset_local_unix_rs_fn_offset_from_utc_datetime =
    ["v1", "&", "NaiveDateTime", "->", "MappedLocalTime", "<", "FixedOffset", ">", "offset(", "v1", "false"] := by decide +kernel

/-- callee src/datetime/mod.rs:fn from_naive_utc_and_offset -/
theorem callee_src_datetime_mod_rs_fn_from_naive_utc_and_offset : C18_callee_src_datetime_mod_rs_fn_from_naive_utc_and_offset =
    ["v1", "NaiveDateTime", "v2", "Tz", "Offset", "->", "DateTime", "<", "Tz", ">", "DateTime", "v1", "v2"] := by decide +kernel

/-- callee src/naive/datetime/mod.rs:fn and_utc -/
theorem callee_src_naive_datetime_mod_rs_fn_and_utc : C18_callee_src_naive_datetime_mod_rs_fn_and_utc =
    ["&", "self", "->", "DateTime", "<", "Utc", ">", "DateTime", "from_naive_utc_and_offset(", "*", "self", "Utc"] := by decide +kernel

/-- callee src/offset/fixed.rs:fn east_opt -/
theorem callee_src_offset_fixed_rs_fn_east_opt : C18_callee_src_offset_fixed_rs_fn_east_opt =
    ["v1", "i32", "->", "Option", "<", "FixedOffset", ">", "if", "-", "86400", "<", "v1", "&&", "v1", "<", "86400", "Some(", "FixedOffset", "v2", "v1", "else", "None"] := by decide +kernel

/-- callee src/offset/fixed.rs:fn west_opt -/
theorem callee_src_offset_fixed_rs_fn_west_opt : C18_callee_src_offset_fixed_rs_fn_west_opt =
    ["v1", "i32", "->", "Option", "<", "FixedOffset", ">", "if", "-", "86400", "<", "v1", "&&", "v1", "<", "86400", "Some(", "FixedOffset", "v2", "-", "v1", "else", "None"] := by decide +kernel

/-- callee src/offset/local/tz_info/parser.rs:fn peek -/
theorem callee_src_offset_local_tz_info_parser_rs_fn_peek : C18_callee_src_offset_local_tz_info_parser_rs_fn_peek =
    ["&", "self", "->", "Option", "<", "&", "u8", ">", "self", "remaining(", "first("] := by decide +kernel

/-- callee src/offset/local/tz_info/parser.rs:fn read_be_u32 -/
theorem callee_src_offset_local_tz_info_parser_rs_fn_read_be_u32 : C18_callee_src_offset_local_tz_info_parser_rs_fn_read_be_u32 =
    ["&", "self", "->", "Result", "<", "u32", "Error", ">", "v1", "0", "4", "v1", "copy_from_slice(", "self", "read_exact(", "4", "?", "Ok(", "u32", "from_be_bytes(", "v1"] := by decide +kernel

/-- callee src/offset/local/tz_info/parser.rs:fn read_exact -/
theorem callee_src_offset_local_tz_info_parser_rs_fn_read_exact : C18_callee_src_offset_local_tz_info_parser_rs_fn_read_exact =
    ["&", "self", "v1", "usize", "->", "Result", "<", "&", "u8", "v2", "Error", ">", "match(", "self", "v3", "get(", "..", "v1", "self", "v3", "get(", "v1", "..", "Some(", "v4", "Some(", "v3", "=>", "self", "v3", "v3", "self", "v5", "+=", "v1", "Ok(", "v4", "v6", "=>", "Err(", "v2", "Error", "from(", "ErrorKind", "UnexpectedEof"] := by decide +kernel

/-- callee src/offset/local/tz_info/parser.rs:fn read_int -/
theorem callee_src_offset_local_tz_info_parser_rs_fn_read_int : C18_callee_src_offset_local_tz_info_parser_rs_fn_read_int =
    ["<", "T", "FromStr", "<", "Err", "ParseIntError", ">>", "&", "self", "->", "Result", "<", "T", "Error", ">", "v1", "self", "read_while(", "u8", "v2", "?", "Ok(", "str", "from_utf8(", "v1", "?", "parse(", "?"] := by decide +kernel

/-- callee src/offset/local/tz_info/parser.rs:fn read_optional_tag -/
theorem callee_src_offset_local_tz_info_parser_rs_fn_read_optional_tag : C18_callee_src_offset_local_tz_info_parser_rs_fn_read_optional_tag =
    ["&", "self", "v1", "&", "u8", "->", "Result", "<", "bool", "v2", "Error", ">", "if", "self", "v3", "starts_with(", "v1", "self", "read_exact(", "v1", "len(", "?", "Ok(", "true", "else", "Ok(", "false"] := by decide +kernel

/-- callee src/offset/local/tz_info/parser.rs:fn read_tag -/
theorem callee_src_offset_local_tz_info_parser_rs_fn_read_tag : C18_callee_src_offset_local_tz_info_parser_rs_fn_read_tag =
    ["&", "self", "v1", "&", "u8", "->", "Result", "<", "v2", "Error", ">", "if", "self", "read_exact(", "v1", "len(", "?", "==", "v1", "Ok(", "else", "Err(", "v2", "Error", "from(", "ErrorKind", "InvalidData"] := by decide +kernel

/-- callee src/offset/local/tz_info/parser.rs:fn read_until -/
theorem callee_src_offset_local_tz_info_parser_rs_fn_read_until : C18_callee_src_offset_local_tz_info_parser_rs_fn_read_until =
    ["<", "F", "Fn(", "&", "u8", "->", "bool", ">", "&", "self", "v1", "F", "->", "Result", "<", "&", "u8", "v2", "Error", ">", "match", "self", "v3", "iter(", "position(", "v1", "None", "=>", "self", "read_exact(", "self", "v3", "len(", "Some(", "v4", "=>", "self", "read_exact(", "v4"] := by decide +kernel

/-- callee src/offset/local/tz_info/parser.rs:fn read_while -/
theorem callee_src_offset_local_tz_info_parser_rs_fn_read_while : C18_callee_src_offset_local_tz_info_parser_rs_fn_read_while =
    ["<", "F", "Fn(", "&", "u8", "->", "bool", ">", "&", "self", "v1", "F", "->", "Result", "<", "&", "u8", "v2", "Error", ">", "match", "self", "v3", "iter(", "position(", "|", "v4", "|", "!", "f(", "v4", "None", "=>", "self", "read_exact(", "self", "v3", "len(", "Some(", "v5", "=>", "self", "read_exact(", "v5"] := by decide +kernel

/-- callee src/offset/local/tz_info/parser.rs:fn remaining -/
theorem callee_src_offset_local_tz_info_parser_rs_fn_remaining : C18_callee_src_offset_local_tz_info_parser_rs_fn_remaining =
    ["&", "self", "->", "&", "u8", "self", "v1"] := by decide +kernel

/-- callee src/offset/local/tz_info/parser.rs:fn seek_after -/
theorem callee_src_offset_local_tz_info_parser_rs_fn_seek_after : C18_callee_src_offset_local_tz_info_parser_rs_fn_seek_after =
    ["&", "self", "v1", "usize", "->", "Result", "<", "usize", "v2", "Error", ">", "if", "v1", "<", "self", "v3", "return", "Err(", "v2", "Error", "from(", "ErrorKind", "UnexpectedEof", "match", "self", "v4", "get(", "v1", "-", "self", "v3", "..", "Some(", "v4", "=>", "self", "v4", "v4", "self", "v3", "v1", "Ok(", "v1", "v5", "=>", "Err(", "v2", "Error", "from(", "ErrorKind", "UnexpectedEof"] := by decide +kernel

/-- callee src/offset/local/tz_info/rule.rs:fn from_tz_string -/
theorem callee_src_offset_local_tz_info_rule_rs_fn_from_tz_string : C18_callee_src_offset_local_tz_info_rule_rs_fn_from_tz_string =
    ["v1", "&", "u8", "v2", "bool", "->", "Result", "<", "Self", "Error", ">", "v3", "Cursor", "new(", "v1", "v4", "Some(", "parse_name(", "&", "v3", "?", "v5", "parse_offset(", "&", "v3", "?", "if", "v3", "is_empty(", "return", "Ok(", "LocalTimeType", "new(", "-", "v5", "false", "v4", "?", "into(", "v6", "Some(", "parse_name(", "&", "v3", "?", "v7", "match", "v3", "peek(", "Some(", "&", "b','", "=>", "v5", "-", "3600", "Some(", "v8", "=>", "parse_offset(", "&", "v3", "?", "None", "=>", "return", "Err(", "Error", "UnsupportedTzString(", "\"…\"", "if", "v3", "is_empty(", "return", "Err(", "Error", "UnsupportedTzString(", "\"…\"", "v3", "read_tag(", "b\",\"", "?", "let(", "v9", "v10", "RuleDay", "parse(", "&", "v3", "v2", "?", "v3", "read_tag(", "b\",\"", "?", "let(", "v11", "v12", "RuleDay", "parse(", "&", "v3", "v2", "?", "if", "!", "v3", "is_empty(", "return", "Err(", "Error", "InvalidTzString(", "\"…\"", "Ok(", "AlternateTime", "new(", "LocalTimeType", "new(", "-", "v5", "false", "v4", "?", "LocalTimeType", "new(", "-", "v7", "true", "v6", "?", "v9", "v10", "v11", "v12", "?", "into("] := by decide +kernel

/-- callee src/offset/local/tz_info/rule.rs:fn parse_hhmmss -/
theorem callee_src_offset_local_tz_info_rule_rs_fn_parse_hhmmss : C18_callee_src_offset_local_tz_info_rule_rs_fn_parse_hhmmss =
    ["v1", "&", "Cursor", "->", "Result", "<", "i32", "i32", "i32", "Error", ">", "v2", "v1", "read_int(", "?", "v3", "0", "v4", "0", "if", "v1", "read_optional_tag(", "b\":\"", "?", "v3", "v1", "read_int(", "?", "if", "v1", "read_optional_tag(", "b\":\"", "?", "v4", "v1", "read_int(", "?", "Ok(", "v2", "v3", "v4"] := by decide +kernel

/-- callee src/offset/local/tz_info/rule.rs:fn parse_name -/
theorem callee_src_offset_local_tz_info_rule_rs_fn_parse_name : C18_callee_src_offset_local_tz_info_rule_rs_fn_parse_name =
    ["<", ">", "v1", "&", "Cursor", "<", ">", "->", "Result", "<", "&", "u8", "Error", ">", "match", "v1", "peek(", "Some(", "b'<'", "=>", "v2", "=>", "return", "Ok(", "v1", "read_while(", "u8", "v3", "?", "v1", "read_exact(", "1", "?", "v4", "v1", "read_until(", "|", "&", "v5", "|", "v5", "==", "b'>'", "?", "v1", "read_exact(", "1", "?", "Ok(", "v4"] := by decide +kernel

/-- callee src/offset/local/tz_info/rule.rs:fn parse_offset -/
theorem callee_src_offset_local_tz_info_rule_rs_fn_parse_offset : C18_callee_src_offset_local_tz_info_rule_rs_fn_parse_offset =
    ["v1", "&", "Cursor", "->", "Result", "<", "i32", "Error", ">", "let(", "v2", "v3", "v4", "v5", "parse_signed_hhmmss(", "v1", "?", "if!(", "0", "..=", "24", "contains(", "&", "v3", "return", "Err(", "Error", "InvalidTzString(", "\"…\"", "if!(", "0", "..=", "59", "contains(", "&", "v4", "return", "Err(", "Error", "InvalidTzString(", "\"…\"", "if!(", "0", "..=", "59", "contains(", "&", "v5", "return", "Err(", "Error", "InvalidTzString(", "\"…\"", "Ok(", "v2", "*", "v3", "*", "3600", "+", "v4", "*", "60", "+", "v5"] := by decide +kernel

/-- callee src/offset/local/tz_info/rule.rs:fn parse_signed_hhmmss -/
theorem callee_src_offset_local_tz_info_rule_rs_fn_parse_signed_hhmmss : C18_callee_src_offset_local_tz_info_rule_rs_fn_parse_signed_hhmmss =
    ["v1", "&", "Cursor", "->", "Result", "<", "i32", "i32", "i32", "i32", "Error", ">", "v2", "1", "if", "Some(", "&", "v3", "v1", "peek(", "if", "v3", "==", "b'+'", "||", "v3", "==", "b'-'", "v1", "read_exact(", "1", "?", "if", "v3", "==", "b'-'", "v2", "-", "1", "let(", "v4", "v5", "v6", "parse_hhmmss(", "v1", "?", "Ok(", "v2", "v4", "v5", "v6"] := by decide +kernel

/-- callee src/offset/local/tz_info/timezone.rs:fn find_ohos_tz_data -/
theorem callee_src_offset_local_tz_info_timezone_rs_fn_find_ohos_tz_data : C18_callee_src_offset_local_tz_info_timezone_rs_fn_find_ohos_tz_data =
    ["v1", "&", "str", "->", "Result", "<", "Vec", "<", "u8", ">", "Error", ">", "TZDATA_PATH", "&", "str", "\"…\"", "match", "File", "open(", "TZDATA_PATH", "Ok(", "v2", "=>", "from_tzdata_file(", "&", "v2", "v1", "Err(", "v3", "=>", "Err(", "v3", "into("] := by decide +kernel

/-- callee src/offset/local/tz_info/timezone.rs:fn from_file -/
theorem callee_src_offset_local_tz_info_timezone_rs_fn_from_file : C18_callee_src_offset_local_tz_info_timezone_rs_fn_from_file =
    ["v1", "&", "File", "->", "Result", "<", "Self", "Error", ">", "v2", "Vec", "new(", "v1", "read_to_end(", "&", "v2", "?", "Self", "from_tz_data(", "&", "v2"] := by decide +kernel

/-- callee src/offset/local/tz_info/timezone.rs:fn from_tz_data -/
theorem callee_src_offset_local_tz_info_timezone_rs_fn_from_tz_data : C18_callee_src_offset_local_tz_info_timezone_rs_fn_from_tz_data =
    ["v1", "&", "u8", "->", "Result", "<", "Self", "Error", ">", "v2", "parse(", "v1"] := by decide +kernel

/-- callee src/offset/local/tz_info/timezone.rs:fn from_tzdata_bytes -/
theorem callee_src_offset_local_tz_info_timezone_rs_fn_from_tzdata_bytes : C18_callee_src_offset_local_tz_info_timezone_rs_fn_from_tzdata_bytes =
    ["v1", "&", "Vec", "<", "u8", ">", "v2", "&", "str", "->", "Result", "<", "Vec", "<", "u8", ">", "Error", ">", "VERSION_SIZE", "usize", "12", "OFFSET_SIZE", "usize", "4", "INDEX_CHUNK_SIZE", "usize", "48", "ZONENAME_SIZE", "usize", "40", "v3", "Cursor", "new(", "&", "v1", "v4", "v3", "read_exact(", "VERSION_SIZE", "?", "v5", "v3", "read_be_u32(", "?", "v6", "v3", "read_be_u32(", "?", "v4", "v3", "read_be_u32(", "?", "v3", "seek_after(", "v5", "as", "usize", "?", "v7", "v5", "while", "v7", "<", "v6", "v8", "v3", "read_exact(", "ZONENAME_SIZE", "?", "v9", "v3", "read_be_u32(", "?", "v10", "v3", "read_be_u32(", "?", "v11", "str", "from_utf8(", "v8", "?", "trim_end_matches(", "'\\0'", "if", "v11", "!=", "v2", "v7", "+=", "INDEX_CHUNK_SIZE", "as", "u32", "continue", "v3", "seek_after(", "v6", "+", "v9", "as", "usize", "?", "return", "match", "v3", "read_exact(", "v10", "as", "usize", "Ok(", "v12", "=>", "Ok(", "v12", "to_vec(", "Err(", "v13", "=>", "Err(", "Error", "InvalidTzFile(", "\"…\"", "Err(", "Error", "InvalidTzString(", "\"…\""] := by decide +kernel

/-- callee src/offset/local/tz_info/timezone.rs:fn from_tzdata_file -/
theorem callee_src_offset_local_tz_info_timezone_rs_fn_from_tzdata_file : C18_callee_src_offset_local_tz_info_timezone_rs_fn_from_tzdata_file =
    ["v1", "&", "File", "v2", "&", "str", "->", "Result", "<", "Vec", "<", "u8", ">", "Error", ">", "v3", "Vec", "new(", "v1", "read_to_end(", "&", "v3", "?", "from_tzdata_bytes(", "&", "v3", "v2"] := by decide +kernel

/-- callee src/offset/local/tz_info/timezone.rs:fn utc -/
theorem callee_src_offset_local_tz_info_timezone_rs_fn_utc : C18_callee_src_offset_local_tz_info_timezone_rs_fn_utc =
    ["->", "Self", "Self", "v1", "Vec", "new(", "v2", "v3", "!", "LocalTimeType", "UTC", "v4", "Vec", "new(", "v5", "None"] := by decide +kernel

end Chrono.Pins.C18
