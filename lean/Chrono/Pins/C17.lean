/-
  PINS of property C17: the decision tokens of every item the property is anchored in
  (properties.jsonl `anchors` + tools/anchor_extra.json), as they were in /repo at 32de816 when the
  model was validated against the source.  Written by tools/pin_anchors.py; the right-hand sides are
  compared by the kernel with lean/Chrono/Extracted/Anchors.lean, which tools/extractors/anchors.py
  regenerates from /repo's working tree on every check.  A theorem that fails here means: anchored
  code changed; the hand-written model may no longer mirror it.
-/
import Chrono.Extracted.Anchors
namespace Chrono.Pins.C17
open Chrono.Extracted.Anchors

/-- src/round.rs:fn duration_round -/
theorem src_round_rs_fn_duration_round : C17_src_round_rs_fn_duration_round =
    ["self", "v1", "TimeDelta", "->", "Result", "<", "Self", "Self", "Err", ">", "duration_round(", "self", "overflowing_naive_local(", "self", "v1", "§", "self", "v1", "TimeDelta", "->", "Result", "<", "Self", "Self", "Err", ">", "duration_round(", "self", "self", "v1", "§", "<", "T", ">", "v1", "NaiveDateTime", "v2", "T", "v3", "TimeDelta", "->", "Result", "<", "T", "RoundingError", ">", "T", "Timelike", "+", "Add", "<", "TimeDelta", "Output", "T", ">", "+", "Sub", "<", "TimeDelta", "Output", "T", ">", "if", "Some(", "v4", "v3", "num_nanoseconds(", "if", "v4", "<=", "0", "return", "Err(", "RoundingError", "DurationExceedsLimit", "v5", "v1", "and_utc(", "timestamp_nanos_opt(", "ok_or(", "RoundingError", "TimestampExceedsLimit", "?", "v6", "v5", "%", "v4", "if", "v6", "==", "0", "Ok(", "v2", "else", "let(", "v7", "v6", "if", "v6", "<", "0", "v6", "abs(", "v4", "-", "v6", "abs(", "else", "v4", "-", "v6", "v6", "if", "v7", "<=", "v6", "Ok(", "v2", "+", "TimeDelta", "nanoseconds(", "v7", "else", "Ok(", "v2", "-", "TimeDelta", "nanoseconds(", "v6", "else", "Err(", "RoundingError", "DurationExceedsLimit"] := by decide +kernel

/-- src/round.rs:fn duration_round_up -/
theorem src_round_rs_fn_duration_round_up : C17_src_round_rs_fn_duration_round_up =
    ["self", "v1", "TimeDelta", "->", "Result", "<", "Self", "Self", "Err", ">", "duration_round_up(", "self", "overflowing_naive_local(", "self", "v1", "§", "self", "v1", "TimeDelta", "->", "Result", "<", "Self", "Self", "Err", ">", "duration_round_up(", "self", "self", "v1", "§", "<", "T", ">", "v1", "NaiveDateTime", "v2", "T", "v3", "TimeDelta", "->", "Result", "<", "T", "RoundingError", ">", "T", "Timelike", "+", "Add", "<", "TimeDelta", "Output", "T", ">", "+", "Sub", "<", "TimeDelta", "Output", "T", ">", "if", "Some(", "v4", "v3", "num_nanoseconds(", "if", "v4", "<=", "0", "return", "Err(", "RoundingError", "DurationExceedsLimit", "v5", "v1", "and_utc(", "timestamp_nanos_opt(", "ok_or(", "RoundingError", "TimestampExceedsLimit", "?", "v6", "v5", "%", "v4", "match", "v6", "cmp(", "&", "0", "Ordering", "Equal", "=>", "Ok(", "v2", "Ordering", "Greater", "=>", "Ok(", "v2", "+", "TimeDelta", "nanoseconds(", "v4", "-", "v6", "Ordering", "Less", "=>", "Ok(", "v2", "+", "TimeDelta", "nanoseconds(", "v6", "abs(", "else", "Err(", "RoundingError", "DurationExceedsLimit"] := by decide +kernel

/-- src/round.rs:fn duration_trunc -/
theorem src_round_rs_fn_duration_trunc : C17_src_round_rs_fn_duration_trunc =
    ["self", "v1", "TimeDelta", "->", "Result", "<", "Self", "Self", "Err", ">", "duration_trunc(", "self", "overflowing_naive_local(", "self", "v1", "§", "self", "v1", "TimeDelta", "->", "Result", "<", "Self", "Self", "Err", ">", "duration_trunc(", "self", "self", "v1", "§", "<", "T", ">", "v1", "NaiveDateTime", "v2", "T", "v3", "TimeDelta", "->", "Result", "<", "T", "RoundingError", ">", "T", "Timelike", "+", "Add", "<", "TimeDelta", "Output", "T", ">", "+", "Sub", "<", "TimeDelta", "Output", "T", ">", "if", "Some(", "v4", "v3", "num_nanoseconds(", "if", "v4", "<=", "0", "return", "Err(", "RoundingError", "DurationExceedsLimit", "v5", "v1", "and_utc(", "timestamp_nanos_opt(", "ok_or(", "RoundingError", "TimestampExceedsLimit", "?", "v6", "v5", "%", "v4", "match", "v6", "cmp(", "&", "0", "Ordering", "Equal", "=>", "Ok(", "v2", "Ordering", "Greater", "=>", "Ok(", "v2", "-", "TimeDelta", "nanoseconds(", "v6", "Ordering", "Less", "=>", "Ok(", "v2", "-", "TimeDelta", "nanoseconds(", "v4", "-", "v6", "abs(", "else", "Err(", "RoundingError", "DurationExceedsLimit"] := by decide +kernel

/-- src/round.rs:fn round_subsecs -/
theorem src_round_rs_fn_round_subsecs : C17_src_round_rs_fn_round_subsecs =
    ["self", "v1", "u16", "->", "T", "v2", "span_for_digits(", "v1", "v3", "self", "nanosecond(", "%", "v2", "if", "v3", ">", "0", "v4", "v2", "-", "v3", "if", "v4", "<=", "v3", "self", "+", "TimeDelta", "nanoseconds(", "v4", "into(", "else", "self", "-", "TimeDelta", "nanoseconds(", "v3", "into(", "else", "self"] := by decide +kernel

/-- src/round.rs:fn span_for_digits -/
theorem src_round_rs_fn_span_for_digits : C17_src_round_rs_fn_span_for_digits =
    ["v1", "u16", "->", "u32", "match", "v1", "0", "=>", "1000000000", "1", "=>", "100000000", "2", "=>", "10000000", "3", "=>", "1000000", "4", "=>", "100000", "5", "=>", "10000", "6", "=>", "1000", "7", "=>", "100", "8", "=>", "10", "v2", "=>", "1"] := by decide +kernel

/-- src/round.rs:fn trunc_subsecs -/
theorem src_round_rs_fn_trunc_subsecs : C17_src_round_rs_fn_trunc_subsecs =
    ["self", "v1", "u16", "->", "T", "v2", "span_for_digits(", "v1", "v3", "self", "nanosecond(", "%", "v2", "if", "v3", ">", "0", "self", "-", "TimeDelta", "nanoseconds(", "v3", "into(", "else", "self"] := by decide +kernel

/-- src/round.rs:impl DurationRound for DateTime -/
theorem src_round_rs_impl_DurationRound_for_DateTime : C17_src_round_rs_impl_DurationRound_for_DateTime =
    ["<", "Tz", "TimeZone", ">", "DurationRound", "for", "DateTime", "<", "Tz", ">", "Err", "RoundingError", "duration_round(", "self", "v1", "TimeDelta", "->", "Result", "<", "Self", "Self", "Err", ">", "duration_round(", "self", "overflowing_naive_local(", "self", "v1", "duration_trunc(", "self", "v1", "TimeDelta", "->", "Result", "<", "Self", "Self", "Err", ">", "duration_trunc(", "self", "overflowing_naive_local(", "self", "v1", "duration_round_up(", "self", "v1", "TimeDelta", "->", "Result", "<", "Self", "Self", "Err", ">", "duration_round_up(", "self", "overflowing_naive_local(", "self", "v1"] := by decide +kernel

/-- src/round.rs:type RoundingError -/
theorem src_round_rs_type_RoundingError : C17_src_round_rs_type_RoundingError =
    ["DurationExceedsTimestamp", "DurationExceedsLimit", "TimestampExceedsLimit", "§", "v1", "Display", "for", "RoundingError", "fmt(", "&", "self", "v2", "&", "v1", "Formatter", "->", "v1", "Result", "match", "*", "self", "RoundingError", "DurationExceedsTimestamp", "=>", "write!(", "v2", "\"…\"", "RoundingError", "DurationExceedsLimit", "=>", "write!(", "v2", "\"…\"", "RoundingError", "TimestampExceedsLimit", "=>", "write!(", "v2", "\"…\"", "§", "v1", "v2", "Error", "for", "RoundingError", "description(", "&", "self", "->", "&", "str", "\"…\""] := by decide +kernel

/-- callee src/datetime/mod.rs:fn from_naive_utc_and_offset -/
theorem callee_src_datetime_mod_rs_fn_from_naive_utc_and_offset : C17_callee_src_datetime_mod_rs_fn_from_naive_utc_and_offset =
    ["v1", "NaiveDateTime", "v2", "Tz", "Offset", "->", "DateTime", "<", "Tz", ">", "DateTime", "v1", "v2"] := by decide +kernel

/-- callee src/datetime/mod.rs:fn overflowing_naive_local -/
theorem callee_src_datetime_mod_rs_fn_overflowing_naive_local : C17_callee_src_datetime_mod_rs_fn_overflowing_naive_local =
    ["&", "self", "->", "NaiveDateTime", "self", "v1", "overflowing_add_offset(", "self", "v2", "fix("] := by decide +kernel

/-- callee src/naive/datetime/mod.rs:fn and_utc -/
theorem callee_src_naive_datetime_mod_rs_fn_and_utc : C17_callee_src_naive_datetime_mod_rs_fn_and_utc =
    ["&", "self", "->", "DateTime", "<", "Utc", ">", "DateTime", "from_naive_utc_and_offset(", "*", "self", "Utc"] := by decide +kernel

/-- callee src/time_delta.rs:fn div_mod_floor_64 -/
theorem callee_src_time_delta_rs_fn_div_mod_floor_64 : C17_callee_src_time_delta_rs_fn_div_mod_floor_64 =
    ["v1", "i64", "v2", "i64", "->", "i64", "i64", "v1", "div_euclid(", "v2", "v1", "rem_euclid(", "v2"] := by decide +kernel

/-- callee src/time_delta.rs:fn nanoseconds -/
theorem callee_src_time_delta_rs_fn_nanoseconds : C17_callee_src_time_delta_rs_fn_nanoseconds =
    ["v1", "i64", "->", "TimeDelta", "let(", "v2", "v1", "div_mod_floor_64(", "v1", "NANOS_PER_SEC", "as", "i64", "TimeDelta", "v2", "v1", "v1", "as", "i32"] := by decide +kernel

/-- callee src/time_delta.rs:fn num_nanoseconds -/
theorem callee_src_time_delta_rs_fn_num_nanoseconds : C17_callee_src_time_delta_rs_fn_num_nanoseconds =
    ["&", "self", "->", "Option", "<", "i64", ">", "v1", "try_opt!(", "self", "num_seconds(", "checked_mul(", "NANOS_PER_SEC", "as", "i64", "v2", "self", "subsec_nanos(", "v1", "checked_add(", "v2", "as", "i64"] := by decide +kernel

/-- callee src/time_delta.rs:fn num_seconds -/
theorem callee_src_time_delta_rs_fn_num_seconds : C17_callee_src_time_delta_rs_fn_num_seconds =
    ["&", "self", "->", "i64", "if", "self", "v1", "<", "0", "&&", "self", "v2", ">", "0", "self", "v1", "+", "1", "else", "self", "v1"] := by decide +kernel

/-- callee src/time_delta.rs:fn subsec_nanos -/
theorem callee_src_time_delta_rs_fn_subsec_nanos : C17_callee_src_time_delta_rs_fn_subsec_nanos =
    ["&", "self", "->", "i32", "if", "self", "v1", "<", "0", "&&", "self", "v2", ">", "0", "self", "v2", "-", "NANOS_PER_SEC", "else", "self", "v2"] := by decide +kernel

end Chrono.Pins.C17
