/-
  PINS of property C16: the decision tokens of every item the property is anchored in
  (properties.jsonl `anchors` + tools/anchor_extra.json), as they were in /repo at 097d707 when the
  model was validated against the source.  Written by tools/pin_anchors.py; the right-hand sides are
  compared by the kernel with lean/Chrono/Extracted/Anchors.lean, which tools/extractors/anchors.py
  regenerates from /repo's working tree on every check.  A theorem that fails here means: anchored
  code changed; the hand-written model may no longer mirror it.
-/
import Chrono.Extracted.Anchors
namespace Chrono.Pins.C16
open Chrono.Extracted.Anchors

/-- src/offset/local/tz_info/parser.rs:fn new -/
theorem src_offset_local_tz_info_parser_rs_fn_new : C16_src_offset_local_tz_info_parser_rs_fn_new =
    ["v1", "&", "Cursor", "<", ">", "v2", "bool", "->", "Result", "<", "Self", "Error", ">", "v3", "Header", "new(", "v1", "?", "v4", "match", "v2", "true", "=>", "4", "false", "=>", "8", "Ok(", "Self", "v4", "v5", "v1", "read_exact(", "v3", "v6", "*", "v4", "?", "v7", "v1", "read_exact(", "v3", "v6", "?", "v8", "v1", "read_exact(", "v3", "v9", "*", "6", "?", "v10", "v1", "read_exact(", "v3", "v11", "?", "v12", "v1", "read_exact(", "v3", "v13", "*", "v4", "+", "4", "?", "v14", "v1", "read_exact(", "v3", "v15", "?", "v16", "v1", "read_exact(", "v3", "v17", "?", "v3", "§", "v1", "&", "Cursor", "->", "Result", "<", "Self", "Error", ">", "v2", "v1", "read_exact(", "4", "?", "if", "v2", "!=", "*", "b\"TZif\"", "return", "Err(", "Error", "InvalidTzFile(", "\"…\"", "v3", "match", "v1", "read_exact(", "1", "?", "0", "=>", "Version", "V1", "50", "=>", "Version", "V2", "51", "=>", "Version", "V3", "v4", "=>", "return", "Err(", "Error", "UnsupportedTzFile(", "\"…\"", "v1", "read_exact(", "15", "?", "v5", "v1", "read_be_u32(", "?", "v6", "v1", "read_be_u32(", "?", "v7", "v1", "read_be_u32(", "?", "v8", "v1", "read_be_u32(", "?", "v9", "v1", "read_be_u32(", "?", "v10", "v1", "read_be_u32(", "?", "if!(", "v9", "!=", "0", "&&", "v10", "!=", "0", "&&", "v5", "==", "0", "||", "v5", "==", "v9", "&&", "v6", "==", "0", "||", "v6", "==", "v9", "return", "Err(", "Error", "InvalidTzFile(", "\"…\"", "Ok(", "Self", "v3", "v5", "v5", "as", "usize", "v6", "v6", "as", "usize", "v7", "v7", "as", "usize", "v8", "v8", "as", "usize", "v9", "v9", "as", "usize", "v10", "v10", "as", "usize", "§", "v1", "&", "u8", "->", "Self", "Self", "v1", "v2", "0"] := by decide +kernel

/-- src/offset/local/tz_info/parser.rs:fn parse -/
theorem src_offset_local_tz_info_parser_rs_fn_parse : C16_src_offset_local_tz_info_parser_rs_fn_parse =
    ["v1", "&", "u8", "->", "Result", "<", "TimeZone", "Error", ">", "v2", "Cursor", "new(", "v1", "v3", "State", "new(", "&", "v2", "true", "?", "let(", "v3", "v4", "match", "v3", "v5", "v6", "Version", "V1", "=>", "match", "v2", "is_empty(", "true", "=>", "v3", "None", "false", "=>", "return", "Err(", "Error", "InvalidTzFile(", "\"…\"", "Version", "V2", "|", "Version", "V3", "=>", "v7", "v3", "v5", "v6", "v3", "State", "new(", "&", "v2", "false", "?", "if", "v3", "v5", "v6", "!=", "v7", "return", "Err(", "Error", "InvalidTzFile(", "\"…\"", "v3", "Some(", "v2", "remaining(", "v8", "Vec", "with_capacity(", "v3", "v5", "v9", "for(", "v10", "&", "v11", "in", "v3", "v12", "chunks_exact(", "v3", "v13", "zip(", "v3", "v14", "v15", "v3", "parse_time(", "&", "v10", "0", "..", "v3", "v13", "v3", "v5", "v6", "?", "v11", "v11", "as", "usize", "v8", "push(", "Transition", "new(", "v15", "v11", "v16", "Vec", "with_capacity(", "v3", "v5", "v17", "for", "v18", "in", "v3", "v16", "chunks_exact(", "6", "v19", "read_be_i32(", "&", "v18", "..", "?", "v20", "match", "v18", "4", "0", "=>", "false", "1", "=>", "true", "v21", "=>", "return", "Err(", "Error", "InvalidTzFile(", "\"…\"", "v22", "v18", "5", "as", "usize", "if", "v22", ">=", "v3", "v5", "v23", "return", "Err(", "Error", "InvalidTzFile(", "\"…\"", "v24", "match", "v3", "v25", "v22", "..", "iter(", "position(", "|", "&", "v26", "|", "v26", "==", "b'\\0'", "Some(", "v24", "=>", "v24", "None", "=>", "return", "Err(", "Error", "InvalidTzFile(", "\"…\"", "v27", "&", "v3", "v25", "v22", "..", "v22", "+", "v24", "v27", "if", "!", "v27", "is_empty(", "Some(", "v27", "else", "None", "v16", "push(", "LocalTimeType", "new(", "v19", "v20", "v27", "?", "v28", "Vec", "with_capacity(", "v3", "v5", "v29", "for", "v18", "in", "v3", "v28", "chunks_exact(", "v3", "v13", "+", "4", "v15", "v3", "parse_time(", "&", "v18", "0", "..", "v3", "v13", "v3", "v5", "v6", "?", "v30", "read_be_i32(", "&", "v18", "v3", "v13", "..", "v3", "v13", "+", "4", "?", "v28", "push(", "LeapSecond", "new(", "v15", "v30", "v31", "v3", "v32", "iter(", "copied(", "chain(", "v33", "repeat(", "0", "v34", "v3", "v35", "iter(", "copied(", "chain(", "v33", "repeat(", "0", "if", "v31", "zip(", "v34", "take(", "v3", "v5", "v17", "any(", "|", "v36", "|", "v36", "==", "0", "1", "return", "Err(", "Error", "InvalidTzFile(", "\"…\"", "v37", "match", "v4", "Some(", "v4", "=>", "v4", "str", "from_utf8(", "v4", "?", "if", "v4", "len(", "<", "2", "||", "!", "v4", "starts_with(", "'\\n'", "&&", "v4", "ends_with(", "'\\n'", "return", "Err(", "Error", "InvalidTzFile(", "\"…\"", "v38", "v4", "trim_matches(", "|", "v26", "char", "|", "v26", "is_ascii_whitespace(", "if", "v38", "starts_with(", "':'", "||", "v38", "contains(", "'\\0'", "return", "Err(", "Error", "InvalidTzFile(", "\"…\"", "match", "v38", "is_empty(", "true", "=>", "None", "false", "=>", "Some(", "TransitionRule", "from_tz_string(", "v38", "as_bytes(", "v3", "v5", "v6", "==", "Version", "V3", "?", "None", "=>", "None", "TimeZone", "new(", "v8", "v16", "v28", "v37"] := by decide +kernel

/-- src/offset/local/tz_info/parser.rs:fn parse_time -/
theorem src_offset_local_tz_info_parser_rs_fn_parse_time : C16_src_offset_local_tz_info_parser_rs_fn_parse_time =
    ["&", "self", "v1", "&", "u8", "v2", "Version", "->", "Result", "<", "i64", "Error", ">", "match", "v2", "Version", "V1", "=>", "Ok(", "read_be_i32(", "&", "v1", "..", "?", "into(", "Version", "V2", "|", "Version", "V3", "=>", "read_be_i64(", "v1"] := by decide +kernel

/-- src/offset/local/tz_info/parser.rs:fn read_exact -/
theorem src_offset_local_tz_info_parser_rs_fn_read_exact : C16_src_offset_local_tz_info_parser_rs_fn_read_exact =
    ["&", "self", "v1", "usize", "->", "Result", "<", "&", "u8", "v2", "Error", ">", "match(", "self", "v3", "get(", "..", "v1", "self", "v3", "get(", "v1", "..", "Some(", "v4", "Some(", "v3", "=>", "self", "v3", "v3", "self", "v5", "+=", "v1", "Ok(", "v4", "v6", "=>", "Err(", "v2", "Error", "from(", "ErrorKind", "UnexpectedEof"] := by decide +kernel

/-- src/offset/local/tz_info/rule.rs:fn from_tz_string -/
theorem src_offset_local_tz_info_rule_rs_fn_from_tz_string : C16_src_offset_local_tz_info_rule_rs_fn_from_tz_string =
    ["v1", "&", "u8", "v2", "bool", "->", "Result", "<", "Self", "Error", ">", "v3", "Cursor", "new(", "v1", "v4", "Some(", "parse_name(", "&", "v3", "?", "v5", "parse_offset(", "&", "v3", "?", "if", "v3", "is_empty(", "return", "Ok(", "LocalTimeType", "new(", "-", "v5", "false", "v4", "?", "into(", "v6", "Some(", "parse_name(", "&", "v3", "?", "v7", "match", "v3", "peek(", "Some(", "&", "b','", "=>", "v5", "-", "3600", "Some(", "v8", "=>", "parse_offset(", "&", "v3", "?", "None", "=>", "return", "Err(", "Error", "UnsupportedTzString(", "\"…\"", "if", "v3", "is_empty(", "return", "Err(", "Error", "UnsupportedTzString(", "\"…\"", "v3", "read_tag(", "b\",\"", "?", "let(", "v9", "v10", "RuleDay", "parse(", "&", "v3", "v2", "?", "v3", "read_tag(", "b\",\"", "?", "let(", "v11", "v12", "RuleDay", "parse(", "&", "v3", "v2", "?", "if", "!", "v3", "is_empty(", "return", "Err(", "Error", "InvalidTzString(", "\"…\"", "Ok(", "AlternateTime", "new(", "LocalTimeType", "new(", "-", "v5", "false", "v4", "?", "LocalTimeType", "new(", "-", "v7", "true", "v6", "?", "v9", "v10", "v11", "v12", "?", "into("] := by decide +kernel

/-- src/offset/local/tz_info/rule.rs:fn julian_0 -/
theorem src_offset_local_tz_info_rule_rs_fn_julian_0 : C16_src_offset_local_tz_info_rule_rs_fn_julian_0 =
    ["v1", "u16", "->", "Result", "<", "Self", "Error", ">", "if", "v1", ">", "365", "return", "Err(", "Error", "TransitionRule(", "\"…\"", "Ok(", "RuleDay", "Julian0WithLeap(", "v1"] := by decide +kernel

/-- src/offset/local/tz_info/rule.rs:fn julian_1 -/
theorem src_offset_local_tz_info_rule_rs_fn_julian_1 : C16_src_offset_local_tz_info_rule_rs_fn_julian_1 =
    ["v1", "u16", "->", "Result", "<", "Self", "Error", ">", "if!(", "1", "..=", "365", "contains(", "&", "v1", "return", "Err(", "Error", "TransitionRule(", "\"…\"", "Ok(", "RuleDay", "Julian1WithoutLeap(", "v1"] := by decide +kernel

/-- src/offset/local/tz_info/rule.rs:fn month_weekday -/
theorem src_offset_local_tz_info_rule_rs_fn_month_weekday : C16_src_offset_local_tz_info_rule_rs_fn_month_weekday =
    ["v1", "u8", "v2", "u8", "v3", "u8", "->", "Result", "<", "Self", "Error", ">", "if!(", "1", "..=", "12", "contains(", "&", "v1", "return", "Err(", "Error", "TransitionRule(", "\"…\"", "if!(", "1", "..=", "5", "contains(", "&", "v2", "return", "Err(", "Error", "TransitionRule(", "\"…\"", "if", "v3", ">", "6", "return", "Err(", "Error", "TransitionRule(", "\"…\"", "Ok(", "RuleDay", "MonthWeekday", "v1", "v2", "v3"] := by decide +kernel

/-- src/offset/local/tz_info/rule.rs:fn new -/
theorem src_offset_local_tz_info_rule_rs_fn_new : C16_src_offset_local_tz_info_rule_rs_fn_new =
    ["v1", "LocalTimeType", "v2", "LocalTimeType", "v3", "RuleDay", "v4", "i32", "v5", "RuleDay", "v6", "i32", "->", "Result", "<", "Self", "Error", ">", "if!(", "v4", "as", "i64", "abs(", "<", "SECONDS_PER_WEEK", "&&", "v6", "as", "i64", "abs(", "<", "SECONDS_PER_WEEK", "return", "Err(", "Error", "TransitionRule(", "\"…\"", "Ok(", "Self", "v1", "v2", "v3", "v4", "v5", "v6"] := by decide +kernel

/-- src/offset/local/tz_info/rule.rs:fn parse -/
theorem src_offset_local_tz_info_rule_rs_fn_parse : C16_src_offset_local_tz_info_rule_rs_fn_parse =
    ["v1", "&", "Cursor", "v2", "bool", "->", "Result", "<", "Self", "i32", "Error", ">", "v3", "match", "v1", "peek(", "Some(", "b'M'", "=>", "v1", "read_exact(", "1", "?", "v4", "v1", "read_int(", "?", "v1", "read_tag(", "b\".\"", "?", "v5", "v1", "read_int(", "?", "v1", "read_tag(", "b\".\"", "?", "v6", "v1", "read_int(", "?", "RuleDay", "month_weekday(", "v4", "v5", "v6", "?", "Some(", "b'J'", "=>", "v1", "read_exact(", "1", "?", "RuleDay", "julian_1(", "v1", "read_int(", "?", "?", "v7", "=>", "RuleDay", "julian_0(", "v1", "read_int(", "?", "?", "Ok(", "v3", "match(", "v1", "read_optional_tag(", "b\"/\"", "?", "v2", "false", "v7", "=>", "2", "*", "3600", "true", "true", "=>", "parse_rule_time_extended(", "v1", "?", "true", "false", "=>", "parse_rule_time(", "v1", "?"] := by decide +kernel

/-- src/offset/local/tz_info/rule.rs:fn parse_hhmmss -/
theorem src_offset_local_tz_info_rule_rs_fn_parse_hhmmss : C16_src_offset_local_tz_info_rule_rs_fn_parse_hhmmss =
    ["v1", "&", "Cursor", "->", "Result", "<", "i32", "i32", "i32", "Error", ">", "v2", "v1", "read_int(", "?", "v3", "0", "v4", "0", "if", "v1", "read_optional_tag(", "b\":\"", "?", "v3", "v1", "read_int(", "?", "if", "v1", "read_optional_tag(", "b\":\"", "?", "v4", "v1", "read_int(", "?", "Ok(", "v2", "v3", "v4"] := by decide +kernel

/-- src/offset/local/tz_info/rule.rs:fn parse_name -/
theorem src_offset_local_tz_info_rule_rs_fn_parse_name : C16_src_offset_local_tz_info_rule_rs_fn_parse_name =
    ["<", ">", "v1", "&", "Cursor", "<", ">", "->", "Result", "<", "&", "u8", "Error", ">", "match", "v1", "peek(", "Some(", "b'<'", "=>", "v2", "=>", "return", "Ok(", "v1", "read_while(", "u8", "v3", "?", "v1", "read_exact(", "1", "?", "v4", "v1", "read_until(", "|", "&", "v5", "|", "v5", "==", "b'>'", "?", "v1", "read_exact(", "1", "?", "Ok(", "v4"] := by decide +kernel

/-- src/offset/local/tz_info/rule.rs:fn parse_offset -/
theorem src_offset_local_tz_info_rule_rs_fn_parse_offset : C16_src_offset_local_tz_info_rule_rs_fn_parse_offset =
    ["v1", "&", "Cursor", "->", "Result", "<", "i32", "Error", ">", "let(", "v2", "v3", "v4", "v5", "parse_signed_hhmmss(", "v1", "?", "if!(", "0", "..=", "24", "contains(", "&", "v3", "return", "Err(", "Error", "InvalidTzString(", "\"…\"", "if!(", "0", "..=", "59", "contains(", "&", "v4", "return", "Err(", "Error", "InvalidTzString(", "\"…\"", "if!(", "0", "..=", "59", "contains(", "&", "v5", "return", "Err(", "Error", "InvalidTzString(", "\"…\"", "Ok(", "v2", "*", "v3", "*", "3600", "+", "v4", "*", "60", "+", "v5"] := by decide +kernel

/-- src/offset/local/tz_info/rule.rs:fn parse_rule_time -/
theorem src_offset_local_tz_info_rule_rs_fn_parse_rule_time : C16_src_offset_local_tz_info_rule_rs_fn_parse_rule_time =
    ["v1", "&", "Cursor", "->", "Result", "<", "i32", "Error", ">", "let(", "v2", "v3", "v4", "parse_hhmmss(", "v1", "?", "if!(", "0", "..=", "24", "contains(", "&", "v2", "return", "Err(", "Error", "InvalidTzString(", "\"…\"", "if!(", "0", "..=", "59", "contains(", "&", "v3", "return", "Err(", "Error", "InvalidTzString(", "\"…\"", "if!(", "0", "..=", "59", "contains(", "&", "v4", "return", "Err(", "Error", "InvalidTzString(", "\"…\"", "Ok(", "v2", "*", "3600", "+", "v3", "*", "60", "+", "v4"] := by decide +kernel

/-- src/offset/local/tz_info/rule.rs:fn parse_rule_time_extended -/
theorem src_offset_local_tz_info_rule_rs_fn_parse_rule_time_extended : C16_src_offset_local_tz_info_rule_rs_fn_parse_rule_time_extended =
    ["v1", "&", "Cursor", "->", "Result", "<", "i32", "Error", ">", "let(", "v2", "v3", "v4", "v5", "parse_signed_hhmmss(", "v1", "?", "if!(", "-", "167", "..=", "167", "contains(", "&", "v3", "return", "Err(", "Error", "InvalidTzString(", "\"…\"", "if!(", "0", "..=", "59", "contains(", "&", "v4", "return", "Err(", "Error", "InvalidTzString(", "\"…\"", "if!(", "0", "..=", "59", "contains(", "&", "v5", "return", "Err(", "Error", "InvalidTzString(", "\"…\"", "Ok(", "v2", "*", "v3", "*", "3600", "+", "v4", "*", "60", "+", "v5"] := by decide +kernel

/-- src/offset/local/tz_info/rule.rs:fn parse_signed_hhmmss -/
theorem src_offset_local_tz_info_rule_rs_fn_parse_signed_hhmmss : C16_src_offset_local_tz_info_rule_rs_fn_parse_signed_hhmmss =
    ["v1", "&", "Cursor", "->", "Result", "<", "i32", "i32", "i32", "i32", "Error", ">", "v2", "1", "if", "Some(", "&", "v3", "v1", "peek(", "if", "v3", "==", "b'+'", "||", "v3", "==", "b'-'", "v1", "read_exact(", "1", "?", "if", "v3", "==", "b'-'", "v2", "-", "1", "let(", "v4", "v5", "v6", "parse_hhmmss(", "v1", "?", "Ok(", "v2", "v4", "v5", "v6"] := by decide +kernel

/-- src/offset/local/tz_info/timezone.rs:fn find_local_time_type_from_local -/
theorem src_offset_local_tz_info_timezone_rs_fn_find_local_time_type_from_local : C16_src_offset_local_tz_info_timezone_rs_fn_find_local_time_type_from_local =
    ["&", "self", "v1", "NaiveDateTime", "->", "Result", "<", "MappedLocalTime", "<", "LocalTimeType", ">", "Error", ">", "self", "as_ref(", "find_local_time_type_from_local(", "v1", "§", "&", "self", "v1", "NaiveDateTime", "->", "Result", "<", "MappedLocalTime", "<", "LocalTimeType", ">", "Error", ">", "v2", "v1", "and_utc(", "timestamp(", "v3", "if", "!", "self", "v4", "is_empty(", "v5", "self", "v6", "0", "for", "v7", "in", "self", "v4", "v8", "self", "v6", "v7", "v9", "v10", "v7", "v11", "saturating_add(", "i64", "from(", "v8", "v12", "v13", "v7", "v11", "saturating_add(", "i64", "from(", "v5", "v12", "match", "v13", "cmp(", "&", "v10", "Ordering", "Greater", "=>", "if", "v2", "<", "v10", "return", "Ok(", "MappedLocalTime", "Single(", "v5", "else", "if", "v2", ">=", "v10", "&&", "v2", "<=", "v13", "return", "Ok(", "MappedLocalTime", "Ambiguous(", "v5", "v8", "Ordering", "Equal", "=>", "if", "v2", "<", "v13", "return", "Ok(", "MappedLocalTime", "Single(", "v5", "else", "if", "v2", "==", "v10", "return", "Ok(", "MappedLocalTime", "Single(", "v8", "Ordering", "Less", "=>", "if", "v2", "<=", "v13", "return", "Ok(", "MappedLocalTime", "Single(", "v5", "else", "if", "v2", "<", "v10", "return", "Ok(", "MappedLocalTime", "None", "else", "if", "v2", "==", "v10", "return", "Ok(", "MappedLocalTime", "Single(", "v8", "v5", "v8", "v5", "else", "self", "v6", "0", "if", "Some(", "v14", "self", "v14", "match", "v14", "find_local_time_type_from_local(", "v1", "Ok(", "v15", "=>", "Ok(", "v15", "Err(", "Error", "OutOfRange(", "v16", "=>", "Err(", "Error", "FindLocalTimeType(", "v16", "v17", "=>", "v17", "else", "Ok(", "MappedLocalTime", "Single(", "v3"] := by decide +kernel

/-- src/offset/local/tz_info/timezone.rs:fn new -/
theorem src_offset_local_tz_info_timezone_rs_fn_new : C16_src_offset_local_tz_info_timezone_rs_fn_new =
    ["v1", "Vec", "<", "Transition", ">", "v2", "Vec", "<", "LocalTimeType", ">", "v3", "Vec", "<", "LeapSecond", ">", "v4", "Option", "<", "TransitionRule", ">", "->", "Result", "<", "Self", "Error", ">", "v5", "Self", "v1", "v2", "v3", "v4", "v5", "as_ref(", "validate(", "?", "Ok(", "v5", "§", "v1", "i64", "v2", "usize", "->", "Self", "Self", "v1", "v2", "§", "v1", "i64", "v2", "i32", "->", "Self", "Self", "v1", "v2", "§", "v1", "&", "u8", "->", "Result", "<", "Self", "Error", ">", "v2", "v1", "len(", "if!(", "3", "..=", "7", "contains(", "&", "v2", "return", "Err(", "Error", "LocalTimeType(", "\"…\"", "v3", "0", "8", "v3", "0", "v1", "len(", "as", "u8", "v4", "0", "while", "v4", "<", "v2", "v5", "v1", "v4", "match", "v5", "b'0'", "..=", "b'9'", "|", "b'A'", "..=", "b'Z'", "|", "b'a'", "..=", "b'z'", "|", "b'+'", "|", "b'-'", "=>", "v6", "=>", "return", "Err(", "Error", "LocalTimeType(", "\"…\"", "v3", "v4", "+", "1", "v5", "v4", "+=", "1", "Ok(", "Self", "v3", "§", "v1", "i32", "v2", "bool", "v3", "Option", "<", "&", "u8", ">", "->", "Result", "<", "Self", "Error", ">", "if", "v1", "<=", "-", "86400", "||", "v1", ">=", "86400", "return", "Err(", "Error", "LocalTimeType(", "\"…\"", "v3", "match", "v3", "Some(", "v3", "=>", "TimeZoneName", "new(", "v3", "?", "None", "=>", "return", "Ok(", "Self", "v1", "v2", "v3", "None", "Ok(", "Self", "v1", "v2", "v3", "Some(", "v3"] := by decide +kernel

/-- src/offset/local/tz_info/timezone.rs:fn unix_time_to_unix_leap_time -/
theorem src_offset_local_tz_info_timezone_rs_fn_unix_time_to_unix_leap_time : C16_src_offset_local_tz_info_timezone_rs_fn_unix_time_to_unix_leap_time =
    ["&", "self", "v1", "i64", "->", "Result", "<", "i64", "Error", ">", "v2", "v1", "v3", "0", "while", "v3", "<", "self", "v4", "len(", "v5", "&", "self", "v4", "v3", "if", "v2", "<", "v5", "v2", "break", "v2", "match", "v1", "checked_add(", "v5", "v6", "as", "i64", "Some(", "v2", "=>", "v2", "None", "=>", "return", "Err(", "Error", "OutOfRange(", "\"…\"", "v3", "+=", "1", "Ok(", "v2"] := by decide +kernel

/-- src/offset/local/tz_info/timezone.rs:fn validate -/
theorem src_offset_local_tz_info_timezone_rs_fn_validate : C16_src_offset_local_tz_info_timezone_rs_fn_validate =
    ["&", "self", "->", "Result", "<", "Error", ">", "v1", "self", "v2", "len(", "if", "v1", "==", "0", "return", "Err(", "Error", "TimeZone(", "\"…\"", "v3", "0", "while", "v3", "<", "self", "v4", "len(", "if", "self", "v4", "v3", "v5", ">=", "v1", "return", "Err(", "Error", "TimeZone(", "\"…\"", "if", "v3", "+", "1", "<", "self", "v4", "len(", "&&", "self", "v4", "v3", "v6", ">=", "self", "v4", "v3", "+", "1", "v6", "return", "Err(", "Error", "TimeZone(", "\"…\"", "v3", "+=", "1", "if!(", "self", "v7", "is_empty(", "||", "self", "v7", "0", "v6", ">=", "0", "&&", "self", "v7", "0", "v8", "saturating_abs(", "==", "1", "return", "Err(", "Error", "TimeZone(", "\"…\"", "v9", "SECONDS_PER_28_DAYS", "-", "1", "v10", "0", "while", "v10", "<", "self", "v7", "len(", "if", "v10", "+", "1", "<", "self", "v7", "len(", "v11", "&", "self", "v7", "v10", "v12", "&", "self", "v7", "v10", "+", "1", "v13", "v12", "v6", "saturating_sub(", "v11", "v6", "v14", "v12", "v8", "saturating_sub(", "v11", "v8", "saturating_abs(", "if!(", "v13", ">=", "v9", "&&", "v14", "==", "1", "return", "Err(", "Error", "TimeZone(", "\"…\"", "v10", "+=", "1", "let(", "v15", "v16", "match(", "&", "self", "v15", "self", "v4", "last(", "Some(", "v17", "Some(", "v18", "=>", "v17", "v18", "v19", "=>", "return", "Ok(", "v20", "&", "self", "v2", "v16", "v5", "v21", "match", "self", "unix_leap_time_to_unix_time(", "v16", "v6", "Ok(", "v21", "=>", "v21", "Err(", "Error", "OutOfRange(", "v22", "=>", "return", "Err(", "Error", "TimeZone(", "v22", "Err(", "v23", "=>", "return", "Err(", "v23", "v24", "match", "v15", "find_local_time_type(", "v21", "Ok(", "v24", "=>", "v24", "Err(", "Error", "OutOfRange(", "v22", "=>", "return", "Err(", "Error", "TimeZone(", "v22", "Err(", "v23", "=>", "return", "Err(", "v23", "v25", "v20", "v26", "==", "v24", "v26", "&&", "v20", "v27", "==", "v24", "v27", "&&", "match(", "&", "v20", "v28", "&", "v24", "v28", "Some(", "v29", "Some(", "v30", "=>", "v29", "equal(", "v30", "None", "None", "=>", "true", "v19", "=>", "false", "if", "!", "v25", "return", "Err(", "Error", "TimeZone(", "\"…\"", "Ok("] := by decide +kernel

/-- src/offset/local/tz_info/timezone.rs:fn with_offset -/
theorem src_offset_local_tz_info_timezone_rs_fn_with_offset : C16_src_offset_local_tz_info_timezone_rs_fn_with_offset =
    ["v1", "i32", "->", "Result", "<", "Self", "Error", ">", "if", "v1", "<=", "-", "86400", "||", "v1", ">=", "86400", "return", "Err(", "Error", "LocalTimeType(", "\"…\"", "Ok(", "Self", "v1", "v2", "false", "v3", "None"] := by decide +kernel

/-- callee src/datetime/mod.rs:fn from_naive_utc_and_offset -/
theorem callee_src_datetime_mod_rs_fn_from_naive_utc_and_offset : C16_callee_src_datetime_mod_rs_fn_from_naive_utc_and_offset =
    ["v1", "NaiveDateTime", "v2", "Tz", "Offset", "->", "DateTime", "<", "Tz", ">", "DateTime", "v1", "v2"] := by decide +kernel

/-- callee src/naive/datetime/mod.rs:fn and_utc -/
theorem callee_src_naive_datetime_mod_rs_fn_and_utc : C16_callee_src_naive_datetime_mod_rs_fn_and_utc =
    ["&", "self", "->", "DateTime", "<", "Utc", ">", "DateTime", "from_naive_utc_and_offset(", "*", "self", "Utc"] := by decide +kernel

/-- callee src/offset/local/tz_info/parser.rs:fn peek -/
theorem callee_src_offset_local_tz_info_parser_rs_fn_peek : C16_callee_src_offset_local_tz_info_parser_rs_fn_peek =
    ["&", "self", "->", "Option", "<", "&", "u8", ">", "self", "remaining(", "first("] := by decide +kernel

/-- callee src/offset/local/tz_info/parser.rs:fn read_be_i32 -/
theorem callee_src_offset_local_tz_info_parser_rs_fn_read_be_i32 : C16_callee_src_offset_local_tz_info_parser_rs_fn_read_be_i32 =
    ["v1", "&", "u8", "->", "Result", "<", "i32", "Error", ">", "if", "v1", "len(", "!=", "4", "return", "Err(", "Error", "InvalidSlice(", "\"…\"", "v2", "0", "4", "v2", "copy_from_slice(", "v1", "Ok(", "i32", "from_be_bytes(", "v2"] := by decide +kernel

/-- callee src/offset/local/tz_info/parser.rs:fn read_be_i64 -/
theorem callee_src_offset_local_tz_info_parser_rs_fn_read_be_i64 : C16_callee_src_offset_local_tz_info_parser_rs_fn_read_be_i64 =
    ["v1", "&", "u8", "->", "Result", "<", "i64", "Error", ">", "if", "v1", "len(", "!=", "8", "return", "Err(", "Error", "InvalidSlice(", "\"…\"", "v2", "0", "8", "v2", "copy_from_slice(", "v1", "Ok(", "i64", "from_be_bytes(", "v2"] := by decide +kernel

/-- callee src/offset/local/tz_info/parser.rs:fn read_be_u32 -/
theorem callee_src_offset_local_tz_info_parser_rs_fn_read_be_u32 : C16_callee_src_offset_local_tz_info_parser_rs_fn_read_be_u32 =
    ["&", "self", "->", "Result", "<", "u32", "Error", ">", "v1", "0", "4", "v1", "copy_from_slice(", "self", "read_exact(", "4", "?", "Ok(", "u32", "from_be_bytes(", "v1"] := by decide +kernel

/-- callee src/offset/local/tz_info/parser.rs:fn read_int -/
theorem callee_src_offset_local_tz_info_parser_rs_fn_read_int : C16_callee_src_offset_local_tz_info_parser_rs_fn_read_int =
    ["<", "T", "FromStr", "<", "Err", "ParseIntError", ">>", "&", "self", "->", "Result", "<", "T", "Error", ">", "v1", "self", "read_while(", "u8", "v2", "?", "Ok(", "str", "from_utf8(", "v1", "?", "parse(", "?"] := by decide +kernel

/-- callee src/offset/local/tz_info/parser.rs:fn read_optional_tag -/
theorem callee_src_offset_local_tz_info_parser_rs_fn_read_optional_tag : C16_callee_src_offset_local_tz_info_parser_rs_fn_read_optional_tag =
    ["&", "self", "v1", "&", "u8", "->", "Result", "<", "bool", "v2", "Error", ">", "if", "self", "v3", "starts_with(", "v1", "self", "read_exact(", "v1", "len(", "?", "Ok(", "true", "else", "Ok(", "false"] := by decide +kernel

/-- callee src/offset/local/tz_info/parser.rs:fn read_tag -/
theorem callee_src_offset_local_tz_info_parser_rs_fn_read_tag : C16_callee_src_offset_local_tz_info_parser_rs_fn_read_tag =
    ["&", "self", "v1", "&", "u8", "->", "Result", "<", "v2", "Error", ">", "if", "self", "read_exact(", "v1", "len(", "?", "==", "v1", "Ok(", "else", "Err(", "v2", "Error", "from(", "ErrorKind", "InvalidData"] := by decide +kernel

/-- callee src/offset/local/tz_info/parser.rs:fn read_until -/
theorem callee_src_offset_local_tz_info_parser_rs_fn_read_until : C16_callee_src_offset_local_tz_info_parser_rs_fn_read_until =
    ["<", "F", "Fn(", "&", "u8", "->", "bool", ">", "&", "self", "v1", "F", "->", "Result", "<", "&", "u8", "v2", "Error", ">", "match", "self", "v3", "iter(", "position(", "v1", "None", "=>", "self", "read_exact(", "self", "v3", "len(", "Some(", "v4", "=>", "self", "read_exact(", "v4"] := by decide +kernel

/-- callee src/offset/local/tz_info/parser.rs:fn read_while -/
theorem callee_src_offset_local_tz_info_parser_rs_fn_read_while : C16_callee_src_offset_local_tz_info_parser_rs_fn_read_while =
    ["<", "F", "Fn(", "&", "u8", "->", "bool", ">", "&", "self", "v1", "F", "->", "Result", "<", "&", "u8", "v2", "Error", ">", "match", "self", "v3", "iter(", "position(", "|", "v4", "|", "!", "f(", "v4", "None", "=>", "self", "read_exact(", "self", "v3", "len(", "Some(", "v5", "=>", "self", "read_exact(", "v5"] := by decide +kernel

/-- callee src/offset/local/tz_info/parser.rs:fn remaining -/
theorem callee_src_offset_local_tz_info_parser_rs_fn_remaining : C16_callee_src_offset_local_tz_info_parser_rs_fn_remaining =
    ["&", "self", "->", "&", "u8", "self", "v1"] := by decide +kernel

/-- callee src/offset/local/tz_info/timezone.rs:fn equal -/
theorem callee_src_offset_local_tz_info_timezone_rs_fn_equal : C16_callee_src_offset_local_tz_info_timezone_rs_fn_equal =
    ["&", "self", "v1", "&", "Self", "->", "bool", "self", "v2", "==", "v1", "v2"] := by decide +kernel

/-- callee src/offset/local/tz_info/timezone.rs:fn unix_leap_time_to_unix_time -/
theorem callee_src_offset_local_tz_info_timezone_rs_fn_unix_leap_time_to_unix_time : C16_callee_src_offset_local_tz_info_timezone_rs_fn_unix_leap_time_to_unix_time =
    ["&", "self", "v1", "i64", "->", "Result", "<", "i64", "Error", ">", "if", "v1", "==", "i64", "MIN", "return", "Err(", "Error", "OutOfRange(", "\"…\"", "v2", "match", "self", "v3", "binary_search_by_key(", "&", "v1", "-", "1", "LeapSecond", "v1", "Ok(", "v4", "=>", "v4", "+", "1", "Err(", "v4", "=>", "v4", "v5", "if", "v2", ">", "0", "self", "v3", "v2", "-", "1", "v5", "else", "0", "match", "v1", "checked_sub(", "v5", "as", "i64", "Some(", "v6", "=>", "Ok(", "v6", "None", "=>", "Err(", "Error", "OutOfRange(", "\"…\""] := by decide +kernel

end Chrono.Pins.C16
