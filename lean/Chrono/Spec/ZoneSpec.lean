/-
  Specification side for C05.  Independent of the model's control flow:
  * a proleptic Gregorian day count defined from the leap rule and the month lengths;
  * POSIX rule days (`Jn`, `n`, `Mm.w.d`) as day numbers of a year;
  * a zone as a step function of UT: `offAt z t` = type of the last transition at or before `t`,
    the first type before the first transition, the rule after the last transition;
  * `wallSet z ℓ` = the instants whose wall-clock reading is `ℓ`, by brute force over the zone's offsets;
  * `WellSeparated`: the wall-clock windows of consecutive transitions are disjoint and in order.
  Instants and wall-clock readings are integers (seconds); day 0 is 1970-01-01; weekday 0 is Sunday.
-/
import Chrono.Model.TzLookup

namespace Chrono.Spec.Zone
open Chrono Chrono.M.Tz Chrono.M.TzL

/-! ### calendar -/

/-- Gregorian leap rule (Euclidean remainders: valid for negative years too) -/
def leap (y : Int) : Bool := y % 4 = 0 ∧ (y % 100 ≠ 0 ∨ y % 400 = 0)

/-- number of leap years among the years `1 … y` (for `y ≤ 0`: minus those among `y+1 … 0`) -/
def leapsThrough (y : Int) : Int := y / 4 - y / 100 + y / 400

/-- days from 1970-01-01 to January 1 of year `y` -/
def daysBeforeYear (y : Int) : Int := 365 * (y - 1970) + (leapsThrough (y - 1) - 477)

def monthLen (lp : Bool) (m : Nat) : Int :=
  match m with
  | 1 => 31 | 2 => if lp then 29 else 28 | 3 => 31 | 4 => 30 | 5 => 31 | 6 => 30
  | 7 => 31 | 8 => 31 | 9 => 30 | 10 => 31 | 11 => 30 | 12 => 31 | _ => 0

/-- days of the year before the first of month `m` (1-based) -/
def daysBeforeMonth (lp : Bool) : Nat → Int
  | 0 => 0
  | 1 => 0
  | m + 1 => daysBeforeMonth lp m + monthLen lp m

/-- days since 1970-01-01 of the calendar date `y-m-d` -/
def dayNum (y : Int) (m : Nat) (d : Int) : Int := daysBeforeYear y + daysBeforeMonth (leap y) m + d - 1

/-- `y` is the calendar year containing day `d` -/
def IsYearOf (d y : Int) : Prop := daysBeforeYear y ≤ d ∧ d < daysBeforeYear (y + 1)

/-- the calendar year containing day `d` (estimate from the mean year length, corrected by one) -/
def yearOf (d : Int) : Int :=
  let y := 1970 + (d * 400) / 146097
  if d < daysBeforeYear y then y - 1 else if daysBeforeYear (y + 1) ≤ d then y + 1 else y

/-- weekday (0 = Sunday) of day `d`: 1970-01-01 was a Thursday -/
def weekdayOf (d : Int) : Int := (d + 4) % 7

/-! ### POSIX rule days -/

/-- day number (since 1970-01-01) of a rule day in year `y`, read off POSIX:
`Jn` = n-th day with February 29 never counted, `n` = zero-based day of the year,
`Mm.w.d` = the `w`-th weekday `d` of month `m`, `w = 5` meaning the last one -/
def ruleDayNum (d : RuleDay) (y : Int) : Int :=
  match d with
  | .julian1 n => daysBeforeYear y + ((n : Int) - 1) + (if leap y ∧ n ≥ 60 then 1 else 0)
  | .julian0 n => daysBeforeYear y + n
  | .mwd m w wd =>
    let first := dayNum y m 1
    let firstOcc := first + ((wd : Int) - weekdayOf first) % 7
    let cand := firstOcc + 7 * ((w : Int) - 1)
    if cand ≥ first + monthLen (leap y) m then cand - 7 else cand

/-- instant at which DST starts / ends in year `y` (rule times are wall-clock: standard time
before the start, daylight time before the end) -/
def startAt (a : Alt) (y : Int) : Int := ruleDayNum a.dstStart y * 86400 + a.dstStartTime - a.std.off
def endAt (a : Alt) (y : Int) : Int := ruleDayNum a.dstEnd y * 86400 + a.dstEndTime - a.dst.off

/-- both rule transitions of every year lie more than one day inside that calendar year
(the restriction the property puts on rules) -/
def InsideYear (a : Alt) : Prop :=
  ∀ y : Int, daysBeforeYear y * 86400 + 86400 < startAt a y ∧ startAt a y < daysBeforeYear (y + 1) * 86400 - 86400 ∧
             daysBeforeYear y * 86400 + 86400 < endAt a y ∧ endAt a y < daysBeforeYear (y + 1) * 86400 - 86400

/-- daylight time at `t` judged by the rule transitions of year `y` alone: in force on
`[start y, end y)` when the start precedes the end in the year, and outside `[end y, start y)`
otherwise (southern-hemisphere shape) -/
def ruleDstIn (a : Alt) (y : Int) (t : Int) : Bool :=
  if startAt a y ≤ endAt a y then decide (startAt a y ≤ t ∧ t < endAt a y)
  else !decide (endAt a y ≤ t ∧ t < startAt a y)

/-- executable form for rules satisfying `InsideYear`: only the year containing `t` matters -/
def ruleDst (a : Alt) (t : Int) : Bool := ruleDstIn a (yearOf (t / 86400)) t

def ruleOff (r : Rule) (t : Int) : Ltt :=
  match r with
  | .fixed l => l
  | .alt a => if ruleDst a t then a.dst else a.std

/-! ### the zone as a step function -/

/-- type prescribed by the transition table: the last transition at or before `t`, else type 0 -/
def tableAt (z : Zone) (t : Int) : Ltt :=
  match (z.transitions.filter (fun tr => tr.time ≤ t)).getLast? with
  | some tr => typeAt z tr.idx
  | none => typeAt z 0

/-- `t` is at or after the last transition (or there is none) -/
def afterLast (z : Zone) (t : Int) : Bool :=
  match z.transitions.getLast? with
  | none => true
  | some l => decide (l.time ≤ t)

/-- the local time type the zone data prescribe for instant `t` -/
def ltAt (z : Zone) (t : Int) : Ltt :=
  if afterLast z t then
    match z.rule with
    | some r => ruleOff r t
    | none => tableAt z t
  else tableAt z t

/-- the UTC offset prescribed for instant `t` -/
def offAt (z : Zone) (t : Int) : Int := (ltAt z t).off

/-- every offset the zone can prescribe -/
def offsets (z : Zone) : List Int :=
  z.types.map (·.off) ++
  (match z.rule with
   | some (.fixed l) => [l.off]
   | some (.alt a) => [a.std.off, a.dst.off]
   | none => [])

/-- insert into an ascending duplicate-free list -/
def insertU (x : Int) : List Int → List Int
  | [] => [x]
  | y :: ys => if x < y then x :: y :: ys else if x = y then y :: ys else y :: insertU x ys

/-- the instants whose wall-clock reading is `ℓ`, ascending and distinct -/
def wallSet (z : Zone) (ℓ : Int) : List Int :=
  (((offsets z).map (fun o => ℓ - o)).filter (fun t => t + offAt z t = ℓ)).foldr insertU []

/-- strictly increasing transition times, valid type indices, at least one type -/
def Valid (z : Zone) : Prop :=
  z.types ≠ [] ∧ (∀ tr ∈ z.transitions, tr.idx < z.types.length) ∧
  List.Pairwise (fun a b : Transition => a.time < b.time) z.transitions

/-- wall-clock windows of consecutive transitions are disjoint and in order:
walking the table with `prev` = offset before the head transition and `lo` a strict lower bound
(the upper end of the previous window) -/
def sepFrom (z : Zone) : List Transition → Int → Option Int → Bool
  | [], _, _ => true
  | tr :: rest, prev, lo =>
    let a := (typeAt z tr.idx).off
    let wlo := tr.time + min prev a
    let whi := tr.time + max prev a
    (match lo with | some l => decide (l < wlo) | none => true) && sepFrom z rest a (some whi)

def wellSeparatedB (z : Zone) : Bool := sepFrom z z.transitions (typeAt z 0).off none
def WellSeparated (z : Zone) : Prop := wellSeparatedB z = true


/-- what the property demands of a lookup by wall clock, stated on the step function `off` itself:
`none` = no instant reads `ℓ`; `single x` = exactly one instant reads `ℓ`, and it is `ℓ - x.off`;
`ambiguous x y` = exactly two, `ℓ - x.off` strictly earlier than `ℓ - y.off` -/
def Classifies (off : Int → Int) (ℓ : Int) : Mapped Ltt → Prop
  | .none => ∀ t, t + off t ≠ ℓ
  | .single x => ∀ t, t + off t = ℓ ↔ t = ℓ - x.off
  | .ambiguous x y => ℓ - x.off < ℓ - y.off ∧ ∀ t, t + off t = ℓ ↔ (t = ℓ - x.off ∨ t = ℓ - y.off)

/-- the same demand on the user-visible result, whose candidates are bare offsets
(`MappedLocalTime<FixedOffset>`) -/
def ClassifiesOff (off : Int → Int) (ℓ : Int) : Mapped Int → Prop
  | .none => ∀ t, t + off t ≠ ℓ
  | .single x => ∀ t, t + off t = ℓ ↔ t = ℓ - x
  | .ambiguous x y => ℓ - x < ℓ - y ∧ ∀ t, t + off t = ℓ ↔ (t = ℓ - x ∨ t = ℓ - y)

/-- the rule's step function within one year, in terms of the wall-clock start `S` (standard time)
and end `E` (daylight time) of daylight time in that year -/
def yearOff (a : Alt) (S E : Int) (t : Int) : Int :=
  if S < E then (if S - a.std.off ≤ t ∧ t < E - a.dst.off then a.dst.off else a.std.off)
  else (if E - a.dst.off ≤ t ∧ t < S - a.std.off then a.std.off else a.dst.off)

/-- the two rule transitions of the year are further apart than twice the offset jump -/
def RuleSeparated (a : Alt) (S E : Int) : Prop :=
  (S < E → 2 * (a.dst.off - a.std.off) < E - S ∧ 2 * (a.std.off - a.dst.off) < E - S) ∧
  (¬ S < E → 2 * (a.dst.off - a.std.off) < S - E ∧ 2 * (a.std.off - a.dst.off) < S - E)


/-! ### hypotheses of the composed wall-clock statement (table + footer rule) -/

/-- `x` lies inside calendar year `y` -/
def inYear (y x : Int) : Prop := daysBeforeYear y * 86400 < x ∧ x < daysBeforeYear (y + 1) * 86400

/-- the rule is regular year by year: each rule transition and its two wall-clock images lie inside
the calendar year, the start/end order is the same in consecutive years, and the two transitions of
a year are `RuleSeparated` -/
def RuleYearly (a : Alt) : Prop :=
  ∀ y : Int,
    inYear y (startAt a y) ∧ inYear y (startAt a y + a.std.off) ∧ inYear y (startAt a y + a.dst.off) ∧
    inYear y (endAt a y) ∧ inYear y (endAt a y + a.std.off) ∧ inYear y (endAt a y + a.dst.off) ∧
    ((startAt a y ≤ endAt a y) ↔ (startAt a (y + 1) ≤ endAt a (y + 1))) ∧
    RuleSeparated a (startAt a y + a.std.off) (endAt a y + a.dst.off)

/-! ### `InsideYear` / `RuleYearly` made decidable: one Gregorian cycle suffices

The Gregorian calendar repeats after 400 years = 146097 days = 20871 weeks exactly, so every rule day
(also the `Mm.w.d` form, which depends on the weekday) falls 146097 days later 400 years later, and the
year-by-year conditions need to be evaluated for 400 consecutive years only
(`Proofs.TzL.ruleYearly_of_B`, `insideYear_of_B`). -/

instance (y x : Int) : Decidable (inYear y x) := by unfold inYear; infer_instance
instance (a : Alt) (S E : Int) : Decidable (RuleSeparated a S E) := by unfold RuleSeparated; infer_instance

/-- the body of `InsideYear` at one year -/
def InsideYearAt (a : Alt) (y : Int) : Prop :=
  daysBeforeYear y * 86400 + 86400 < startAt a y ∧ startAt a y < daysBeforeYear (y + 1) * 86400 - 86400 ∧
  daysBeforeYear y * 86400 + 86400 < endAt a y ∧ endAt a y < daysBeforeYear (y + 1) * 86400 - 86400

/-- the body of `RuleYearly` at one year -/
def RuleYearlyAt (a : Alt) (y : Int) : Prop :=
  inYear y (startAt a y) ∧ inYear y (startAt a y + a.std.off) ∧ inYear y (startAt a y + a.dst.off) ∧
  inYear y (endAt a y) ∧ inYear y (endAt a y + a.std.off) ∧ inYear y (endAt a y + a.dst.off) ∧
  ((startAt a y ≤ endAt a y) ↔ (startAt a (y + 1) ≤ endAt a (y + 1))) ∧
  RuleSeparated a (startAt a y + a.std.off) (endAt a y + a.dst.off)

instance (a : Alt) (y : Int) : Decidable (InsideYearAt a y) := by unfold InsideYearAt; infer_instance
instance (a : Alt) (y : Int) : Decidable (RuleYearlyAt a y) := by unfold RuleYearlyAt; infer_instance

/-- `InsideYear`, evaluated on the years 2000 … 2399 -/
def insideYearB (a : Alt) : Bool := (List.range 400).all fun k => decide (InsideYearAt a (2000 + (k : Int)))
/-- `RuleYearly`, evaluated on the years 2000 … 2399 -/
def ruleYearlyB (a : Alt) : Bool := (List.range 400).all fun k => decide (RuleYearlyAt a (2000 + (k : Int)))

/-- upper end `T + max prevOff newOff` of the wall-clock window of the LAST transition of the table
(`p` = offset before the head) -/
def hiLast (z : Zone) : Int → List Transition → Int
  | p, [] => p
  | p, [tr] => tr.time + max p (typeAt z tr.idx).off
  | _, tr :: tr2 :: rest => hiLast z (typeAt z tr.idx).off (tr2 :: rest)

/-- separation between the last table transition `T` (window upper end `hi`, new offset `aL`) and the
footer rule, decidable per zone: the rule prescribes `aL` at `T` (what `TimeZone::new` validates), and
every rule transition `X` of the years around `T` either is at or before `T` with its window not above
`hi`, or is after `T` with its window strictly above `hi`.  A fixed rule must carry offset `aL`. -/
def joinSeparatedB (z : Zone) : Bool :=
  match z.rule, z.transitions.getLast? with
  | some (.alt a), some last =>
    let T := last.time
    let aL := (typeAt z last.idx).off
    let hi := hiLast z (typeAt z 0).off z.transitions
    let y0 := yearOf (T / 86400)
    decide ((ruleOff (.alt a) T).off = aL) &&
    [y0 - 1, y0, y0 + 1].all (fun y => [startAt a y, endAt a y].all (fun X =>
      (decide (X ≤ T) && decide (X + max a.std.off a.dst.off ≤ hi)) ||
      (decide (T < X) && decide (hi < X + min a.std.off a.dst.off))))
  | some (.fixed l), some last => decide (l.off = (typeAt z last.idx).off)
  | _, _ => true

def JoinSeparated (z : Zone) : Prop := joinSeparatedB z = true

/-- what the harness evaluates per zone before applying the wall-clock oracles -/
def zoneSeparatedB (z : Zone) : Bool := wellSeparatedB z && joinSeparatedB z

end Chrono.Spec.Zone
