/-
  Statement-level predicates of C14 for the zone-aware resolvers, on the Spec side (re-exported by
  Proofs/ParsedZonedL.lean and Proofs/ParsedZoneL.lean, where they used to be defined).

  * `ZonedOk p z off`        — what `to_datetime` / `to_datetime_with_timezone` (fixed zone) guarantee
  * `Consistent p c`         — `c` carries the supplied offset field and its instant is the supplied
                               timestamp field (one less allowed for a leap second)
  * `GuessIs p ofu g`        — `g` is the offset guessed from the timestamp field through the zone
  * `StepCandidate z l c`    — `c` is a value of the step zone `z` that reads `l` on the zone's wall clock
-/
import Chrono.Spec.ParsedResolveSpec
import Chrono.Spec.ZonedSpec
import Chrono.Spec.InstantSpec
import Chrono.Model.ParsedZone
namespace Chrono.Spec.Fields
open Chrono.M Chrono.Extracted Chrono.Spec

/-- what the zone-aware resolvers guarantee: the value carries offset `off`, is well formed, and
its wall clock is a naive date-time that agrees with all supplied fields and the timestamp -/
def ZonedOk (p : Parsed) (z : Zoned) (off : Int) : Prop :=
  z.off = off ∧ ZInv z ∧ (∀ x, p.offset = some x → x = off) ∧
    ∃ dt, Zoned.naive_local z = .ok dt ∧ NaiveOk p dt off

/-- a zone-aware value agrees with the offset field and the timestamp field of `p` (as far as they
are supplied): it carries exactly that offset, and its instant is exactly that timestamp — or, when
the value is a leap second, possibly one less (a timestamp cannot tell the leap second from the
second after it) -/
def Consistent (p : Parsed) (c : Zoned) : Prop :=
  (∀ x, p.offset = some x → c.off = x) ∧
  (∀ ts, p.timestamp = some ts →
    ts = instSecs c.utc ∨ (1000000000 ≤ c.utc.time.frac ∧ ts = instSecs c.utc + 1))

/-- `g` is the guessed offset: 0 without a timestamp field, else what the zone reports for the UTC
date-time `u` whose instant is the supplied timestamp -/
def GuessIs (p : Parsed) (ofu : NaiveDT → Res Int) (g : Int) : Prop :=
  (p.timestamp = none ∧ g = 0) ∨
  (∃ ts u, p.timestamp = some ts ∧ NaiveDT.from_timestamp ts (p.nanosecond.getD 0) = .ok (some u) ∧
    NDTInv u ∧ instSecs u = ts ∧ ofu u = .ok g)

/-- what a candidate of the step zone is: a well-formed value whose wall clock is the given local
date-time and whose offset is the zone's offset at its own instant -/
def StepCandidate (z : StepZone) (l : NaiveDT) (c : Zoned) : Prop :=
  ZInv c ∧ Zoned.naive_local c = .ok l ∧ instSecs c.utc = instSecs l - c.off ∧
    c.utc.time.frac = l.time.frac ∧ z.offset_at (instSecs c.utc) = c.off

end Chrono.Spec.Fields
