/-
  Specification side for C04 (zone-aware date-times).

  A zone-aware value `⟨utc, off⟩` denotes the instant of its UTC reading (`Spec.instSecs utc` whole
  seconds since the epoch, plus the nanosecond field); its wall clock is the reading of
  `instSecs utc + off` on the same proleptic calendar.  Because |off| < 1 day, wall clocks of values
  at the ends of the supported range can fall up to one day outside it: the *extended* calendar
  admits the years `MIN_YEAR − 1` and `MAX_YEAR + 1` as well (`ExtDateInv`).  Nothing here looks at
  chrono's carry/`pred_opt`/`succ_opt` structure: everything is stated through day numbers.
-/
import Chrono.Model.ZonedOps
import Chrono.Spec.InstantSpec
namespace Chrono.Spec
open Chrono.M Chrono.Extracted

/-- a packed date of the calendar extended by one year at each end: ordinal exists in its year and
the flags (leap bit, weekday of the year start) are those of the year -/
def ExtDateInv (d : Date) : Prop :=
  MIN_YEAR - 1 ≤ d.year ∧ d.year ≤ MAX_YEAR + 1 ∧ 1 ≤ d.ordinal ∧ d.ordinal ≤ yearLen d.year ∧
  d.yof % 16 = flagsOf d.year
instance (d : Date) : Decidable (ExtDateInv d) := by unfold ExtDateInv; exact inferInstance

def ExtNDTInv (dt : NaiveDT) : Prop := ExtDateInv dt.date ∧ TValid dt.time
instance (dt : NaiveDT) : Decidable (ExtNDTInv dt) := by unfold ExtNDTInv; exact inferInstance

/-- offsets a `FixedOffset` can hold -/
def OffValid (off : Int) : Prop := -86400 < off ∧ off < 86400
instance (off : Int) : Decidable (OffValid off) := by unfold OffValid; exact inferInstance

/-- a well-formed zone-aware value -/
def ZInv (z : Zoned) : Prop := NDTInv z.utc ∧ OffValid z.off
instance (z : Zoned) : Decidable (ZInv z) := by unfold ZInv; exact inferInstance

/-- the wall clock of a zone-aware value, in whole seconds since 1970-01-01T00:00:00 local -/
def wallSecs (z : Zoned) : Int := instSecs z.utc + z.off

/-- first and last day number of the supported range -/
def DAY_MIN : Int := dayNumYo MIN_YEAR 1
def DAY_MAX : Int := dayNumYo MAX_YEAR 365
/-- first and last second of the supported range -/
def SECS_MIN : Int := (DAY_MIN - EPOCH_DAY) * 86400
def SECS_MAX : Int := (DAY_MAX - EPOCH_DAY) * 86400 + 86399

/-- a reading (whole seconds since the epoch) whose date lies in `[NaiveDate::MIN, NaiveDate::MAX]` -/
def InRangeSecs (s : Int) : Prop := SECS_MIN ≤ s ∧ s ≤ SECS_MAX

instance (s : Int) : Decidable (InRangeSecs s) := by unfold InRangeSecs; exact inferInstance

/-- `MIN_UTC ≤ · ≤ MAX_UTC` in the derived order of `NaiveDateTime`: the date is in range and the
value is not a leap-second representation in the very last second -/
def InUtcRange (s frac : Int) : Prop := InRangeSecs s ∧ ¬ (s = SECS_MAX ∧ frac ≥ 1000000000)

instance (s f : Int) : Decidable (InUtcRange s f) := by unfold InUtcRange; exact inferInstance

/-- lexicographic three-way comparison of `(whole seconds, nanosecond field)` -/
def cmpKey (s1 f1 s2 f2 : Int) : Int :=
  if s1 < s2 then -1 else if s1 > s2 then 1 else if f1 < f2 then -1 else if f1 > f2 then 1 else 0

end Chrono.Spec
